/-
  Impl/ReaderPg.lean — model of the Postgres visitor glue (sql-parser/postgresql.go `walker`, `postgresColumn`, …) at the
  level of abstract statements.  Assumptions about the third-party parser (auxten/postgresql-parser), validated by the
  correspondence runs: which statement spellings are syntax errors, that `Name.String()` prints reserved words with
  double quotes while `Table.Table()` gives the bare name, and that default expressions print as written.
-/
import SqlizeModel.Impl.Element
import SqlizeModel.Impl.Stmt

namespace Sqlize

/-- identifiers the postgres parser prints back with quotes -/
def pgReserved : List String := ["select", "order", "group", "desc", "index", "user", "table", "column"]

/-- `tree.Name.String()` -/
def pgName (n : String) : String := if pgReserved.contains n then "\"" ++ n ++ "\"" else n

namespace ReaderPg

/-- `postgresColumn`: the column record and the indexes an inline PRIMARY KEY / UNIQUE declares -/
def column (c : ColDef) : Column × List Index :=
  let dflt := c.opts.filterMap (fun o => if o.kind == .default then some ({ kind := .default, dflt := .raw (defaultCanon o.dflt), hasExpr := false } : Opt) else none)
  let isPk := c.opts.any (·.kind == .primaryKey)
  let isUniq := c.opts.any (·.kind == .uniqKey)
  let name := pgName c.name
  let idxs : List Index :=
    if isPk then [{ name := "primary_key", action := .add, typ := .none, isPk := true, cols := [name] }]
    else if isUniq then [{ name := "\"\"", action := .add, typ := .unique, cols := [name] }]
    else []
  ({ name := name, action := .add, cur := { typ := some c.typ, opts := dflt.take 1 } }, idxs)

def addIdxs (m : Migration) (tb : String) : List Index → M Migration
  | [] => pure m
  | i :: rest => do
    let m' ← m.addIndex tb i
    addIdxs m' tb rest

def addCols (m : Migration) : List ColDef → M Migration
  | [] => pure m
  | c :: rest => do
    let (col, idxs) := column c
    let m1 ← m.addColumn "" col false true
    let m2 ← addIdxs m1 "" idxs
    addCols m2 rest

/-- statements whose spelling (as sqlize and the harness write them) the postgres grammar rejects -/
def rejected : Stmt → Bool
  | .addColumn _ _ .first => true
  | .addColumn _ _ (.after _) => true
  | .modifyColumn _ _ => true
  | .renameIndex _ _ _ => true
  | .dropPrimaryKey _ => true
  | .createIndex _ _ _ _ u => u != ""
  | .createTable _ _ cols _ => cols.any (fun c => c.opts.any (fun o => o.kind == .autoIncrement || o.kind == .comment))
  | _ => false

def step (m : Migration) : Stmt → M Migration
  | .createTable t _ cols _ => do
    let m ← m.addTable (Table.new t .add)
    let m := m.using_ t
    addCols m cols
  | .dropTable _ => pure m                      -- DROP TABLE is not handled by the walker
  | .addColumn t c _ => do
    let (col, idxs) := column c
    let m ← m.addColumn (pgName t) col false true
    addIdxs m (pgName t) idxs
  | .dropColumn t c => m.removeColumn (pgName t) (pgName c)
  | .renameColumn t o n => m.renameColumn (pgName t) (pgName o) (pgName n)
  | .addPrimaryKey t cols => m.addIndex (pgName t) { name := "primary_key", action := .add, typ := .none, isPk := true, cols := cols.map pgName }
  | .addFk t name col rt rc =>
    m.addForeignKey (pgName t) { name := pgName name, action := .add, table := "", column := pgName col, refTable := rt, refColumn := pgName rc }
  | .dropFk t name =>
    if (toLowerAsciiS (pgName name)).startsWith "fk" then m.removeForeignKey (pgName t) (pgName name)
    else m.removeIndex (pgName t) (pgName name)
  | .createIndex _ name cols uniq _ =>
    m.addIndex "" { name := pgName name, action := .add, typ := if uniq then .unique else .none, cols := cols.map pgName }
  | .dropIndex _ name => m.removeIndex "" (pgName name)
  | .commentOn t c text => m.addComment (pgName t) c text
  -- `AlterTableAlterColumnType`: a `modify` column carrying the new type only
  | .alterType t c typ => m.addColumn (pgName t) { name := pgName c, action := .modify, cur := { typ := some typ } } false true
  -- `AlterTableSetDefault`: a `modify` column carrying the default option only (no type)
  | .setDefault t c d =>
    m.addColumn (pgName t) { name := pgName c, action := .modify,
                             cur := { typ := none, opts := [{ kind := .default, dflt := .raw (defaultCanon d), hasExpr := false }] } } false true
  -- `AlterTableDropNotNull`: NOT NULL is not recorded by this reader, nothing to change (fix FX-pg-drop-not-null)
  | .dropNotNull _ _ => pure m
  | _ => .error "PARSE: statement rejected by the postgres grammar"
where
  toLowerAsciiS (s : String) : String := String.ofList (s.toList.map Char.toLower)

/-- the whole text is parsed first: one rejected statement rejects the script -/
def run (m : Migration) (ss : List Stmt) : M Migration :=
  if ss.any rejected then .error "PARSE: statement rejected by the postgres grammar"
  else ss.foldlM step m

end ReaderPg
end Sqlize
