/-
  Impl/Hash.lean — model of `Migration.HashValue` / `Table.hashValue` / `Column.hashValue` / `Index.hashValue`.
  The digest function is a parameter: `H : String → String` (md5 as lower-case hex) and `F : String → Int` (md5, first
  eight bytes big-endian as int64); `hashValue` instantiates them with Base/MD5.
-/
import SqlizeModel.Impl.Emit
import SqlizeModel.Impl.Render
import SqlizeModel.Base.MD5

namespace Sqlize

/-- insertion sort on strings (Go: `sort.Slice` with `<`; the result of sorting is determined by the multiset) -/
def insertStr (x : String) : List String → List String
  | [] => [x]
  | y :: r => if x < y then x :: y :: r else y :: insertStr x r

def sortStrs (l : List String) : List String := l.foldr insertStr []

/-- md5 pre-image of a column: escaped name, a blank, the dialect's type text -/
def Column.hashInput (g : Globals) (c : Column) : String := g.esc c.name ++ " " ++ c.cur.typeText

/-- md5 pre-image of an index: its statements for the empty table name, always with the upper-case templates -/
def Index.hashInput (g : Globals) (i : Index) : M String := do
  let gu := { g with lower := false }
  -- an explicit USING BTREE is the default index type: hashed as an index without USING
  let i := if i.indexType == "BTREE" then { i with indexType := "" } else i
  let ss ← i.migrationUp gu ""
  let lines ← ss.mapM (Stmt.render gu)
  pure (";".intercalate lines)

def Table.hashWith (H : String → String) (g : Globals) (t : Table) : M String := do
  let cols := sortStrs (t.cols.map (fun c => H (c.hashInput g)))
  let idxIn ← t.idxs.mapM (Index.hashInput g)
  let idxs := sortStrs (idxIn.map H)
  pure (H (";".intercalate (cols ++ idxs)))

def Migration.hashWith (H : String → String) (F : String → Int) (g : Globals) (m : Migration) : M Int :=
  if m.tables.isEmpty then pure 0
  else do
    let tbs ← m.tables.mapM (Table.hashWith H g)
    pure (F (";".intercalate tbs))

def Migration.hashValue (g : Globals) (m : Migration) : M Int := m.hashWith MD5.hex MD5.int64BE g

end Sqlize
