/-
  Impl/Diff.lean — model of `Table.Diff` (table.go:297) and `Migration.Diff` (migration.go:243).
-/
import SqlizeModel.Impl.Stmt

namespace Sqlize

/-- the bare `reference` options `AddForeignKey` attaches to a column are not part of the comparison -/
def withoutFkMarks (opts : List Opt) : List Opt := opts.filter (fun o => !(o.kind == .reference && !o.hasExpr))

/-- every single quote doubled (`RestoreStringSingleQuotes`); the same function as `String.replace "'" "''"`, written by
    structural recursion so that its injectivity can be proved (tests below; the correspondence compares the result) -/
def dqChars : List Char → List Char
  | [] => []
  | c :: r => if c == '\'' then '\'' :: '\'' :: dqChars r else c :: dqChars r

def doubleQuotes (s : String) : String := String.ofList (dqChars s.toList)

#guard doubleQuotes "b's" == "b's".replace "'" "''"
#guard doubleQuotes "''a'" == "''a'".replace "'" "''"
#guard doubleQuotes "" == "".replace "'" "''"
#guard doubleQuotes "plain — text" == "plain — text".replace "'" "''"

/-- `optionKey`: kind and restored value (`"<Tp> <StrValue>"` for options built without an expression node) -/
def Opt.key (o : Opt) : String :=
  match o.kind with
  | .default => if o.hasExpr then "DEFAULT " ++ defaultCanon o.dflt else "raw-default " ++ defaultCanon o.dflt
  | .comment => if o.hasExpr then "COMMENT '" ++ doubleQuotes o.text ++ "'" else "raw-comment " ++ o.text
  | .primaryKey => "PRIMARY KEY"
  | .notNull => "NOT NULL"
  | .null => "NULL"
  | .autoIncrement => "AUTO_INCREMENT"
  | .uniqKey => "UNIQUE KEY"
  | .reference => "REFERENCES"

/-- `hasChangedMysqlOptions(new, old)`: different number of options, or some option (kind + value) of `old` occurs a
    different number of times in `new` -/
def hasChangedOptions (new old : List Opt) : Bool :=
  let n := (withoutFkMarks new).map Opt.key
  let o := (withoutFkMarks old).map Opt.key
  n.length != o.length || o.any (fun k => n.count k != o.count k)

/-- `hasChangedMysqlType || hasChangePostgresType`: `new != nil && new.String() != old.String()`
    (nil `old` is dereferenced); SQLite types are never compared. -/
def hasChangedType (d : Dialect) (new old : Option String) : M Bool :=
  match d with
  | .sqlite => pure false
  | _ =>
    match new, old with
    | none, _ => pure false
    | some _, none => .error "nil dereference: hasChangedType(old type is nil)"
    | some a, some b => pure (a != b)

namespace Table

/-- first loop: classify the columns of the new table -/
def diffCols1 (d : Dialect) (old : Table) : List Column → M (List Column)
  | [] => pure []
  | c :: rest => do
    let c' ← (if c.action == .add then
        match old.colIdx.get? c.name with
        | some j => do
          let oc ← getIdx "Table.Diff" old.cols j
          if oc.action != .none then
            if hasChangedOptions c.cur.opts oc.cur.opts then pure { c with action := .modify, prev := oc.cur }
            else do
              let tc ← hasChangedType d c.cur.typ oc.cur.typ
              if tc then pure { c with action := .modify, prev := oc.cur } else pure { c with action := .none }
          else pure c
        | none => pure c
      else pure c : M Column)
    let rest' ← diffCols1 d old rest
    pure (c' :: rest')

/-- position (in the merged list `t`) right after the nearest predecessor that is live in `old`; 0 when there is none -/
def mergePos (t : Table) (before : List Column) : Nat :=
  match before.reverse.find? (·.action != .none) with
  | some p => match t.colIdx.get? p.name with
    | some id => id + 1
    | none => 0
  | none => 0

/-- second loop: merge the dropped columns of `old` into `t`, right after their old predecessor's position in the
    merged list.  `before` = the columns of `old` in front of the current one. -/
def diffCols2 (mysql : Bool) (t : Table) : List Column → List Column → M Table
  | _, [] => pure t
  | before, oc :: rest => do
    let t' ← (if oc.action == .add && (t.colIdx.get? oc.name).isNone then do
        let t1 ← t.addColumn { oc with action := .remove } mysql
        t1.swapOrder oc.name (t1.cols.length - 1) (mergePos t1 before)
      else pure t : M Table)
    diffCols2 mysql t' (before ++ [oc]) rest

/-- `sameIndexType`: an unspecified index type is the default one -/
def normIdxType (t : String) : String := if t == "" then "BTREE" else t

def diffIdx1 (old : Table) : List Index → M (List Index)
  | [] => pure []
  | i :: rest => do
    let i' ← (if i.action == .add then
        match old.idxIdx.get? i.name with
        | some j => do
          let oi ← getIdx "Table.Diff" old.idxs j
          if oi.action != .none then
            if i.typ == oi.typ && i.cols == oi.cols && normIdxType i.indexType == normIdxType oi.indexType then
              pure { i with action := .none }
            else pure { i with action := .modify, prev := some oi.toDef }
          else pure i
        | none => pure i
      else pure i : M Index)
    let rest' ← diffIdx1 old rest
    pure (i' :: rest')

def diffIdx2 (t : Table) : List Index → M Table
  | [] => pure t
  | oi :: rest => do
    let t' ← (if oi.action == .add && (t.idxIdx.get? oi.name).isNone then t.addIndex { oi with action := .remove }
              else pure t : M Table)
    diffIdx2 t' rest

def diffFk1 (old : Table) : List ForeignKey → M (List ForeignKey)
  | [] => pure []
  | f :: rest => do
    let f' ← (if f.action == .add then
        match old.fkIdx.get? f.name with
        | some j => do
          let of_ ← getIdx "Table.Diff" old.fks j
          if of_.action != .none then pure { of_ with action := .modify } else pure f
        | none => pure f
      else pure f : M ForeignKey)
    let rest' ← diffFk1 old rest
    pure (f' :: rest')

def diffFk2 (t : Table) : List ForeignKey → M Table
  | [] => pure t
  | of_ :: rest => do
    let t' ← (if of_.action == .add && (t.fkIdx.get? of_.name).isNone then t.addForeignKey { of_ with action := .remove }
              else pure t : M Table)
    diffFk2 t' rest

def diff (d : Dialect) (t old : Table) : M Table := do
  let cols ← diffCols1 d old t.cols
  let t := { t with cols := cols }
  let t ← diffCols2 (d == .mysql) t [] old.cols
  let idxs ← diffIdx1 old t.idxs
  let t := { t with idxs := idxs }
  let t ← diffIdx2 t old.idxs
  let fks ← diffFk1 old t.fks
  let t := { t with fks := fks }
  diffFk2 t old.fks

end Table

/-- a table the old history created and dropped again (`none`) or only dropped (`remove`) does not exist -/
def Table.exists_ (t : Table) : Bool := t.action != .none && t.action != .remove

namespace Migration

def diffTables1 (d : Dialect) (old : Migration) : List Table → M (List Table)
  | [] => pure []
  | t :: rest => do
    let t' ← (match old.tblIdx.get? t.name with
      | some j => do
        let ot ← getIdx "Migration.Diff" old.tables j
        if ot.exists_ then do
          let t1 ← t.diff d ot
          pure { t1 with action := .none }
        else pure t
      | none => pure t : M Table)
    let rest' ← diffTables1 d old rest
    pure (t' :: rest')

def diffTables2 (m : Migration) : List Table → M Migration
  | [] => pure m
  | ot :: rest => do
    let m' ← (if (m.tblIdx.get? ot.name).isNone && ot.exists_ then m.addTable { ot with action := .remove } else pure m : M Migration)
    diffTables2 m' rest

/-- `Migration.Diff(old)` -/
def diff (d : Dialect) (m old : Migration) : M Migration := do
  let ts ← diffTables1 d old m.tables
  diffTables2 { m with tables := ts } old.tables

end Migration
end Sqlize
