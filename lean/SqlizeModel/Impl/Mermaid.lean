/-
  Impl/Mermaid.lean — model of export/mermaidjs/builder.go and `Sqlize.selectTable` / `MermaidJsErd` / `MermaidJsLive`.
-/
import SqlizeModel.Impl.Emit
import SqlizeModel.Impl.Render
import SqlizeModel.Base.Base64

namespace Sqlize.Mermaid

def erdTag : String := Facts.getConst "erdTag"
def liveUrl : String := Facts.getConst "liveUrl"
def relationType : String := Facts.getConst "defaultRelationType"

/-- `Sqlize.selectTable`: all tables when none is named, else the named ones that exist, in load order -/
def selectTables (m : Migration) (need : List String) : List Table :=
  m.tables.filter (fun t => need.isEmpty || need.contains t.name)

/-- `Column.Constraint()`: the first primary-key / reference option decides -/
def constraint (c : Column) : String :=
  match c.cur.opts.find? (fun o => o.kind == .primaryKey || o.kind == .reference) with
  | some o => if o.kind == .primaryKey then "PK" else "FK"
  | none => ""

/-- `DataType()` with enum types abbreviated -/
def dataType (c : Column) : String :=
  let t := c.cur.typeText
  if (toLowerAscii t).startsWith "enum" then (t.take 4).toString else t

def attrLine (c : Column) : String :=
  let cmt := if c.cur.comment == "" then "" else "\"" ++ c.cur.comment ++ "\""
  "  " ++ dataType c ++ " " ++ c.name ++ " " ++ constraint c ++ " " ++ cmt

def entity (t : Table) : String :=
  "\n".intercalate ([" " ++ toUpperAscii t.name ++ " {"] ++ t.cols.map attrLine ++ [" }"])

/-- relation lines of one table: the first foreign key of every (table, referenced table) pair -/
def relationsGo (seen : List String) : List ForeignKey → List String
  | [] => []
  | f :: rest =>
    let key := f.table ++ "-" ++ f.refTable
    if seen.contains key then relationsGo seen rest
    else (" " ++ toUpperAscii f.table ++ " " ++ relationType ++ " " ++ toUpperAscii f.refTable ++ ": " ++ f.column) ::
      relationsGo (key :: seen) rest

def relations (t : Table) : List String := relationsGo [] t.fks

def erdOf (ts : List Table) : String :=
  erdTag ++ "\n" ++ "\n".intercalate (ts.map entity) ++ "\n" ++ "\n".intercalate (ts.flatMap relations)

def erd (m : Migration) (need : List String) : String := erdOf (selectTables m need)

def live (m : Migration) (need : List String) : String := liveUrl ++ Base64.urlEncode (erd m need)

end Sqlize.Mermaid
