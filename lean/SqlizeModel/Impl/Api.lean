/-
  Impl/Api.lean — the composition layer seen by the properties: load two scripts, diff, print.
-/
import SqlizeModel.Impl.ReaderMysql
import SqlizeModel.Impl.ReaderPg
import SqlizeModel.Impl.ReaderSqlite
import SqlizeModel.Impl.Diff
import SqlizeModel.Impl.Emit
import SqlizeModel.Impl.Render

namespace Sqlize

/-- `FromString` for one dialect's reader model (only the MySQL reader is modelled so far) -/
def readScript (g : Globals) (m : Migration) (ss : List Stmt) : M Migration :=
  match g.dialect with
  | .mysql => ReaderMysql.run m ss
  | .postgres => ReaderPg.run m ss
  | .sqlite => ReaderSqlite.run m ss

/-- load both sides from the empty model and diff: the state `Sqlize.Diff` leaves in the new side -/
def loadAndDiff (g : Globals) (old new : List Stmt) : M Migration := do
  let o ← readScript g {} old
  let n ← readScript g {} new
  n.diff g.dialect o

/-- statements of `StringUp` after `Diff` -/
def modelUp (g : Globals) (old new : List Stmt) : M (List Stmt) := do
  let d ← loadAndDiff g old new
  let (_, ss) ← d.migrationUp g
  pure ss.flatten

/-- statements of `StringDown` after `Diff` -/
def modelDown (g : Globals) (old new : List Stmt) : M (List Stmt) := do
  let d ← loadAndDiff g old new
  let (_, ss) ← d.migrationDown g
  pure ss.flatten

end Sqlize

namespace Sqlize

/-- `Sqlize.FromString`: the dialect's third-party parser runs on the whole text first (`parsed` is its outcome, an
    assumption-free parameter); only an accepted text is handed to the reader glue.  On a syntax error the error is
    returned and the model is the one passed in.  (That the Go functions parse before they edit is a regenerated fact:
    `Facts.parseBeforeEdit`.) -/
def fromString (g : Globals) (m : Migration) (parsed : Except String (List Stmt)) : Migration × Option String :=
  match parsed with
  | .error e => (m, some e)
  | .ok ss =>
    match readScript g m ss with
    | .ok m' => (m', none)
    | .error e => (m, some ("panic: " ++ e))

/-- loading a script in several calls -/
def runCalls (m : Migration) : List (List Stmt) → M Migration
  | [] => pure m
  | c :: rest => do
    let m' ← ReaderMysql.run m c
    runCalls m' rest

end Sqlize
