/-
  Impl/Stmt.lean — the DDL vocabulary sqlize itself writes and re-reads, as one Lean type.
  The emitters *produce* `Stmt`s (rendered to text by Impl/Render.lean), the reader models *consume* `Stmt`s,
  the reference engine (Spec/Exec.lean) executes them, and the grammar (Spec/Grammar.lean) parses the text the Go
  code prints back into them.
-/
import SqlizeModel.Impl.Element

namespace Sqlize

inductive Dialect | mysql | postgres | sqlite
  deriving DecidableEq, Repr, Inhabited

def Dialect.name : Dialect → String
  | .mysql => "mysql" | .postgres => "postgres" | .sqlite => "sqlite3"

/-- package-level state of `element` (`sql` template object + `ignoreFieldOrder`) -/
structure Globals where
  dialect : Dialect := .mysql
  lower : Bool := false
  ignoreOrder : Bool := false
  deriving DecidableEq, Repr, Inhabited

/-- canonical text of a default value: what `Restore` prints with the upper-case flags -/
def defaultCanon : DefaultVal → String
  | .num s => s
  | .str s => "'" ++ s.replace "'" "''" ++ "'"
  | .now => "CURRENT_TIMESTAMP()"
  | .null => "NULL"
  | .raw s => s

structure ColDef where
  name : String
  typ : String := ""            -- type text as printed ("" when the column has no type)
  opts : List Opt := []
  stripPk : Bool := false       -- MODIFY COLUMN of a column that is a key on both sides: the PRIMARY KEY option is not printed
  deriving DecidableEq, Repr, Inhabited

inductive AddPos | none | first | after (c : String)
  deriving DecidableEq, Repr, Inhabited

inductive Stmt
  | createTable (t : String) (ident : Nat) (cols : List ColDef) (pk : List String)
  | dropTable (t : String)
  | addColumn (t : String) (c : ColDef) (pos : AddPos)
  | dropColumn (t c : String)
  | modifyColumn (t : String) (c : ColDef)
  | renameColumn (t o n : String)
  | addPrimaryKey (t : String) (cols : List String)
  | dropPrimaryKey (t : String)
  | addFk (t name col refT refC : String)
  | dropFk (t name : String)
  | renameIndex (t o n : String)
  | createIndex (t name : String) (cols : List String) (unique : Bool) (usingT : String)
  | dropIndex (t name : String)
  | commentOn (t c text : String)
  -- Postgres spellings of "modify column" the reader glue handles one aspect at a time (read only: sqlize never prints them)
  | alterType (t c typ : String)                    -- ALTER TABLE t ALTER COLUMN c TYPE typ
  | setDefault (t c : String) (d : DefaultVal)      -- ALTER TABLE t ALTER COLUMN c SET DEFAULT d
  | dropNotNull (t c : String)                      -- ALTER TABLE t ALTER COLUMN c DROP NOT NULL
  deriving DecidableEq, Repr, Inhabited

def Stmt.table : Stmt → String
  | .createTable t .. | .dropTable t | .addColumn t .. | .dropColumn t _ | .modifyColumn t _ | .renameColumn t ..
  | .addPrimaryKey t _ | .dropPrimaryKey t | .addFk t .. | .dropFk t _ | .renameIndex t .. | .createIndex t ..
  | .dropIndex t _ | .commentOn t .. | .alterType t .. | .setDefault t .. | .dropNotNull t _ => t

end Sqlize
