/-
  Impl/Render.lean — statement → text, per dialect / keyword case, from the regenerated templates
  (Generated/Facts.lean).  Mirrors `sql-templates` (`apply`, `EscapeSqlName`), `fmt.Sprintf` for `%s %d %t`,
  `Column.optionsDefinition` (option restore flags) and the layout of `Migration.MigrationUp/Down`.
-/
import SqlizeModel.Impl.Stmt
import SqlizeModel.Generated.Facts

namespace Sqlize

namespace Facts
def getConst (k : String) : String := (consts.lookup k).getD ""
def getTpl (method dialect : String) (nonEmpty : Bool) : Tpl :=
  (templates.lookup (method, dialect, nonEmpty)).getD ⟨false, [.lit ("<missing template " ++ method ++ ">")]⟩
end Facts

/-- ASCII `strings.ToLower` / `strings.ToUpper` (non-ASCII letters are outside the modelled inputs) -/
def toLowerAscii (s : String) : String := String.ofList (s.toList.map Char.toLower)
def toUpperAscii (s : String) : String := String.ofList (s.toList.map Char.toUpper)

/-- the template text before the keyword-case option is applied -/
def rawTpl (d : Dialect) (method arg : String) : String :=
  String.join ((Facts.getTpl method d.name (arg != "")).pieces.map fun
    | .lit s => s
    | .upperArg => toUpperAscii arg)

/-- a template after `s.apply` (lower-casing when the lowercase option is on) -/
def Globals.tpl (g : Globals) (method : String) (arg : String := "") : String :=
  let t := Facts.getTpl method g.dialect.name (arg != "")
  let raw := rawTpl g.dialect method arg
  if t.applied && g.lower then toLowerAscii raw else raw

/-- `fmt.Sprintf` restricted to the verbs sqlize uses: each `%s`/`%d`/`%t` consumes the next (pre-rendered) argument -/
def sprintfAux : List Char → List String → List Char
  | '%' :: v :: rest, a :: as =>
    if v == 's' || v == 'd' || v == 't' then a.toList ++ sprintfAux rest as
    else '%' :: sprintfAux (v :: rest) (a :: as)
  | '%' :: v :: rest, [] =>
    if v == 's' then "%!s(MISSING)".toList ++ sprintfAux rest []
    else if v == 'd' then "%!d(MISSING)".toList ++ sprintfAux rest []
    else if v == 't' then "%!t(MISSING)".toList ++ sprintfAux rest []
    else '%' :: sprintfAux (v :: rest) []
  | c :: rest, as => c :: sprintfAux rest as
  | [], _ => []

def sprintf (tpl : String) (args : List String) : String := String.ofList (sprintfAux tpl.toList args)

def Dialect.quoteChar : Dialect → Char
  | .mysql => '`' | _ => '"'

/-- `strings.Trim(name, q)` for a one-character cutset -/
def trimChar (q : Char) (s : String) : String :=
  String.ofList ((s.toList.dropWhile (· == q)).reverse.dropWhile (· == q)).reverse

/-- `EscapeSqlName` -/
def Globals.esc (g : Globals) (name : String) : String :=
  if name == "" then "" else
    let q := g.dialect.quoteChar
    String.ofList [q] ++ trimChar q name ++ String.ofList [q]

def Globals.kw (g : Globals) (s : String) : String := if g.lower then toLowerAscii s else s

/-- single-quoted string as pingcap's `RestoreStringSingleQuotes` writes it -/
def sqlQuote (s : String) : String := "'" ++ s.replace "'" "''" ++ "'"

def DefaultVal.render (g : Globals) : DefaultVal → String
  | .num s => s
  | .str s => sqlQuote s
  | .now => g.kw "CURRENT_TIMESTAMP" ++ "()"
  | .null => g.kw "NULL"
  | .raw s => s

/-- one option as `pkDefinition` appends it (`none` = skipped; `error` = `Restore` on an option without expression) -/
def Opt.render (g : Globals) (o : Opt) : M (Option String) :=
  if g.dialect == .postgres && o.kind == .default then
    pure (some (match o.dflt with | .raw s => s | d => d.render g))
  else if o.kind == .reference && !o.hasExpr then pure none
  else
    match o.kind with
    | .primaryKey => pure (some (g.kw "PRIMARY KEY"))
    | .notNull => pure (some (g.kw "NOT NULL"))
    | .null => pure (some (g.kw "NULL"))
    | .autoIncrement => pure (some (g.kw "AUTO_INCREMENT"))
    | .uniqKey => pure (some (g.kw "UNIQUE KEY"))
    | .default =>
      if o.hasExpr then pure (some (g.kw "DEFAULT" ++ " " ++ o.dflt.render g))
      else .error "nil dereference: ColumnOption.Restore(default without expression)"
    | .comment =>
      if o.hasExpr then pure (some (g.kw "COMMENT" ++ " " ++ sqlQuote o.text))
      else .error "nil dereference: ColumnOption.Restore(comment without expression)"
    | .reference => .error "nil dereference: ColumnOption.Restore(reference)"

/-- `optionsDefinition`: `" " ++ type` then `" " ++ option` for each printed option; with `stripPk` (the MODIFY of a
    column that is a key on both sides) the PRIMARY KEY option is left out -/
def ColDef.definition (g : Globals) (c : ColDef) : M String := do
  let opts := if c.stripPk then c.opts.filter (fun o => o.kind != .primaryKey) else c.opts
  let parts ← opts.mapM (Opt.render g)
  pure (parts.foldl (fun acc p => match p with | some s => acc ++ " " ++ s | none => acc) (" " ++ c.typ))

def spaces (n : Nat) : String := String.ofList (List.replicate n ' ')

def Stmt.render (g : Globals) : Stmt → M String
  | .createTable t ident cols _ => do
    let lines ← cols.mapM (fun c => do
      let d ← c.definition g
      pure (" " ++ g.esc c.name ++ spaces (ident - c.name.utf8ByteSize) ++ d))
    pure (sprintf (g.tpl "CreateTableStm") [g.esc t, ",\n".intercalate lines, ""])
  | .dropTable t => pure (sprintf (g.tpl "DropTableStm") [g.esc t])
  | .addColumn t c pos => do
    let d ← c.definition g
    let s := g.esc c.name ++ d
    match pos with
    | .after a => pure (sprintf (g.tpl "AlterTableAddColumnAfterStm") [g.esc t, s, g.esc a])
    | .first => pure (sprintf (g.tpl "AlterTableAddColumnFirstStm") [g.esc t, s])
    | .none => pure (sprintf (g.tpl "AlterTableAddColumnStm") [g.esc t, s])
  | .dropColumn t c => pure (sprintf (g.tpl "AlterTableDropColumnStm") [g.esc t, g.esc c])
  | .modifyColumn t c => do
    let d ← c.definition g
    pure (sprintf (g.tpl "AlterTableModifyColumnStm") [g.esc t, g.esc c.name ++ d])
  | .renameColumn t o n => pure (sprintf (g.tpl "AlterTableRenameColumnStm") [g.esc t, g.esc o, g.esc n])
  | .addPrimaryKey t cols => pure (sprintf (g.tpl "CreatePrimaryKeyStm") [g.esc t, ", ".intercalate (cols.map g.esc)])
  | .dropPrimaryKey t => pure (sprintf (g.tpl "DropPrimaryKeyStm") [g.esc t])
  | .addFk t n c rt rc => pure (sprintf (g.tpl "CreateForeignKeyStm") [g.esc t, g.esc n, g.esc c, g.esc rt, g.esc rc])
  | .dropFk t n => pure (sprintf (g.tpl "DropForeignKeyStm") [g.esc t, g.esc n])
  | .renameIndex t o n => pure (sprintf (g.tpl "AlterTableRenameIndexStm") [g.esc t, g.esc o, g.esc n])
  | .createIndex t n cols uniq usingT =>
    pure (sprintf (g.tpl (if uniq then "CreateUniqueIndexStm" else "CreateIndexStm") usingT)
      [g.esc n, g.esc t, ", ".intercalate (cols.map g.esc)])
  | .dropIndex t n =>
    if g.dialect == .sqlite then pure (sprintf (g.tpl "DropIndexStm") [g.esc n])
    else pure (sprintf (g.tpl "DropIndexStm") [g.esc n, g.esc t])
  | .commentOn t c text => pure (sprintf (g.tpl "ColumnComment") [t, c, text])
  -- read-only statements: sqlize has no template for them (the emitters never produce one)
  | .alterType .. | .setDefault .. | .dropNotNull .. => .error "UNMODELLED: no template for ALTER COLUMN"

/-- layout of `Migration.MigrationUp/Down`: lines of a table joined by "\n", tables by "\n\n" -/
def renderMigration (g : Globals) (tables : List (List Stmt)) : M String := do
  let ts ← tables.mapM (fun ss => do
    let lines ← ss.mapM (Stmt.render g)
    pure ("\n".intercalate lines))
  pure ("\n\n".intercalate ts)

end Sqlize
