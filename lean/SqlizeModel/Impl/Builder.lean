/-
  Impl/Builder.lean — model of sql-builder/builder.go: `GetTableName`, `parseStruct` (reflection walk, tag
  normalisation and tag switch, Go type → SQL type tables per dialect), `AddTable` (primary key first, CREATE TABLE text,
  rename statements, comments and indexes).  A struct declaration is a value of `Decl` (what `reflect` shows: field
  names, Go types with the value-dependent cases nil / non-nil pointer, raw tag strings, the `TableName` method).
  Type names of the dialects come from the regenerated templates (sql-templates/type.go).
-/
import SqlizeModel.Impl.Render
import SqlizeModel.Impl.Snake

namespace Sqlize.Builder

mutual
  inductive GoType
    | bool | int8 | uint8 | int16 | uint16 | int | int32 | uint32 | int64 | uint64 | float32 | float64 | string | time
    | nullBool | nullInt32 | nullInt64 | nullFloat64 | nullString | nullTime
    | ptrNil                          -- nil pointer, or pointer to a zero value
    | ptrTo (t : GoType)              -- non-nil pointer to a non-zero value of `t`
    | struct (fields : List Field)    -- struct other than time.Time (embedded when tagged, else TEXT)
    | other                           -- anything else (slices, maps, …): UNSPECIFIED
  inductive Field
    | mk (name : String) (typ : GoType) (typeName : String) (tag : String)
end

def Field.name : Field → String | .mk n _ _ _ => n
def Field.typ : Field → GoType | .mk _ t _ _ => t
/-- last segment of `field.Type.String()` (used by the foreign_key tag) -/
def Field.typeName : Field → String | .mk _ _ tn _ => tn
/-- value of the configured struct tag key -/
def Field.tag : Field → String | .mk _ _ _ t => t

structure Decl where
  typeName : String
  tableNameMethod : Option String := none     -- result of `TableName()` when the method exists
  fields : List Field

structure Cfg where
  dialect : Dialect := .mysql
  lower : Bool := false
  generateComment : Bool := false
  plural : Bool := false
  tables : List (String × String) := []       -- `MappingTables`: object name ↦ table name

def Cfg.g (c : Cfg) : Globals := { dialect := c.dialect, lower := c.lower }

def snake (s : String) : String := String.ofList (Snake.toSnake s.toList)

/-- `GetTableName`: (object name, table name) -/
def tableName (c : Cfg) (d : Decl) : String :=
  match d.tableNameMethod with
  | some t => t
  | none => snake (if c.plural then d.typeName ++ "s" else d.typeName)

/-- `trimPrefix(ot, prefix)`: the literal prefix when present, else everything after the first ':' -/
def trimPrefix (ot pre : String) : String :=
  if ot.startsWith pre then (ot.drop pre.length).toString
  else match ot.splitOn ":" with
    | _ :: rest => ":".intercalate rest
    | [] => ot

def getWhenEmpty (s s2 : String) : String := if s == "" then s2 else s

/-- `createIndexName(prefix, indexColumns, column)` (the prefixed copies `cols` are computed and not used) -/
def createIndexName (_pre : String) (indexColumns : List String) (column : String) : String :=
  match indexColumns with
  | [one] => if one != column then one else "idx_" ++ one
  | [] => "idx_" ++ column
  | many => "idx_" ++ "_".intercalate many

structure FkAttrs where
  name : String := ""
  table : String := ""
  column : String := ""
  refTable : String := ""
  refColumn : String := ""
  constraint_ : String := ""

structure Attrs where
  name : String
  pre : String := ""
  typ : String := ""
  value : String := ""
  comment : String := ""
  isPk : Bool := false
  isUnique : Bool := false
  isNull : Bool := false
  isNotNull : Bool := false
  isAutoIncr : Bool := false
  fk : Option FkAttrs := none
  index : String := ""
  indexType : String := ""
  indexColumns : String := ""
  isEmbedded : Bool := false

/-- the regexp `[^0-9A-Za-z,\\-_]+` of `compileKeepEnumChar`: keep digits, letters, ',', '\\', '-', '_' -/
def keepEnumChar (c : Char) : Bool := c.isAlphanum || c == ',' || c == '\\' || c == '-' || c == '_'

def createCommentFromEnum (enums : List String) : String :=
  if enums.isEmpty then "" else "enum values: " ++ ", ".intercalate enums

def ignoredFieldComment : List String := ["id", "created_at", "updated_at", "deleted_at"]

def createCommentFromFieldName (column : String) : String :=
  if ignoredFieldComment.contains column then "" else column.replace "_" " "

/-- state threaded through the tag items of one field -/
structure TagState where
  at_ : Attrs
  history : List (String × String) := []
  pkFields : List String

/-- one tag item of the tag switch -/
def tagItem (c : Cfg) (tb pre : String) (fieldTypeName : String) (st : TagState) (ot : String) : TagState :=
  let norm := snake ot
  let a := st.at_
  let esc := c.g.esc
  if norm.startsWith "column:" then
    match (trimPrefix ot "column:").splitOn ",previous:" with
    | [one] => { st with at_ := { a with name := pre ++ one } }
    | cur :: prev :: _ => { st with at_ := { a with name := pre ++ prev }, history := st.history ++ [(prev, cur)] }
    | [] => st
  else if norm.startsWith "embedded_prefix:" then
    { st with at_ := { a with pre := trimPrefix ot "embedded_prefix:", isEmbedded := true } }
  else if norm.startsWith "foreign_key:" then
    let fk0 : FkAttrs := match a.fk with
      | some f => { f with refColumn := trimPrefix ot "foreign_key:" }
      | none => { table := tb, refColumn := trimPrefix ot "foreign_key:" }
    let refTable := (c.tables.lookup fieldTypeName).getD (snake fieldTypeName)
    let fk1 := { fk0 with refTable := refTable, name := "fk_" ++ refTable ++ "_" ++ tb }
    let fk2 := if fk1.column == "" then { fk1 with column := fk1.refColumn } else fk1
    { st with at_ := { a with fk := some fk2 } }
  else if norm.startsWith "references:" then
    let fk0 := match a.fk with | some f => f | none => { table := tb }
    { st with at_ := { a with fk := some { fk0 with column := trimPrefix ot "references:" } } }
  else if norm.startsWith "constraint:" then
    let fk0 := match a.fk with | some f => f | none => { table := tb }
    { st with at_ := { a with fk := some { fk0 with constraint_ := trimPrefix ot "constraint:" } } }
  else if norm.startsWith "type:" then
    let typ := trimPrefix ot "type:"
    let comment :=
      if c.generateComment && a.comment == "" && (toLowerAscii typ).startsWith "enum" then
        let enumRaw := (ot.drop ("type:".length + "enum".length)).toString
        createCommentFromEnum ((String.ofList (enumRaw.toList.filter keepEnumChar)).splitOn ",")
      else a.comment
    { st with at_ := { a with typ := typ, comment := comment } }
  else if norm.startsWith "default:" then
    { st with at_ := { a with value := sprintf (c.g.tpl "DefaultOption") [trimPrefix ot "default:"] } }
  else if norm.startsWith "comment:" then
    { st with at_ := { a with comment := trimPrefix ot "comment:" } }
  else if norm == "primary_key" then { st with at_ := { a with isPk := true } }
  else if norm == "index" then
    { st with at_ := { a with index := getWhenEmpty a.index (createIndexName "" [] a.name), indexColumns := esc a.name } }
  else if norm == "unique" then
    { st with at_ := { a with isUnique := true, index := getWhenEmpty a.index (createIndexName "" [] a.name),
                              indexColumns := if a.indexColumns == "" then esc a.name else a.indexColumns } }
  else if norm.startsWith "index:" then
    let idxFields := (trimPrefix ot "index:").splitOn ","
    { st with at_ := { a with index := createIndexName pre idxFields a.name,
                              indexColumns := if idxFields.length > 1 then ", ".intercalate (idxFields.map esc) else esc a.name } }
  else if norm.startsWith "unique:" then
    { st with at_ := { a with isUnique := true, index := createIndexName pre [trimPrefix ot "unique:"] a.name, indexColumns := esc a.name } }
  else if norm.startsWith "index_columns:" then
    let idxFields := (trimPrefix ot "index_columns:").splitOn ","
    { st with pkFields := if a.isPk then idxFields else st.pkFields,
              at_ := { a with index := createIndexName pre idxFields a.name, indexColumns := ", ".intercalate (idxFields.map esc) } }
  else if norm.startsWith "index_type:" then
    { st with at_ := { a with index := getWhenEmpty a.index (createIndexName pre [] a.name),
                              indexColumns := if a.indexColumns.isEmpty then ", ".intercalate ([a.name].map esc) else a.indexColumns,
                              indexType := trimPrefix ot "index_type:" } }
  else if norm == "null" then { st with at_ := { a with isNull := true } }
  else if norm == "not_null" then { st with at_ := { a with isNotNull := true } }
  else if norm == "auto_increment" then { st with at_ := { a with isAutoIncr := true } }
  else if norm == "squash" || norm == "embedded" then { st with at_ := { a with isEmbedded := true } }
  else st

def withSuffix (t suffix : String) : String := if suffix == "" then t else t ++ " " ++ suffix

/-- `sqlNullType` / `sqlPrimitiveType` / `sqlType`: (type text, isEmbedded) -/
def sqlType (c : Cfg) : GoType → String → String × Bool
  | .nullBool, _ => (withSuffix (c.g.tpl "BooleanType") (c.g.tpl "NullValue"), false)
  | .nullInt32, _ => (withSuffix (c.g.tpl "IntType") (c.g.tpl "NullValue"), false)
  | .nullInt64, _ => (withSuffix (c.g.tpl "BigIntType") (c.g.tpl "NullValue"), false)
  | .nullFloat64, _ => (withSuffix (c.g.tpl "DoubleType") (c.g.tpl "NullValue"), false)
  | .nullString, _ => (withSuffix (c.g.tpl "TextType") (c.g.tpl "NullValue"), false)
  | .nullTime, _ => (withSuffix (c.g.tpl "DatetimeType") (c.g.tpl "NullValue"), false)
  | .ptrNil, _ => (c.g.tpl "PointerType", false)
  | .ptrTo t, _ => sqlType c t (c.g.tpl "NullValue")
  | .struct _, _ => ("", true)
  | .bool, s => (withSuffix (c.g.tpl "BooleanType") s, false)
  | .int8, s | .uint8, s => (withSuffix (c.g.tpl "TinyIntType") s, false)
  | .int16, s | .uint16, s => (withSuffix (c.g.tpl "SmallIntType") s, false)
  | .int, s | .int32, s | .uint32, s => (withSuffix (c.g.tpl "IntType") s, false)
  | .int64, s | .uint64, s => (withSuffix (c.g.tpl "BigIntType") s, false)
  | .float32, s => (withSuffix (c.g.tpl "FloatType") s, false)
  | .float64, s => (withSuffix (c.g.tpl "DoubleType") s, false)
  | .string, s => (withSuffix (c.g.tpl "TextType") s, false)
  | .time, s => (withSuffix (c.g.tpl "DatetimeType") s, false)
  | .other, _ => (c.g.tpl "UnspecificType", false)

structure Parsed where
  columns : List String := []
  history : List (String × String) := []
  indexes : List String := []

/-- accumulators of one `parseStruct` call -/
structure Acc where
  rawCols : List (List String) := []
  maxLen : Nat := 0
  history : List (String × String) := []
  comments : List String := []
  indexes : List String := []
  embedCols : List String := []
  embedHistory : List (String × String) := []
  embedIndexes : List String := []
  pkFields : List String := []

mutual
  /-- `parseStruct(tableName, prefix, obj)` -/
  def parseStruct (c : Cfg) (tb pre : String) : List Field → Parsed
    | fields =>
      let acc := parseFields c tb pre fields {}
      let columns := acc.rawCols.map (fun f =>
        match f with
        | name :: rest => "  " ++ c.g.esc name ++ spaces (acc.maxLen - name.utf8ByteSize + 1) ++ " ".intercalate rest
        | [] => "")
      { columns := columns ++ acc.embedCols, history := acc.history ++ acc.embedHistory,
        indexes := acc.comments ++ (acc.indexes ++ acc.embedIndexes) }

  def parseFields (c : Cfg) (tb pre : String) : List Field → Acc → Acc
    | [], acc => acc
    | f :: rest, acc =>
      match f with
      | .mk fname ftyp ftypeName stag =>
        if stag == "-" then parseFields c tb pre rest acc
        else
          let st0 : TagState := { at_ := { name := pre ++ snake fname }, pkFields := acc.pkFields }
          let st := (stag.splitOn ";").foldl (tagItem c tb pre ftypeName) st0
          let a := st.at_
          let acc := { acc with history := acc.history ++ st.history, pkFields := st.pkFields }
          let esc := c.g.esc
          match a.fk with
          | some fk =>
            let line := sprintf (c.g.tpl "CreateForeignKeyStm") [esc fk.table, esc fk.name, esc fk.column, esc fk.refTable, esc fk.refColumn]
            parseFields c tb pre rest { acc with indexes := acc.indexes ++ [line] }
          | none =>
            -- index / primary key statements
            let acc :=
              if a.isPk then
                if st.pkFields.length > 1 then
                  { acc with indexes := acc.indexes ++ [sprintf (c.g.tpl "CreatePrimaryKeyStm") [tb, ", ".intercalate (st.pkFields.map esc)]] }
                else acc
              else if a.index != "" then
                let tplName := if a.isUnique then "CreateUniqueIndexStm" else "CreateIndexStm"
                { acc with indexes := acc.indexes ++ [sprintf (c.g.tpl tplName a.indexType) [esc a.index, esc tb, a.indexColumns]] }
              else acc
            let acc := { acc with maxLen := max acc.maxLen a.name.utf8ByteSize }
            -- the column's type
            let typed : Option (List String) × Acc :=
              if a.typ != "" then (some [a.name, a.typ], acc)
              else if ["typ", "ptr", "flag"].contains fname then (none, acc)
              else
                let (strType, isEmbedded) := sqlType c ftyp ""
                if isEmbedded && (a.isEmbedded || a.pre.length > 0) then
                  match ftyp with
                  | .struct inner =>
                    let p := parseStruct c tb (pre ++ a.pre) inner
                    (none, { acc with embedCols := acc.embedCols ++ p.columns, embedHistory := acc.embedHistory ++ p.history,
                                      embedIndexes := acc.embedIndexes ++ p.indexes })
                  | _ => (none, acc)
                else (some [a.name, if isEmbedded then c.g.tpl "TextType" else strType], acc)
            match typed with
            | (none, acc) => parseFields c tb pre rest acc
            | (some col, acc) =>
              let col := if a.isNotNull then col ++ [c.g.tpl "NotNullValue"] else if a.isNull then col ++ [c.g.tpl "NullValue"] else col
              let col := if a.value != "" then col ++ [a.value] else col
              let col := if a.isAutoIncr then col ++ [c.g.tpl "AutoIncrementOption"] else col
              let col := if a.isPk && st.pkFields.length ≤ 1 then col ++ [c.g.tpl "PrimaryOption"] else col
              let comment := if c.generateComment && a.comment == "" then createCommentFromFieldName a.name else a.comment
              let (col, acc) :=
                if comment != "" then
                  if c.dialect == .postgres then
                    (col, { acc with comments := acc.comments ++ [sprintf (c.g.tpl "ColumnComment") [esc tb, esc a.name, comment]] })
                  else (col ++ [sprintf (c.g.tpl "ColumnComment") [comment]], acc)
                else (col, acc)
              parseFields c tb pre rest { acc with rawCols := acc.rawCols ++ [col] }
end

/-- index of the first line that contains the PRIMARY KEY keyword at a position > 0 -/
def containsAfterStart (line kw : String) : Bool :=
  match line.splitOn kw with
  | first :: _ :: _ => first != ""
  | _ => false

/-- `AddTable(obj)`: the SQL text handed to `FromString` -/
def addTable (c : Cfg) (d : Decl) : String :=
  let tb := tableName c d
  let p := parseStruct c tb "" d.fields
  let kw := c.g.tpl "PrimaryOption"
  let columns := match p.columns.findIdx? (fun l => containsAfterStart l kw) with
    | some i => (p.columns[i]!) :: (p.columns.take i ++ p.columns.drop (i + 1))
    | none => p.columns
  let (tableComment, comments) :=
    if c.generateComment then
      if c.dialect == .postgres then ("", [sprintf (c.g.tpl "TableComment") [c.g.esc tb, tb]])
      else (" " ++ sprintf (c.g.tpl "TableComment") [tb], [])
    else ("", [])
  let create := sprintf (c.g.tpl "CreateTableStm") [c.g.esc tb, ",\n".intercalate columns, tableComment]
  let renames := p.history.map (fun h => sprintf (c.g.tpl "AlterTableRenameColumnStm") [c.g.esc tb, c.g.esc h.1, c.g.esc h.2])
  "\n".intercalate ([create] ++ renames ++ (comments ++ p.indexes))

end Sqlize.Builder
