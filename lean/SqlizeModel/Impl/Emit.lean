/-
  Impl/Emit.lean — model of `Arrange`, `Migration{Column,Index,ForeignKey}{Up,Down}`, `Column/Index/ForeignKey.migrationUp/Down`
  and `Migration.MigrationUp/Down`: the walk over the model that produces statements.
  The result is structured (`Stmt`); Impl/Render.lean turns it into the exact text the Go code prints.
-/
import SqlizeModel.Impl.Stmt
import SqlizeModel.Generated.Facts

namespace Sqlize

/-- `typeDefinition`: the dialect's type text, "" when the column has no type -/
def Attr.typeText (a : Attr) : String := a.typ.getD ""

def Attr.isPk (a : Attr) : Bool := a.opts.any (·.kind == .primaryKey)

def Column.colDef (c : Column) (isPrev : Bool) : ColDef :=
  let a := if isPrev then c.prev else c.cur
  { name := c.name, typ := a.typeText, opts := a.opts }

namespace Column

/-- `Column.migrationUp(tbName, after, ident)` for `ident < 0` (ALTER statements); `after = ""` means none -/
def migrationUpAlter (g : Globals) (c : Column) (tb after : String) : List Stmt :=
  match c.action with
  | .none => []
  | .add =>
    -- `ident < 0`: no positional clause under ignoreFieldOrder; else AFTER when `after != ""`, else FIRST
    [.addColumn tb (c.colDef false) (if g.ignoreOrder then .none else if after != "" then .after after else .first)]
  | .remove => if g.dialect == .sqlite then [] else [.dropColumn tb c.name]
  | .modify =>
    [.modifyColumn tb { c.colDef false with stripPk := c.cur.isPk && c.prev.isPk }]
  | .revert =>
    [.modifyColumn tb { c.colDef true with stripPk := c.prev.isPk && c.cur.isPk }]
  | .rename => [.renameColumn tb c.oldName c.name]

/-- `migrationCommentUp`: postgres only -/
def commentUp (g : Globals) (c : Column) (tb : String) : List Stmt :=
  if c.cur.comment == "" || g.dialect != .postgres then [] else [.commentOn tb c.name c.cur.comment]

def migrationDownAlter (g : Globals) (c : Column) (tb after : String) : List Stmt :=
  match c.action with
  | .none => []
  | .add => migrationUpAlter g { c with action := .remove } tb after
  | .remove => migrationUpAlter g { c with action := .add } tb after
  | .modify => migrationUpAlter g { c with action := .revert } tb after
  | .rename => migrationUpAlter g { c with name := c.oldName, oldName := c.name } tb after
  | .revert => []

end Column

namespace Index

def migrationUp (g : Globals) (i : Index) (tb : String) : M (List Stmt) :=
  match i.action with
  | .none => pure []
  | .add =>
    if i.isPk then pure [.addPrimaryKey tb i.cols]
    else match i.typ with
      | .none => pure [.createIndex tb i.name i.cols false i.indexType]
      | .unique => pure [.createIndex tb i.name i.cols true i.indexType]
      | _ => pure []
  | .remove =>
    if i.isPk then pure [.dropPrimaryKey tb] else pure [.dropIndex tb i.name]
  | .modify => do
    let rem := if i.isPk then Stmt.dropPrimaryKey tb else Stmt.dropIndex tb i.name
    let add ← (if i.isPk then pure (Stmt.addPrimaryKey tb i.cols)
      else match i.typ with
        | .none => pure (Stmt.createIndex tb i.name i.cols false i.indexType)
        | .unique => pure (Stmt.createIndex tb i.name i.cols true i.indexType)
        | _ => panicIdx "Index.migrationUp(modify)[0]" : M Stmt)
    pure [rem, add]
  | .rename => pure [.renameIndex tb i.oldName i.name]
  | .revert => pure []

def migrationDown (g : Globals) (i : Index) (tb : String) : M (List Stmt) :=
  match i.action with
  | .none => pure []
  | .add => migrationUp g { i with action := .remove } tb
  | .remove => migrationUp g { i with action := .add } tb
  | .modify =>
    match i.prev with
    | some p => migrationUp g { i with name := p.name, typ := p.typ, indexType := p.indexType, isPk := p.isPk,
                                       cols := p.cols, prev := none, action := .modify } tb
    | none => migrationUp g i tb
  | .rename => migrationUp g { i with name := i.oldName, oldName := i.name } tb
  | .revert => pure []

end Index

namespace ForeignKey

def migrationUp (f : ForeignKey) (tb : String) : List Stmt :=
  match f.action with
  | .add => [.addFk tb f.name f.column f.refTable f.refColumn]
  | .remove => [.dropFk tb f.name]
  | _ => []

def migrationDown (f : ForeignKey) (tb : String) : List Stmt :=
  match f.action with
  | .add => migrationUp { f with action := .remove } tb
  | .remove => migrationUp { f with action := .add } tb
  | _ => []     -- none → nil; modify / rename → migrationUp of the same action → nil

end ForeignKey

namespace Table

/-- `Arrange` (table.go:366): map entries in map order `σ` (a parameter: Go's iteration order is random),
    sorted by position (stable insertion sort here; Go's `sort.Slice` is unstable, ties only exist when the map is
    inconsistent with the slice), then for rank `i` the first column named `orders[i].k` is swapped into slot `i`. -/
def insertByVal (p : String × Nat) : List (String × Nat) → List (String × Nat)
  | [] => [p]
  | q :: r => if p.2 < q.2 then p :: q :: r else q :: insertByVal p r

def sortByVal (m : AMap) : AMap := m.foldl (fun acc p => insertByVal p acc) []

def arrangeGo (cols : List Column) : Nat → List (String × Nat) → M (List Column)
  | _, [] => pure cols
  | i, (k, _) :: rest =>
    match cols.findIdx? (·.name == k) with
    | none => arrangeGo cols (i + 1) rest
    | some j => do
      let ci ← getIdx "Arrange" cols i
      let cj ← getIdx "Arrange" cols j
      arrangeGo ((cols.set i cj).set j ci) (i + 1) rest

def arrange (t : Table) : M Table := do
  let cols ← arrangeGo t.cols 0 (sortByVal t.colIdx)
  pure { t with cols := cols }

/-- name of the nearest column before index `i` (walking backwards) whose action is not `skip` -/
def nearestBefore (skip : Action) (before : List Column) : String :=
  match before.reverse.find? (·.action != skip) with
  | some c => c.name
  | none => ""

/-- the `MigrateNoAction` branch of `MigrationColumnUp` / `MigrationColumnDown` -/
def walkCols (g : Globals) (tb : String) (up : Bool) : List Column → List Column → List Stmt × List String
  | _, [] => ([], [])
  | before, c :: rest =>
    let (ss, ds) := walkCols g tb up (before ++ [c]) rest
    if c.action == .none then (ss, ds)
    else
      let positioned := if up then Action.add else Action.remove
      let dropped := if up then Action.remove else Action.add
      let after := if c.action == positioned then nearestBefore dropped before else ""
      let d := if c.action == dropped then [c.name] else []
      let after' := if g.ignoreOrder then "" else after
      let s := if up then c.migrationUpAlter g tb after' else c.migrationDownAlter g tb after'
      (s ++ ss, d ++ ds)

/-- the `MigrateAddAction` branch of `MigrationColumnUp` -/
def createTableStmts (g : Globals) (t : Table) : M (List Stmt) := do
  -- `maxIdent` starts from the first column's name, or 0 for a table without columns
  let c0len := ((t.cols[0]?).map (·.name.utf8ByteSize)).getD 0
  let printed := t.cols.filter (fun c => c.action == .add || c.action == .modify || c.action == .rename)
  let maxIdent := printed.foldl (fun m c => max m c.name.utf8ByteSize) c0len
  let defs := printed.map (fun c => c.colDef false)
  let comments := t.cols.flatMap (fun c => c.commentUp g t.name)
  pure (Stmt.createTable t.name maxIdent defs [] :: comments)

def migrationColumnUp (g : Globals) (t : Table) : M (List Stmt × List String) :=
  match t.action with
  | .none => pure (walkCols g t.name true [] t.cols)
  | .add => do let ss ← createTableStmts g t; pure (ss, [])
  | .remove => pure ([.dropTable t.name], [])
  | _ => pure ([], [])

/-- drop suppression test of `MigrationIndexUp` (`allDropped`): the index has columns and all of them are dropped -/
def idxSuppressed (i : Index) (dropCols : List String) : Bool :=
  !i.cols.isEmpty && i.cols.all dropCols.contains

def walkIdx (g : Globals) (tb : String) (up : Bool) (dropCols : List String) : List Index → M (List Stmt)
  | [] => pure []
  | i :: rest => do
    let sup := idxSuppressed i dropCols
    let dropped := if up then Action.remove else Action.add
    let ss ← (if i.action != .none && (i.action != dropped || !sup) then
                (if up then i.migrationUp g tb else i.migrationDown g tb) else pure [] : M (List Stmt))
    let rs ← walkIdx g tb up dropCols rest
    pure (ss ++ rs)

def addedIdx (g : Globals) (tb : String) : List Index → M (List Stmt)
  | [] => pure []
  | i :: rest => do
    -- a renamed index of a new table is created under its new name
    let ss ← (if i.action == .add then i.migrationUp g tb
              else if i.action == .rename then Index.migrationUp g { i with action := .add } tb
              else pure [] : M (List Stmt))
    let rs ← addedIdx g tb rest
    pure (ss ++ rs)

def migrationIndexUp (g : Globals) (t : Table) (dropCols : List String) : M (List Stmt) :=
  match t.action with
  | .none => walkIdx g t.name true dropCols t.idxs
  | .add => addedIdx g t.name t.idxs
  | _ => pure []

def walkFk (tb : String) (up : Bool) (dropCols : List String) (fks : List ForeignKey) : List Stmt :=
  fks.flatMap (fun f =>
    if f.action != .none && (f.action != (if up then Action.remove else Action.add) || !dropCols.contains f.column) then
      (if up then f.migrationUp tb else f.migrationDown tb) else [])

def migrationForeignKeyUp (t : Table) (dropCols : List String) : List Stmt :=
  match t.action with
  | .none => walkFk t.name true dropCols t.fks
  | .add => t.fks.flatMap (fun f => if f.action == .add then f.migrationUp t.name else [])
  | _ => []

def migrationColumnDown (g : Globals) (t : Table) : M (List Stmt × List String) :=
  match t.action with
  | .none => pure (walkCols g t.name false [] t.cols)
  | .add => migrationColumnUp g { t with action := .remove }
  | .remove => migrationColumnUp g { t with action := .add }
  | _ => pure ([], [])

def migrationIndexDown (g : Globals) (t : Table) (dropCols : List String) : M (List Stmt) :=
  match t.action with
  | .none => walkIdx g t.name false dropCols t.idxs
  | .add => migrationIndexUp g { t with action := .remove } dropCols
  | .remove => migrationIndexUp g { t with action := .add } dropCols
  | _ => pure []

def migrationForeignKeyDown (t : Table) (dropCols : List String) : List Stmt :=
  match t.action with
  | .none => walkFk t.name false dropCols t.fks
  | .add => migrationForeignKeyUp { t with action := .remove } dropCols
  | .remove => migrationForeignKeyUp { t with action := .add } dropCols
  | _ => []

end Table

namespace Migration

/-- `utils.DefaultMigrationTable` -/
def defaultMigrationTable : String := (Facts.consts.lookup "DefaultMigrationTable").getD ""

/-- `MigrationUp` / `MigrationDown`: per table (skipping the default bookkeeping table) `Arrange`, then the three
    statement groups; returns the re-arranged state (Arrange writes into the shared column array) and the
    statements grouped per table (tables with no statement are dropped). -/
def migrate (g : Globals) (up : Bool) : List Table → M (List Table × List (List Stmt))
  | [] => pure ([], [])
  | t :: rest => do
    if t.name == defaultMigrationTable then
      let (ts, out) ← migrate g up rest
      pure (t :: ts, out)
    else
      let t' ← t.arrange
      let (cs, dropCols) ← (if up then t'.migrationColumnUp g else t'.migrationColumnDown g)
      let is ← (if up then t'.migrationIndexUp g dropCols else t'.migrationIndexDown g dropCols)
      let fs := if up then t'.migrationForeignKeyUp dropCols else t'.migrationForeignKeyDown dropCols
      let all := cs ++ is ++ fs
      let (ts, out) ← migrate g up rest
      pure (t' :: ts, if all.isEmpty then out else all :: out)

def migrationUp (g : Globals) (m : Migration) : M (Migration × List (List Stmt)) := do
  let (ts, out) ← migrate g true m.tables
  pure ({ m with tables := ts }, out)

def migrationDown (g : Globals) (m : Migration) : M (Migration × List (List Stmt)) := do
  let (ts, out) ← migrate g false m.tables
  pure ({ m with tables := ts }, out)

end Migration
end Sqlize
