/-
  Impl/ReaderSqlite.lean — model of the SQLite visitor glue (sql-parser/sqlite.go `Visit`, `parseSqliteConstrains`) for
  the statements its reader understands: CREATE TABLE and CREATE INDEX (one statement per `FromString` call).
  Identifiers are stored as rqlite prints them: table and column names with double quotes, index names bare.
  Everything else (ALTER, DROP) is left unmodelled: those statements are rejected, ignored or crash in ways that depend on
  rqlite internals (recorded findings `sqlite-reader-vocabulary`, `sqlite-one-statement-per-call`).
-/
import SqlizeModel.Impl.Element
import SqlizeModel.Impl.Stmt

namespace Sqlize.ReaderSqlite

def quoted (n : String) : String := "\"" ++ n ++ "\""

def column (c : ColDef) : M Column := do
  let opts ← c.opts.mapM (fun o => match o.kind with
    | .primaryKey => pure ({ kind := .primaryKey, hasExpr := false } : Opt)
    | .notNull => pure { kind := .notNull, hasExpr := false }
    | .default => .error "UNMODELLED sqlite DEFAULT (the reader stores a source position as the value)"
    | _ => .error "UNMODELLED sqlite column constraint")
  pure { name := quoted c.name, action := .add, cur := { typ := some c.typ, opts := opts } }

def step (m : Migration) : Stmt → M Migration
  | .createTable t _ cols pk =>
    if !pk.isEmpty then .error "UNMODELLED sqlite table constraint" else do
    let m ← m.addTable (Table.new (quoted t) .add)
    let m := m.using_ (quoted t)
    cols.foldlM (fun m c => do let col ← column c; m.addColumn (quoted t) col false) m
  | .createIndex t name cols uniq u =>
    if u != "" then .error "PARSE: USING is not SQLite" else
    m.addIndex (quoted t) { name := name, action := .add, typ := if uniq then .unique else .none, cols := cols.map quoted }
  | _ => .error "UNMODELLED sqlite statement"

def run (m : Migration) (ss : List Stmt) : M Migration := ss.foldlM step m

end Sqlize.ReaderSqlite
