/-
  Impl/Version.lean — model of the version bookkeeping of sqlize.go: `migrationUpVersion`, `migrationDownVersion`,
  `StringUpWithVersion`, `StringDownWithVersion` (templates regenerated from sql-templates/ddl.go; the templates are
  instantiated from the *instance's* dialect and case, not from the package-level template object).
-/
import SqlizeModel.Impl.Render

namespace Sqlize

structure VersionCfg where
  dialect : Dialect := .mysql
  lower : Bool := false
  table : String := "schema_migrations"

def VersionCfg.g (c : VersionCfg) : Globals := { dialect := c.dialect, lower := c.lower }

/-- `fmt.Sprintf("%t", b)` -/
def fmtBool (b : Bool) : String := if b then "true" else "false"

/-- `migrationUpVersion(ver, dirty)` -/
def bookUp (c : VersionCfg) (ver : Int) (dirty : Bool) : String :=
  if ver == 0 then sprintf (c.g.tpl "CreateTableMigration") [c.table]
  else sprintf (c.g.tpl "InsertMigrationVersion") [c.table, c.table, toString ver, fmtBool dirty]

/-- `migrationDownVersion(ver)` -/
def bookDown (c : VersionCfg) (ver : Int) : String :=
  if ver == 0 then sprintf (c.g.tpl "DropTableMigration") [c.table]
  else sprintf (c.g.tpl "RollbackMigrationVersion") [c.table]

def stringUpWithVersion (c : VersionCfg) (up : String) (ver : Int) (dirty : Bool) : String := up ++ "\n" ++ bookUp c ver dirty
def stringDownWithVersion (c : VersionCfg) (down : String) (ver : Int) : String := down ++ "\n" ++ bookDown c ver

end Sqlize
