/-
  Impl/Files.lean — model of `utils.MigrationFileName` (the sanitiser; the clock is a parameter), `Sqlize.writeFiles`
  (sqlize.go) and `utils.ReadPath` / `glob` (utils/file.go) over a file-system model `FS = path ↦ bytes`.
  Paths are joined with "/" (`filepath.Join` of a folder and a plain file name); OS behaviour — `ReadDir` returns
  entries sorted by file name, `WriteFile` creates or truncates — is assumed as modelled and validated by the runs.
-/
import SqlizeModel.Base.Chars
import SqlizeModel.Generated.Facts

namespace Sqlize.Files

/-- characters that survive the regexp `[^\w\d \-_]` -/
def keep (c : Char) : Bool := isUpper c || isLower c || isDigit c || c == '_' || c == ' ' || c == '-'

/-- `strings.Replace(s, "  ", " ", -1)`: non-overlapping, left to right -/
def squeeze : List Char → List Char
  | ' ' :: ' ' :: rest => ' ' :: squeeze rest
  | c :: rest => c :: squeeze rest
  | [] => []

def dashToUnderscore (c : Char) : Char := if c == ' ' || c == '-' then '_' else c

/-- the name part of `MigrationFileName` -/
def sanitize (name : List Char) : List Char :=
  (squeeze ((name.filter keep).map lowerC)).map dashToUnderscore

def genDescription : String := (Facts.consts.lookup "genDescription").getD ""
def emptyMigration : String := (Facts.consts.lookup "emptyMigration").getD ""

structure FileCfg where
  folder : String
  upSuffix : String
  downSuffix : String

/-- `filepath.Join(folder, file)` for a plain file name -/
def join (folder file : String) : String :=
  if folder == "" then file
  else if folder.endsWith "/" then folder ++ file else folder ++ "/" ++ file

/-- the files `writeFiles(name, migUp, migDown)` writes at clock reading `ts` (14 digits): (path, content), in order -/
def writeFiles (cfg : FileCfg) (ts : String) (name migUp migDown : String) : List (String × String) :=
  if migUp == "" && migDown == "" then []
  else
    let up := if migUp == "" then emptyMigration else migUp
    let down := if migDown == "" then emptyMigration else migDown
    let fileName := ts ++ "_" ++ String.ofList (sanitize name.toList)
    let upFile := (join cfg.folder (fileName ++ cfg.upSuffix), genDescription ++ up)
    if cfg.downSuffix != "" && cfg.downSuffix != cfg.upSuffix then
      [upFile, (join cfg.folder (fileName ++ cfg.downSuffix), genDescription ++ down)]
    else [upFile]

def insertByName (p : String × String) : List (String × String) → List (String × String)
  | [] => [p]
  | q :: r => if p.1 < q.1 then p :: q :: r else q :: insertByName p r

def sortByName (l : List (String × String)) : List (String × String) := l.foldr insertByName []

/-- `ReadPath(folder, suffix)` on the directory listing `entries` (file name ↦ content): the non-hidden entries whose
    name ends with the suffix, in ascending name order -/
def readFolder (entries : List (String × String)) (suffix : String) : List String :=
  ((sortByName entries).filter (fun e => e.1.endsWith suffix && !e.1.startsWith ".")).map (·.2)

end Sqlize.Files
