/-
  Impl/ReaderMysql.lean — model of the MySQL visitor glue (sql-parser/mysql.go `Parser.Enter`) at the level of abstract
  statements: for every statement kind, the sequence of model edits the visitor performs, in the order in which
  pingcap's `Accept` methods visit the nodes (statement node first — where all ALTER handling happens —, then its
  `TableName` child, which moves the cursor, then `ColumnDef`s, then a `REFERENCES` table name, which moves it again).
  The visiting order is an assumption about the third-party walker, validated by the correspondence runs.
-/
import SqlizeModel.Impl.Element
import SqlizeModel.Impl.Stmt

namespace Sqlize

/-- the `ColumnDef` visit: `AddColumn("", {name, add, type, options, comment})` -/
def ColDef.toColumn (c : ColDef) : Column :=
  -- the comment is the text of the (last) COMMENT option: `StrValue`, or the option's expression value
  let comment := ((c.opts.filter (·.kind == .comment)).getLast?.map (·.text)).getD ""
  { name := c.name, action := .add, cur := { typ := some c.typ, opts := c.opts, comment := comment } }

def AddPos.toPos? : AddPos → Option Pos
  | .none => Option.none
  | .first => some Pos.first
  | .after c => some (Pos.after c)

def pkIndex (cols : List String) : Index :=
  { name := "primary_key", action := .add, typ := .none, isPk := true, cols := cols }

namespace ReaderMysql

def addCols (m : Migration) : List ColDef → M Migration
  | [] => pure m
  | c :: rest => do
    let m' ← m.addColumn "" c.toColumn
    addCols m' rest

def step (m : Migration) : Stmt → M Migration
  | .createTable t _ cols pk => do
    -- Enter(CreateTableStmt): build the table with its table-level constraints, Using, AddTable (replaces a same-named table)
    let tb := Table.new t .add
    let tb ← (if pk.isEmpty then pure tb else tb.addIndex (pkIndex pk) : M Table)
    let m := m.using_ t
    let m ← m.addTable tb
    -- TableName child, then the ColumnDef children
    let m := m.using_ t
    addCols m cols
  | .dropTable t => do
    let m ← m.removeTable t
    pure (m.using_ t)
  | .addColumn t c pos => do
    -- Enter(AlterTableStmt) runs before the TableName child moves the cursor; the position is set on the named table
    let m ← (match pos.toPos? with
      | some p => m.setColumnPosition t p
      | none => pure m : M Migration)
    let m := m.using_ t
    m.addColumn "" c.toColumn
  | .dropColumn t c => do
    let m ← m.removeColumn t c
    pure (m.using_ t)
  | .modifyColumn t c => do
    let m ← m.addColumn t { name := c.name, action := .modify, cur := { typ := some c.typ } }
    let m := m.using_ t
    m.addColumn "" c.toColumn
  | .renameColumn t o n => do
    let m ← m.renameColumn t o n
    pure (m.using_ t)
  | .addPrimaryKey t cols => do
    let m ← m.addIndex t (pkIndex cols)
    pure (m.using_ t)
  | .dropPrimaryKey t => do
    let m ← m.removeIndex t "primary_key"
    pure (m.using_ t)
  | .addFk t name col rt rc => do
    let m ← m.addForeignKey t { name := name, action := .add, table := t, column := col, refTable := rt, refColumn := rc }
    let m := m.using_ t
    pure (m.using_ rt)                               -- the REFERENCES table name is visited last
  | .dropFk t name => do
    let m ← m.removeForeignKey t name
    pure (m.using_ t)
  | .renameIndex t o n => do
    let m ← m.renameIndex t o n
    pure (m.using_ t)
  | .createIndex t name cols uniq usingT => do
    let m ← m.addIndex t { name := name, action := .add, typ := if uniq then .unique else .none, indexType := usingT, cols := cols }
    pure (m.using_ t)
  | .dropIndex t name => do
    let m ← m.removeIndex t name
    pure (m.using_ t)
  | .commentOn _ _ _ => .error "PARSE: COMMENT ON COLUMN is not MySQL"
  -- the Postgres spellings of MODIFY COLUMN are outside the MySQL vocabulary of the model (never generated for it)
  | .alterType .. | .setDefault .. | .dropNotNull .. => .error "PARSE: ALTER COLUMN TYPE / SET DEFAULT / DROP NOT NULL is not in the MySQL vocabulary"

def run (m : Migration) : List Stmt → M Migration
  | [] => pure m
  | s :: rest => do
    let m' ← step m s
    run m' rest

end ReaderMysql
end Sqlize
