/-
  Impl/Atoms.lean — third-party behaviour that enters the model as data: how the MySQL parser (pingcap) prints the type
  of a column back (`FieldType.String()`), for the spellings the builder and the harness write.  An assumption about
  third-party code, validated by every correspondence case that loads such a spelling; never used in a theorem.
-/
import SqlizeModel.Impl.Render

namespace Sqlize.Atoms

def mysqlCanonBase (typ : String) : String :=
  let u := (toUpperAscii typ).replace ", " ","
  match u with
  | "INT" | "INTEGER" | "INT(11)" => "int(11)"
  | "BIGINT" | "BIGINT(20)" => "bigint(20)"
  | "TINYINT" | "TINYINT(4)" => "tinyint(4)"
  | "BOOLEAN" | "BOOL" | "TINYINT(1)" => "tinyint(1)"
  | "SMALLINT" | "SMALLINT(6)" => "smallint(6)"
  | "NUMERIC(10,2)" | "DECIMAL(10,2)" => "decimal(10,2)"
  | _ => if u.startsWith "ENUM" then "enum" ++ ((typ.drop 4).toString.replace ", " ",") else toLowerAscii typ

/-- `FieldType.String()` prints the UNSIGNED attribute in upper case behind the lower-case base type -/
def mysqlCanon (typ : String) : String :=
  if (toUpperAscii typ).endsWith " UNSIGNED" then mysqlCanonBase (typ.dropEnd 9).toString ++ " UNSIGNED" else mysqlCanonBase typ

def canonCol (d : Dialect) (c : ColDef) : ColDef :=
  match d with
  | .mysql => { c with typ := mysqlCanon c.typ }
  | _ => c

def canonStmt (d : Dialect) : Stmt → Stmt
  | .createTable t i cols pk => .createTable t i (cols.map (canonCol d)) pk
  | .addColumn t c p => .addColumn t (canonCol d c) p
  | .modifyColumn t c => .modifyColumn t (canonCol d c)
  | s => s

end Sqlize.Atoms
