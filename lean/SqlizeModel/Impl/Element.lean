/-
  Impl/Element.lean — executable model of package `element` (node.go, column.go, index.go, foreign_key.go,
  table.go, migration.go): the data structures *with* their name → position maps, tombstones, the table cursor and
  the pending column position, and the edit primitives `AddTable … RemoveForeignKey`.

  Conventions
  * Go slices are `List`s, `map[string]int` is an association list `AMap` with Go's overwrite/delete semantics.
  * Where Go would panic (index out of range, nil dereference in sqlize's own code) the model returns
    `Except.error site`.
  * Column types are canonical type texts as the third-party parser prints them (`typ = none` ⇔ nil type pointer).
  * Column options are `Opt`s: kind + payload (see `Opt`); their rendering is in Impl/Render.lean.
-/
namespace Sqlize

inductive Action | none | add | remove | modify | revert | rename
  deriving DecidableEq, Repr, Inhabited

def Action.toNat : Action → Nat
  | .none => 0 | .add => 1 | .remove => 2 | .modify => 3 | .revert => 4 | .rename => 5

/-- what a DEFAULT expression is, as far as its restored text is concerned -/
inductive DefaultVal
  | num (s : String)      -- integer / decimal literal, restored verbatim
  | str (s : String)      -- string literal, restored as '...'
  | now                   -- CURRENT_TIMESTAMP, restored as CURRENT_TIMESTAMP()
  | null                  -- NULL
  | raw (s : String)      -- postgres / sqlite readers: `StrValue` only, no expression node
  deriving DecidableEq, Repr, Inhabited

inductive OptKind | primaryKey | notNull | null | autoIncrement | default | comment | reference | uniqKey
  deriving DecidableEq, Repr, Inhabited

/-- the numeric value of pingcap's `ast.ColumnOptionType` is irrelevant; only equality of kinds is used -/
structure Opt where
  kind : OptKind
  dflt : DefaultVal := .null      -- payload of `default`
  text : String := ""             -- payload of `comment`
  hasExpr : Bool := true          -- false: built by a reader without an expression node (`Restore` would dereference nil)
  deriving DecidableEq, Repr, Inhabited

structure Attr where
  typ : Option String := none
  opts : List Opt := []
  comment : String := ""
  deriving DecidableEq, Repr, Inhabited

structure Column where
  name : String
  oldName : String := ""
  action : Action
  cur : Attr := {}
  prev : Attr := {}
  deriving DecidableEq, Repr, Inhabited

inductive KeyType | none | unique | spatial | fulltext
  deriving DecidableEq, Repr, Inhabited

/-- the part of an index record that `Table.Diff` keeps aside as `previous` when an index is redefined -/
structure IndexDef where
  name : String
  typ : KeyType := .none
  indexType : String := ""
  isPk : Bool := false
  cols : List String := []
  deriving DecidableEq, Repr, Inhabited

structure Index where
  name : String
  oldName : String := ""
  action : Action
  typ : KeyType := .none
  indexType : String := ""      -- model.IndexType.String(): "" | "BTREE" | "HASH" | "RTREE"
  isPk : Bool := false          -- CnsTyp == ConstraintPrimaryKey
  cols : List String := []
  prev : Option IndexDef := none   -- `previous`: the old side's definition of a redefined index (set by Diff only)
  deriving DecidableEq, Repr, Inhabited

def Index.toDef (i : Index) : IndexDef :=
  { name := i.name, typ := i.typ, indexType := i.indexType, isPk := i.isPk, cols := i.cols }

structure ForeignKey where
  name : String
  oldName : String := ""
  action : Action
  table : String := ""
  column : String := ""
  refTable : String := ""
  refColumn : String := ""
  deriving DecidableEq, Repr, Inhabited

inductive Pos | first | after (c : String)
  deriving DecidableEq, Repr, Inhabited

/-- `map[string]int` -/
abbrev AMap := List (String × Nat)

namespace AMap
def get? (m : AMap) (k : String) : Option Nat := (m.find? (·.1 == k)).map (·.2)
def set (m : AMap) (k : String) (v : Nat) : AMap :=
  if m.any (·.1 == k) then m.map (fun p => if p.1 == k then (k, v) else p) else m ++ [(k, v)]
def erase (m : AMap) (k : String) : AMap := m.filter (·.1 != k)
def mapVals (m : AMap) (f : Nat → Nat) : AMap := m.map (fun p => (p.1, f p.2))
end AMap

structure Table where
  name : String
  oldName : String := ""
  action : Action
  cols : List Column := []
  colIdx : AMap := []
  pendingPos : Option Pos := none
  idxs : List Index := []
  idxIdx : AMap := []
  fks : List ForeignKey := []
  fkIdx : AMap := []
  deriving Repr, Inhabited

structure Migration where
  cursor : String := ""
  tables : List Table := []
  tblIdx : AMap := []
  deriving Repr, Inhabited

abbrev M := Except String

def panicIdx (site : String) : M α := .error ("index out of range: " ++ site)

/-- `l[i]` with Go's bounds check -/
def getIdx (site : String) (l : List α) (i : Nat) : M α :=
  match l[i]? with
  | some x => pure x
  | none => panicIdx site

/-- `l[i] = x` with Go's bounds check -/
def setIdx (site : String) (l : List α) (i : Nat) (x : α) : M (List α) :=
  if i < l.length then pure (l.set i x) else panicIdx site

def modifyIdx (site : String) (l : List α) (i : Nat) (f : α → α) : M (List α) :=
  match l[i]? with
  | some x => pure (l.set i (f x))
  | none => panicIdx site

/-- the one error of the edit primitives that is not a Go panic: a `swapOrder` call outside the modelled path -/
def swapOrderUnmodelled : String :=
  "UNMODELLED swapOrder: oldID is not the last index (capacity-dependent path, defect F1)"

namespace Table

def new (name : String) (action : Action) : Table := { name, action }

/-- `swapOrder(colName, oldID, newID)`, table.go:97.
    The Go function is only well-defined (independent of slice capacity) when `oldID` is the last index and
    `newID < oldID` — which is what every call with a freshly appended column does: it duplicates the element at
    `newID`, overwrites it with the moved column, increments the map entries in `[newID, oldID)` and cuts the
    last element.  Every other path re-slices beyond `len` / removes the wrong element (defect F1); the model
    refuses it with an `UNMODELLED` error so that such cases are reported instead of silently "agreeing". -/
def swapOrder (t : Table) (colName : String) (oldID newID : Nat) : M Table :=
  if oldID == newID then pure t
  else do
    let c ← getIdx "swapOrder" t.cols oldID
    if oldID + 1 == t.cols.length && newID < oldID then
      let without := t.cols.dropLast
      let cols := without.take newID ++ c :: without.drop newID
      let idx := t.colIdx.mapVals (fun v => if newID ≤ v && v < oldID then v + 1 else v)
      pure { t with cols := cols, colIdx := idx.set colName newID }
    else .error swapOrderUnmodelled

/-- the position step of `AddColumn` (after the column has been appended / replaced at index `id`) -/
def positionStep (t : Table) (name : String) (id : Nat) : M Table :=
  match t.pendingPos with
  | none => pure t
  | some .first => do
    let t' ← t.swapOrder name id 0
    pure { t' with pendingPos := none }
  | some (.after r) =>
    match t.colIdx.get? r with
    | some afterID => do
      let t' ← t.swapOrder name id (afterID + 1)
      pure { t' with pendingPos := none }
    | none => pure { t with pendingPos := none }

/-- first `primaryKey` option among all but the last is swapped with the last -/
def pkSwap (opts : List Opt) : List Opt :=
  match opts.getLast? with
  | none => opts
  | some last =>
    let init := opts.dropLast
    match init.findIdx? (·.kind == .primaryKey) with
    | none => opts
    | some i => (init.set i last) ++ [init[i]!]

/-- `Table.AddColumn`, table.go:53.  `mysql`: the merge branch assigns `MysqlType` unconditionally; `pg`: it takes over
    `PgType` when the incoming column carries one (ALTER COLUMN … TYPE; fix FX-pg-alter-column-type); the type of a
    sqlite column (`LiteType`) is left unchanged. -/
def addColumn (t : Table) (col : Column) (mysql : Bool := true) (pg : Bool := false) : M Table :=
  match t.colIdx.get? col.name with
  | none =>
    let t' := { t with cols := t.cols ++ [col], colIdx := t.colIdx.set col.name t.cols.length }
    t'.positionStep col.name t.cols.length
  | some id => do
    let c ← getIdx "AddColumn" t.cols id
    if c.action != .add then
      let t' := { t with cols := t.cols.set id col }
      t'.positionStep col.name id
    else
      -- MySQL MODIFY COLUMN (a `modify` column carrying a MySQL type) replaces the options
      let base := if col.action == .modify && mysql && col.cur.typ.isSome then [] else c.cur.opts
      let opts := pkSwap (base ++ col.cur.opts)
      pure { t with cols := t.cols.set id { c with cur := { c.cur with opts := opts, typ := if mysql then col.cur.typ else if pg then col.cur.typ.orElse (fun _ => c.cur.typ) else c.cur.typ } } }

/-- `forgetIndex(id)`: delete the index record and its map entry, shift the entries behind it -/
def forgetIndex (t : Table) (id : Nat) : M Table := do
  let i ← getIdx "forgetIndex" t.idxs id
  pure { t with idxs := t.idxs.eraseIdx id,
                idxIdx := (t.idxIdx.erase i.name).mapVals (fun v => if v > id then v - 1 else v) }

/-- remove the last bare `reference` mark from an option list -/
def dropLastFkMark (opts : List Opt) : List Opt :=
  match (opts.reverse.findIdx? (fun o => o.kind == .reference && !o.hasExpr)) with
  | some k => opts.eraseIdx (opts.length - 1 - k)
  | none => opts

def forgetForeignKey (t : Table) (id : Nat) : M Table := do
  let f ← getIdx "forgetForeignKey" t.fks id
  -- take back the mark `AddForeignKey` left on the column(s) of that name
  let cols := t.cols.map (fun c => if c.name == f.column then { c with cur := { c.cur with opts := dropLastFkMark c.cur.opts } } else c)
  pure { t with cols := cols, fks := t.fks.eraseIdx id,
                fkIdx := (t.fkIdx.erase f.name).mapVals (fun v => if v > id then v - 1 else v) }

/-- the index clean-up loop of `removeColumn`, from the last index down to the first (`k` = number still to visit) -/
def stripColFromIndexes (t : Table) (col : String) : Nat → M Table
  | 0 => pure t
  | k + 1 => do
    let i ← getIdx "removeColumn" t.idxs k
    let cols := i.cols.filter (· != col)
    let t' ← (if cols.isEmpty && !i.cols.isEmpty then t.forgetIndex k
              else pure { t with idxs := t.idxs.set k { i with cols := cols } } : M Table)
    stripColFromIndexes t' col k

def dropFksOnCol (t : Table) (col : String) : Nat → M Table
  | 0 => pure t
  | k + 1 => do
    let f ← getIdx "removeColumn" t.fks k
    let t' ← (if f.column == col then t.forgetForeignKey k else pure t : M Table)
    dropFksOnCol t' col k

/-- `removeColumn`: unknown ⇒ append a `remove` record; created in this history (`add`, or `rename`: a renamed record
    is one that was created here, FX-renamed-column-dropped) ⇒ forget the column, strip it from the indexes (dropping the
    ones left empty) and drop the foreign keys on it; otherwise ⇒ `remove` -/
def removeColumn (t : Table) (name : String) : M Table :=
  match t.colIdx.get? name with
  | none => pure { t with cols := t.cols ++ [{ name := name, action := .remove }],
                          colIdx := t.colIdx.set name t.cols.length }
  | some id => do
    let c ← getIdx "removeColumn" t.cols id
    if c.action == .add || c.action == .rename then do
      let t1 := { t with cols := t.cols.eraseIdx id,
                         colIdx := (t.colIdx.erase name).mapVals (fun v => if v > id then v - 1 else v) }
      let t2 ← stripColFromIndexes t1 name t1.idxs.length
      dropFksOnCol t2 name t2.fks.length
    else pure { t with cols := t.cols.set id { c with action := .remove } }

def renameColumn (t : Table) (oldName newName : String) : M Table :=
  match t.colIdx.get? oldName with
  | none => pure t
  | some id => do
    let c ← getIdx "RenameColumn" t.cols id
    pure { t with cols := t.cols.set id { c with action := .rename, oldName := oldName, name := newName },
                  colIdx := (t.colIdx.set newName id).erase oldName }

def addIndex (t : Table) (idx : Index) : M Table :=
  match t.idxIdx.get? idx.name with
  | none => pure { t with idxs := t.idxs ++ [idx], idxIdx := t.idxIdx.set idx.name t.idxs.length }
  | some id => do
    let l ← setIdx "AddIndex" t.idxs id idx
    pure { t with idxs := l }

def removeIndex (t : Table) (name : String) : M Table :=
  match t.idxIdx.get? name with
  | none => pure { t with idxs := t.idxs ++ [{ name := name, action := .remove }],
                          idxIdx := t.idxIdx.set name t.idxs.length }
  | some id => do
    let i ← getIdx "RemoveIndex" t.idxs id
    if i.action == .add then t.forgetIndex id
    else pure { t with idxs := t.idxs.set id { i with action := .remove } }

def renameIndex (t : Table) (oldName newName : String) : M Table :=
  match t.idxIdx.get? oldName with
  | none => pure t
  | some id => do
    let l ← modifyIdx "RenameIndex" t.idxs id
      (fun i => { i with action := .rename, oldName := oldName, name := newName })
    pure { t with idxs := l, idxIdx := (t.idxIdx.set newName id).erase oldName }

/-- `AddForeignKey`: also appends a bare `reference` option to every column named `fk.Column` -/
def addForeignKey (t : Table) (fk : ForeignKey) : M Table := do
  let t' ← (match t.fkIdx.get? fk.name with
    | none => pure { t with fks := t.fks ++ [fk], fkIdx := t.fkIdx.set fk.name t.fks.length }
    | some id => do
      let l ← setIdx "AddForeignKey" t.fks id fk
      pure { t with fks := l } : M Table)
  pure { t' with cols := t'.cols.map (fun c =>
    if c.name == fk.column then
      { c with cur := { c.cur with opts := c.cur.opts ++ [{ kind := .reference, hasExpr := false }] } }
    else c) }

def removeForeignKey (t : Table) (name : String) : M Table :=
  match t.fkIdx.get? name with
  | none => pure { t with fks := t.fks ++ [{ name := name, action := .remove }],
                          fkIdx := t.fkIdx.set name t.fks.length }
  | some id => do
    let f ← getIdx "RemoveForeignKey" t.fks id
    if f.action == .add then t.forgetForeignKey id
    else pure { t with fks := t.fks.set id { f with action := .remove } }

end Table

namespace Migration

def using_ (m : Migration) (tb : String) : Migration := if tb != "" then { m with cursor := tb } else m

def addTable (m : Migration) (tb : Table) : M Migration :=
  match m.tblIdx.get? tb.name with
  | none => pure { m with tables := m.tables ++ [tb], tblIdx := m.tblIdx.set tb.name m.tables.length }
  | some id => do
    let l ← setIdx "AddTable" m.tables id tb
    pure { m with tables := l }

def removeTable (m : Migration) (name : String) : M Migration :=
  match m.tblIdx.get? name with
  | none => pure { m with tables := m.tables ++ [Table.new name .remove], tblIdx := m.tblIdx.set name m.tables.length }
  | some id => do
    let t ← getIdx "RemoveTable" m.tables id
    if t.action == .add then
      -- created and dropped within the same history: forget the table
      pure { m with tables := m.tables.eraseIdx id,
                    tblIdx := (m.tblIdx.erase name).mapVals (fun v => if v > id then v - 1 else v) }
    else pure { m with tables := m.tables.set id { t with action := .remove } }

def renameTable (m : Migration) (oldName newName : String) : M Migration :=
  match m.tblIdx.get? oldName with
  | none => pure m
  | some id => do
    let l ← modifyIdx "RenameTable" m.tables id
      (fun t => { t with action := .remove, oldName := oldName, name := newName })
    pure { m with tables := l, tblIdx := (m.tblIdx.set newName id).erase oldName }

def resolve (m : Migration) (tb : String) : String := if tb == "" then m.cursor else tb

/-- the "unknown table ⇒ append `{tb, modify}`" prologue shared by several primitives;
    returns the migration and the index of the table -/
def ensureTable (m : Migration) (tb : String) : M (Migration × Nat) :=
  match m.tblIdx.get? tb with
  | some id => pure (m, id)
  | none => do
    let m' ← m.addTable (Table.new tb .modify)
    -- `id = len(m.Tables) - 1`
    pure (m', m'.tables.length - 1)

def onTable (m : Migration) (site : String) (id : Nat) (f : Table → M Table) : M Migration := do
  let t ← getIdx site m.tables id
  let t' ← f t
  pure { m with tables := m.tables.set id t' }

def addColumn (m : Migration) (tb : String) (col : Column) (mysql : Bool := true) (pg : Bool := false) : M Migration := do
  let (m', id) ← m.ensureTable (m.resolve tb)
  m'.onTable "Migration.AddColumn" id (·.addColumn col mysql pg)

def setColumnPosition (m : Migration) (tb : String) (pos : Pos) : M Migration :=
  match m.tblIdx.get? (m.resolve tb) with
  | some id => m.onTable "SetColumnPosition" id (fun t => pure { t with pendingPos := some pos })
  | none => pure m

def removeColumn (m : Migration) (tb col : String) : M Migration := do
  let (m', id) ← m.ensureTable (m.resolve tb)
  m'.onTable "Migration.RemoveColumn" id (·.removeColumn col)

def renameColumn (m : Migration) (tb o n : String) : M Migration :=
  match m.tblIdx.get? (m.resolve tb) with
  | some id => m.onTable "Migration.RenameColumn" id (·.renameColumn o n)
  | none => pure m

def addComment (m : Migration) (tb col comment : String) : M Migration :=
  match m.tblIdx.get? (m.resolve tb) with
  | none => pure m
  | some id => m.onTable "AddComment" id (fun t =>
    match t.colIdx.get? col with
    | none => pure t
    | some ci => do
      let l ← modifyIdx "AddComment" t.cols ci (fun c => { c with cur := { c.cur with comment := comment } })
      pure { t with cols := l })

def addIndex (m : Migration) (tb : String) (idx : Index) : M Migration := do
  let (m', id) ← m.ensureTable (m.resolve tb)
  m'.onTable "Migration.AddIndex" id (·.addIndex idx)

def removeIndex (m : Migration) (tb name : String) : M Migration := do
  let (m', id) ← m.ensureTable (m.resolve tb)
  m'.onTable "Migration.RemoveIndex" id (·.removeIndex name)

def renameIndex (m : Migration) (tb o n : String) : M Migration :=
  match m.tblIdx.get? (m.resolve tb) with
  | some id => m.onTable "Migration.RenameIndex" id (·.renameIndex o n)
  | none => pure m

def addForeignKey (m : Migration) (tb : String) (fk : ForeignKey) : M Migration := do
  let tbName := m.resolve tb
  let fk := if fk.table == "" then { fk with table := tbName } else fk
  let (m', id) ← m.ensureTable tbName
  m'.onTable "Migration.AddForeignKey" id (·.addForeignKey fk)

def removeForeignKey (m : Migration) (tb name : String) : M Migration := do
  let (m', id) ← m.ensureTable (m.resolve tb)
  m'.onTable "Migration.RemoveForeignKey" id (·.removeForeignKey name)

end Migration
end Sqlize
