/-
  Impl/Snake.lean — model of `utils.ToSnakeCase` (utils/str.go) on ASCII input.

  Go:  for i, c := range input { switch { case isUppercase(c): if i > 0 && (upperCount == 0 || nextIsLower(input, i)) { '_' } ; lower c ; upperCount++
                                        case isLowercase(c): c ; upperCount = 0
                                        default (digit/other): c } }
  Only `upperCount == 0` is ever tested, so the counter is modelled by `up : Bool` (= upperCount > 0).
  `first` is `i == 0`.  `nextIsLower` sees the rest of the input after the current character.
  Non-ASCII input is outside the model (Go writes `byte(c)`, truncating runes); the property is about ASCII identifiers.
-/
import SqlizeModel.Base.Chars

namespace Sqlize.Snake

/-- `nextIsLower(input, i)` where `rest = input[i+1:]`: next char is lower case, but not a final `s`. -/
def nextIsLower : List Char → Bool
  | [] => false
  | [c] => if c = 's' then false else isLower c
  | c :: _ :: _ => isLower c

/-- one mark per input character: `true` = an underscore is inserted in front of it. -/
def marksGo (first up : Bool) : List Char → List Bool
  | [] => []
  | c :: rest =>
    if isUpper c then
      (!first && (!up || nextIsLower rest)) :: marksGo false true rest
    else if isLower c then false :: marksGo false false rest
    else false :: marksGo false up rest

def marks (s : List Char) : List Bool := marksGo true false s

/-- the transducer itself, as the Go loop writes bytes -/
def go (first up : Bool) : List Char → List Char
  | [] => []
  | c :: rest =>
    if isUpper c then
      if !first && (!up || nextIsLower rest) then '_' :: lowerC c :: go false true rest
      else lowerC c :: go false true rest
    else if isLower c then c :: go false false rest
    else c :: go false up rest

def toSnake (s : List Char) : List Char := go true false s

/-- output characters tagged with "this underscore was inserted" -/
def renderMarked : List Char → List Bool → List (Char × Bool)
  | c :: cs, m :: ms => (if m then [('_', true), (lowerC c, false)] else [(lowerC c, false)]) ++ renderMarked cs ms
  | _, _ => []

def stripUnderscore (s : List Char) : List Char := s.filter (· ≠ '_')

end Sqlize.Snake
