/-
  Impl/Avro.lean — model of export/avro (builder.go, schema.go) and `Sqlize.ArvoSchema`: one JSON document per
  selected table for the mysql dialect, nothing for the others.  The JSON text is produced exactly as
  `encoding/json` marshals the Go values (struct fields in declaration order, map keys sorted, `omitempty` defaults).
  The MySQL type class is read off the canonical type text (`tinyint(4)`, `decimal(10,2)`, `enum('a','b')`, …).
-/
import SqlizeModel.Impl.Mermaid

namespace Sqlize.Avro

inductive Kind
  | bool | int | float | str
  | decimal (precision scale : String)
  | zoned | json
  | enum (allowed : String)
  deriving DecidableEq, Repr

def splitArgs (typ : String) : List String :=
  match typ.splitOn "(" with
  | _ :: rest :: _ => ((rest.splitOn ")").headD "").splitOn ","
  | _ => []

def baseName (typ : String) : String := ((typ.splitOn "(").headD "").trimAscii.toString

/-- enum elements: the quoted items of `enum('a','b')`, joined by "," -/
def enumAllowed (typ : String) : String :=
  let inner := match typ.splitOn "(" with
    | _ :: rest => "(".intercalate rest
    | [] => ""
  let inner := (inner.dropEndWhile (fun c => c == ')' || c == ' ')).toString
  ",".intercalate ((inner.splitOn ",").map (fun s => ((s.trimAscii.toString.dropWhile (· == '\'')).toString.dropEndWhile (· == '\'')).toString))

/-- `getAvroType`: `GetType()` first (tinyint, enum), then `EvalType()` -/
def kindOf (typ : String) : Kind :=
  let b := baseName typ
  if b == "tinyint" then .bool
  else if b == "enum" then .enum (enumAllowed typ)
  else if ["smallint", "mediumint", "int", "bigint", "year", "bit"].contains b then .int
  else if b == "decimal" then
    match splitArgs typ with
    | [p, s] => .decimal p.trimAscii.toString s.trimAscii.toString
    | [p] => .decimal p.trimAscii.toString "0"
    | _ => .decimal "11" "0"
  else if b == "float" || b == "double" then .float
  else if b == "date" || b == "datetime" || b == "timestamp" then .zoned
  else if b == "json" then .json
  else .str

def jsonStr (s : String) : String := "\"" ++ (s.replace "\\" "\\\\").replace "\"" "\\\"" ++ "\""

def Kind.toJson : Kind → String
  | .bool => "\"bool\""
  | .int => "\"int\""
  | .float => "\"float64\""
  | .str => "\"string\""
  | .decimal p s =>
    "{\"connect.name\":\"org.apache.kafka.connect.data.Decimal\",\"connect.parameters\":{\"connect.decimal.precision\":" ++ jsonStr p ++
    ",\"scale\":" ++ jsonStr s ++ "},\"connect.version\":1,\"logicalType\":\"decimal\",\"precision\":" ++ p ++ ",\"scale\":" ++ s ++ ",\"type\":\"bytes\"}"
  | .zoned => "{\"connect.default\":\"1970-01-01T00:00:00Z\",\"connect.name\":\"io.debezium.time.ZonedTimestamp\",\"connect.version\":1,\"type\":\"string\"}"
  | .json => "{\"connect.name\":\"io.debezium.data.Json\",\"connect.version\":1,\"type\":\"string\"}"
  | .enum a => "{\"connect.default\":\"init\",\"connect.name\":\"io.debezium.data.Enum\",\"connect.parameters\":{\"allowed\":" ++ jsonStr a ++
    "},\"connect.version\":1,\"type\":\"string\"}"

def hasDefault (c : Column) : Bool := c.cur.opts.any (·.kind == .default)

def field (c : Column) : String :=
  let k := (kindOf c.cur.typeText).toJson
  "{\"name\":" ++ jsonStr c.name ++ ",\"type\":" ++ (if hasDefault c then "[\"null\"," ++ k ++ "]" else k) ++ "}"

def schema (t : Table) : String :=
  "{\"type\":\"record\",\"name\":" ++ jsonStr t.name ++ ",\"namespace\":" ++ jsonStr t.name ++
  ",\"fields\":[{\"name\":\"before\",\"type\":[\"null\",{\"type\":\"record\",\"name\":\"Value\",\"namespace\":\"\",\"fields\":[" ++
  ",".intercalate (t.cols.map field) ++
  "],\"connect.name\":\"\"}]},{\"name\":\"after\",\"type\":[\"null\",\"Value\"]},{\"name\":\"op\",\"type\":\"string\"},{\"name\":\"ts_ms\",\"type\":[\"null\",\"long\"]},{\"name\":\"transaction\",\"type\":[\"null\",{\"type\":\"record\",\"name\":\"ConnectDefault\",\"namespace\":\"io.confluent.connect.avro\",\"fields\":[{\"name\":\"id\",\"type\":\"string\"},{\"name\":\"total_order\",\"type\":\"long\"},{\"name\":\"data_collection_order\",\"type\":\"long\"}],\"connect.name\":\"\"}]}],\"connect.name\":" ++
  jsonStr t.name ++ "}"

/-- `Sqlize.ArvoSchema(needTables...)` -/
def arvoSchema (d : Dialect) (m : Migration) (need : List String) : List String :=
  if d != .mysql then [] else (Mermaid.selectTables m need).map schema

end Sqlize.Avro
