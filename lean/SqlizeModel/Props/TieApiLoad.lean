/-
  Props/TieApiLoad.lean — a regenerated tie (written by bin/mktie).  `Facts.apiLoadSkeleton` is extracted from /repo on every run
  (harness/cmd/factgen/skeleton.go, go/ast): for every function of the constructor, options and load / diff / print entry points of `sqlize.go` its control skeleton — the control
  statements with their conditions and the selector calls, in source order; assignments and plain expressions are left
  out.  `expectedApiLoadSkeleton` is the skeleton the hand-written models of the constructor, options and load / diff / print entry points of `sqlize.go` (Impl/Api.lean) were written
  against.  A changed condition, a dropped or added branch, loop, early exit or call breaks `api_load_skeleton_as_modelled` on the next
  run even when no generated input exercises the change; the check then searches for a failing input and reports the
  broken tie either way.
-/
import SqlizeModel.Generated.Skeletons

namespace Sqlize.Tie

def expectedApiLoadSkeleton : List (String × List String) := [
  ("options:WithCommentGenerate", ["return", "call newFuncSqlizeOption", "func{", "}"]),
  ("options:WithIgnoreFieldOrder", ["return", "call newFuncSqlizeOption", "func{", "}"]),
  ("options:WithMigrationFolder", ["return", "call newFuncSqlizeOption", "func{", "}"]),
  ("options:WithMigrationSuffix", ["return", "call newFuncSqlizeOption", "func{", "}"]),
  ("options:WithMigrationTable", ["return", "call newFuncSqlizeOption", "func{", "}"]),
  ("options:WithMysql", ["return", "call newFuncSqlizeOption", "func{", "}"]),
  ("options:WithPluralTableName", ["return", "call newFuncSqlizeOption", "func{", "}"]),
  ("options:WithPostgresql", ["return", "call newFuncSqlizeOption", "func{", "}"]),
  ("options:WithSqlLowercase", ["return", "call newFuncSqlizeOption", "func{", "}"]),
  ("options:WithSqlTag", ["return", "call newFuncSqlizeOption", "func{", "}"]),
  ("options:WithSqlUppercase", ["return", "call newFuncSqlizeOption", "func{", "}"]),
  ("options:WithSqlite", ["return", "call newFuncSqlizeOption", "func{", "}"]),
  ("options:WithSqlserver", ["return", "call newFuncSqlizeOption", "func{", "}"]),
  ("options:funcSqlizeOption.apply", ["call f"]),
  ("options:newFuncSqlizeOption", ["return"]),
  ("sqlize:NewSqlize", ["range opts", "do{", "call apply", "}", "call WithSqlTag", "call WithDialect", "if o.lowercase", "then{", "call WithSqlLowercase", "}", "if o.generateComment", "then{", "call WithCommentGenerate", "}", "if o.pluralTableName", "then{", "call WithPluralTableName", "}", "call NewSqlBuilder", "return", "call NewParser"]),
  ("sqlize:Sqlize.Diff", ["if s.dialect != old.dialect", "then{", "call panic", "}", "call Diff"]),
  ("sqlize:Sqlize.FromObjects", ["range objs", "do{", "call GetTableName", "}", "call MappingTables", "range objs", "do{", "call FromString", "call AddTable", "if err != nil", "then{", "return", "}", "}", "return"]),
  ("sqlize:Sqlize.FromString", ["return", "call Parser"]),
  ("sqlize:Sqlize.StringDown", ["return", "call MigrationDown"]),
  ("sqlize:Sqlize.StringUp", ["return", "call MigrationUp"])]

theorem api_load_skeleton_as_modelled : Facts.apiLoadSkeleton = expectedApiLoadSkeleton := rfl

end Sqlize.Tie
