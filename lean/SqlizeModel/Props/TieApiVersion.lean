/-
  Props/TieApiVersion.lean — a regenerated tie (written by bin/mktie).  `Facts.apiVersionSkeleton` is extracted from /repo on every run
  (harness/cmd/factgen/skeleton.go, go/ast): for every function of the version entry points of `sqlize.go` its control skeleton — the control
  statements with their conditions and the selector calls, in source order; assignments and plain expressions are left
  out.  `expectedApiVersionSkeleton` is the skeleton the hand-written models of the version entry points of `sqlize.go` (Impl/Version.lean) were written
  against.  A changed condition, a dropped or added branch, loop, early exit or call breaks `api_version_skeleton_as_modelled` on the next
  run even when no generated input exercises the change; the check then searches for a failing input and reports the
  broken tie either way.
-/
import SqlizeModel.Generated.Skeletons

namespace Sqlize.Tie

def expectedApiVersionSkeleton : List (String × List String) := [
  ("sqlize:Sqlize.StringDownWithVersion", ["return", "call StringDown", "call migrationDownVersion"]),
  ("sqlize:Sqlize.StringUpWithVersion", ["return", "call StringUp", "call migrationUpVersion"]),
  ("sqlize:Sqlize.migrationDownVersion", ["call NewSql", "if ver == 0", "then{", "return", "call Sprintf", "call DropTableMigration", "}", "return", "call Sprintf", "call RollbackMigrationVersion"]),
  ("sqlize:Sqlize.migrationUpVersion", ["call NewSql", "if ver == 0", "then{", "return", "call Sprintf", "call CreateTableMigration", "}", "return", "call Sprintf", "call InsertMigrationVersion"])]

theorem api_version_skeleton_as_modelled : Facts.apiVersionSkeleton = expectedApiVersionSkeleton := rfl

end Sqlize.Tie
