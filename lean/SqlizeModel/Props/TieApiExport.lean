/-
  Props/TieApiExport.lean — a regenerated tie (written by bin/mktie).  `Facts.apiExportSkeleton` is extracted from /repo on every run
  (harness/cmd/factgen/skeleton.go, go/ast): for every function of the export entry points of `sqlize.go` its control skeleton — the control
  statements with their conditions and the selector calls, in source order; assignments and plain expressions are left
  out.  `expectedApiExportSkeleton` is the skeleton the hand-written models of the export entry points of `sqlize.go` (Impl/Mermaid.lean, Impl/Avro.lean) were written
  against.  A changed condition, a dropped or added branch, loop, early exit or call breaks `api_export_skeleton_as_modelled` on the next
  run even when no generated input exercises the change; the check then searches for a failing input and reports the
  broken tie either way.
-/
import SqlizeModel.Generated.Skeletons

namespace Sqlize.Tie

def expectedApiExportSkeleton : List (String × List String) := [
  ("sqlize:Sqlize.ArvoSchema", ["if s.dialect != sql_templates.MysqlDialect", "then{", "return", "}", "call selectTable", "range tables", "do{", "call NewArvoSchema", "call Marshal", "}", "return"]),
  ("sqlize:Sqlize.MermaidJsErd", ["call NewMermaidJs", "call selectTable", "return", "call String"]),
  ("sqlize:Sqlize.MermaidJsLive", ["call NewMermaidJs", "call selectTable", "return", "call Live"]),
  ("sqlize:Sqlize.selectTable", ["range s.parser.Migration.Tables", "do{", "if len(needTables) == 0 || utils.ContainStr(needTables, s.parser.Migration.Tables[i].Name)", "then{", "}", "}", "return"])]

theorem api_export_skeleton_as_modelled : Facts.apiExportSkeleton = expectedApiExportSkeleton := rfl

end Sqlize.Tie
