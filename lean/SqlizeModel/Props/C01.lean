/-
  C01 — the up migration turns the old schema into the new schema.

  `Statement` is the property at full strength over the model (`Impl.Api.modelUp` = reader ∘ Diff ∘ MigrationUp) and the
  reference engine.  It is **not** proved in full (and is false as stated: see the regions of Spec/Scope.lean, each a
  recorded finding with a replayed witness).  What is proved for every input:

  * `columns` — the column-order core (L-merge ∘ L-walk): for duplicate-free, order-compatible column lists of any
    length, the merged list built by `Table.Diff`'s second loop, walked by `MigrationColumnUp`, turns the old order into
    exactly the new order and every step is well-formed on the reference engine (MySQL FIRST/AFTER rules).

  * `printed_columns` — the same **on the implementation model**: the ADD / DROP COLUMN statements that `walkCols` (the
    `MigrationColumnUp` walk over full column records, any dialect but SQLite, default field order) prints for a diffed
    table are exactly the abstract walk's (refinement `walkCols_up_refines`, Proofs/WalkRefine.lean), hence executed on
    the old column order they are well-formed at every step and give the new column order.  Columns being renamed are
    outside (recorded region `rename-column`).  `Arrange` is the identity on every reachable state (C08).

  * `diffed_columns` — **`Table.Diff` ∘ `MigrationColumnUp` on the implementation model**: for a freshly loaded new and
    old table (consistent maps, no pending position — both hold on every reachable state, C08) whose common columns keep
    their relative order, `Table.Diff`'s two column loops (slices, position maps, `AddColumn`, `swapOrder`) build exactly
    the merged list `Abs.merge` with the tags of `Abs.tagged` (refinement `diffCols2_names`, Proofs/MergeRefine.lean), so
    the ADD / DROP COLUMN statements printed for the diffed table turn the old column order into the new one.

  * `columns_from_scripts` — **from scripts to printed statements**: for two scripts of any length (vocabulary without
    RENAME COLUMN / RENAME INDEX / COMMENT ON) that the reference engine accepts, loaded by the MySQL reader model and
    diffed by `Migration.Diff`, every table present on both sides with order-compatible columns has a diffed record on
    which `Arrange` is the identity and for which `MigrationColumnUp` prints exactly the walk whose ADD / DROP COLUMN
    statements turn the *reference engine's* old column order into the *reference engine's* new one (composition of
    the reader ↔ engine simulation C05.names_and_positions, the loop refinement and the walk refinement).

  * `indexes_and_keys_from_scripts` — **the index and foreign-key clauses, from scripts to printed statements**: for two
    scripts of any length (vocabulary of `Stmt.elemSafe`: the above less DROP PRIMARY KEY and an index itself called
    `primary_key`) that the reference engine accepts, loaded by the MySQL reader model and diffed, the record of a table
    present on both sides prints — with no column dropped — exactly the CREATE / DROP INDEX statements
    `Abs.Idx.emit` of the *reference engine's* two index lists (an index without a namesake is created, one whose
    namesake differs in columns, uniqueness or index type is dropped and re-created, an equal one is left alone, an
    old one without a namesake is dropped), and executed on the old index list they are well-formed at every step and
    give the new index list up to order; likewise the ADD / DROP foreign-key statements are `Abs.Idx.emitKeep` of the two
    foreign-key lists and — when no key found on both sides is redefined (recorded region `fk-redefined`) — turn the
    old list into the new one.  (Reader fidelity on both slices, Proofs/FidelityElems; the slices `Table.Diff` leaves,
    Proofs/DiffElems; refinement of `MigrationIndexUp` / `MigrationForeignKeyUp`, Proofs/IdxRefine; Abs/Idx.lean.)

  * `indexes_with_dropped_columns` — **… and with dropped columns**: `MigrationColumnUp` returns, beside the column
    statements, the list `dc` of dropped columns (all of them columns the new table does not have); `MigrationIndexUp`
    called with it prints exactly `Abs.Idx.emitSup dc` of the reference index lists — the DROP of an old-only index all
    of whose columns are dropped is suppressed, because the reference engine's DROP COLUMN strips the column from every
    index and deletes an index left empty (`Abs.Idx.prune`, `dropCols_idxs`) —, and executed on what the DROP COLUMN
    statements leave of the old index list these statements are well-formed at every step and give the new index list
    up to order, **unless** an index is redefined under its name while every column of its old definition is dropped:
    exactly the recorded finding `index-redefined-old-columns-dropped` (its DROP INDEX names an index that is gone).
    (`Abs.Idx.plan_correct`: the general form — a plan of per-name drop / create / replace steps; Abs/IdxDrop.lean;
    the reference engine keeps every index non-empty and within its table's columns, Proofs/SpecWF.lean.)

  * `equal_column_untouched` — **no column that is equal on both sides is dropped, re-created or modified** (column
    definitions without an inline PRIMARY KEY option): if a column of a table present on both sides has the same type and the same
    options up to order in the two reference schemas, neither `MigrationColumnUp` nor `MigrationColumnDown` of the
    diffed record prints an ADD / DROP / MODIFY COLUMN statement about it (Proofs/Untouched: the first loop of
    `Table.Diff` tags it "no action" because its option comparison agrees with the reference options up to order
    — Proofs/OptsGood, CrossLoad —, the second loop keeps it, and the walks print about a column only from a record of
    that name with an action).  (That an *index* equal on both sides gets no statement is part of `Abs.Idx.emit`.)

  * `changed_column_modified` — **the converse: a column that differs is modified with the new definition**: if a
    column of a table present on both sides has another type on the two sides, or other options (compared up to
    order; COMMENT texts included), `MigrationColumnUp` of the diffed record prints a MODIFY COLUMN whose definition
    the reference engine reads as exactly the new side's column (same name, type, options up to order, no PRIMARY KEY
    flag), and `MigrationColumnDown` prints one it reads as the old side's column (Proofs/Changed: the first loop of
    `Table.Diff` tags the column `modify` and keeps the old attributes, because equal comparison keys would make the
    reference options equal up to order — `perm_of_not_changed`, the comparison key is injective, `ckey_inj`: for a
    COMMENT the key quotes the text by doubling every single quote, `doubleQuotes`, which is injective, `dqChars_inj` —;
    the later loops keep the record up to foreign-key marks, `Table.diff_like`; the walk prints the MODIFY of every
    `modify` record, `Table.walkCols_modify`).

  * `columns_on_reference_engine` — **the column clause on the reference engine itself**: for two scripts the engine
    accepts (default field order, column definitions without inline PRIMARY KEY) and a
    table present on both sides whose common columns keep their relative order, the statements `MigrationColumnUp`
    prints for the diffed record — ADD COLUMN with its position, DROP COLUMN, MODIFY COLUMN —, executed by
    `Spec.execAll` on the *old schema* (referential checks aside), are well-formed at every step; afterwards the table's
    column list is `colsEquiv` to the new side's (same columns, same order, same types, same options up to order) and
    every other table is untouched.  This composes everything above on columns: the names and positions
    (`columns_from_scripts`, lifted from the abstract machine to `Spec.exec` by `colExecAll_of_abs`), the attributes
    (`added_column_def`, `changed_column_modified`, `equal_column_untouched`, with at most one statement per column:
    `Table.walkCols_stmtCols`), and the lift from the table's column list to the database (`execAll_of_colExecAll`).
    Proofs/SpecCols.lean, Proofs/SpecColsDb.lean.

  * `table_on_reference_engine` — **columns and indexes composed on the reference engine**: under the hypotheses of
    `columns_on_reference_engine`, for a table whose primary key is the same on both sides and outside the recorded
    finding `index-redefined-old-columns-dropped`, the statements `MigrationColumnUp` and then `MigrationIndexUp` print
    for the diffed record, executed by `Spec.execAll` on the old schema, are well-formed at every step; afterwards the
    table has the new side's columns (`colsEquiv`), the new side's indexes up to order and its primary key, and every
    other table is untouched.  (Proofs/SpecTable: DROP COLUMN's effect on the index list and the key through the column
    statements, `execAll_of_colExecAll_full`; `dropCols_idxs` turns it into `prune dc`; each CREATE / DROP INDEX on
    `Spec.exec` is a step of the abstract index machine, `exec_idx_step`, a created index being non-empty and within the
    table's columns by `Spec.execAll_wf`; no PRIMARY KEY statement by `equal_primary_key_untouched`; the key names
    columns of its table in every reachable schema, `Spec.execAll_pkin`, so no key column is dropped.)

  * `schema_on_reference_engine` — **the whole up migration on the reference engine**: for two scripts without
    inline PRIMARY KEY, whose common tables keep the relative order of their common columns
    and their primary key and are outside the recorded regions `index-redefined-old-columns-dropped` and
    `foreign-key-redefined` (no foreign key found on both sides of a table differs), and without a
    table named like the bookkeeping table: `Diff` and `MigrationUp` return, and the printed migration — CREATE TABLE
    with its indexes, key and foreign keys for a table only the new side has (`created_table_spec`), the column, index
    and foreign-key statements of a table both sides have (`table_spec_up_fk_any`: after the column statements the old
    keys on dropped columns are gone, `Abs.Idx.pruneFk`, and the key walk prints exactly `Abs.Idx.emitKeepSup`, an
    instance of `plan_correct`; the engine's condition that a key's column exists is `TableSpec.FkWF`, an invariant of
    every reachable schema), DROP TABLE for a table only the old side has —, executed statement
    by statement by `Spec.execAll` on the old schema (referential checks aside), is well-formed at every step and ends
    in a schema `DB.equiv` to the new one, and every statement acts on an element that differs between the two schemas
    (`table_stmts_justified`: an ADD is about a column only the new side has, a DROP about one only the old side has, a
    MODIFY about a column whose two sides are not equivalent, a CREATE / DROP INDEX about an index the other side does
    not have or defines differently, an ADD CONSTRAINT / DROP FOREIGN KEY about a key the other side does not have,
    `fk_stmts_justified`).  That is the executable predicate `Spec.c01` itself (`migrates` and
    `allJustified`, referential checks aside): `Statement_partial` on that scope, for schemas of any size.  (Proofs/SpecSchema: `migrate_groups` — the printer's output is the concatenation of the
    per-table groups —, `execAll_groups` — each group works on its own table whatever the others did, a frame argument
    over `DB.find` —, and the final comparison of the two table sets.)

  * `equal_primary_key_untouched` — likewise an unchanged primary key declared at table level gets no ADD / DROP
    PRIMARY KEY, whatever dropped-column list the index walk is called with (reader fidelity on table-level keys,
    C05.primary_key_table_level).

  * `tables_from_scripts` — **the table clause**: `Diff` and `MigrationUp` return (C09), and the CREATE TABLE / DROP
    TABLE statements of the printed migration are exactly `Abs.Idx.emitKeep` of the two lists of table names — a table
    only the new schema has is created, in the new schema's order, one only the old schema has is dropped, one both
    have gets neither —, which turns the old set of tables into the new one (Proofs/TablesClause: what the two table
    loops of `Migration.Diff` leave, and the table-level content of each printer).

  Missing for `Statement_partial`: a changed primary key (recorded finding `pk-changed`), the referential checks of
  `Spec.exec` (the statement order across tables is the recorded finding `referential-ordering`; the theorem runs the
  engine with those checks off), the other dialects.  Those parts are covered by the correspondence run and
  by the executable predicate `Spec.c01` evaluated on the implementation's printed migration on every check.
-/
import SqlizeModel.Abs.Columns
import SqlizeModel.Proofs.WalkRefine
import SqlizeModel.Proofs.MergeRefine
import SqlizeModel.Proofs.EndToEnd
import SqlizeModel.Proofs.EndToEndElems
import SqlizeModel.Proofs.Untouched
import SqlizeModel.Proofs.Changed
import SqlizeModel.Proofs.SpecColsDb
import SqlizeModel.Proofs.SpecTable
import SqlizeModel.Proofs.SpecSchema
import SqlizeModel.Proofs.SchemaIgnoring
import SqlizeModel.Proofs.TablesClause
import SqlizeModel.Impl.Api
import SqlizeModel.Spec.Scope

namespace Sqlize.C01
open Sqlize Sqlize.Spec

/-- C01 at full strength: for all configurations and all pairs of well-formed scripts, the printed up migration,
    executed on the old schema, is well-formed at every step, yields the new schema, and touches only what differs -/
def Statement : Prop :=
  ∀ (g : Globals) (old new : List Stmt) (dbOld dbNew : DB),
    execAll true [] old = some dbOld → execAll true [] new = some dbNew →
    Scope.orderCompatible dbOld dbNew = true →
    ∃ up, modelUp g old new = .ok up ∧ c01 g.ignoreOrder dbOld dbNew up = .ok ()

/-- the same under the scope predicate (every excluded region is a recorded finding or an exclusion of the property) -/
def Statement_partial : Prop :=
  ∀ (g : Globals) (old new : List Stmt) (dbOld dbNew : DB),
    execAll true [] old = some dbOld → execAll true [] new = some dbNew →
    Scope.c01 g dbOld dbNew old new = none →
    ∃ up, modelUp g old new = .ok up ∧ c01 g.ignoreOrder dbOld dbNew up false = .ok ()

/-- column-order core of C01, for all column lists -/
theorem columns (N O : List Abs.Name) (hN : N.Nodup) (hO : O.Nodup) (hc : Abs.OrderCompatible N O) :
    Abs.execAll O (Abs.emitUp (Abs.tagged N O)) = some N :=
  Abs.columns_up N O hN hO hc

/-- column-order core of C01 on the implementation model's walk -/
theorem printed_columns (g : Globals) (hio : g.ignoreOrder = false) (hd : g.dialect ≠ .sqlite) (tb : String)
    (cols : List Column) (hact : ∀ c ∈ cols, SimpleAction c.action) (hne : ∀ c ∈ cols, c.name ≠ "")
    (hnd : (cols.map (·.name)).Nodup) :
    Abs.execAll (oldNames cols) ((Table.walkCols g tb true [] cols).1.filterMap colStmt) = some (newNames cols) :=
  printed_up_correct g hio hd tb cols hact hne hnd

/-- column order of C01 through `Table.Diff` and the walk of the implementation model -/
theorem diffed_columns (g : Globals) (hio : g.ignoreOrder = false) (hd : g.dialect ≠ .sqlite) (tb : String)
    (d : Dialect) (t old t1 : Table) (cols1 : List Column) (h : t.Inv) (hold : old.Inv)
    (hp : t.pendingPos = none) (hadd : ∀ c ∈ t.cols, c.action = .add) (holdAdd : ∀ c ∈ old.cols, c.action = .add)
    (hne : ∀ n ∈ t.colNames ++ old.colNames, n ≠ "") (hc : Abs.OrderCompatible t.colNames old.colNames)
    (h1 : Table.diffCols1 d old t.cols = .ok cols1)
    (h2 : Table.diffCols2 (d == .mysql) { t with cols := cols1 } [] old.cols = .ok t1) :
    Abs.execAll old.colNames ((Table.walkCols g tb true [] t1.cols).1.filterMap colStmt) = some t.colNames :=
  (Table.diffed_columns g hio hd tb d t old t1 cols1 h hold hp hadd holdAdd hne hc h1 h2).1

/-- column clause of C01 from scripts to printed statements (MySQL reader model, default field order) -/
theorem columns_from_scripts (g : Globals) (hg : g.dialect = .mysql) (hio : g.ignoreOrder = false) (rc : Bool)
    (old new : List Stmt) (dbO dbN : DB) (ho : old.all Stmt.colSafe = true) (hn : new.all Stmt.colSafe = true)
    (heo : execAll rc [] old = some dbO) (hen : execAll rc [] new = some dbN)
    (d : Migration) (hd : loadAndDiff g old new = .ok d)
    (t : String) (tbO tbN : TableSpec) (hfo : dbO.find t = some tbO) (hfn : dbN.find t = some tbN)
    (hc : Abs.OrderCompatible tbN.colNames tbO.colNames) (hne : ∀ n ∈ tbN.colNames ++ tbO.colNames, n ≠ "") :
    ∃ td ∈ d.tables, td.name = t ∧ td.arrange = .ok td ∧
      td.migrationColumnUp g = .ok (Table.walkCols g t true [] td.cols) ∧
      Abs.execAll tbO.colNames ((Table.walkCols g t true [] td.cols).1.filterMap colStmt) = some tbN.colNames := by
  obtain ⟨td, hm, hn', _, ha, hup, _, hex, _⟩ :=
    columns_end_to_end g hg hio rc old new dbO dbN ho hn heo hen d hd t tbO tbN hfo hfn hc hne
  exact ⟨td, hm, hn', ha, hup, hex⟩

/-- index and foreign-key clauses of C01 from scripts to printed statements (MySQL reader model) -/
theorem indexes_and_keys_from_scripts (g : Globals) (hg : g.dialect = .mysql) (rc : Bool)
    (old new : List Stmt) (dbO dbN : DB) (ho : old.all Stmt.elemSafe = true) (hn : new.all Stmt.elemSafe = true)
    (heo : execAll rc [] old = some dbO) (hen : execAll rc [] new = some dbN)
    (d : Migration) (hd : loadAndDiff g old new = .ok d)
    (t : String) (tbO tbN : TableSpec) (hfo : dbO.find t = some tbO) (hfn : dbN.find t = some tbN) :
    ∃ td ∈ d.tables, td.name = t ∧ td.action = .none ∧
      (∃ ss, Table.walkIdx g t true [] td.idxs = .ok ss ∧
        ss.filterMap idxStmt = Abs.Idx.emit tbN.idxs tbO.idxs ∧
        ∃ R, Abs.Idx.execAll tbO.idxs (ss.filterMap idxStmt) = some R ∧ R.Perm tbN.idxs) ∧
      ((Table.walkFk t true [] td.fks).filterMap fkStmt = Abs.Idx.emitKeep tbN.fks tbO.fks ∧
        ((∀ s ∈ tbN.fks, ∀ o ∈ tbO.fks, s.name = o.name → s = o) →
          ∃ R, Abs.Idx.execAll tbO.fks ((Table.walkFk t true [] td.fks).filterMap fkStmt) = some R ∧ R.Perm tbN.fks)) :=
  by
    obtain ⟨td, h1, h2, h3, h4, h5, _⟩ := elems_end_to_end g hg rc old new dbO dbN ho hn heo hen d hd t tbO tbN hfo hfn
    exact ⟨td, h1, h2, h3, h4, h5⟩

/-- index clause of C01 with dropped columns, from scripts to printed statements (MySQL reader model, default order) -/
theorem indexes_with_dropped_columns (g : Globals) (hg : g.dialect = .mysql) (hio : g.ignoreOrder = false) (rc : Bool)
    (old new : List Stmt) (dbO dbN : DB) (ho : old.all Stmt.elemSafe = true) (hn : new.all Stmt.elemSafe = true)
    (heo : execAll rc [] old = some dbO) (hen : execAll rc [] new = some dbN)
    (d : Migration) (hd : loadAndDiff g old new = .ok d)
    (t : String) (tbO tbN : TableSpec) (hfo : dbO.find t = some tbO) (hfn : dbN.find t = some tbN)
    (hne : ∀ n ∈ tbN.colNames ++ tbO.colNames, n ≠ "") :
    ∃ td ∈ d.tables, td.name = t ∧ td.action = .none ∧
      ∃ cs dc ss, td.migrationColumnUp g = .ok (cs, dc) ∧ td.migrationIndexUp g dc = .ok ss ∧
        (∀ c ∈ dc, c ∉ tbN.colNames) ∧
        ss.filterMap idxStmt = Abs.Idx.emitSup dc tbN.idxs tbO.idxs ∧
        ((∀ s ∈ tbN.idxs, ∀ o ∈ tbO.idxs, o.name = s.name → o ≠ s → ∃ c ∈ o.cols, c ∉ dc) →
          ∃ R, Abs.Idx.execAll (Abs.Idx.prune dc tbO.idxs) (ss.filterMap idxStmt) = some R ∧ R.Perm tbN.idxs) :=
  indexes_with_drops_end_to_end g hg hio rc old new dbO dbN ho hn heo hen d hd t tbO tbN hfo hfn hne

/-- a column equal on both sides gets no column statement, in either direction (MySQL reader model, no inline PRIMARY KEY option) -/
theorem equal_column_untouched (g : Globals) (hg : g.dialect = .mysql) (rc : Bool)
    (old new : List Stmt) (dbO dbN : DB) (ho : old.all Stmt.elemSafe = true) (hn : new.all Stmt.elemSafe = true)
    (hpo : old.all Stmt.plainOpts = true) (hpn : new.all Stmt.plainOpts = true)
    (heo : execAll rc [] old = some dbO) (hen : execAll rc [] new = some dbN)
    (d : Migration) (hd : loadAndDiff g old new = .ok d)
    (t : String) (tbO tbN : TableSpec) (hfo : dbO.find t = some tbO) (hfn : dbN.find t = some tbN)
    (cN cO : ColSpec) (hcN : cN ∈ tbN.cols) (hcO : cO ∈ tbO.cols) (hname : cO.name = cN.name) (htyp : cO.typ = cN.typ)
    (hopts : cO.opts.Perm cN.opts) :
    ∃ td ∈ d.tables, td.name = t ∧ td.action = .none ∧
      ∀ up, ∀ s ∈ (Table.walkCols g t up [] td.cols).1, stmtCol s ≠ some cN.name :=
  Sqlize.equal_column_untouched g hg rc old new dbO dbN ho hn hpo hpn heo hen d hd t tbO tbN hfo hfn cN cO hcN hcO hname htyp hopts

/-- a column that differs between the two sides is modified: the new definition going up, the old one going down -/
theorem changed_column_modified (g : Globals) (hg : g.dialect = .mysql) (rc : Bool)
    (old new : List Stmt) (dbO dbN : DB) (ho : old.all Stmt.elemSafe = true) (hn : new.all Stmt.elemSafe = true)
    (hpo : old.all Stmt.plainOpts = true) (hpn : new.all Stmt.plainOpts = true)
    (heo : execAll rc [] old = some dbO) (hen : execAll rc [] new = some dbN)
    (d : Migration) (hd : loadAndDiff g old new = .ok d)
    (t : String) (tbO tbN : TableSpec) (hfo : dbO.find t = some tbO) (hfn : dbN.find t = some tbN)
    (cN cO : ColSpec) (hcN : cN ∈ tbN.cols) (hcO : cO ∈ tbO.cols) (hname : cO.name = cN.name)
    (hchg : cO.typ ≠ cN.typ ∨ ¬ cO.opts.Perm cN.opts) :
    ∃ td ∈ d.tables, td.name = t ∧ td.action = .none ∧
      (∃ cd, Stmt.modifyColumn t cd ∈ (Table.walkCols g t true [] td.cols).1 ∧
        (colOf cd).2 = false ∧ (colOf cd).1.name = cN.name ∧ (colOf cd).1.typ = cN.typ ∧ (colOf cd).1.opts.Perm cN.opts) ∧
      (∃ cd, Stmt.modifyColumn t cd ∈ (Table.walkCols g t false [] td.cols).1 ∧
        (colOf cd).2 = false ∧ (colOf cd).1.name = cO.name ∧ (colOf cd).1.typ = cO.typ ∧ (colOf cd).1.opts.Perm cO.opts) :=
  Sqlize.changed_column_modified g hg rc old new dbO dbN ho hn hpo hpn heo hen d hd t tbO tbN hfo hfn cN cO hcN hcO hname hchg

-- non-vacuity of `changed_column_modified`: on `exOldU` / `exNewU` (below) column `b` is retyped; a second pair changes
-- the options of a column (NOT NULL dropped, DEFAULT changed)
def exOldM : List Stmt :=
  [.createTable "t" 0 [{ name := "a", typ := "int(11)", opts := [{ kind := .notNull }, { kind := .default, dflt := .num "1" }] }] []]
def exNewM : List Stmt :=
  [.createTable "t" 0 [{ name := "a", typ := "int(11)", opts := [{ kind := .default, dflt := .num "2" }] }] []]
example : exOldM.all Stmt.elemSafe = true ∧ exNewM.all Stmt.elemSafe = true ∧ exOldM.all Stmt.plainOpts = true ∧
    exNewM.all Stmt.plainOpts = true ∧ (execAll true [] exOldM).isSome = true ∧ (execAll true [] exNewM).isSome = true := by decide
example : (execAll true [] exOldM).map (fun db => db.map (fun tb => tb.cols.map (·.opts))) = some [[[.notNull, .default "1"]]] ∧
    (execAll true [] exNewM).map (fun db => db.map (fun tb => tb.cols.map (·.opts))) = some [[[.default "2"]]] := by decide
example : ∃ d, loadAndDiff {} exOldM exNewM = .ok d ∧
    (d.tables.map (fun t => ((Table.walkCols {} t.name true [] t.cols).1.map (fun s => match s with
      | .modifyColumn _ cd => some (colOf cd) | _ => none),
      (Table.walkCols {} t.name false [] t.cols).1.map (fun s => match s with
      | .modifyColumn _ cd => some (colOf cd) | _ => none)))) =
      [([some ({ name := "a", typ := "int(11)", opts := [.default "2"] }, false)],
        [some ({ name := "a", typ := "int(11)", opts := [.notNull, .default "1"] }, false)])] :=
  ⟨_, by rfl, by decide⟩

/-- the column clause of C01 on the reference engine: the printed column statements turn the old schema's table into one
    whose columns equal the new side's, and leave every other table alone -/
theorem columns_on_reference_engine (g : Globals) (hg : g.dialect = .mysql) (hio : g.ignoreOrder = false) (rc : Bool)
    (old new : List Stmt) (dbO dbN : DB) (ho : old.all Stmt.elemSafe = true) (hn : new.all Stmt.elemSafe = true)
    (hpo : old.all Stmt.plainOpts = true) (hpn : new.all Stmt.plainOpts = true)
    (heo : execAll rc [] old = some dbO) (hen : execAll rc [] new = some dbN)
    (d : Migration) (hd : loadAndDiff g old new = .ok d)
    (t : String) (tbO tbN : TableSpec) (hfo : dbO.find t = some tbO) (hfn : dbN.find t = some tbN)
    (hc : Abs.OrderCompatible tbN.colNames tbO.colNames) (hne : ∀ n ∈ tbN.colNames ++ tbO.colNames, n ≠ "") :
    ∃ td ∈ d.tables, td.name = t ∧ td.migrationColumnUp g = .ok (Table.walkCols g t true [] td.cols) ∧
      ∃ db' tb', execAll false dbO (Table.walkCols g t true [] td.cols).1 = some db' ∧
        db'.find t = some tb' ∧ colsEquiv tb'.cols tbN.cols = true ∧
        (∀ u, u ≠ t → db'.find u = dbO.find u) ∧ db'.map (·.name) = dbO.map (·.name) :=
  columns_spec_up_db g hg hio rc old new dbO dbN ho hn hpo hpn heo hen d hd t tbO tbN hfo hfn hc hne

-- non-vacuity of `columns_on_reference_engine`: a second table that must stay as it is; in `t` column `z` is added in
-- front, `a` keeps its options in another order, `b` is retyped and loses NOT NULL, `x` is dropped, `c` is added last
def exOldCE : List Stmt :=
  [.createTable "u" 0 [{ name := "k", typ := "int(11)" }] [],
   .createTable "t" 0 [{ name := "a", typ := "int(11)", opts := [{ kind := .notNull }, { kind := .default, dflt := .num "1" }] },
                       { name := "x", typ := "text" },
                       { name := "b", typ := "varchar(64)", opts := [{ kind := .notNull }] }] []]
def exNewCE : List Stmt :=
  [.createTable "u" 0 [{ name := "k", typ := "int(11)" }] [],
   .createTable "t" 0 [{ name := "z", typ := "text" },
                       { name := "a", typ := "int(11)", opts := [{ kind := .default, dflt := .num "1" }, { kind := .notNull }] },
                       { name := "b", typ := "varchar(255)" }, { name := "c", typ := "text" }] []]
example : exOldCE.all Stmt.elemSafe = true ∧ exNewCE.all Stmt.elemSafe = true ∧ exOldCE.all Stmt.plainOpts = true ∧
    exNewCE.all Stmt.plainOpts = true ∧ (execAll true [] exOldCE).isSome = true ∧ (execAll true [] exNewCE).isSome = true := by decide
example : ∃ d dbO dbN, loadAndDiff {} exOldCE exNewCE = .ok d ∧ execAll true [] exOldCE = some dbO ∧ execAll true [] exNewCE = some dbN ∧
    (d.tables.map (fun t => (execAll false dbO (Table.walkCols {} t.name true [] t.cols).1).map (fun db' => db'.equiv dbN))) =
      [some false, some true] :=
  ⟨_, _, _, by rfl, by rfl, by rfl, by decide⟩

/-- the column and index clauses of C01 composed on the reference engine -/
theorem table_on_reference_engine (g : Globals) (hg : g.dialect = .mysql) (hio : g.ignoreOrder = false) (rc : Bool)
    (old new : List Stmt) (dbO dbN : DB) (ho : old.all Stmt.elemSafe = true) (hn : new.all Stmt.elemSafe = true)
    (hpo : old.all Stmt.plainOpts = true) (hpn : new.all Stmt.plainOpts = true)
    (heo : execAll rc [] old = some dbO) (hen : execAll rc [] new = some dbN)
    (d : Migration) (hd : loadAndDiff g old new = .ok d)
    (t : String) (tbO tbN : TableSpec) (hfo : dbO.find t = some tbO) (hfn : dbN.find t = some tbN)
    (hc : Abs.OrderCompatible tbN.colNames tbO.colNames) (hne : ∀ n ∈ tbN.colNames ++ tbO.colNames, n ≠ "")
    (hpk : tbO.pk = tbN.pk)
    (hredef : ∀ dc : List String, (∀ c ∈ dc, c ∉ tbN.colNames) →
      ∀ s ∈ tbN.idxs, ∀ o ∈ tbO.idxs, o.name = s.name → o ≠ s → ∃ c ∈ o.cols, c ∉ dc) :
    ∃ td ∈ d.tables, td.name = t ∧
      ∃ cs dc is, td.migrationColumnUp g = .ok (cs, dc) ∧ td.migrationIndexUp g dc = .ok is ∧
        ∃ db' tb', execAll false dbO (cs ++ is) = some db' ∧ db'.find t = some tb' ∧
          colsEquiv tb'.cols tbN.cols = true ∧ tb'.idxs.Perm tbN.idxs ∧ tb'.pk = tbN.pk ∧
          (∀ u, u ≠ t → db'.find u = dbO.find u) ∧ db'.map (·.name) = dbO.map (·.name) :=
  table_spec_up g hg hio rc old new dbO dbN ho hn hpo hpn heo hen d hd t tbO tbN hfo hfn hc hne hpk hredef

/-- table clause of C01 from scripts to printed statements (MySQL reader model) -/
theorem tables_from_scripts (g : Globals) (hg : g.dialect = .mysql) (rc : Bool) (old new : List Stmt) (dbO dbN : DB)
    (ho : old.all Stmt.elemSafe = true) (hn : new.all Stmt.elemSafe = true)
    (heo : execAll rc [] old = some dbO) (hen : execAll rc [] new = some dbN)
    (hdef : ∀ tb ∈ dbO ++ dbN, tb.name ≠ Migration.defaultMigrationTable) :
    ∃ d out, loadAndDiff g old new = .ok d ∧ d.migrationUp g = .ok (d, out) ∧
      out.flatten.filterMap tblStmt = Abs.Idx.emitKeep (dbN.map (·.name)) (dbO.map (·.name)) ∧
      ∃ R, Abs.Idx.execAll (dbO.map (·.name)) (out.flatten.filterMap tblStmt) = some R ∧ R.Perm (dbN.map (·.name)) :=
  by
    obtain ⟨d, out, _, h1, h2, _, h3, h4, _⟩ := tables_end_to_end g hg rc old new dbO dbN ho hn heo hen hdef
    exact ⟨d, out, h1, h2, h3, h4⟩

-- non-vacuity of `tables_from_scripts`: one table kept, one dropped, two created
def exOldT2 : List Stmt :=
  [.createTable "keep" 0 [{ name := "a", typ := "int(11)" }] [], .createTable "gone" 0 [{ name := "x", typ := "text" }] []]
def exNewT2 : List Stmt :=
  [.createTable "n1" 0 [{ name := "y", typ := "text" }] [], .createTable "keep" 0 [{ name := "a", typ := "int(11)" }] [],
   .createTable "n2" 0 [{ name := "z", typ := "text" }] [], .createIndex "n2" "i" ["z"] false ""]
example : exOldT2.all Stmt.elemSafe = true ∧ exNewT2.all Stmt.elemSafe = true ∧
    (execAll true [] exOldT2).isSome = true ∧ (execAll true [] exNewT2).isSome = true := by decide
example : ∃ d, loadAndDiff {} exOldT2 exNewT2 = .ok d ∧
    (d.migrationUp {}).toOption.map (fun r => r.2.flatten.filterMap tblStmt) =
      some [.create "n1", .create "n2", .drop "gone"] := ⟨_, by rfl, by rfl⟩

/-- an unchanged table-level primary key gets no ADD / DROP PRIMARY KEY -/
theorem equal_primary_key_untouched (g : Globals) (hg : g.dialect = .mysql) (rc : Bool)
    (old new : List Stmt) (dbO dbN : DB) (ho : old.all Stmt.elemSafe = true) (hn : new.all Stmt.elemSafe = true)
    (hto : old.all Stmt.tablePk = true) (htn : new.all Stmt.tablePk = true)
    (heo : execAll rc [] old = some dbO) (hen : execAll rc [] new = some dbN)
    (d : Migration) (hd : loadAndDiff g old new = .ok d)
    (t : String) (tbO tbN : TableSpec) (hfo : dbO.find t = some tbO) (hfn : dbN.find t = some tbN)
    (hpk : tbO.pk = tbN.pk) :
    ∃ td ∈ d.tables, td.name = t ∧ td.action = .none ∧
      ∀ dc, ∃ ss, Table.walkIdx g t true dc td.idxs = .ok ss ∧ ∀ s ∈ ss, pkStmt s = false :=
  equal_pk_untouched g hg rc old new dbO dbN ho hn hto htn heo hen d hd t tbO tbN hfo hfn hpk

-- non-vacuity: `exOldE` / `exNewE` below differ in the key (old: none, new: (a)) and an ADD PRIMARY KEY is printed;
-- with the key on both sides nothing is
def exOldK : List Stmt := [.createTable "t" 0 [{ name := "a", typ := "int(11)" }, { name := "b", typ := "int(11)" }] ["a"]]
def exNewK : List Stmt :=
  [.createTable "t" 0 [{ name := "a", typ := "int(11)" }] [], .addColumn "t" { name := "c", typ := "text" } .none,
   .addPrimaryKey "t" ["a"], .createIndex "t" "i" ["c"] false ""]
example : exOldK.all Stmt.elemSafe = true ∧ exNewK.all Stmt.elemSafe = true ∧ exOldK.all Stmt.tablePk = true ∧
    exNewK.all Stmt.tablePk = true := by decide
example : (execAll true [] exOldK).map (fun db => db.map (·.pk)) = some [["a"]] ∧
    (execAll true [] exNewK).map (fun db => db.map (·.pk)) = some [["a"]] := by decide
example : ∃ d, loadAndDiff {} exOldK exNewK = .ok d ∧
    (d.tables.map (fun t => (Table.walkIdx {} t.name true ["b"] t.idxs).toOption)) =
      [some [.createIndex "t" "i" ["c"] false ""]] := ⟨_, by rfl, by decide⟩

-- non-vacuity of `equal_column_untouched`: column `a` has its options in another order on the two sides and is left
-- alone, while `b` (retyped) is modified and `c` is added
def exOldU : List Stmt :=
  [.createTable "t" 0 [{ name := "a", typ := "int(11)", opts := [{ kind := .notNull }, { kind := .default, dflt := .num "1" }] },
                       { name := "b", typ := "varchar(64)" }] []]
def exNewU : List Stmt :=
  [.createTable "t" 0 [{ name := "a", typ := "int(11)", opts := [{ kind := .default, dflt := .num "1" }, { kind := .notNull }] },
                       { name := "b", typ := "varchar(255)" }, { name := "c", typ := "text" }] []]
example : exOldU.all Stmt.elemSafe = true ∧ exNewU.all Stmt.elemSafe = true ∧ exOldU.all Stmt.plainOpts = true ∧
    exNewU.all Stmt.plainOpts = true ∧ (execAll true [] exOldU).isSome = true ∧ (execAll true [] exNewU).isSome = true := by decide
example : ∃ d, loadAndDiff {} exOldU exNewU = .ok d ∧
    (d.tables.map (fun t => (Table.walkCols {} t.name true [] t.cols).1.map stmtCol)) = [[some "b", some "c"]] :=
  ⟨_, by rfl, by decide⟩

-- non-vacuity of `indexes_with_dropped_columns`: column `b` is dropped; the index on `b` alone needs no DROP INDEX
-- (suppressed), the index on (a, b) — stripped to (a) by the DROP COLUMN — is dropped, a new one is created
def exOldD : List Stmt :=
  [.createTable "t" 0 [{ name := "a", typ := "int(11)" }, { name := "b", typ := "int(11)" }, { name := "c", typ := "text" }] [],
   .createIndex "t" "i_b" ["b"] false "",
   .createIndex "t" "i_ab" ["a", "b"] false "",
   .createIndex "t" "i_c" ["c"] true ""]
def exNewD : List Stmt :=
  [.createTable "t" 0 [{ name := "a", typ := "int(11)" }, { name := "c", typ := "text" }] [],
   .createIndex "t" "i_c" ["c"] true "",
   .createIndex "t" "i_a" ["a"] false ""]
example : exOldD.all Stmt.elemSafe = true ∧ exNewD.all Stmt.elemSafe = true ∧
    (execAll true [] exOldD).isSome = true ∧ (execAll true [] exNewD).isSome = true := by decide
example : ∃ d, loadAndDiff {} exOldD exNewD = .ok d ∧
    (d.tables.map (fun t => match t.migrationColumnUp {} with
      | .ok (_, dc) => (dc, (t.migrationIndexUp {} dc).toOption.map (·.filterMap idxStmt))
      | .error _ => ([], none))) =
      [(["b"], some [.create ⟨"i_a", ["a"], false, "BTREE"⟩, .drop "i_ab"])] := ⟨_, by rfl, by decide⟩
example : Abs.Idx.prune ["b"] [⟨"i_b", ["b"], false, "BTREE"⟩, ⟨"i_ab", ["a", "b"], false, "BTREE"⟩, ⟨"i_c", ["c"], true, "BTREE"⟩] =
    [⟨"i_ab", ["a"], false, "BTREE"⟩, ⟨"i_c", ["c"], true, "BTREE"⟩] := by decide

-- non-vacuity of `indexes_and_keys_from_scripts`: an index redefined under its name, one kept, one new, one dropped,
-- a table-level primary key on one side; a foreign key added and one dropped
def exOldE : List Stmt :=
  [.createTable "u" 0 [{ name := "id", typ := "int(11)" }] ["id"],
   .createTable "t" 0 [{ name := "a", typ := "int(11)" }, { name := "b", typ := "int(11)" }] [],
   .createIndex "t" "i_keep" ["a"] false "",
   .createIndex "t" "i_redef" ["a", "b"] true "",
   .createIndex "t" "i_old" ["b"] false "HASH",
   .addFk "t" "fk_old" "a" "u" "id"]
def exNewE : List Stmt :=
  [.createTable "u" 0 [{ name := "id", typ := "int(11)" }] ["id"],
   .createTable "t" 0 [{ name := "a", typ := "int(11)" }, { name := "b", typ := "int(11)" }] ["a"],
   .createIndex "t" "i_redef" ["b"] true "",
   .createIndex "t" "i_keep" ["a"] false "BTREE",
   .createIndex "t" "i_new" ["b", "a"] false "",
   .addFk "t" "fk_new" "b" "u" "id"]
example : exOldE.all Stmt.elemSafe = true ∧ exNewE.all Stmt.elemSafe = true ∧
    (execAll true [] exOldE).isSome = true ∧ (execAll true [] exNewE).isSome = true := by decide
example : ∃ d, loadAndDiff {} exOldE exNewE = .ok d ∧
    (d.tables.map (fun t => ((Table.walkIdx {} t.name true [] t.idxs).toOption.map (·.filterMap idxStmt),
                             (Table.walkFk t.name true [] t.fks).filterMap fkStmt))) =
      [(some [], []),
       (some [.drop "i_redef", .create ⟨"i_redef", ["b"], true, "BTREE"⟩, .create ⟨"i_new", ["b", "a"], false, "BTREE"⟩, .drop "i_old"],
        [.create ⟨"fk_new", "b", "u", "id"⟩, .drop "fk_old"])] := ⟨_, by rfl, by decide⟩

-- non-vacuity of `columns_from_scripts`: two scripts with histories (positional add, drop, modify) meeting every hypothesis
def exOldS : List Stmt :=
  [.createTable "t" 0 [{ name := "a", typ := "int(11)" }, { name := "x", typ := "int(11)" }] [],
   .addColumn "t" { name := "d", typ := "text" } (.after "a")]
def exNewS : List Stmt :=
  [.createTable "t" 0 [{ name := "a", typ := "int(11)" }, { name := "b", typ := "int(11)" }] ["a"],
   .addColumn "t" { name := "z", typ := "text" } .first,
   .addColumn "t" { name := "d", typ := "longtext" } .none]
example : exOldS.all Stmt.colSafe = true ∧ exNewS.all Stmt.colSafe = true := by decide
example : (execAll true [] exOldS).map specView = some [("t", ["a", "d", "x"])] ∧
    (execAll true [] exNewS).map specView = some [("t", ["z", "a", "b", "d"])] := by decide
example : Abs.OrderCompatible ["z", "a", "b", "d"] ["a", "d", "x"] := by unfold Abs.OrderCompatible; decide
example : ∃ d, loadAndDiff {} exOldS exNewS = .ok d ∧
    (d.tables.map (fun t => (Table.walkCols {} t.name true [] t.cols).1.filterMap colStmt)) =
      [[.addCol "z" none, .addCol "b" (some "a"), .dropCol "x"]] := ⟨_, by rfl, by rfl⟩

-- non-vacuity of `diffed_columns`: two tables built by the primitives (hence consistent), with a kept, a dropped and
-- two added columns; the loops succeed and the printed statements are non-trivial
def mkCol (n : String) : Column := { name := n, action := .add, cur := { typ := some "int(11)" } }
def exNewT : M Table := do
  let t ← (Table.new "t" .add).addColumn (mkCol "z"); let t ← t.addColumn (mkCol "a"); let t ← t.addColumn (mkCol "b"); pure t
def exOldT : M Table := do
  let t ← (Table.new "t" .add).addColumn (mkCol "a"); let t ← t.addColumn (mkCol "x"); pure t
example : ∃ t old cols1 t1, exNewT = .ok t ∧ exOldT = .ok old ∧ t.Inv ∧ old.Inv ∧ t.pendingPos = none ∧
    Table.diffCols1 .mysql old t.cols = .ok cols1 ∧
    Table.diffCols2 true { t with cols := cols1 } [] old.cols = .ok t1 ∧
    (Table.walkCols {} "t" true [] t1.cols).1.filterMap colStmt = [.addCol "z" none, .dropCol "x", .addCol "b" (some "a")] := by
  refine ⟨_, _, _, _, rfl, rfl, ?_, ?_, rfl, rfl, rfl, by decide⟩
  · have h0 := Table.inv_new "t" .add
    obtain ⟨h1, _⟩ := Table.addColumn_inv (pg := false) _ _ (mkCol "z") true h0 rfl
    obtain ⟨h2, _⟩ := Table.addColumn_inv (pg := false) _ _ (mkCol "a") true h1 rfl
    exact (Table.addColumn_inv (pg := false) _ _ (mkCol "b") true h2 rfl).1
  · have h0 := Table.inv_new "t" .add
    obtain ⟨h1, _⟩ := Table.addColumn_inv (pg := false) _ _ (mkCol "a") true h0 rfl
    exact (Table.addColumn_inv (pg := false) _ _ (mkCol "x") true h1 rfl).1

-- non-vacuity of `printed_columns`: a merged list with a kept, a dropped, an added and a modified column
def exCols : List Column :=
  [{ name := "a", action := .none }, { name := "x", action := .remove }, { name := "b", action := .add, cur := { typ := some "int(11)" } },
   { name := "c", action := .modify, cur := { typ := some "text" } }]
example : (Table.walkCols {} "t" true [] exCols).1.filterMap colStmt = [.dropCol "x", .addCol "b" (some "a")] := by decide
example : (∀ c ∈ exCols, SimpleAction c.action) ∧ (∀ c ∈ exCols, c.name ≠ "") ∧ (exCols.map (·.name)).Nodup := by
  refine ⟨?_, ?_, by decide⟩ <;> intro c hc <;> simp [exCols] at hc <;> rcases hc with rfl | rfl | rfl | rfl <;> simp [SimpleAction]

-- non-vacuity: the hypotheses are satisfiable and the walk is non-trivial
example : Abs.emitUp (Abs.tagged ["z", "a", "b", "e", "d", "f"] ["a", "b", "c", "d"]) =
    [.addCol "z" none, .dropCol "c", .addCol "e" (some "b"), .addCol "f" (some "d")] := by decide
example : Abs.OrderCompatible ["z", "a", "b", "e", "d", "f"] ["a", "b", "c", "d"] := by unfold Abs.OrderCompatible; decide

-- non-vacuity of `table_on_reference_engine`: the pair of `indexes_with_dropped_columns` (`exOldD` / `exNewD` above: a
-- column dropped, its index suppressed, one index dropped, one created, one kept), columns then indexes, on the engine
example : ∃ d dbO dbN, loadAndDiff {} exOldD exNewD = .ok d ∧ execAll true [] exOldD = some dbO ∧ execAll true [] exNewD = some dbN ∧
    (d.tables.map (fun t => match t.migrationColumnUp {} with
      | .ok (cs, dc) => (match t.migrationIndexUp {} dc with
        | .ok is => (execAll false dbO (cs ++ is)).map (fun db' => db'.equiv dbN)
        | .error _ => none)
      | .error _ => none)) = [some true] :=
  ⟨_, _, _, by rfl, by rfl, by rfl, by decide⟩


/-- the whole up migration on the reference engine: well-formed at every step, the result is the new schema, and every
    statement acts on something that differs — the executable predicate `Spec.c01` (referential checks aside) holds -/
theorem schema_on_reference_engine (g : Globals) (hg : g.dialect = .mysql) (hio : g.ignoreOrder = false) (rc : Bool)
    (old new : List Stmt) (dbO dbN : DB) (ho : old.all Stmt.elemSafe = true) (hn : new.all Stmt.elemSafe = true)
    (hpo : old.all Stmt.plainOpts = true) (hpn : new.all Stmt.plainOpts = true)
    (heo : execAll rc [] old = some dbO) (hen : execAll rc [] new = some dbN)
    (hdef : ∀ tb ∈ dbO ++ dbN, tb.name ≠ Migration.defaultMigrationTable)
    (hboth : ∀ tbO ∈ dbO, ∀ tbN ∈ dbN, tbO.name = tbN.name →
      Abs.OrderCompatible tbN.colNames tbO.colNames ∧ (∀ n ∈ tbN.colNames ++ tbO.colNames, n ≠ "") ∧ tbO.pk = tbN.pk ∧
      (∀ dc : List String, (∀ c ∈ dc, c ∉ tbN.colNames) →
        ∀ s ∈ tbN.idxs, ∀ o ∈ tbO.idxs, o.name = s.name → o ≠ s → ∃ c ∈ o.cols, c ∉ dc) ∧
      (∀ s ∈ tbN.fks, ∀ o ∈ tbO.fks, s.name = o.name → s = o)) :
    ∃ up, modelUp g old new = .ok up ∧ c01 g.ignoreOrder dbO dbN up false = .ok () := by
  obtain ⟨d, out, hd, hU, ⟨db', he, heq, _⟩, hj⟩ := schema_spec_up g hg hio rc old new dbO dbN ho hn hpo hpn heo hen hdef hboth
  refine ⟨out.flatten, ?_, ?_⟩
  · unfold modelUp
    simp only [hd, hU, bind, Except.bind, pure, Except.pure]
  · have hfind : out.flatten.find? (fun s => !justified dbO dbN s) = none := by
      apply List.find?_eq_none.mpr
      intro s hs
      rw [hj s hs]; simp
    unfold c01 migrates allJustified
    rw [hio]
    simp only [he, heq, if_true, hfind, bind, Except.bind, Bool.false_eq_true, if_false]

-- non-vacuity of `schema_on_reference_engine`: a table created with a key and two indexes, a table dropped, a table kept
-- as it is, and a table whose columns and indexes change (a column dropped with its index, one retyped, one added in
-- front, an index created)
def exOldW : List Stmt :=
  [.createTable "gone" 0 [{ name := "g", typ := "int(11)" }] [],
   .createTable "keep" 0 [{ name := "k", typ := "int(11)" }] ["k"],
   .createTable "t" 0 [{ name := "a", typ := "int(11)", opts := [{ kind := .notNull }] }, { name := "b", typ := "int(11)" },
                       { name := "c", typ := "varchar(64)" }] [],
   .createIndex "t" "i_b" ["b"] false "",
   .createIndex "t" "i_c" ["c"] true ""]
def exNewW : List Stmt :=
  [.createTable "fresh" 0 [{ name := "id", typ := "int(11)", opts := [{ kind := .notNull }] }, { name := "n", typ := "text" },
                           { name := "m", typ := "int(11)" }] ["id"],
   .createIndex "fresh" "i_n" ["n"] false "",
   .createIndex "fresh" "i_nm" ["m", "id"] true "HASH",
   .createTable "keep" 0 [{ name := "k", typ := "int(11)" }] ["k"],
   .createTable "t" 0 [{ name := "z", typ := "text" }, { name := "a", typ := "int(11)", opts := [{ kind := .notNull }] },
                       { name := "c", typ := "varchar(255)" }] [],
   .createIndex "t" "i_c" ["c"] true "",
   .createIndex "t" "i_z" ["z", "a"] false ""]
example : exOldW.all Stmt.elemSafe = true ∧ exNewW.all Stmt.elemSafe = true ∧ exOldW.all Stmt.plainOpts = true ∧
    exNewW.all Stmt.plainOpts = true ∧ (execAll true [] exOldW).isSome = true ∧ (execAll true [] exNewW).isSome = true := by decide
example : ∃ up dbO dbN, modelUp {} exOldW exNewW = .ok up ∧ execAll true [] exOldW = some dbO ∧ execAll true [] exNewW = some dbN ∧
    up.length = 9 ∧ (execAll false dbO up).map (fun db' => db'.equiv dbN) = some true :=
  ⟨_, _, _, by rfl, by rfl, by rfl, by decide, by decide⟩
example : ∃ up dbO dbN, modelUp {} exOldW exNewW = .ok up ∧ execAll true [] exOldW = some dbO ∧ execAll true [] exNewW = some dbN ∧
    (c01 false dbO dbN up false).toOption = some () :=
  ⟨_, _, _, by rfl, by rfl, by rfl, by decide⟩

/-- the same for either setting of the ignore-field-order option: with the option the migration is the one printed without
    it, positional clauses removed (`C13.option_changes_positions_only`), the reference engine accepts it and ends in the
    new schema up to the order of the columns inside the tables (`execAll_strip`, Proofs/StripExec) — which is what
    `Spec.c01` asks for under the option -/
theorem schema_on_reference_engine_either_setting (g : Globals) (hg : g.dialect = .mysql) (rc : Bool)
    (old new : List Stmt) (dbO dbN : DB) (ho : old.all Stmt.elemSafe = true) (hn : new.all Stmt.elemSafe = true)
    (hpo : old.all Stmt.plainOpts = true) (hpn : new.all Stmt.plainOpts = true)
    (heo : execAll rc [] old = some dbO) (hen : execAll rc [] new = some dbN)
    (hdef : ∀ tb ∈ dbO ++ dbN, tb.name ≠ Migration.defaultMigrationTable)
    (hboth : ∀ tbO ∈ dbO, ∀ tbN ∈ dbN, tbO.name = tbN.name →
      Abs.OrderCompatible tbN.colNames tbO.colNames ∧ (∀ n ∈ tbN.colNames ++ tbO.colNames, n ≠ "") ∧ tbO.pk = tbN.pk ∧
      (∀ dc : List String, (∀ c ∈ dc, c ∉ tbN.colNames) →
        ∀ s ∈ tbN.idxs, ∀ o ∈ tbO.idxs, o.name = s.name → o ≠ s → ∃ c ∈ o.cols, c ∉ dc) ∧
      (∀ s ∈ tbN.fks, ∀ o ∈ tbO.fks, s.name = o.name → s = o)) :
    ∃ up, modelUp g old new = .ok up ∧ c01 g.ignoreOrder dbO dbN up false = .ok () :=
  schema_up_any g hg rc old new dbO dbN ho hn hpo hpn heo hen hdef hboth

-- non-vacuity under the option: the pair `exOldW` / `exNewW`
example : ∃ up dbO dbN, modelUp { ignoreOrder := true } exOldW exNewW = .ok up ∧ execAll true [] exOldW = some dbO ∧
    execAll true [] exNewW = some dbN ∧ (c01 true dbO dbN up false).toOption = some () ∧
    (execAll false dbO up).map (fun db' => db'.equiv dbN) = some false :=
  ⟨_, _, _, by rfl, by rfl, by rfl, by decide, by decide⟩

-- non-vacuity with COMMENT options: a column whose comment alone changes (texts with single quotes) is modified, and the
-- predicate holds of the printed migration
def exOldCm : List Stmt :=
  [.createTable "t" 0 [{ name := "a", typ := "int(11)", opts := [{ kind := .comment, text := "it's" }] },
                       { name := "b", typ := "text", opts := [{ kind := .comment, text := "same" }] }] []]
def exNewCm : List Stmt :=
  [.createTable "t" 0 [{ name := "a", typ := "int(11)", opts := [{ kind := .comment, text := "it''s" }] },
                       { name := "b", typ := "text", opts := [{ kind := .comment, text := "same" }] }] []]
example : ∃ up dbO dbN, modelUp {} exOldCm exNewCm = .ok up ∧ execAll true [] exOldCm = some dbO ∧ execAll true [] exNewCm = some dbN ∧
    up.length = 1 ∧ (c01 false dbO dbN up false).toOption = some () :=
  ⟨_, _, _, by rfl, by rfl, by rfl, by decide, by decide⟩

-- non-vacuity with foreign keys: a common table keeps one key, gets one with a new column, loses one (DROP FOREIGN KEY)
-- and loses another together with its column (the DROP is suppressed: DROP COLUMN took the key with it); a table
-- created with a key; a table dropped with its key
def exOldFk : List Stmt :=
  [.createTable "p" 0 [{ name := "id", typ := "int(11)" }] ["id"],
   .createTable "c" 0 [{ name := "id", typ := "int(11)" }, { name := "pid", typ := "int(11)" }, { name := "qid", typ := "int(11)" },
                       { name := "sid", typ := "int(11)" }] [],
   .addFk "c" "fk_p" "pid" "p" "id",
   .addFk "c" "fk_q" "qid" "p" "id",
   .addFk "c" "fk_s" "sid" "p" "id",
   .createTable "g" 0 [{ name := "pid", typ := "int(11)" }] [],
   .addFk "g" "fk_g" "pid" "p" "id"]
def exNewFk : List Stmt :=
  [.createTable "p" 0 [{ name := "id", typ := "int(11)" }] ["id"],
   .createTable "c" 0 [{ name := "id", typ := "int(11)" }, { name := "pid", typ := "int(11)" }, { name := "rid", typ := "int(11)" },
                       { name := "sid", typ := "int(11)" }] [],
   .addFk "c" "fk_p" "pid" "p" "id",
   .addFk "c" "fk_r" "rid" "p" "id",
   .createTable "n" 0 [{ name := "pid", typ := "int(11)" }] [],
   .addFk "n" "fk_n" "pid" "p" "id"]
example : exOldFk.all Stmt.elemSafe = true ∧ exNewFk.all Stmt.elemSafe = true ∧ exOldFk.all Stmt.plainOpts = true ∧
    exNewFk.all Stmt.plainOpts = true ∧ (execAll true [] exOldFk).isSome = true ∧ (execAll true [] exNewFk).isSome = true := by decide
example : ∃ up dbO dbN, modelUp {} exOldFk exNewFk = .ok up ∧ execAll true [] exOldFk = some dbO ∧ execAll true [] exNewFk = some dbN ∧
    up.length = 7 ∧ (c01 false dbO dbN up false).toOption = some () :=
  ⟨_, _, _, by rfl, by rfl, by rfl, by decide, by decide⟩

end Sqlize.C01
