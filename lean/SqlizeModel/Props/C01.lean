/-
  C01 — the up migration turns the old schema into the new schema.

  `Statement` is the property at full strength over the model (`Impl.Api.modelUp` = reader ∘ Diff ∘ MigrationUp) and the
  reference engine.  It is **not** proved in full (and is false as stated: see the regions of Spec/Scope.lean, each a
  recorded finding with a replayed witness).  What is proved for every input:

  * `columns` — the column-order core (L-merge ∘ L-walk): for duplicate-free, order-compatible column lists of any
    length, the merged list built by `Table.Diff`'s second loop, walked by `MigrationColumnUp`, turns the old order into
    exactly the new order and every step is well-formed on the reference engine (MySQL FIRST/AFTER rules).

  * `printed_columns` — the same **on the implementation model**: the ADD / DROP COLUMN statements that `walkCols` (the
    `MigrationColumnUp` walk over full column records, any dialect but SQLite, default field order) prints for a diffed
    table are exactly the abstract walk's (refinement `walkCols_up_refines`, Proofs/WalkRefine.lean), hence executed on
    the old column order they are well-formed at every step and give the new column order.  Columns being renamed are
    outside (recorded region `rename-column`).  `Arrange` is the identity on every reachable state (C08).

  Missing for `Statement_partial`: that `Table.Diff`'s second loop builds the merged list `Abs.merge` describes (slices
  + position maps), and the attribute / index / foreign-key lemmas (L-elem).  Those parts are covered by the correspondence run and
  by the executable predicate `Spec.c01` evaluated on the implementation's printed migration on every check.
-/
import SqlizeModel.Abs.Columns
import SqlizeModel.Proofs.WalkRefine
import SqlizeModel.Impl.Api
import SqlizeModel.Spec.Scope

namespace Sqlize.C01
open Sqlize Sqlize.Spec

/-- C01 at full strength: for all configurations and all pairs of well-formed scripts, the printed up migration,
    executed on the old schema, is well-formed at every step, yields the new schema, and touches only what differs -/
def Statement : Prop :=
  ∀ (g : Globals) (old new : List Stmt) (dbOld dbNew : DB),
    execAll true [] old = some dbOld → execAll true [] new = some dbNew →
    Scope.orderCompatible dbOld dbNew = true →
    ∃ up, modelUp g old new = .ok up ∧ c01 g.ignoreOrder dbOld dbNew up = .ok ()

/-- the same under the scope predicate (every excluded region is a recorded finding or an exclusion of the property) -/
def Statement_partial : Prop :=
  ∀ (g : Globals) (old new : List Stmt) (dbOld dbNew : DB),
    execAll true [] old = some dbOld → execAll true [] new = some dbNew →
    Scope.c01 g dbOld dbNew old new = none →
    ∃ up, modelUp g old new = .ok up ∧ c01 g.ignoreOrder dbOld dbNew up false = .ok ()

/-- column-order core of C01, for all column lists -/
theorem columns (N O : List Abs.Name) (hN : N.Nodup) (hO : O.Nodup) (hc : Abs.OrderCompatible N O) :
    Abs.execAll O (Abs.emitUp (Abs.tagged N O)) = some N :=
  Abs.columns_up N O hN hO hc

/-- column-order core of C01 on the implementation model's walk -/
theorem printed_columns (g : Globals) (hio : g.ignoreOrder = false) (hd : g.dialect ≠ .sqlite) (tb : String)
    (cols : List Column) (hact : ∀ c ∈ cols, SimpleAction c.action) (hne : ∀ c ∈ cols, c.name ≠ "")
    (hnd : (cols.map (·.name)).Nodup) :
    Abs.execAll (oldNames cols) ((Table.walkCols g tb true [] cols).1.filterMap colStmt) = some (newNames cols) :=
  printed_up_correct g hio hd tb cols hact hne hnd

-- non-vacuity of `printed_columns`: a merged list with a kept, a dropped, an added and a modified column
def exCols : List Column :=
  [{ name := "a", action := .none }, { name := "x", action := .remove }, { name := "b", action := .add, cur := { typ := some "int(11)" } },
   { name := "c", action := .modify, cur := { typ := some "text" } }]
example : (Table.walkCols {} "t" true [] exCols).1.filterMap colStmt = [.dropCol "x", .addCol "b" (some "a")] := by decide
example : (∀ c ∈ exCols, SimpleAction c.action) ∧ (∀ c ∈ exCols, c.name ≠ "") ∧ (exCols.map (·.name)).Nodup := by
  refine ⟨?_, ?_, by decide⟩ <;> intro c hc <;> simp [exCols] at hc <;> rcases hc with rfl | rfl | rfl | rfl <;> simp [SimpleAction]

-- non-vacuity: the hypotheses are satisfiable and the walk is non-trivial
example : Abs.emitUp (Abs.tagged ["z", "a", "b", "e", "d", "f"] ["a", "b", "c", "d"]) =
    [.addCol "z" none, .dropCol "c", .addCol "e" (some "b"), .addCol "f" (some "d")] := by decide
example : Abs.OrderCompatible ["z", "a", "b", "e", "d", "f"] ["a", "b", "c", "d"] := by unfold Abs.OrderCompatible; decide

end Sqlize.C01
