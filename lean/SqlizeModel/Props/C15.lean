/-
  C15 — the Avro export is one well-formed envelope per selected MySQL table.
  The model `Avro.arvoSchema` produces the exact JSON text of `encoding/json` for the Go values.  Proved for every state:
  * `other_dialects_nothing`;
  * `one_document_per_table` — one document per selected table, in load order (selection as in C14);
  * `one_field_per_column` — the `before.Value.fields` array has exactly one entry per column, in table order;
  * `nullable_iff_default` — a field is the union `["null", T]` exactly when the column has a default option;
  * the type class table (`kindOf`): tinyint → bool, other integers → int, decimal(p,s) → bytes/decimal with p and s,
    float/double → float64, date-time kinds → zoned timestamp, json, enum with its values, everything else string —
    is executable text processing on the canonical type text; it is exercised by the correspondence run on the full
    MySQL type list (case `types-mysql`), not proved.
  JSON well-formedness of the envelope skeleton is checked by the harness (every Go document is parsed as JSON).
  * `export_of_the_reference_schema` — **from scripts** (Proofs/AvroScripts.lean): for every script of any length the
    reference engine accepts (MySQL reader model, column-safe vocabulary), `ArvoSchema` of the loaded model is, document by
    document, what the *reference schema* says: one document per selected table of the reference schema, in its order,
    named after the table, whose fields are `Spec.Exports.avroFields` of the reference table — one field per reference
    column in table order, typed by the class of its type text, nullable exactly when it has a DEFAULT option.  Nothing
    else of the loaded state (actions, position maps, previous attributes, indexes, keys) reaches the export.
-/
import SqlizeModel.Impl.Avro
import SqlizeModel.Proofs.AvroScripts

namespace Sqlize.C15
open Sqlize Sqlize.Avro

theorem other_dialects_nothing (d : Dialect) (m : Migration) (need : List String) (h : d ≠ .mysql) :
    arvoSchema d m need = [] := by
  simp [arvoSchema, h]

theorem one_document_per_table (m : Migration) (need : List String) :
    arvoSchema .mysql m need = (Mermaid.selectTables m need).map schema ∧
    (arvoSchema .mysql m need).length = (Mermaid.selectTables m need).length := by
  simp [arvoSchema]

/-- the field entries of one table -/
def fields (t : Table) : List String := t.cols.map field

theorem one_field_per_column (t : Table) : (fields t).length = t.cols.length := by simp [fields]

/-- the union type `["null", T]` -/
def nullable (t : String) : String := "[\"null\"," ++ t ++ "]"

theorem nullable_iff_default (c : Column) :
    field c = "{\"name\":" ++ jsonStr c.name ++ ",\"type\":" ++
      (if hasDefault c then nullable (kindOf c.cur.typeText).toJson else (kindOf c.cur.typeText).toJson) ++ "}" := by
  simp [field, nullable]

open Sqlize.Spec in
/-- from scripts: the export is the export of the reference schema -/
theorem export_of_the_reference_schema (rc : Bool) (ss : List Stmt) (db : Spec.DB) (hs : ss.all Stmt.colSafe = true)
    (he : execAll rc [] ss = some db) (need : List String) :
    ∃ m, ReaderMysql.run {} ss = .ok m ∧
      arvoSchema .mysql m need =
        (Exports.selectDB db need).map (fun t => Avro.schemaOf t.name (Exports.avroFields t)) :=
  avro_of_schema rc ss db hs he need

-- non-vacuity: a script with an ALTER history (a column added in the middle, one dropped, a default) meets the hypotheses;
-- two tables, one selected
open Sqlize.Spec in
def exScript : List Stmt :=
  [.createTable "users" 0 [{ name := "id", typ := "int(11)" }, { name := "tmp", typ := "text" },
                           { name := "price", typ := "decimal(10,2)", opts := [{ kind := .default, dflt := .num "0" }] }] [],
   .createTable "logs" 0 [{ name := "at", typ := "datetime" }] [],
   .addColumn "users" { name := "flag", typ := "tinyint(1)" } (.after "id"),
   .dropColumn "users" "tmp"]
open Sqlize.Spec in
example : exScript.all Stmt.colSafe = true ∧ (execAll true [] exScript).isSome = true := by decide
#guard (do let m ← ReaderMysql.run {} exScript; pure (arvoSchema .mysql m ["users"])).toOption ==
  (Spec.execAll true [] exScript).map (fun db => (Spec.Exports.selectDB db ["users"]).map (fun t => Avro.schemaOf t.name (Spec.Exports.avroFields t)))
#guard ((Spec.execAll true [] exScript).map (fun db => (Spec.Exports.selectDB db ["users"]).map Spec.Exports.avroFields)) ==
  some ["{\"name\":\"id\",\"type\":\"int\"},{\"name\":\"flag\",\"type\":\"bool\"},{\"name\":\"price\",\"type\":[\"null\",{\"connect.name\":\"org.apache.kafka.connect.data.Decimal\",\"connect.parameters\":{\"connect.decimal.precision\":\"10\",\"scale\":\"2\"},\"connect.version\":1,\"logicalType\":\"decimal\",\"precision\":10,\"scale\":2,\"type\":\"bytes\"}]}"]

end Sqlize.C15
