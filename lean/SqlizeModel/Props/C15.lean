/-
  C15 — the Avro export is one well-formed envelope per selected MySQL table.
  The model `Avro.arvoSchema` produces the exact JSON text of `encoding/json` for the Go values.  Proved for every state:
  * `other_dialects_nothing`;
  * `one_document_per_table` — one document per selected table, in load order (selection as in C14);
  * `one_field_per_column` — the `before.Value.fields` array has exactly one entry per column, in table order;
  * `nullable_iff_default` — a field is the union `["null", T]` exactly when the column has a default option;
  * the type class table (`kindOf`): tinyint → bool, other integers → int, decimal(p,s) → bytes/decimal with p and s,
    float/double → float64, date-time kinds → zoned timestamp, json, enum with its values, everything else string —
    is executable text processing on the canonical type text; it is exercised by the correspondence run on the full
    MySQL type list (case `types-mysql`), not proved.
  JSON well-formedness of the envelope skeleton is checked by the harness (every Go document is parsed as JSON).
-/
import SqlizeModel.Impl.Avro

namespace Sqlize.C15
open Sqlize Sqlize.Avro

theorem other_dialects_nothing (d : Dialect) (m : Migration) (need : List String) (h : d ≠ .mysql) :
    arvoSchema d m need = [] := by
  simp [arvoSchema, h]

theorem one_document_per_table (m : Migration) (need : List String) :
    arvoSchema .mysql m need = (Mermaid.selectTables m need).map schema ∧
    (arvoSchema .mysql m need).length = (Mermaid.selectTables m need).length := by
  simp [arvoSchema]

/-- the field entries of one table -/
def fields (t : Table) : List String := t.cols.map field

theorem one_field_per_column (t : Table) : (fields t).length = t.cols.length := by simp [fields]

/-- the union type `["null", T]` -/
def nullable (t : String) : String := "[\"null\"," ++ t ++ "]"

theorem nullable_iff_default (c : Column) :
    field c = "{\"name\":" ++ jsonStr c.name ++ ",\"type\":" ++
      (if hasDefault c then nullable (kindOf c.cur.typeText).toJson else (kindOf c.cur.typeText).toJson) ++ "}" := by
  simp [field, nullable]

end Sqlize.C15
