/-
  C16 — snake_case naming is a total, stable, loss-free function.
  Model: Impl/Snake.lean (`toSnake`, the loop of utils.ToSnakeCase on ASCII input).
  Statement and main theorems only; lemmas live in Proofs/Snake*.lean.
-/
import SqlizeModel.Proofs.SnakeSpec

namespace Sqlize.C16
open Sqlize.Snake Sqlize.SnakeSpec

/-- Full statement of C16 over the model, for every ASCII/Unicode `List Char` input `s`. -/
def Statement : Prop :=
  ∀ s : List Char,
    -- (1) only lower-cases letters and inserts underscores: the output is the rendering of a marking,
    --     and removing the inserted underscores gives back the lower-cased input
    (toSnake s = (renderMarked s (marks s)).map (·.1) ∧
     ((renderMarked s (marks s)).filter (fun p => !p.2)).map (·.1) = lowerS s ∧
     (marks s).length = s.length) ∧
    -- (2) no underscore is inserted at the start
    ((marks s).head? ≠ some true) ∧
    -- (3) an underscore is only ever inserted in front of a capital
    (∀ p ∈ s.zip (marks s), p.2 = true → isUpper p.1 = true) ∧
    -- (4) one is inserted before every capital that follows a lowercase letter
    (∀ pre p c post, s = pre ++ p :: c :: post → isLower p = true → isUpper c = true →
        (marks s)[pre.length + 1]? = some true) ∧
    -- (5) inside an all-caps run: exactly when a lowercase letter other than a final `s` follows
    (∀ pre p c post, s = pre ++ p :: c :: post → isUpper p = true → isUpper c = true →
        (marks s)[pre.length + 1]? = some (lowerFollows post)) ∧
    -- (6) the result is a fixed point
    (toSnake (toSnake s) = toSnake s) ∧
    -- (7) the executable form of (1)–(5) used on the implementation's outputs holds of the model
    (snakeSpecOK s (toSnake s) = true)

/-- (8) identifiers that differ by more than case / underscore placement never collide -/
def NoCollision : Prop :=
  ∀ a b : List Char, toSnake a = toSnake b →
    stripUnderscore (lowerS a) = stripUnderscore (lowerS b)

theorem main : Statement := by
  intro s
  refine ⟨⟨go_eq_render s true false, unmark s _ (marksGo_length s true false), marksGo_length s true false⟩,
    marks_head s false, marks_upper s true false, ?_, ?_, ?_, ?_⟩
  · intro pre p c post hs hp hc; subst hs; exact marks_after_lower pre p c post hp hc true false
  · intro pre p c post hs hp hc; subst hs
    rw [lowerFollows_eq]; exact marks_in_caps pre p c post hp hc true false
  · exact go_id_of_no_upper _ (go_no_upper s true false) true false
  · unfold snakeSpecOK toSnake
    rw [align_go]
    exact marksOK_go s none true false ⟨by simp, by simp, by simp⟩

theorem noCollision : NoCollision := by
  intro a b h
  have ha := strip_go a true false
  have hb := strip_go b true false
  unfold toSnake at h
  rw [← ha, ← hb, h]

-- non-vacuity / sanity: concrete instances computed by the kernel
example : toSnake "HTMLFile".toList = "html_file".toList := by decide
example : toSnake "URLs".toList = "urls".toList := by decide
example : toSnake "userID".toList = "user_id".toList := by decide
example : marks "aBCd".toList = [false, true, true, false] := by decide

end Sqlize.C16
