/-
  Props/TieUtilsStr.lean — a regenerated tie (written by bin/mktie).  `Facts.utilsStrSkeleton` is extracted from /repo on every run
  (harness/cmd/factgen/skeleton.go, go/ast): for every function of `utils/str.go` its control skeleton — the control
  statements with their conditions and the selector calls, in source order; assignments and plain expressions are left
  out.  `expectedUtilsStrSkeleton` is the skeleton the hand-written models of `utils/str.go` (but `MigrationFileName`), `utils/slc.go` (Impl/Snake.lean) were written
  against.  A changed condition, a dropped or added branch, loop, early exit or call breaks `utils_str_skeleton_as_modelled` on the next
  run even when no generated input exercises the change; the check then searches for a failing input and reports the
  broken tie either way.
-/
import SqlizeModel.Generated.Skeletons

namespace Sqlize.Tie

def expectedUtilsStrSkeleton : List (String × List String) := [
  ("slc:ContainStr", ["range ss", "do{", "if s == ss[i]", "then{", "return", "}", "}", "return"]),
  ("slc:SlideStrEqual", ["if len(a) != len(b)", "then{", "return", "}", "range a", "do{", "if a[i] != b[i]", "then{", "return", "}", "}", "return"]),
  ("str:ToSnakeCase", ["range input", "do{", "switch ", "cases{", "case isUppercase(c)", "if i > 0 && (upperCount == 0 || nextIsLower(input, i))", "then{", "call WriteByte", "}", "call WriteByte", "call byte", "case isLowercase(c)", "call WriteByte", "call byte", "case isDigit(c)", "call WriteByte", "call byte", "case default", "call WriteByte", "call byte", "}", "}", "return", "call String"]),
  ("str:isDigit", ["return"]),
  ("str:isLowercase", ["return"]),
  ("str:isUppercase", ["return"]),
  ("str:nextIsLower", ["if i >= len(input)", "then{", "return", "}", "if c == 's' && i == len(input)-1", "then{", "return", "}", "return", "call isLowercase", "call rune"])]

theorem utils_str_skeleton_as_modelled : Facts.utilsStrSkeleton = expectedUtilsStrSkeleton := rfl

end Sqlize.Tie
