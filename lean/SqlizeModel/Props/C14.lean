/-
  C14 — the Mermaid ERD shows exactly the selected tables, columns and relations.

  The model `Mermaid.erd` is the Go builder line by line; the property's clauses are proved of it for every state:
  * `select_all`, `select_named` — all tables when none is named, otherwise exactly the named ones that exist, in load
    order (whatever the order / duplicates / unknown names of the request);
  * `block_per_table`, `line_per_column` — one entity block per selected table, in that order, each made of the header,
    one attribute line per column in table order, and the closing line;
  * `relation_once`, `relation_exists` — per table, the emitted relation keys are duplicate-free, and every foreign key's
    (table, referenced table) pair is emitted: one relation line exactly when a foreign key links the two entities;
  * `live_is_url` — `MermaidJsLive` is the mermaid.ink URL followed by the URL-safe base64 of that same text.
  That the *model state* holds exactly the live tables / columns / keys of the schema is C05 (state correspondence); the
  executable predicate re-derives the ERD from the reference schema and compares it with the Go text on every case.
  * `blocks_of_the_reference_schema_partial` — **from scripts**, the structural part (Proofs/MermaidScripts.lean): for every
    script the reference engine accepts (MySQL reader model, column-safe vocabulary), the blocks of the ERD are the
    selected tables of the *reference schema* in its order, and the lines of a block are the reference columns in table
    order with the reference name and abbreviated type.  Missing for the full line: the PK/FK marker (it reads the
    column's own PRIMARY KEY option and foreign-key mark) and the comment (a field of the column record the simulation
    relation does not follow); both are decided by the export suite on every run.
-/
import SqlizeModel.Impl.Mermaid
import SqlizeModel.Proofs.MermaidScripts

namespace Sqlize.C14
open Sqlize Sqlize.Mermaid

theorem select_all (m : Migration) : selectTables m [] = m.tables := by
  simp [selectTables]

theorem select_named (m : Migration) (need : List String) (h : need ≠ []) :
    selectTables m need = m.tables.filter (fun t => need.contains t.name) := by
  cases need with
  | nil => exact absurd rfl h
  | cons a r => simp [selectTables]

/-- the lines of one entity block -/
def entityLines (t : Table) : List String := [" " ++ toUpperAscii t.name ++ " {"] ++ t.cols.map attrLine ++ [" }"]

theorem line_per_column (t : Table) :
    entity t = "\n".intercalate (entityLines t) ∧ (entityLines t).length = t.cols.length + 2 := by
  constructor
  · rfl
  · simp [entityLines]

theorem block_per_table (m : Migration) (need : List String) :
    erd m need = erdTag ++ "\n" ++ "\n".intercalate ((selectTables m need).map entity) ++ "\n" ++
      "\n".intercalate ((selectTables m need).flatMap relations) := rfl

/-- keys of the relation lines emitted for a foreign-key list, given the keys already seen -/
def emittedKeys (seen : List String) : List ForeignKey → List String
  | [] => []
  | f :: rest =>
    let key := f.table ++ "-" ++ f.refTable
    if seen.contains key then emittedKeys seen rest else key :: emittedKeys (key :: seen) rest

theorem relations_length (seen : List String) (fks : List ForeignKey) :
    (relationsGo seen fks).length = (emittedKeys seen fks).length := by
  induction fks generalizing seen with
  | nil => rfl
  | cons f r ih =>
    simp only [relationsGo, emittedKeys]
    split
    · exact ih seen
    · simp [ih]

theorem emitted_not_seen (fks : List ForeignKey) : ∀ seen k, k ∈ emittedKeys seen fks → k ∉ seen := by
  induction fks with
  | nil => intro seen k h; simp [emittedKeys] at h
  | cons f r ih =>
    intro seen k h
    simp only [emittedKeys] at h
    split at h
    · exact ih seen k h
    · rename_i hns
      simp only [List.mem_cons] at h
      rcases h with rfl | h
      · simpa using hns
      · have := ih _ k h
        intro hk; exact this (by simp [hk])

/-- at most one relation line per (table, referenced table) pair -/
theorem relation_once (fks : List ForeignKey) : ∀ seen, (emittedKeys seen fks).Nodup := by
  induction fks with
  | nil => intro _; simp [emittedKeys]
  | cons f r ih =>
    intro seen
    simp only [emittedKeys]
    split
    · exact ih seen
    · refine List.nodup_cons.mpr ⟨?_, ih _⟩
      intro h
      exact emitted_not_seen r _ _ h (by simp)

/-- every foreign key's pair has its relation line (or had one already) -/
theorem relation_exists (fks : List ForeignKey) : ∀ seen, ∀ f ∈ fks,
    (f.table ++ "-" ++ f.refTable) ∈ seen ∨ (f.table ++ "-" ++ f.refTable) ∈ emittedKeys seen fks := by
  induction fks with
  | nil => intro _ f hf; simp at hf
  | cons g r ih =>
    intro seen f hf
    simp only [List.mem_cons] at hf
    simp only [emittedKeys]
    rcases hf with rfl | hf
    · split
      · rename_i h; exact Or.inl (by simpa using h)
      · exact Or.inr (by simp)
    · split
      · exact ih seen f hf
      · rcases ih ((g.table ++ "-" ++ g.refTable) :: seen) f hf with h | h
        · simp only [List.mem_cons] at h
          rcases h with h | h
          · exact Or.inr (List.mem_cons.mpr (Or.inl h))
          · exact Or.inl h
        · exact Or.inr (List.mem_cons.mpr (Or.inr h))

theorem live_is_url (m : Migration) (need : List String) :
    live m need = liveUrl ++ Base64.urlEncode (erd m need) := rfl

example : Base64.urlEncode "erDiagram\n T {" = "ZXJEaWFncmFtCiBUIHs=" := by decide

open Sqlize.Spec in
/-- from scripts: tables and columns of the ERD are those of the reference schema (marker and comment: see the header) -/
theorem blocks_of_the_reference_schema_partial (rc : Bool) (ss : List Stmt) (db : Spec.DB) (hs : ss.all Stmt.colSafe = true)
    (he : execAll rc [] ss = some db) (need : List String) :
    ∃ m, ReaderMysql.run {} ss = .ok m ∧
      (selectTables m need).map (fun t => (t.name, t.cols.map Mermaid.lineCore)) =
        (Exports.selectDB db need).map (fun t => (t.name, t.cols.map Exports.lineCore)) :=
  erd_blocks_of_schema rc ss db hs he need

open Sqlize.Spec in
/-- the same for the Postgres reader model, on the fragment its fidelity theorem covers -/
theorem blocks_of_the_reference_schema_pg_partial (rc : Bool) (ss : List Stmt) (db : Spec.DB) (hs : ss.all Stmt.pgSafe = true)
    (he : execAll rc [] ss = some db) (need : List String) :
    ∃ m, ReaderPg.run {} ss = .ok m ∧
      (selectTables m need).map (fun t => (t.name, t.cols.map Mermaid.lineCore)) =
        (Exports.selectDB db need).map (fun t => (t.name, t.cols.map Exports.lineCore)) :=
  erd_blocks_of_schema_pg rc ss db hs he need

end Sqlize.C14
