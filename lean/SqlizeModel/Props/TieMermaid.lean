/-
  Props/TieMermaid.lean — a regenerated tie (written by bin/mktie).  `Facts.mermaidSkeleton` is extracted from /repo on every run
  (harness/cmd/factgen/skeleton.go, go/ast): for every function of package `mermaidjs` its control skeleton — the control
  statements with their conditions and the selector calls, in source order; assignments and plain expressions are left
  out.  `expectedMermaidSkeleton` is the skeleton the hand-written models of package `mermaidjs` (Impl/Mermaid.lean) were written
  against.  A changed condition, a dropped or added branch, loop, early exit or call breaks `mermaid_skeleton_as_modelled` on the next
  run even when no generated input exercises the change; the check then searches for a failing input and reports the
  broken tie either way.
-/
import SqlizeModel.Generated.Skeletons

namespace Sqlize.Tie

def expectedMermaidSkeleton : List (String × List String) := [
  ("builder:MermaidJs.AddTable", ["func{", "return", "call ToUpper", "}", "call normEntityName", "range table.Columns", "do{", "call DataType", "if strings.HasPrefix(strings.ToLower(dataType), \"enum\")", "then{", "}", "call Constraint", "if cmt != \"\"", "then{", "}", "call Sprintf", "}", "call Join", "range table.ForeignKeys", "do{", "if ok", "then{", "continue", "}", "call Sprintf", "call normEntityName", "call normEntityName", "}"]),
  ("builder:MermaidJs.Live", ["call EncodeToString", "call String", "return"]),
  ("builder:MermaidJs.String", ["return", "call Join", "call Join"]),
  ("builder:NewMermaidJs", ["range tables", "do{", "call AddTable", "}", "return"])]

theorem mermaid_skeleton_as_modelled : Facts.mermaidSkeleton = expectedMermaidSkeleton := rfl

end Sqlize.Tie
