/-
  C06 — Go structs are translated to DDL by the documented conventions.

  The model `Builder.addTable` is the Go builder branch by branch (tag switch, type tables over the regenerated
  templates, layout).  Proved for every declaration:
  * `table_name` — the table is named by `TableName()` when the method exists, else by the snake_case type name, plus
    `s` under plural naming;
  * `ignored_field` — a field tagged `-` contributes nothing (no column, no index, no rename);
  * `embedded_last` — the columns of `parseStruct` are the struct's own columns followed by those of its embedded
    structs, histories and index statements likewise;
  * `pk_first` — `AddTable` moves the first line that declares the primary key to the front and keeps the other lines
    in their order (the result is that line followed by the remaining lines, unchanged).
  * `column_name` — **the column is named by the `column:` item or the snake_case field name, behind the accumulated
    prefix**: after the whole tag of a field the name is `nameOf pre items (pre ++ snake fieldName)`: the last `column:`
    item wins (with a `,previous:` part the column is created under the old name — the rename statement follows), every
    other item leaves the name alone; in particular `default_name`: without a `column:` item the name is the prefixed
    snake_case field name.
  * `primary_key_iff`, `not_null_iff`, `null_iff`, `auto_increment_iff` — **exactly the tagged options**: a flag is set
    after the tag iff one of its items is that key, *in either spelling* (the comparison is on the item normalised by
    `ToSnakeCase`: `primaryKey` and `primary_key`, `notNull` and `not_null`, …); no other item sets or clears it.
  * `foreign_key_only_from_its_items` — a field gets a foreign-key attribute (and then no column) only from a
    `foreign_key:` / `references:` / `constraint:` item.
  The full clause ("exactly one column per non-ignored field with exactly the tagged options…") is decided on every run:
  the generator derives the expected schema from the structured tag items by the documented conventions, the Go DDL is
  parsed by the independent grammar, executed on the reference engine and compared; the model's text must equal Go's.
-/
import SqlizeModel.Impl.Builder
import SqlizeModel.Proofs.BuilderLaws

namespace Sqlize.C06
open Sqlize Sqlize.Builder

theorem table_name (c : Cfg) (d : Decl) :
    tableName c d = match d.tableNameMethod with
      | some t => t
      | none => snake (if c.plural then d.typeName ++ "s" else d.typeName) := rfl

theorem ignored_field (c : Cfg) (tb pre n tn : String) (t : GoType) (rest : List Field) (acc : Acc) :
    parseFields c tb pre (.mk n t tn "-" :: rest) acc = parseFields c tb pre rest acc := by
  simp [parseFields]

theorem embedded_last (c : Cfg) (tb pre : String) (fields : List Field) :
    let acc := parseFields c tb pre fields {}
    (parseStruct c tb pre fields).columns.drop acc.rawCols.length = acc.embedCols ∧
    (parseStruct c tb pre fields).history = acc.history ++ acc.embedHistory ∧
    (parseStruct c tb pre fields).indexes = acc.comments ++ (acc.indexes ++ acc.embedIndexes) := by
  simp [parseStruct]

/-- the primary-key-first arrangement of `AddTable` on the list of column lines -/
def pkFirst (lines : List String) (isPk : String → Bool) : List String :=
  match lines.findIdx? isPk with
  | some i => (lines[i]!) :: (lines.take i ++ lines.drop (i + 1))
  | none => lines

theorem pk_first (lines : List String) (isPk : String → Bool) (i : Nat) (h : lines.findIdx? isPk = some i) :
    pkFirst lines isPk = (lines[i]!) :: (lines.take i ++ lines.drop (i + 1)) ∧
    (pkFirst lines isPk).length = lines.length := by
  have hi : i < lines.length := by
    have := List.findIdx?_eq_some_iff_getElem.mp h
    exact this.1
  constructor
  · simp [pkFirst, h]
  · simp [pkFirst, h, List.length_take, List.length_drop]; omega

/-- the state of the tag switch after the tag of a field -/
def fieldState (c : Cfg) (tb pre : String) (pk : List String) (fieldName typeName tag : String) : TagState :=
  tagFold c tb pre typeName { at_ := { name := pre ++ snake fieldName }, pkFields := pk } (tag.splitOn ";")

theorem column_name (c : Cfg) (tb pre : String) (pk : List String) (fieldName typeName tag : String) :
    (fieldState c tb pre pk fieldName typeName tag).at_.name = nameOf pre (tag.splitOn ";") (pre ++ snake fieldName) :=
  tagFold_name_eq c tb pre typeName _ _

theorem default_name (c : Cfg) (tb pre : String) (pk : List String) (fieldName typeName tag : String)
    (h : ∀ ot ∈ tag.splitOn ";", (snake ot).startsWith "column:" = false) :
    (fieldState c tb pre pk fieldName typeName tag).at_.name = pre ++ snake fieldName :=
  tagFold_name c tb pre typeName _ _ h

theorem primary_key_iff (c : Cfg) (tb pre : String) (pk : List String) (fieldName typeName tag : String) :
    (fieldState c tb pre pk fieldName typeName tag).at_.isPk = (tag.splitOn ";").any (fun ot => snake ot == "primary_key") := by
  unfold fieldState; rw [tagFold_isPk]; rfl

theorem not_null_iff (c : Cfg) (tb pre : String) (pk : List String) (fieldName typeName tag : String) :
    (fieldState c tb pre pk fieldName typeName tag).at_.isNotNull = (tag.splitOn ";").any (fun ot => snake ot == "not_null") := by
  unfold fieldState; rw [tagFold_isNotNull]; rfl

theorem null_iff (c : Cfg) (tb pre : String) (pk : List String) (fieldName typeName tag : String) :
    (fieldState c tb pre pk fieldName typeName tag).at_.isNull = (tag.splitOn ";").any (fun ot => snake ot == "null") := by
  unfold fieldState; rw [tagFold_isNull]; rfl

theorem auto_increment_iff (c : Cfg) (tb pre : String) (pk : List String) (fieldName typeName tag : String) :
    (fieldState c tb pre pk fieldName typeName tag).at_.isAutoIncr = (tag.splitOn ";").any (fun ot => snake ot == "auto_increment") := by
  unfold fieldState; rw [tagFold_isAutoIncr]; rfl

theorem foreign_key_only_from_its_items (c : Cfg) (tb pre : String) (pk : List String) (fieldName typeName tag : String)
    (h : ∀ ot ∈ tag.splitOn ";", fkItem ot = false) : (fieldState c tb pre pk fieldName typeName tag).at_.fk = none :=
  tagFold_fk c tb pre typeName _ _ h

-- a test (evaluated, not proved: the string functions are defined by well-founded recursion): the two spellings of one
-- tag, and a `column:` item with a previous name
#guard (fieldState {} "t" "p_" [] "UserID" "int" "primaryKey;autoIncrement;column:uid").at_.name == "p_uid"
#guard (fieldState {} "t" "p_" [] "UserID" "int" "primaryKey;autoIncrement;column:uid").at_.isPk
#guard (fieldState {} "t" "p_" [] "UserID" "int" "primary_key;auto_increment").at_.isAutoIncr
#guard (fieldState {} "t" "p_" [] "UserID" "int" "primary_key;auto_increment").at_.name == "p_user_id"
#guard (fieldState {} "t" "" [] "Mail" "string" "column:email,previous:mail").at_.name == "mail"

end Sqlize.C06
