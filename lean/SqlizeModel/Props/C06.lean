/-
  C06 — Go structs are translated to DDL by the documented conventions.

  The model `Builder.addTable` is the Go builder branch by branch (tag switch, type tables over the regenerated
  templates, layout).  Proved for every declaration:
  * `table_name` — the table is named by `TableName()` when the method exists, else by the snake_case type name, plus
    `s` under plural naming;
  * `ignored_field` — a field tagged `-` contributes nothing (no column, no index, no rename);
  * `embedded_last` — the columns of `parseStruct` are the struct's own columns followed by those of its embedded
    structs, histories and index statements likewise;
  * `pk_first` — `AddTable` moves the first line that declares the primary key to the front and keeps the other lines
    in their order (the result is that line followed by the remaining lines, unchanged).
  The full clause ("exactly one column per non-ignored field with exactly the tagged options…") is decided on every run:
  the generator derives the expected schema from the structured tag items by the documented conventions, the Go DDL is
  parsed by the independent grammar, executed on the reference engine and compared; the model's text must equal Go's.
-/
import SqlizeModel.Impl.Builder

namespace Sqlize.C06
open Sqlize Sqlize.Builder

theorem table_name (c : Cfg) (d : Decl) :
    tableName c d = match d.tableNameMethod with
      | some t => t
      | none => snake (if c.plural then d.typeName ++ "s" else d.typeName) := rfl

theorem ignored_field (c : Cfg) (tb pre n tn : String) (t : GoType) (rest : List Field) (acc : Acc) :
    parseFields c tb pre (.mk n t tn "-" :: rest) acc = parseFields c tb pre rest acc := by
  simp [parseFields]

theorem embedded_last (c : Cfg) (tb pre : String) (fields : List Field) :
    let acc := parseFields c tb pre fields {}
    (parseStruct c tb pre fields).columns.drop acc.rawCols.length = acc.embedCols ∧
    (parseStruct c tb pre fields).history = acc.history ++ acc.embedHistory ∧
    (parseStruct c tb pre fields).indexes = acc.comments ++ (acc.indexes ++ acc.embedIndexes) := by
  simp [parseStruct]

/-- the primary-key-first arrangement of `AddTable` on the list of column lines -/
def pkFirst (lines : List String) (isPk : String → Bool) : List String :=
  match lines.findIdx? isPk with
  | some i => (lines[i]!) :: (lines.take i ++ lines.drop (i + 1))
  | none => lines

theorem pk_first (lines : List String) (isPk : String → Bool) (i : Nat) (h : lines.findIdx? isPk = some i) :
    pkFirst lines isPk = (lines[i]!) :: (lines.take i ++ lines.drop (i + 1)) ∧
    (pkFirst lines isPk).length = lines.length := by
  have hi : i < lines.length := by
    have := List.findIdx?_eq_some_iff_getElem.mp h
    exact this.1
  constructor
  · simp [pkFirst, h]
  · simp [pkFirst, h, List.length_take, List.length_drop]; omega

end Sqlize.C06
