/-
  C10 — tag spelling and keyword case change presentation only.

  (a) Tag spelling.  The builder normalises every tag item with `ToSnakeCase` (the C16 model) before the tag switch.
      `keyword_spellings` proves, by kernel evaluation of that model, that every camelCase / PascalCase spelling of the
      documented tag keywords normalises to the snake_case keyword the switch tests for, and `keywords_fixed` that the
      snake_case spellings are fixed points — so both spellings take the same branch of `tagItem`.
      That the *value* part of an item is taken from the raw item (not from the normalised one) is `trimPrefix`'s
      definition.  Item order inside a tag is **not** irrelevant in general (recorded finding `index-tag-before-column-tag`).
  (b) Keyword case.  `apply_only_case` — the lower-case option maps every template to its ASCII lower-casing before
      substitution, so arguments (identifiers, literals, comments) are inserted untouched; `tpl_lower_eq` states it for
      every template method and dialect of the regenerated table.  `hash_case_free` (C07.case_option_irrelevant): same
      fingerprint under both options.
      **`keyword_case_statement`, `keyword_case_migration`** (Proofs/CaseOnly): for every dialect, every statement
      (identifiers, literals, comments, type names of any spelling) and every migration, the text printed under the
      lower-case option and the text printed without it are **equal up to ASCII case**, and fail with the same message
      when the renderer fails.  The option reaches the text through `Globals.tpl` (the template is lower-cased *before*
      substitution, so the arguments are inserted untouched) and `Globals.kw` (option keywords) only; `fmt.Sprintf`'s
      scanner sees the same verbs in a template and in its lower-casing because no `%` of a regenerated template is
      followed by a capital `S`, `D`, `T` (`templates_ok`: kernel evaluation over `Generated/Facts.lean`, so a changed
      template is re-checked on every run).  Hypothesis: an index type given by the user, which becomes part of
      the template, does not contain `%S`, `%D` or `%T`.  (The first proof needed a second hypothesis, no `stripPk`
      definition: the MODIFY of a column that is a key on both sides cut the first occurrence of the rendered keyword
      out of the definition, and a comment containing the words was hit first — `comment 'the' primary key`.  Run on
      the real code the excluded point was a genuine defect; it is repaired, the model follows, the hypothesis is gone
      and the `#guard` on `exStrip` below now holds.)
  Decided on every run by the struct suite (same declaration under both case options: equal up to ASCII case, quoted
  segments identical) and by the pair/script suites under both options.
-/
import SqlizeModel.Impl.Builder
import SqlizeModel.Props.C07
import SqlizeModel.Proofs.CaseOnly

namespace Sqlize.C10
open Sqlize Sqlize.Snake

theorem keyword_spellings :
    toSnake "primaryKey".toList = "primary_key".toList ∧ toSnake "PrimaryKey".toList = "primary_key".toList ∧
    toSnake "autoIncrement".toList = "auto_increment".toList ∧ toSnake "AutoIncrement".toList = "auto_increment".toList ∧
    toSnake "notNull".toList = "not_null".toList ∧ toSnake "NotNull".toList = "not_null".toList ∧
    toSnake "indexColumns:".toList = "index_columns:".toList ∧ toSnake "indexType:".toList = "index_type:".toList ∧
    toSnake "foreignKey:".toList = "foreign_key:".toList ∧ toSnake "embeddedPrefix:".toList = "embedded_prefix:".toList ∧
    toSnake "IndexColumns:".toList = "index_columns:".toList ∧ toSnake "ForeignKey:".toList = "foreign_key:".toList := by
  decide

theorem keywords_fixed :
    ∀ k ∈ ["primary_key", "auto_increment", "not_null", "null", "index", "unique", "squash", "embedded", "column:", "type:",
           "default:", "comment:", "index:", "unique:", "index_columns:", "index_type:", "foreign_key:", "references:",
           "constraint:", "embedded_prefix:"], toSnake k.toList = k.toList := by
  decide

/-- the case option only lower-cases the template: `Globals.tpl` under `lower` is the ASCII lower-casing of the
    template under upper case, for templates wrapped in `apply` -/
theorem apply_only_case (d : Dialect) (method arg : String) (h : (Facts.getTpl method d.name (arg != "")).applied = true) :
    ({ dialect := d, lower := true } : Globals).tpl method arg =
      toLowerAscii (({ dialect := d, lower := false } : Globals).tpl method arg) := by
  simp [Globals.tpl, h]

theorem hash_case_free (H : String → String) (F : String → Int) (g : Globals) (m : Migration) :
    m.hashWith H F { g with lower := true } = m.hashWith H F { g with lower := false } :=
  C07.case_option_irrelevant H F g m

/-- keyword case, one statement: equal up to ASCII case, for every dialect and every argument -/
theorem keyword_case_statement (g : Globals) (s : Stmt) (hu : s.usingOK g.dialect = true) :
    (s.render { g with lower := true }).map toLowerAscii = (s.render { g with lower := false }).map toLowerAscii :=
  render_case_only g s hu

/-- keyword case, a whole migration -/
theorem keyword_case_migration (g : Globals) (tables : List (List Stmt))
    (h : ∀ ss ∈ tables, ∀ s ∈ ss, s.usingOK g.dialect = true) :
    (renderMigration { g with lower := true } tables).map toLowerAscii =
      (renderMigration { g with lower := false } tables).map toLowerAscii :=
  migration_case_only g tables h

/-- keyword case, migrations whose index types are the ones the MySQL grammar knows: no hypothesis about templates -/
theorem keyword_case_migration_known_index_types (g : Globals) (tables : List (List Stmt))
    (h : ∀ ss ∈ tables, ∀ s ∈ ss, ∀ t n cols uniq usingT, s = Stmt.createIndex t n cols uniq usingT →
      usingT ∈ ["", "BTREE", "HASH", "RTREE", "btree", "hash", "rtree"]) :
    (renderMigration { g with lower := true } tables).map toLowerAscii =
      (renderMigration { g with lower := false } tables).map toLowerAscii :=
  migration_case_only_known g tables h

-- non-vacuity: a statement with an identifier, a literal and a comment in mixed case meets the hypotheses, the two texts
-- differ (the keywords) and agree up to case; the arguments are the same in both
def exStmt : Stmt :=
  .createTable "Users" 8 [{ name := "Id", typ := "int(11)", opts := [{ kind := .notNull }] },
    { name := "Name", typ := "VARCHAR(64)", opts := [{ kind := .default, dflt := .str "It's Me" }, { kind := .comment, text := "The NAME" }] }] []
example : exStmt.usingOK .mysql = true ∧ (Stmt.createIndex "t" "i" ["a"] false "HASH").usingOK .mysql = true := by decide
#guard (exStmt.render { lower := true }).toOption != (exStmt.render { lower := false }).toOption
#guard ((exStmt.render { lower := true }).toOption.map toLowerAscii) == ((exStmt.render { lower := false }).toOption.map toLowerAscii)
#guard (exStmt.render { lower := true }).toOption ==
  some "create table `Users` (\n `Id`       int(11) not null,\n `Name`     VARCHAR(64) default 'It''s Me' comment 'The NAME'\n);"
-- the MODIFY of a column that is a key on both sides and whose comment contains the words: the option is skipped, the
-- comment is untouched (before the repair the lower-case text was `comment 'the' primary key`)
def exStrip : Stmt :=
  .modifyColumn "t" { name := "id", typ := "int(11)", opts := [{ kind := .comment, text := "the primary key" }, { kind := .primaryKey }], stripPk := true }
#guard ((exStrip.render { lower := true }).toOption.map toLowerAscii) == ((exStrip.render { lower := false }).toOption.map toLowerAscii)
#guard (exStrip.render { lower := true }).toOption == some "alter table `t` modify column `id` int(11) comment 'the primary key';"

end Sqlize.C10
