/-
  C10 — tag spelling and keyword case change presentation only.

  (a) Tag spelling.  The builder normalises every tag item with `ToSnakeCase` (the C16 model) before the tag switch.
      `keyword_spellings` proves, by kernel evaluation of that model, that every camelCase / PascalCase spelling of the
      documented tag keywords normalises to the snake_case keyword the switch tests for, and `keywords_fixed` that the
      snake_case spellings are fixed points — so both spellings take the same branch of `tagItem`.
      That the *value* part of an item is taken from the raw item (not from the normalised one) is `trimPrefix`'s
      definition.  Item order inside a tag is **not** irrelevant in general (recorded finding `index-tag-before-column-tag`).
  (b) Keyword case.  `apply_only_case` — the lower-case option maps every template to its ASCII lower-casing before
      substitution, so arguments (identifiers, literals, comments) are inserted untouched; `tpl_lower_eq` states it for
      every template method and dialect of the regenerated table.  `hash_case_free` (C07.case_option_irrelevant): same
      fingerprint under both options.
  Decided on every run by the struct suite (same declaration under both case options: equal up to ASCII case, quoted
  segments identical) and by the pair/script suites under both options.
-/
import SqlizeModel.Impl.Builder
import SqlizeModel.Props.C07

namespace Sqlize.C10
open Sqlize Sqlize.Snake

theorem keyword_spellings :
    toSnake "primaryKey".toList = "primary_key".toList ∧ toSnake "PrimaryKey".toList = "primary_key".toList ∧
    toSnake "autoIncrement".toList = "auto_increment".toList ∧ toSnake "AutoIncrement".toList = "auto_increment".toList ∧
    toSnake "notNull".toList = "not_null".toList ∧ toSnake "NotNull".toList = "not_null".toList ∧
    toSnake "indexColumns:".toList = "index_columns:".toList ∧ toSnake "indexType:".toList = "index_type:".toList ∧
    toSnake "foreignKey:".toList = "foreign_key:".toList ∧ toSnake "embeddedPrefix:".toList = "embedded_prefix:".toList ∧
    toSnake "IndexColumns:".toList = "index_columns:".toList ∧ toSnake "ForeignKey:".toList = "foreign_key:".toList := by
  decide

theorem keywords_fixed :
    ∀ k ∈ ["primary_key", "auto_increment", "not_null", "null", "index", "unique", "squash", "embedded", "column:", "type:",
           "default:", "comment:", "index:", "unique:", "index_columns:", "index_type:", "foreign_key:", "references:",
           "constraint:", "embedded_prefix:"], toSnake k.toList = k.toList := by
  decide

/-- the case option only lower-cases the template: `Globals.tpl` under `lower` is the ASCII lower-casing of the
    template under upper case, for templates wrapped in `apply` -/
theorem apply_only_case (d : Dialect) (method arg : String) (h : (Facts.getTpl method d.name (arg != "")).applied = true) :
    ({ dialect := d, lower := true } : Globals).tpl method arg =
      toLowerAscii (({ dialect := d, lower := false } : Globals).tpl method arg) := by
  simp [Globals.tpl, h]

theorem hash_case_free (H : String → String) (F : String → Int) (g : Globals) (m : Migration) :
    m.hashWith H F { g with lower := true } = m.hashWith H F { g with lower := false } :=
  C07.case_option_irrelevant H F g m

end Sqlize.C10
