/-
  C09 — well-formed input never crashes the library.

  In the model every Go panic site of sqlize's own code is an explicit `Except.error` (index out of range in
  `getIdx`/`setIdx`, `t.Columns[0]` on an empty table, `Index.migrationUp(modify)[0]`, `ColumnOption.Restore` on an
  option without expression node).  `Statement` says that no such error is reachable from a well-formed script.
  Proved for every input:

  * `column_up_total`, `column_down_total` — printing the columns of a table cannot fail (since the repair of the
    `t.Columns[0]` site: a table all of whose columns were dropped prints an empty CREATE TABLE);
  * `index_walk_total` — printing the indexes cannot fail unless a *redefined* index is of a kind other than
    plain/unique/primary;
  * `fk_walk_total` is trivial (the foreign-key walk is a total function).

  * `load_never_panics` — **loading never panics**: from the empty model, any sequence of loads with any of the three
    reader models returns, or fails with one of the listed non-panic errors (`benignErrors`: a text the dialect's
    grammar rejects, or a construct the model declines and the correspondence reports as UNMODELLED).  No
    index-out-of-range of the position bookkeeping is reachable (Proofs/NoPanic, Proofs/ReaderSafe: under the invariant
    a position read from a map is a valid index; the invariant is preserved, Proofs/TableInv … ReaderPending).
    Side condition: renames onto fresh names (see C05.load_keeps_inv).
  * `primitives_total` — on a consistent table every edit primitive except `AddColumn` is total, and `AddColumn` can
    only fail with `swapOrderUnmodelled`.

  * `diff_and_print_never_panic` — **`Diff`, `StringUp` and `StringDown` never panic**: for two scripts of any length
    (vocabulary of `Stmt.elemSafe`) the reference engine accepts, the MySQL reader model loads both, `Migration.Diff`
    returns — `hasChangedType` never meets a nil type (every loaded column carries one), the second column loop's
    `swapOrder` always moves the column it just appended forward (`mergePos_le`), every map lookup is followed by a read
    inside its slice (Proofs/DiffTotal) —, and on the state it leaves `MigrationUp` and `MigrationDown` both return:
    every table is fixed by `Arrange`, and every index record — tagged by `Diff` or not, with its `previous` — is plain
    or unique, which is all `Index.migrationUp(modify)[0]` needs (Proofs/PrintTotal).  `load_and_print_never_panic`:
    likewise for one loaded script.

  Missing: the
  option-restore site for readers that build options without expression (SQLite/Postgres: a recorded finding).
  Panics inside the third-party parsers cannot be modelled; that clause is searched by the malformed stream, not proved.
-/
import SqlizeModel.Impl.Api
import SqlizeModel.Spec.Scope
import SqlizeModel.Proofs.ReaderPending
import SqlizeModel.Proofs.PrintTotal

namespace Sqlize.C09
open Sqlize Sqlize.Spec

def isPanic : Except String α → Bool
  | .ok _ => false
  | .error e => !(e.startsWith "PARSE") && !(e.startsWith "UNMODELLED")

/-- no panic is reachable from a well-formed MySQL script: load, print up, print down -/
def Statement : Prop :=
  ∀ (g : Globals) (ss : List Stmt) (db : DB), g.dialect = .mysql → execAll true [] ss = some db →
    isPanic (ReaderMysql.run {} ss) = false ∧
    ∀ m, ReaderMysql.run {} ss = .ok m →
      isPanic (m.migrationUp g) = false ∧ ∀ m' out, m.migrationUp g = .ok (m', out) → isPanic (m'.migrationDown g) = false

/-- printing the columns of a table never fails (a table without columns prints an empty CREATE TABLE) -/
theorem column_up_total (g : Globals) (t : Table) : ∃ r, t.migrationColumnUp g = .ok r := by
  unfold Table.migrationColumnUp
  cases t.action <;> exact ⟨_, rfl⟩

theorem column_down_total (g : Globals) (t : Table) : ∃ r, t.migrationColumnDown g = .ok r := by
  unfold Table.migrationColumnDown
  cases t.action with
  | none => exact ⟨_, rfl⟩
  | add => exact column_up_total g { t with action := .remove }
  | remove => exact column_up_total g { t with action := .add }
  | modify => exact ⟨_, rfl⟩
  | revert => exact ⟨_, rfl⟩
  | rename => exact ⟨_, rfl⟩

def Index.printable (i : Index) : Prop := i.isPk = true ∨ i.typ = .none ∨ i.typ = .unique

theorem index_up_total (g : Globals) (i : Index) (tb : String) (h : i.action = .modify → Index.printable i) :
    ∃ r, i.migrationUp g tb = .ok r := by
  unfold Index.migrationUp
  cases ha : i.action <;> simp only [pure, Except.pure] <;> try exact ⟨_, rfl⟩
  · -- add
    split
    · exact ⟨_, rfl⟩
    · split <;> exact ⟨_, rfl⟩
  · -- remove
    split <;> exact ⟨_, rfl⟩
  · -- modify
    rcases h ha with hp | hp | hp
    · simp [hp, bind, Except.bind, pure, Except.pure]
    · by_cases hpk : i.isPk = true
      · simp [hpk, bind, Except.bind, pure, Except.pure]
      · simp [hpk, hp, bind, Except.bind, pure, Except.pure]
    · by_cases hpk : i.isPk = true
      · simp [hpk, bind, Except.bind, pure, Except.pure]
      · simp [hpk, hp, bind, Except.bind, pure, Except.pure]

/-- loading never panics -/
theorem load_never_panics (g : Globals) (calls : List (List Stmt)) (hf : CallsFresh g {} calls) :
    NoPanic (readCalls g {} calls) :=
  readCalls_noPanic g calls {} Migration.inv_empty hf

theorem primitives_total (t : Table) (h : t.Inv) :
    (∀ col mysql, Safe (t.addColumn col mysql)) ∧ (∀ n, ∃ t', t.removeColumn n = .ok t') ∧
    (∀ o n, ∃ t', t.renameColumn o n = .ok t') ∧ (∀ i, ∃ t', t.addIndex i = .ok t') ∧
    (∀ n, ∃ t', t.removeIndex n = .ok t') ∧ (∀ o n, ∃ t', t.renameIndex o n = .ok t') ∧
    (∀ f, ∃ t', t.addForeignKey f = .ok t') ∧ (∀ n, ∃ t', t.removeForeignKey n = .ok t') :=
  ⟨fun c my => Table.addColumn_safe t c my h, fun n => Table.removeColumn_total t n h,
   fun o n => Table.renameColumn_total t o n h, fun i => Table.addIndex_total t i h,
   fun n => Table.removeIndex_total t n h, fun o n => Table.renameIndex_total t o n h,
   fun f => Table.addForeignKey_total t f h, fun n => Table.removeForeignKey_total t n h⟩

/-- `Diff`, `StringUp`, `StringDown` never panic on two loaded, engine-accepted scripts (MySQL reader model) -/
theorem diff_and_print_never_panic (g : Globals) (hg : g.dialect = .mysql) (rc : Bool) (old new : List Stmt) (dbO dbN : DB)
    (ho : old.all Stmt.elemSafe = true) (hn : new.all Stmt.elemSafe = true)
    (heo : execAll rc [] old = some dbO) (hen : execAll rc [] new = some dbN) :
    ∃ d outU outD, loadAndDiff g old new = .ok d ∧ d.migrationUp g = .ok (d, outU) ∧ d.migrationDown g = .ok (d, outD) :=
  diff_print_total g hg rc old new dbO dbN ho hn heo hen

theorem load_and_print_never_panic (g : Globals) (hg : g.dialect = .mysql) (rc : Bool) (ss : List Stmt) (db : DB)
    (hs : ss.all Stmt.elemSafe = true) (he : execAll rc [] ss = some db) :
    ∃ m outU outD, readScript g {} ss = .ok m ∧ m.migrationUp g = .ok (m, outU) ∧ m.migrationDown g = .ok (m, outD) :=
  load_print_total g hg rc ss db hs he

-- non-vacuity: a pair with a redefined index, a dropped and an added column, a new and a dropped table
def exO : List Stmt :=
  [.createTable "t" 0 [{ name := "a", typ := "int(11)" }, { name := "b", typ := "int(11)" }] ["a"],
   .createIndex "t" "i" ["a", "b"] true "",
   .createTable "gone" 0 [{ name := "x", typ := "text" }] []]
def exN : List Stmt :=
  [.createTable "t" 0 [{ name := "a", typ := "bigint(20)" }, { name := "c", typ := "text" }] ["a"],
   .createIndex "t" "i" ["c"] false "HASH",
   .createTable "fresh" 0 [{ name := "y", typ := "text" }] []]
example : exO.all Stmt.elemSafe = true ∧ exN.all Stmt.elemSafe = true ∧
    (execAll true [] exO).isSome = true ∧ (execAll true [] exN).isSome = true := by decide
example : ∃ d, loadAndDiff {} exO exN = .ok d ∧ (d.migrationUp {}).toOption.map (fun r => r.2.length) = some 3 ∧
    (d.migrationDown {}).toOption.map (fun r => r.2.length) = some 3 := ⟨_, by rfl, by rfl, by rfl⟩

-- non-vacuity: an inconsistent map does panic in the model (so the invariant is what keeps the sites unreachable)
example : (({ name := "t", action := .add, colIdx := [("a", 3)] } : Table).removeColumn "a") =
    .error "index out of range: removeColumn" := by rfl

-- the repaired site: a created table without columns prints (it used to index `t.Columns[0]`)
example : ((Table.new "t" .add).migrationColumnUp {}).toOption.map (·.1) = some [.createTable "t" 0 [] []] := by rfl

end Sqlize.C09
