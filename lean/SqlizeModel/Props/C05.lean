/-
  C05 — reading DDL yields the schema the DDL describes.

  `Statement` (full strength) relates the MySQL reader model to the reference engine: the dump of the loaded model,
  executed from the empty schema, gives the schema an independent reading of the script gives.  It is not proved in
  full.  Proved for every input:

  * `split_invariant` / `calls_invariant` — loading a script in one call, one statement per call, or in any split into
    calls gives the same model *state* (cursor and pending column position included): the reader is a fold;
  * `rejected_unchanged` — a text the dialect's grammar rejects leaves the loaded model unchanged and reports an error
    (the Go functions parse the whole input before the first edit: regenerated fact `Facts.parseBeforeEdit`, checked by
    `parse_before_edit`).

  * `reader_dispatch_as_modelled` — regenerated fact `Facts.readerEdits`: for every function of the three reader files,
    every branch on the kind of a parsed node (case clause / `if x, ok := n.(*T)`) with the model edits written
    directly in it, in source order, equals the table the reader models were written from: a statement kind that gains,
    loses or reorders an edit breaks this theorem on the next run, whether or not a generated script exercises it.

  * `load_keeps_inv` — every load (any dialect, any split into calls) from the empty model ends in a state whose
    slices and position maps agree (`Migration.Inv`), under the side condition that a RENAME targets a name the table
    does not hold; `rename_onto_existing_breaks` shows the condition is needed: the Go bookkeeping (and the model)
    ends with two columns of one name when it is violated.

  * `names_positions_types_options` / `names_positions_types` / `names_and_positions` — **the reader simulates the
    reference engine on tables, column names, column positions, column types and option kinds**:
    for every script of any length over the vocabulary without RENAME COLUMN / RENAME INDEX / COMMENT ON that the
    reference engine accepts from the empty schema (with or without referential checks), the MySQL reader model loads
    it without error and the loaded model has exactly the reference schema's tables in the same order, each with
    exactly its column names and type texts in the same order, every column with the same option kinds and values
    (NOT NULL, NULL, AUTO_INCREMENT, UNIQUE, DEFAULT, COMMENT) up to order; one commuting square per statement kind (Proofs/FidelitySteps:
    CREATE TABLE with its ColumnDef visits through the cursor, DROP TABLE, ADD COLUMN / FIRST / AFTER via
    `SetColumnPosition` + `swapOrder`, DROP COLUMN, MODIFY COLUMN, keys, indexes, foreign keys), carried by the relation
    `Rel` (consistent maps, no pending position, every record created in this history, same view).

  * `indexes_and_foreign_keys` — **… and on indexes and foreign keys**: for every script of any length over that
    vocabulary less DROP PRIMARY KEY and less an index that is itself called `primary_key` (`Stmt.elemSafe`), table by
    table the loaded model's index records — the `primary_key` record apart, which is how the model keeps a table-level
    primary key — are exactly the reference table's indexes (name, column list, uniqueness, normalised index type, in
    order), its foreign-key records exactly the reference table's foreign keys (name, column, referenced table and
    column, in order), and every table, column, index and key record is live (`Migration.Fresh`); a second pass over
    the reader beside `Rel` (Proofs/Elems.lean, Proofs/FidelityElems.lean), including DROP COLUMN's clean-up loops
    (the column is stripped from every index, an index left empty is forgotten, the keys on the column are dropped).

  * `primary_key_table_level` — **… and on primary keys declared at table level** (`PRIMARY KEY (…)` in CREATE TABLE,
    ALTER TABLE … ADD PRIMARY KEY; no inline PRIMARY KEY option in any column definition): table by table the columns
    of the loaded model's `primary_key` record are exactly the reference table's primary key, no record when there is
    none, through DROP COLUMN's clean-up too (the key loses the column; a key left empty is forgotten) — a third pass
    beside `Rel` and `ElemsOK` (Proofs/FidelityPk.lean).

  * `postgres_fragment` — **the Postgres reader glue simulates the reference engine on its loss-free fragment**: for
    every script of any length made of CREATE TABLE / ADD COLUMN with option-free columns, DROP COLUMN and the Postgres
    spellings of MODIFY COLUMN (`ALTER COLUMN … TYPE`, `ALTER COLUMN … DROP NOT NULL`) on names the parser does not
    quote, that the reference engine accepts from the empty schema, the reader model loads it without error and the
    loaded model has exactly the reference schema's tables in order, each with exactly its columns (name and type) in
    order (Proofs/FidelityPg.lean: the same relation `Rel`, one commuting square per statement, the merge branch of
    `Table.AddColumn` taken with the Postgres type — the branch repaired by FX-pg-alter-column-type; before the repair
    the square for ALTER COLUMN … TYPE did not commute, and neither did the one for DROP NOT NULL, FX-pg-drop-not-null).

  Missing: the same for an inline PRIMARY KEY (the model keeps it as an option of the column: two representations of
  a key, recorded finding `pk-inline-vs-table-level`), and for RENAME COLUMN (a
  renamed record is no longer a plain `add` record: recorded region `rename-column`).  They are covered by correspondence (white-box state after every script, including the position maps,
  plus `invCheck` on the Go state) and by the executable predicate (dump → grammar → reference engine) on every case.
  * `dump_on_reference_engine` — **the statement's own formulation**: the dump of the loaded script (what `StringUp` prints
    against an empty history), executed by the reference engine from the empty schema, is well-formed at every step and
    ends in the schema the reference engine builds from the script itself (MySQL reader model, element-safe vocabulary
    without inline PRIMARY KEY; either field-order setting) — the whole-schema theorem of C01 with an empty old side.
-/
import SqlizeModel.Impl.Api
import SqlizeModel.Spec.Scope
import SqlizeModel.Generated.Facts
import SqlizeModel.Proofs.ReaderPending
import SqlizeModel.Proofs.FidelityMain
import SqlizeModel.Proofs.FidelityElems
import SqlizeModel.Proofs.FidelityPk
import SqlizeModel.Proofs.FidelityPg
import SqlizeModel.Proofs.SchemaIgnoring

namespace Sqlize.C05
open Sqlize Sqlize.Spec

/-- C05, fidelity clause, at full strength for the MySQL reader -/
def Statement : Prop :=
  ∀ (g : Globals) (ss : List Stmt) (db : DB), g.dialect = .mysql →
    execAll true [] ss = some db →
    ∃ m m' out, ReaderMysql.run {} ss = .ok m ∧ m.migrationUp g = .ok (m', out) ∧
      ∃ db', execAll true [] out.flatten = some db' ∧ db'.equiv db = true

def Statement_partial : Prop :=
  ∀ (g : Globals) (ss : List Stmt) (db : DB), g.dialect = .mysql →
    execAll true [] ss = some db → Scope.c05 g db ss = none →
    ∃ m m' out, ReaderMysql.run {} ss = .ok m ∧ m.migrationUp g = .ok (m', out) ∧
      ∃ db', execAll false [] out.flatten = some db' ∧ db'.equiv db = true

theorem split_invariant (m : Migration) (a b : List Stmt) :
    ReaderMysql.run m (a ++ b) = (ReaderMysql.run m a).bind (fun m' => ReaderMysql.run m' b) := by
  induction a generalizing m with
  | nil => rfl
  | cons s r ih =>
    simp only [List.cons_append, ReaderMysql.run, bind, Except.bind]
    cases ReaderMysql.step m s with
    | error e => rfl
    | ok m1 => exact ih m1

/-- any split of a script into calls loads the same model as a single call -/
theorem calls_invariant (m : Migration) (calls : List (List Stmt)) :
    runCalls m calls = ReaderMysql.run m calls.flatten := by
  induction calls generalizing m with
  | nil => rfl
  | cons c rest ih =>
    simp only [runCalls, List.flatten_cons, split_invariant, bind, Except.bind]
    cases ReaderMysql.run m c with
    | error e => rfl
    | ok m1 => exact ih m1

theorem rejected_unchanged (g : Globals) (m : Migration) (e : String) :
    fromString g m (.error e) = (m, some e) := rfl

/-- a panic inside the glue leaves the model passed in (the harness recovers and reports it) -/
theorem failed_unchanged (g : Globals) (m : Migration) (ss : List Stmt) :
    (fromString g m (.ok ss)).2.isSome → (fromString g m (.ok ss)).1 = m := by
  unfold fromString
  cases h : readScript g m ss <;> simp [h]

/-- every load keeps slices and position maps consistent -/
theorem load_keeps_inv (g : Globals) (calls : List (List Stmt)) (m : Migration) (hf : CallsFresh g {} calls)
    (hs : readCalls g {} calls = .ok m) : m.Inv :=
  readCalls_inv g calls {} m Migration.inv_empty hf hs

/-- the side condition is needed: a rename onto an existing column name leaves two columns of one name -/
theorem rename_onto_existing_breaks :
    ∃ m, ReaderMysql.run {} [.createTable "t" 0 [{ name := "a", typ := "int" }, { name := "b", typ := "int" }] [],
                             .renameColumn "t" "a" "b"] = .ok m ∧
      (m.tables.map (fun t => t.cols.map (·.name))) = [["b", "b"]] := ⟨_, by rfl, by rfl⟩

/-- the reader model simulates the reference engine on tables, column names and column positions -/
theorem names_and_positions (rc : Bool) (ss : List Stmt) (db : DB) (hs : ss.all Stmt.colSafe = true)
    (he : execAll rc [] ss = some db) :
    ∃ m, ReaderMysql.run {} ss = .ok m ∧ colView m = specView db ∧ m.Inv ∧ m.NoPending :=
  ReaderMysql.fidelity rc ss db hs he

/-- … and every column carries exactly the reference schema's type -/
theorem names_positions_types (rc : Bool) (ss : List Stmt) (db : DB) (hs : ss.all Stmt.colSafe = true)
    (he : execAll rc [] ss = some db) :
    ∃ m, ReaderMysql.run {} ss = .ok m ∧ ReaderMysql.typedView m = ReaderMysql.typedSpec db :=
  ReaderMysql.fidelity_typed rc ss db hs he

/-- … and, position by position, the same option kinds and values up to order -/
theorem names_positions_types_options (rc : Bool) (ss : List Stmt) (db : DB) (hs : ss.all Stmt.colSafe = true)
    (he : execAll rc [] ss = some db) :
    ∃ m, ReaderMysql.run {} ss = .ok m ∧ ReaderMysql.typedView m = ReaderMysql.typedSpec db ∧
      ∀ (i j : Nat) (tm : Table) (tb : TableSpec) (c : Column) (cs : ColSpec), m.tables[i]? = some tm → db[i]? = some tb →
        tm.cols[j]? = some c → tb.cols[j]? = some cs → (Table.optKinds c.cur.opts).Perm cs.opts :=
  ReaderMysql.fidelity_options rc ss db hs he

/-- … and, table by table, the reference schema's indexes and foreign keys, every record live -/
theorem indexes_and_foreign_keys (rc : Bool) (ss : List Stmt) (db : DB) (hs : ss.all Stmt.elemSafe = true)
    (he : execAll rc [] ss = some db) :
    ∃ m, ReaderMysql.run {} ss = .ok m ∧ colView m = specView db ∧
      m.tables.map (fun t => (idxSpecOf t.idxs, fkSpecOf t.fks)) = db.map (fun tb => (tb.idxs, tb.fks)) ∧
      m.Inv ∧ m.NoPending ∧ m.Fresh :=
  ReaderMysql.fidelity_elems rc ss db hs he

/-- … and the reference schema's primary keys, when they are declared at table level -/
theorem primary_key_table_level (rc : Bool) (ss : List Stmt) (db : DB) (hs : ss.all Stmt.elemSafe = true)
    (ht : ss.all Stmt.tablePk = true) (he : execAll rc [] ss = some db) :
    ∃ m, ReaderMysql.run {} ss = .ok m ∧ m.tables.map (fun t => pkOf t.idxs) = db.map (·.pk) ∧
      ∀ t ∈ m.tables, PkShape t.idxs :=
  ReaderMysql.fidelity_pk rc ss db hs ht he

-- non-vacuity of `indexes_and_foreign_keys`: a script with a table-level primary key, two indexes (one of them losing a
-- column, one losing its only column), a dropped index, two foreign keys (one on a column that is dropped later)
def exElems : List Stmt :=
  [.createTable "u" 0 [{ name := "id", typ := "int(11)" }] ["id"],
   .createTable "t" 0 [{ name := "a", typ := "int(11)" }, { name := "b", typ := "int(11)" }, { name := "c", typ := "text" }] [],
   .createIndex "t" "i_ab" ["a", "b"] true "",
   .createIndex "t" "i_b" ["b"] false "HASH",
   .createIndex "t" "i_c" ["c"] false "",
   .addFk "t" "fk_a" "a" "u" "id",
   .addFk "t" "fk_b" "b" "u" "id",
   .addPrimaryKey "t" ["a"],
   .dropIndex "t" "i_c",
   .dropColumn "t" "b"]
example : exElems.all Stmt.elemSafe = true := by decide
example : (execAll true [] exElems).map (fun db => db.map (fun tb => (tb.idxs, tb.fks))) =
    some [([], []), ([{ name := "i_ab", cols := ["a"], unique := true }], [{ name := "fk_a", col := "a", refT := "u", refC := "id" }])] := by decide
example : (ReaderMysql.run {} exElems).toOption.map (fun m => m.tables.map (fun t => (t.idxs.map (·.name), t.fks.map (·.name)))) =
    some [(["primary_key"], []), (["i_ab", "primary_key"], ["fk_a"])] := by rfl

-- non-vacuity of `primary_key_table_level`: the script below (a key on (id) and one added later on (a), which then loses
-- nothing when `b` is dropped)
example : exElems.all Stmt.tablePk = true := by decide
example : (execAll true [] exElems).map (fun db => db.map (·.pk)) = some [["id"], ["a"]] := by decide

-- non-vacuity: a two-table script with positional adds interleaved across tables, a drop and a modify
def exScript : List Stmt :=
  [.createTable "t" 0 [{ name := "a", typ := "int(11)" }, { name := "b", typ := "int(11)" }] ["a"],
   .createTable "u" 0 [{ name := "x", typ := "int(11)" }] [],
   .addColumn "t" { name := "c", typ := "text" } (.after "a"),
   .addColumn "u" { name := "y", typ := "text" } .first,
   .addColumn "t" { name := "z", typ := "text" } .first,
   .dropColumn "t" "b",
   .modifyColumn "t" { name := "c", typ := "longtext" },
   .createIndex "t" "i" ["c"] false ""]
example : exScript.all Stmt.colSafe = true := by decide
example : (execAll true [] exScript).map specView = some [("t", ["z", "a", "c"]), ("u", ["y", "x"])] := by decide
example : (ReaderMysql.run {} exScript).toOption.map colView = some [("t", ["z", "a", "c"]), ("u", ["y", "x"])] := by rfl
example : (ReaderMysql.run {} exScript).toOption.map ReaderMysql.typedView =
    some [("t", [("z", some "text"), ("a", some "int(11)"), ("c", some "longtext")]),
          ("u", [("y", some "text"), ("x", some "int(11)")])] := by rfl

/-- the Postgres reader glue on its loss-free fragment: tables, column names, positions and types -/
theorem postgres_fragment (rc : Bool) (ss : List Stmt) (db : DB) (hs : ss.all Stmt.pgSafe = true)
    (he : execAll rc [] ss = some db) :
    ∃ m, ReaderPg.run {} ss = .ok m ∧ ReaderMysql.typedView m = ReaderMysql.typedSpec db ∧ m.Inv ∧ m.NoPending :=
  ReaderPg.fidelity rc ss db hs he

-- non-vacuity: two tables, a column added to the first after the second was created, a drop, two retypes, DROP NOT NULL
def exPg : List Stmt :=
  [.createTable "t" 0 [{ name := "a", typ := "INT8" }, { name := "b", typ := "VARCHAR(64)" }] [],
   .createTable "u" 0 [{ name := "x", typ := "INT8" }] [],
   .addColumn "t" { name := "c", typ := "INT4" } .none,
   .alterType "t" "b" "STRING",
   .dropColumn "t" "a",
   .alterType "t" "c" "INT8",
   .dropNotNull "t" "b"]
example : exPg.all Stmt.pgSafe = true := by decide
example : (execAll true [] exPg).map ReaderMysql.typedSpec =
    some [("t", [("b", some "STRING"), ("c", some "INT8")]), ("u", [("x", some "INT8")])] := by decide
example : (ReaderPg.run {} exPg).toOption.map ReaderMysql.typedView =
    some [("t", [("b", some "STRING"), ("c", some "INT8")]), ("u", [("x", some "INT8")])] := by rfl

/-- what the hand-written reader models (Impl/ReaderMysql, ReaderPg, ReaderSqlite) are models of: for every function of
    the three reader files, every branch on the kind of a parsed node with the model edits written directly in it, in
    source order.  Reviewed against the models entry by entry; e.g. `AlterTableDropNotNull` edits nothing
    (`ReaderPg.step (.dropNotNull ..) = pure m`), `AlterTableAlterColumnType` and `AlterTableSetDefault` are one
    `AddColumn` each, `CreateIndex` / `DropIndex` go through the cursor's table. -/
def expectedReaderEdits : List (String × String × List String) := [

  ("mysql.ParserMysql", "/ast.DDLNode", []),
  ("mysql.Enter", "/*ast.TableName", ["Using"]),
  ("mysql.Enter", "/*ast.DropTableStmt", ["RemoveTable"]),
  ("mysql.Enter", "/*ast.AlterTableStmt", []),
  ("mysql.Enter", "/*ast.AlterTableStmt/ast.AlterTableAddColumns", ["SetColumnPosition"]),
  ("mysql.Enter", "/*ast.AlterTableStmt/ast.AlterTableAddConstraint", []),
  ("mysql.Enter", "/*ast.AlterTableStmt/ast.AlterTableAddConstraint/ast.ConstraintPrimaryKey", ["AddIndex", "AddColumn"]),
  ("mysql.Enter", "/*ast.AlterTableStmt/ast.AlterTableAddConstraint/ast.ConstraintForeignKey", ["AddForeignKey"]),
  ("mysql.Enter", "/*ast.AlterTableStmt/ast.AlterTableDropColumn", ["RemoveColumn"]),
  ("mysql.Enter", "/*ast.AlterTableStmt/ast.AlterTableDropPrimaryKey", ["RemoveIndex"]),
  ("mysql.Enter", "/*ast.AlterTableStmt/ast.AlterTableDropIndex", ["RemoveIndex"]),
  ("mysql.Enter", "/*ast.AlterTableStmt/ast.AlterTableDropForeignKey", ["RemoveForeignKey"]),
  ("mysql.Enter", "/*ast.AlterTableStmt/ast.AlterTableModifyColumn", ["AddColumn"]),
  ("mysql.Enter", "/*ast.AlterTableStmt/ast.AlterTableRenameColumn", ["RenameColumn"]),
  ("mysql.Enter", "/*ast.AlterTableStmt/ast.AlterTableRenameTable", ["RenameTable"]),
  ("mysql.Enter", "/*ast.AlterTableStmt/ast.AlterTableRenameIndex", ["RenameIndex"]),
  ("mysql.Enter", "/*ast.DropIndexStmt", ["RemoveIndex"]),
  ("mysql.Enter", "/*ast.CreateTableStmt", ["Using", "AddTable"]),
  ("mysql.Enter", "/*ast.CreateTableStmt/ast.ConstraintPrimaryKey", []),
  ("mysql.Enter", "/*ast.CreateTableStmt/ast.ConstraintKey,ast.ConstraintIndex", []),
  ("mysql.Enter", "/*ast.CreateTableStmt/ast.ConstraintUniq,ast.ConstraintUniqKey,ast.ConstraintUniqIndex", []),
  ("mysql.Enter", "/*ast.ColumnDef", ["AddColumn"]),
  ("mysql.Enter", "/*ast.ColumnDef/ast.ValueExpr", []),
  ("mysql.Enter", "/*ast.CreateIndexStmt", ["AddIndex"]),
  ("postgresql.walker", "/*tree.CreateTable", ["AddTable", "Using"]),
  ("postgresql.walker", "/*tree.ColumnTableDef", ["AddColumn", "AddIndex"]),
  ("postgresql.walker", "/*tree.CommentOnColumn", ["AddComment"]),
  ("postgresql.walker", "/*tree.CreateIndex", ["AddIndex"]),
  ("postgresql.walker", "/*tree.DropIndex", ["RemoveIndex"]),
  ("postgresql.walker", "/*tree.AlterTable", []),
  ("postgresql.walker", "/*tree.AlterTable/*tree.AlterTableRenameTable", ["RenameTable"]),
  ("postgresql.walker", "/*tree.AlterTable/*tree.AlterTableRenameColumn", ["RenameColumn"]),
  ("postgresql.walker", "/*tree.AlterTable/*tree.AlterTableRenameConstraint", ["RenameIndex"]),
  ("postgresql.walker", "/*tree.AlterTable/*tree.AlterTableAddColumn", ["AddColumn", "AddIndex"]),
  ("postgresql.walker", "/*tree.AlterTable/*tree.AlterTableDropColumn", ["RemoveColumn"]),
  ("postgresql.walker", "/*tree.AlterTable/*tree.AlterTableDropNotNull", []),
  ("postgresql.walker", "/*tree.AlterTable/*tree.AlterTableAlterColumnType", ["AddColumn"]),
  ("postgresql.walker", "/*tree.AlterTable/*tree.AlterTableSetDefault", ["AddColumn"]),
  ("postgresql.walker", "/*tree.AlterTable/*tree.AlterTableAddConstraint", []),
  ("postgresql.walker", "/*tree.AlterTable/*tree.AlterTableAddConstraint/*tree.UniqueConstraintTableDef", ["AddIndex"]),
  ("postgresql.walker", "/*tree.AlterTable/*tree.AlterTableAddConstraint/*tree.ForeignKeyConstraintTableDef", ["AddForeignKey"]),
  ("postgresql.walker", "/*tree.AlterTable/*tree.AlterTableDropConstraint", ["RemoveForeignKey", "RemoveIndex"]),
  ("postgresql.walker", "/*tree.RenameTable", ["RenameTable"]),
  ("postgresql.postgresColumn", "/n.PrimaryKey.IsPrimaryKey", []),
  ("postgresql.postgresColumn", "/n.Unique", []),
  ("postgresql.postgresColumn", "/n.References.Table != nil", []),
  ("sqlite.Visit", "/*sqlite.CreateTableStatement", ["AddTable", "Using", "AddColumn"]),
  ("sqlite.Visit", "/*sqlite.CreateTableStatement/*sqlite.UniqueConstraint", ["AddIndex"]),
  ("sqlite.Visit", "/*sqlite.CreateTableStatement/*sqlite.ForeignKeyConstraint", []),
  ("sqlite.Visit", "/*sqlite.CreateIndexStatement", ["AddIndex"]),
  ("sqlite.Visit", "/*sqlite.DropTableStatement", ["RemoveTable"]),
  ("sqlite.Visit", "/*sqlite.DropIndexStatement", []),
  ("sqlite.Visit", "/*sqlite.AlterTableStatement", []),
  ("sqlite.Visit", "/*sqlite.AlterTableStatement/n.Rename.IsValid()", ["RenameTable"]),
  ("sqlite.Visit", "/*sqlite.AlterTableStatement/n.RenameColumn.IsValid()", ["RenameColumn"]),
  ("sqlite.Visit", "/*sqlite.AlterTableStatement/n.AddColumn.IsValid()", ["AddColumn"]),
  ("sqlite.parseSqliteConstrains", "/*sqlite.PrimaryKeyConstraint", []),
  ("sqlite.parseSqliteConstrains", "/*sqlite.NotNullConstraint", []),
  ("sqlite.parseSqliteConstrains", "/*sqlite.UniqueConstraint", ["AddIndex"]),
  ("sqlite.parseSqliteConstrains", "/*sqlite.CheckConstraint", []),
  ("sqlite.parseSqliteConstrains", "/*sqlite.DefaultConstraint", [])]

/-- regenerated fact: the readers' dispatch tables are the ones the reader models were written from -/
theorem reader_dispatch_as_modelled : Facts.readerEdits = expectedReaderEdits := by decide

/-- regenerated fact: in every `Parser*` function the parse call and its `return err` precede the first edit -/
theorem parse_before_edit : ∀ p ∈ Facts.parseBeforeEdit, p.2 = true := by decide

example : Facts.parseBeforeEdit.length = 3 := by decide

open Sqlize.Spec in
/-- **the statement's own formulation, "when printed back, describes exactly what an independent reading of the script
    gives"** (MySQL reader model; scripts of any length over the element-safe vocabulary without inline PRIMARY KEY, no
    table named "" or like the bookkeeping table): what the model prints for the loaded script against an empty history
    — the dump — is accepted by the reference engine statement by statement from the empty schema and ends in a schema
    `DB.equiv` to the one the reference engine builds from the script itself, for either setting of the field-order
    option; and every printed statement creates something the script's schema has (`Spec.c01` with an empty old side).
    This is the whole-schema theorem of C01 with nothing on the old side. -/
theorem dump_on_reference_engine (g : Globals) (hg : g.dialect = .mysql) (rc : Bool) (ss : List Stmt) (db : DB)
    (hs : ss.all Stmt.elemSafe = true) (hp : ss.all Stmt.plainOpts = true) (he : execAll rc [] ss = some db)
    (hdef : ∀ tb ∈ db, tb.name ≠ Migration.defaultMigrationTable) :
    ∃ dump, modelUp g [] ss = .ok dump ∧ c01 g.ignoreOrder [] db dump false = .ok () :=
  schema_up_any g hg rc [] ss [] db rfl hs rfl hp rfl he (fun tb htb => hdef tb (by simpa using htb))
    (fun a ha => (by cases ha))

end Sqlize.C05
