/-
  C05 — reading DDL yields the schema the DDL describes.

  `Statement` (full strength) relates the MySQL reader model to the reference engine: the dump of the loaded model,
  executed from the empty schema, gives the schema an independent reading of the script gives.  It is not proved in
  full.  Proved for every input:

  * `split_invariant` / `calls_invariant` — loading a script in one call, one statement per call, or in any split into
    calls gives the same model *state* (cursor and pending column position included): the reader is a fold;
  * `rejected_unchanged` — a text the dialect's grammar rejects leaves the loaded model unchanged and reports an error
    (the Go functions parse the whole input before the first edit: regenerated fact `Facts.parseBeforeEdit`, checked by
    `parse_before_edit`).

  * `load_keeps_inv` — every load (any dialect, any split into calls) from the empty model ends in a state whose
    slices and position maps agree (`Migration.Inv`), under the side condition that a RENAME targets a name the table
    does not hold; `rename_onto_existing_breaks` shows the condition is needed: the Go bookkeeping (and the model)
    ends with two columns of one name when it is violated.

  Missing: the per-statement commuting squares (L-read).  They are covered by correspondence (white-box state after every script, including the position maps,
  plus `invCheck` on the Go state) and by the executable predicate (dump → grammar → reference engine) on every case.
-/
import SqlizeModel.Impl.Api
import SqlizeModel.Spec.Scope
import SqlizeModel.Generated.Facts
import SqlizeModel.Proofs.ReaderPending

namespace Sqlize.C05
open Sqlize Sqlize.Spec

/-- C05, fidelity clause, at full strength for the MySQL reader -/
def Statement : Prop :=
  ∀ (g : Globals) (ss : List Stmt) (db : DB), g.dialect = .mysql →
    execAll true [] ss = some db →
    ∃ m m' out, ReaderMysql.run {} ss = .ok m ∧ m.migrationUp g = .ok (m', out) ∧
      ∃ db', execAll true [] out.flatten = some db' ∧ db'.equiv db = true

def Statement_partial : Prop :=
  ∀ (g : Globals) (ss : List Stmt) (db : DB), g.dialect = .mysql →
    execAll true [] ss = some db → Scope.c05 g db ss = none →
    ∃ m m' out, ReaderMysql.run {} ss = .ok m ∧ m.migrationUp g = .ok (m', out) ∧
      ∃ db', execAll false [] out.flatten = some db' ∧ db'.equiv db = true

theorem split_invariant (m : Migration) (a b : List Stmt) :
    ReaderMysql.run m (a ++ b) = (ReaderMysql.run m a).bind (fun m' => ReaderMysql.run m' b) := by
  induction a generalizing m with
  | nil => rfl
  | cons s r ih =>
    simp only [List.cons_append, ReaderMysql.run, bind, Except.bind]
    cases ReaderMysql.step m s with
    | error e => rfl
    | ok m1 => exact ih m1

/-- any split of a script into calls loads the same model as a single call -/
theorem calls_invariant (m : Migration) (calls : List (List Stmt)) :
    runCalls m calls = ReaderMysql.run m calls.flatten := by
  induction calls generalizing m with
  | nil => rfl
  | cons c rest ih =>
    simp only [runCalls, List.flatten_cons, split_invariant, bind, Except.bind]
    cases ReaderMysql.run m c with
    | error e => rfl
    | ok m1 => exact ih m1

theorem rejected_unchanged (g : Globals) (m : Migration) (e : String) :
    fromString g m (.error e) = (m, some e) := rfl

/-- a panic inside the glue leaves the model passed in (the harness recovers and reports it) -/
theorem failed_unchanged (g : Globals) (m : Migration) (ss : List Stmt) :
    (fromString g m (.ok ss)).2.isSome → (fromString g m (.ok ss)).1 = m := by
  unfold fromString
  cases h : readScript g m ss <;> simp [h]

/-- every load keeps slices and position maps consistent -/
theorem load_keeps_inv (g : Globals) (calls : List (List Stmt)) (m : Migration) (hf : CallsFresh g {} calls)
    (hs : readCalls g {} calls = .ok m) : m.Inv :=
  readCalls_inv g calls {} m Migration.inv_empty hf hs

/-- the side condition is needed: a rename onto an existing column name leaves two columns of one name -/
theorem rename_onto_existing_breaks :
    ∃ m, ReaderMysql.run {} [.createTable "t" 0 [{ name := "a", typ := "int" }, { name := "b", typ := "int" }] [],
                             .renameColumn "t" "a" "b"] = .ok m ∧
      (m.tables.map (fun t => t.cols.map (·.name))) = [["b", "b"]] := ⟨_, by rfl, by rfl⟩

/-- regenerated fact: in every `Parser*` function the parse call and its `return err` precede the first edit -/
theorem parse_before_edit : ∀ p ∈ Facts.parseBeforeEdit, p.2 = true := by decide

example : Facts.parseBeforeEdit.length = 3 := by decide

end Sqlize.C05
