/-
  Props/TieApiHash.lean — a regenerated tie (written by bin/mktie).  `Facts.apiHashSkeleton` is extracted from /repo on every run
  (harness/cmd/factgen/skeleton.go, go/ast): for every function of `Sqlize.HashValue` its control skeleton — the control
  statements with their conditions and the selector calls, in source order; assignments and plain expressions are left
  out.  `expectedApiHashSkeleton` is the skeleton the hand-written models of `Sqlize.HashValue` (Impl/Hash.lean) were written
  against.  A changed condition, a dropped or added branch, loop, early exit or call breaks `api_hash_skeleton_as_modelled` on the next
  run even when no generated input exercises the change; the check then searches for a failing input and reports the
  broken tie either way.
-/
import SqlizeModel.Generated.Skeletons

namespace Sqlize.Tie

def expectedApiHashSkeleton : List (String × List String) := [
  ("sqlize:Sqlize.HashValue", ["return", "call HashValue"])]

theorem api_hash_skeleton_as_modelled : Facts.apiHashSkeleton = expectedApiHashSkeleton := rfl

end Sqlize.Tie
