/-
  C04 — generate-write-reload converges: history replays to the models.

  The workflow is: H₀ = empty history; H_{i+1} = H_i ++ up(diff(load M_{i+1}, load H_i)).  `converges` proves, for revision
  sequences of **any length**, that after every step the reloaded history describes exactly the models' schema, that the
  next diff is empty, and that the fingerprints agree — *from* the three one-step properties, stated as the fields of
  `Workflow` (an assume–guarantee composition; each field is one of the other properties of this list):

    * `up_correct`   (C01)  executing the printed up migration on the old schema gives the new schema;
    * `reader_hom`   (C05)  re-reading a history extended by a well-formed migration gives the schema obtained by executing
                            that migration on what the history described before (the vocabulary sqlize writes is the
                            vocabulary it re-reads: `Stmt` is both the emitters' output and the readers' input type);
    * `equal_empty`  (C03)  models and history describing the same schema diff to the empty migration;
    * `hash_of_live` (C07)  the fingerprint is a function of the described schema.

  `down_returns` proves the way back: replaying the recorded down migrations in reverse order from the last schema
  returns to the empty one, given `down_correct` (C02).
  What is *not* proved here is that sqlize's model satisfies the four fields in full (see C01/C02/C03/C05/C07 for the
  proved parts); on every run the `history` suite drives the real workflow (in memory and through
  WriteFiles/FromMigrationFolder) and the driver replays every recorded migration on the reference engine.

  **On the implementation model itself** (Proofs/Rounds.lean), without assuming the fields:

    * `model_converges` — for revision lists of any length (MySQL reader model, default field order), every step inside
      the scope of `C01.schema_on_reference_engine` (no inline PRIMARY KEY; common tables
      order-compatible with the same primary key, outside the recorded regions): the history `histM` the workflow writes —
      each printed up migration appended as it reaches the text — is computed without error, is accepted by the
      reference engine statement by statement, and describes a schema `DB.equiv` to the newest revision's.  The
      induction composes the one-step theorem with: the printed migration stays inside the vocabulary the one-step
      theorem assumes of its old side (`schema_up_vocab`: `Table.Diff` keeps the loaded options plain-or-mark,
      Proofs/DiffPlain, UpVocab), the bare foreign-key marks the renderer does not print are invisible to the engine
      (`execAll_textual`), and the scope conditions depend on the old schema only up to `DB.equiv` (`UpScope.of_equiv`).
    * `model_next_diff_empty` — and then the diff of the newest revision against that history returns and both migrations
      are empty (`C03.equal_schemas_from_scripts` through `dbEquiv_of_equiv`).
    * `model_down_returns` — **the way back**: with the hypotheses of `C02.schema_on_reference_engine` at every step as
      well, replaying the down migrations the workflow recorded (`histD`), newest first, on the reference engine from the
      newest revision's schema is well-formed at every statement and ends in the empty schema.  Step i's down migration
      was computed against the history's schema of step i-1, which is only *equivalent* to revision i-1's: the steps
      compose because the reference engine respects `TableSpec.equiv` — `exec_equiv`, all seventeen statement kinds,
      Proofs/ExecEquiv — and keeps table names unique (`exec_nodup`).
    * `model_fingerprint` — **the fingerprint clause**: in the scope of `model_converges`, and when at every step the
      tables two consecutive revisions share come first, in the same relative order, and the new ones after them
      (`ChainOrdered`: `HashValue` lists the table digests in table order — C07 speaks of "the same tables in the same
      order" — and the history lists a created table after the tables it already had), the fingerprint of the history
      equals the fingerprint of the newest revision, for any digest functions.  The whole-schema theorem of C01 carries
      the order of the tables (`namesAfter`, Proofs/TableOrder: a common table stays where it is, a created one goes to
      the end, a dropped one leaves); `hash_of_schema` (C07) makes both values functions of the reference schemas; and
      equivalent schemas listing their tables in the same order have the same value (`hashOf_of_equiv`).  Outside
      `ChainOrdered` the clause is false of model and code alike (a revision that lists a new table before an old one
      has a different fingerprint than the history that creates it last) — that is C07's order clause, not a defect.
-/
import SqlizeModel.Proofs.RoundsDown
import SqlizeModel.Proofs.RoundsHash
import SqlizeModel.Proofs.Rounds
import SqlizeModel.Props.C01
namespace Sqlize.C04

structure Workflow (Script Model DB Mig : Type) where
  empty : Script
  load : Script → Model
  extend : Script → Mig → Script
  up : Model → Model → Mig            -- up new old
  down : Model → Model → Mig
  live : Model → DB
  exec : DB → Mig → Option DB
  emptyDB : DB
  isEmptyMig : Mig → Prop
  hash : Model → Int
  load_empty : live (load empty) = emptyDB
  up_correct : ∀ new old, exec (live old) (up new old) = some (live new)
  down_correct : ∀ new old, exec (live new) (down new old) = some (live old)
  reader_hom : ∀ h mig db', exec (live (load h)) mig = some db' → live (load (extend h mig)) = db'
  equal_empty : ∀ a b, live a = live b → isEmptyMig (up a b) ∧ isEmptyMig (down a b)
  hash_of_live : ∀ a b, live a = live b → hash a = hash b

variable {Script Model DB Mig : Type} (w : Workflow Script Model DB Mig)

/-- the history after the revisions `revs` (models given as scripts), **newest first**: `m :: older` -/
def history : List Script → Script
  | [] => w.empty
  | m :: older =>
    let prev := history older
    w.extend prev (w.up (w.load m) (w.load prev))

/-- after every step the reloaded history describes the models' schema -/
theorem converges (older : List Script) (m : Script) :
    w.live (w.load (history w (m :: older))) = w.live (w.load m) :=
  w.reader_hom _ _ _ (w.up_correct (w.load m) (w.load (history w older)))

/-- … hence the next diff against the same models is empty in both directions and the fingerprints agree -/
theorem next_diff_empty (older : List Script) (m : Script) :
    w.isEmptyMig (w.up (w.load m) (w.load (history w (m :: older)))) ∧
    w.isEmptyMig (w.down (w.load m) (w.load (history w (m :: older)))) ∧
    w.hash (w.load (history w (m :: older))) = w.hash (w.load m) := by
  have h := converges w older m
  exact ⟨(w.equal_empty _ _ h.symm).1, (w.equal_empty _ _ h.symm).2, w.hash_of_live _ _ h⟩

/-- the schema the history describes after the revisions (newest first): emptyDB, or the newest models' schema -/
def schemaAfter : List Script → DB
  | [] => w.emptyDB
  | m :: _ => w.live (w.load m)

theorem history_schema (revs : List Script) : w.live (w.load (history w revs)) = schemaAfter w revs := by
  cases revs with
  | nil => simp [history, schemaAfter, w.load_empty]
  | cons m older => exact converges w older m

/-- the recorded down migration of the newest step leads from the models' schema back to the previous one -/
theorem down_step (older : List Script) (m : Script) :
    w.exec (w.live (w.load m)) (w.down (w.load m) (w.load (history w older))) = some (schemaAfter w older) := by
  rw [w.down_correct, history_schema]

/-- replaying the recorded down migrations, newest first -/
def replayDown : List Script → DB → Option DB
  | [], db => some db
  | m :: older, db => (w.exec db (w.down (w.load m) (w.load (history w older)))).bind (replayDown older)

/-- replaying all recorded down migrations in reverse order of their creation returns to the empty schema -/
theorem down_returns (revs : List Script) : replayDown w revs (schemaAfter w revs) = some w.emptyDB := by
  induction revs with
  | nil => rfl
  | cons m older ih =>
    simp only [replayDown, schemaAfter]
    rw [down_step]
    exact ih
end Sqlize.C04

namespace Sqlize.C04

open Sqlize Sqlize.Spec in
/-- the workflow on the implementation model converges, for revision lists of any length -/
theorem model_converges (g : Globals) (hg : g.dialect = .mysql) (hio : g.ignoreOrder = false)
    (revs : List (List Stmt × Spec.DB))
    (hrev : ∀ p ∈ revs, p.1.all Stmt.elemSafe = true ∧ p.1.all Stmt.plainOpts = true ∧ execAll false [] p.1 = some p.2)
    (hchain : ChainOK revs) :
    ∃ h dbH, histM g (revs.map (·.1)) = .ok h ∧ h.all Stmt.elemSafe = true ∧ h.all Stmt.plainOpts = true ∧
      execAll false [] h = some dbH ∧ dbH.equiv (lastDB revs) = true :=
  rounds g hg hio revs hrev hchain

open Sqlize Sqlize.Spec in
/-- … and the next diff against the same models is empty in both directions -/
theorem model_next_diff_empty (g : Globals) (hg : g.dialect = .mysql) (hio : g.ignoreOrder = false)
    (p : List Stmt × Spec.DB) (older : List (List Stmt × Spec.DB))
    (hrev : ∀ q ∈ p :: older, q.1.all Stmt.elemSafe = true ∧ q.1.all Stmt.plainOpts = true ∧ execAll false [] q.1 = some q.2)
    (hchain : ChainOK (p :: older)) :
    ∃ h d, histM g ((p :: older).map (·.1)) = .ok h ∧ loadAndDiff g h p.1 = .ok d ∧
      d.migrationUp g = .ok (d, []) ∧ d.migrationDown g = .ok (d, []) :=
  rounds_next_diff_empty g hg hio p older hrev hchain

open Sqlize Sqlize.Spec in
/-- the recorded down migrations, replayed newest first from the newest revision's schema, end in the empty schema -/
theorem model_down_returns (g : Globals) (hg : g.dialect = .mysql) (hio : g.ignoreOrder = false)
    (revs : List (List Stmt × Spec.DB))
    (hrev : ∀ p ∈ revs, p.1.all Stmt.elemSafe = true ∧ p.1.all Stmt.plainOpts = true ∧ execAll false [] p.1 = some p.2)
    (hc : ChainOK revs) (hcd : ChainDownOK revs) :
    ∃ h ds, histD g (revs.map (·.1)) = .ok (h, ds) ∧ ds.length = revs.length ∧ replay (lastDB revs) ds = some [] :=
  rounds_down_from_last g hg hio revs hrev hc hcd

open Sqlize Sqlize.Spec in
/-- the fingerprint of the history equals the fingerprint of the newest revision -/
theorem model_fingerprint (H : String → String) (F : String → Int) (g : Globals) (hg : g.dialect = .mysql)
    (hio : g.ignoreOrder = false) (p : List Stmt × Spec.DB) (older : List (List Stmt × Spec.DB))
    (hrev : ∀ q ∈ p :: older, q.1.all Stmt.elemSafe = true ∧ q.1.all Stmt.plainOpts = true ∧ execAll false [] q.1 = some q.2)
    (hchain : ChainOK (p :: older)) (hord : ChainOrdered (p :: older)) :
    ∃ h mH mP v, histM g ((p :: older).map (·.1)) = .ok h ∧ ReaderMysql.run {} h = .ok mH ∧
      ReaderMysql.run {} p.1 = .ok mP ∧ mH.hashWith H F g = .ok v ∧ mP.hashWith H F g = .ok v :=
  rounds_fingerprint H F g hg hio p older hrev hchain hord

-- non-vacuity of `model_converges` (a test of its conclusion on one chain, not the theorem): three revisions — the pair of
-- `C01.exOldW` / `C01.exNewW` and a third that drops a table and an index again —; the history is computed, accepted, and
-- equivalent to the newest revision's schema; the decidable hypotheses hold
open Sqlize Sqlize.Spec in
def exRev3 : List Stmt :=
  [.createTable "keep" 0 [{ name := "k", typ := "int(11)" }] ["k"],
   .createTable "t" 0 [{ name := "z", typ := "text" }, { name := "a", typ := "int(11)", opts := [{ kind := .notNull }] },
                       { name := "c", typ := "varchar(255)" }, { name := "w", typ := "int(11)" }] [],
   .createIndex "t" "i_c" ["c"] true ""]
open Sqlize Sqlize.Spec in
example : C01.exOldW.all Stmt.elemSafe = true ∧ C01.exNewW.all Stmt.elemSafe = true ∧ exRev3.all Stmt.elemSafe = true ∧
    C01.exOldW.all Stmt.plainOpts = true ∧ C01.exNewW.all Stmt.plainOpts = true ∧ exRev3.all Stmt.plainOpts = true := by decide
open Sqlize Sqlize.Spec in
example : ∃ h dbH db3, histM {} [exRev3, C01.exNewW, C01.exOldW] = .ok h ∧ execAll false [] h = some dbH ∧
    execAll false [] exRev3 = some db3 ∧ h.length = 5 + 9 + 4 ∧ dbH.equiv db3 = true ∧
    h.all Stmt.elemSafe = true ∧ h.all Stmt.plainOpts = true :=
  ⟨_, _, _, by rfl, by rfl, by rfl, by decide, by decide, by decide, by decide⟩

-- the same three revisions, the way back (a test of the conclusion of `model_down_returns`)
open Sqlize Sqlize.Spec in
example : ∃ h ds db3, histD {} [exRev3, C01.exNewW, C01.exOldW] = .ok (h, ds) ∧ execAll false [] exRev3 = some db3 ∧
    ds.length = 3 ∧ replay db3 ds = some [] :=
  ⟨_, _, _, by rfl, by rfl, by decide, by decide⟩

-- non-vacuity of `model_fingerprint`: `C01.exOldW`, then its successor with the new table listed last (`exNewF`), then
-- `exRev3` — the chain is `ChainOrdered`; as a test (not the theorem) the values under the real md5 agree at every step
open Sqlize Sqlize.Spec in
def exNewF : List Stmt :=
  [.createTable "keep" 0 [{ name := "k", typ := "int(11)" }] ["k"],
   .createTable "t" 0 [{ name := "z", typ := "text" }, { name := "a", typ := "int(11)", opts := [{ kind := .notNull }] },
                       { name := "c", typ := "varchar(255)" }] [],
   .createIndex "t" "i_c" ["c"] true "",
   .createIndex "t" "i_z" ["z", "a"] false "",
   .createTable "fresh" 0 [{ name := "id", typ := "int(11)", opts := [{ kind := .notNull }] }, { name := "n", typ := "text" },
                           { name := "m", typ := "int(11)" }] ["id"],
   .createIndex "fresh" "i_n" ["n"] false "",
   .createIndex "fresh" "i_nm" ["m", "id"] true "HASH"]
open Sqlize Sqlize.Spec in
example : ∃ db1 db2 db3, execAll false [] C01.exOldW = some db1 ∧ execAll false [] exNewF = some db2 ∧
    execAll false [] exRev3 = some db3 ∧ ChainOrdered [(exRev3, db3), (exNewF, db2), (C01.exOldW, db1)] :=
  ⟨_, _, _, by rfl, by rfl, by rfl, by simp only [ChainOrdered, lastDB]; decide⟩
#guard (do let h ← histM {} [exNewF, C01.exOldW]; let m ← ReaderMysql.run {} h; m.hashValue {}).toOption ==
       (do let m ← ReaderMysql.run {} exNewF; m.hashValue {}).toOption
#guard (do let h ← histM {} [exRev3, exNewF, C01.exOldW]; let m ← ReaderMysql.run {} h; m.hashValue {}).toOption ==
       (do let m ← ReaderMysql.run {} exRev3; m.hashValue {}).toOption
#guard (do let h ← histM {} [exRev3, exNewF, C01.exOldW]; let m ← ReaderMysql.run {} h; m.hashValue {}).toOption.isSome
-- … and outside `ChainOrdered` the clause fails of the model (the new table listed first, the history creates it last)
#guard (do let h ← histM {} [C01.exNewW, C01.exOldW]; let m ← ReaderMysql.run {} h; m.hashValue {}).toOption !=
       (do let m ← ReaderMysql.run {} C01.exNewW; m.hashValue {}).toOption

end Sqlize.C04
