/-
  Props/TieApiFiles.lean — a regenerated tie (written by bin/mktie).  `Facts.apiFilesSkeleton` is extracted from /repo on every run
  (harness/cmd/factgen/skeleton.go, go/ast): for every function of the file entry points of `sqlize.go` its control skeleton — the control
  statements with their conditions and the selector calls, in source order; assignments and plain expressions are left
  out.  `expectedApiFilesSkeleton` is the skeleton the hand-written models of the file entry points of `sqlize.go` (Impl/Files.lean) were written
  against.  A changed condition, a dropped or added branch, loop, early exit or call breaks `api_files_skeleton_as_modelled` on the next
  run even when no generated input exercises the change; the check then searches for a failing input and reports the
  broken tie either way.
-/
import SqlizeModel.Generated.Skeletons

namespace Sqlize.Tie

def expectedApiFilesSkeleton : List (String × List String) := [
  ("sqlize:Sqlize.FromMigrationFolder", ["call ReadPath", "if err != nil", "then{", "return", "}", "range sqls", "do{", "call FromString", "if err != nil", "then{", "return", "}", "}", "return"]),
  ("sqlize:Sqlize.WriteFiles", ["return", "call writeFiles", "call StringUp", "call StringDown"]),
  ("sqlize:Sqlize.WriteFilesVersion", ["return", "call writeFiles", "call migrationUpVersion", "call migrationDownVersion"]),
  ("sqlize:Sqlize.WriteFilesWithVersion", ["return", "call writeFiles", "call StringUp", "call migrationUpVersion", "call StringDown", "call migrationDownVersion"]),
  ("sqlize:Sqlize.writeFiles", ["if migUp == \"\" && migDown == \"\"", "then{", "return", "}", "if migUp == \"\"", "then{", "}", "if migDown == \"\"", "then{", "}", "call MigrationFileName", "call Join", "call WriteFile", "if err != nil", "then{", "return", "}", "if s.migrationDownSuffix != \"\" && s.migrationDownSuffix != s.migrationUpSuffix", "then{", "call Join", "call WriteFile", "if err != nil", "then{", "return", "}", "}", "return"])]

theorem api_files_skeleton_as_modelled : Facts.apiFilesSkeleton = expectedApiFilesSkeleton := rfl

end Sqlize.Tie
