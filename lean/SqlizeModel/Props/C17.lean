/-
  C17 — separate instances can be used from separate goroutines.

  Model.  After construction, every operation of the public API (load, diff within a goroutine's own instances, hash,
  print, export) has the type  `Globals → σ → Op → σ × Out`: it *reads* the package-level state (`element.sql`,
  `element.ignoreFieldOrder`) and reads/writes only the state `σ` owned by the calling goroutine (its own `Sqlize`
  values; `Diff`'s two sides belong to the same goroutine).  That typing is justified by regenerated facts, checked
  here by the kernel on the lists factgen extracts from the current source:
    * `only_constructor_writes_globals` — every assignment to a package-level variable is inside `NewMigration`
      (reached only from `NewSqlize`);
    * `no_go_statements` — the library starts no goroutine of its own;
    * `package_vars` — the package-level variables are exactly the two above plus three never-assigned tables/regexps
      and one error value.
  Theorem `interleaving`: for every schedule (any interleaving of the goroutines' operation sequences, no constructor
  calls), the final state of each goroutine and the outputs it observed, in order, are those of running its own
  sequence alone; `globals_unchanged` is built into the typing.

  Partial by nature: the Go memory model (no data race ⇒ sequential consistency), `reflect` and the third-party parsers'
  internal state are outside the model; the race-detector run (`harness-race`, N goroutines × own instance pairs × pair-
  space workloads, results compared with a sequential run) validates that part and is not a proof.
-/
import SqlizeModel.Impl.Stmt
import SqlizeModel.Generated.Facts

namespace Sqlize.C17
open Sqlize

theorem only_constructor_writes_globals : ∀ w ∈ Facts.globalWriters, w.2 = "element.NewMigration" := by decide

theorem no_go_statements : Facts.goStatements = [] := by decide

theorem package_vars : Facts.packageVars =
    ["element.ignoreFieldOrder", "element.sql", "sql_builder.compileKeepEnumChar", "sql_builder.ignoredFieldComment",
     "sql_builder.reflectValueFields", "utils.PathDoesNotExistErr"] := by decide

theorem written_vars : (Facts.globalWriters.map (·.1)).eraseDups = ["element.ignoreFieldOrder", "element.sql"] := by decide

section
variable {σ Op Out : Type} (step : Globals → σ → Op → σ × Out)

/-- one goroutine running its own operations alone -/
def runAlone (g : Globals) (s : σ) : List Op → σ × List Out
  | [] => (s, [])
  | o :: rest =>
    let (s1, v) := step g s o
    let (s2, vs) := runAlone g s1 rest
    (s2, v :: vs)

/-- a schedule: which goroutine performs which operation next -/
def runSched (g : Globals) (st : Nat → σ) : List (Nat × Op) → (Nat → σ) × List (Nat × Out)
  | [] => (st, [])
  | (i, o) :: rest =>
    let (s1, v) := step g (st i) o
    let (st2, vs) := runSched g (fun j => if j = i then s1 else st j) rest
    (st2, (i, v) :: vs)

def opsOf (i : Nat) (sched : List (Nat × Op)) : List Op := sched.filterMap (fun p => if p.1 = i then some p.2 else none)
def outsOf (i : Nat) (outs : List (Nat × Out)) : List Out := outs.filterMap (fun p => if p.1 = i then some p.2 else none)

theorem interleaving (g : Globals) (sched : List (Nat × Op)) : ∀ (st : Nat → σ) (i : Nat),
    (runSched step g st sched).1 i = (runAlone step g (st i) (opsOf i sched)).1 ∧
    outsOf i (runSched step g st sched).2 = (runAlone step g (st i) (opsOf i sched)).2 := by
  induction sched with
  | nil => intro st i; exact ⟨rfl, rfl⟩
  | cons p rest ih =>
    intro st i
    obtain ⟨j, o⟩ := p
    simp only [runSched]
    have := ih (fun k => if k = j then (step g (st j) o).1 else st k) i
    by_cases h : j = i
    · subst h
      have hops : opsOf j ((j, o) :: rest) = o :: opsOf j rest := by simp [opsOf]
      rw [hops]
      simp only [runAlone, outsOf, List.filterMap_cons, if_true]
      simp only [if_true] at this
      exact ⟨this.1, by rw [← this.2]; rfl⟩
    · have hne : ¬ i = j := fun e => h e.symm
      have hops : opsOf i ((j, o) :: rest) = opsOf i rest := by simp [opsOf, h]
      rw [hops]
      simp only [hne, if_false] at this
      refine ⟨this.1, ?_⟩
      rw [← this.2]
      simp [outsOf, h]

end

-- non-vacuity: a two-goroutine schedule over a counter
example : (runSched (fun (_ : Globals) (s : Nat) (o : Nat) => (s + o, s)) {} (fun _ => 0) [(0, 1), (1, 5), (0, 2)]).1 0 = 3 := by decide

end Sqlize.C17
