/-
  C12 — version bookkeeping statements are exact and kept apart from the schema.

  Proved for every table name (any string, inserted verbatim), every version (all of `Int`, hence all int64), both dirty
  values, the three dialects and both keyword cases — over the templates *regenerated from sql-templates/ddl.go on
  every run*: the model's bookkeeping statements are exactly the declarative ones of Spec/Version.lean
  (`up_zero`, `up_nonzero`, `down_zero`, `down_nonzero`), and the `…WithVersion` forms are the plain migration, a
  newline, and that statement (`with_version`).  `call_shape` checks the regenerated argument order of the four
  `fmt.Sprintf` calls in sqlize.go.  `default_table_skipped` — a table named like the *default* bookkeeping table never
  contributes to a schema migration.

  Not proved / recorded finding: the exclusion is keyed to the default name, not to the configured one
  (`WithMigrationTable("my_ver")` + a history that contains `my_ver`): KF-custom-migration-table.
-/
import SqlizeModel.Impl.Version
import SqlizeModel.Spec.Version
import SqlizeModel.Impl.Emit

namespace Sqlize.C12
open Sqlize Sqlize.VersionSpec

theorem call_shape : Facts.versionCalls =
    [("migrationUpVersion", "CreateTableMigration", ["s.migrationTable"]),
     ("migrationUpVersion", "InsertMigrationVersion", ["s.migrationTable", "s.migrationTable", "ver", "dirty"]),
     ("migrationDownVersion", "DropTableMigration", ["s.migrationTable"]),
     ("migrationDownVersion", "RollbackMigrationVersion", ["s.migrationTable"])] := by decide

theorem tplRollback (d : Dialect) : Facts.getTpl "RollbackMigrationVersion" d.name false = ⟨true, [.lit "DELETE FROM %s LIMIT 1;"]⟩ := by
  cases d <;> decide
theorem tplDrop (d : Dialect) : Facts.getTpl "DropTableMigration" d.name false = ⟨true, [.lit "DROP TABLE IF EXISTS %s;"]⟩ := by
  cases d <;> decide
theorem tplInsert (d : Dialect) : Facts.getTpl "InsertMigrationVersion" d.name false =
    ⟨true, [.lit "DELETE FROM %s LIMIT 1;\nINSERT INTO %s (version, dirty) VALUES (%d, %t);"]⟩ := by
  cases d <;> decide
theorem tplCreateMy : Facts.getTpl "CreateTableMigration" "mysql" false =
    ⟨true, [.lit "CREATE TABLE IF NOT EXISTS %s (\n version    bigint(20) PRIMARY KEY,\n dirty      BOOLEAN\n);"]⟩ := by decide
theorem tplCreateLite : Facts.getTpl "CreateTableMigration" "sqlite3" false =
    ⟨true, [.lit "CREATE TABLE IF NOT EXISTS %s (\n version    bigint(20) PRIMARY KEY,\n dirty      BOOLEAN\n);"]⟩ := by decide
theorem tplCreatePg : Facts.getTpl "CreateTableMigration" "postgres" false =
    ⟨true, [.lit "CREATE TABLE IF NOT EXISTS %s (\n version    BIGINT PRIMARY KEY,\n dirty      BOOLEAN\n);"]⟩ := by decide

/-- a one-piece template wrapped in `apply` -/
theorem tpl_applied (g : Globals) (m : String) (T : String) (h : Facts.getTpl m g.dialect.name false = ⟨true, [.lit T]⟩) :
    g.tpl m = if g.lower then toLowerAscii T else T := by
  simp [Globals.tpl, rawTpl, h, String.join]

theorem down_nonzero (d : Dialect) (lower : Bool) (table : String) (ver : Int) (h : ver ≠ 0) :
    (bookDown { dialect := d, lower := lower, table := table } ver).toList = deleteRow lower table.toList := by
  have hv : (ver == 0) = false := by simpa using h
  simp only [bookDown, hv, VersionCfg.g, Bool.false_eq_true, ↓reduceIte]
  rw [tpl_applied _ _ _ (tplRollback d)]
  cases lower <;> simp [sprintf, sprintfAux, toLowerAscii, deleteRow, kw]

theorem down_zero (d : Dialect) (lower : Bool) (table : String) :
    (bookDown { dialect := d, lower := lower, table := table } 0).toList = dropTable lower table.toList := by
  simp only [bookDown, VersionCfg.g, beq_self_eq_true, ↓reduceIte]
  rw [tpl_applied _ _ _ (tplDrop d)]
  cases lower <;> simp [sprintf, sprintfAux, toLowerAscii, dropTable, kw]

theorem up_zero (d : Dialect) (lower : Bool) (table : String) (dirty : Bool) :
    (bookUp { dialect := d, lower := lower, table := table } 0 dirty).toList = createTable d lower table.toList := by
  simp only [bookUp, VersionCfg.g, beq_self_eq_true, ↓reduceIte]
  cases d
  · rw [tpl_applied _ _ _ tplCreateMy]
    cases lower <;> simp [sprintf, sprintfAux, toLowerAscii, createTable, kw, bigintType]
  · rw [tpl_applied _ _ _ tplCreatePg]
    cases lower <;> simp [sprintf, sprintfAux, toLowerAscii, createTable, kw, bigintType]
  · rw [tpl_applied _ _ _ tplCreateLite]
    cases lower <;> simp [sprintf, sprintfAux, toLowerAscii, createTable, kw, bigintType]

theorem up_nonzero (d : Dialect) (lower : Bool) (table : String) (ver : Int) (dirty : Bool) (h : ver ≠ 0) :
    (bookUp { dialect := d, lower := lower, table := table } ver dirty).toList =
      replaceRow lower table.toList (toString ver).toList (fmtBool dirty).toList := by
  have hv : (ver == 0) = false := by simpa using h
  simp only [bookUp, hv, VersionCfg.g, Bool.false_eq_true, ↓reduceIte]
  rw [tpl_applied _ _ _ (tplInsert d)]
  cases lower <;> simp [sprintf, sprintfAux, toLowerAscii, replaceRow, kw]

theorem with_version (c : VersionCfg) (up down : String) (ver : Int) (dirty : Bool) :
    stringUpWithVersion c up ver dirty = up ++ "\n" ++ bookUp c ver dirty ∧
    stringDownWithVersion c down ver = down ++ "\n" ++ bookDown c ver := ⟨rfl, rfl⟩

/-- a table carrying the default bookkeeping name is skipped by `MigrationUp` / `MigrationDown` -/
theorem default_table_skipped (g : Globals) (up : Bool) (t : Table) (rest : List Table)
    (h : t.name = Migration.defaultMigrationTable) :
    Migration.migrate g up (t :: rest) = (Migration.migrate g up rest).map (fun r => (t :: r.1, r.2)) := by
  simp only [Migration.migrate, h, beq_self_eq_true, if_true, bind, Except.bind, Functor.map, Except.map]
  cases Migration.migrate g up rest <;> rfl

end Sqlize.C12
