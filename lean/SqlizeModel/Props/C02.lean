/-
  C02 — the down migration undoes the up migration exactly.
  Proved for every input: the column-order core (`columns`, `up_down_identity`): the down walk over the merged list puts
  every restored column back at its original position, for column lists of any length.  Missing for the full
  statement: as for C01 (refinement Impl → Abs, attribute/index/foreign-key lemmas); covered meanwhile by correspondence +
  the executable predicate `Spec.c02` on the implementation's printed down migration.
-/
import SqlizeModel.Abs.Columns
import SqlizeModel.Proofs.WalkRefine
import SqlizeModel.Proofs.MergeRefine
import SqlizeModel.Proofs.EndToEnd
import SqlizeModel.Impl.Api
import SqlizeModel.Spec.Scope

namespace Sqlize.C02
open Sqlize Sqlize.Spec

def Statement : Prop :=
  ∀ (g : Globals) (old new : List Stmt) (dbOld dbNew : DB),
    execAll true [] old = some dbOld → execAll true [] new = some dbNew →
    Scope.orderCompatible dbOld dbNew = true →
    ∃ down, modelDown g old new = .ok down ∧ c02 g.ignoreOrder dbOld dbNew down = .ok ()

def Statement_partial : Prop :=
  ∀ (g : Globals) (old new : List Stmt) (dbOld dbNew : DB),
    execAll true [] old = some dbOld → execAll true [] new = some dbNew →
    Scope.c02 g dbOld dbNew old new = none →
    ∃ down, modelDown g old new = .ok down ∧ c02 g.ignoreOrder dbOld dbNew down false = .ok ()

/-- column-order core of C02, for all column lists: the original position of every restored column -/
theorem columns (N O : List Abs.Name) (hN : N.Nodup) (hO : O.Nodup) (hc : Abs.OrderCompatible N O) :
    Abs.execAll N (Abs.emitDown (Abs.tagged N O)) = some O :=
  Abs.columns_down N O hN hO hc

/-- the same on the implementation model's down walk (refinement `walkCols_down_refines`) -/
theorem printed_columns (g : Globals) (hio : g.ignoreOrder = false) (hd : g.dialect ≠ .sqlite) (tb : String)
    (cols : List Column) (hact : ∀ c ∈ cols, SimpleAction c.action) (hne : ∀ c ∈ cols, c.name ≠ "")
    (hnd : (cols.map (·.name)).Nodup) :
    Abs.execAll (newNames cols) ((Table.walkCols g tb false [] cols).1.filterMap colStmt) = some (oldNames cols) :=
  printed_down_correct g hio hd tb cols hact hne hnd

/-- column order of C02 through `Table.Diff` and the down walk of the implementation model (see C01.diffed_columns) -/
theorem diffed_columns (g : Globals) (hio : g.ignoreOrder = false) (hd : g.dialect ≠ .sqlite) (tb : String)
    (d : Dialect) (t old t1 : Table) (cols1 : List Column) (h : t.Inv) (hold : old.Inv)
    (hp : t.pendingPos = none) (hadd : ∀ c ∈ t.cols, c.action = .add) (holdAdd : ∀ c ∈ old.cols, c.action = .add)
    (hne : ∀ n ∈ t.colNames ++ old.colNames, n ≠ "") (hc : Abs.OrderCompatible t.colNames old.colNames)
    (h1 : Table.diffCols1 d old t.cols = .ok cols1)
    (h2 : Table.diffCols2 (d == .mysql) { t with cols := cols1 } [] old.cols = .ok t1) :
    Abs.execAll t.colNames ((Table.walkCols g tb false [] t1.cols).1.filterMap colStmt) = some old.colNames :=
  (Table.diffed_columns g hio hd tb d t old t1 cols1 h hold hp hadd holdAdd hne hc h1 h2).2

/-- column clause of C02 from scripts to printed statements (see C01.columns_from_scripts) -/
theorem columns_from_scripts (g : Globals) (hg : g.dialect = .mysql) (hio : g.ignoreOrder = false) (rc : Bool)
    (old new : List Stmt) (dbO dbN : DB) (ho : old.all Stmt.colSafe = true) (hn : new.all Stmt.colSafe = true)
    (heo : execAll rc [] old = some dbO) (hen : execAll rc [] new = some dbN)
    (d : Migration) (hd : loadAndDiff g old new = .ok d)
    (t : String) (tbO tbN : TableSpec) (hfo : dbO.find t = some tbO) (hfn : dbN.find t = some tbN)
    (hc : Abs.OrderCompatible tbN.colNames tbO.colNames) (hne : ∀ n ∈ tbN.colNames ++ tbO.colNames, n ≠ "") :
    ∃ td ∈ d.tables, td.name = t ∧ td.arrange = .ok td ∧
      td.migrationColumnDown g = .ok (Table.walkCols g t false [] td.cols) ∧
      Abs.execAll tbN.colNames ((Table.walkCols g t false [] td.cols).1.filterMap colStmt) = some tbO.colNames := by
  obtain ⟨td, hm, hn', _, ha, _, hdown, _, hex⟩ :=
    columns_end_to_end g hg hio rc old new dbO dbN ho hn heo hen d hd t tbO tbN hfo hfn hc hne
  exact ⟨td, hm, hn', ha, hdown, hex⟩

/-- running up and then down on the old column list is the identity -/
theorem up_down_identity (N O : List Abs.Name) (hN : N.Nodup) (hO : O.Nodup) (hc : Abs.OrderCompatible N O) :
    (Abs.execAll O (Abs.emitUp (Abs.tagged N O))).bind (fun db => Abs.execAll db (Abs.emitDown (Abs.tagged N O))) = some O :=
  Abs.columns_up_down N O hN hO hc

example : Abs.emitDown (Abs.tagged ["z", "a", "b", "e", "d", "f"] ["a", "b", "c", "d"]) =
    [.dropCol "z", .addCol "c" (some "b"), .dropCol "e", .dropCol "f"] := by decide

end Sqlize.C02
