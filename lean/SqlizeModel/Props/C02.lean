/-
  C02 — the down migration undoes the up migration exactly.
  Proved for every input: the column-order core (`columns`, `up_down_identity`): the down walk over the merged list puts
  every restored column back at its original position, for column lists of any length; its refinement from the Impl
  walk and `Table.Diff` (`printed_columns`, `diffed_columns`), end to end from scripts (`columns_from_scripts`); and

  * `indexes_and_keys_from_scripts` — **the index and foreign-key clauses of the down migration, from scripts**: for two
    scripts of any length (vocabulary of `Stmt.elemSafe`) the reference engine accepts, loaded by the MySQL reader model
    and diffed, the down walk of the record of a table present on both sides prints — no column dropped — exactly
    `Abs.Idx.emitDown` of the reference engine's two index lists (an index the old side does not have is dropped, a
    redefined one is dropped and re-created *as the old side defines it* — the `previous` record `Table.Diff` keeps —, an
    old-only one is created), which turns the *new* index list back into the *old* one up to order, well-formed at
    every step; likewise the foreign keys (`Abs.Idx.emitDownKeep`), unless a key is redefined in place.

  * `indexes_and_keys_up_then_down` — **down undoes up**: from the old index (foreign-key) list, the printed up
    statements followed by the printed down statements are well-formed at every step and end in the old list up to
    order (`Abs.Idx.up_then_down`; the abstract machine does not see the order of the list, `execAll_perm`).

  * `changed_column_reverted` — **a column that differs is put back**: for a column of a table present on both sides
    whose type or options (up to order) differ, `MigrationColumnDown` of the diffed record prints a
    MODIFY COLUMN whose definition the reference engine reads as exactly the *old* side's column (the attributes
    `Table.Diff` kept as `previous`); the down half of `C01.changed_column_modified` (Proofs/Changed.lean).

  * `columns_on_reference_engine` — **the column clause of the down migration on the reference engine itself**: under
    the hypotheses of `C01.columns_on_reference_engine`, the statements `MigrationColumnDown` prints for the diffed
    record — a dropped column re-added at its old place with its old definition (`removed_column_def`), an added one
    dropped, a changed one modified back —, executed by `Spec.execAll` on the *new schema*, are well-formed at every
    step; afterwards the table's column list is `colsEquiv` to the *old* side's and every other table is untouched
    (Proofs/SpecColsDown.lean).  With the C01 theorem: on columns, down undoes up on the reference engine.

  * `indexes_with_dropped_columns` — **the index clause of the down migration when it drops columns**: the statements
    `MigrationIndexDown` prints, called with the columns `MigrationColumnDown` drops, are `Abs.Idx.emitDownSup` of the
    two reference index lists (the DROP of a new-only index all of whose columns go is suppressed); from what the DROP
    COLUMN statements leave of the *new* index list they are well-formed at every step and give the *old* list up to
    order (`Abs.Idx.emitDownSup_correct`, Abs/IdxDropDown.lean) — outside the recorded region
    `index-redefined-old-columns-dropped` read downwards.

  * `schema_on_reference_engine` — **the whole down migration, the executable predicate `Spec.c02` itself**: for scripts
    without inline PRIMARY KEY (MySQL reader model, default field order), tables on
    both sides order-compatible with the same primary key and outside the recorded regions (an index redefined while
    its new columns go; a foreign key redefined under its name), `modelDown` returns, and
    its statements — DROP TABLE for what the up migration created, the column, index and foreign-key statements of the
    tables both sides have (`table_spec_down_fk_any`, `Abs.Idx.emitDownKeepSup`), CREATE TABLE with indexes and foreign
    keys for what the up migration dropped —, executed by `Spec.execAll` on the *new*
    schema (referential checks aside), are well-formed at every step, end in a schema `DB.equiv` to the *old* one, and
    each acts on an element that differs (Proofs/SpecTableDown, SpecTableFkDown, SpecJustifiedDown, SpecSchemaDown).  With
    `C01.schema_on_reference_engine`: on the reference engine, down undoes up.

  Missing for the full statement: as for C01 (a changed primary key, the referential checks of the reference engine); covered by
  correspondence + the executable predicate `Spec.c02` on the implementation's printed down migration.
-/
import SqlizeModel.Abs.Columns
import SqlizeModel.Proofs.WalkRefine
import SqlizeModel.Proofs.MergeRefine
import SqlizeModel.Proofs.EndToEnd
import SqlizeModel.Proofs.EndToEndElems
import SqlizeModel.Impl.Api
import SqlizeModel.Spec.Scope
import SqlizeModel.Props.C01
import SqlizeModel.Proofs.SpecColsDown
import SqlizeModel.Proofs.SpecSchemaDown

namespace Sqlize.C02
open Sqlize Sqlize.Spec

def Statement : Prop :=
  ∀ (g : Globals) (old new : List Stmt) (dbOld dbNew : DB),
    execAll true [] old = some dbOld → execAll true [] new = some dbNew →
    Scope.orderCompatible dbOld dbNew = true →
    ∃ down, modelDown g old new = .ok down ∧ c02 g.ignoreOrder dbOld dbNew down = .ok ()

def Statement_partial : Prop :=
  ∀ (g : Globals) (old new : List Stmt) (dbOld dbNew : DB),
    execAll true [] old = some dbOld → execAll true [] new = some dbNew →
    Scope.c02 g dbOld dbNew old new = none →
    ∃ down, modelDown g old new = .ok down ∧ c02 g.ignoreOrder dbOld dbNew down false = .ok ()

/-- column-order core of C02, for all column lists: the original position of every restored column -/
theorem columns (N O : List Abs.Name) (hN : N.Nodup) (hO : O.Nodup) (hc : Abs.OrderCompatible N O) :
    Abs.execAll N (Abs.emitDown (Abs.tagged N O)) = some O :=
  Abs.columns_down N O hN hO hc

/-- the same on the implementation model's down walk (refinement `walkCols_down_refines`) -/
theorem printed_columns (g : Globals) (hio : g.ignoreOrder = false) (hd : g.dialect ≠ .sqlite) (tb : String)
    (cols : List Column) (hact : ∀ c ∈ cols, SimpleAction c.action) (hne : ∀ c ∈ cols, c.name ≠ "")
    (hnd : (cols.map (·.name)).Nodup) :
    Abs.execAll (newNames cols) ((Table.walkCols g tb false [] cols).1.filterMap colStmt) = some (oldNames cols) :=
  printed_down_correct g hio hd tb cols hact hne hnd

/-- column order of C02 through `Table.Diff` and the down walk of the implementation model (see C01.diffed_columns) -/
theorem diffed_columns (g : Globals) (hio : g.ignoreOrder = false) (hd : g.dialect ≠ .sqlite) (tb : String)
    (d : Dialect) (t old t1 : Table) (cols1 : List Column) (h : t.Inv) (hold : old.Inv)
    (hp : t.pendingPos = none) (hadd : ∀ c ∈ t.cols, c.action = .add) (holdAdd : ∀ c ∈ old.cols, c.action = .add)
    (hne : ∀ n ∈ t.colNames ++ old.colNames, n ≠ "") (hc : Abs.OrderCompatible t.colNames old.colNames)
    (h1 : Table.diffCols1 d old t.cols = .ok cols1)
    (h2 : Table.diffCols2 (d == .mysql) { t with cols := cols1 } [] old.cols = .ok t1) :
    Abs.execAll t.colNames ((Table.walkCols g tb false [] t1.cols).1.filterMap colStmt) = some old.colNames :=
  (Table.diffed_columns g hio hd tb d t old t1 cols1 h hold hp hadd holdAdd hne hc h1 h2).2

/-- column clause of C02 from scripts to printed statements (see C01.columns_from_scripts) -/
theorem columns_from_scripts (g : Globals) (hg : g.dialect = .mysql) (hio : g.ignoreOrder = false) (rc : Bool)
    (old new : List Stmt) (dbO dbN : DB) (ho : old.all Stmt.colSafe = true) (hn : new.all Stmt.colSafe = true)
    (heo : execAll rc [] old = some dbO) (hen : execAll rc [] new = some dbN)
    (d : Migration) (hd : loadAndDiff g old new = .ok d)
    (t : String) (tbO tbN : TableSpec) (hfo : dbO.find t = some tbO) (hfn : dbN.find t = some tbN)
    (hc : Abs.OrderCompatible tbN.colNames tbO.colNames) (hne : ∀ n ∈ tbN.colNames ++ tbO.colNames, n ≠ "") :
    ∃ td ∈ d.tables, td.name = t ∧ td.arrange = .ok td ∧
      td.migrationColumnDown g = .ok (Table.walkCols g t false [] td.cols) ∧
      Abs.execAll tbN.colNames ((Table.walkCols g t false [] td.cols).1.filterMap colStmt) = some tbO.colNames := by
  obtain ⟨td, hm, hn', _, ha, _, hdown, _, hex⟩ :=
    columns_end_to_end g hg hio rc old new dbO dbN ho hn heo hen d hd t tbO tbN hfo hfn hc hne
  exact ⟨td, hm, hn', ha, hdown, hex⟩

/-- running up and then down on the old column list is the identity -/
theorem up_down_identity (N O : List Abs.Name) (hN : N.Nodup) (hO : O.Nodup) (hc : Abs.OrderCompatible N O) :
    (Abs.execAll O (Abs.emitUp (Abs.tagged N O))).bind (fun db => Abs.execAll db (Abs.emitDown (Abs.tagged N O))) = some O :=
  Abs.columns_up_down N O hN hO hc

example : Abs.emitDown (Abs.tagged ["z", "a", "b", "e", "d", "f"] ["a", "b", "c", "d"]) =
    [.dropCol "z", .addCol "c" (some "b"), .dropCol "e", .dropCol "f"] := by decide

/-- index and foreign-key clauses of C02 from scripts to printed statements (MySQL reader model) -/
theorem indexes_and_keys_from_scripts (g : Globals) (hg : g.dialect = .mysql) (rc : Bool)
    (old new : List Stmt) (dbO dbN : DB) (ho : old.all Stmt.elemSafe = true) (hn : new.all Stmt.elemSafe = true)
    (heo : execAll rc [] old = some dbO) (hen : execAll rc [] new = some dbN)
    (d : Migration) (hd : loadAndDiff g old new = .ok d)
    (t : String) (tbO tbN : TableSpec) (hfo : dbO.find t = some tbO) (hfn : dbN.find t = some tbN) :
    ∃ td ∈ d.tables, td.name = t ∧ td.action = .none ∧
      (∃ ss, Table.walkIdx g t false [] td.idxs = .ok ss ∧
        ss.filterMap idxStmt = Abs.Idx.emitDown tbN.idxs tbO.idxs ∧
        ∃ R, Abs.Idx.execAll tbN.idxs (ss.filterMap idxStmt) = some R ∧ R.Perm tbO.idxs) ∧
      ((Table.walkFk t false [] td.fks).filterMap fkStmt = Abs.Idx.emitDownKeep tbN.fks tbO.fks ∧
        ((∀ s ∈ tbN.fks, ∀ o ∈ tbO.fks, s.name = o.name → s = o) →
          ∃ R, Abs.Idx.execAll tbN.fks ((Table.walkFk t false [] td.fks).filterMap fkStmt) = some R ∧ R.Perm tbO.fks)) := by
  obtain ⟨td, h1, h2, h3, _, _, h6, h7⟩ := elems_end_to_end g hg rc old new dbO dbN ho hn heo hen d hd t tbO tbN hfo hfn
  exact ⟨td, h1, h2, h3, h6, h7⟩

/-- table clause of C02: the CREATE TABLE / DROP TABLE statements of the printed down migration drop the tables only the
    new schema has and re-create the tables only the old schema has: the new set of tables becomes the old one -/
theorem tables_from_scripts (g : Globals) (hg : g.dialect = .mysql) (rc : Bool) (old new : List Stmt) (dbO dbN : DB)
    (ho : old.all Stmt.elemSafe = true) (hn : new.all Stmt.elemSafe = true)
    (heo : execAll rc [] old = some dbO) (hen : execAll rc [] new = some dbN)
    (hdef : ∀ tb ∈ dbO ++ dbN, tb.name ≠ Migration.defaultMigrationTable) :
    ∃ d outD, loadAndDiff g old new = .ok d ∧ d.migrationDown g = .ok (d, outD) ∧
      outD.flatten.filterMap tblStmt = Abs.Idx.emitDownKeep (dbN.map (·.name)) (dbO.map (·.name)) ∧
      ∃ R, Abs.Idx.execAll (dbN.map (·.name)) (outD.flatten.filterMap tblStmt) = some R ∧ R.Perm (dbO.map (·.name)) := by
  obtain ⟨d, _, outD, h1, _, h2, _, _, h3, h4⟩ := tables_end_to_end g hg rc old new dbO dbN ho hn heo hen hdef
  exact ⟨d, outD, h1, h2, h3, h4⟩

/-- **down undoes up**, index and foreign-key lists: executing the printed up statements and then the printed down
    statements on the reference engine's old lists is well-formed at every step and ends in the old lists up to order -/
theorem indexes_and_keys_up_then_down (g : Globals) (hg : g.dialect = .mysql) (rc : Bool)
    (old new : List Stmt) (dbO dbN : DB) (ho : old.all Stmt.elemSafe = true) (hn : new.all Stmt.elemSafe = true)
    (heo : execAll rc [] old = some dbO) (hen : execAll rc [] new = some dbN)
    (d : Migration) (hd : loadAndDiff g old new = .ok d)
    (t : String) (tbO tbN : TableSpec) (hfo : dbO.find t = some tbO) (hfn : dbN.find t = some tbN) :
    ∃ td ∈ d.tables, td.name = t ∧
      (∃ up down R R', Table.walkIdx g t true [] td.idxs = .ok up ∧ Table.walkIdx g t false [] td.idxs = .ok down ∧
        Abs.Idx.execAll tbO.idxs (up.filterMap idxStmt) = some R ∧
        Abs.Idx.execAll R (down.filterMap idxStmt) = some R' ∧ R'.Perm tbO.idxs) ∧
      ((∀ s ∈ tbN.fks, ∀ o ∈ tbO.fks, s.name = o.name → s = o) →
        ∃ R R', Abs.Idx.execAll tbO.fks ((Table.walkFk t true [] td.fks).filterMap fkStmt) = some R ∧
          Abs.Idx.execAll R ((Table.walkFk t false [] td.fks).filterMap fkStmt) = some R' ∧ R'.Perm tbO.fks) := by
  obtain ⟨td, h1, h2, _, ⟨up, hup, hupe, _⟩, ⟨hfe, _⟩, ⟨down, hdown, hdowne, _⟩, ⟨hfde, _⟩⟩ :=
    elems_end_to_end g hg rc old new dbO dbN ho hn heo hen d hd t tbO tbN hfo hfn
  -- unique names on the reference side: re-derived from the abstract correctness statements' hypotheses
  obtain ⟨mo, hmo', hro, heo'⟩ := ReaderMysql.run_elems rc old {} [] dbO Rel.empty ElemsOK.empty ho heo
  obtain ⟨mn, hmn', hrn, hen'⟩ := ReaderMysql.run_elems rc new {} [] dbN Rel.empty ElemsOK.empty hn hen
  obtain ⟨io, to, _, hmo, hdo, _, _, _, _⟩ := hro.lookup hfo
  obtain ⟨i, tn, _, hmn, hdn, _, _, _, _⟩ := hrn.lookup hfn
  have hi_n := hrn.inv.each tn (List.mem_of_getElem? hmn)
  have hi_o := hro.inv.each to (List.mem_of_getElem? hmo)
  obtain ⟨hvin, hvfn⟩ := hen'.at_ (Migration.raws_getElem mn hmn) hdn
  obtain ⟨hvio, hvfo⟩ := heo'.at_ (Migration.raws_getElem mo hmo) hdo
  have hvin : idxSpecOf tn.idxs = tbN.idxs := hvin
  have hvio : idxSpecOf to.idxs = tbO.idxs := hvio
  have hvfn : fkSpecOf tn.fks = tbN.fks := hvfn
  have hvfo : fkSpecOf to.fks = tbO.fks := hvfo
  have hNn : (Abs.Idx.names tbN.idxs).Nodup := by
    rw [← hvin]; show ((idxSpecOf tn.idxs).map (fun s : IdxSpec => s.name)).Nodup
    rw [idxSpecOf_names]; exact hi_n.idxs.nodup.sublist List.filter_sublist
  have hOn : (Abs.Idx.names tbO.idxs).Nodup := by
    rw [← hvio]; show ((idxSpecOf to.idxs).map (fun s : IdxSpec => s.name)).Nodup
    rw [idxSpecOf_names]; exact hi_o.idxs.nodup.sublist List.filter_sublist
  have hNf : (Abs.Idx.names tbN.fks).Nodup := by
    rw [← hvfn]; show ((fkSpecOf tn.fks).map (fun s : FkSpec => s.name)).Nodup
    rw [fkSpecOf_names]; exact hi_n.fks.nodup
  have hOf : (Abs.Idx.names tbO.fks).Nodup := by
    rw [← hvfo]; show ((fkSpecOf to.fks).map (fun s : FkSpec => s.name)).Nodup
    rw [fkSpecOf_names]; exact hi_o.fks.nodup
  refine ⟨td, h1, h2, ?_, ?_⟩
  · obtain ⟨R, R', e1, e2, e3⟩ := Abs.Idx.up_then_down tbN.idxs tbO.idxs hNn hOn
    exact ⟨up, down, R, R', hup, hdown, by rw [hupe]; exact e1, by rw [hdowne]; exact e2, e3⟩
  · intro hnr
    obtain ⟨R, R', e1, e2, e3⟩ := Abs.Idx.up_then_down_keep tbN.fks tbO.fks hNf hOf hnr
    exact ⟨R, R', by rw [hfe]; exact e1, by rw [hfde]; exact e2, e3⟩

-- non-vacuity: the scripts of C01's example; the down walk restores the old definition of the redefined index
example : ∃ d, loadAndDiff {} C01.exOldE C01.exNewE = .ok d ∧
    (d.tables.map (fun t => ((Table.walkIdx {} t.name false [] t.idxs).toOption.map (·.filterMap idxStmt),
                             (Table.walkFk t.name false [] t.fks).filterMap fkStmt))) =
      [(some [], []),
       (some [.drop "i_redef", .create ⟨"i_redef", ["a", "b"], true, "BTREE"⟩, .drop "i_new", .create ⟨"i_old", ["b"], false, "HASH"⟩],
        [.drop "fk_new", .create ⟨"fk_old", "a", "u", "id"⟩])] := ⟨_, by rfl, by decide⟩

/-- a column that differs between the two sides is put back by the down migration: MODIFY COLUMN with the old definition -/
theorem changed_column_reverted (g : Globals) (hg : g.dialect = .mysql) (rc : Bool)
    (old new : List Stmt) (dbO dbN : DB) (ho : old.all Stmt.elemSafe = true) (hn : new.all Stmt.elemSafe = true)
    (hpo : old.all Stmt.plainOpts = true) (hpn : new.all Stmt.plainOpts = true)
    (heo : execAll rc [] old = some dbO) (hen : execAll rc [] new = some dbN)
    (d : Migration) (hd : loadAndDiff g old new = .ok d)
    (t : String) (tbO tbN : TableSpec) (hfo : dbO.find t = some tbO) (hfn : dbN.find t = some tbN)
    (cN cO : ColSpec) (hcN : cN ∈ tbN.cols) (hcO : cO ∈ tbO.cols) (hname : cO.name = cN.name)
    (hchg : cO.typ ≠ cN.typ ∨ ¬ cO.opts.Perm cN.opts) :
    ∃ td ∈ d.tables, td.name = t ∧ td.action = .none ∧
      ∃ cd, Stmt.modifyColumn t cd ∈ (Table.walkCols g t false [] td.cols).1 ∧
        (colOf cd).2 = false ∧ (colOf cd).1.name = cO.name ∧ (colOf cd).1.typ = cO.typ ∧ (colOf cd).1.opts.Perm cO.opts := by
  obtain ⟨td, h1, h2, h3, _, h5⟩ :=
    Sqlize.changed_column_modified g hg rc old new dbO dbN ho hn hpo hpn heo hen d hd t tbO tbN hfo hfn cN cO hcN hcO hname hchg
  exact ⟨td, h1, h2, h3, h5⟩

/-- the column clause of C02 on the reference engine: the printed down column statements turn the new schema's table into
    one whose columns equal the old side's, and leave every other table alone -/
theorem columns_on_reference_engine (g : Globals) (hg : g.dialect = .mysql) (hio : g.ignoreOrder = false) (rc : Bool)
    (old new : List Stmt) (dbO dbN : DB) (ho : old.all Stmt.elemSafe = true) (hn : new.all Stmt.elemSafe = true)
    (hpo : old.all Stmt.plainOpts = true) (hpn : new.all Stmt.plainOpts = true)
    (heo : execAll rc [] old = some dbO) (hen : execAll rc [] new = some dbN)
    (d : Migration) (hd : loadAndDiff g old new = .ok d)
    (t : String) (tbO tbN : TableSpec) (hfo : dbO.find t = some tbO) (hfn : dbN.find t = some tbN)
    (hc : Abs.OrderCompatible tbN.colNames tbO.colNames) (hne : ∀ n ∈ tbN.colNames ++ tbO.colNames, n ≠ "") :
    ∃ td ∈ d.tables, td.name = t ∧ td.migrationColumnDown g = .ok (Table.walkCols g t false [] td.cols) ∧
      ∃ db' tb', execAll false dbN (Table.walkCols g t false [] td.cols).1 = some db' ∧
        db'.find t = some tb' ∧ colsEquiv tb'.cols tbO.cols = true ∧
        (∀ u, u ≠ t → db'.find u = dbN.find u) ∧ db'.map (·.name) = dbN.map (·.name) :=
  columns_spec_down_db g hg hio rc old new dbO dbN ho hn hpo hpn heo hen d hd t tbO tbN hfo hfn hc hne

-- non-vacuity: the pair of `C01.exOldCE` / `C01.exNewCE`, walked down from the new schema
example : ∃ d dbO dbN, loadAndDiff {} C01.exOldCE C01.exNewCE = .ok d ∧ execAll true [] C01.exOldCE = some dbO ∧
    execAll true [] C01.exNewCE = some dbN ∧
    (d.tables.map (fun t => (execAll false dbN (Table.walkCols {} t.name false [] t.cols).1).map (fun db' => db'.equiv dbO))) =
      [some false, some true] :=
  ⟨_, _, _, by rfl, by rfl, by rfl, by decide⟩

/-- the index clause of the down migration in the presence of dropped columns -/
theorem indexes_with_dropped_columns (g : Globals) (hg : g.dialect = .mysql) (hio : g.ignoreOrder = false) (rc : Bool)
    (old new : List Stmt) (dbO dbN : DB) (ho : old.all Stmt.elemSafe = true) (hn : new.all Stmt.elemSafe = true)
    (heo : execAll rc [] old = some dbO) (hen : execAll rc [] new = some dbN)
    (d : Migration) (hd : loadAndDiff g old new = .ok d)
    (t : String) (tbO tbN : TableSpec) (hfo : dbO.find t = some tbO) (hfn : dbN.find t = some tbN)
    (hne : ∀ n ∈ tbN.colNames ++ tbO.colNames, n ≠ "") :
    ∃ td ∈ d.tables, td.name = t ∧ td.action = .none ∧
      ∃ cs dc ss, td.migrationColumnDown g = .ok (cs, dc) ∧ td.migrationIndexDown g dc = .ok ss ∧
        (∀ c ∈ dc, c ∉ tbO.colNames) ∧
        ss.filterMap idxStmt = Abs.Idx.emitDownSup dc tbN.idxs tbO.idxs ∧
        ((∀ s ∈ tbN.idxs, ∀ o ∈ tbO.idxs, o.name = s.name → o ≠ s → ∃ c ∈ s.cols, c ∉ dc) →
          ∃ R, Abs.Idx.execAll (Abs.Idx.prune dc tbN.idxs) (ss.filterMap idxStmt) = some R ∧ R.Perm tbO.idxs) := by
  obtain ⟨td, h1, h2, h3, cs, dc, ss, h4, h5, h6, h7, h8, _⟩ :=
    indexes_with_drops_end_to_end_down' g hg hio rc old new dbO dbN ho hn heo hen d hd t tbO tbN hfo hfn hne
  exact ⟨td, h1, h2, h3, cs, dc, ss, h4, h5, h6, h7, h8⟩

/-- the whole down migration on the reference engine: well-formed at every step, the result is the old schema, and every
    statement acts on something that differs — the executable predicate `Spec.c02` (referential checks aside) holds -/
theorem schema_on_reference_engine (g : Globals) (hg : g.dialect = .mysql) (hio : g.ignoreOrder = false) (rc : Bool)
    (old new : List Stmt) (dbO dbN : DB) (ho : old.all Stmt.elemSafe = true) (hn : new.all Stmt.elemSafe = true)
    (hpo : old.all Stmt.plainOpts = true) (hpn : new.all Stmt.plainOpts = true)
    (heo : execAll rc [] old = some dbO) (hen : execAll rc [] new = some dbN)
    (hdef : ∀ tb ∈ dbO ++ dbN, tb.name ≠ Migration.defaultMigrationTable)
    (hboth : ∀ tbO ∈ dbO, ∀ tbN ∈ dbN, tbO.name = tbN.name →
      Abs.OrderCompatible tbN.colNames tbO.colNames ∧ (∀ n ∈ tbN.colNames ++ tbO.colNames, n ≠ "") ∧ tbO.pk = tbN.pk ∧
      (∀ dc : List String, (∀ c ∈ dc, c ∉ tbO.colNames) →
        ∀ s ∈ tbN.idxs, ∀ o ∈ tbO.idxs, o.name = s.name → o ≠ s → ∃ c ∈ s.cols, c ∉ dc) ∧
      (∀ s ∈ tbN.fks, ∀ o ∈ tbO.fks, s.name = o.name → s = o)) :
    ∃ down, modelDown g old new = .ok down ∧ c02 g.ignoreOrder dbO dbN down false = .ok () := by
  obtain ⟨d, out, hd, hU, ⟨db', he, heq⟩, hj⟩ := schema_spec_down g hg hio rc old new dbO dbN ho hn hpo hpn heo hen hdef hboth
  refine ⟨out.flatten, ?_, ?_⟩
  · unfold modelDown
    simp only [hd, hU, bind, Except.bind, pure, Except.pure]
  · have hfind : out.flatten.find? (fun s => !justified dbN dbO s) = none := by
      apply List.find?_eq_none.mpr
      intro s hs
      rw [hj s hs]; simp
    unfold c02 migrates allJustified
    rw [hio]
    simp only [he, heq, if_true, hfind, bind, Except.bind, Bool.false_eq_true, if_false]

/-- **down undoes up, on the reference engine**: under the hypotheses of both whole-schema theorems the printed up
    migration takes the old schema to one equal to the new, and the printed down migration takes the new schema back
    to one equal to the old -/
theorem up_then_down_on_reference_engine (g : Globals) (hg : g.dialect = .mysql) (hio : g.ignoreOrder = false) (rc : Bool)
    (old new : List Stmt) (dbO dbN : DB) (ho : old.all Stmt.elemSafe = true) (hn : new.all Stmt.elemSafe = true)
    (hpo : old.all Stmt.plainOpts = true) (hpn : new.all Stmt.plainOpts = true)
    (heo : execAll rc [] old = some dbO) (hen : execAll rc [] new = some dbN)
    (hdef : ∀ tb ∈ dbO ++ dbN, tb.name ≠ Migration.defaultMigrationTable)
    (hboth : ∀ tbO ∈ dbO, ∀ tbN ∈ dbN, tbO.name = tbN.name →
      Abs.OrderCompatible tbN.colNames tbO.colNames ∧ (∀ n ∈ tbN.colNames ++ tbO.colNames, n ≠ "") ∧ tbO.pk = tbN.pk ∧
      (∀ dc : List String, (∀ c ∈ dc, c ∉ tbN.colNames) →
        ∀ s ∈ tbN.idxs, ∀ o ∈ tbO.idxs, o.name = s.name → o ≠ s → ∃ c ∈ o.cols, c ∉ dc) ∧
      (∀ dc : List String, (∀ c ∈ dc, c ∉ tbO.colNames) →
        ∀ s ∈ tbN.idxs, ∀ o ∈ tbO.idxs, o.name = s.name → o ≠ s → ∃ c ∈ s.cols, c ∉ dc) ∧
      (∀ s ∈ tbN.fks, ∀ o ∈ tbO.fks, s.name = o.name → s = o)) :
    ∃ up down, modelUp g old new = .ok up ∧ modelDown g old new = .ok down ∧
      c01 g.ignoreOrder dbO dbN up false = .ok () ∧ c02 g.ignoreOrder dbO dbN down false = .ok () := by
  obtain ⟨up, h1, h2⟩ := C01.schema_on_reference_engine g hg hio rc old new dbO dbN ho hn hpo hpn heo hen hdef
    (fun a ha b hb e => by obtain ⟨x1, x2, x3, x4, _, x6⟩ := hboth a ha b hb e; exact ⟨x1, x2, x3, x4, x6⟩)
  obtain ⟨down, h3, h4⟩ := schema_on_reference_engine g hg hio rc old new dbO dbN ho hn hpo hpn heo hen hdef
    (fun a ha b hb e => by obtain ⟨x1, x2, x3, _, x5, x6⟩ := hboth a ha b hb e; exact ⟨x1, x2, x3, x5, x6⟩)
  exact ⟨up, down, h1, h3, h2, h4⟩

-- non-vacuity of `schema_on_reference_engine`: the pair of `C01.exOldW` / `C01.exNewW` (a table created with a key and two
-- indexes, a table dropped, a table kept, a table whose columns and indexes change), walked down from the new schema
example : ∃ down dbO dbN, modelDown {} C01.exOldW C01.exNewW = .ok down ∧ execAll true [] C01.exOldW = some dbO ∧
    execAll true [] C01.exNewW = some dbN ∧
    down.length = 7 ∧ (execAll false dbN down).map (fun db' => db'.equiv dbO) = some true :=
  ⟨_, _, _, by rfl, by rfl, by rfl, by decide, by decide⟩
example : ∃ down dbO dbN, modelDown {} C01.exOldW C01.exNewW = .ok down ∧ execAll true [] C01.exOldW = some dbO ∧
    execAll true [] C01.exNewW = some dbN ∧ (c02 false dbO dbN down false).toOption = some () :=
  ⟨_, _, _, by rfl, by rfl, by rfl, by decide⟩
-- … and with foreign keys, the pair `C01.exOldFk` / `C01.exNewFk`: the key the up migration created with its column is
-- not dropped (DROP COLUMN takes it), the keys it dropped are added again, the dropped table comes back with its key
example : ∃ down dbO dbN, modelDown {} C01.exOldFk C01.exNewFk = .ok down ∧ execAll true [] C01.exOldFk = some dbO ∧
    execAll true [] C01.exNewFk = some dbN ∧ down.length = 7 ∧ (c02 false dbO dbN down false).toOption = some () :=
  ⟨_, _, _, by rfl, by rfl, by rfl, by decide, by decide⟩

/-- the same for either setting of the ignore-field-order option (`Spec.c02` compares up to column order under the option) -/
theorem schema_on_reference_engine_either_setting (g : Globals) (hg : g.dialect = .mysql) (rc : Bool)
    (old new : List Stmt) (dbO dbN : DB) (ho : old.all Stmt.elemSafe = true) (hn : new.all Stmt.elemSafe = true)
    (hpo : old.all Stmt.plainOpts = true) (hpn : new.all Stmt.plainOpts = true)
    (heo : execAll rc [] old = some dbO) (hen : execAll rc [] new = some dbN)
    (hdef : ∀ tb ∈ dbO ++ dbN, tb.name ≠ Migration.defaultMigrationTable)
    (hboth : ∀ tbO ∈ dbO, ∀ tbN ∈ dbN, tbO.name = tbN.name →
      Abs.OrderCompatible tbN.colNames tbO.colNames ∧ (∀ n ∈ tbN.colNames ++ tbO.colNames, n ≠ "") ∧ tbO.pk = tbN.pk ∧
      (∀ dc : List String, (∀ c ∈ dc, c ∉ tbO.colNames) →
        ∀ s ∈ tbN.idxs, ∀ o ∈ tbO.idxs, o.name = s.name → o ≠ s → ∃ c ∈ s.cols, c ∉ dc) ∧
      (∀ s ∈ tbN.fks, ∀ o ∈ tbO.fks, s.name = o.name → s = o)) :
    ∃ down, modelDown g old new = .ok down ∧ c02 g.ignoreOrder dbO dbN down false = .ok () :=
  schema_down_any g hg rc old new dbO dbN ho hn hpo hpn heo hen hdef hboth

example : ∃ down dbO dbN, modelDown { ignoreOrder := true } C01.exOldW C01.exNewW = .ok down ∧ execAll true [] C01.exOldW = some dbO ∧
    execAll true [] C01.exNewW = some dbN ∧ (c02 true dbO dbN down false).toOption = some () :=
  ⟨_, _, _, by rfl, by rfl, by rfl, by decide⟩

open Sqlize.Spec in
/-- the down migration of a whole schema against an empty history drops it: executed on the schema the script describes,
    it is well-formed at every step and ends in the empty schema (the theorem above with nothing on the old side) -/
theorem down_of_a_whole_schema (g : Globals) (hg : g.dialect = .mysql) (rc : Bool) (ss : List Stmt) (db : Spec.DB)
    (hs : ss.all Stmt.elemSafe = true) (hp : ss.all Stmt.plainOpts = true) (he : execAll rc [] ss = some db)
    (hdef : ∀ tb ∈ db, tb.name ≠ Migration.defaultMigrationTable) :
    ∃ dn, modelDown g [] ss = .ok dn ∧ c02 g.ignoreOrder [] db dn false = .ok () :=
  schema_down_any g hg rc [] ss [] db rfl hs rfl hp rfl he (fun tb htb => hdef tb (by simpa using htb))
    (fun a ha => (by cases ha))

end Sqlize.C02
