/-
  C13 — field-order option: positions follow the models, or are not mentioned.
  Proved for every input (column lists of any length):
  * `default_order` — without the option the table ends up in the models' column order (corollary of C01's core);
  * `ignore_same_statements` — with the option the walk emits the same statements with the positional clause removed;
  * `ignore_appends` — executed, it keeps the surviving columns in place and appends the added ones.

  * `option_changes_positions_only` / `option_predicates` — **on the implementation model, for every pair of scripts,
    every dialect model and keyword case, with no hypothesis at all** (Proofs/IgnoreOrder.lean): `modelUp` and
    `modelDown` under the option return exactly what they return without it with every positional clause removed
    (`Spec.stripPosition`; an error without the option is the same error with it), hence the two executable predicates
    of C13 under the option — `c13Same` (the two settings give the same statements up to the positional clause) and
    `c13NoPositions` (no positional clause at all) — hold of the model's output whenever it prints without the option.
    The option is read in two places only, `walkCols` and `Column.migrationUpAlter`; everything else — readers,
    `Diff`, `Arrange`, the index and key walks, CREATE TABLE — does not see it and prints no ADD COLUMN.
-/
import SqlizeModel.Proofs.IgnoreOrder
import SqlizeModel.Proofs.StripExec
import SqlizeModel.Props.C01
import SqlizeModel.Abs.Columns
import SqlizeModel.Proofs.WalkRefine
import SqlizeModel.Proofs.EndToEnd

namespace Sqlize.C13
open Sqlize

theorem default_order (N O : List Abs.Name) (hN : N.Nodup) (hO : O.Nodup) (hc : Abs.OrderCompatible N O) :
    Abs.execAll O (Abs.emitUp (Abs.tagged N O)) = some N :=
  Abs.columns_up N O hN hO hc

theorem ignore_same_statements (m : Abs.M) :
    Abs.emitUpIgnore m = (Abs.emitUp m).map Abs.stripPos :=
  Abs.emitUpIgnore_eq_strip m none

theorem ignore_no_position (m : Abs.M) : ∀ s ∈ Abs.emitUpIgnore m, ∀ c p, s ≠ Abs.Stmt.addCol c p := by
  induction m with
  | nil => intro s hs; simp [Abs.emitUpIgnore] at hs
  | cons hd r ih =>
    obtain ⟨c, t⟩ := hd
    intro s hs c' p
    cases t <;> simp only [Abs.emitUpIgnore, List.mem_cons] at hs
    · exact ih s hs c' p
    · rcases hs with rfl | hs
      · intro h; cases h
      · exact ih s hs c' p
    · rcases hs with rfl | hs
      · intro h; cases h
      · exact ih s hs c' p

theorem ignore_appends (m : Abs.M) (h : (m.map (·.1)).Nodup) :
    Abs.execAll (Abs.oldSide m) (Abs.emitUpIgnore m) = some (Abs.keptSide m ++ Abs.addedSide m) :=
  Abs.emitUpIgnore_correct m h

/-- on the implementation model: with the option the printed ADD COLUMN statements carry no positional clause, kept
    columns stay where they are and added ones are appended (refinement `walkCols_up_ignore_refines`) -/
theorem printed_ignore (g : Globals) (hio : g.ignoreOrder = true) (hd : g.dialect ≠ .sqlite) (tb : String)
    (cols : List Column) (hact : ∀ c ∈ cols, SimpleAction c.action) (hnd : (cols.map (·.name)).Nodup) :
    Abs.execAll (oldNames cols) ((Table.walkCols g tb true [] cols).1.filterMap colStmt)
      = some (Abs.keptSide (absCols cols) ++ Abs.addedSide (absCols cols)) :=
  printed_up_ignore_correct g hio hd tb cols hact hnd

/-- from scripts to printed statements under the option: no positional clause; kept columns stay, added ones are appended -/
theorem columns_from_scripts (g : Globals) (hg : g.dialect = .mysql) (hio : g.ignoreOrder = true) (rc : Bool)
    (old new : List Stmt) (dbO dbN : Spec.DB) (ho : old.all Stmt.colSafe = true) (hn : new.all Stmt.colSafe = true)
    (heo : Spec.execAll rc [] old = some dbO) (hen : Spec.execAll rc [] new = some dbN)
    (d : Migration) (hd : loadAndDiff g old new = .ok d)
    (t : String) (tbO tbN : Spec.TableSpec) (hfo : dbO.find t = some tbO) (hfn : dbN.find t = some tbN)
    (hc : Abs.OrderCompatible tbN.colNames tbO.colNames) (hne : ∀ n ∈ tbN.colNames ++ tbO.colNames, n ≠ "") :
    ∃ td ∈ d.tables, td.name = t ∧ td.arrange = .ok td ∧
      td.migrationColumnUp g = .ok (Table.walkCols g t true [] td.cols) ∧
      (∀ s ∈ (Table.walkCols g t true [] td.cols).1.filterMap colStmt, ∀ c p, s ≠ Abs.Stmt.addCol c p) ∧
      Abs.execAll tbO.colNames ((Table.walkCols g t true [] td.cols).1.filterMap colStmt) =
        some (Abs.keptSide (Abs.tagged tbN.colNames tbO.colNames) ++ Abs.addedSide (Abs.tagged tbN.colNames tbO.colNames)) :=
  columns_end_to_end_ignore g hg hio rc old new dbO dbN ho hn heo hen d hd t tbO tbN hfo hfn hc hne

example : Abs.emitUpIgnore (Abs.tagged ["z", "a", "b"] ["a", "c", "b"]) = [.appendCol "z", .dropCol "c"] := by decide

/-- the option only removes positional clauses: up and down, every input -/
theorem option_changes_positions_only (g : Globals) (old new : List Stmt) :
    modelUp (g.ign true) old new = (modelUp (g.ign false) old new).map (List.map Spec.stripPosition) ∧
    modelDown (g.ign true) old new = (modelDown (g.ign false) old new).map (List.map Spec.stripPosition) :=
  ⟨modelUp_ign g old new, modelDown_ign g old new⟩

/-- the executable predicates of C13 under the option hold of the model's output -/
theorem option_predicates (g : Globals) (old new u dn : List Stmt)
    (hu : modelUp (g.ign false) old new = .ok u) (hd : modelDown (g.ign false) old new = .ok dn) :
    ∃ ui di, modelUp (g.ign true) old new = .ok ui ∧ modelDown (g.ign true) old new = .ok di ∧
      Spec.c13Same u ui = .ok () ∧ Spec.c13Same dn di = .ok () ∧ Spec.c13NoPositions (ui ++ di) = .ok () := by
  obtain ⟨ui, h1, h2, _⟩ := c13_option_up g old new u hu
  obtain ⟨di, h3, h4, _⟩ := c13_option_down g old new dn hd
  refine ⟨ui, di, h1, h3, h2, h4, ?_⟩
  have e1 : ui = u.map Spec.stripPosition := by
    have := modelUp_ign g old new; rw [hu, h1] at this; exact Except.ok.inj this
  have e2 : di = dn.map Spec.stripPosition := by
    have := modelDown_ign g old new; rw [hd, h3] at this; exact Except.ok.inj this
  rw [e1, e2, ← List.map_append]
  exact c13NoPositions_strip _

-- non-vacuity: a pair whose up migration adds columns at positions (FIRST / AFTER) prints without the option, and the
-- statements under the option are the stripped ones
example : ∃ u ui, modelUp {} C01.exOldW C01.exNewW = .ok u ∧ modelUp { ignoreOrder := true } C01.exOldW C01.exNewW = .ok ui ∧
    (u.filter Spec.hasPosition).length = 1 ∧ (ui.filter Spec.hasPosition).length = 0 ∧ ui = u.map Spec.stripPosition :=
  ⟨_, _, by rfl, by rfl, by decide, by decide, by decide⟩

/-- **under the option, on the reference engine**: the migration printed with the option is accepted statement by statement
    whenever the one printed without it is, and it ends in the same schema up to the order of the columns inside the
    tables (same column records, keys, indexes) — every statement kind, any script (Proofs/StripExec.lean) -/
theorem stripped_migration_same_schema (rc : Bool) (ss : List Stmt) (db db1 : Spec.DB)
    (h : Spec.execAll rc db ss = some db1) :
    ∃ db2, Spec.execAll rc db (ss.map Spec.stripPosition) = some db2 ∧ DBR db1 db2 :=
  execAll_strip rc ss (DBR.refl db) h

end Sqlize.C13
