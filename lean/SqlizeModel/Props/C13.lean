/-
  C13 — field-order option: positions follow the models, or are not mentioned.
  Proved for every input (column lists of any length):
  * `default_order` — without the option the table ends up in the models' column order (corollary of C01's core);
  * `ignore_same_statements` — with the option the walk emits the same statements with the positional clause removed;
  * `ignore_appends` — executed, it keeps the surviving columns in place and appends the added ones.
-/
import SqlizeModel.Abs.Columns
import SqlizeModel.Proofs.WalkRefine
import SqlizeModel.Proofs.EndToEnd

namespace Sqlize.C13
open Sqlize

theorem default_order (N O : List Abs.Name) (hN : N.Nodup) (hO : O.Nodup) (hc : Abs.OrderCompatible N O) :
    Abs.execAll O (Abs.emitUp (Abs.tagged N O)) = some N :=
  Abs.columns_up N O hN hO hc

theorem ignore_same_statements (m : Abs.M) :
    Abs.emitUpIgnore m = (Abs.emitUp m).map Abs.stripPos :=
  Abs.emitUpIgnore_eq_strip m none

theorem ignore_no_position (m : Abs.M) : ∀ s ∈ Abs.emitUpIgnore m, ∀ c p, s ≠ Abs.Stmt.addCol c p := by
  induction m with
  | nil => intro s hs; simp [Abs.emitUpIgnore] at hs
  | cons hd r ih =>
    obtain ⟨c, t⟩ := hd
    intro s hs c' p
    cases t <;> simp only [Abs.emitUpIgnore, List.mem_cons] at hs
    · exact ih s hs c' p
    · rcases hs with rfl | hs
      · intro h; cases h
      · exact ih s hs c' p
    · rcases hs with rfl | hs
      · intro h; cases h
      · exact ih s hs c' p

theorem ignore_appends (m : Abs.M) (h : (m.map (·.1)).Nodup) :
    Abs.execAll (Abs.oldSide m) (Abs.emitUpIgnore m) = some (Abs.keptSide m ++ Abs.addedSide m) :=
  Abs.emitUpIgnore_correct m h

/-- on the implementation model: with the option the printed ADD COLUMN statements carry no positional clause, kept
    columns stay where they are and added ones are appended (refinement `walkCols_up_ignore_refines`) -/
theorem printed_ignore (g : Globals) (hio : g.ignoreOrder = true) (hd : g.dialect ≠ .sqlite) (tb : String)
    (cols : List Column) (hact : ∀ c ∈ cols, SimpleAction c.action) (hnd : (cols.map (·.name)).Nodup) :
    Abs.execAll (oldNames cols) ((Table.walkCols g tb true [] cols).1.filterMap colStmt)
      = some (Abs.keptSide (absCols cols) ++ Abs.addedSide (absCols cols)) :=
  printed_up_ignore_correct g hio hd tb cols hact hnd

/-- from scripts to printed statements under the option: no positional clause; kept columns stay, added ones are appended -/
theorem columns_from_scripts (g : Globals) (hg : g.dialect = .mysql) (hio : g.ignoreOrder = true) (rc : Bool)
    (old new : List Stmt) (dbO dbN : Spec.DB) (ho : old.all Stmt.colSafe = true) (hn : new.all Stmt.colSafe = true)
    (heo : Spec.execAll rc [] old = some dbO) (hen : Spec.execAll rc [] new = some dbN)
    (d : Migration) (hd : loadAndDiff g old new = .ok d)
    (t : String) (tbO tbN : Spec.TableSpec) (hfo : dbO.find t = some tbO) (hfn : dbN.find t = some tbN)
    (hc : Abs.OrderCompatible tbN.colNames tbO.colNames) (hne : ∀ n ∈ tbN.colNames ++ tbO.colNames, n ≠ "") :
    ∃ td ∈ d.tables, td.name = t ∧ td.arrange = .ok td ∧
      td.migrationColumnUp g = .ok (Table.walkCols g t true [] td.cols) ∧
      (∀ s ∈ (Table.walkCols g t true [] td.cols).1.filterMap colStmt, ∀ c p, s ≠ Abs.Stmt.addCol c p) ∧
      Abs.execAll tbO.colNames ((Table.walkCols g t true [] td.cols).1.filterMap colStmt) =
        some (Abs.keptSide (Abs.tagged tbN.colNames tbO.colNames) ++ Abs.addedSide (Abs.tagged tbN.colNames tbO.colNames)) :=
  columns_end_to_end_ignore g hg hio rc old new dbO dbN ho hn heo hen d hd t tbO tbN hfo hfn hc hne

example : Abs.emitUpIgnore (Abs.tagged ["z", "a", "b"] ["a", "c", "b"]) = [.appendCol "z", .dropCol "c"] := by decide

end Sqlize.C13
