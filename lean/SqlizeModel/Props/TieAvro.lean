/-
  Props/TieAvro.lean — a regenerated tie (written by bin/mktie).  `Facts.avroSkeleton` is extracted from /repo on every run
  (harness/cmd/factgen/skeleton.go, go/ast): for every function of package `avro` its control skeleton — the control
  statements with their conditions and the selector calls, in source order; assignments and plain expressions are left
  out.  `expectedAvroSkeleton` is the skeleton the hand-written models of package `avro` (Impl/Avro.lean) were written
  against.  A changed condition, a dropped or added branch, loop, early exit or call breaks `avro_skeleton_as_modelled` on the next
  run even when no generated input exercises the change; the check then searches for a failing input and reports the
  broken tie either way.
-/
import SqlizeModel.Generated.Skeletons

namespace Sqlize.Tie

def expectedAvroSkeleton : List (String × List String) := [
  ("builder:NewArvoSchema", ["call buildFieldsFromTable", "call newRecordSchema", "return"]),
  ("builder:buildFieldsFromTable", ["range table.Columns", "do{", "if col.HasDefaultValue()", "then{", "call getAvroType", "}", "else{", "call getAvroType", "}", "}", "return"]),
  ("builder:getAvroType", ["switch col.GetType()", "cases{", "case mysql.TypeTiny", "return", "case mysql.TypeEnum", "return", "call Join", "}", "switch col.CurrentAttr.MysqlType.EvalType()", "cases{", "case types.ETInt", "return", "case types.ETDecimal", "return", "call Itoa", "call Itoa", "case types.ETReal", "return", "case types.ETDatetime,types.ETTimestamp", "return", "case types.ETJson", "return", "case types.ETString", "return", "case default", "return", "}"]),
  ("schema:newRecordSchema", ["return"])]

theorem avro_skeleton_as_modelled : Facts.avroSkeleton = expectedAvroSkeleton := rfl

end Sqlize.Tie
