/-
  Props/TieTemplates.lean — a regenerated tie (written by bin/mktie).  `Facts.templatesSkeleton` is extracted from /repo on every run
  (harness/cmd/factgen/skeleton.go, go/ast): for every function of package `sql_templates` its control skeleton — the control
  statements with their conditions and the selector calls, in source order; assignments and plain expressions are left
  out.  `expectedTemplatesSkeleton` is the skeleton the hand-written models of package `sql_templates` (Impl/Render.lean, Impl/Atoms.lean) were written
  against.  A changed condition, a dropped or added branch, loop, early exit or call breaks `templates_skeleton_as_modelled` on the next
  run even when no generated input exercises the change; the check then searches for a failing input and reports the
  broken tie either way.
-/
import SqlizeModel.Generated.Skeletons

namespace Sqlize.Tie

def expectedTemplatesSkeleton : List (String × List String) := [
  ("ddl:NewSql", ["return"]),
  ("ddl:Sql.AlterTableAddColumnAfterStm", ["return", "call apply"]),
  ("ddl:Sql.AlterTableAddColumnFirstStm", ["return", "call apply"]),
  ("ddl:Sql.AlterTableAddColumnStm", ["return", "call apply"]),
  ("ddl:Sql.AlterTableDropColumnStm", ["if s.IsSqlite()", "then{", "return", "}", "return", "call apply"]),
  ("ddl:Sql.AlterTableModifyColumnStm", ["return", "call apply"]),
  ("ddl:Sql.AlterTableRenameColumnStm", ["return", "call apply"]),
  ("ddl:Sql.AlterTableRenameIndexStm", ["return", "call apply"]),
  ("ddl:Sql.CreateForeignKeyStm", ["return", "call apply"]),
  ("ddl:Sql.CreateIndexStm", ["if indexType != \"\"", "then{", "return", "call apply", "call ToUpper", "}", "return", "call apply"]),
  ("ddl:Sql.CreatePrimaryKeyStm", ["return", "call apply"]),
  ("ddl:Sql.CreateTableMigration", ["switch s.dialect", "cases{", "case PostgresDialect", "return", "call apply", "case default", "return", "call apply", "}"]),
  ("ddl:Sql.CreateTableStm", ["return", "call apply"]),
  ("ddl:Sql.CreateUniqueIndexStm", ["if indexType != \"\"", "then{", "return", "call apply", "call ToUpper", "}", "return", "call apply"]),
  ("ddl:Sql.DropForeignKeyStm", ["if s.IsMysql()", "then{", "return", "call apply", "}", "return", "call apply"]),
  ("ddl:Sql.DropIndexStm", ["if s.IsSqlite()", "then{", "return", "call apply", "}", "return", "call apply"]),
  ("ddl:Sql.DropPrimaryKeyStm", ["return", "call apply"]),
  ("ddl:Sql.DropTableMigration", ["return", "call apply"]),
  ("ddl:Sql.DropTableStm", ["return", "call apply"]),
  ("ddl:Sql.GetDialect", ["return"]),
  ("ddl:Sql.InsertMigrationVersion", ["return", "call apply"]),
  ("ddl:Sql.IsLowercase", ["return"]),
  ("ddl:Sql.IsMysql", ["return"]),
  ("ddl:Sql.IsPostgres", ["return"]),
  ("ddl:Sql.IsSqlite", ["return"]),
  ("ddl:Sql.IsSqlserver", ["return"]),
  ("ddl:Sql.RenameTableStm", ["return", "call apply"]),
  ("ddl:Sql.RollbackMigrationVersion", ["return", "call apply"]),
  ("ddl:Sql.apply", ["if s.lowercase", "then{", "return", "call ToLower", "}", "return"]),
  ("option:Sql.AutoIncrementOption", ["switch s.dialect", "cases{", "case PostgresDialect", "return", "case default", "return", "call apply", "}"]),
  ("option:Sql.ColumnComment", ["switch s.dialect", "cases{", "case PostgresDialect", "return", "call apply", "case default", "return", "call apply", "}"]),
  ("option:Sql.DefaultOption", ["return", "call apply"]),
  ("option:Sql.EscapeSqlName", ["if name == \"\"", "then{", "return", "}", "switch s.dialect", "cases{", "case PostgresDialect,SqliteDialect", "}", "return", "call Sprintf", "call Trim"]),
  ("option:Sql.EscapeSqlNames", ["range names", "do{", "call EscapeSqlName", "}", "return"]),
  ("option:Sql.NotNullValue", ["return", "call apply"]),
  ("option:Sql.NullValue", ["return", "call apply"]),
  ("option:Sql.PrimaryOption", ["return", "call apply"]),
  ("option:Sql.TableComment", ["switch s.dialect", "cases{", "case PostgresDialect", "return", "call apply", "case default", "return", "call apply", "}"]),
  ("type:Sql.BigIntType", ["if s.IsSqlite()", "then{", "return", "call apply", "}", "return", "call apply"]),
  ("type:Sql.BooleanType", ["if s.IsSqlite()", "then{", "return", "call apply", "}", "return", "call apply"]),
  ("type:Sql.DatetimeType", ["switch s.dialect", "cases{", "case PostgresDialect", "return", "call apply", "case SqliteDialect", "return", "case default", "return", "call apply", "}"]),
  ("type:Sql.DoubleType", ["if s.IsSqlite()", "then{", "return", "call apply", "}", "return", "call apply"]),
  ("type:Sql.FloatType", ["if s.IsSqlite()", "then{", "return", "call apply", "}", "return", "call apply"]),
  ("type:Sql.IntType", ["if s.IsSqlite()", "then{", "return", "call apply", "}", "return", "call apply"]),
  ("type:Sql.PointerType", ["return", "call apply"]),
  ("type:Sql.SmallIntType", ["return", "call apply"]),
  ("type:Sql.TextType", ["switch s.dialect", "cases{", "case SqliteDialect", "return", "case default", "return", "call apply", "}"]),
  ("type:Sql.TinyIntType", ["return", "call apply"]),
  ("type:Sql.UnspecificType", ["return", "call apply"])]

theorem templates_skeleton_as_modelled : Facts.templatesSkeleton = expectedTemplatesSkeleton := rfl

end Sqlize.Tie
