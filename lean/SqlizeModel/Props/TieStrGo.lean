/-
  Props/TieStrGo.lean — the *translated* `utils.ToSnakeCase` is the hand-written model.

  `Generated/StrGo.lean` is written on every run by the translator (`factgen`, translate.go) from the Go source of
  `ToSnakeCase`, `nextIsLower`, `isDigit`, `isLowercase`, `isUppercase` in /repo/utils/str.go: expressions and statements
  are translated one by one (runes and bytes as code points, the loop as a fold over the input with the mutated locals
  as state).  `translated_is_model`: on ASCII input the translated function computes exactly `Snake.toSnake`, the model
  every theorem of C16 (and the tag normalisation of C06 / C10) is about.  So those theorems are re-checked against what
  the code says *now*: a change to any of the five functions changes the generated definitions, and either this proof
  still closes (the change is harmless) or it does not.
-/
import SqlizeModel.Generated.StrGo
import SqlizeModel.Impl.Snake
import SqlizeModel.Props.C16

namespace Sqlize.Tie
open Sqlize Sqlize.Snake

theorem gen_isUppercase (c : Char) : Gen.Str.isUppercase c.toNat = isUpper c := by
  unfold Gen.Str.isUppercase isUpper
  have hA : 'A'.toNat = 65 := by decide
  have hZ : 'Z'.toNat = 90 := by decide
  rw [hA, hZ]

theorem gen_isLowercase (c : Char) : Gen.Str.isLowercase c.toNat = isLower c := by
  unfold Gen.Str.isLowercase isLower
  have hA : 'a'.toNat = 97 := by decide
  have hZ : 'z'.toNat = 122 := by decide
  rw [hA, hZ]

theorem gen_nextIsLower (pre rest : List Char) (c : Char) :
    Gen.Str.nextIsLower ((pre ++ c :: rest).map Char.toNat) pre.length = Snake.nextIsLower rest := by
  unfold Gen.Str.nextIsLower
  simp only [List.length_map, List.length_append, List.length_cons]
  cases rest with
  | nil => simp [Snake.nextIsLower]
  | cons d r =>
    have hlt : ¬ (pre.length + 1 ≥ pre.length + ([d] ++ r).length + 1) := by simp
    have hget : ((pre ++ c :: d :: r).map Char.toNat).getD (pre.length + 1) 0 = d.toNat := by
      rw [List.map_append, List.getD_eq_getElem?_getD, List.getElem?_append_right (by simp)]
      simp
    simp only [List.length_cons, ge_iff_le, hget]
    have hn : ¬ (pre.length + (r.length + 1 + 1) ≤ pre.length + 1) := by omega
    simp only [hn, decide_false, Bool.false_eq_true, if_false]
    have hs : 's'.toNat = 115 := by decide
    cases r with
    | nil =>
      simp only [List.length_nil, Nat.zero_add, Snake.nextIsLower]
      have : pre.length + 1 = pre.length + (1 + 1) - 1 := by omega
      simp only [← this, decide_true, Bool.and_true]
      by_cases hd : d = 's'
      · subst hd; simp [hs]
      · have : d.toNat ≠ 115 := by
          intro h
          apply hd
          apply Char.ext
          apply UInt32.toNat_inj.mp
          exact h.trans hs.symm
        simp only [this, decide_false, Bool.false_eq_true, if_false, hd]
        exact gen_isLowercase d
    | cons e r' =>
      simp only [List.length_cons, Snake.nextIsLower]
      have : ¬ (pre.length + 1 = pre.length + (r'.length + 1 + 1 + 1) - 1) := by omega
      simp only [this, decide_false, Bool.and_false, Bool.false_eq_true, if_false]
      exact gen_isLowercase d

theorem gen_isDigit (c : Char) : Gen.Str.isDigit c.toNat = isDigit c := by
  unfold Gen.Str.isDigit isDigit
  have hA : '0'.toNat = 48 := by decide
  have hZ : '9'.toNat = 57 := by decide
  rw [hA, hZ]

theorem lowerC_toNat (c : Char) (h : isUpper c = true) : (lowerC c).toNat = c.toNat - 65 + 97 := by
  unfold lowerC
  rw [if_pos h]
  unfold isUpper at h
  simp only [Bool.and_eq_true, decide_eq_true_eq] at h
  have hA : 'A'.toNat = 65 := by decide
  have hZ : 'Z'.toNat = 90 := by decide
  rw [hA, hZ] at h
  have h1 : c.toNat + 32 < 0xd800 := by omega
  have : (Char.ofNat (c.toNat + 32)).toNat = c.toNat + 32 := by
    unfold Char.ofNat
    rw [dif_pos (Or.inl h1)]
    rfl
  rw [this]; omega

/-- the loop: from any state reached after the prefix `pre`, folding the translated body over the rest appends what the
    model's transducer prints for the rest -/
theorem gen_fold (input : List Char) (hascii : ∀ c ∈ input, c.toNat < 128) :
    ∀ (rest pre : List Char) (st : Gen.Str.ToSnakeCaseState), input = pre ++ rest → st.i = pre.length →
      ((rest.map Char.toNat).foldl (Gen.Str.ToSnakeCase_body (input.map Char.toNat)) st).sb =
        st.sb ++ (Snake.go (decide (st.i = 0)) (decide (st.upperCount > 0)) rest).map Char.toNat := by
  intro rest
  induction rest with
  | nil => intro pre st _ _; simp [Snake.go]
  | cons c r ih =>
    intro pre st hin hi
    have hc : c.toNat < 128 := hascii c (by rw [hin]; simp)
    have hmod : c.toNat % 256 = c.toNat := Nat.mod_eq_of_lt (by omega)
    have hin' : input = (pre ++ [c]) ++ r := by rw [hin]; simp
    rw [List.map_cons, List.foldl_cons]
    have hnext : Gen.Str.nextIsLower (input.map Char.toNat) st.i = Snake.nextIsLower r := by
      rw [hin, hi]; exact gen_nextIsLower pre r c
    -- the state after the body
    by_cases hU : isUpper c = true
    · have hlow : (lowerC c).toNat = c.toNat - 65 + 97 := lowerC_toNat c hU
      have hr : 65 ≤ c.toNat ∧ c.toNat ≤ 90 := by
        have h := hU
        unfold isUpper at h
        simp only [Bool.and_eq_true, decide_eq_true_eq] at h
        have hA : 'A'.toNat = 65 := by decide
        have hZ : 'Z'.toNat = 90 := by decide
        rw [hA, hZ] at h
        exact h
      have hl128 : (c.toNat - 65 + 97) % 256 = c.toNat - 65 + 97 := Nat.mod_eq_of_lt (by omega)
      by_cases hm : (decide (st.i > 0) && (decide (st.upperCount = 0) || Snake.nextIsLower r)) = true
      · have hbody : Gen.Str.ToSnakeCase_body (input.map Char.toNat) st c.toNat =
            { sb := st.sb ++ [95] ++ [c.toNat - 65 + 97], upperCount := st.upperCount + 1, i := st.i + 1 } := by
          unfold Gen.Str.ToSnakeCase_body
          simp only [gen_isUppercase, hU, if_true, hnext, hm, hl128]
        rw [hbody, ih (pre ++ [c]) _ hin' (by simp [hi])]
        have hgo : Snake.go (decide (st.i = 0)) (decide (st.upperCount > 0)) (c :: r) =
            '_' :: lowerC c :: Snake.go false true r := by
          rw [Snake.go, if_pos hU]
          have : (!decide (st.i = 0) && (!decide (st.upperCount > 0) || Snake.nextIsLower r)) = true := by
            simp only [Bool.and_eq_true, Bool.or_eq_true, decide_eq_true_eq, Bool.not_eq_true', decide_eq_false_iff_not] at hm ⊢
            refine ⟨by omega, ?_⟩
            rcases hm.2 with h | h
            · left; omega
            · right; exact h
          rw [if_pos this]
        rw [hgo]
        have h1 : decide (st.i + 1 = 0) = false := by simp
        have h2 : decide (st.upperCount + 1 > 0) = true := by simp
        simp only [h1, h2, List.map_cons, hlow, List.append_assoc, List.cons_append, List.nil_append]
        rfl
      · have hm' : (decide (st.i > 0) && (decide (st.upperCount = 0) || Snake.nextIsLower r)) = false := by
          cases h : (decide (st.i > 0) && (decide (st.upperCount = 0) || Snake.nextIsLower r)) with
          | true => exact absurd h hm
          | false => rfl
        have hbody : Gen.Str.ToSnakeCase_body (input.map Char.toNat) st c.toNat =
            { sb := st.sb ++ [c.toNat - 65 + 97], upperCount := st.upperCount + 1, i := st.i + 1 } := by
          unfold Gen.Str.ToSnakeCase_body
          simp only [gen_isUppercase, hU, if_true, hnext, hm', Bool.false_eq_true, if_false, hl128]
        rw [hbody, ih (pre ++ [c]) _ hin' (by simp [hi])]
        have hgo : Snake.go (decide (st.i = 0)) (decide (st.upperCount > 0)) (c :: r) = lowerC c :: Snake.go false true r := by
          rw [Snake.go, if_pos hU]
          have : (!decide (st.i = 0) && (!decide (st.upperCount > 0) || Snake.nextIsLower r)) = false := by
            have e1 : (!decide (st.i = 0)) = decide (st.i > 0) := by
              by_cases h : st.i = 0
              · simp [h]
              · have : st.i > 0 := by omega
                simp [h, this]
            have e2 : (!decide (st.upperCount > 0)) = decide (st.upperCount = 0) := by
              by_cases h : st.upperCount = 0
              · simp [h]
              · have : st.upperCount > 0 := by omega
                simp [h, this]
            rw [e1, e2]; exact hm'
          rw [this]; simp
        rw [hgo]
        have h1 : decide (st.i + 1 = 0) = false := by simp
        have h2 : decide (st.upperCount + 1 > 0) = true := by simp
        simp only [h1, h2, List.map_cons, hlow, List.append_assoc, List.cons_append, List.nil_append]
    · have hU' : isUpper c = false := by
        cases h : isUpper c with
        | true => exact absurd h hU
        | false => rfl
      by_cases hL : isLower c = true
      · have hbody : Gen.Str.ToSnakeCase_body (input.map Char.toNat) st c.toNat =
            { sb := st.sb ++ [c.toNat], upperCount := 0, i := st.i + 1 } := by
          unfold Gen.Str.ToSnakeCase_body
          simp only [gen_isUppercase, hU', Bool.false_eq_true, if_false, gen_isLowercase, hL, if_true, hmod]
        rw [hbody, ih (pre ++ [c]) _ hin' (by simp [hi])]
        have hgo : Snake.go (decide (st.i = 0)) (decide (st.upperCount > 0)) (c :: r) = c :: Snake.go false false r := by
          rw [Snake.go, hU', if_pos hL]; simp
        rw [hgo]
        simp
      · have hL' : isLower c = false := by
          cases h : isLower c with
          | true => exact absurd h hL
          | false => rfl
        have hbody : Gen.Str.ToSnakeCase_body (input.map Char.toNat) st c.toNat =
            { sb := st.sb ++ [c.toNat], upperCount := st.upperCount, i := st.i + 1 } := by
          unfold Gen.Str.ToSnakeCase_body
          simp only [gen_isUppercase, hU', Bool.false_eq_true, if_false, gen_isLowercase, hL', hmod]
          -- the code may or may not distinguish digits from other characters here: both branches write the byte
          all_goals (first | rfl | (split <;> rfl))
        rw [hbody, ih (pre ++ [c]) _ hin' (by simp [hi])]
        have hgo : Snake.go (decide (st.i = 0)) (decide (st.upperCount > 0)) (c :: r) =
            c :: Snake.go false (decide (st.upperCount > 0)) r := by
          rw [Snake.go, hU', hL']; simp
        rw [hgo]
        simp

/-- **the translated function is the model** (ASCII input) -/
theorem translated_is_model (s : List Char) (hascii : ∀ c ∈ s, c.toNat < 128) :
    Gen.Str.ToSnakeCase (s.map Char.toNat) = (Snake.toSnake s).map Char.toNat := by
  unfold Gen.Str.ToSnakeCase Snake.toSnake
  have := gen_fold s hascii s [] { sb := [], upperCount := 0, i := 0 } rfl rfl
  simpa using this

theorem map_ofNat_toNat (l : List Char) : (l.map Char.toNat).map Char.ofNat = l := by
  rw [List.map_map]
  conv => rhs; rw [← List.map_id l]
  apply List.map_congr_left
  intro c _
  simp [Function.comp]

theorem map_toNat_inj {a b : List Char} (h : a.map Char.toNat = b.map Char.toNat) : a = b := by
  have := congrArg (List.map Char.ofNat) h
  rwa [map_ofNat_toNat, map_ofNat_toNat] at this

/-- **C16 of the code as it reads now**: on ASCII input the output of the *translated* `ToSnakeCase` is accepted by the
    executable placement predicate (clauses 1–5 of the statement) … -/
theorem translated_obeys_rules (s : List Char) (hascii : ∀ c ∈ s, c.toNat < 128) :
    SnakeSpec.snakeSpecOK s ((Gen.Str.ToSnakeCase (s.map Char.toNat)).map Char.ofNat) = true := by
  rw [translated_is_model s hascii, map_ofNat_toNat]
  exact (C16.main s).2.2.2.2.2.2

/-- … and identifiers that differ by more than case / underscore placement never collide under it -/
theorem translated_no_collision (a b : List Char) (ha : ∀ c ∈ a, c.toNat < 128) (hb : ∀ c ∈ b, c.toNat < 128)
    (h : Gen.Str.ToSnakeCase (a.map Char.toNat) = Gen.Str.ToSnakeCase (b.map Char.toNat)) :
    stripUnderscore (lowerS a) = stripUnderscore (lowerS b) := by
  rw [translated_is_model a ha, translated_is_model b hb] at h
  exact C16.noCollision a b (map_toNat_inj h)

end Sqlize.Tie
