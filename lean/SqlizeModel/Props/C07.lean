/-
  C07 — HashValue is a fingerprint of the schema, not of how it was written.

  md5 is a parameter of the model (`H` = digest as hex text, `F` = final digest as int64); no assumption is made on it for
  the "same schema ⇒ same value" direction.  Proved for every input and every `H`, `F`:

  * `empty_is_zero` — the empty schema has value 0;
  * `column_order_irrelevant` — a table's digest depends only on the *multisets* of column pre-images
    (escaped name + canonical type) and index pre-images: any column order, any index order;
  * `same_tables_same_value` — equal per-table digests in the same table order give the same value;
  * `case_option_irrelevant` — the value does not depend on the keyword-case option (the index pre-image is rendered
    with the upper-case templates; the column pre-image has no keyword);
  * determinism: `hashWith` is a function (no map iteration, no clock).

  * `value_is_a_function_of_the_schema` — **from scripts** (Proofs/HashScripts.lean): for every script of any length over
    the element-safe vocabulary without inline PRIMARY KEY that the reference engine accepts, the value computed for
    the model the MySQL reader loads is `DB.hashOf` of the *reference schema* — a function that reads, per table and in
    table order, the columns' names and types, the primary key and the indexes, and nothing else: not the script, not
    the order of columns or indexes, not a column option, not an element created and dropped again, not the table name;
  * `same_schema_same_value_from_scripts` — hence two scripts whose reference schemas agree table by table on those
    (multisets of (name, type), indexes up to order, key) have the same value, under either keyword-case option.

  * `different_schema_different_value` — **the other direction**, under an explicit collision-freeness hypothesis on the
    finitely many pre-images involved (md5 cannot be injective on all strings; Proofs/HashInj.lean): if `H` and `F` do
    not collide on the pre-images the two schemas give rise to, digests are non-empty `;`-free texts and no column
    pre-image is a key / index pre-image, two non-empty reference schemas with the same value have the same number of
    tables and, table by table in order, the same multiset of column pre-images (escaped name + type) and of key / index
    pre-images; `..._from_scripts` states it for the values computed for two loaded scripts.  Contrapositive: a table
    that differs in the name or type of a column, or in an index, gives another value.  The `hash` suite decides the
    clause for md5 itself on every run by single-element edits (a collision is the only way that run could wrongly pass).  That elements created and dropped again do not count
  follows from the reader forgetting them (C05 state correspondence).
-/
import SqlizeModel.Proofs.Hash
import SqlizeModel.Proofs.HashScripts
import SqlizeModel.Proofs.HashInj
import SqlizeModel.Props.C03

namespace Sqlize.C07
open Sqlize

theorem empty_is_zero (H : String → String) (F : String → Int) (g : Globals) :
    Migration.hashWith H F g {} = .ok 0 := rfl

theorem column_order_irrelevant (H : String → String) (g : Globals) (t₁ t₂ : Table) (i₁ i₂ : List String)
    (h₁ : t₁.idxs.mapM (Index.hashInput g) = .ok i₁) (h₂ : t₂.idxs.mapM (Index.hashInput g) = .ok i₂)
    (hc : (t₁.cols.map (Column.hashInput g)).Perm (t₂.cols.map (Column.hashInput g))) (hi : i₁.Perm i₂) :
    t₁.hashWith H g = t₂.hashWith H g := by
  rw [hashWith_eq H g t₁ i₁ h₁, hashWith_eq H g t₂ i₂ h₂, tableHashOf_perm H hc hi]

theorem same_tables_same_value (H : String → String) (F : String → Int) (g : Globals) (m₁ m₂ : Migration)
    (h : m₁.tables.mapM (Table.hashWith H g) = m₂.tables.mapM (Table.hashWith H g))
    (he : m₁.tables.isEmpty = m₂.tables.isEmpty) :
    m₁.hashWith H F g = m₂.hashWith H F g := by
  unfold Migration.hashWith
  rw [he, h]

theorem case_option_irrelevant (H : String → String) (F : String → Int) (g : Globals) (m : Migration) :
    m.hashWith H F { g with lower := true } = m.hashWith H F { g with lower := false } := by
  have hcol : ∀ c : Column, c.hashInput { g with lower := true } = c.hashInput { g with lower := false } := by
    intro c; simp [Column.hashInput, Globals.esc]
  have hidx : ∀ i : Index, Index.hashInput { g with lower := true } i = Index.hashInput { g with lower := false } i := by
    intro i; simp [Index.hashInput]
  have htab : ∀ t : Table, t.hashWith H { g with lower := true } = t.hashWith H { g with lower := false } := by
    intro t
    simp only [Table.hashWith, hcol]
    have : (fun i => Index.hashInput { g with lower := true } i) = (fun i => Index.hashInput { g with lower := false } i) :=
      funext hidx
    simp only [this]
  unfold Migration.hashWith
  have : (fun t => Table.hashWith H { g with lower := true } t) = (fun t => Table.hashWith H { g with lower := false } t) :=
    funext htab
  simp only [this]

open Sqlize.Spec in
/-- from scripts: `HashValue` of the loaded model is a function of the reference schema -/
theorem value_is_a_function_of_the_schema (H : String → String) (F : String → Int) (g : Globals) (rc : Bool)
    (ss : List Stmt) (db : DB)
    (hs : ss.all Stmt.elemSafe = true) (ht : ss.all Stmt.tablePk = true) (he : execAll rc [] ss = some db) :
    ∃ m, ReaderMysql.run {} ss = .ok m ∧ m.hashWith H F g = .ok (db.hashOf H F g) :=
  hash_of_schema H F g rc ss db hs ht he

open Sqlize.Spec in
/-- same schema ⇒ same value, from two scripts written differently -/
theorem same_schema_same_value_from_scripts (H : String → String) (F : String → Int) (g : Globals) (rc : Bool)
    (A B : List Stmt) (dbA dbB : DB)
    (hA : A.all Stmt.elemSafe = true) (hB : B.all Stmt.elemSafe = true)
    (htA : A.all Stmt.tablePk = true) (htB : B.all Stmt.tablePk = true)
    (heA : execAll rc [] A = some dbA) (heB : execAll rc [] B = some dbB)
    (hlen : dbA.length = dbB.length)
    (hsame : ∀ (i : Nat) (a b : TableSpec), dbA[i]? = some a → dbB[i]? = some b →
      (a.cols.map (fun c => (c.name, c.typ))).Perm (b.cols.map (fun c => (c.name, c.typ))) ∧ a.idxs.Perm b.idxs ∧ a.pk = b.pk) :
    ∃ mA mB v, ReaderMysql.run {} A = .ok mA ∧ ReaderMysql.run {} B = .ok mB ∧
      mA.hashWith H F g = .ok v ∧ mB.hashWith H F { g with lower := !g.lower } = .ok v :=
  same_schema_same_value H F g rc A B dbA dbB hA hB htA htB heA heB hlen hsame

-- non-vacuity of the two theorems: the scripts `C03.exA2` / `C03.exB2` (one CREATE TABLE with indexes; a history with
-- another column order, a detour column, the key added by ALTER TABLE) meet the decidable hypotheses, their reference
-- schemas have one table each; as a test (not the theorem) the model's values under the real md5 agree
open Sqlize.Spec in
example : C03.exA2.all Stmt.elemSafe = true ∧ C03.exB2.all Stmt.elemSafe = true ∧
    C03.exA2.all Stmt.tablePk = true ∧ C03.exB2.all Stmt.tablePk = true ∧
    ((execAll true [] C03.exA2).map List.length) = some 1 ∧ ((execAll true [] C03.exB2).map List.length) = some 1 := by decide
#guard (do let a ← ReaderMysql.run {} C03.exA2; a.hashValue {}).toOption ==
       (do let b ← ReaderMysql.run {} C03.exB2; b.hashValue { lower := true }).toOption
#guard (do let a ← ReaderMysql.run {} C03.exA2; a.hashValue {}).toOption.isSome

open Sqlize.Spec in
/-- different schema ⇒ different value, reference schemas (collision-freeness on the pre-images involved) -/
theorem different_schema_different_value (H : String → String) (F : String → Int) (g : Globals) (A B : Spec.DB)
    (hA : A ≠ []) (hB : B ≠ [])
    (hF : F (";".intercalate (A.map (TableSpec.hashOf H g))) = F (";".intercalate (B.map (TableSpec.hashOf H g))) →
      ";".intercalate (A.map (TableSpec.hashOf H g)) = ";".intercalate (B.map (TableSpec.hashOf H g)))
    (hdigT : ∀ t ∈ A ++ B, Digest (t.hashOf H g))
    (hdig : ∀ t ∈ A ++ B, ∀ x ∈ t.colPre g ++ t.idxPre g, Digest (H x))
    (hinj : ∀ t ∈ A ++ B, ∀ u ∈ A ++ B, ∀ x ∈ t.colPre g ++ t.idxPre g, ∀ y ∈ u.colPre g ++ u.idxPre g, H x = H y → x = y)
    (hjoin : ∀ t ∈ A ++ B, ∀ u ∈ A ++ B, H (t.joined H g) = H (u.joined H g) → t.joined H g = u.joined H g)
    (hdisj : ∀ t ∈ A ++ B, ∀ u ∈ A ++ B, ∀ x ∈ t.colPre g, ∀ y ∈ u.idxPre g, x ≠ y)
    (h : A.hashOf H F g = B.hashOf H F g) :
    A.length = B.length ∧ ∀ (i : Nat) (a b : TableSpec), A[i]? = some a → B[i]? = some b →
      (a.colPre g).Perm (b.colPre g) ∧ (a.idxPre g).Perm (b.idxPre g) :=
  hashOf_inj H F g A B hA hB hF hdigT hdig hinj hjoin hdisj h

open Sqlize.Spec in
/-- … for the values `HashValue` computes for two loaded scripts -/
theorem different_schema_different_value_from_scripts (H : String → String) (F : String → Int) (g : Globals) (rc : Bool)
    (A B : List Stmt) (dbA dbB : Spec.DB)
    (hsA : A.all Stmt.elemSafe = true) (hsB : B.all Stmt.elemSafe = true)
    (htA : A.all Stmt.tablePk = true) (htB : B.all Stmt.tablePk = true)
    (heA : execAll rc [] A = some dbA) (heB : execAll rc [] B = some dbB)
    (hA : dbA ≠ []) (hB : dbB ≠ [])
    (hF : F (";".intercalate (dbA.map (TableSpec.hashOf H g))) = F (";".intercalate (dbB.map (TableSpec.hashOf H g))) →
      ";".intercalate (dbA.map (TableSpec.hashOf H g)) = ";".intercalate (dbB.map (TableSpec.hashOf H g)))
    (hdigT : ∀ t ∈ dbA ++ dbB, Digest (t.hashOf H g))
    (hdig : ∀ t ∈ dbA ++ dbB, ∀ x ∈ t.colPre g ++ t.idxPre g, Digest (H x))
    (hinj : ∀ t ∈ dbA ++ dbB, ∀ u ∈ dbA ++ dbB, ∀ x ∈ t.colPre g ++ t.idxPre g, ∀ y ∈ u.colPre g ++ u.idxPre g, H x = H y → x = y)
    (hjoin : ∀ t ∈ dbA ++ dbB, ∀ u ∈ dbA ++ dbB, H (t.joined H g) = H (u.joined H g) → t.joined H g = u.joined H g)
    (hdisj : ∀ t ∈ dbA ++ dbB, ∀ u ∈ dbA ++ dbB, ∀ x ∈ t.colPre g, ∀ y ∈ u.idxPre g, x ≠ y) :
    ∃ mA mB, ReaderMysql.run {} A = .ok mA ∧ ReaderMysql.run {} B = .ok mB ∧
      (mA.hashWith H F g = mB.hashWith H F g →
        dbA.length = dbB.length ∧ ∀ (i : Nat) (a b : TableSpec), dbA[i]? = some a → dbB[i]? = some b →
          (a.colPre g).Perm (b.colPre g) ∧ (a.idxPre g).Perm (b.idxPre g)) := by
  obtain ⟨mA, hmA, hvA⟩ := hash_of_schema H F g rc A dbA hsA htA heA
  obtain ⟨mB, hmB, hvB⟩ := hash_of_schema H F g rc B dbB hsB htB heB
  refine ⟨mA, mB, hmA, hmB, ?_⟩
  intro h
  rw [hvA, hvB] at h
  exact hashOf_inj H F g dbA dbB hA hB hF hdigT hdig hinj hjoin hdisj (Except.ok.inj h)

-- the hypotheses of `different_schema_different_value` are satisfiable (a test with a toy digest that spells out the code
-- points, evaluated, not the theorem): two one-table schemas with permuted columns have the same value, every digest is
-- a `Digest`, nothing collides, no column pre-image is an index pre-image
def toyH (s : String) : String := "h" ++ String.join (s.toList.map (fun c => toString c.toNat ++ "."))
def toyF (s : String) : Int := s.length
open Sqlize.Spec in
def toyA : Spec.DB := [{ name := "t", cols := [{ name := "a", typ := "int(11)", opts := [] }, { name := "b", typ := "text", opts := [] }], pk := ["a"], idxs := [{ name := "i_b", cols := ["b"], unique := false }] }]
open Sqlize.Spec in
def toyB : Spec.DB := [{ name := "t", cols := [{ name := "b", typ := "text", opts := [] }, { name := "a", typ := "int(11)", opts := [] }], pk := ["a"], idxs := [{ name := "i_b", cols := ["b"], unique := false }] }]
#guard toyA.hashOf toyH toyF {} == toyB.hashOf toyH toyF {}
#guard (toyA ++ toyB).all (fun t => decide (Digest (t.hashOf toyH {})))
#guard (toyA ++ toyB).all (fun t => (t.colPre {} ++ t.idxPre {}).all (fun x => decide (Digest (toyH x))))
#guard (toyA ++ toyB).all (fun t => (toyA ++ toyB).all (fun u => (t.colPre {} ++ t.idxPre {}).all (fun x =>
  (u.colPre {} ++ u.idxPre {}).all (fun y => toyH x != toyH y || x == y))))
#guard (toyA ++ toyB).all (fun t => (toyA ++ toyB).all (fun u => (t.colPre {}).all (fun x => (u.idxPre {}).all (fun y => x != y))))
#guard (toyA ++ toyB).all (fun t => (toyA ++ toyB).all (fun u =>
  toyH (t.joined toyH {}) != toyH (u.joined toyH {}) || t.joined toyH {} == u.joined toyH {}))

-- non-vacuity: a permuted column list is a different list with the same digest input multiset
example : (["b", "a"] : List String).Perm ["a", "b"] := List.Perm.swap _ _ _
example : sortStrs ["b", "a", "c"] = ["a", "b", "c"] := by decide

end Sqlize.C07
