/-
  C03 — equal schemas give an empty migration, however each side was loaded.

  `Statement` (full strength, over the model and the reference engine) is not proved in full.  Proved for every input:

  * `unchanged_prints_nothing` — the mechanism named in the property's anchors: once `Diff` has left no action on the
    elements of the tables, `MigrationUp` and `MigrationDown` print nothing, for every dialect, keyword case and
    field-order setting, whatever `Arrange` does to the column arrays, and the state they leave is quiet again (so the
    claim holds for every later call too);
  * `same_options_unchanged` — a column compared with a column carrying the same options is not reported as modified.

  Missing: that `Diff` of two models with equal live content leaves every element without action (needs the map
  invariant `Inv` and reader fidelity, C05).  That part is covered by correspondence + the executable predicate `Spec.c03`
  on the implementation's output for every generated pair, including the equal-schema pairs loaded by different routes.
-/
import SqlizeModel.Proofs.Quiet
import SqlizeModel.Impl.Api
import SqlizeModel.Spec.Scope

namespace Sqlize.C03
open Sqlize Sqlize.Spec

def Statement : Prop :=
  ∀ (g : Globals) (old new : List Stmt) (dbOld dbNew : DB),
    execAll true [] old = some dbOld → execAll true [] new = some dbNew →
    ∃ up down, modelUp g old new = .ok up ∧ modelDown g old new = .ok down ∧ c03 dbOld dbNew up down = .ok ()

def Statement_partial : Prop :=
  ∀ (g : Globals) (old new : List Stmt) (dbOld dbNew : DB),
    execAll true [] old = some dbOld → execAll true [] new = some dbNew →
    Scope.c03 g dbOld dbNew old new = none →
    ∃ up down, modelUp g old new = .ok up ∧ modelDown g old new = .ok down ∧ c03 dbOld dbNew up down = .ok ()

theorem unchanged_prints_nothing (g : Globals) (m m' : Migration) (out : List (List Stmt))
    (h : ∀ t ∈ m.tables, t.Quiet) :
    (m.migrationUp g = .ok (m', out) → out = [] ∧ ∀ t ∈ m'.tables, t.Quiet) ∧
    (m.migrationDown g = .ok (m', out) → out = [] ∧ ∀ t ∈ m'.tables, t.Quiet) := by
  constructor
  · intro he
    unfold Migration.migrationUp at he
    simp only [bind, Except.bind] at he
    cases hm : Migration.migrate g true m.tables with
    | error e => rw [hm] at he; simp at he
    | ok res =>
      obtain ⟨ts, o⟩ := res
      rw [hm] at he
      simp [pure, Except.pure] at he
      obtain ⟨rfl, rfl⟩ := he
      exact migrate_quiet g true m.tables ts o h hm
  · intro he
    unfold Migration.migrationDown at he
    simp only [bind, Except.bind] at he
    cases hm : Migration.migrate g false m.tables with
    | error e => rw [hm] at he; simp at he
    | ok res =>
      obtain ⟨ts, o⟩ := res
      rw [hm] at he
      simp [pure, Except.pure] at he
      obtain ⟨rfl, rfl⟩ := he
      exact migrate_quiet g false m.tables ts o h hm

theorem same_options_unchanged (o : List Opt) : hasChangedOptions o o = false := hasChangedOptions_refl o

-- non-vacuity: a quiet table exists and is printed as nothing
example : (Table.new "t" .none).Quiet := by
  refine ⟨rfl, ?_, ?_, ?_⟩ <;> intro x hx <;> simp [Table.new] at hx

end Sqlize.C03
