/-
  C03 — equal schemas give an empty migration, however each side was loaded.

  `Statement` (full strength, over the model and the reference engine) is not proved in full.  Proved for every input:

  * `unchanged_prints_nothing` — the mechanism named in the property's anchors: once `Diff` has left no action on the
    elements of the tables, `MigrationUp` and `MigrationDown` print nothing, for every dialect, keyword case and
    field-order setting, whatever `Arrange` does to the column arrays, and the state they leave is quiet again (so the
    claim holds for every later call too);
  * `same_options_unchanged` — a column compared with a column carrying the same options is not reported as modified.

  * `equal_content_empty` — **`Diff` of two models with equal live content, on the implementation model**: for two
    consistent (`Inv`), freshly loaded (every action `add`) models with the same table names whose tables of one name are
    `Table.Same` (every column / index of one side has a namesake on the other that `Table.Diff` compares equal, the
    foreign-key names agree; column order and index-type spelling are free), `Migration.Diff` returns, leaves no action
    on any column or index, and `MigrationUp` and `MigrationDown` both return and print nothing (Proofs/DiffSame.lean);
  * `self_diff_empty` — in particular a model diffed against a model loaded the same way gives an empty migration;
  * `same_script_empty` — **from scripts**: for every script (any length, vocabulary of `Stmt.elemSafe`) the reference
    engine accepts, loading it on both sides with the MySQL reader model and diffing returns, and `MigrationUp` /
    `MigrationDown` return and print nothing (reader fidelity C05.indexes_and_foreign_keys gives `Inv` and `Fresh`).

  * `equal_schemas_from_scripts` — **however each side was loaded** (column definitions without an inline PRIMARY KEY;
    keys declared at table level — `PRIMARY KEY (…)`, `ADD PRIMARY KEY` — are covered): two
    *different* scripts of any length the reference engine accepts whose reference schemas are equivalent — the same
    tables, per table the same columns by name with the same type and the same options up to order, the same indexes up
    to order, the same primary key, the same foreign-key names; column order, statement order, ALTER histories, option order and index-type
    spelling are free — load into models that `Migration.Diff` finds equal: it returns, and both migrations are empty.
    (Proofs/OptsGood: every option of a loaded column is an option of some column definition of the script or a bare
    foreign-key mark, so `Table.Diff`'s option comparison — multiset of rendered keys — agrees with the comparison of
    the reference option lists up to order; Proofs/CrossLoad.)

  * `schema_on_reference_engine` — **the executable predicate `Spec.c03` itself, both clauses**: in the scope of the two
    whole-schema theorems `C01.schema_on_reference_engine` and `C02.schema_on_reference_engine` (no inline
    PRIMARY KEY; common tables order-compatible with the same primary key, outside the recorded
    regions), `modelUp` and `modelDown` return and `c03 dbOld dbNew up down = .ok ()`: if the two reference schemas are
    `DB.equiv` both migrations are empty (`dbEquiv_of_equiv` feeds `equal_schemas_from_scripts`), and otherwise no
    statement of either migration targets a table that is `TableSpec.equiv` on the two sides — because every printed
    statement is justified by a difference (C01 / C02) and a statement about an equivalent table never is
    (`not_justified_of_equiv`, a lemma about the reference engine alone; Proofs/SpecUnchanged.lean).

  Missing: the same with an *inline* PRIMARY KEY option: the model keeps it as an option of the column, so a key has two
  representations (recorded finding `pk-inline-vs-table-level`), and MODIFY COLUMN of a key column loses the option
  (recorded finding).
  That part is covered by correspondence + the executable predicate `Spec.c03` on the implementation's output for
  every generated pair, including the equal-schema pairs loaded by different routes.
-/
import SqlizeModel.Proofs.Quiet
import SqlizeModel.Proofs.DiffSame
import SqlizeModel.Proofs.FidelityElems
import SqlizeModel.Proofs.CrossLoad
import SqlizeModel.Impl.Api
import SqlizeModel.Spec.Scope
import SqlizeModel.Proofs.SpecUnchanged
import SqlizeModel.Proofs.SchemaIgnoring
import SqlizeModel.Props.C01

namespace Sqlize.C03
open Sqlize Sqlize.Spec

def Statement : Prop :=
  ∀ (g : Globals) (old new : List Stmt) (dbOld dbNew : DB),
    execAll true [] old = some dbOld → execAll true [] new = some dbNew →
    ∃ up down, modelUp g old new = .ok up ∧ modelDown g old new = .ok down ∧ c03 dbOld dbNew up down = .ok ()

def Statement_partial : Prop :=
  ∀ (g : Globals) (old new : List Stmt) (dbOld dbNew : DB),
    execAll true [] old = some dbOld → execAll true [] new = some dbNew →
    Scope.c03 g dbOld dbNew old new = none →
    ∃ up down, modelUp g old new = .ok up ∧ modelDown g old new = .ok down ∧ c03 dbOld dbNew up down = .ok ()

theorem unchanged_prints_nothing (g : Globals) (m m' : Migration) (out : List (List Stmt))
    (h : ∀ t ∈ m.tables, t.Quiet) :
    (m.migrationUp g = .ok (m', out) → out = [] ∧ ∀ t ∈ m'.tables, t.Quiet) ∧
    (m.migrationDown g = .ok (m', out) → out = [] ∧ ∀ t ∈ m'.tables, t.Quiet) := by
  constructor
  · intro he
    unfold Migration.migrationUp at he
    simp only [bind, Except.bind] at he
    cases hm : Migration.migrate g true m.tables with
    | error e => rw [hm] at he; simp at he
    | ok res =>
      obtain ⟨ts, o⟩ := res
      rw [hm] at he
      simp [pure, Except.pure] at he
      obtain ⟨rfl, rfl⟩ := he
      exact migrate_quiet g true m.tables ts o h hm
  · intro he
    unfold Migration.migrationDown at he
    simp only [bind, Except.bind] at he
    cases hm : Migration.migrate g false m.tables with
    | error e => rw [hm] at he; simp at he
    | ok res =>
      obtain ⟨ts, o⟩ := res
      rw [hm] at he
      simp [pure, Except.pure] at he
      obtain ⟨rfl, rfl⟩ := he
      exact migrate_quiet g false m.tables ts o h hm

theorem same_options_unchanged (o : List Opt) : hasChangedOptions o o = false := hasChangedOptions_refl o

/-- equal live content gives an empty migration in both directions, and neither `Diff` nor the printers panic -/
theorem equal_content_empty (g : Globals) (d : Dialect) (m o : Migration) (h : m.Inv) (ho : o.Inv) (hf : m.Fresh)
    (hof : o.Fresh) (hs : Migration.Same d m o) :
    ∃ dm, m.diff d o = .ok dm ∧ dm.migrationUp g = .ok (dm, []) ∧ dm.migrationDown g = .ok (dm, []) :=
  Migration.same_prints_nothing g d m o h ho hf hof hs

/-- a freshly loaded model diffed against itself -/
theorem self_diff_empty (g : Globals) (d : Dialect) (m : Migration) (h : m.Inv) (hf : m.Fresh) :
    ∃ dm, m.diff d m = .ok dm ∧ dm.migrationUp g = .ok (dm, []) ∧ dm.migrationDown g = .ok (dm, []) :=
  Migration.same_prints_nothing g d m m h h hf hf (Migration.same_refl d m)

/-- the same schema loaded twice from one script: empty migration in both directions, no panic -/
theorem same_script_empty (g : Globals) (hg : g.dialect = .mysql) (rc : Bool) (ss : List Stmt) (db : DB)
    (hs : ss.all Stmt.elemSafe = true) (he : execAll rc [] ss = some db) :
    ∃ d, loadAndDiff g ss ss = .ok d ∧ d.migrationUp g = .ok (d, []) ∧ d.migrationDown g = .ok (d, []) := by
  obtain ⟨m, hm, _, _, hi, _, hf⟩ := ReaderMysql.fidelity_elems rc ss db hs he
  have hr : readScript g {} ss = .ok m := by unfold readScript; rw [hg]; exact hm
  obtain ⟨d, hd, hu, hdn⟩ := self_diff_empty g g.dialect m hi hf
  refine ⟨d, ?_, hu, hdn⟩
  unfold loadAndDiff
  simp only [hr, bind, Except.bind]
  exact hd

/-- two different scripts describing equivalent schemas (no inline PRIMARY KEY option): empty migration, both directions -/
theorem equal_schemas_from_scripts (g : Globals) (hg : g.dialect = .mysql) (rc : Bool) (A B : List Stmt) (dbA dbB : DB)
    (hA : A.all Stmt.elemSafe = true) (hB : B.all Stmt.elemSafe = true)
    (hpA : A.all Stmt.plainOpts = true) (hpB : B.all Stmt.plainOpts = true)
    (heA : execAll rc [] A = some dbA) (heB : execAll rc [] B = some dbB) (heq : DBEquiv dbA dbB) :
    ∃ d, loadAndDiff g A B = .ok d ∧ d.migrationUp g = .ok (d, []) ∧ d.migrationDown g = .ok (d, []) :=
  equal_schemas_empty g hg rc A B dbA dbB hA hB hpA hpB heA heB heq

-- non-vacuity of `equal_schemas_from_scripts`: the same schema written as one CREATE TABLE with indexes, and as a
-- history (another column order, a column added later with its options in another order, a detour column dropped
-- again, the primary key added by ALTER TABLE instead of in CREATE TABLE, the default index type spelled out)
def exA2 : List Stmt :=
  [.createTable "t" 0 [{ name := "a", typ := "int(11)", opts := [{ kind := .notNull }, { kind := .default, dflt := .num "1" }] },
                       { name := "b", typ := "varchar(64)", opts := [{ kind := .comment, text := "b's" }] },
                       { name := "c", typ := "text" }] ["a"],
   .createIndex "t" "i_ab" ["a", "b"] true "",
   .createIndex "t" "i_c" ["c"] false ""]
def exB2 : List Stmt :=
  [.createTable "t" 0 [{ name := "c", typ := "text" }, { name := "zz", typ := "int(11)" },
                       { name := "b", typ := "varchar(64)", opts := [{ kind := .comment, text := "b's" }] }] [],
   .createIndex "t" "i_c" ["c"] false "BTREE",
   .createIndex "t" "i_tmp" ["zz"] false "",
   .addColumn "t" { name := "a", typ := "int(11)", opts := [{ kind := .default, dflt := .num "1" }, { kind := .notNull }] } .first,
   .dropColumn "t" "zz",
   .addPrimaryKey "t" ["a"],
   .createIndex "t" "i_ab" ["a", "b"] true ""]
example : exA2.all Stmt.elemSafe = true ∧ exB2.all Stmt.elemSafe = true ∧ exA2.all Stmt.plainOpts = true ∧ exB2.all Stmt.plainOpts = true := by decide
example : ∃ dbA dbB, execAll true [] exA2 = some dbA ∧ execAll true [] exB2 = some dbB ∧ DBEquiv dbA dbB :=
  ⟨_, _, by rfl, by rfl, dbEquiv_of_B _ _ (by decide)⟩
example : (execAll true [] exB2).map specView = some [("t", ["a", "c", "b"])] := by decide

-- the same hypotheses for the shape seeded change C03-s needs: every column carries several expression options (DEFAULT,
-- COMMENT) and the second script writes each column's options in the opposite order
def exOpt : List Stmt :=
  [.createTable "ticket" 0 [{ name := "id", typ := "int(11)", opts := [{ kind := .notNull }] },
                            { name := "status", typ := "varchar(64)", opts := [{ kind := .notNull }, { kind := .default, dflt := .num "7" }, { kind := .comment, text := "x" }] },
                            { name := "n", typ := "int(11)", opts := [{ kind := .default, dflt := .num "0" }, { kind := .comment, text := "how many" }] }] []]
def exOptRev : List Stmt :=
  [.createTable "ticket" 0 [{ name := "id", typ := "int(11)", opts := [{ kind := .notNull }] },
                            { name := "status", typ := "varchar(64)", opts := [{ kind := .comment, text := "x" }, { kind := .default, dflt := .num "7" }, { kind := .notNull }] },
                            { name := "n", typ := "int(11)", opts := [{ kind := .comment, text := "how many" }, { kind := .default, dflt := .num "0" }] }] []]
example : exOpt.all Stmt.elemSafe = true ∧ exOptRev.all Stmt.elemSafe = true ∧ exOpt.all Stmt.plainOpts = true ∧ exOptRev.all Stmt.plainOpts = true := by decide
example : ∃ dbA dbB, execAll true [] exOpt = some dbA ∧ execAll true [] exOptRev = some dbB ∧ dbA ≠ dbB ∧ DBEquiv dbA dbB :=
  ⟨_, _, by rfl, by rfl, by decide, dbEquiv_of_B _ _ (by decide)⟩

-- non-vacuity of `same_script_empty`: a script with keys, indexes, a dropped column and a modify meets the hypotheses
def exScript : List Stmt :=
  [.createTable "u" 0 [{ name := "id", typ := "int(11)" }] ["id"],
   .createTable "t" 0 [{ name := "a", typ := "int(11)" }, { name := "b", typ := "int(11)" }, { name := "c", typ := "text" }] [],
   .createIndex "t" "i_ab" ["a", "b"] true "",
   .addFk "t" "fk_a" "a" "u" "id",
   .modifyColumn "t" { name := "c", typ := "longtext" },
   .dropColumn "t" "b"]
example : exScript.all Stmt.elemSafe = true ∧ (execAll true [] exScript).isSome = true := by decide

-- non-vacuity of `equal_content_empty`: two tables built by the primitives in different column orders, one spelling the
-- index type out, the other not; both with a foreign key — they are `Same`, and the diff is computed and silent
def mkCol (n ty : String) : Column := { name := n, action := .add, cur := { typ := some ty, opts := [{ kind := .notNull }] } }
def exA : M Migration := do
  let t ← (Table.new "t" .add).addColumn (mkCol "a" "int(11)"); let t ← t.addColumn (mkCol "b" "text")
  let t ← t.addIndex { name := "ix", action := .add, cols := ["a"], indexType := "BTREE" }
  let t ← t.addForeignKey { name := "fk", action := .add, table := "t", column := "b", refTable := "u", refColumn := "id" }
  (({} : Migration).addTable t)
def exB : M Migration := do
  let t ← (Table.new "t" .add).addColumn (mkCol "b" "text"); let t ← t.addColumn (mkCol "a" "int(11)")
  let t ← t.addForeignKey { name := "fk", action := .add, table := "t", column := "b", refTable := "u", refColumn := "id" }
  let t ← t.addIndex { name := "ix", action := .add, cols := ["a"], indexType := "" }
  (({} : Migration).addTable t)
example : ∃ a b dm, exA = .ok a ∧ exB = .ok b ∧ a.diff .mysql b = .ok dm ∧
    (dm.tables.map (fun t => (t.cols.map (·.name), t.cols.map (·.action), t.idxs.map (·.action), t.fks.map (·.action)))) =
      [(["a", "b"], [.none, .none], [.none], [.modify])] ∧ dm.migrationUp {} = .ok (dm, []) := ⟨_, _, _, rfl, rfl, rfl, by decide, by rfl⟩

-- … and they meet every hypothesis of `equal_content_empty`
example : ∃ a b, exA = .ok a ∧ exB = .ok b ∧ a.Inv ∧ b.Inv ∧ a.Fresh ∧ b.Fresh ∧ Migration.Same .mysql a b := by
  refine ⟨_, _, rfl, rfl, ?_, ?_, ?_, ?_, ?_⟩
  · have h0 := Table.inv_new "t" .add
    obtain ⟨h1, _⟩ := Table.addColumn_inv (pg := false) _ _ (mkCol "a" "int(11)") true h0 rfl
    obtain ⟨h2, _⟩ := Table.addColumn_inv (pg := false) _ _ (mkCol "b" "text") true h1 rfl
    obtain ⟨h3, _⟩ := Table.addIndex_inv _ _ { name := "ix", action := .add, cols := ["a"], indexType := "BTREE" } h2 rfl
    obtain ⟨h4, _⟩ := Table.addForeignKey_inv _ _ { name := "fk", action := .add, table := "t", column := "b", refTable := "u", refColumn := "id" } h3 rfl
    exact Migration.addTable_inv {} _ _ Migration.inv_empty h4 rfl
  · have h0 := Table.inv_new "t" .add
    obtain ⟨h1, _⟩ := Table.addColumn_inv (pg := false) _ _ (mkCol "b" "text") true h0 rfl
    obtain ⟨h2, _⟩ := Table.addColumn_inv (pg := false) _ _ (mkCol "a" "int(11)") true h1 rfl
    obtain ⟨h3, _⟩ := Table.addForeignKey_inv _ _ { name := "fk", action := .add, table := "t", column := "b", refTable := "u", refColumn := "id" } h2 rfl
    obtain ⟨h4, _⟩ := Table.addIndex_inv _ _ { name := "ix", action := .add, cols := ["a"], indexType := "" } h3 rfl
    exact Migration.addTable_inv {} _ _ Migration.inv_empty h4 rfl
  · constructor
    intro t ht
    have : t ∈ [_] := ht
    rw [List.mem_singleton] at this
    subst this
    exact ⟨Table.fresh_of_lists _ (by decide) (by decide) (by decide), rfl⟩
  · constructor
    intro t ht
    have : t ∈ [_] := ht
    rw [List.mem_singleton] at this
    subst this
    exact ⟨Table.fresh_of_lists _ (by decide) (by decide) (by decide), rfl⟩
  · refine ⟨?_, by decide⟩
    intro t ht
    have : t ∈ [_] := ht
    rw [List.mem_singleton] at this
    subst this
    exact ⟨_, List.mem_singleton.mpr rfl, rfl, Table.same_of_sameB _ _ _ (by decide)⟩

-- non-vacuity: a quiet table exists and is printed as nothing
example : (Table.new "t" .none).Quiet := by
  refine ⟨rfl, ?_, ?_, ?_⟩ <;> intro x hx <;> simp [Table.new] at hx

/-- both clauses of C03 for whole schemas on the reference engine: the executable predicate `Spec.c03` holds of the printed
    up and down migrations -/
theorem schema_on_reference_engine (g : Globals) (hg : g.dialect = .mysql) (hio : g.ignoreOrder = false) (rc : Bool)
    (old new : List Stmt) (dbO dbN : DB) (ho : old.all Stmt.elemSafe = true) (hn : new.all Stmt.elemSafe = true)
    (hpo : old.all Stmt.plainOpts = true) (hpn : new.all Stmt.plainOpts = true)
    (heo : execAll rc [] old = some dbO) (hen : execAll rc [] new = some dbN)
    (hdef : ∀ tb ∈ dbO ++ dbN, tb.name ≠ Migration.defaultMigrationTable)
    (hboth : ∀ tbO ∈ dbO, ∀ tbN ∈ dbN, tbO.name = tbN.name →
      Abs.OrderCompatible tbN.colNames tbO.colNames ∧ (∀ n ∈ tbN.colNames ++ tbO.colNames, n ≠ "") ∧ tbO.pk = tbN.pk ∧
      (∀ dc : List String, (∀ c ∈ dc, c ∉ tbN.colNames) →
        ∀ s ∈ tbN.idxs, ∀ o ∈ tbO.idxs, o.name = s.name → o ≠ s → ∃ c ∈ o.cols, c ∉ dc) ∧
      (∀ dc : List String, (∀ c ∈ dc, c ∉ tbO.colNames) →
        ∀ s ∈ tbN.idxs, ∀ o ∈ tbO.idxs, o.name = s.name → o ≠ s → ∃ c ∈ s.cols, c ∉ dc) ∧
      (∀ s ∈ tbN.fks, ∀ o ∈ tbO.fks, s.name = o.name → s = o)) :
    ∃ up down, modelUp g old new = .ok up ∧ modelDown g old new = .ok down ∧ c03 dbO dbN up down = .ok () :=
  schema_c03 g hg hio rc old new dbO dbN ho hn hpo hpn heo hen hdef hboth

/-- the reference-engine lemma behind the second clause: a statement about a table that is equivalent on both sides is
    not justified by any difference -/
theorem equal_table_never_justified (a b : DB) (t : String) (ta tb : TableSpec) (ha : a.find t = some ta) (hb : b.find t = some tb)
    (he : ta.equiv tb = true) (hia : (ta.idxs.map (·.name)).Nodup) (hfa : (ta.fks.map (·.name)).Nodup)
    (s : Stmt) (hs : s.table = t) : justified a b s = false :=
  not_justified_of_equiv a b t ta tb ha hb he hia hfa s hs

-- non-vacuity of `schema_on_reference_engine`: the pair `C01.exOldW` / `C01.exNewW` (table "keep" is equal on both sides
-- and no statement targets it; the schemas differ), and a pair of equal schemas written differently
example : ∃ up down dbO dbN, modelUp {} C01.exOldW C01.exNewW = .ok up ∧ modelDown {} C01.exOldW C01.exNewW = .ok down ∧
    execAll true [] C01.exOldW = some dbO ∧ execAll true [] C01.exNewW = some dbN ∧
    dbO.equiv dbN = false ∧ (up ++ down).length = 16 ∧ (c03 dbO dbN up down).toOption = some () :=
  ⟨_, _, _, _, by rfl, by rfl, by rfl, by rfl, by decide, by decide, by decide⟩

/-- the same for either setting of the ignore-field-order option -/
theorem schema_on_reference_engine_either_setting (g : Globals) (hg : g.dialect = .mysql) (rc : Bool)
    (old new : List Stmt) (dbO dbN : DB) (ho : old.all Stmt.elemSafe = true) (hn : new.all Stmt.elemSafe = true)
    (hpo : old.all Stmt.plainOpts = true) (hpn : new.all Stmt.plainOpts = true)
    (heo : execAll rc [] old = some dbO) (hen : execAll rc [] new = some dbN)
    (hdef : ∀ tb ∈ dbO ++ dbN, tb.name ≠ Migration.defaultMigrationTable)
    (hboth : ∀ tbO ∈ dbO, ∀ tbN ∈ dbN, tbO.name = tbN.name →
      Abs.OrderCompatible tbN.colNames tbO.colNames ∧ (∀ n ∈ tbN.colNames ++ tbO.colNames, n ≠ "") ∧ tbO.pk = tbN.pk ∧
      (∀ dc : List String, (∀ c ∈ dc, c ∉ tbN.colNames) →
        ∀ s ∈ tbN.idxs, ∀ o ∈ tbO.idxs, o.name = s.name → o ≠ s → ∃ c ∈ o.cols, c ∉ dc) ∧
      (∀ dc : List String, (∀ c ∈ dc, c ∉ tbO.colNames) →
        ∀ s ∈ tbN.idxs, ∀ o ∈ tbO.idxs, o.name = s.name → o ≠ s → ∃ c ∈ s.cols, c ∉ dc) ∧
      (∀ s ∈ tbN.fks, ∀ o ∈ tbO.fks, s.name = o.name → s = o)) :
    ∃ up down, modelUp g old new = .ok up ∧ modelDown g old new = .ok down ∧ c03 dbO dbN up down = .ok () :=
  schema_c03_any g hg rc old new dbO dbN ho hn hpo hpn heo hen hdef hboth

end Sqlize.C03
