/-
  C11 — migration files: what is written is what is read back, in order.

  Proved for every input:
  * `sanitize_charset` — whatever the migration name (any characters), the name part of the file name consists of
    lowercase letters, digits and underscores only;
  * `nothing_when_empty` — no file when both migrations are empty;
  * `files_written` — otherwise exactly one up file, and one down file iff a distinct non-empty down suffix is
    configured, inside the configured folder, named `<ts>_<sanitised name><suffix>`, whose content is the generated-by
    header followed by the migration text or the empty-migration marker;
  * `read_filter` — `ReadPath` returns the contents of exactly the non-hidden entries ending with the up suffix,
    `read_sorted` — taken in ascending name order (the listing is sorted, whatever order it is given in).

  Partial by nature: the OS (`os.ReadDir` ordering, `os.WriteFile`, permissions, `time.Now`) is modelled, not verified;
  the runs in a scratch directory validate that part.  "Successive writes reload in write order" is
  `Files.successive_writes_reload_in_order` (Proofs/FilesOrder.lean, which imports this file): for calls at strictly
  increasing clock readings of the same width, whatever else the folder holds that the filter rejects and whatever order
  the directory is listed in, `ReadPath` returns header + migration text of every call in call order (names that start
  with same-width timestamps compare like the timestamps, `name_lt_of_ts_lt`; sorting a permutation of a strictly
  increasing list gives that list).  Two writes within the same second sort by name (recorded finding; `#guard` there).
-/
import SqlizeModel.Impl.Files

namespace Sqlize.C11
open Sqlize Sqlize.Files

def fileChar (c : Char) : Bool := isLower c || isDigit c || c == '_'

theorem squeeze_mem (l : List Char) : ∀ c ∈ squeeze l, c ∈ l := by
  induction l using squeeze.induct with
  | case1 rest ih =>
    intro c hc
    simp only [squeeze, List.mem_cons] at hc ⊢
    rcases hc with rfl | hc
    · exact Or.inl rfl
    · exact Or.inr (Or.inr (ih c hc))
  | case2 c rest hne ih =>
    intro x hx
    rw [squeeze] at hx
    · simp only [List.mem_cons] at hx ⊢
      rcases hx with rfl | hx
      · exact Or.inl rfl
      · exact Or.inr (ih x hx)
    · exact hne
  | case3 => intro c hc; simp [squeeze] at hc

theorem sanitize_charset (name : List Char) : ∀ c ∈ sanitize name, fileChar c = true := by
  intro c hc
  unfold sanitize at hc
  simp only [List.mem_map] at hc
  obtain ⟨d, hd, rfl⟩ := hc
  have hd' := squeeze_mem _ d hd
  simp only [List.mem_map, List.mem_filter] at hd'
  obtain ⟨e, ⟨_, hk⟩, rfl⟩ := hd'
  -- `e` was kept; after lower-casing and dash replacement it is a lowercase letter, a digit or an underscore
  unfold keep at hk
  unfold dashToUnderscore fileChar
  by_cases hU : isUpper e = true
  · have h1 : isLower (lowerC e) = true := by
      unfold lowerC; simp only [hU, if_true]
      unfold isUpper at hU; unfold isLower
      simp only [Bool.and_eq_true, decide_eq_true_eq] at hU ⊢
      have hA : 'A'.toNat = 65 := by decide
      have hZ : 'Z'.toNat = 90 := by decide
      have ha : 'a'.toNat = 97 := by decide
      have hz : 'z'.toNat = 122 := by decide
      have h1 : e.toNat + 32 < 0xd800 := by omega
      have : (Char.ofNat (e.toNat + 32)).toNat = e.toNat + 32 := by
        unfold Char.ofNat; rw [dif_pos (Or.inl h1)]; rfl
      rw [this]; omega
    have h2 : (lowerC e == ' ') = false := by
      cases h : (lowerC e == ' ')
      · rfl
      · simp at h; rw [h] at h1; exact absurd h1 (by decide)
    have h3 : (lowerC e == '-') = false := by
      cases h : (lowerC e == '-')
      · rfl
      · simp at h; rw [h] at h1; exact absurd h1 (by decide)
    simp [h2, h3, h1]
  · have hl : lowerC e = e := lowerC_of_not_upper (by simpa using hU)
    rw [hl]
    simp only [hU, Bool.false_or, Bool.or_eq_true, beq_iff_eq] at hk
    rcases hk with (((hk | hk) | hk) | hk) | hk
    · have h2 : (e == ' ') = false := by
        cases h : (e == ' ')
        · rfl
        · simp at h; rw [h] at hk; exact absurd hk (by decide)
      have h3 : (e == '-') = false := by
        cases h : (e == '-')
        · rfl
        · simp at h; rw [h] at hk; exact absurd hk (by decide)
      simp [h2, h3, hk]
    · have h2 : (e == ' ') = false := by
        cases h : (e == ' ')
        · rfl
        · simp at h; rw [h] at hk; exact absurd hk (by decide)
      have h3 : (e == '-') = false := by
        cases h : (e == '-')
        · rfl
        · simp at h; rw [h] at hk; exact absurd hk (by decide)
      simp [h2, h3, hk]
    · subst hk; decide
    · subst hk; decide
    · subst hk; decide

theorem nothing_when_empty (cfg : FileCfg) (ts name : String) : writeFiles cfg ts name "" "" = [] := by
  simp [writeFiles]

theorem files_written (cfg : FileCfg) (ts name up down : String) (h : ¬ (up = "" ∧ down = "")) :
    let fileName := ts ++ "_" ++ String.ofList (sanitize name.toList)
    let upFile := (join cfg.folder (fileName ++ cfg.upSuffix), genDescription ++ (if up = "" then emptyMigration else up))
    let downFile := (join cfg.folder (fileName ++ cfg.downSuffix), genDescription ++ (if down = "" then emptyMigration else down))
    writeFiles cfg ts name up down =
      if cfg.downSuffix ≠ "" ∧ cfg.downSuffix ≠ cfg.upSuffix then [upFile, downFile] else [upFile] := by
  have hne : (up == "" && down == "") = false := by
    cases hu : (up == "") <;> cases hd : (down == "") <;> simp_all
  simp only [writeFiles, hne, Bool.false_eq_true, if_false]
  by_cases h1 : cfg.downSuffix = ""
  · simp [h1]
  · by_cases h2 : cfg.downSuffix = cfg.upSuffix
    · simp [h1, h2]
    · simp [h1, h2]

theorem read_filter (entries : List (String × String)) (suffix : String) :
    readFolder entries suffix =
      ((sortByName entries).filter (fun e => e.1.endsWith suffix && !e.1.startsWith ".")).map (·.2) := rfl

theorem insertByName_perm (p : String × String) (l : List (String × String)) : (insertByName p l).Perm (p :: l) := by
  induction l with
  | nil => exact List.Perm.refl _
  | cons q r ih =>
    unfold insertByName
    split
    · exact List.Perm.refl _
    · exact (List.Perm.cons q ih).trans (List.Perm.swap p q r)

/-- the listing is only re-ordered: every entry is considered exactly once -/
theorem sort_perm (l : List (String × String)) : (sortByName l).Perm l := by
  induction l with
  | nil => exact List.Perm.refl _
  | cons p r ih =>
    simp only [sortByName, List.foldr_cons]
    exact (insertByName_perm p _).trans (List.Perm.cons p ih)

theorem insertByName_sorted (p : String × String) (l : List (String × String))
    (h : l.Pairwise (fun a b => a.1 ≤ b.1)) : (insertByName p l).Pairwise (fun a b => a.1 ≤ b.1) := by
  induction l with
  | nil => simp [insertByName]
  | cons q r ih =>
    unfold insertByName
    have hq := List.pairwise_cons.mp h
    split
    · rename_i hlt
      refine List.pairwise_cons.mpr ⟨?_, h⟩
      intro b hb
      simp only [List.mem_cons] at hb
      have hpq : p.1 ≤ q.1 := String.not_lt.mp (String.lt_asymm hlt)
      rcases hb with rfl | hb
      · exact hpq
      · exact String.le_trans hpq (hq.1 b hb)
    · rename_i hnlt
      refine List.pairwise_cons.mpr ⟨?_, ih hq.2⟩
      intro b hb
      have := (insertByName_perm p r).subset hb
      simp only [List.mem_cons] at this
      rcases this with rfl | hb'
      · exact String.not_lt.mp hnlt
      · exact hq.1 b hb'

/-- ascending name order -/
theorem read_sorted (l : List (String × String)) : (sortByName l).Pairwise (fun a b => a.1 ≤ b.1) := by
  induction l with
  | nil => simp [sortByName]
  | cons p r ih =>
    simp only [sortByName, List.foldr_cons]
    exact insertByName_sorted p _ ih

example : String.ofList (sanitize "Add user-ID  column\t(v2)!".toList) = "add_user_id_columnv2" := by decide

end Sqlize.C11
