/-
  C08 — outputs are pure and deterministic functions of what was loaded.

  The only write an output method performs is `Arrange` (called by `MigrationUp` / `MigrationDown`), which re-sorts the
  shared column array by the position map.  Proved for every state:

  * `up_pure`, `down_pure` — on an arrange-stable state (`Migration.Stable`: `Arrange` leaves every printed table as it
    is) `MigrationUp` / `MigrationDown` hand back exactly the state they were given; hence
  * `calls_pure` — any sequence of output calls on a stable state returns, for every call, the value the call returns on
    the initial state, and leaves that state: later `Diff` / output calls see the same model;
  * `hashValue`, the version statements and the exports are functions of the state (they return no state at all);
  * map iteration order does not appear in any definition except `Arrange`'s `σ` (the association-list order), which
    `Stable` quantifies away.

  * `arrange_identity`, `pure_of_inv` — under the map invariant (`Table.ColInv`: unique column names, position map = a
    permutation of `name ↦ index`) `Arrange` is the identity **for every iteration order of the map** (the association-
    list order is arbitrary; sorting the entries by position always yields `name ↦ index` in index order), so every state
    whose tables satisfy the invariant is stable and all of the above applies to it.
  * `loaded_pure`, `diffed_pure` — **every state the API reaches satisfies the invariant**: loading any scripts in any
    number of calls with any of the three reader models, and `Diff` of two loaded sides (Proofs/NInv … ReaderPending:
    each of the five slice/map edit shapes preserves the invariant, hence every `Table` / `Migration` primitive, every
    reader step, `Table.Diff` and `Migration.Diff`).  Two run-time side conditions, met by every script an engine
    accepts: a RENAME targets a name the table does not hold (`ScriptFresh`), and a positional ADD COLUMN does not name
    a column the table already created (`ScriptPos`).  Scripts with neither construct need no condition
    (`diffed_pure_simple`).  So output calls are pure on all of them, whatever order Go iterates the maps in.
  What stays with the correspondence: that the Go code is the model (white-box state incl. the maps after every
  script; `invCheck` on the Go state), and process-to-process determinism.  Decided by the `calls` suite (every ordered pair / triple of the 8 output
  methods + random longer sequences, also with output calls before `Diff`) and by byte-identical re-runs in fresh
  processes (fresh map-iteration seeds).
-/
import SqlizeModel.Proofs.ReaderPending
import SqlizeModel.Impl.Hash

namespace Sqlize.C08
open Sqlize

inductive OutCall | up | down | hash
  deriving DecidableEq, Repr

/-- one output call: new state and rendered value (`none` = the Go call panics) -/
def call (g : Globals) (m : Migration) : OutCall → Migration × Option String
  | .up => match m.migrationUp g with
    | .ok (m', out) => (m', (renderMigration g out).toOption)
    | .error _ => (m, none)
  | .down => match m.migrationDown g with
    | .ok (m', out) => (m', (renderMigration g out).toOption)
    | .error _ => (m, none)
  | .hash => (m, (m.hashValue g).toOption.map toString)

def runCalls (g : Globals) (m : Migration) : List OutCall → Migration × List (Option String)
  | [] => (m, [])
  | c :: rest =>
    let (m1, v) := call g m c
    let (m2, vs) := runCalls g m1 rest
    (m2, v :: vs)

theorem up_pure (g : Globals) (m m' : Migration) (out : List (List Stmt)) (h : m.Stable)
    (he : m.migrationUp g = .ok (m', out)) : m' = m := migrationUp_state_of_stable g m m' out h he

theorem down_pure (g : Globals) (m m' : Migration) (out : List (List Stmt)) (h : m.Stable)
    (he : m.migrationDown g = .ok (m', out)) : m' = m := migrationDown_state_of_stable g m m' out h he

theorem call_state (g : Globals) (m : Migration) (h : m.Stable) (c : OutCall) : (call g m c).1 = m := by
  cases c
  · simp only [call]
    cases he : m.migrationUp g with
    | error e => rfl
    | ok r => obtain ⟨m', out⟩ := r; exact up_pure g m m' out h he
  · simp only [call]
    cases he : m.migrationDown g with
    | error e => rfl
    | ok r => obtain ⟨m', out⟩ := r; exact down_pure g m m' out h he
  · rfl

/-- any call sequence on a stable state: every value is the value of that call on the initial state, and the state
    is unchanged -/
theorem calls_pure (g : Globals) (m : Migration) (h : m.Stable) (cs : List OutCall) :
    runCalls g m cs = (m, cs.map (fun c => (call g m c).2)) := by
  induction cs with
  | nil => rfl
  | cons c rest ih =>
    simp only [runCalls, List.map_cons]
    have hs := call_state g m h c
    rw [show call g m c = ((call g m c).1, (call g m c).2) from rfl, hs]
    simp only
    rw [ih]

theorem arrange_identity (t : Table) (h : t.ColInv) : t.arrange = .ok t := arrange_id t h

/-- output calls are pure on every state that satisfies the map invariant -/
theorem pure_of_inv (g : Globals) (m : Migration) (h : m.ColInv) (cs : List OutCall) :
    runCalls g m cs = (m, cs.map (fun c => (call g m c).2)) :=
  calls_pure g m (stable_of_inv m h) cs

/-- output calls are pure on every state loaded from the empty model, in any number of calls, any dialect -/
theorem loaded_pure (g : Globals) (calls : List (List Stmt)) (m : Migration) (hf : CallsFresh g {} calls)
    (hs : readCalls g {} calls = .ok m) (cs : List OutCall) :
    runCalls g m cs = (m, cs.map (fun c => (call g m c).2)) :=
  pure_of_inv g m (readCalls_inv g calls {} m Migration.inv_empty hf hs).colInv cs

/-- output calls are pure on every state `Sqlize.Diff` leaves behind -/
theorem diffed_pure (g : Globals) (old new : List Stmt) (d : Migration) (hfo : ScriptFresh g {} old)
    (hfn : ScriptFresh g {} new) (hqn : ScriptPos g {} new) (hs : loadAndDiff g old new = .ok d)
    (cs : List OutCall) : runCalls g d cs = (d, cs.map (fun c => (call g d c).2)) :=
  pure_of_inv g d (loadAndDiff_inv' g old new d hfo hfn hqn hs).colInv cs

/-- … unconditionally for scripts without RENAME and without positional adds -/
theorem diffed_pure_simple (g : Globals) (old new : List Stmt) (d : Migration)
    (ho : old.all (fun s => !s.isRename) = true) (hn : new.all (fun s => !s.isRename) = true)
    (hp : new.all (fun s => !s.isPositional) = true) (hs : loadAndDiff g old new = .ok d) (cs : List OutCall) :
    runCalls g d cs = (d, cs.map (fun c => (call g d c).2)) :=
  diffed_pure g old new d (scriptFresh_of_no_rename g {} old ho) (scriptFresh_of_no_rename g {} new hn)
    (scriptPos_of_no_positional g {} new hp) hs cs

-- non-vacuity: a pair of scripts that meets the hypotheses and reaches a diffed state with a dropped, an added
-- and a kept column
def exOld : List Stmt := [.createTable "t" 0 [{ name := "a", typ := "int" }, { name := "x", typ := "int" }] []]
def exNew : List Stmt := [.createTable "t" 0 [{ name := "a", typ := "int" }, { name := "b", typ := "int" }] ["a"]]
example : ∃ d, loadAndDiff {} exOld exNew = .ok d ∧ d.tables.length = 1 := ⟨_, by rfl, by rfl⟩
example : exOld.all (fun s => !s.isRename) = true ∧ exNew.all (fun s => !s.isRename) = true ∧
    exNew.all (fun s => !s.isPositional) = true := by decide

-- non-vacuity: the empty model is stable, and so is any model whose tables have no columns to move
example : ({} : Migration).Stable := by intro t ht; simp at ht

end Sqlize.C08
