/-
  Props/TieUtilsFile.lean — a regenerated tie (written by bin/mktie).  `Facts.utilsFileSkeleton` is extracted from /repo on every run
  (harness/cmd/factgen/skeleton.go, go/ast): for every function of `utils/file.go` and `MigrationFileName` its control skeleton — the control
  statements with their conditions and the selector calls, in source order; assignments and plain expressions are left
  out.  `expectedUtilsFileSkeleton` is the skeleton the hand-written models of `utils/file.go` and `MigrationFileName` (Impl/Files.lean) were written
  against.  A changed condition, a dropped or added branch, loop, early exit or call breaks `utils_file_skeleton_as_modelled` on the next
  run even when no generated input exercises the change; the check then searches for a failing input and reports the
  broken tie either way.
-/
import SqlizeModel.Generated.Skeletons

namespace Sqlize.Tie

def expectedUtilsFileSkeleton : List (String × List String) := [
  ("file:ReadPath", ["call glob", "if err != nil", "then{", "return", "}", "range files", "do{", "call ReadFile", "if err != nil", "then{", "return", "}", "}", "return"]),
  ("file:glob", ["call Stat", "if err != nil", "then{", "return", "}", "if f.IsDir()", "then{", "call ReadDir", "if err != nil", "then{", "return", "}", "range listing", "do{", "if f.IsDir()", "then{", "continue", "}", "call Join", "call Name", "}", "}", "else{", "}", "range files", "do{", "if !strings.HasSuffix(file, suffix)", "then{", "continue", "}", "if strings.HasPrefix(filepath.Base(file), \".\")", "then{", "continue", "}", "}", "return"]),
  ("str:MigrationFileName", ["call Compile", "call ToLower", "call ReplaceAllString", "call Replace", "call Replace", "call Replace", "return", "call Sprintf", "call Format", "call Now"])]

theorem utils_file_skeleton_as_modelled : Facts.utilsFileSkeleton = expectedUtilsFileSkeleton := rfl

end Sqlize.Tie
