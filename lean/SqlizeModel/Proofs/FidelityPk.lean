/-
  Proofs/FidelityPk.lean — **primary-key fidelity of the MySQL reader model for keys declared at table level**
  (`PRIMARY KEY (…)` in CREATE TABLE, `ALTER TABLE … ADD PRIMARY KEY`): along any script the reference engine accepts
  whose column definitions carry no inline PRIMARY KEY (`Stmt.tablePk`), the columns of the model's `primary_key` record
  are exactly the reference table's primary key (no record ⇔ no key), and that record is exactly what the reader builds
  for a key (`pkIndex`).  A third pass over `ReaderMysql.step`, beside `Rel` and `ElemsOK`.

  An inline `PRIMARY KEY` option is kept by the model as an option of the column instead (the two representations of
  a key: recorded finding `pk-inline-vs-table-level`), which is why it is outside this pass.
-/
import SqlizeModel.Proofs.FidelityElems

namespace Sqlize
open Spec

/-- the primary key as the model's index slice records it -/
def pkOf (is : List Index) : List String := ((is.find? (fun i => i.name == pkName)).map (·.cols)).getD []

/-- every record called `primary_key` is the record the reader builds for a table-level key -/
def PkShape (is : List Index) : Prop := ∀ i ∈ is, i.name = pkName → i = pkIndex i.cols

/-- the primary-key part of the simulation relation -/
structure PkOK (R : List (List Index × List ForeignKey)) (db : DB) : Prop where
  view : R.map (fun r => pkOf r.1) = db.map (·.pk)
  shape : ∀ r ∈ R, PkShape r.1

/-- column definitions without an inline PRIMARY KEY -/
def ColDef.noPk (c : ColDef) : Bool := c.opts.all (fun o => o.kind != .primaryKey)

def Stmt.tablePk : Stmt → Bool
  | .createTable _ _ cols _ => cols.all ColDef.noPk
  | .addColumn _ c _ => c.noPk
  | .modifyColumn _ c => c.noPk
  | _ => true

theorem colOf_noPk (c : ColDef) (h : c.noPk = true) : (colOf c).2 = false := by
  have key : ∀ (os : List Opt) (acc : List COpt × Bool), (∀ o ∈ os, o.kind ≠ .primaryKey) →
      (os.foldl (fun (acc : List COpt × Bool) o =>
        match o.kind with
        | .primaryKey => (acc.1, true)
        | .notNull => (acc.1 ++ [.notNull], acc.2)
        | .null => (acc.1 ++ [.null], acc.2)
        | .autoIncrement => (acc.1 ++ [.autoInc], acc.2)
        | .uniqKey => (acc.1 ++ [.uniq], acc.2)
        | .default => (acc.1 ++ [.default (defaultCanon o.dflt)], acc.2)
        | .comment => (acc.1 ++ [.comment o.text], acc.2)
        | .reference => acc) acc).2 = acc.2 := by
    intro os
    induction os with
    | nil => intro acc _; rfl
    | cons o r ih =>
      intro acc hno
      rw [List.foldl_cons, ih _ (fun x hx => hno x (by simp [hx]))]
      have := hno o (by simp)
      cases hk : o.kind <;> simp_all
  have hno : ∀ o ∈ c.opts, o.kind ≠ .primaryKey := by
    intro o ho
    have := List.all_eq_true.mp h o ho
    simpa using this
  have h2 : (optsOf c.opts).2 = false := by
    unfold optsOf
    exact key c.opts ([], false) hno
  show ((optsOf c.opts).2 && !c.stripPk) = false
  rw [h2]
  rfl

theorem pkOf_append_other (is : List Index) (i : Index) (h : i.name ≠ pkName) : pkOf (is ++ [i]) = pkOf is := by
  unfold pkOf
  rw [List.find?_append]
  cases hf : is.find? (fun i => i.name == pkName) with
  | some x => rfl
  | none =>
    have : (i.name == pkName) = false := by simpa using h
    simp [List.find?_cons, this]

theorem pkOf_none_iff (is : List Index) (hne : ∀ i ∈ is, i.cols ≠ []) : pkOf is = [] ↔ ∀ i ∈ is, i.name ≠ pkName := by
  unfold pkOf
  constructor
  · intro h i hi hn
    cases hf : is.find? (fun i => i.name == pkName) with
    | none =>
      have := List.find?_eq_none.mp hf i hi
      simp [hn] at this
    | some x =>
      rw [hf] at h
      exact hne x (List.mem_of_find?_eq_some hf) (by simpa using h)
  · intro h
    have : is.find? (fun i => i.name == pkName) = none := by
      rw [List.find?_eq_none]
      intro i hi
      simpa using h i hi
    rw [this]; rfl

theorem pkOf_filter_other (is : List Index) (n : String) (h : n ≠ pkName) :
    pkOf (is.filter (fun y => y.name != n)) = pkOf is := by
  unfold pkOf
  congr 2
  induction is with
  | nil => rfl
  | cons a r ih =>
    rw [List.filter_cons, List.find?_cons]
    by_cases ha : a.name = pkName
    · have h1 : (a.name != n) = true := by rw [ha]; simpa using fun e => h e.symm
      have h2 : (a.name == pkName) = true := by simp [ha]
      rw [h1, h2]
      simp [List.find?_cons, h2]
    · have h2 : (a.name == pkName) = false := by simpa using ha
      rw [h2]
      split
      · rw [List.find?_cons, h2]; exact ih
      · exact ih

/-- DROP COLUMN's clean-up of the index slice, seen through the key -/
theorem pkOf_strip (c : String) : ∀ (is : List Index), (is.map (·.name)).Nodup →
    pkOf ((is.map (Index.strip c)).filter (fun i => !i.cols.isEmpty)) = (pkOf is).filter (· != c) := by
  intro is
  induction is with
  | nil => intro _; rfl
  | cons a r ih =>
    intro hnd
    rw [List.map_cons, List.nodup_cons] at hnd
    have ihr := ih hnd.2
    rw [List.map_cons, List.filter_cons]
    by_cases ha : a.name = pkName
    · have hpa : pkOf (a :: r) = a.cols := by
        unfold pkOf
        have : (a.name == pkName) = true := by simp [ha]
        simp [List.find?_cons, this]
      rw [hpa]
      by_cases he : (!(Index.strip c a).cols.isEmpty) = true
      · rw [if_pos he]
        unfold pkOf
        have : ((Index.strip c a).name == pkName) = true := by
          show (a.name == pkName) = true
          simp [ha]
        rw [List.find?_cons]
        simp only [this]
        rfl
      · rw [if_neg he]
        have hempty : a.cols.filter (· != c) = [] := by
          have : (Index.strip c a).cols.isEmpty = true := by simpa using he
          simpa [Index.strip] using this
        rw [hempty]
        -- no other record of that name
        have hnone : ∀ x ∈ (r.map (Index.strip c)).filter (fun i => !i.cols.isEmpty), x.name ≠ pkName := by
          intro x hx hn
          obtain ⟨x0, hx0, rfl⟩ := List.mem_map.mp (List.mem_filter.mp hx).1
          apply hnd.1
          rw [ha]
          have : x0.name = pkName := hn
          exact this ▸ List.mem_map_of_mem hx0
        unfold pkOf
        have : ((r.map (Index.strip c)).filter (fun i => !i.cols.isEmpty)).find? (fun i => i.name == pkName) = none := by
          rw [List.find?_eq_none]
          intro x hx
          simpa using hnone x hx
        rw [this]; rfl
    · have hpa : pkOf (a :: r) = pkOf r := by
        unfold pkOf
        have : (a.name == pkName) = false := by simpa using ha
        simp [List.find?_cons, this]
      rw [hpa, ← ihr]
      split
      · unfold pkOf
        have : ((Index.strip c a).name == pkName) = false := by
          show (a.name == pkName) = false
          simpa using ha
        rw [List.find?_cons]
        simp only [this]
      · rfl

theorem pkOf_append_pk (is : List Index) (cols : List String) (h : ∀ i ∈ is, i.name ≠ pkName) :
    pkOf (is ++ [pkIndex cols]) = cols := by
  unfold pkOf
  rw [List.find?_append]
  have : is.find? (fun i => i.name == pkName) = none := by
    rw [List.find?_eq_none]
    intro i hi
    simpa using h i hi
  rw [this]
  rfl

namespace PkOK

variable {R : List (List Index × List ForeignKey)} {db : DB}

theorem empty : PkOK [] [] := ⟨rfl, by intro r hr; cases hr⟩

theorem set (he : PkOK R db) (hnd : (db.map (·.name)).Nodup) {id : Nat} {tb tb' : TableSpec} (hd : db[id]? = some tb)
    (hn : tb'.name = tb.name) (r' : List Index × List ForeignKey) (hv : pkOf r'.1 = tb'.pk) (hs : PkShape r'.1) :
    PkOK (R.set id r') (db.replace tb') := by
  refine ⟨?_, ?_⟩
  · rw [replace_eq_set db hnd id tb tb' hd hn, List.map_set, List.map_set, hv, he.view]
  · intro r hr
    rcases List.mem_or_eq_of_mem_set hr with h | h
    · exact he.shape r h
    · rw [h]; exact hs

theorem replace_same (he : PkOK R db) (hnd : (db.map (·.name)).Nodup) {id : Nat} {tb tb' : TableSpec}
    (hd : db[id]? = some tb) (hn : tb'.name = tb.name) (hp : tb'.pk = tb.pk) : PkOK R (db.replace tb') := by
  refine ⟨?_, he.shape⟩
  rw [replace_eq_set db hnd id tb tb' hd hn, List.map_set, hp]
  have h1 : (db.map (·.pk))[id]? = some tb.pk := by simp [hd]
  rw [set_self_of_getElem? h1]
  exact he.view

theorem append (he : PkOK R db) (r : List Index × List ForeignKey) (tb : TableSpec) (hv : pkOf r.1 = tb.pk)
    (hs : PkShape r.1) : PkOK (R ++ [r]) (db ++ [tb]) := by
  refine ⟨?_, ?_⟩
  · rw [List.map_append, List.map_append, List.map_singleton, List.map_singleton, hv, he.view]
  · intro x hx
    rcases List.mem_append.mp hx with h | h
    · exact he.shape x h
    · rw [List.mem_singleton.mp h]; exact hs

theorem erase (he : PkOK R db) (id : Nat) : PkOK (R.eraseIdx id) (db.eraseIdx id) := by
  refine ⟨?_, fun r hr => he.shape r ((List.eraseIdx_sublist _ _).subset hr)⟩
  rw [← Table.map_eraseIdx', ← Table.map_eraseIdx', he.view]

theorem at_ (he : PkOK R db) {id : Nat} {r : List Index × List ForeignKey} {tb : TableSpec} (hr : R[id]? = some r)
    (hd : db[id]? = some tb) : pkOf r.1 = tb.pk := by
  have := congrArg (fun l => l[id]?) he.view
  simp only [List.getElem?_map, hr, hd, Option.map_some] at this
  exact Option.some.inj this

end PkOK

namespace ReaderMysql

variable {m : Migration} {db db' : DB}

theorem inlinePk_nil (cols : List ColDef) (h : cols.all ColDef.noPk = true) :
    ((cols.map colOf).filter (·.2)) = [] := by
  rw [List.filter_eq_nil_iff]
  intro x hx
  obtain ⟨c, hc, rfl⟩ := List.mem_map.mp hx
  rw [colOf_noPk c (List.all_eq_true.mp h c hc)]
  simp

/-- the commuting square of the primary key, statement by statement -/
theorem step_pk (rc : Bool) (h : Rel m db) (he : ElemsOK m.raws db) (hp : PkOK m.raws db) (s : Stmt)
    (hs : s.elemSafe = true) (htp : s.tablePk = true)
    (hx : exec rc db s = some db') {m' : Migration} (hm : step m s = .ok m') : PkOK m'.raws db' := by
  cases s with
  | createTable t ident cols pk =>
    have ht : t ≠ "" := by simpa [Stmt.elemSafe, Stmt.colSafe, Stmt.table] using hs
    have hnp : cols.all ColDef.noPk = true := htp
    have hin := inlinePk_nil cols hnp
    simp only [exec, hin, List.map_nil, List.isEmpty_nil, Bool.not_true, Bool.and_false, Bool.false_eq_true, if_false,
      List.length_nil, gt_iff_lt, Nat.not_lt_zero, decide_false] at hx
    split at hx
    · cases hx
    · rename_i hc1
      split at hx
      · cases hx
      · have key : db' = db ++ [{ name := t, cols := cols.map (fun c => (colOf c).1), pk := pk }] := by
          by_cases hpe : pk.isEmpty = true
          · have hpk : pk = [] := by simpa using hpe
            subst hpk
            simp only [List.isEmpty_nil, if_true] at hx
            split at hx
            · cases hx
            · simpa [List.map_map, Function.comp_def] using (Option.some.inj hx).symm
          · simp only [hpe, Bool.false_eq_true, if_false] at hx
            split at hx
            · cases hx
            · simpa [List.map_map, Function.comp_def] using (Option.some.inj hx).symm
        subst key
        have hnew : db.has t = false := by simpa using hc1
        unfold step at hm
        obtain ⟨tb0, h0, hm⟩ := bind_ok hm
        obtain ⟨m2, h2, hm⟩ := bind_ok hm
        have htb : tb0.name = t ∧ pkOf tb0.raw.1 = pk ∧ PkShape tb0.raw.1 := by
          by_cases hpe : pk.isEmpty = true
          · rw [if_pos hpe] at h0
            have := pure_ok h0; subst this
            have hpk : pk = [] := by simpa using hpe
            exact ⟨rfl, by rw [hpk]; rfl, by intro i hi; cases hi⟩
          · rw [if_neg hpe] at h0
            have hr := Table.addIndex_raw_fresh (Table.new t .add) tb0 (pkIndex pk) rfl h0
            have hn := (Table.addIndex_inv _ tb0 _ (Table.inv_new _ _) h0).2
            refine ⟨hn, ?_, ?_⟩
            · rw [hr]; rfl
            · rw [hr]
              intro i hi _
              have : i = pkIndex pk := by simpa [Table.new] using hi
              rw [this]; rfl
        obtain ⟨hn0, hv0, hs0⟩ := htb
        have hunk : (m.using_ t).tblIdx.get? tb0.name = none := by
          rw [Migration.using_tblIdx, hn0]; exact h.unknown hnew
        have hm2 : m2 = { (m.using_ t) with tables := (m.using_ t).tables ++ [tb0],
                                             tblIdx := (m.using_ t).tblIdx.set tb0.name (m.using_ t).tables.length } := by
          unfold Migration.addTable at h2
          rw [hunk] at h2
          exact (pure_ok h2).symm
        have hcur : (m2.using_ t).cursor = t := using_cursor m2 ht
        have hk : (m2.using_ t).tblIdx.get? (m2.using_ t).cursor = some (m.using_ t).tables.length := by
          rw [hcur, Migration.using_tblIdx, hm2]
          show AMap.get? (AMap.set _ tb0.name _) t = _
          rw [AMap.get?_set, hn0, if_pos rfl]
        have hraws := addCols_raws cols (m2.using_ t) m' _ hk hm
        rw [hraws, Migration.using_raws, hm2]
        show PkOK (((m.using_ t).tables ++ [tb0]).map Table.raw) _
        rw [List.map_append, List.map_singleton]
        have : (m.using_ t).tables.map Table.raw = m.raws := Migration.using_raws m t
        rw [this]
        exact hp.append tb0.raw _ hv0 hs0
  | dropTable t =>
    simp only [exec] at hx
    split at hx
    · cases hx
    · rename_i hc1
      split at hx
      · cases hx
      · have := Option.some.inj hx; subst this
        have hh : db.has t = true := by simpa using hc1
        have hmemN : t ∈ db.map (·.name) := (has_iff db t).mp hh
        obtain ⟨tb, htb, hname⟩ := List.mem_map.mp hmemN
        obtain ⟨i, hi⟩ := List.mem_iff_getElem?.mp htb
        have hfind := find_of_getElem db h.nodup i tb hi
        rw [hname] at hfind
        obtain ⟨id, tm, hg, hmt, hd, hnm, _, _, _⟩ := h.lookup hfind
        have hact : tm.action = .add := (h.fresh tm (List.mem_of_getElem? hmt)).2
        have hlt : id < m.tables.length := (List.getElem?_eq_some_iff.mp hmt).1
        let m2 : Migration :=
          { cursor := m.cursor, tables := m.tables.eraseIdx id,
            tblIdx := (m.tblIdx.erase t).mapVals (fun v => if v > id then v - 1 else v) }
        have hrm : m.removeTable t = .ok m2 := by
          unfold Migration.removeTable
          rw [hg]
          simp only
          rw [getIdx_of_lt _ _ _ hlt]
          have : m.tables[id] = tm := (List.getElem?_eq_some_iff.mp hmt).2
          simp only [bind, Except.bind, this, hact, beq_self_eq_true, if_true, pure, Except.pure]
          rfl
        unfold step at hm
        simp only [hrm, bind, Except.bind, pure, Except.pure] at hm
        have := Except.ok.inj hm; subst this
        rw [Migration.using_raws, ← hname, filter_name_eq_eraseIdx db h.nodup id tb hd]
        show PkOK ((m.tables.eraseIdx id).map Table.raw) _
        rw [← Table.map_eraseIdx']
        exact hp.erase id
  | addColumn t c pos =>
    have ht : t ≠ "" := by simpa [Stmt.elemSafe, Stmt.colSafe, Stmt.table] using hs
    have hnp : (colOf c).2 = false := colOf_noPk c htp
    simp only [exec] at hx
    obtain ⟨tb, hf, hx⟩ := exec_find hx
    obtain ⟨id, tm, hg, hmt, hd, _, _, htn, _⟩ := h.lookup hf
    have hdb : ∃ tb', db' = db.replace tb' ∧ tb'.name = tb.name ∧ tb'.pk = tb.pk := by
      split at hx
      · cases hx
      · split at hx
        · cases hx
        · split at hx
          · cases hx
          · refine ⟨_, (Option.some.inj hx).symm, rfl, ?_⟩
            simp [hnp]
    obtain ⟨tb', hdb, hn', hpk'⟩ := hdb
    subst hdb
    unfold step at hm
    obtain ⟨m1, h1, hm⟩ := bind_ok hm
    have h1r : m1.raws = m.raws ∧ m1.tblIdx = m.tblIdx := by
      cases hpp : pos.toPos? with
      | none => rw [hpp] at h1; have := pure_ok h1; subst this; exact ⟨rfl, rfl⟩
      | some p =>
        rw [hpp] at h1
        obtain ⟨a, b, _⟩ := Migration.setColumnPosition_raws m m1 t p h1
        exact ⟨a, b⟩
    have hres : (m1.using_ t).resolve "" = t := by
      unfold Migration.resolve; simp [using_cursor m1 ht]
    obtain ⟨a, _, _⟩ := Migration.addColumn_raws (m1.using_ t) m' "" c.toColumn true
      (id := id) (by rw [hres, Migration.using_tblIdx, h1r.2]; exact hg) hm
    rw [a, Migration.using_raws, h1r.1]
    exact hp.replace_same h.nodup hd hn' hpk'
  | dropColumn t c =>
    have ht : t ≠ "" := by simpa [Stmt.elemSafe, Stmt.colSafe, Stmt.table] using hs
    simp only [exec] at hx
    obtain ⟨tb, hf, hx⟩ := exec_find hx
    split at hx
    · cases hx
    · rename_i hc1
      split at hx
      · cases hx
      · have := Option.some.inj hx; subst this
        have hcol : tb.hasCol c = true := by simpa using hc1
        obtain ⟨id, tm, hg, hmt, hd, _, hcols, htn, _⟩ := h.lookup hf
        have hmem := List.mem_of_getElem? hmt
        have hi := h.inv.each tm hmem
        have hcm : c ∈ tm.colNames := by rw [hcols]; exact (hasCol_iff tb c).mp hcol
        obtain ⟨ci, hci⟩ := List.mem_iff_getElem?.mp hcm
        have hgc := (hi.cols.get c ci).mpr hci
        obtain ⟨col, hcol', _⟩ : ∃ col, tm.cols[ci]? = some col ∧ col.name = c := by
          have : (tm.cols.map (·.name))[ci]? = some c := hci
          rw [List.getElem?_map] at this
          cases hcc : tm.cols[ci]? with
          | none => rw [hcc] at this; cases this
          | some col => rw [hcc] at this; exact ⟨col, rfl, by simpa using this⟩
        have hadd : col.action = .add := (h.fresh tm hmem).1 col (List.mem_of_getElem? hcol')
        have hr := Migration.raws_getElem m hmt
        have hfr := he.fresh _ (List.mem_of_getElem? hr)
        have hpv : pkOf tm.idxs = tb.pk := hp.at_ hr hd
        have hsh : PkShape tm.idxs := hp.shape _ (List.mem_of_getElem? hr)
        unfold step at hm
        obtain ⟨m1, h1, hm⟩ := bind_ok hm
        have := pure_ok hm; subst this
        unfold Migration.removeColumn at h1
        rw [Rel.resolve_ne m ht] at h1
        obtain ⟨tm', hft, hm1⟩ := Migration.edit_inv m m1 t _ _ id tm hg hmt h1
        subst hm1
        have hraw := Table.removeColumn_raw tm tm' c ci col hgc hcol' hadd (fun i hi' => (hfr.1 i hi').ne) hft
        rw [Migration.using_raws, Migration.raws_set, hraw]
        refine hp.set h.nodup hd (by rfl) _ ?_ ?_
        · show pkOf ((tm.idxs.map (Index.strip c)).filter (fun i => !i.cols.isEmpty)) = tb.pk.filter (· != c)
          rw [pkOf_strip c tm.idxs hi.idxs.nodup, hpv]
        · intro x hx' hxn
          have hx' : x ∈ (tm.idxs.map (Index.strip c)).filter (fun i => !i.cols.isEmpty) := hx'
          obtain ⟨x0, hx0, rfl⟩ := List.mem_map.mp (List.mem_filter.mp hx').1
          have h0 : x0 = pkIndex x0.cols := hsh x0 hx0 hxn
          show Index.strip c x0 = pkIndex (Index.strip c x0).cols
          rw [h0]
          rfl
  | modifyColumn t c =>
    have ht : t ≠ "" := by simpa [Stmt.elemSafe, Stmt.colSafe, Stmt.table] using hs
    have hnp : (colOf c).2 = false := colOf_noPk c htp
    simp only [exec] at hx
    obtain ⟨tb, hf, hx⟩ := exec_find hx
    obtain ⟨id, tm, hg, hmt, hd, _, _, htn, _⟩ := h.lookup hf
    have hdb : ∃ tb', db' = db.replace tb' ∧ tb'.name = tb.name ∧ tb'.pk = tb.pk := by
      split at hx
      · cases hx
      · split at hx
        · cases hx
        · refine ⟨_, (Option.some.inj hx).symm, rfl, ?_⟩
          simp [hnp]
    obtain ⟨tb', hdb, hn', hpk'⟩ := hdb
    subst hdb
    unfold step at hm
    obtain ⟨m1, h1, hm⟩ := bind_ok hm
    obtain ⟨a1, b1, _⟩ := Migration.addColumn_raws m m1 t _ true (id := id) (by rw [Rel.resolve_ne m ht]; exact hg) h1
    have hres : (m1.using_ t).resolve "" = t := by
      unfold Migration.resolve; simp [using_cursor m1 ht]
    obtain ⟨a2, _, _⟩ := Migration.addColumn_raws (m1.using_ t) m' "" c.toColumn true
      (id := id) (by rw [hres, Migration.using_tblIdx, b1]; exact hg) hm
    rw [a2, Migration.using_raws, a1]
    exact hp.replace_same h.nodup hd hn' hpk'
  | renameColumn t o n => simp [Stmt.elemSafe, Stmt.colSafe] at hs
  | addPrimaryKey t cols =>
    have ht : t ≠ "" := by simpa [Stmt.elemSafe, Stmt.colSafe, Stmt.table] using hs
    simp only [exec] at hx
    obtain ⟨tb, hf, hx⟩ := exec_find hx
    split at hx
    · cases hx
    · rename_i hc1
      have := Option.some.inj hx; subst this
      simp only [Bool.or_eq_true, not_or] at hc1
      have hpkE : tb.pk = [] := by
        have := hc1.1.1.1
        simpa using this
      obtain ⟨id, tm, hg, hmt, hd, _, _, htn, _⟩ := h.lookup hf
      have hi := h.inv.each tm (List.mem_of_getElem? hmt)
      have hr := Migration.raws_getElem m hmt
      have hfr := he.fresh _ (List.mem_of_getElem? hr)
      have hpv : pkOf tm.idxs = tb.pk := hp.at_ hr hd
      have hsh : PkShape tm.idxs := hp.shape _ (List.mem_of_getElem? hr)
      have hnone : ∀ i ∈ tm.idxs, i.name ≠ pkName :=
        (pkOf_none_iff tm.idxs (fun i hi' => (hfr.1 i hi').ne)).mp (hpv.trans hpkE)
      have hgi : tm.idxIdx.get? (pkIndex cols).name = none := by
        apply (hi.idxs.get?_none_iff _).mpr
        intro hmem
        obtain ⟨x, hx', hxn⟩ := List.mem_map.mp hmem
        exact hnone x hx' hxn
      unfold step at hm
      obtain ⟨m1, h1, hm⟩ := bind_ok hm
      have := pure_ok hm; subst this
      unfold Migration.addIndex at h1
      rw [Rel.resolve_ne m ht] at h1
      obtain ⟨tm', hft, hm1⟩ := Migration.edit_inv m m1 t _ _ id tm hg hmt h1
      subst hm1
      rw [Migration.using_raws, Migration.raws_set, Table.addIndex_raw_fresh tm tm' _ hgi hft]
      refine hp.set h.nodup hd (by rfl) _ ?_ ?_
      · exact pkOf_append_pk tm.idxs cols hnone
      · intro x hx' hxn
        have hx' : x ∈ tm.idxs ++ [pkIndex cols] := hx'
        rcases List.mem_append.mp hx' with h' | h'
        · exact hsh x h' hxn
        · rw [List.mem_singleton.mp h']; rfl
  | dropPrimaryKey t => simp [Stmt.elemSafe] at hs
  | addFk t name col rt rc' =>
    have ht : t ≠ "" := by simpa [Stmt.elemSafe, Stmt.colSafe, Stmt.table] using hs
    simp only [exec] at hx
    obtain ⟨tb, hf, hx⟩ := exec_find hx
    split at hx
    · cases hx
    · rename_i hc1
      split at hx
      · cases hx
      · have := Option.some.inj hx; subst this
        obtain ⟨id, tm, hg, hmt, hd, _, _, htn, _⟩ := h.lookup hf
        have hi := h.inv.each tm (List.mem_of_getElem? hmt)
        have hr := Migration.raws_getElem m hmt
        obtain ⟨hvi, hvf⟩ := he.at_ hr hd
        have hvf : fkSpecOf tm.fks = tb.fks := hvf
        have hpv : pkOf tm.idxs = tb.pk := hp.at_ hr hd
        have hsh : PkShape tm.idxs := hp.shape _ (List.mem_of_getElem? hr)
        have hfreshName : name ∉ tm.fks.map (·.name) := by
          rw [← fkSpecOf_names, hvf]
          intro hmem
          obtain ⟨x, hx', hxn⟩ := List.mem_map.mp hmem
          apply hc1
          simp only [Bool.or_eq_true]
          right
          exact List.any_eq_true.mpr ⟨x, hx', by simpa using hxn⟩
        have hgf : tm.fkIdx.get? name = none := (hi.fks.get?_none_iff name).mpr hfreshName
        unfold step at hm
        obtain ⟨m1, h1, hm⟩ := bind_ok hm
        have := pure_ok hm; subst this
        unfold Migration.addForeignKey at h1
        simp only at h1
        rw [Rel.resolve_ne m ht] at h1
        obtain ⟨tm', hft, hm1⟩ := Migration.edit_inv m m1 t _ _ id tm hg hmt h1
        subst hm1
        have hteq : (t == "") = false := by simpa using ht
        simp only [hteq, Bool.false_eq_true, if_false] at hft
        rw [Migration.using_raws, Migration.using_raws, Migration.raws_set,
          Table.addForeignKey_raw_fresh tm tm' _ hgf hft]
        exact hp.set h.nodup hd (by rfl) _ hpv hsh
  | dropFk t name =>
    have ht : t ≠ "" := by simpa [Stmt.elemSafe, Stmt.colSafe, Stmt.table] using hs
    simp only [exec] at hx
    obtain ⟨tb, hf, hx⟩ := exec_find hx
    split at hx
    · cases hx
    · rename_i hc1
      have := Option.some.inj hx; subst this
      obtain ⟨id, tm, hg, hmt, hd, _, _, htn, _⟩ := h.lookup hf
      have hi := h.inv.each tm (List.mem_of_getElem? hmt)
      have hr := Migration.raws_getElem m hmt
      have hfr := he.fresh _ (List.mem_of_getElem? hr)
      obtain ⟨hvi, hvf⟩ := he.at_ hr hd
      have hvf : fkSpecOf tm.fks = tb.fks := hvf
      have hpv : pkOf tm.idxs = tb.pk := hp.at_ hr hd
      have hsh : PkShape tm.idxs := hp.shape _ (List.mem_of_getElem? hr)
      have hmemName : name ∈ tm.fks.map (·.name) := by
        rw [← fkSpecOf_names, hvf]
        have : tb.fks.any (·.name == name) = true := by simpa using hc1
        obtain ⟨x, hx', hxn⟩ := List.any_eq_true.mp this
        exact List.mem_map.mpr ⟨x, hx', by simpa using hxn⟩
      obtain ⟨j, hj⟩ := List.mem_iff_getElem?.mp hmemName
      have hgf := (hi.fks.get name j).mpr hj
      obtain ⟨f, hfj, hfn⟩ : ∃ f, tm.fks[j]? = some f ∧ f.name = name := by
        rw [List.getElem?_map] at hj
        cases hcc : tm.fks[j]? with
        | none => rw [hcc] at hj; cases hj
        | some x => rw [hcc] at hj; exact ⟨x, rfl, by simpa using hj⟩
      have hfa : f.action = .add := hfr.2 f (List.mem_of_getElem? hfj)
      unfold step at hm
      obtain ⟨m1, h1, hm⟩ := bind_ok hm
      have := pure_ok hm; subst this
      unfold Migration.removeForeignKey at h1
      rw [Rel.resolve_ne m ht] at h1
      obtain ⟨tm', hft, hm1⟩ := Migration.edit_inv m m1 t _ _ id tm hg hmt h1
      subst hm1
      rw [Migration.using_raws, Migration.raws_set, Table.removeForeignKey_raw_hit tm tm' name j f hgf hfj hfa hft]
      exact hp.set h.nodup hd (by rfl) _ hpv hsh
  | renameIndex t o n => simp [Stmt.elemSafe, Stmt.colSafe] at hs
  | createIndex t name cols uniq u =>
    have hs' : t ≠ "" ∧ name ≠ pkName := by simpa [Stmt.elemSafe] using hs
    obtain ⟨ht, hnpk⟩ := hs'
    simp only [exec] at hx
    obtain ⟨tb, hf, hx⟩ := exec_find hx
    split at hx
    · cases hx
    · rename_i hc1
      have := Option.some.inj hx; subst this
      simp only [Bool.or_eq_true, not_or] at hc1
      obtain ⟨id, tm, hg, hmt, hd, _, _, htn, _⟩ := h.lookup hf
      have hi := h.inv.each tm (List.mem_of_getElem? hmt)
      have hr := Migration.raws_getElem m hmt
      obtain ⟨hvi, hvf⟩ := he.at_ hr hd
      have hvi : idxSpecOf tm.idxs = tb.idxs := hvi
      have hpv : pkOf tm.idxs = tb.pk := hp.at_ hr hd
      have hsh : PkShape tm.idxs := hp.shape _ (List.mem_of_getElem? hr)
      have hfreshName : name ∉ tm.idxs.map (·.name) := by
        intro hmem
        have : name ∈ (idxSpecOf tm.idxs).map (·.name) := by
          rw [idxSpecOf_names]
          exact List.mem_filter.mpr ⟨hmem, by simpa using hnpk⟩
        rw [hvi] at this
        obtain ⟨x, hx', hxn⟩ := List.mem_map.mp this
        apply hc1.1.1
        exact List.any_eq_true.mpr ⟨x, hx', by simpa using hxn⟩
      have hgi : tm.idxIdx.get? name = none := (hi.idxs.get?_none_iff name).mpr hfreshName
      unfold step at hm
      obtain ⟨m1, h1, hm⟩ := bind_ok hm
      have := pure_ok hm; subst this
      unfold Migration.addIndex at h1
      rw [Rel.resolve_ne m ht] at h1
      obtain ⟨tm', hft, hm1⟩ := Migration.edit_inv m m1 t _ _ id tm hg hmt h1
      subst hm1
      rw [Migration.using_raws, Migration.raws_set, Table.addIndex_raw_fresh tm tm' _ hgi hft]
      refine hp.set h.nodup hd (by rfl) _ ?_ ?_
      · show pkOf (tm.idxs ++ [_]) = tb.pk
        rw [pkOf_append_other _ _ hnpk]; exact hpv
      · intro x hx' hxn
        have hx' : x ∈ tm.idxs ++ [_] := hx'
        rcases List.mem_append.mp hx' with h' | h'
        · exact hsh x h' hxn
        · rw [List.mem_singleton.mp h'] at hxn
          exact absurd hxn hnpk
  | dropIndex t name =>
    have ht : t ≠ "" := by simpa [Stmt.elemSafe, Stmt.colSafe, Stmt.table] using hs
    simp only [exec] at hx
    obtain ⟨tb, hf, hx⟩ := exec_find hx
    split at hx
    · cases hx
    · rename_i hc1
      have := Option.some.inj hx; subst this
      obtain ⟨id, tm, hg, hmt, hd, _, _, htn, _⟩ := h.lookup hf
      have hi := h.inv.each tm (List.mem_of_getElem? hmt)
      have hr := Migration.raws_getElem m hmt
      have hfr := he.fresh _ (List.mem_of_getElem? hr)
      obtain ⟨hvi, hvf⟩ := he.at_ hr hd
      have hvi : idxSpecOf tm.idxs = tb.idxs := hvi
      have hpv : pkOf tm.idxs = tb.pk := hp.at_ hr hd
      have hsh : PkShape tm.idxs := hp.shape _ (List.mem_of_getElem? hr)
      have hmemF : name ∈ (tm.idxs.map (·.name)).filter (· != pkName) := by
        have : tb.idxs.any (·.name == name) = true := by simpa using hc1
        obtain ⟨x, hx', hxn⟩ := List.any_eq_true.mp this
        have : name ∈ (idxSpecOf tm.idxs).map (·.name) := by
          rw [hvi]; exact List.mem_map.mpr ⟨x, hx', by simpa using hxn⟩
        rw [idxSpecOf_names] at this
        exact this
      have hmemName := (List.mem_filter.mp hmemF).1
      have hnpk : name ≠ pkName := by simpa using (List.mem_filter.mp hmemF).2
      obtain ⟨j, hj⟩ := List.mem_iff_getElem?.mp hmemName
      have hgi := (hi.idxs.get name j).mpr hj
      obtain ⟨x, hxj, hxn⟩ : ∃ x, tm.idxs[j]? = some x ∧ x.name = name := by
        rw [List.getElem?_map] at hj
        cases hcc : tm.idxs[j]? with
        | none => rw [hcc] at hj; cases hj
        | some x => rw [hcc] at hj; exact ⟨x, rfl, by simpa using hj⟩
      have hxa : x.action = .add := (hfr.1 x (List.mem_of_getElem? hxj)).add
      unfold step at hm
      obtain ⟨m1, h1, hm⟩ := bind_ok hm
      have := pure_ok hm; subst this
      unfold Migration.removeIndex at h1
      rw [Rel.resolve_ne m ht] at h1
      obtain ⟨tm', hft, hm1⟩ := Migration.edit_inv m m1 t _ _ id tm hg hmt h1
      subst hm1
      rw [Migration.using_raws, Migration.raws_set, Table.removeIndex_raw_hit tm tm' name j x hgi hxj hxa hft]
      refine hp.set h.nodup hd (by rfl) _ ?_ ?_
      · show pkOf (tm.idxs.eraseIdx j) = tb.pk
        rw [eraseIdx_eq_filter_name (fun y : Index => y.name) tm.idxs j x hi.idxs.nodup hxj, hxn,
          pkOf_filter_other _ _ hnpk]
        exact hpv
      · exact fun y hy => hsh y ((List.eraseIdx_sublist _ _).subset hy)
  | commentOn t c text => simp [Stmt.elemSafe, Stmt.colSafe] at hs
  | alterType t c typ => simp [Stmt.elemSafe, Stmt.colSafe] at hs
  | setDefault t c d => simp [Stmt.elemSafe, Stmt.colSafe] at hs
  | dropNotNull t c => simp [Stmt.elemSafe, Stmt.colSafe] at hs

theorem run_pk (rc : Bool) (ss : List Stmt) : ∀ (m : Migration) (db db' : DB), Rel m db → ElemsOK m.raws db →
    PkOK m.raws db → ss.all Stmt.elemSafe = true → ss.all Stmt.tablePk = true → execAll rc db ss = some db' →
    ∃ m', run m ss = .ok m' ∧ Rel m' db' ∧ ElemsOK m'.raws db' ∧ PkOK m'.raws db' := by
  induction ss with
  | nil =>
    intro m db db' h he hp _ _ hx
    unfold execAll at hx
    have := Option.some.inj hx; subst this
    exact ⟨m, rfl, h, he, hp⟩
  | cons s rest ih =>
    intro m db db' h he hp hs ht hx
    simp only [List.all_cons, Bool.and_eq_true] at hs ht
    unfold execAll at hx
    cases h1 : exec rc db s with
    | none => rw [h1] at hx; cases hx
    | some db1 =>
      rw [h1] at hx
      obtain ⟨m1, hm1, hr1⟩ := step_rel rc h s (Stmt.colSafe_of_elemSafe s hs.1) h1
      have he1 := step_elems rc h he s hs.1 h1 hm1
      have hp1 := step_pk rc h he hp s hs.1 ht.1 h1 hm1
      obtain ⟨m', hm', hr', he', hp'⟩ := ih m1 db1 db' hr1 he1 hp1 hs.2 ht.2 hx
      refine ⟨m', ?_, hr', he', hp'⟩
      unfold run
      simp only [hm1, bind, Except.bind]
      exact hm'

/-- **C05, primary keys declared at table level.**  For every script (any length, vocabulary of `Stmt.elemSafe`, column
    definitions without an inline PRIMARY KEY) the reference engine accepts, table by table the columns of the loaded
    model's `primary_key` record are exactly the reference table's primary key — no record when the table has none — and
    that record is exactly the record the reader builds for a key. -/
theorem fidelity_pk (rc : Bool) (ss : List Stmt) (db : DB) (hs : ss.all Stmt.elemSafe = true)
    (ht : ss.all Stmt.tablePk = true) (he : execAll rc [] ss = some db) :
    ∃ m, run {} ss = .ok m ∧ m.tables.map (fun t => pkOf t.idxs) = db.map (·.pk) ∧
      ∀ t ∈ m.tables, PkShape t.idxs := by
  obtain ⟨m, hm, _, _, hp⟩ := run_pk rc ss {} [] db Rel.empty ElemsOK.empty PkOK.empty hs ht he
  refine ⟨m, hm, ?_, ?_⟩
  · have := hp.view
    unfold Migration.raws at this
    rw [List.map_map] at this
    exact this
  · intro t htm
    exact hp.shape _ (List.mem_map_of_mem (f := Table.raw) htm)

end ReaderMysql
end Sqlize
