/-
  Proofs/Reach.lean — the states the public API reaches: loading (in any number of calls) and `Diff` from the empty
  model.  Every such state satisfies the invariant, hence is arrange-stable; scripts without RENAME need no side
  condition at all.
-/
import SqlizeModel.Proofs.ReaderSafe

namespace Sqlize

def Stmt.isRename : Stmt → Bool
  | .renameColumn .. => true
  | .renameIndex .. => true
  | _ => false

theorem renameFresh_of_not_rename (nm : String → String) (m : Migration) (s : Stmt) (h : s.isRename = false) :
    renameFresh nm m s := by
  cases s <;> first | trivial | (simp [Stmt.isRename] at h)

/-- a script without RENAME statements meets the side condition in every state -/
theorem renameFresh_of_no_rename (nm : String → String) (step : Migration → Stmt → M Migration) (ss : List Stmt)
    (h : ss.all (fun s => !s.isRename) = true) : ∀ m, RenameFresh nm step m ss := by
  induction ss with
  | nil => intro m; trivial
  | cons s rest ih =>
    intro m
    simp only [List.all_cons, Bool.and_eq_true, Bool.not_eq_true'] at h
    exact ⟨renameFresh_of_not_rename nm m s h.1, fun m1 _ => ih h.2 m1⟩

theorem scriptFresh_of_no_rename (g : Globals) (m : Migration) (ss : List Stmt)
    (h : ss.all (fun s => !s.isRename) = true) : ScriptFresh g m ss := by
  unfold ScriptFresh
  cases g.dialect with
  | mysql => exact renameFresh_of_no_rename _ _ ss h m
  | postgres => exact renameFresh_of_no_rename _ _ ss h m
  | sqlite => trivial

/-- side condition for a sequence of `FromString` calls -/
def CallsFresh (g : Globals) : Migration → List (List Stmt) → Prop
  | _, [] => True
  | m, c :: rest => ScriptFresh g m c ∧ ∀ m1, readScript g m c = .ok m1 → CallsFresh g m1 rest

/-- loading in several calls -/
def readCalls (g : Globals) (m : Migration) : List (List Stmt) → M Migration
  | [] => pure m
  | c :: rest => do
    let m' ← readScript g m c
    readCalls g m' rest

theorem readCalls_inv (g : Globals) (cs : List (List Stmt)) : ∀ (m m' : Migration), m.Inv → CallsFresh g m cs →
    readCalls g m cs = .ok m' → m'.Inv := by
  induction cs with
  | nil => intro m m' h _ hs; unfold readCalls at hs; have := pure_ok hs; subst this; exact h
  | cons c rest ih =>
    intro m m' h hf hs
    unfold readCalls at hs
    obtain ⟨m1, h1, hs⟩ := bind_ok hs
    exact ih m1 m' (readScript_inv g m m1 c h hf.1 h1) (hf.2 m1 h1) hs

theorem readCalls_noPanic (g : Globals) (cs : List (List Stmt)) : ∀ (m : Migration), m.Inv → CallsFresh g m cs →
    NoPanic (readCalls g m cs) := by
  induction cs with
  | nil => intro m _ _; exact noPanic_pure _
  | cons c rest ih =>
    intro m h hf
    unfold readCalls
    exact noPanic_bind (readScript_noPanic g m c h hf.1)
      (fun m1 h1 => ih m1 (readScript_inv g m m1 c h hf.1 h1) (hf.2 m1 h1))

/-- **the state `Sqlize.Diff` leaves satisfies the invariant** -/
theorem loadAndDiff_inv (g : Globals) (old new : List Stmt) (d : Migration) (hfo : ScriptFresh g {} old)
    (hfn : ScriptFresh g {} new) (hp : ∀ n, readScript g {} new = .ok n → n.NoPending)
    (hs : loadAndDiff g old new = .ok d) : d.Inv := by
  unfold loadAndDiff at hs
  obtain ⟨o, ho, hs⟩ := bind_ok hs
  obtain ⟨n, hn, hs⟩ := bind_ok hs
  exact Migration.diff_inv g.dialect n o d (readScript_inv g {} n new Migration.inv_empty hfn hn)
    (readScript_inv g {} o old Migration.inv_empty hfo ho) (hp n hn) hs

end Sqlize
