/-
  Proofs/NInv.lean — the generic invariant of a Go slice of named records and its `map[string]int` of positions
  (`Columns`/`columnIndexes`, `Indexes`/`indexIndexes`, `ForeignKeys`/`indexForeignKeys`, `Tables`/`tableIndexes`):
  names are unique, map keys are unique, and the map sends a name to `i` exactly when the `i`-th record has that name.

  The five ways package `element` edits such a pair are shown to preserve it:
    append a fresh name · overwrite in place under the same name · delete + shift down · rename to a fresh name ·
    move the last record forward (`swapOrder`).
-/
import SqlizeModel.Proofs.AMap

namespace Sqlize

structure NInv (names : List String) (m : AMap) : Prop where
  nodup : names.Nodup
  keysNodup : (AMap.keys m).Nodup
  get : ∀ n i, m.get? n = some i ↔ names[i]? = some n

namespace NInv

theorem nil : NInv [] [] := ⟨List.nodup_nil, List.nodup_nil, by intro n i; simp [AMap.get?_nil]⟩

variable {names : List String} {m : AMap}

theorem get?_none_iff (h : NInv names m) (n : String) : m.get? n = none ↔ n ∉ names := by
  constructor
  · intro hn hmem
    obtain ⟨i, hi⟩ := List.mem_iff_getElem?.mp hmem
    have := (h.get n i).mpr hi
    rw [hn] at this
    cases this
  · intro hn
    cases hg : m.get? n with
    | none => rfl
    | some i =>
      exact absurd (List.mem_iff_getElem?.mpr ⟨i, (h.get n i).mp hg⟩) hn

theorem lt_length (h : NInv names m) {n : String} {i : Nat} (hg : m.get? n = some i) : i < names.length := by
  have := (h.get n i).mp hg
  exact (List.getElem?_eq_some_iff.mp this).1

theorem getElem_of_get (h : NInv names m) {n : String} {i : Nat} (hg : m.get? n = some i) :
    ∃ hi : i < names.length, names[i] = n := List.getElem?_eq_some_iff.mp ((h.get n i).mp hg)

/-- positions are injective: two names at the same position are equal -/
theorem name_inj (h : NInv names m) {a b : String} {i : Nat} (ha : m.get? a = some i) (hb : m.get? b = some i) :
    a = b := by
  have h1 := (h.get a i).mp ha
  have h2 := (h.get b i).mp hb
  rw [h1] at h2
  exact Option.some.inj h2

/-- `append(slice, rec); m[rec.Name] = len(slice)` for a name the map does not hold -/
theorem append (h : NInv names m) (n : String) (hn : m.get? n = none) :
    NInv (names ++ [n]) (m.set n names.length) := by
  have hnot : n ∉ names := (h.get?_none_iff n).mp hn
  have hk : n ∉ AMap.keys m := (AMap.get?_eq_none_iff m n).mp hn
  refine ⟨?_, ?_, ?_⟩
  · rw [List.nodup_append]
    refine ⟨h.nodup, (by simp), ?_⟩
    intro a ha b hb
    simp only [List.mem_singleton] at hb
    subst hb
    intro e; subst e; exact hnot ha
  · rw [AMap.keys_set, if_neg hk, List.nodup_append]
    refine ⟨h.keysNodup, (by simp), ?_⟩
    intro a ha b hb
    simp only [List.mem_singleton] at hb
    subst hb
    intro e; subst e; exact hk ha
  · intro k i
    rw [AMap.get?_set]
    by_cases hkn : k = n
    · subst hkn
      rw [if_pos rfl]
      constructor
      · intro e
        have : i = names.length := (Option.some.inj e).symm
        subst this
        simp
      · intro e
        by_cases hi : i < names.length
        · rw [List.getElem?_append_left hi] at e
          exact absurd (List.mem_iff_getElem?.mpr ⟨i, e⟩) hnot
        · have hge : names.length ≤ i := Nat.le_of_not_lt hi
          rw [List.getElem?_append_right hge] at e
          have : i - names.length = 0 := by
            cases hd : i - names.length with
            | zero => rfl
            | succ d => rw [hd] at e; simp at e
          have : i = names.length := by omega
          rw [this]
    · rw [if_neg hkn, h.get k i]
      by_cases hi : i < names.length
      · rw [List.getElem?_append_left hi]
      · have hge : names.length ≤ i := Nat.le_of_not_lt hi
        rw [List.getElem?_append_right hge, List.getElem?_eq_none hge]
        constructor
        · intro e; cases e
        · intro e
          cases hd : i - names.length with
          | zero => rw [hd] at e; simp at e; exact absurd e.symm hkn
          | succ d => rw [hd] at e; simp at e

/-- `slice[i] = rec` where `rec` carries the name already at `i`: the names do not change -/
theorem set_same (h : NInv names m) {n : String} {i : Nat} (hg : m.get? n = some i) : names.set i n = names := by
  obtain ⟨hi, he⟩ := h.getElem_of_get hg
  rw [← he]
  exact List.set_getElem_self hi


/-- `delete(m, n)`; cut the record out of the slice; shift the positions behind it down by one -/
theorem eraseShift (h : NInv names m) {n : String} {id : Nat} (hg : m.get? n = some id) :
    NInv (names.eraseIdx id) ((m.erase n).mapVals (fun v => if v > id then v - 1 else v)) := by
  refine ⟨h.nodup.sublist (List.eraseIdx_sublist _ _), ?_, ?_⟩
  · rw [AMap.keys_mapVals, AMap.keys_erase]
    exact h.keysNodup.sublist List.filter_sublist
  · intro k i
    rw [AMap.get?_mapVals, AMap.get?_erase, List.getElem?_eraseIdx]
    by_cases hkn : k = n
    · subst hkn
      rw [if_pos rfl]
      constructor
      · intro e; cases e
      · intro e
        exfalso
        by_cases hi : i < id
        · rw [if_pos hi] at e
          have := (h.get k i).mpr e
          rw [hg] at this
          have : id = i := Option.some.inj this
          omega
        · rw [if_neg hi] at e
          have := (h.get k (i + 1)).mpr e
          rw [hg] at this
          have : id = i + 1 := Option.some.inj this
          omega
    · rw [if_neg hkn]
      constructor
      · intro e
        cases hv : m.get? k with
        | none => rw [hv] at e; cases e
        | some v =>
          rw [hv] at e
          have hne : v ≠ id := by
            intro hh; subst hh
            exact hkn (h.name_inj hv hg)
          have hnm := (h.get k v).mp hv
          have hvi : (if v > id then v - 1 else v) = i := Option.some.inj e
          by_cases hgt : v > id
          · rw [if_pos hgt] at hvi
            have : ¬ i < id := by omega
            rw [if_neg this]
            have : i + 1 = v := by omega
            rw [this]; exact hnm
          · rw [if_neg hgt] at hvi
            have : i < id := by omega
            rw [if_pos this, ← hvi]; exact hnm
      · intro e
        by_cases hi : i < id
        · rw [if_pos hi] at e
          rw [(h.get k i).mpr e]
          have : ¬ i > id := by omega
          simp only [Option.map_some, if_neg this]
        · rw [if_neg hi] at e
          rw [(h.get k (i + 1)).mpr e]
          have : i + 1 > id := by omega
          simp only [Option.map_some, if_pos this]
          rfl

theorem nodup_set_fresh {l : List String} (hl : l.Nodup) (i : Nat) (x : String) (hx : x ∉ l) : (l.set i x).Nodup := by
  induction l generalizing i with
  | nil => simp
  | cons a r ih =>
    have hr : r.Nodup := (List.nodup_cons.mp hl).2
    have har : a ∉ r := (List.nodup_cons.mp hl).1
    have hxa : x ≠ a := fun e => hx (e ▸ List.mem_cons_self)
    have hxr : x ∉ r := fun e => hx (List.mem_cons_of_mem _ e)
    cases i with
    | zero =>
      simp only [List.set_cons_zero, List.nodup_cons]
      exact ⟨hxr, hr⟩
    | succ j =>
      simp only [List.set_cons_succ, List.nodup_cons]
      refine ⟨?_, ih hr j hxr⟩
      intro hmem
      rcases List.mem_or_eq_of_mem_set hmem with h1 | h1
      · exact har h1
      · exact hxa h1.symm

/-- `slice[id].Name = new; m[new] = id; delete(m, old)` for a fresh `new` -/
theorem rename (h : NInv names m) {old new : String} {id : Nat} (hg : m.get? old = some id) (hnew : new ∉ names) :
    NInv (names.set id new) ((m.set new id).erase old) := by
  have hnk : new ∉ AMap.keys m := (AMap.get?_eq_none_iff m new).mp ((h.get?_none_iff new).mpr hnew)
  obtain ⟨hid, hname⟩ := h.getElem_of_get hg
  have hne : new ≠ old := by
    intro e; subst e
    exact hnew (hname ▸ List.getElem_mem hid)
  refine ⟨nodup_set_fresh h.nodup id new hnew, ?_, ?_⟩
  · rw [AMap.keys_erase, AMap.keys_set, if_neg hnk]
    refine List.Nodup.sublist List.filter_sublist ?_
    rw [List.nodup_append]
    refine ⟨h.keysNodup, by simp, ?_⟩
    intro a ha b hb
    simp only [List.mem_singleton] at hb
    subst hb
    intro e; subst e; exact hnk ha
  · intro k i
    rw [AMap.get?_erase, AMap.get?_set, List.getElem?_set]
    by_cases hko : k = old
    · subst hko
      rw [if_pos rfl]
      constructor
      · intro e; cases e
      · intro e
        exfalso
        by_cases hii : id = i
        · rw [if_pos hii, if_pos hid] at e
          exact hne (Option.some.inj e)
        · rw [if_neg hii] at e
          have := (h.get k i).mpr e
          rw [hg] at this
          exact hii (Option.some.inj this)
    · rw [if_neg hko]
      by_cases hkn : k = new
      · subst hkn
        rw [if_pos rfl]
        constructor
        · intro e
          have : id = i := Option.some.inj e
          rw [if_pos this, if_pos hid]
        · intro e
          by_cases hii : id = i
          · rw [hii]
          · rw [if_neg hii] at e
            exact absurd (List.mem_iff_getElem?.mpr ⟨i, e⟩) hnew
      · rw [if_neg hkn]
        by_cases hii : id = i
        · rw [if_pos hii, if_pos hid]
          subst hii
          constructor
          · intro e; exact absurd (h.name_inj e hg) hko
          · intro e; exact absurd (Option.some.inj e).symm hkn
        · rw [if_neg hii]; exact h.get k i

/-- `swapOrder(c, oldID, newID)` with `oldID` the last position and `newID < oldID`: the last record moves to
    `newID`, the records in `[newID, oldID)` move one up -/
theorem move {init : List String} {c : String} (h : NInv (init ++ [c]) m) {newID : Nat} (hlt : newID < init.length) :
    NInv (init.take newID ++ c :: init.drop newID)
      ((m.mapVals (fun v => if newID ≤ v && v < init.length then v + 1 else v)).set c newID) := by
  have hnd : (init ++ [c]).Nodup := h.nodup
  have hci : c ∉ init := by
    intro hc
    rw [List.nodup_append] at hnd
    exact hnd.2.2 c hc c (by simp) rfl
  have hgc : m.get? c = some init.length := (h.get c init.length).mpr (by simp)
  have hck : c ∈ AMap.keys m := by
    apply Classical.byContradiction
    intro hn
    rw [(AMap.get?_eq_none_iff m c).mpr hn] at hgc
    cases hgc
  -- lookups of names other than `c` live in `init`
  have hinit : ∀ k v, k ≠ c → (m.get? k = some v ↔ init[v]? = some k) := by
    intro k v hk
    rw [h.get k v, List.getElem?_append]
    by_cases hv : v < init.length
    · rw [if_pos hv]
    · rw [if_neg hv, List.getElem?_eq_none (Nat.le_of_not_lt hv)]
      constructor
      · intro e
        cases hd : v - init.length with
        | zero => rw [hd] at e; simp at e; exact absurd e.symm hk
        | succ d => rw [hd] at e; simp at e
      · intro e; cases e
  refine ⟨?_, ?_, ?_⟩
  · have hp : (init.take newID ++ c :: init.drop newID).Perm (init ++ [c]) := by
      refine List.perm_middle.trans ?_
      rw [List.take_append_drop]
      exact (List.perm_append_singleton c init).symm
    exact hp.nodup_iff.mpr hnd
  · rw [AMap.keys_set, AMap.keys_mapVals, if_pos hck]
    exact h.keysNodup
  · intro k i
    have hlen : (init.take newID).length = newID := by
      rw [List.length_take]; omega
    rw [AMap.get?_set, AMap.get?_mapVals, List.getElem?_append, hlen, List.getElem?_take, List.getElem?_cons,
      List.getElem?_drop]
    by_cases hkc : k = c
    · subst hkc
      rw [if_pos rfl]
      constructor
      · intro e
        have : newID = i := Option.some.inj e
        subst this
        simp
      · intro e
        by_cases h1 : i < newID
        · rw [if_pos h1, if_pos h1] at e
          exact absurd (List.mem_iff_getElem?.mpr ⟨i, e⟩) hci
        · rw [if_neg h1] at e
          by_cases h2 : i - newID = 0
          · have : i = newID := by omega
            rw [this]
          · rw [if_neg h2] at e
            exact absurd (List.mem_iff_getElem?.mpr ⟨_, e⟩) hci
    · rw [if_neg hkc]
      constructor
      · intro e
        cases hv : m.get? k with
        | none => rw [hv] at e; cases e
        | some v =>
          rw [hv] at e
          have hiv := (hinit k v hkc).mp hv
          have hvl : v < init.length := (List.getElem?_eq_some_iff.mp hiv).1
          have hsh : (if (decide (newID ≤ v) && decide (v < init.length)) = true then v + 1 else v) = i :=
            Option.some.inj e
          by_cases hge : newID ≤ v
          · have hc : (decide (newID ≤ v) && decide (v < init.length)) = true := by simp [hge, hvl]
            rw [if_pos hc] at hsh
            have h1 : ¬ i < newID := by omega
            have h2 : ¬ i - newID = 0 := by omega
            rw [if_neg h1, if_neg h2]
            have : newID + (i - newID - 1) = v := by omega
            rw [this]; exact hiv
          · have hc : ¬ (decide (newID ≤ v) && decide (v < init.length)) = true := by simp [hge]
            rw [if_neg hc] at hsh
            have h1 : i < newID := by omega
            rw [if_pos h1, if_pos h1, ← hsh]; exact hiv
      · intro e
        by_cases h1 : i < newID
        · rw [if_pos h1, if_pos h1] at e
          rw [(hinit k i hkc).mpr e]
          have hc : ¬ (decide (newID ≤ i) && decide (i < init.length)) = true := by
            simp; omega
          simp only [Option.map_some, if_neg hc]
        · rw [if_neg h1] at e
          by_cases h2 : i - newID = 0
          · rw [if_pos h2] at e
            exact absurd (Option.some.inj e).symm hkc
          · rw [if_neg h2] at e
            have hv := (hinit k _ hkc).mpr e
            have hvl : newID + (i - newID - 1) < init.length := (List.getElem?_eq_some_iff.mp e).1
            rw [hv]
            have hc : (decide (newID ≤ newID + (i - newID - 1)) && decide (newID + (i - newID - 1) < init.length)) = true := by
              simp [hvl]
            simp only [Option.map_some, if_pos hc]
            congr 1
            omega

end NInv
end Sqlize
