/-
  Proofs/TableInv.lean — every edit primitive of `element.Table` that returns (does not panic) preserves the
  slice/map invariant of all three record kinds (columns, indexes, foreign keys) and the table's name.
  Side conditions are stated where the Go code needs them: a rename must target a name the table does not hold
  (otherwise Go overwrites the other record's map entry and the slice holds two records of one name).
-/
import SqlizeModel.Proofs.NInv

namespace Sqlize

theorem bind_ok {α β : Type} {x : M α} {f : α → M β} {b : β} (h : (x >>= f) = .ok b) :
    ∃ a, x = .ok a ∧ f a = .ok b := by
  cases x with
  | error e => cases h
  | ok a => exact ⟨a, rfl, h⟩

theorem pure_ok {α : Type} {a b : α} (h : (pure a : M α) = .ok b) : a = b := Except.ok.inj h

theorem getIdx_ok {α : Type} {site : String} {l : List α} {i : Nat} {x : α} (h : getIdx site l i = .ok x) :
    l[i]? = some x := by
  unfold getIdx at h
  cases hl : l[i]? with
  | none => rw [hl] at h; cases h
  | some y => rw [hl] at h; exact congrArg some (pure_ok h)

theorem setIdx_ok {α : Type} {site : String} {l l' : List α} {i : Nat} {x : α} (h : setIdx site l i x = .ok l') :
    i < l.length ∧ l' = l.set i x := by
  unfold setIdx at h
  by_cases hi : i < l.length
  · rw [if_pos hi] at h; exact ⟨hi, (pure_ok h).symm⟩
  · rw [if_neg hi] at h; cases h

theorem modifyIdx_ok {α : Type} {site : String} {l l' : List α} {i : Nat} {f : α → α}
    (h : modifyIdx site l i f = .ok l') : ∃ x, l[i]? = some x ∧ l' = l.set i (f x) := by
  unfold modifyIdx at h
  cases hl : l[i]? with
  | none => rw [hl] at h; cases h
  | some y => rw [hl] at h; exact ⟨y, rfl, (pure_ok h).symm⟩

namespace Table

abbrev colNames (t : Table) : List String := t.cols.map (·.name)
abbrev idxNames (t : Table) : List String := t.idxs.map (·.name)
abbrev fkNames (t : Table) : List String := t.fks.map (·.name)

/-- the table invariant: each slice agrees with its position map -/
structure Inv (t : Table) : Prop where
  cols : NInv t.colNames t.colIdx
  idxs : NInv t.idxNames t.idxIdx
  fks : NInv t.fkNames t.fkIdx

theorem inv_new (name : String) (a : Action) : (Table.new name a).Inv := ⟨NInv.nil, NInv.nil, NInv.nil⟩

/-- replacing a record by one of the same name leaves the list of names unchanged -/
theorem map_set_same {α : Type} (f : α → String) (l : List α) (i : Nat) (x y : α) (hl : l[i]? = some x)
    (hxy : f y = f x) : (l.set i y).map f = l.map f := by
  rw [List.map_set, hxy]
  obtain ⟨hi, he⟩ := List.getElem?_eq_some_iff.mp hl
  have : (l.map f)[i]'(by simpa using hi) = f x := by simp [he]
  rw [← this]
  exact List.set_getElem_self _

theorem ninv_set_same {α : Type} {f : α → String} {l : List α} {m : AMap} (h : NInv (l.map f) m) {i : Nat} {x y : α}
    (hl : l[i]? = some x) (hxy : f y = f x) : NInv ((l.set i y).map f) m := by
  rw [map_set_same f l i x y hl hxy]; exact h

theorem map_eraseIdx' {α β : Type} (f : α → β) (l : List α) (i : Nat) : (l.map f).eraseIdx i = (l.eraseIdx i).map f := by
  induction l generalizing i with
  | nil => rfl
  | cons a r ih => cases i with
    | zero => rfl
    | succ j => simp [List.eraseIdx_cons_succ, ih]

theorem last_split {α : Type} (l : List α) (i : Nat) (x : α) (hl : l[i]? = some x) (hi : i + 1 = l.length) :
    l = l.dropLast ++ [x] := by
  obtain ⟨hlt, he⟩ := List.getElem?_eq_some_iff.mp hl
  have hne : l ≠ [] := by intro e; subst e; simp at hlt
  have h1 := List.dropLast_concat_getLast hne
  have h2 : l.getLast hne = x := by
    rw [List.getLast_eq_getElem]
    have : l.length - 1 = i := by omega
    simp only [this]; exact he
  rw [h2] at h1
  exact h1.symm

theorem swapOrder_inv (t t' : Table) (c : String) (oldID newID : Nat) (h : t.Inv)
    (hc : t.colNames[oldID]? = some c) (hs : t.swapOrder c oldID newID = .ok t') : t'.Inv ∧ t'.name = t.name := by
  unfold swapOrder at hs
  by_cases he : (oldID == newID) = true
  · rw [if_pos he] at hs
    have := pure_ok hs; subst this; exact ⟨h, rfl⟩
  · rw [if_neg he] at hs
    obtain ⟨col, hcol, hs⟩ := bind_ok hs
    have hcol := getIdx_ok hcol
    by_cases hcond : (oldID + 1 == t.cols.length && decide (newID < oldID)) = true
    · rw [if_pos hcond] at hs
      have := pure_ok hs; subst this
      simp only [Bool.and_eq_true, beq_iff_eq, decide_eq_true_eq] at hcond
      obtain ⟨hlen, hlt⟩ := hcond
      have hname : col.name = c := by
        simp only [colNames, List.getElem?_map, hcol, Option.map_some] at hc
        exact Option.some.inj hc
      have hsplit := last_split t.cols oldID col hcol hlen
      have hinitlen : (t.cols.dropLast.map (·.name)).length = oldID := by
        simp only [List.length_map, List.length_dropLast]; omega
      have hnames : t.colNames = t.cols.dropLast.map (·.name) ++ [c] := by
        unfold colNames
        conv => lhs; rw [hsplit]
        rw [List.map_append, List.map_singleton, hname]
      have hN : NInv (t.cols.dropLast.map (·.name) ++ [c]) t.colIdx := hnames ▸ h.cols
      have hm := NInv.move hN (newID := newID) (by omega)
      rw [hinitlen] at hm
      refine ⟨⟨?_, h.idxs, h.fks⟩, rfl⟩
      show NInv ((t.cols.dropLast.take newID ++ col :: t.cols.dropLast.drop newID).map (·.name)) _
      rw [List.map_append, List.map_cons, List.map_take, List.map_drop, hname]
      exact hm
    · rw [if_neg hcond] at hs; cases hs


theorem positionStep_inv (t t' : Table) (c : String) (id : Nat) (h : t.Inv)
    (hc : t.colNames[id]? = some c) (hs : t.positionStep c id = .ok t') : t'.Inv ∧ t'.name = t.name := by
  unfold positionStep at hs
  cases hp : t.pendingPos with
  | none => rw [hp] at hs; have := pure_ok hs; subst this; exact ⟨h, rfl⟩
  | some p =>
    rw [hp] at hs
    cases p with
    | first =>
      obtain ⟨t1, h1, hs⟩ := bind_ok hs
      have := pure_ok hs; subst this
      obtain ⟨hi, hn⟩ := swapOrder_inv t t1 c id 0 h hc h1
      exact ⟨⟨hi.cols, hi.idxs, hi.fks⟩, hn⟩
    | after r =>
      simp only at hs
      cases hr : t.colIdx.get? r with
      | none =>
        rw [hr] at hs
        have := pure_ok hs; subst this
        exact ⟨⟨h.cols, h.idxs, h.fks⟩, rfl⟩
      | some a =>
        rw [hr] at hs
        obtain ⟨t1, h1, hs⟩ := bind_ok hs
        have := pure_ok hs; subst this
        obtain ⟨hi, hn⟩ := swapOrder_inv t t1 c id (a + 1) h hc h1
        exact ⟨⟨hi.cols, hi.idxs, hi.fks⟩, hn⟩

theorem addColumn_inv (t t' : Table) (col : Column) (mysql : Bool) {pg : Bool} (h : t.Inv)
    (hs : t.addColumn col mysql pg = .ok t') : t'.Inv ∧ t'.name = t.name := by
  unfold addColumn at hs
  cases hg : t.colIdx.get? col.name with
  | none =>
    rw [hg] at hs
    simp only at hs
    have hN := NInv.append h.cols col.name hg
    have hlen : t.colNames.length = t.cols.length := by simp [colNames]
    rw [hlen] at hN
    let t1 : Table := { t with cols := t.cols ++ [col], colIdx := t.colIdx.set col.name t.cols.length }
    have hi1 : t1.Inv := by
      refine ⟨?_, h.idxs, h.fks⟩
      show NInv ((t.cols ++ [col]).map (·.name)) _
      rw [List.map_append, List.map_singleton]
      exact hN
    have hc1 : t1.colNames[t.cols.length]? = some col.name := by
      show ((t.cols ++ [col]).map (·.name))[t.cols.length]? = _
      simp
    exact positionStep_inv t1 t' col.name t.cols.length hi1 hc1 hs
  | some id =>
    rw [hg] at hs
    simp only at hs
    obtain ⟨c, hc, hs⟩ := bind_ok hs
    have hc := getIdx_ok hc
    have hnm : t.colNames[id]? = some col.name := (h.cols.get col.name id).mp hg
    have hcn : c.name = col.name := by
      simp only [colNames, List.getElem?_map, hc, Option.map_some] at hnm
      exact Option.some.inj hnm
    by_cases ha : (c.action != .add) = true
    · rw [if_pos ha] at hs
      let t1 : Table := { t with cols := t.cols.set id col }
      have hnames : t1.colNames = t.colNames := map_set_same (fun x : Column => x.name) t.cols id c col hc hcn.symm
      have hi1 : t1.Inv := ⟨by rw [hnames]; exact h.cols, h.idxs, h.fks⟩
      exact positionStep_inv t1 t' col.name id hi1 (by rw [hnames]; exact hnm) hs
    · rw [if_neg ha] at hs
      have := pure_ok hs; subst this
      refine ⟨⟨?_, h.idxs, h.fks⟩, rfl⟩
      show NInv ((t.cols.set id _).map (·.name)) _
      exact ninv_set_same h.cols hc rfl

theorem forgetIndex_inv (t t' : Table) (id : Nat) (h : t.Inv) (hs : t.forgetIndex id = .ok t') :
    t'.Inv ∧ t'.name = t.name ∧ t'.cols = t.cols ∧ t'.colIdx = t.colIdx ∧ t'.fks = t.fks ∧ t'.fkIdx = t.fkIdx
      ∧ t'.idxs.length + 1 = t.idxs.length := by
  unfold forgetIndex at hs
  obtain ⟨i, hi, hs⟩ := bind_ok hs
  have hi := getIdx_ok hi
  have := pure_ok hs; subst this
  have hnm : t.idxNames[id]? = some i.name := by simp [idxNames, hi]
  have hg := (h.idxs.get i.name id).mpr hnm
  have hlt : id < t.idxs.length := (List.getElem?_eq_some_iff.mp hi).1
  refine ⟨⟨h.cols, ?_, h.fks⟩, rfl, rfl, rfl, rfl, rfl, ?_⟩
  · show NInv ((t.idxs.eraseIdx id).map (·.name)) _
    have := NInv.eraseShift h.idxs hg
    rw [map_eraseIdx'] at this
    exact this
  · show (t.idxs.eraseIdx id).length + 1 = _
    rw [List.length_eraseIdx, if_pos hlt]; omega

theorem map_name_cond {α : Type} (nm : α → String) (l : List α) (p : α → Bool) (f : α → α)
    (hf : ∀ x, nm (f x) = nm x) : (l.map (fun c => if p c then f c else c)).map nm = l.map nm := by
  rw [List.map_map]
  apply List.map_congr_left
  intro a _
  simp only [Function.comp_apply]
  split
  · exact hf a
  · rfl

theorem ninv_map_cond {α : Type} {nm : α → String} {l : List α} {m : AMap} (h : NInv (l.map nm) m) {p : α → Bool}
    {f : α → α} (hf : ∀ x, nm (f x) = nm x) : NInv ((l.map (fun c => if p c then f c else c)).map nm) m := by
  rw [map_name_cond nm l p f hf]; exact h

theorem forgetForeignKey_inv (t t' : Table) (id : Nat) (h : t.Inv) (hs : t.forgetForeignKey id = .ok t') :
    t'.Inv ∧ t'.name = t.name ∧ t'.fks.length + 1 = t.fks.length := by
  unfold forgetForeignKey at hs
  obtain ⟨f, hf, hs⟩ := bind_ok hs
  have hf := getIdx_ok hf
  have := pure_ok hs; subst this
  have hnm : t.fkNames[id]? = some f.name := by simp [fkNames, hf]
  have hg := (h.fks.get f.name id).mpr hnm
  have hlt : id < t.fks.length := (List.getElem?_eq_some_iff.mp hf).1
  refine ⟨⟨?_, h.idxs, ?_⟩, rfl, ?_⟩
  · show NInv (List.map (fun x : Column => x.name) (t.cols.map _)) _
    exact ninv_map_cond h.cols (fun _ => rfl)
  · show NInv ((t.fks.eraseIdx id).map (·.name)) _
    have := NInv.eraseShift h.fks hg
    rw [map_eraseIdx'] at this
    exact this
  · show (t.fks.eraseIdx id).length + 1 = _
    rw [List.length_eraseIdx, if_pos hlt]; omega

theorem stripColFromIndexes_inv (col : String) (k : Nat) : ∀ (t t' : Table), t.Inv →
    t.stripColFromIndexes col k = .ok t' → t'.Inv ∧ t'.name = t.name := by
  induction k with
  | zero =>
    intro t t' h hs
    unfold stripColFromIndexes at hs
    have := pure_ok hs; subst this; exact ⟨h, rfl⟩
  | succ k ih =>
    intro t t' h hs
    unfold stripColFromIndexes at hs
    obtain ⟨i, hi, hs⟩ := bind_ok hs
    have hi := getIdx_ok hi
    obtain ⟨t1, h1, hs⟩ := bind_ok hs
    have hinv1 : t1.Inv ∧ t1.name = t.name := by
      by_cases hcnd : ((i.cols.filter (· != col)).isEmpty && !i.cols.isEmpty) = true
      · rw [if_pos hcnd] at h1
        obtain ⟨a, b, _⟩ := forgetIndex_inv t t1 k h h1
        exact ⟨a, b⟩
      · rw [if_neg hcnd] at h1
        have := pure_ok h1; subst this
        refine ⟨⟨h.cols, ?_, h.fks⟩, rfl⟩
        show NInv ((t.idxs.set k _).map (·.name)) _
        exact ninv_set_same h.idxs hi rfl
    obtain ⟨a, b⟩ := ih t1 t' hinv1.1 hs
    exact ⟨a, b.trans hinv1.2⟩

theorem dropFksOnCol_inv (col : String) (k : Nat) : ∀ (t t' : Table), t.Inv →
    t.dropFksOnCol col k = .ok t' → t'.Inv ∧ t'.name = t.name := by
  induction k with
  | zero =>
    intro t t' h hs
    unfold dropFksOnCol at hs
    have := pure_ok hs; subst this; exact ⟨h, rfl⟩
  | succ k ih =>
    intro t t' h hs
    unfold dropFksOnCol at hs
    obtain ⟨f, hf, hs⟩ := bind_ok hs
    obtain ⟨t1, h1, hs⟩ := bind_ok hs
    have hinv1 : t1.Inv ∧ t1.name = t.name := by
      by_cases hcnd : (f.column == col) = true
      · rw [if_pos hcnd] at h1
        obtain ⟨a, b, _⟩ := forgetForeignKey_inv t t1 k h h1
        exact ⟨a, b⟩
      · rw [if_neg hcnd] at h1
        have := pure_ok h1; subst this
        exact ⟨h, rfl⟩
    obtain ⟨a, b⟩ := ih t1 t' hinv1.1 hs
    exact ⟨a, b.trans hinv1.2⟩

theorem removeColumn_inv (t t' : Table) (name : String) (h : t.Inv) (hs : t.removeColumn name = .ok t') :
    t'.Inv ∧ t'.name = t.name := by
  unfold removeColumn at hs
  cases hg : t.colIdx.get? name with
  | none =>
    rw [hg] at hs
    have := pure_ok hs; subst this
    have hN := NInv.append h.cols name hg
    have hlen : t.colNames.length = t.cols.length := by simp [colNames]
    rw [hlen] at hN
    refine ⟨⟨?_, h.idxs, h.fks⟩, rfl⟩
    show NInv (List.map (fun x : Column => x.name) (t.cols ++ [_])) _
    rw [List.map_append, List.map_singleton]
    exact hN
  | some id =>
    rw [hg] at hs
    simp only at hs
    obtain ⟨c, hc, hs⟩ := bind_ok hs
    have hc := getIdx_ok hc
    by_cases ha : (c.action == .add || c.action == .rename) = true
    · rw [if_pos ha] at hs
      obtain ⟨t2, h2, hs⟩ := bind_ok hs
      let t1 : Table := { t with cols := t.cols.eraseIdx id,
                                 colIdx := (t.colIdx.erase name).mapVals (fun v => if v > id then v - 1 else v) }
      have hi1 : t1.Inv := by
        refine ⟨?_, h.idxs, h.fks⟩
        show NInv ((t.cols.eraseIdx id).map (·.name)) _
        have := NInv.eraseShift h.cols hg
        rw [map_eraseIdx'] at this
        exact this
      obtain ⟨hi2, hn2⟩ := stripColFromIndexes_inv name _ t1 t2 hi1 h2
      obtain ⟨hi3, hn3⟩ := dropFksOnCol_inv name _ t2 t' hi2 hs
      exact ⟨hi3, hn3.trans hn2⟩
    · rw [if_neg ha] at hs
      have := pure_ok hs; subst this
      refine ⟨⟨?_, h.idxs, h.fks⟩, rfl⟩
      show NInv ((t.cols.set id _).map (·.name)) _
      exact ninv_set_same h.cols hc rfl

/-- Go overwrites the map entry of `newName` if the table already holds a column of that name (and deletes the entry
    altogether when `newName = oldName`), so the rename must target a fresh name -/
theorem renameColumn_inv (t t' : Table) (o n : String) (h : t.Inv) (hfresh : n ∉ t.colNames)
    (hs : t.renameColumn o n = .ok t') : t'.Inv ∧ t'.name = t.name := by
  unfold renameColumn at hs
  cases hg : t.colIdx.get? o with
  | none => rw [hg] at hs; have := pure_ok hs; subst this; exact ⟨h, rfl⟩
  | some id =>
    rw [hg] at hs
    simp only at hs
    obtain ⟨c, hc, hs⟩ := bind_ok hs
    have := pure_ok hs; subst this
    refine ⟨⟨?_, h.idxs, h.fks⟩, rfl⟩
    show NInv ((t.cols.set id _).map (·.name)) _
    rw [List.map_set]
    exact NInv.rename h.cols hg hfresh

theorem addIndex_inv (t t' : Table) (idx : Index) (h : t.Inv) (hs : t.addIndex idx = .ok t') :
    t'.Inv ∧ t'.name = t.name := by
  unfold addIndex at hs
  cases hg : t.idxIdx.get? idx.name with
  | none =>
    rw [hg] at hs
    have := pure_ok hs; subst this
    have hN := NInv.append h.idxs idx.name hg
    have hlen : t.idxNames.length = t.idxs.length := by simp [idxNames]
    rw [hlen] at hN
    refine ⟨⟨h.cols, ?_, h.fks⟩, rfl⟩
    show NInv ((t.idxs ++ [idx]).map (·.name)) _
    rw [List.map_append, List.map_singleton]
    exact hN
  | some id =>
    rw [hg] at hs
    simp only at hs
    obtain ⟨l, hl, hs⟩ := bind_ok hs
    obtain ⟨hlt, hl⟩ := setIdx_ok hl
    have := pure_ok hs; subst this
    subst hl
    have hnm : t.idxNames[id]? = some idx.name := (h.idxs.get idx.name id).mp hg
    obtain ⟨hlt', he⟩ := List.getElem?_eq_some_iff.mp hnm
    have hcur : t.idxs[id]? = some (t.idxs[id]'hlt) := List.getElem?_eq_getElem hlt
    have hsame : idx.name = (t.idxs[id]'hlt).name := by
      simp only [idxNames, List.getElem_map] at he
      exact he.symm
    refine ⟨⟨h.cols, ?_, h.fks⟩, rfl⟩
    show NInv ((t.idxs.set id idx).map (·.name)) _
    exact ninv_set_same h.idxs hcur hsame

theorem removeIndex_inv (t t' : Table) (name : String) (h : t.Inv) (hs : t.removeIndex name = .ok t') :
    t'.Inv ∧ t'.name = t.name := by
  unfold removeIndex at hs
  cases hg : t.idxIdx.get? name with
  | none =>
    rw [hg] at hs
    have := pure_ok hs; subst this
    have hN := NInv.append h.idxs name hg
    have hlen : t.idxNames.length = t.idxs.length := by simp [idxNames]
    rw [hlen] at hN
    refine ⟨⟨h.cols, ?_, h.fks⟩, rfl⟩
    show NInv (List.map (fun x : Index => x.name) (t.idxs ++ [_])) _
    rw [List.map_append, List.map_singleton]
    exact hN
  | some id =>
    rw [hg] at hs
    simp only at hs
    obtain ⟨i, hi, hs⟩ := bind_ok hs
    have hi := getIdx_ok hi
    by_cases ha : (i.action == .add) = true
    · rw [if_pos ha] at hs
      obtain ⟨a, b, _⟩ := forgetIndex_inv t t' id h hs
      exact ⟨a, b⟩
    · rw [if_neg ha] at hs
      have := pure_ok hs; subst this
      refine ⟨⟨h.cols, ?_, h.fks⟩, rfl⟩
      show NInv ((t.idxs.set id _).map (·.name)) _
      exact ninv_set_same h.idxs hi rfl

theorem renameIndex_inv (t t' : Table) (o n : String) (h : t.Inv) (hfresh : n ∉ t.idxNames)
    (hs : t.renameIndex o n = .ok t') : t'.Inv ∧ t'.name = t.name := by
  unfold renameIndex at hs
  cases hg : t.idxIdx.get? o with
  | none => rw [hg] at hs; have := pure_ok hs; subst this; exact ⟨h, rfl⟩
  | some id =>
    rw [hg] at hs
    simp only at hs
    obtain ⟨l, hl, hs⟩ := bind_ok hs
    obtain ⟨x, hx, hl⟩ := modifyIdx_ok hl
    have := pure_ok hs; subst this
    subst hl
    refine ⟨⟨h.cols, ?_, h.fks⟩, rfl⟩
    show NInv ((t.idxs.set id _).map (·.name)) _
    rw [List.map_set]
    exact NInv.rename h.idxs hg hfresh

theorem addForeignKey_inv (t t' : Table) (fk : ForeignKey) (h : t.Inv) (hs : t.addForeignKey fk = .ok t') :
    t'.Inv ∧ t'.name = t.name := by
  unfold addForeignKey at hs
  obtain ⟨t1, h1, hs⟩ := bind_ok hs
  have := pure_ok hs; subst this
  have hinv1 : t1.Inv ∧ t1.name = t.name := by
    cases hg : t.fkIdx.get? fk.name with
    | none =>
      rw [hg] at h1
      have := pure_ok h1; subst this
      have hN := NInv.append h.fks fk.name hg
      have hlen : t.fkNames.length = t.fks.length := by simp [fkNames]
      rw [hlen] at hN
      refine ⟨⟨h.cols, h.idxs, ?_⟩, rfl⟩
      show NInv ((t.fks ++ [fk]).map (·.name)) _
      rw [List.map_append, List.map_singleton]
      exact hN
    | some id =>
      rw [hg] at h1
      simp only at h1
      obtain ⟨l, hl, h1⟩ := bind_ok h1
      obtain ⟨hlt, hl⟩ := setIdx_ok hl
      have := pure_ok h1; subst this
      subst hl
      have hnm : t.fkNames[id]? = some fk.name := (h.fks.get fk.name id).mp hg
      obtain ⟨hlt', he⟩ := List.getElem?_eq_some_iff.mp hnm
      have hcur : t.fks[id]? = some (t.fks[id]'hlt) := List.getElem?_eq_getElem hlt
      have hsame : fk.name = (t.fks[id]'hlt).name := by
        simp only [fkNames, List.getElem_map] at he
        exact he.symm
      refine ⟨⟨h.cols, h.idxs, ?_⟩, rfl⟩
      show NInv ((t.fks.set id fk).map (·.name)) _
      exact ninv_set_same h.fks hcur hsame
  refine ⟨⟨?_, hinv1.1.idxs, hinv1.1.fks⟩, hinv1.2⟩
  show NInv (List.map (fun x : Column => x.name) (t1.cols.map _)) _
  exact ninv_map_cond hinv1.1.cols (fun _ => rfl)

theorem removeForeignKey_inv (t t' : Table) (name : String) (h : t.Inv) (hs : t.removeForeignKey name = .ok t') :
    t'.Inv ∧ t'.name = t.name := by
  unfold removeForeignKey at hs
  cases hg : t.fkIdx.get? name with
  | none =>
    rw [hg] at hs
    have := pure_ok hs; subst this
    have hN := NInv.append h.fks name hg
    have hlen : t.fkNames.length = t.fks.length := by simp [fkNames]
    rw [hlen] at hN
    refine ⟨⟨h.cols, h.idxs, ?_⟩, rfl⟩
    show NInv (List.map (fun x : ForeignKey => x.name) (t.fks ++ [_])) _
    rw [List.map_append, List.map_singleton]
    exact hN
  | some id =>
    rw [hg] at hs
    simp only at hs
    obtain ⟨f, hf, hs⟩ := bind_ok hs
    have hf := getIdx_ok hf
    by_cases ha : (f.action == .add) = true
    · rw [if_pos ha] at hs
      obtain ⟨a, b, _⟩ := forgetForeignKey_inv t t' id h hs
      exact ⟨a, b⟩
    · rw [if_neg ha] at hs
      have := pure_ok hs; subst this
      refine ⟨⟨h.cols, h.idxs, ?_⟩, rfl⟩
      show NInv ((t.fks.set id _).map (·.name)) _
      exact ninv_set_same h.fks hf rfl

end Table
end Sqlize
