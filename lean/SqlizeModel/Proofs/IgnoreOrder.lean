/-
  Proofs/IgnoreOrder.lean — C13, the ignore-field-order option, on the implementation model and for every input: the
  option changes nothing but the positional clause of ADD COLUMN.  For any two scripts (any dialect model, any keyword
  case), `modelUp` / `modelDown` under the option return exactly the statements they return without it, with every
  positional clause removed (`Spec.stripPosition`) — an error without the option is the same error with it.
-/
import SqlizeModel.Impl.Api
import SqlizeModel.Spec.Props
import SqlizeModel.Proofs.TableInv

namespace Sqlize
open Spec

/-- the same settings with the field-order option on / off -/
def Globals.ign (g : Globals) (b : Bool) : Globals := { g with ignoreOrder := b }

theorem strip_upAlter (g : Globals) (c : Column) (tb a1 a2 : String) :
    c.migrationUpAlter (g.ign true) tb a1 = (c.migrationUpAlter (g.ign false) tb a2).map stripPosition := by
  unfold Column.migrationUpAlter Globals.ign
  cases c.action <;> simp [stripPosition]
  all_goals (try split) <;> simp [stripPosition]

theorem strip_downAlter (g : Globals) (c : Column) (tb a1 a2 : String) :
    c.migrationDownAlter (g.ign true) tb a1 = (c.migrationDownAlter (g.ign false) tb a2).map stripPosition := by
  unfold Column.migrationDownAlter
  cases c.action <;> first | rfl | exact strip_upAlter g _ tb a1 a2

namespace Table

theorem strip_walkCols (g : Globals) (tb : String) (up : Bool) : ∀ (cols before : List Column),
    walkCols (g.ign true) tb up before cols =
      (((walkCols (g.ign false) tb up before cols).1.map stripPosition), (walkCols (g.ign false) tb up before cols).2) := by
  intro cols
  induction cols with
  | nil => intro before; rfl
  | cons c rest ih =>
    intro before
    unfold walkCols
    simp only
    rw [ih (before ++ [c])]
    by_cases hn : (c.action == .none) = true
    · simp only [hn, if_true]
    · simp only [hn, Bool.false_eq_true, if_false, List.map_append]
      cases up
      · simp only [Bool.false_eq_true, if_false]
        rw [strip_downAlter g c tb _ _]
      · simp only [if_true]
        rw [strip_upAlter g c tb _ _]

theorem createTable_ign (g : Globals) (b : Bool) (t : Table) : createTableStmts (g.ign b) t = createTableStmts g t := rfl

theorem idxUp_ign (g : Globals) (b : Bool) (t : Table) (dc : List String) : migrationIndexUp (g.ign b) t dc = migrationIndexUp g t dc := by
  unfold migrationIndexUp
  have hw : ∀ (up : Bool) (l : List Index), walkIdx (g.ign b) t.name up dc l = walkIdx g t.name up dc l := by
    intro up l
    induction l with
    | nil => rfl
    | cons i r ih => unfold walkIdx; rw [ih]; rfl
  have ha : ∀ l : List Index, addedIdx (g.ign b) t.name l = addedIdx g t.name l := by
    intro l
    induction l with
    | nil => rfl
    | cons i r ih => unfold addedIdx; rw [ih]; rfl
  cases t.action <;> simp only [hw, ha]

end Table

theorem Index.strip_up (g : Globals) (i : Index) (tb : String) (ss : List Stmt) (h : i.migrationUp g tb = .ok ss) :
    ss.map stripPosition = ss := by
  unfold Index.migrationUp at h
  cases ha : i.action <;> rw [ha] at h <;> simp only at h
  · rw [← pure_ok h]; rfl
  · split at h
    · rw [← pure_ok h]; rfl
    · split at h <;> (rw [← pure_ok h]; rfl)
  · split at h <;> (rw [← pure_ok h]; rfl)
  · obtain ⟨add, hadd, h⟩ := bind_ok h
    rw [← pure_ok h]
    have : stripPosition add = add := by
      split at hadd
      · rw [← pure_ok hadd]; rfl
      · split at hadd
        · rw [← pure_ok hadd]; rfl
        · rw [← pure_ok hadd]; rfl
        · cases hadd
    simp only [List.map_cons, List.map_nil, this]
    congr 1
    split <;> rfl
  · rw [← pure_ok h]; rfl
  · rw [← pure_ok h]; rfl

theorem Index.strip_down (g : Globals) (i : Index) (tb : String) (ss : List Stmt) (h : i.migrationDown g tb = .ok ss) :
    ss.map stripPosition = ss := by
  unfold Index.migrationDown at h
  cases ha : i.action <;> rw [ha] at h <;> simp only at h
  all_goals first
    | exact Index.strip_up g _ tb ss h
    | (rw [← pure_ok h]; rfl)
    | (split at h <;> exact Index.strip_up g _ tb ss h)

theorem ForeignKey.strip_up (f : ForeignKey) (tb : String) : (f.migrationUp tb).map stripPosition = f.migrationUp tb := by
  unfold ForeignKey.migrationUp
  cases f.action <;> rfl

theorem ForeignKey.strip_down (f : ForeignKey) (tb : String) : (f.migrationDown tb).map stripPosition = f.migrationDown tb := by
  unfold ForeignKey.migrationDown
  cases f.action <;> first | rfl | exact ForeignKey.strip_up _ tb

namespace Table

theorem strip_walkIdx (g : Globals) (tb : String) (up : Bool) (dc : List String) : ∀ (l : List Index) (ss : List Stmt),
    walkIdx g tb up dc l = .ok ss → ss.map stripPosition = ss := by
  intro l
  induction l with
  | nil => intro ss h; unfold walkIdx at h; rw [← pure_ok h]; rfl
  | cons i r ih =>
    intro ss h
    unfold walkIdx at h
    obtain ⟨s1, h1, h⟩ := bind_ok h
    obtain ⟨rs, hr, h⟩ := bind_ok h
    rw [← pure_ok h, List.map_append, ih rs hr]
    congr 1
    cases up
    · simp only [Bool.false_eq_true, if_false] at h1
      split at h1
      · exact Index.strip_down g i tb s1 h1
      · rw [← pure_ok h1]; rfl
    · simp only [if_true] at h1
      split at h1
      · exact Index.strip_up g i tb s1 h1
      · rw [← pure_ok h1]; rfl

theorem strip_addedIdx (g : Globals) (tb : String) : ∀ (l : List Index) (ss : List Stmt),
    addedIdx g tb l = .ok ss → ss.map stripPosition = ss := by
  intro l
  induction l with
  | nil => intro ss h; unfold addedIdx at h; rw [← pure_ok h]; rfl
  | cons i r ih =>
    intro ss h
    unfold addedIdx at h
    obtain ⟨s1, h1, h⟩ := bind_ok h
    obtain ⟨rs, hr, h⟩ := bind_ok h
    rw [← pure_ok h, List.map_append, ih rs hr]
    congr 1
    split at h1
    · exact Index.strip_up g i tb s1 h1
    · split at h1
      · exact Index.strip_up g _ tb s1 h1
      · rw [← pure_ok h1]; rfl

theorem strip_idxUp (g : Globals) (t : Table) (dc : List String) (ss : List Stmt) (h : migrationIndexUp g t dc = .ok ss) :
    ss.map stripPosition = ss := by
  unfold migrationIndexUp at h
  cases ha : t.action <;> rw [ha] at h <;> simp only at h
  all_goals first
    | exact strip_walkIdx g _ true dc _ ss h
    | exact strip_addedIdx g _ _ ss h
    | (rw [← pure_ok h]; rfl)

theorem idxDown_ign (g : Globals) (b : Bool) (t : Table) (dc : List String) :
    migrationIndexDown (g.ign b) t dc = migrationIndexDown g t dc := by
  unfold migrationIndexDown
  have hw : ∀ (l : List Index), walkIdx (g.ign b) t.name false dc l = walkIdx g t.name false dc l := by
    intro l
    induction l with
    | nil => rfl
    | cons i r ih => unfold walkIdx; rw [ih]; rfl
  cases t.action <;> simp only [hw, idxUp_ign]

theorem strip_idxDown (g : Globals) (t : Table) (dc : List String) (ss : List Stmt) (h : migrationIndexDown g t dc = .ok ss) :
    ss.map stripPosition = ss := by
  unfold migrationIndexDown at h
  cases ha : t.action <;> rw [ha] at h <;> simp only at h
  all_goals first
    | exact strip_walkIdx g _ false dc _ ss h
    | exact strip_idxUp g _ dc ss h
    | (rw [← pure_ok h]; rfl)

theorem strip_walkFk (tb : String) (up : Bool) (dc : List String) (fks : List ForeignKey) :
    (walkFk tb up dc fks).map stripPosition = walkFk tb up dc fks := by
  unfold walkFk
  induction fks with
  | nil => rfl
  | cons f r ih =>
    rw [List.flatMap_cons, List.map_append, ih]
    congr 1
    cases up
    · simp only [Bool.false_eq_true, if_false]
      split
      · exact ForeignKey.strip_down f tb
      · rfl
    · simp only [if_true]
      split
      · exact ForeignKey.strip_up f tb
      · rfl

theorem strip_fkUp (t : Table) (dc : List String) :
    (migrationForeignKeyUp t dc).map stripPosition = migrationForeignKeyUp t dc := by
  unfold migrationForeignKeyUp
  cases t.action <;> simp only
  all_goals first
    | exact strip_walkFk _ true dc _
    | rfl
    | skip
  -- the created table: ADD CONSTRAINT for every key record marked add
  induction t.fks with
  | nil => rfl
  | cons f r ih =>
    rw [List.flatMap_cons, List.map_append, ih]
    congr 1
    split
    · exact ForeignKey.strip_up f _
    · rfl

theorem strip_fkDown (t : Table) (dc : List String) :
    (migrationForeignKeyDown t dc).map stripPosition = migrationForeignKeyDown t dc := by
  unfold migrationForeignKeyDown
  cases t.action <;> simp only
  all_goals first
    | exact strip_walkFk _ false dc _
    | exact strip_fkUp _ dc
    | rfl

theorem strip_createTable (g : Globals) (t : Table) (ss : List Stmt) (h : createTableStmts g t = .ok ss) :
    ss.map stripPosition = ss := by
  unfold createTableStmts at h
  rw [← pure_ok h]
  simp only [List.map_cons]
  congr 1
  induction t.cols with
  | nil => rfl
  | cons c r ih =>
    rw [List.flatMap_cons, List.map_append, ih]
    congr 1
    unfold Column.commentUp
    split <;> rfl

/-- the column statements under the option: the same, positions removed; the same dropped-column list -/
theorem colUp_ign (g : Globals) (t : Table) :
    migrationColumnUp (g.ign true) t = (migrationColumnUp (g.ign false) t).map (fun p => (p.1.map stripPosition, p.2)) := by
  unfold migrationColumnUp
  cases ha : t.action <;> simp only
  · rw [strip_walkCols]; rfl
  · rw [createTable_ign g true, createTable_ign g false]
    cases hc : createTableStmts g t with
    | error e => rfl
    | ok ss =>
      simp only [bind, Except.bind, pure, Except.pure, Except.map]
      rw [strip_createTable g t ss hc]
  all_goals rfl

theorem colDown_ign (g : Globals) (t : Table) :
    migrationColumnDown (g.ign true) t = (migrationColumnDown (g.ign false) t).map (fun p => (p.1.map stripPosition, p.2)) := by
  unfold migrationColumnDown
  cases ha : t.action <;> simp only
  · rw [strip_walkCols]; rfl
  · exact colUp_ign g _
  · exact colUp_ign g _
  all_goals rfl

end Table

namespace Migration

/-- **the printer under the option**: the same groups, positions removed -/
theorem strip_migrate (g : Globals) (up : Bool) : ∀ (ts : List Table),
    migrate (g.ign true) up ts = (migrate (g.ign false) up ts).map (fun p => (p.1, p.2.map (List.map stripPosition))) := by
  intro ts
  induction ts with
  | nil => rfl
  | cons t rest ih =>
    unfold migrate
    by_cases hd : (t.name == defaultMigrationTable) = true
    · simp only [hd, if_true]
      rw [ih]
      cases migrate (g.ign false) up rest with
      | error e => rfl
      | ok r => rfl
    · simp only [hd, Bool.false_eq_true, if_false]
      cases harr : t.arrange with
      | error e => rfl
      | ok t' =>
        simp only [bind, Except.bind]
        cases up
        · -- down
          simp only [Bool.false_eq_true, if_false]
          rw [Table.colDown_ign g t']
          cases hcd : Table.migrationColumnDown (g.ign false) t' with
          | error e => rfl
          | ok cd =>
            simp only [Except.map]
            rw [Table.idxDown_ign g true, ← Table.idxDown_ign g false]
            cases his : Table.migrationIndexDown (g.ign false) t' cd.2 with
            | error e => rfl
            | ok is =>
              simp only
              rw [ih]
              cases hr : migrate (g.ign false) false rest with
              | error e => rfl
              | ok r =>
                simp only [Except.map, pure, Except.pure]
                have h1 := Table.strip_idxDown (g.ign false) t' cd.2 is his
                have h2 := Table.strip_fkDown t' cd.2
                have hall : cd.1.map stripPosition ++ is ++ t'.migrationForeignKeyDown cd.2 =
                    (cd.1 ++ is ++ t'.migrationForeignKeyDown cd.2).map stripPosition := by
                  rw [List.map_append, List.map_append, h1, h2]
                rw [hall]
                by_cases hem : (cd.1 ++ is ++ t'.migrationForeignKeyDown cd.2).isEmpty = true
                · have hem' : ((cd.1 ++ is ++ t'.migrationForeignKeyDown cd.2).map stripPosition).isEmpty = true := by
                    rw [List.isEmpty_iff] at hem ⊢; rw [hem]; rfl
                  rw [if_pos hem, if_pos hem']
                · have hem' : ¬ ((cd.1 ++ is ++ t'.migrationForeignKeyDown cd.2).map stripPosition).isEmpty = true := by
                    intro h; apply hem
                    rw [List.isEmpty_iff] at h ⊢
                    exact List.map_eq_nil_iff.mp h
                  rw [if_neg hem, if_neg hem']
                  rfl
        · -- up
          simp only [if_true]
          rw [Table.colUp_ign g t']
          cases hcd : Table.migrationColumnUp (g.ign false) t' with
          | error e => rfl
          | ok cd =>
            simp only [Except.map]
            rw [Table.idxUp_ign g true, ← Table.idxUp_ign g false]
            cases his : Table.migrationIndexUp (g.ign false) t' cd.2 with
            | error e => rfl
            | ok is =>
              simp only
              rw [ih]
              cases hr : migrate (g.ign false) true rest with
              | error e => rfl
              | ok r =>
                simp only [Except.map, pure, Except.pure]
                have h1 := Table.strip_idxUp (g.ign false) t' cd.2 is his
                have h2 := Table.strip_fkUp t' cd.2
                have hall : cd.1.map stripPosition ++ is ++ t'.migrationForeignKeyUp cd.2 =
                    (cd.1 ++ is ++ t'.migrationForeignKeyUp cd.2).map stripPosition := by
                  rw [List.map_append, List.map_append, h1, h2]
                rw [hall]
                by_cases hem : (cd.1 ++ is ++ t'.migrationForeignKeyUp cd.2).isEmpty = true
                · have hem' : ((cd.1 ++ is ++ t'.migrationForeignKeyUp cd.2).map stripPosition).isEmpty = true := by
                    rw [List.isEmpty_iff] at hem ⊢; rw [hem]; rfl
                  rw [if_pos hem, if_pos hem']
                · have hem' : ¬ ((cd.1 ++ is ++ t'.migrationForeignKeyUp cd.2).map stripPosition).isEmpty = true := by
                    intro h; apply hem
                    rw [List.isEmpty_iff] at h ⊢
                    exact List.map_eq_nil_iff.mp h
                  rw [if_neg hem, if_neg hem']
                  rfl

end Migration

theorem loadAndDiff_ign (g : Globals) (b : Bool) (old new : List Stmt) : loadAndDiff (g.ign b) old new = loadAndDiff g old new := rfl

/-- **C13 on the model, every input: the option only removes positional clauses** (up migration) -/
theorem modelUp_ign (g : Globals) (old new : List Stmt) :
    modelUp (g.ign true) old new = (modelUp (g.ign false) old new).map (List.map stripPosition) := by
  unfold modelUp
  rw [loadAndDiff_ign g true, ← loadAndDiff_ign g false]
  cases loadAndDiff (g.ign false) old new with
  | error e => rfl
  | ok d =>
    simp only [bind, Except.bind, Migration.migrationUp]
    rw [Migration.strip_migrate g true d.tables]
    cases Migration.migrate (g.ign false) true d.tables with
    | error e => rfl
    | ok r =>
      simp only [Except.map, pure, Except.pure]
      rw [List.map_flatten]

/-- … and the down migration -/
theorem modelDown_ign (g : Globals) (old new : List Stmt) :
    modelDown (g.ign true) old new = (modelDown (g.ign false) old new).map (List.map stripPosition) := by
  unfold modelDown
  rw [loadAndDiff_ign g true, ← loadAndDiff_ign g false]
  cases loadAndDiff (g.ign false) old new with
  | error e => rfl
  | ok d =>
    simp only [bind, Except.bind, Migration.migrationDown]
    rw [Migration.strip_migrate g false d.tables]
    cases Migration.migrate (g.ign false) false d.tables with
    | error e => rfl
    | ok r =>
      simp only [Except.map, pure, Except.pure]
      rw [List.map_flatten]

theorem hasPosition_strip (s : Stmt) : hasPosition (stripPosition s) = false := by
  cases s <;> rfl

theorem c13NoPositions_strip (l : List Stmt) : c13NoPositions (l.map stripPosition) = .ok () := by
  unfold c13NoPositions
  have : (l.map stripPosition).find? hasPosition = none := by
    apply List.find?_eq_none.mpr
    intro s hs
    obtain ⟨s0, _, rfl⟩ := List.mem_map.mp hs
    rw [hasPosition_strip]; simp
  rw [this]

theorem c13Same_strip (l : List Stmt) : c13Same l (l.map stripPosition) = .ok () := by
  unfold c13Same check
  simp

/-- **C13, the executable predicates, on the model and for every input**: whenever the up (down) migration is printed
    without the option, it is printed with the option too, the two differ by the positional clauses only (`c13Same`)
    and the one printed under the option has no positional clause at all (`c13NoPositions`) -/
theorem c13_option_up (g : Globals) (old new u : List Stmt) (h : modelUp (g.ign false) old new = .ok u) :
    ∃ ui, modelUp (g.ign true) old new = .ok ui ∧ c13Same u ui = .ok () ∧ c13NoPositions ui = .ok () := by
  refine ⟨u.map stripPosition, ?_, c13Same_strip u, c13NoPositions_strip u⟩
  rw [modelUp_ign, h]; rfl

theorem c13_option_down (g : Globals) (old new dn : List Stmt) (h : modelDown (g.ign false) old new = .ok dn) :
    ∃ di, modelDown (g.ign true) old new = .ok di ∧ c13Same dn di = .ok () ∧ c13NoPositions di = .ok () := by
  refine ⟨dn.map stripPosition, ?_, c13Same_strip dn, c13NoPositions_strip dn⟩
  rw [modelDown_ign, h]; rfl

end Sqlize
