/-
  Proofs/InvLink.lean — the functional invariant implies the permutation form used by `arrange_id`, so every state
  satisfying `Migration.Inv` is arrange-stable.
-/
import SqlizeModel.Proofs.MigInv

namespace Sqlize

theorem zipIdx_nodup {α : Type} (l : List α) (k : Nat) : (l.zipIdx k).Nodup := by
  induction l generalizing k with
  | nil => simp
  | cons a r ih =>
    rw [List.zipIdx_cons, List.nodup_cons]
    refine ⟨?_, ih (k + 1)⟩
    intro hm
    have := (List.mem_zipIdx hm).1
    omega

theorem amap_nodup (m : AMap) (h : (AMap.keys m).Nodup) : m.Nodup := by
  induction m with
  | nil => simp
  | cons p r ih =>
    simp only [AMap.keys, List.map_cons, List.nodup_cons] at h
    rw [List.nodup_cons]
    refine ⟨?_, ih h.2⟩
    intro hm
    exact h.1 (List.mem_map_of_mem hm)

theorem amap_mem_iff (m : AMap) (h : (AMap.keys m).Nodup) (k : String) (v : Nat) :
    (k, v) ∈ m ↔ m.get? k = some v := by
  induction m with
  | nil => simp [AMap.get?_nil]
  | cons p r ih =>
    simp only [AMap.keys, List.map_cons, List.nodup_cons] at h
    rw [AMap.get?_cons, List.mem_cons]
    by_cases hp : (p.1 == k) = true
    · have hpk : p.1 = k := by simpa using hp
      rw [if_pos hp]
      constructor
      · intro hh
        rcases hh with hh | hh
        · rw [← hh]
        · exact absurd (hpk ▸ List.mem_map_of_mem (f := (·.1)) hh) h.1
      · intro hh
        left
        have : p.2 = v := Option.some.inj hh
        rw [← hpk, ← this]
    · rw [if_neg hp, ← ih h.2]
      constructor
      · intro hh
        rcases hh with hh | hh
        · exact absurd (by rw [← hh]; simp) hp
        · exact hh
      · intro hh; exact Or.inr hh

theorem NInv.perm {names : List String} {m : AMap} (h : NInv names m) : m.Perm names.zipIdx := by
  rw [List.perm_ext_iff_of_nodup (amap_nodup m h.keysNodup) (zipIdx_nodup names 0)]
  intro ⟨k, v⟩
  rw [amap_mem_iff m h.keysNodup, h.get k v, List.mem_zipIdx_iff_getElem?]

theorem Table.Inv.colInv {t : Table} (h : t.Inv) : t.ColInv := ⟨h.cols.nodup, h.cols.perm⟩

theorem Migration.Inv.colInv {m : Migration} (h : m.Inv) : m.ColInv := fun t ht => (h.each t ht).colInv

/-- `Inv` ⇒ arrange-stable -/
theorem Migration.Inv.stable {m : Migration} (h : m.Inv) : m.Stable := stable_of_inv m h.colInv

end Sqlize
