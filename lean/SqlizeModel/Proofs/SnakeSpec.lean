import SqlizeModel.Proofs.Snake
import SqlizeModel.Spec.Snake

namespace Sqlize.Snake
open Sqlize.SnakeSpec

theorem lowerFollows_eq (r : List Char) : lowerFollows r = nextIsLower r := by
  match r with
  | [] => rfl
  | [c] =>
    simp only [lowerFollows, nextIsLower]
    by_cases h : c = 's'
    · subst h; decide
    · simp [h]
  | c :: _ :: _ => rfl

theorem lowerC_ne_underscore {c : Char} (h : isUpper c = true) : lowerC c ≠ '_' := by
  intro he
  have h2 : isUpper (lowerC c) = false := isUpper_lowerC c
  unfold lowerC at he
  simp only [h, if_true] at he
  unfold isUpper at h
  simp only [Bool.and_eq_true, decide_eq_true_eq] at h
  have hA : 'A'.toNat = 65 := by decide
  have hZ : 'Z'.toNat = 90 := by decide
  have h1 : c.toNat + 32 < 0xd800 := by omega
  have : (Char.ofNat (c.toNat + 32)).toNat = c.toNat + 32 := by
    unfold Char.ofNat
    rw [dif_pos (Or.inl h1)]
    rfl
  rw [he] at this
  have hu : '_'.toNat = 95 := by decide
  omega

theorem align_go (s : List Char) : ∀ f u, alignMarks s (go f u s) = some (marksGo f u s) := by
  induction s with
  | nil => intro f u; rfl
  | cons c r ih =>
    intro f u
    rcases char_cases c with h | ⟨h1, h2⟩ | ⟨h1, h2⟩
    · rw [go_upper h, marksGo_upper h]
      have hne := lowerC_ne_underscore h
      by_cases hm : (!f && (!u || nextIsLower r)) = true
      · simp only [hm, if_true, List.cons_append, List.nil_append]
        simp [alignMarks, h, ih]
      · simp only [hm]
        simp only [Bool.not_eq_true] at hm
        simp only [Bool.false_eq_true, if_false, List.nil_append]
        unfold alignMarks
        simp only [h, if_true]
        split
        · rename_i x rest heq
          simp only [List.cons.injEq] at heq
          exact absurd heq.1 hne
        · rename_i x rest hx heq
          simp only [List.cons.injEq] at heq
          obtain ⟨rfl, rfl⟩ := heq
          simp [ih]
        · rename_i heq; simp at heq
    · rw [go_lower h1 h2, marksGo_lower h1 h2]
      simp [alignMarks, h1, ih]
    · rw [go_other h1 h2, marksGo_other h1 h2]
      simp [alignMarks, h1, ih]

/-- consistency between the transducer state `(first, up)` and the previous character -/
def StateOK (prev : Option Char) (f u : Bool) : Prop :=
  (f = true ↔ prev = none) ∧ (∀ p, prev = some p → isLower p = true → u = false) ∧
  (∀ p, prev = some p → isUpper p = true → u = true)

theorem marksOK_go (s : List Char) : ∀ prev f u, StateOK prev f u → marksOK prev s (marksGo f u s) = true := by
  induction s with
  | nil => intro prev f u _; rfl
  | cons c r ih =>
    intro prev f u hs
    obtain ⟨hf, hl, hu⟩ := hs
    rcases char_cases c with h | ⟨h1, h2⟩ | ⟨h1, h2⟩
    · rw [marksGo_upper h]
      have hnext : StateOK (some c) false true := by
        refine ⟨by simp, ?_, ?_⟩
        · intro p hp hlow; simp at hp; subst hp
          have := isLower_not_isUpper hlow; rw [h] at this; simp at this
        · intro p _ _; rfl
      simp only [marksOK, ih _ _ _ hnext, Bool.and_true]
      cases prev with
      | none =>
        have : f = true := hf.mpr rfl
        simp [this]
      | some p =>
        have hff : f = false := by
          cases f with
          | false => rfl
          | true => have := hf.mp rfl; simp at this
        simp only [h, hff, Bool.not_true, Bool.false_eq_true, if_false, Bool.not_false, Bool.true_and]
        by_cases hpl : isLower p = true
        · simp [hpl, hl p rfl hpl]
        · simp only [hpl]
          by_cases hpu : isUpper p = true
          · simp [hpu, hu p rfl hpu, lowerFollows_eq]
          · simp [hpu]
    · rw [marksGo_lower h1 h2]
      have hnext : StateOK (some c) false false := by
        refine ⟨by simp, ?_, ?_⟩
        · intro p _ _; rfl
        · intro p hp hup; simp at hp; subst hp; rw [h1] at hup; simp at hup
      simp only [marksOK, ih _ _ _ hnext, Bool.and_true]
      cases prev with
      | none => simp
      | some p => simp [h1]
    · rw [marksGo_other h1 h2]
      have hnext : StateOK (some c) false u := by
        refine ⟨by simp, ?_, ?_⟩
        · intro p hp hlow; simp at hp; subst hp; rw [h2] at hlow; simp at hlow
        · intro p hp hup; simp at hp; subst hp; rw [h1] at hup; simp at hup
      simp only [marksOK, ih _ _ _ hnext, Bool.and_true]
      cases prev with
      | none => simp
      | some p => simp [h1]

end Sqlize.Snake
