/-
  Proofs/FidelityPg.lean — C05 for the Postgres reader glue, on the fragment it understands without loss:
  CREATE TABLE and ADD COLUMN with option-free columns, DROP COLUMN, and the Postgres spellings of MODIFY COLUMN
  (`ALTER COLUMN … TYPE`, `ALTER COLUMN … DROP NOT NULL`), on tables and columns whose names the parser prints back
  unquoted.  The simulation relation is the one of the MySQL reader (`Rel`): same tables in the same order, same column
  names in the same order, every column's type and option kinds.
-/
import SqlizeModel.Proofs.FidelityMain
import SqlizeModel.Proofs.SpecWF
import SqlizeModel.Impl.ReaderPg

namespace Sqlize
open Spec

/-- a name the Postgres parser prints back as written -/
def pgPlainName (n : String) : Bool := n != "" && !pgReserved.contains n

theorem pgName_plain {n : String} (h : pgReserved.contains n = false) : pgName n = n := by
  unfold pgName; rw [h]; rfl

/-- a column definition without options, under a name that is not quoted -/
def ColDef.pgPlain (c : ColDef) : Bool := c.opts.isEmpty && !pgReserved.contains c.name

/-- the statements of the fragment -/
def Stmt.pgSafe : Stmt → Bool
  | .createTable t _ cols pk => pgPlainName t && pk.isEmpty && cols.all ColDef.pgPlain
  | .addColumn t c .none => pgPlainName t && c.pgPlain
  | .dropColumn t c => pgPlainName t && !pgReserved.contains c
  | .alterType t c _ => pgPlainName t && !pgReserved.contains c
  | .dropNotNull t c => pgPlainName t && !pgReserved.contains c
  | _ => false

/-- the reference side of the fragment: no column carries an option (none can be declared, none can be added) -/
def DBBare (db : DB) : Prop := ∀ tb ∈ db, ∀ x ∈ tb.cols, x.opts = []

theorem colOf_pgPlain (c : ColDef) (h : c.pgPlain = true) : colOf c = ({ name := c.name, typ := c.typ, opts := [] }, false) := by
  unfold ColDef.pgPlain at h
  simp only [Bool.and_eq_true, List.isEmpty_iff] at h
  unfold colOf; simp [h.1, optsOf]

theorem pgPlainName_ne {t : String} (h : pgPlainName t = true) : t ≠ "" ∧ pgName t = t := by
  unfold pgPlainName at h
  simp only [Bool.and_eq_true, bne_iff_ne, ne_eq, Bool.not_eq_true'] at h
  exact ⟨h.1, pgName_plain h.2⟩

namespace ReaderPg
open ReaderMysql (typesOK_add hasCol_iff step_dropColumn find_replace allNodup_iff using_cursor)

/-- `postgresColumn` of an option-free column is the plain record, without index records -/
theorem column_plain (c : ColDef) (h : c.pgPlain = true) : column c = (c.toColumn, []) := by
  unfold ColDef.pgPlain at h
  simp only [Bool.and_eq_true, List.isEmpty_iff, Bool.not_eq_true'] at h
  unfold column ColDef.toColumn
  simp [h.1, pgName_plain h.2]

/-- the `ColumnTableDef` visits of CREATE TABLE -/
theorem addCols_rel (t : String) (cols : List ColDef) : ∀ (m : Migration) (dbk : DB) (tbS : TableSpec),
    Rel m dbk → m.cursor = t → dbk.find t = some tbS → tbS.name = t →
    ((tbS.colNames ++ cols.map (·.name))).Nodup → cols.all ColDef.pgPlain = true →
    ∃ m', addCols m cols = .ok m' ∧
      Rel m' (dbk.replace { tbS with cols := tbS.cols ++ cols.map (fun c => (colOf c).1) }) := by
  induction cols with
  | nil =>
    intro m dbk tbS h _ hf _ _ _
    refine ⟨m, rfl, ?_⟩
    obtain ⟨id, _, _, _, hd, _, _, _, _⟩ := h.lookup hf
    have : ({ tbS with cols := tbS.cols ++ ([] : List ColDef).map (fun c => (colOf c).1) } : TableSpec) = tbS := by simp
    rw [this, replace_self dbk h.nodup id tbS hd]
    exact h
  | cons c rest ih =>
    intro m dbk tbS h hcur hf hname hnd hpl
    simp only [List.all_cons, Bool.and_eq_true] at hpl
    have hres : m.resolve "" = t := by unfold Migration.resolve; simpa using hcur
    have hcn : (colOf c).1.name = c.name := by unfold colOf; rfl
    let tbS1 : TableSpec := { tbS with cols := tbS.cols ++ [(colOf c).1] }
    have hfresh : c.name ∉ tbS.colNames := by
      intro hm
      have := List.nodup_append.mp hnd
      exact this.2.2 c.name hm c.name (by simp) rfl
    obtain ⟨m1, h1, hr1, hc1⟩ := h.edited hf (tb' := tbS1) rfl "Migration.AddColumn" (·.addColumn c.toColumn false true) (by
      intro tm hi ha hp hnames hty
      have hnot : c.toColumn.name ∉ tm.colNames := by rw [hnames]; exact hfresh
      have hg := (hi.cols.get?_none_iff _).mpr hnot
      have hs := Table.addColumn_append tm c.toColumn false (pg := true) hg hp
      refine ⟨_, hs, Table.appended_inv tm _ hi hg, rfl, Table.appended_allAdd tm _ ha rfl, rfl, hp, ?_, ?_⟩
      · rw [Table.appended_names, hnames]
        show _ = (tbS.cols ++ [(colOf c).1]).map (·.name)
        rw [List.map_append, List.map_singleton, hcn]
        rfl
      · refine typesOK_add (tb' := tbS1) c hty (fun y hy => List.mem_append_left _ hy)
          (by show (colOf c).1 ∈ tbS.cols ++ [(colOf c).1]; simp) ?_
        intro x hx
        have hx : x ∈ tm.cols ++ [c.toColumn] := hx
        rcases List.mem_append.mp hx with h' | h'
        · exact Or.inl h'
        · exact Or.inr (List.mem_singleton.mp h'))
    obtain ⟨id, _, _, _, hd, _, _, _, _⟩ := h.lookup hf
    obtain ⟨hf1, _, _⟩ := find_replace dbk h.nodup id tbS tbS1 hd rfl
    rw [hname] at hf1
    have hnd1 : (tbS1.colNames ++ rest.map (·.name)).Nodup := by
      have : tbS1.colNames = tbS.colNames ++ [c.name] := by
        show (tbS.cols ++ [(colOf c).1]).map (·.name) = _
        rw [List.map_append, List.map_singleton, hcn]; rfl
      rw [this, List.append_assoc]
      simpa using hnd
    obtain ⟨m', h2, hr2⟩ := ih m1 _ tbS1 hr1 (hc1.trans hcur) hf1 hname hnd1 hpl.2
    refine ⟨m', ?_, ?_⟩
    · unfold addCols
      rw [column_plain c hpl.1]
      have : m.addColumn "" c.toColumn false true = .ok m1 := by
        unfold Migration.addColumn; rw [hres]; exact h1
      simp only [this, bind, Except.bind, addIdxs, pure, Except.pure]
      exact h2
    · have hfin : ({ tbS1 with cols := tbS1.cols ++ rest.map (fun c => (colOf c).1) } : TableSpec)
          = { tbS with cols := tbS.cols ++ (c :: rest).map (fun c => (colOf c).1) } := by
        show ({ tbS with cols := (tbS.cols ++ [(colOf c).1]) ++ rest.map (fun c => (colOf c).1) } : TableSpec) = _
        simp [List.append_assoc]
      rw [hfin] at hr2
      let tbF : TableSpec := { tbS with cols := tbS.cols ++ (c :: rest).map (fun c => (colOf c).1) }
      have hrr : (dbk.replace tbS1).replace tbF = dbk.replace tbF := by
        have hlt : id < dbk.length := (List.getElem?_eq_some_iff.mp hd).1
        have e1 := replace_eq_set dbk h.nodup id tbS tbS1 hd rfl
        have e2 := replace_eq_set dbk h.nodup id tbS tbF hd rfl
        have hnd' : ((dbk.set id tbS1).map (·.name)).Nodup := by
          have := (find_replace dbk h.nodup id tbS tbS1 hd rfl).2.2
          rw [e1] at this
          rw [this]; exact h.nodup
        have e3 := replace_eq_set (dbk.set id tbS1) hnd' id tbS1 tbF (by simp [hlt]) rfl
        rw [e1, e3, e2, List.set_set]
      rw [hrr] at hr2
      exact hr2

/-- CREATE TABLE -/
theorem step_createTable (h : Rel m db) (t : String) (ht : t ≠ "") (ident : Nat) (cols : List ColDef) (pk pk' : List String)
    (hnew : db.has t = false) (hnd : (cols.map (·.name)).Nodup) (hpl : cols.all ColDef.pgPlain = true) :
    ∃ m', step m (.createTable t ident cols pk) = .ok m' ∧
      Rel m' (db ++ [{ name := t, cols := cols.map (fun c => (colOf c).1), pk := pk' }]) := by
  let tbS0 : TableSpec := { name := t, cols := [], pk := pk' }
  have hty0 : TypesOK (Table.new t .add) tbS0 := by intro x hx; cases hx
  obtain ⟨m2, h2, hr2, _⟩ := h.append_table (Table.new t .add) tbS0 (Table.inv_new _ _) (Table.allAdd_new _ _) rfl rfl rfl rfl hnew hty0
  have hr2u := hr2.using_ t
  have hcur : (m2.using_ t).cursor = t := using_cursor m2 ht
  have hlast : (db ++ [tbS0])[db.length]? = some tbS0 := by simp
  have hf0 : (db ++ [tbS0]).find t = some tbS0 := find_of_getElem (db ++ [tbS0]) hr2.nodup db.length tbS0 hlast
  obtain ⟨m', h3, hr3⟩ := addCols_rel t cols (m2.using_ t) (db ++ [tbS0]) tbS0 hr2u hcur hf0 rfl
    (by show (([] : List ColSpec).map (·.name) ++ cols.map (·.name)).Nodup; simpa using hnd) hpl
  refine ⟨m', ?_, ?_⟩
  · unfold step
    simp only [h2, bind, Except.bind]
    exact h3
  · have hrep := replace_eq_set (db ++ [tbS0]) hr2.nodup db.length tbS0
      { tbS0 with cols := tbS0.cols ++ cols.map (fun c => (colOf c).1) } hlast rfl
    rw [hrep] at hr3
    have : (db ++ [tbS0]).set db.length { tbS0 with cols := tbS0.cols ++ cols.map (fun c => (colOf c).1) }
        = db ++ [{ name := t, cols := cols.map (fun c => (colOf c).1), pk := pk' }] := by
      simp [tbS0]
    rw [this] at hr3
    exact hr3

/-- ADD COLUMN (Postgres has no position clause) -/
theorem step_addColumn (h : Rel m db) (t : String) (ht : pgPlainName t = true) (c : ColDef) (hpl : c.pgPlain = true)
    {tb tb' : TableSpec} (hf : db.find t = some tb) (hc : tb.hasCol c.name = false) (hn : tb'.name = tb.name)
    (hcolsS : tb'.cols = tb.cols ++ [(colOf c).1]) :
    ∃ m', step m (.addColumn t c .none) = .ok m' ∧ Rel m' (db.replace tb') := by
  obtain ⟨htne, htn⟩ := pgPlainName_ne ht
  have hcols : tb'.colNames = tb.colNames ++ [c.name] := by
    show tb'.cols.map (·.name) = _
    rw [hcolsS, List.map_append, List.map_singleton]; rfl
  obtain ⟨m1, h1, hr, _⟩ := h.edited hf hn "Migration.AddColumn" (·.addColumn c.toColumn false true) (by
    intro tm hi ha hp hnames hty
    have hnot : c.toColumn.name ∉ tm.colNames := by
      rw [hnames]; intro hm
      rw [(hasCol_iff tb c.name).mpr (by simpa [ColDef.toColumn] using hm)] at hc; cases hc
    have hg := (hi.cols.get?_none_iff _).mpr hnot
    have hs := Table.addColumn_append tm c.toColumn false (pg := true) hg hp
    refine ⟨_, hs, Table.appended_inv tm _ hi hg, rfl, Table.appended_allAdd tm _ ha rfl, rfl, hp, ?_, ?_⟩
    · rw [Table.appended_names, hnames, hcols]; rfl
    · refine typesOK_add c hty (by rw [hcolsS]; intro y hy; exact List.mem_append_left _ hy)
        (by rw [hcolsS]; simp) ?_
      intro x hx
      have hx : x ∈ tm.cols ++ [c.toColumn] := hx
      rcases List.mem_append.mp hx with h' | h'
      · exact Or.inl h'
      · exact Or.inr (List.mem_singleton.mp h'))
  refine ⟨m1, ?_, hr⟩
  unfold step
  simp only [column_plain c hpl, htn]
  have : m.addColumn t c.toColumn false true = .ok m1 := by
    unfold Migration.addColumn
    rw [Rel.resolve_ne m htne]
    exact h1
  simp only [this, bind, Except.bind, addIdxs, pure, Except.pure]

/-- a merging `AddColumn` of the Postgres glue on an existing column: the general step behind ALTER COLUMN … TYPE.
    `upd` is what the reference engine does to the column of that name. -/
theorem step_merge (h : Rel m db) (t : String) (ht : t ≠ "") (col : Column) (upd : ColSpec → ColSpec)
    {tb tb' : TableSpec} (hf : db.find t = some tb) (hc : tb.hasCol col.name = true) (hn : tb'.name = tb.name)
    (hcolsM : tb'.cols = tb.cols.map (fun x => if x.name == col.name then upd x else x))
    (hupdn : ∀ x, (upd x).name = x.name)
    (hupd : ∀ (old : Column) (x : ColSpec), old.cur.typ = some x.typ → (Table.optKinds old.cur.opts).Perm x.opts →
      col.cur.typ.orElse (fun _ => old.cur.typ) = some (upd x).typ ∧
      (Table.optKinds (old.cur.opts ++ col.cur.opts)).Perm (upd x).opts) :
    ∃ m', m.addColumn t col false true = .ok m' ∧ Rel m' (db.replace tb') := by
  have hcolsame : tb'.colNames = tb.colNames := by
    show tb'.cols.map (·.name) = tb.cols.map (·.name)
    rw [hcolsM, List.map_map]
    apply List.map_congr_left
    intro x _
    simp only [Function.comp_apply]
    split
    · exact hupdn x
    · rfl
  unfold Migration.addColumn
  rw [Rel.resolve_ne m ht]
  obtain ⟨m1, h1, hr, _⟩ := h.edited hf hn "Migration.AddColumn" (·.addColumn col false true) (by
    intro tm hi ha hp hnames hty
    have hcm : col.name ∈ tm.colNames := by rw [hnames]; exact (hasCol_iff tb col.name).mp hc
    obtain ⟨ci, hci⟩ := List.mem_iff_getElem?.mp hcm
    have hgc := (hi.cols.get col.name ci).mpr hci
    obtain ⟨tm1, hs1, hn1, ha1, hp1, hmem1⟩ := Table.addColumn_merge_pg tm col hi ha ci hgc
    have hi1 := Table.addColumn_inv tm tm1 col false hi hs1
    refine ⟨tm1, hs1, hi1.1, hi1.2, ha1, Table.addColumn_action tm tm1 col false hs1, by rw [hp1]; exact hp,
      by rw [hn1, hnames, hcolsame], ?_⟩
    intro x hx
    rcases hmem1 x hx with ⟨hx0, hxne⟩ | ⟨hxn, old, hold, holdn, hxt, hxo⟩
    · obtain ⟨cs, hcs, hcsn, hcst, hcso⟩ := hty x hx0
      refine ⟨cs, ?_, hcsn, hcst, hcso⟩
      rw [hcolsM]
      refine List.mem_map.mpr ⟨cs, hcs, ?_⟩
      have : (cs.name == col.name) = false := by rw [hcsn]; simpa using hxne
      simp [this]
    · obtain ⟨cs, hcs, hcsn, hcst, hcso⟩ := hty old hold
      obtain ⟨e1, e2⟩ := hupd old cs hcst hcso
      refine ⟨upd cs, ?_, by rw [hupdn, hcsn, holdn, hxn], by rw [hxt]; exact e1, ?_⟩
      · rw [hcolsM]
        refine List.mem_map.mpr ⟨cs, hcs, ?_⟩
        have : (cs.name == col.name) = true := by rw [hcsn, holdn]; simp
        simp [this]
      · rw [hxo]
        exact (Table.optKinds_pkSwap _).trans e2)
  exact ⟨m1, h1, hr⟩

theorem step_rel (rc : Bool) {m : Migration} {db db' : DB} (h : Rel m db) (hb : DBBare db) (s : Stmt) (hs : s.pgSafe = true)
    (he : exec rc db s = some db') : ∃ m', step m s = .ok m' ∧ Rel m' db' := by
  cases s with
  | createTable t ident cols pk =>
    simp only [Stmt.pgSafe, Bool.and_eq_true] at hs
    obtain ⟨⟨ht, _⟩, hpl⟩ := hs
    have ht := (pgPlainName_ne ht).1
    simp only [exec] at he
    split at he
    · cases he
    · rename_i hc1
      split at he
      · cases he
      · rename_i hc2
        split at he
        · cases he
        · split at he
          · cases he
          · have key : ∃ pk', db' = db ++ [{ name := t, cols := cols.map (fun c => (colOf c).1), pk := pk' }] := by
              split at he
              · cases he
              · exact ⟨_, by simpa [List.map_map, Function.comp_def] using (Option.some.inj he).symm⟩
            obtain ⟨pk', hdb⟩ := key
            subst hdb
            have hnew : db.has t = false := by simpa using hc1
            have hnd : (cols.map (·.name)).Nodup := by
              have : allNodup ((cols.map colOf).map (·.1.name)) = true := by simpa using hc2
              have hn : (cols.map colOf).map (·.1.name) = cols.map (·.name) := by
                simp [List.map_map, Function.comp_def, colOf]
              rw [hn] at this
              exact (allNodup_iff _).mp this
            exact step_createTable h t ht ident cols pk pk' hnew hnd hpl
  | addColumn t c pos =>
    cases pos with
    | first => simp [Stmt.pgSafe] at hs
    | after p => simp [Stmt.pgSafe] at hs
    | none =>
      simp only [Stmt.pgSafe, Bool.and_eq_true] at hs
      obtain ⟨ht, hpl⟩ := hs
      simp only [exec] at he
      cases hf : db.find t with
      | none => rw [hf] at he; cases he
      | some tb =>
        rw [hf] at he
        simp only at he
        have hnopk : (colOf c).2 = false := by
          unfold ColDef.pgPlain at hpl
          simp only [Bool.and_eq_true, List.isEmpty_iff] at hpl
          unfold colOf; simp [hpl.1, optsOf]
        split at he
        · cases he
        · rename_i hc1
          split at he
          · cases he
          · have := Option.some.inj he; subst this
            refine step_addColumn h t ht c hpl hf (by simpa using hc1) rfl ?_
            simp [hnopk]
  | dropColumn t c =>
    simp only [Stmt.pgSafe, Bool.and_eq_true, Bool.not_eq_true'] at hs
    obtain ⟨ht, hcq⟩ := hs
    obtain ⟨htne, htn⟩ := pgPlainName_ne ht
    simp only [exec] at he
    cases hf : db.find t with
    | none => rw [hf] at he; cases he
    | some tb =>
      rw [hf] at he
      simp only at he
      split at he
      · cases he
      · rename_i hc1
        split at he
        · cases he
        · have := Option.some.inj he; subst this
          obtain ⟨m1, h1, hr⟩ := step_dropColumn h t c htne hf (by simpa using hc1) (tb' := { tb with
            cols := tb.cols.filter (fun x => x.name != c),
            idxs := (tb.idxs.map (fun i => { i with cols := i.cols.filter (· != c) })).filter (!·.cols.isEmpty),
            fks := tb.fks.filter (·.col != c), pk := tb.pk.filter (· != c) }) rfl rfl
          refine ⟨m1, ?_, ?_⟩
          · simp only [step, htn, pgName_plain hcq]; exact h1
          · exact hr.of_tables (by rw [using_tables]) (by unfold Migration.using_; split <;> rfl)
  | alterType t c typ =>
    simp only [Stmt.pgSafe, Bool.and_eq_true, Bool.not_eq_true'] at hs
    obtain ⟨ht, hcq⟩ := hs
    obtain ⟨htne, htn⟩ := pgPlainName_ne ht
    simp only [exec] at he
    cases hf : db.find t with
    | none => rw [hf] at he; cases he
    | some tb =>
      rw [hf] at he
      simp only at he
      split at he
      · cases he
      · rename_i hc1
        have := Option.some.inj he; subst this
        simp only [step, htn, pgName_plain hcq]
        refine step_merge h t htne { name := c, action := .modify, cur := { typ := some typ } } (fun x => { x with typ := typ })
          hf (by simpa using hc1) rfl rfl (fun _ => rfl) ?_
        intro old x _ ho
        exact ⟨rfl, by simpa using ho⟩
  | dropNotNull t c =>
    simp only [Stmt.pgSafe, Bool.and_eq_true, Bool.not_eq_true'] at hs
    simp only [exec] at he
    cases hf : db.find t with
    | none => rw [hf] at he; cases he
    | some tb =>
      rw [hf] at he
      simp only at he
      split at he
      · cases he
      · have := Option.some.inj he; subst this
        -- no column of the fragment carries NOT NULL: the reference engine changes nothing, and so does the reader
        obtain ⟨id, _, _, _, hd, _, _, _, _⟩ := h.lookup hf
        have hmemT : tb ∈ db := List.mem_of_getElem? hd
        have hsame : ({ tb with cols := tb.cols.map (fun x =>
            if x.name == c then { x with opts := x.opts.filter (· != .notNull) } else x) } : TableSpec) = tb := by
          have : tb.cols.map (fun x => if x.name == c then { x with opts := x.opts.filter (· != .notNull) } else x) = tb.cols := by
            conv => rhs; rw [← List.map_id tb.cols]
            apply List.map_congr_left
            intro x hx
            split
            · have := hb tb hmemT x hx
              cases x; simp_all
            · rfl
          rw [this]
        rw [hsame, replace_self db h.nodup id tb hd]
        exact ⟨m, rfl, h⟩
  | _ => simp [Stmt.pgSafe] at hs

/-- the Spec side of the fragment stays option-free -/
theorem bare_replace {db : DB} {tb' : TableSpec} (hb : DBBare db) (h' : ∀ x ∈ tb'.cols, x.opts = []) :
    DBBare (db.replace tb') := by
  intro tb htb
  rcases mem_replace htb with rfl | h
  · exact h'
  · exact hb tb h

theorem find_mem {db : DB} {t : String} {tb : TableSpec} (hf : db.find t = some tb) : tb ∈ db := by
  unfold DB.find at hf
  exact List.mem_of_find?_eq_some hf

theorem exec_bare (rc : Bool) {db db' : DB} (hb : DBBare db) (s : Stmt) (hs : s.pgSafe = true)
    (he : exec rc db s = some db') : DBBare db' := by
  cases s with
  | createTable t ident cols pk =>
    simp only [Stmt.pgSafe, Bool.and_eq_true] at hs
    obtain ⟨_, hpl⟩ := hs
    simp only [exec] at he
    split at he
    · cases he
    · split at he
      · cases he
      · split at he
        · cases he
        · split at he
          · cases he
          · have key : ∃ pk', db' = db ++ [{ name := t, cols := cols.map (fun c => (colOf c).1), pk := pk' }] := by
              split at he
              · split at he
                · cases he
                · exact ⟨_, by simpa [List.map_map, Function.comp_def] using (Option.some.inj he).symm⟩
              · split at he
                · cases he
                · exact ⟨_, by simpa [List.map_map, Function.comp_def] using (Option.some.inj he).symm⟩
            obtain ⟨pk', hdb⟩ := key
            subst hdb
            intro tb htb
            rcases List.mem_append.mp htb with h | h
            · exact hb tb h
            · rw [List.mem_singleton.mp h]
              intro x hx
              obtain ⟨c, hc, rfl⟩ := List.mem_map.mp hx
              rw [colOf_pgPlain c (List.all_eq_true.mp hpl c hc)]
  | addColumn t c pos =>
    cases pos with
    | first => simp [Stmt.pgSafe] at hs
    | after p => simp [Stmt.pgSafe] at hs
    | none =>
      simp only [Stmt.pgSafe, Bool.and_eq_true] at hs
      obtain ⟨_, hpl⟩ := hs
      simp only [exec] at he
      cases hf : db.find t with
      | none => rw [hf] at he; cases he
      | some tb =>
        rw [hf] at he
        simp only at he
        split at he
        · cases he
        · split at he
          · cases he
          · have := Option.some.inj he; subst this
            refine bare_replace hb ?_
            intro x hx
            have hx : x ∈ tb.cols ++ [(colOf c).1] := hx
            rcases List.mem_append.mp hx with h | h
            · exact hb tb (find_mem hf) x h
            · rw [List.mem_singleton.mp h, colOf_pgPlain c hpl]
  | dropColumn t c =>
    simp only [exec] at he
    cases hf : db.find t with
    | none => rw [hf] at he; cases he
    | some tb =>
      rw [hf] at he
      simp only at he
      split at he
      · cases he
      · split at he
        · cases he
        · have := Option.some.inj he; subst this
          refine bare_replace hb ?_
          intro x hx
          have hx : x ∈ tb.cols.filter (fun x => x.name != c) := hx
          exact hb tb (find_mem hf) x (List.mem_filter.mp hx).1
  | alterType t c typ =>
    simp only [exec] at he
    cases hf : db.find t with
    | none => rw [hf] at he; cases he
    | some tb =>
      rw [hf] at he
      simp only at he
      split at he
      · cases he
      · have := Option.some.inj he; subst this
        refine bare_replace hb ?_
        intro x hx
        obtain ⟨y, hy, rfl⟩ := List.mem_map.mp hx
        have := hb tb (find_mem hf) y hy
        split
        · exact this
        · exact this
  | dropNotNull t c =>
    simp only [exec] at he
    cases hf : db.find t with
    | none => rw [hf] at he; cases he
    | some tb =>
      rw [hf] at he
      simp only at he
      split at he
      · cases he
      · have := Option.some.inj he; subst this
        refine bare_replace hb ?_
        intro x hx
        obtain ⟨y, hy, rfl⟩ := List.mem_map.mp hx
        have := hb tb (find_mem hf) y hy
        split
        · show y.opts.filter _ = []; rw [this]; rfl
        · exact this
  | _ => simp [Stmt.pgSafe] at hs

theorem steps_rel (rc : Bool) (ss : List Stmt) : ∀ (m : Migration) (db db' : DB), Rel m db → DBBare db →
    ss.all Stmt.pgSafe = true → execAll rc db ss = some db' → ∃ m', ss.foldlM step m = .ok m' ∧ Rel m' db' := by
  induction ss with
  | nil =>
    intro m db db' h _ _ he
    unfold execAll at he
    have := Option.some.inj he; subst this
    exact ⟨m, rfl, h⟩
  | cons s rest ih =>
    intro m db db' h hb hs he
    simp only [List.all_cons, Bool.and_eq_true] at hs
    unfold execAll at he
    cases h1 : exec rc db s with
    | none => rw [h1] at he; cases he
    | some db1 =>
      rw [h1] at he
      obtain ⟨m1, hm1, hr1⟩ := step_rel rc h hb s hs.1 h1
      obtain ⟨m', hm', hr'⟩ := ih m1 db1 db' hr1 (exec_bare rc hb s hs.1 h1) hs.2 he
      refine ⟨m', ?_, hr'⟩
      rw [List.foldlM_cons]
      simp only [hm1, bind, Except.bind]
      exact hm'

/-- no statement of the fragment is a spelling the Postgres grammar rejects -/
theorem not_rejected (s : Stmt) (hs : s.pgSafe = true) : rejected s = false := by
  cases s with
  | createTable t ident cols pk =>
    simp only [Stmt.pgSafe, Bool.and_eq_true] at hs
    unfold rejected
    apply Bool.eq_false_iff.mpr
    intro hr
    obtain ⟨c, hc, hco⟩ := List.any_eq_true.mp hr
    have := List.all_eq_true.mp hs.2 c hc
    unfold ColDef.pgPlain at this
    simp only [Bool.and_eq_true, List.isEmpty_iff] at this
    rw [this.1] at hco
    simp at hco
  | addColumn t c pos =>
    cases pos with
    | first => simp [Stmt.pgSafe] at hs
    | after p => simp [Stmt.pgSafe] at hs
    | none => rfl
  | dropColumn t c => rfl
  | alterType t c typ => rfl
  | dropNotNull t c => rfl
  | _ => simp [Stmt.pgSafe] at hs

theorem run_rel (rc : Bool) (ss : List Stmt) (m : Migration) (db db' : DB) (h : Rel m db) (hb : DBBare db)
    (hs : ss.all Stmt.pgSafe = true) (he : execAll rc db ss = some db') : ∃ m', run m ss = .ok m' ∧ Rel m' db' := by
  obtain ⟨m', hm', hr⟩ := steps_rel rc ss m db db' h hb hs he
  refine ⟨m', ?_, hr⟩
  unfold run
  have : ss.any rejected = false := by
    apply Bool.eq_false_iff.mpr
    intro ha
    obtain ⟨s, hsm, hrj⟩ := List.any_eq_true.mp ha
    rw [not_rejected s (List.all_eq_true.mp hs s hsm)] at hrj
    cases hrj
  rw [this]
  exact hm'

/-- `Rel` gives the typed view -/
theorem typedView_of_rel {m : Migration} {db : DB} (hr : Rel m db) : ReaderMysql.typedView m = ReaderMysql.typedSpec db := by
  unfold ReaderMysql.typedView ReaderMysql.typedSpec
  apply List.ext_getElem?
  intro i
  simp only [List.getElem?_map]
  have hv : (colView m)[i]? = (specView db)[i]? := by rw [hr.view]
  simp only [colView, specView, List.getElem?_map] at hv
  cases hmi : m.tables[i]? with
  | none =>
    rw [hmi] at hv
    cases hdi : db[i]? with
    | none => rfl
    | some y => rw [hdi] at hv; cases hv
  | some tm =>
    rw [hmi] at hv
    cases hdi : db[i]? with
    | none => rw [hdi] at hv; cases hv
    | some tb =>
      rw [hdi] at hv
      have hv := Option.some.inj hv
      have hn : tm.name = tb.name := (Prod.mk.inj hv).1
      have hc : tm.colNames = tb.colNames := (Prod.mk.inj hv).2
      have hnd : tb.colNames.Nodup := by
        rw [← hc]; exact (hr.inv.each tm (List.mem_of_getElem? hmi)).cols.nodup
      simp only [Option.map_some]
      rw [hn, ReaderMysql.typed_cols tm tb hc hnd (hr.types i tm tb hmi hdi)]

/-- **C05 for the Postgres reader glue, names, positions and types.**  For every script (any length) over the fragment
    — CREATE TABLE / ADD COLUMN with option-free columns, DROP COLUMN, ALTER COLUMN … TYPE, ALTER COLUMN … DROP NOT NULL,
    on names the parser does not quote — that the reference engine accepts from the empty schema, the reader model loads
    it without error and the loaded model has exactly the reference schema's tables, in order, each with exactly the
    reference schema's columns (name and type) in order; it satisfies the map invariant and has no pending position. -/
theorem fidelity (rc : Bool) (ss : List Stmt) (db : DB) (hs : ss.all Stmt.pgSafe = true)
    (he : execAll rc [] ss = some db) :
    ∃ m, run {} ss = .ok m ∧ ReaderMysql.typedView m = ReaderMysql.typedSpec db ∧ m.Inv ∧ m.NoPending := by
  obtain ⟨m, hm, hr⟩ := run_rel rc ss {} [] db Rel.empty (by intro tb h; cases h) hs he
  exact ⟨m, hm, typedView_of_rel hr, hr.inv, hr.np⟩

end ReaderPg
end Sqlize
