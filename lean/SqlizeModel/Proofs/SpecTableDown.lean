/-
  Proofs/SpecTableDown.lean — C02, the column and index clauses of one table composed on the reference engine (the
  mirror of Proofs/SpecTable.lean).
-/
import SqlizeModel.Proofs.SpecTable
import SqlizeModel.Proofs.EndToEndElemsDown
import SqlizeModel.Proofs.UntouchedDown
import SqlizeModel.Abs.FkDrop

namespace Sqlize
open Spec

namespace Table

/-- MySQL: the dropped-column list the down column walk returns is the list of its DROP COLUMN statements -/
theorem walkCols_dropNames_down (g : Globals) (hg : g.dialect = .mysql) (tb : String) : ∀ (cols before : List Column),
    (walkCols g tb false before cols).2 = (walkCols g tb false before cols).1.filterMap dropName := by
  intro cols
  induction cols with
  | nil => intro before; rfl
  | cons c rest ih =>
    intro before
    unfold walkCols
    simp only
    by_cases hnone : (c.action == .none) = true
    · simp only [hnone, if_true]; exact ih _
    · simp only [hnone, Bool.false_eq_true, if_false]
      rw [List.filterMap_append, ← ih (before ++ [c])]
      congr 1
      unfold Column.migrationDownAlter Column.migrationUpAlter
      cases ha : c.action <;> simp [dropName, hg]

end Table

theorem create_mem_emitDownSup (D : List String) (N O : List IdxSpec) (i : IdxSpec)
    (h : Abs.Idx.IStmt.create i ∈ Abs.Idx.emitDownSup D N O) : i ∈ O := by
  unfold Abs.Idx.emitDownSup at h
  rcases List.mem_append.mp h with h1 | h1
  · obtain ⟨s, _, hm⟩ := List.mem_flatMap.mp h1
    unfold Abs.Idx.emitDownSupOne at hm
    split at hm
    · split at hm
      · cases hm
      · simp at hm
    · rename_i o hf
      split at hm
      · cases hm
      · have : i = o := by simpa using hm
        rw [this]; exact List.mem_of_find?_eq_some hf
  · obtain ⟨o, ho, he⟩ := List.mem_map.mp h1
    have : o = i := by injection he
    rw [← this]; exact (List.mem_filter.mp ho).1

/-- **C02, the column and index clauses composed on the reference engine.**  Under the hypotheses of
    `columns_spec_down`, for a table whose primary key is the same on both sides, and outside the recorded finding (no
    index redefined under its name while every column of its new definition is dropped on the way down): the statements
    `MigrationColumnDown` and `MigrationIndexDown` print for the diffed record, executed in that order by
    `Spec.execAll` on any schema that holds the *new* table (referential checks aside), are well-formed at every step;
    afterwards the table has the old side's columns (same names, order, types, options up to order), the old side's
    indexes up to order and its primary key, and every other table is untouched. -/
theorem table_spec_down_any (g : Globals) (hg : g.dialect = .mysql) (hio : g.ignoreOrder = false) (rc : Bool)
    (old new : List Stmt) (dbO dbN : DB) (ho : old.all Stmt.elemSafe = true) (hn : new.all Stmt.elemSafe = true)
    (hpo : old.all Stmt.plainOpts = true) (hpn : new.all Stmt.plainOpts = true)
    (heo : execAll rc [] old = some dbO) (hen : execAll rc [] new = some dbN)
    (d : Migration) (hd : loadAndDiff g old new = .ok d)
    (t : String) (tbO tbN : TableSpec) (hfo : dbO.find t = some tbO) (hfn : dbN.find t = some tbN)
    (hc : Abs.OrderCompatible tbN.colNames tbO.colNames) (hne : ∀ n ∈ tbN.colNames ++ tbO.colNames, n ≠ "")
    (hpk : tbO.pk = tbN.pk)
    (hredef : ∀ dc : List String, (∀ c ∈ dc, c ∉ tbO.colNames) →
      ∀ s ∈ tbN.idxs, ∀ o ∈ tbO.idxs, o.name = s.name → o ≠ s → ∃ c ∈ s.cols, c ∉ dc) :
    ∃ td ∈ d.tables, td.name = t ∧
      ∃ cs dc is, td.migrationColumnDown g = .ok (cs, dc) ∧ td.migrationIndexDown g dc = .ok is ∧
        ∀ db0 : DB, (db0.map (·.name)).Nodup → db0.find t = some tbN →
        ∃ db' tb', execAll false db0 (cs ++ is) = some db' ∧ db'.find t = some tb' ∧
          colsEquiv tb'.cols tbO.cols = true ∧ tb'.idxs.Perm tbO.idxs ∧
          tb'.pk = tbO.pk ∧ tb'.name = t ∧ tb'.fks = Abs.Idx.pruneFk dc tbN.fks ∧ (∀ c ∈ dc, c ∉ tbO.colNames) ∧
          (∀ u, u ≠ t → db'.find u = db0.find u) ∧ db'.map (·.name) = db0.map (·.name) := by
  have hoc : old.all Stmt.colSafe = true :=
    List.all_eq_true.mpr (fun s hs => Stmt.colSafe_of_elemSafe s (List.all_eq_true.mp ho s hs))
  have hnc : new.all Stmt.colSafe = true :=
    List.all_eq_true.mpr (fun s hs => Stmt.colSafe_of_elemSafe s (List.all_eq_true.mp hn s hs))
  have hto : old.all Stmt.tablePk = true :=
    List.all_eq_true.mpr (fun s hs => ReaderMysql.tablePk_of_plainOpts s (List.all_eq_true.mp hpo s hs))
  have htn : new.all Stmt.tablePk = true :=
    List.all_eq_true.mpr (fun s hs => ReaderMysql.tablePk_of_plainOpts s (List.all_eq_true.mp hpn s hs))
  -- the column part
  obtain ⟨td, htd, hname, hact, hup, cols', hex, heq, hss⟩ := columns_spec_down_pre g hg hio rc old new dbO dbN ho hn hpo hpn
    heo hen d hd t tbO tbN hfo hfn hc hne
  -- uniqueness of the diffed record
  have hdInv : d.Inv := by
    have hd' := hd
    unfold loadAndDiff at hd'
    obtain ⟨o, hlo, hd'⟩ := bind_ok hd'
    obtain ⟨n, hln, hd'⟩ := bind_ok hd'
    obtain ⟨mo', hmo', hro'⟩ := ReaderMysql.run_rel rc old {} [] dbO Rel.empty hoc heo
    obtain ⟨mn, hmn', hrn⟩ := ReaderMysql.run_rel rc new {} [] dbN Rel.empty hnc hen
    have : mo' = o := by
      have : readScript g {} old = .ok mo' := by unfold readScript; rw [hg]; exact hmo'
      rw [this] at hlo; exact Except.ok.inj hlo
    subst this
    have : mn = n := by
      have : readScript g {} new = .ok mn := by unfold readScript; rw [hg]; exact hmn'
      rw [this] at hln; exact Except.ok.inj hln
    subst this
    exact Migration.diff_inv g.dialect mn mo' d hrn.inv hro'.inv hrn.np hd'
  have huniq : ∀ td' ∈ d.tables, td'.name = t → td' = td := fun td' h1 h2 =>
    eq_of_name_nodup (fun x : Table => x.name) hdInv.tbls.nodup h1 htd (h2.trans hname.symm)
  -- the index part
  obtain ⟨td2, h21, h22, _, cs, dc, is, hcs, his, hdcN, hproj, hcorr, hcs', hdc', hshape, _, _⟩ :=
    indexes_with_drops_end_to_end_down' g hg hio rc old new dbO dbN ho hn heo hen d hd t tbO tbN hfo hfn hne
  have e2 := huniq td2 h21 h22
  subst e2
  obtain ⟨td3, h31, h32, _, hnopk⟩ := equal_pk_untouched_down g hg rc old new dbO dbN ho hn hto htn heo hen d hd t tbO tbN hfo hfn hpk
  have e3 := huniq td3 h31 h32
  subst e3
  -- no PRIMARY KEY statement among the index statements
  have hisIdx : ∀ s ∈ is, s.table = t ∧ (idxStmt s).isSome = true := by
    intro s hs
    obtain ⟨ss', hw', hnp⟩ := hnopk dc
    have his' : td3.migrationIndexDown g dc = .ok ss' := by
      unfold Table.migrationIndexDown; rw [hact, hname]; exact hw'
    rw [his] at his'
    have : is = ss' := Except.ok.inj his'
    subst this
    obtain ⟨ht', hkind⟩ := hshape s hs
    refine ⟨ht', ?_⟩
    rcases hkind with ⟨cols, rfl⟩ | rfl | h
    · have := hnp _ hs; simp [pkStmt] at this
    · have := hnp _ hs; simp [pkStmt] at this
    · exact h
  -- the reference tables are well-formed
  have hwfN : tbN.WF := execAll_wf rc new [] dbN hnc wf_empty hen tbN (mem_of_find hfn)
  have hwfO : tbO.WF := execAll_wf rc old [] dbO hoc wf_empty heo tbO (mem_of_find hfo)
  -- run the column statements
  subst hcs' hdc'
  have hdrop : (Table.walkCols g t false [] td3.cols).1.filterMap dropName = (Table.walkCols g t false [] td3.cols).2 :=
    (Table.walkCols_dropNames_down g hg t td3.cols []).symm
  have hpkO : tbO.PkIn := execAll_pkin rc old [] dbO hoc pkin_empty heo tbO (mem_of_find hfo)
  obtain ⟨R, hR, hperm⟩ := hcorr (hredef _ hdcN)
  refine ⟨td3, htd, hname, _, _, is, hcs, his, ?_⟩
  intro db0 hnd0 hf0
  obtain ⟨db1, tb1, he1, hf1, hc1, hn1, hi1, hp1, hfk1, hother1, hnames1⟩ :=
    execAll_of_colExecAll_full _ db0 t tbN cols' hnd0 hf0 hss hex
  rw [hdrop] at hi1 hp1
  have hi1' : tb1.idxs = Abs.Idx.prune (Table.walkCols g t false [] td3.cols).2 tbN.idxs := by
    rw [hi1]; exact Abs.Idx.dropCols_idxs _ tbN.idxs (fun i hi => (hwfN i hi).1)
  -- run the index statements
  have hnames : tb1.colNames = tbO.colNames := by
    show tb1.cols.map (·.name) = tbO.cols.map (·.name)
    rw [hc1]; exact colsEquiv_names _ _ heq
  have hnd1 : (db1.map (·.name)).Nodup := by rw [hnames1]; exact hnd0
  obtain ⟨db2, he2, hf2, hother2, hnames2⟩ := execAll_idx is db1 t tb1 R hnd1 hf1 hisIdx (by
      intro i hi
      rw [hproj] at hi
      have hiN := create_mem_emitDownSup _ _ _ i hi
      refine ⟨(hwfO i hiN).1, fun c hc' => ?_⟩
      rw [hnames]; exact (hwfO i hiN).2 c hc') (by rw [hi1']; exact hR)
  -- the primary key names columns of the new table: none of them is dropped
  have hpkfin : tb1.pk = tbO.pk := by
    rw [hp1, ← hpk]
    apply List.filter_eq_self.mpr
    intro c hc
    have : c ∉ (Table.walkCols g t false [] td3.cols).2 := fun hcd => hdcN c hcd (hpkO.1 c hc)
    simpa using this
  have hnameO : tbN.name = t := by
    obtain ⟨_, _, hn0⟩ := find_getElem db0 t tbN hf0
    exact hn0
  refine ⟨db2, { tb1 with idxs := R }, ?_, hf2, ?_, hperm, hpkfin, hn1.trans hnameO, ?_, hdcN, ?_, hnames2.trans hnames1⟩
  · rw [execAll_append, he1]; exact he2
  · show colsEquiv tb1.cols tbO.cols = true
    rw [hc1]; exact heq
  · show tb1.fks = _
    rw [hfk1, hdrop]; rfl
  · intro u hu
    rw [hother2 u hu, hother1 u hu]


end Sqlize
