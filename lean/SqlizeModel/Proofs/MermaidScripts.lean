/-
  Proofs/MermaidScripts.lean — C14 from scripts, the structural part: the entity blocks of the ERD of a loaded script are
  the selected tables of the *reference schema* in its order, and the attribute lines of a block are its columns in table
  order with the reference column's name and (abbreviated) type.  The PK/FK marker and the comment of a line are not
  covered here (the marker reads the column's own PRIMARY KEY option and foreign-key mark, the comment a field the
  simulation relation does not follow); they are decided by the export suite on every run.
-/
import SqlizeModel.Proofs.AvroScripts
import SqlizeModel.Proofs.FidelityPg

namespace Sqlize
open Spec

/-- data type and name of an attribute line, as the builder prints them -/
def Mermaid.lineCore (c : Column) : String × String := (Mermaid.dataType c, c.name)
/-- … and as the reference schema gives them -/
def Exports.lineCore (c : ColSpec) : String × String := (Exports.abbreviate c.typ, c.name)

theorem lineCore_of_spec (c : Column) (cs : ColSpec) (hn : cs.name = c.name) (ht : c.cur.typ = some cs.typ) :
    Mermaid.lineCore c = Exports.lineCore cs := by
  unfold Mermaid.lineCore Exports.lineCore Mermaid.dataType Exports.abbreviate
  have htt : c.cur.typeText = cs.typ := by unfold Attr.typeText; rw [ht]; rfl
  rw [htt, hn]

theorem cols_lineCore : ∀ (a : List Column) (b : List ColSpec), a.map (·.name) = b.map (·.name) →
    (b.map (·.name)).Nodup → (∀ c ∈ a, ∃ cs ∈ b, cs.name = c.name ∧ c.cur.typ = some cs.typ) →
    a.map Mermaid.lineCore = b.map Exports.lineCore := by
  intro a
  induction a with
  | nil => intro b h _ _; cases b with
    | nil => rfl
    | cons _ _ => simp at h
  | cons c r ih =>
    intro b h hnd ht
    cases b with
    | nil => simp at h
    | cons y r' =>
      simp only [List.map_cons, List.cons.injEq] at h
      rw [List.map_cons, List.nodup_cons] at hnd
      obtain ⟨cs, hcs, hcsn, hcst⟩ := ht c (by simp)
      have hy : cs = y := by
        rcases List.mem_cons.mp hcs with e | e
        · exact e
        · exfalso
          apply hnd.1
          rw [← h.1, ← hcsn]
          exact List.mem_map_of_mem e
      subst hy
      rw [List.map_cons, List.map_cons]
      congr 1
      · exact lineCore_of_spec c cs hcsn hcst
      · apply ih r' h.2 hnd.2
        intro c' hc'
        obtain ⟨cs', hcs', h1, h2⟩ := ht c' (List.mem_cons_of_mem _ hc')
        rcases List.mem_cons.mp hcs' with e | e
        · exfalso
          apply hnd.1
          have : c'.name ∈ r.map (·.name) := List.mem_map_of_mem hc'
          rw [h.2] at this
          rw [← e, h1]; exact this
        · exact ⟨cs', e, h1, h2⟩

/-- a model related to a reference schema shows its tables and columns -/
theorem erd_blocks_of_rel (m : Migration) (db : DB) (hr : Rel m db) (need : List String) :
    (Mermaid.selectTables m need).map (fun t => (t.name, t.cols.map Mermaid.lineCore)) =
      (Exports.selectDB db need).map (fun t => (t.name, t.cols.map Exports.lineCore)) := by
  unfold Mermaid.selectTables Exports.selectDB
  have hview := hr.view
  unfold colView specView at hview
  have hlen : m.tables.length = db.length := by simpa using congrArg List.length hview
  apply filter_map_pos (fun t : Table => t.name) (fun t : TableSpec => t.name) (fun n => need.isEmpty || need.contains n)
    (fun t : Table => (t.name, t.cols.map Mermaid.lineCore)) (fun t : TableSpec => (t.name, t.cols.map Exports.lineCore))
    m.tables db hlen
  intro i tm tb htm htb
  have hpair : (tm.name, tm.colNames) = (tb.name, tb.colNames) := by
    have h1 : (m.tables.map (fun t => (t.name, t.colNames)))[i]? = some (tm.name, tm.colNames) := by
      rw [List.getElem?_map, htm]; rfl
    have h2 : (db.map (fun t => (t.name, t.colNames)))[i]? = some (tb.name, tb.colNames) := by
      rw [List.getElem?_map, htb]; rfl
    rw [hview, h2] at h1
    exact (Option.some.inj h1).symm
  have hn : tm.name = tb.name := (Prod.mk.inj hpair).1
  have hc : tm.colNames = tb.colNames := (Prod.mk.inj hpair).2
  refine ⟨hn, ?_⟩
  rw [hn]
  congr 1
  have hnd : (tb.cols.map (·.name)).Nodup := by
    have := (hr.inv.each tm (List.mem_of_getElem? htm)).cols.nodup
    have hc' : tm.cols.map (·.name) = tb.cols.map (·.name) := hc
    rw [← hc']; exact this
  exact cols_lineCore tm.cols tb.cols hc hnd (fun c hc' => by
    obtain ⟨cs, h1, h2, h3, _⟩ := hr.types i tm tb htm htb c hc'
    exact ⟨cs, h1, h2, h3⟩)

/-- **C14 from scripts, tables and columns** (MySQL reader model): the blocks of the ERD are the selected reference tables
    in order, their lines the reference columns in order with the reference name and abbreviated type -/
theorem erd_blocks_of_schema (rc : Bool) (ss : List Stmt) (db : DB) (hs : ss.all Stmt.colSafe = true)
    (he : execAll rc [] ss = some db) (need : List String) :
    ∃ m, ReaderMysql.run {} ss = .ok m ∧
      (Mermaid.selectTables m need).map (fun t => (t.name, t.cols.map Mermaid.lineCore)) =
        (Exports.selectDB db need).map (fun t => (t.name, t.cols.map Exports.lineCore)) := by
  obtain ⟨m, hm, hr⟩ := ReaderMysql.run_rel rc ss {} [] db Rel.empty hs he
  exact ⟨m, hm, erd_blocks_of_rel m db hr need⟩

/-- … and the Postgres reader model, on the fragment its fidelity theorem covers (plain names, columns without options) -/
theorem erd_blocks_of_schema_pg (rc : Bool) (ss : List Stmt) (db : DB) (hs : ss.all Stmt.pgSafe = true)
    (he : execAll rc [] ss = some db) (need : List String) :
    ∃ m, ReaderPg.run {} ss = .ok m ∧
      (Mermaid.selectTables m need).map (fun t => (t.name, t.cols.map Mermaid.lineCore)) =
        (Exports.selectDB db need).map (fun t => (t.name, t.cols.map Exports.lineCore)) := by
  obtain ⟨m, hm, hr⟩ := ReaderPg.run_rel rc ss {} [] db Rel.empty (fun tb htb => (by cases htb)) hs he
  exact ⟨m, hm, erd_blocks_of_rel m db hr need⟩

end Sqlize
