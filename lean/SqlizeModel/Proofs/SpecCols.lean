import SqlizeModel.Proofs.Changed

namespace Sqlize
open Spec

/-- the reference engine's column statements on the column list of one table (definitions without PRIMARY KEY flag) -/
def colExec (cols : List ColSpec) : Stmt → Option (List ColSpec)
  | .addColumn _ c pos =>
    if cols.any (·.name == c.name) then none else
    match pos with
    | .none => some (cols ++ [(colOf c).1])
    | .first => some ((colOf c).1 :: cols)
    | .after p => insertAfter p (colOf c).1 cols
  | .dropColumn _ c => if cols.any (·.name == c) then some (cols.filter (·.name != c)) else none
  | .modifyColumn _ c =>
    if cols.any (·.name == c.name) then some (cols.map (fun x => if x.name == c.name then (colOf c).1 else x)) else none
  | _ => none

def colExecAll (cols : List ColSpec) : List Stmt → Option (List ColSpec)
  | [] => some cols
  | s :: ss => (colExec cols s).bind (colExecAll · ss)

/-- the definition a column statement carries has no PRIMARY KEY flag -/
def Stmt.defNoPk : Stmt → Bool
  | .addColumn _ c _ => !(colOf c).2
  | .modifyColumn _ c => !(colOf c).2
  | _ => true

/-- bridge: on a database, a column statement about table `t` is `colExec` on that table's column list -/
theorem exec_of_colExec (db : DB) (t : String) (tb : TableSpec) (hf : db.find t = some tb) (s : Stmt)
    (hst : s.table = t) (hpk : s.defNoPk = true) (cols' : List ColSpec) (hc : colExec tb.cols s = some cols') :
    ∃ tb', exec false db s = some (db.replace tb') ∧ tb'.name = tb.name ∧ tb'.cols = cols' := by
  cases s with
  | addColumn t' c pos =>
    have : t' = t := hst
    subst this
    simp only [Stmt.defNoPk, Bool.not_eq_true'] at hpk
    simp only [colExec] at hc
    split at hc
    · cases hc
    · rename_i hany
      have hcol : tb.hasCol c.name = false := by
        unfold TableSpec.hasCol; simpa using hany
      simp only [exec, hf]
      have hco : colOf c = ((colOf c).1, false) := by rw [← hpk]
      rw [hco]
      simp only [hcol, Bool.false_eq_true, if_false, Bool.false_and]
      cases pos with
      | none =>
        simp only at hc
        have := Option.some.inj hc; subst this
        exact ⟨_, rfl, rfl, rfl⟩
      | first =>
        simp only at hc
        have := Option.some.inj hc; subst this
        exact ⟨_, rfl, rfl, rfl⟩
      | after p =>
        simp only at hc
        simp only [hc]
        exact ⟨_, rfl, rfl, rfl⟩
  | dropColumn t' c =>
    have : t' = t := hst
    subst this
    simp only [colExec] at hc
    split at hc
    · rename_i hany
      have := Option.some.inj hc; subst this
      have hcol : tb.hasCol c = true := by unfold TableSpec.hasCol; exact hany
      simp only [exec, hf, hcol, Bool.not_true, Bool.false_eq_true, if_false, Bool.false_and]
      exact ⟨_, rfl, rfl, rfl⟩
    · cases hc
  | modifyColumn t' c =>
    have : t' = t := hst
    subst this
    simp only [Stmt.defNoPk, Bool.not_eq_true'] at hpk
    simp only [colExec] at hc
    split at hc
    · rename_i hany
      have := Option.some.inj hc; subst this
      have hcol : tb.hasCol c.name = true := by unfold TableSpec.hasCol; exact hany
      have hco : colOf c = ((colOf c).1, false) := by rw [← hpk]
      simp only [exec, hf]
      rw [hco]
      simp only [hcol, Bool.not_true, Bool.false_eq_true, if_false, Bool.false_and]
      exact ⟨_, rfl, rfl, rfl⟩
    · cases hc
  | _ => simp [colExec] at hc

/-- `insertAfter`: exactly the old elements and the new one; on names it is the abstract machine's `insertAfter` -/
theorem insertAfter_iff (p : String) (c : ColSpec) : ∀ (l l' : List ColSpec), insertAfter p c l = some l' →
    (∀ y, y ∈ l' ↔ y ∈ l ∨ y = c) ∧ Abs.insertAfter p c.name (l.map (·.name)) = some (l'.map (·.name)) := by
  intro l
  induction l with
  | nil => intro l' h; simp [insertAfter] at h
  | cons x r ih =>
    intro l' h
    unfold insertAfter at h
    by_cases hx : (x.name == p) = true
    · rw [if_pos hx] at h
      have := Option.some.inj h; subst this
      have hxp : x.name = p := by simpa using hx
      refine ⟨fun y => ?_, ?_⟩
      · simp only [List.mem_cons]
        constructor
        · intro h; rcases h with h | h | h
          · exact Or.inl (Or.inl h)
          · exact Or.inr h
          · exact Or.inl (Or.inr h)
        · intro h; rcases h with (h | h) | h
          · exact Or.inl h
          · exact Or.inr (Or.inr h)
          · exact Or.inr (Or.inl h)
      · simp [Abs.insertAfter, hxp]
    · rw [if_neg hx] at h
      cases hr : insertAfter p c r with
      | none => rw [hr] at h; cases h
      | some r' =>
        rw [hr] at h
        have := Option.some.inj h; subst this
        obtain ⟨h1, h2⟩ := ih r' hr
        have hxp : ¬ x.name = p := by simpa using hx
        refine ⟨fun y => ?_, ?_⟩
        · simp only [List.mem_cons, h1 y]
          constructor
          · intro h; rcases h with h | h | h
            · exact Or.inl (Or.inl h)
            · exact Or.inl (Or.inr h)
            · exact Or.inr h
          · intro h; rcases h with (h | h) | h
            · exact Or.inl h
            · exact Or.inr (Or.inl h)
            · exact Or.inr (Or.inr h)
        · simp [Abs.insertAfter, hxp, h2]

theorem insertAfter_of_abs (p : String) (c : ColSpec) : ∀ (l : List ColSpec) (L' : List String),
    Abs.insertAfter p c.name (l.map (·.name)) = some L' → ∃ l', insertAfter p c l = some l' ∧ l'.map (·.name) = L' := by
  intro l
  induction l with
  | nil => intro L' h; simp [Abs.insertAfter] at h
  | cons x r ih =>
    intro L' h
    simp only [List.map_cons, Abs.insertAfter] at h
    by_cases hx : x.name = p
    · rw [if_pos hx] at h
      have := Option.some.inj h; subst this
      exact ⟨x :: c :: r, by simp [insertAfter, hx], by simp⟩
    · rw [if_neg hx] at h
      cases hr : Abs.insertAfter p c.name (r.map (·.name)) with
      | none => rw [hr] at h; cases h
      | some R =>
        rw [hr] at h
        have := Option.some.inj h; subst this
        obtain ⟨r', h1, h2⟩ := ih R hr
        refine ⟨x :: r', ?_, by simp [h2]⟩
        have : (x.name == p) = false := by simpa using hx
        simp [insertAfter, this, h1]

theorem colOf_name (c : ColDef) : (colOf c).1.name = c.name := by unfold colOf; rfl

theorem any_name_iff (cols : List ColSpec) (n : String) : cols.any (·.name == n) = true ↔ n ∈ cols.map (·.name) := by
  simp [List.any_eq_true, List.mem_map]

/-- a step about another column leaves the records of column `n` alone -/
theorem colExec_other (cols cols' : List ColSpec) (s : Stmt) (m n : String) (hs : stmtCol s = some m) (hmn : m ≠ n)
    (hc : colExec cols s = some cols') : ∀ x : ColSpec, x.name = n → (x ∈ cols' ↔ x ∈ cols) := by
  intro x hxn
  cases s with
  | addColumn t c pos =>
    have hm : c.name = m := by simpa [stmtCol] using hs
    have hne : x ≠ (colOf c).1 := by
      intro e; rw [e, colOf_name] at hxn; exact hmn (hm.symm.trans hxn)
    simp only [colExec] at hc
    split at hc
    · cases hc
    · cases pos with
      | none => simp only at hc; have := Option.some.inj hc; subst this; simp [hne]
      | first => simp only at hc; have := Option.some.inj hc; subst this; simp [hne]
      | after p => simp only at hc; rw [(insertAfter_iff p _ cols cols' hc).1 x]; simp [hne]
  | dropColumn t c =>
    have hm : c = m := by simpa [stmtCol] using hs
    simp only [colExec] at hc
    split at hc
    · have := Option.some.inj hc; subst this
      rw [List.mem_filter]
      have : (x.name != c) = true := by rw [hxn, hm]; simpa using (Ne.symm hmn)
      simp [this]
    · cases hc
  | modifyColumn t c =>
    have hm : c.name = m := by simpa [stmtCol] using hs
    simp only [colExec] at hc
    split at hc
    · have := Option.some.inj hc; subst this
      rw [List.mem_map]
      constructor
      · rintro ⟨y, hy, he⟩
        by_cases hyn : (y.name == c.name) = true
        · rw [if_pos hyn] at he
          rw [← he, colOf_name] at hxn
          exact absurd (hm.symm.trans hxn) hmn
        · rw [if_neg hyn] at he; rw [← he]; exact hy
      · intro hx
        refine ⟨x, hx, ?_⟩
        have : (x.name == c.name) = false := by rw [hxn, hm]; simpa using (Ne.symm hmn)
        simp [this]
    · cases hc
  | _ => simp [stmtCol] at hs

/-- a step that adds or modifies column `n` makes the definition it carries the one record of that name -/
theorem colExec_self (cols cols' : List ColSpec) (s : Stmt) (c : ColDef)
    (hs : (∃ t pos, s = .addColumn t c pos) ∨ (∃ t, s = .modifyColumn t c))
    (hc : colExec cols s = some cols') : ∀ x : ColSpec, x.name = c.name → (x ∈ cols' ↔ x = (colOf c).1) := by
  intro x hxn
  rcases hs with ⟨t, pos, rfl⟩ | ⟨t, rfl⟩
  · simp only [colExec] at hc
    split at hc
    · cases hc
    · rename_i hany
      have hnot : x ∉ cols := by
        intro hx
        exact hany ((any_name_iff cols c.name).mpr (hxn ▸ List.mem_map_of_mem hx))
      cases pos with
      | none => simp only at hc; have := Option.some.inj hc; subst this; simp [hnot]
      | first => simp only at hc; have := Option.some.inj hc; subst this; simp [hnot]
      | after p => simp only at hc; rw [(insertAfter_iff p _ cols cols' hc).1 x]; simp [hnot]
  · simp only [colExec] at hc
    split at hc
    · rename_i hany
      have := Option.some.inj hc; subst this
      rw [List.mem_map]
      constructor
      · rintro ⟨y, hy, he⟩
        by_cases hyn : (y.name == c.name) = true
        · rw [if_pos hyn] at he; exact he.symm
        · rw [if_neg hyn] at he
          rw [← he] at hxn
          exact absurd (by simpa using hxn) hyn
      · intro hx
        obtain ⟨y, hy, hyn⟩ := List.mem_map.mp ((any_name_iff cols c.name).mp hany)
        exact ⟨y, hy, by simp [hyn, hx]⟩
    · cases hc

/-- the names: a step of `colExec` is the abstract machine's step on the names, and succeeds when that one does -/
theorem colExec_of_abs (cols : List ColSpec) (hnd : (cols.map (·.name)).Nodup) (s : Stmt) (a : Abs.Stmt)
    (hs : colStmt s = some a) (L' : List String) (he : Abs.exec (cols.map (·.name)) a = some L') :
    ∃ cols', colExec cols s = some cols' ∧ cols'.map (·.name) = L' := by
  cases s with
  | addColumn t c pos =>
    cases pos with
    | none =>
      have : a = .appendCol c.name := by simpa [colStmt] using hs.symm
      subst this
      simp only [Abs.exec] at he
      split at he
      · cases he
      · rename_i hnot
        have := Option.some.inj he; subst this
        have hany : cols.any (·.name == c.name) = false := by
          cases h : cols.any (·.name == c.name) with
          | true => exact absurd ((any_name_iff cols c.name).mp h) hnot
          | false => rfl
        exact ⟨cols ++ [(colOf c).1], by simp [colExec, hany], by simp [colOf_name]⟩
    | first =>
      have : a = .addCol c.name none := by simpa [colStmt] using hs.symm
      subst this
      simp only [Abs.exec] at he
      split at he
      · cases he
      · rename_i hnot
        have := Option.some.inj he; subst this
        have hany : cols.any (·.name == c.name) = false := by
          cases h : cols.any (·.name == c.name) with
          | true => exact absurd ((any_name_iff cols c.name).mp h) hnot
          | false => rfl
        exact ⟨(colOf c).1 :: cols, by simp [colExec, hany], by simp [colOf_name]⟩
    | after p =>
      have : a = .addCol c.name (some p) := by simpa [colStmt] using hs.symm
      subst this
      simp only [Abs.exec] at he
      split at he
      · cases he
      · rename_i hnot
        have hany : cols.any (·.name == c.name) = false := by
          cases h : cols.any (·.name == c.name) with
          | true => exact absurd ((any_name_iff cols c.name).mp h) hnot
          | false => rfl
        have he' : Abs.insertAfter p (colOf c).1.name (cols.map (·.name)) = some L' := by rw [colOf_name]; exact he
        obtain ⟨l', h1, h2⟩ := insertAfter_of_abs p (colOf c).1 cols L' he'
        exact ⟨l', by simp [colExec, hany, h1], h2⟩
  | dropColumn t c =>
    have : a = .dropCol c := by simpa [colStmt] using hs.symm
    subst this
    simp only [Abs.exec] at he
    split at he
    · rename_i hmem
      have := Option.some.inj he; subst this
      have hany : cols.any (·.name == c) = true := (any_name_iff cols c).mpr hmem
      refine ⟨cols.filter (·.name != c), by simp [colExec, hany], ?_⟩
      have : (cols.map (·.name)).erase c = (cols.map (·.name)).filter (· != c) := by
        exact (List.Nodup.erase_eq_filter hnd c)
      rw [this, List.filter_map]
      rfl
    · cases he
  | _ => simp [colStmt] at hs

theorem abs_insertAfter_perm (p c : String) : ∀ (L L' : List String), Abs.insertAfter p c L = some L' → L'.Perm (c :: L) := by
  intro L
  induction L with
  | nil => intro L' h; simp [Abs.insertAfter] at h
  | cons x r ih =>
    intro L' h
    simp only [Abs.insertAfter] at h
    by_cases hx : x = p
    · rw [if_pos hx] at h
      have := Option.some.inj h; subst this
      exact List.Perm.swap c x r
    · rw [if_neg hx] at h
      cases hr : Abs.insertAfter p c r with
      | none => rw [hr] at h; cases h
      | some R =>
        rw [hr] at h
        have := Option.some.inj h; subst this
        exact ((ih R hr).cons x).trans (List.Perm.swap c x r)

theorem abs_exec_nodup (L L' : List String) (a : Abs.Stmt) (h : L.Nodup) (he : Abs.exec L a = some L') : L'.Nodup := by
  cases a with
  | addCol c after =>
    cases after with
    | none =>
      simp only [Abs.exec] at he
      split at he
      · cases he
      · rename_i hn; have := Option.some.inj he; subst this; exact List.nodup_cons.mpr ⟨hn, h⟩
    | some p =>
      simp only [Abs.exec] at he
      split at he
      · cases he
      · rename_i hn
        exact (abs_insertAfter_perm p c L L' he).nodup_iff.mpr (List.nodup_cons.mpr ⟨hn, h⟩)
  | appendCol c =>
    simp only [Abs.exec] at he
    split at he
    · cases he
    · rename_i hn
      have := Option.some.inj he; subst this
      exact (List.perm_append_singleton c L).nodup_iff.mpr (List.nodup_cons.mpr ⟨hn, h⟩)
  | dropCol c =>
    simp only [Abs.exec] at he
    split at he
    · have := Option.some.inj he; subst this; exact h.erase c
    · cases he

/-- membership of another name is not affected by a step of the abstract machine -/
theorem abs_exec_mem_other (L L' : List String) (a : Abs.Stmt) (n : String)
    (hn : ∀ c p, a = .addCol c p → c ≠ n) (hn2 : ∀ c, a = .appendCol c → c ≠ n) (hn3 : a ≠ .dropCol n)
    (he : Abs.exec L a = some L') : n ∈ L' ↔ n ∈ L := by
  cases a with
  | addCol c after =>
    have hcn := hn c after rfl
    cases after with
    | none =>
      simp only [Abs.exec] at he
      split at he
      · cases he
      · have := Option.some.inj he; subst this; simp [Ne.symm hcn]
    | some p =>
      simp only [Abs.exec] at he
      split at he
      · cases he
      · rw [(abs_insertAfter_perm p c L L' he).mem_iff]; simp [Ne.symm hcn]
  | appendCol c =>
    have hcn := hn2 c rfl
    simp only [Abs.exec] at he
    split at he
    · cases he
    · have := Option.some.inj he; subst this; simp [Ne.symm hcn]
  | dropCol c =>
    have hcn : c ≠ n := fun e => hn3 (by rw [e])
    simp only [Abs.exec] at he
    split at he
    · have := Option.some.inj he; subst this
      exact List.mem_erase_of_ne (Ne.symm hcn)
    · cases he

/-- the sequence: when the abstract machine runs the ADD / DROP statements of `ss` on the names, and every MODIFY of
    `ss` is about a column that is there at the start and that no statement of `ss` drops, the reference engine runs
    `ss` on the column list and ends with those names -/
theorem colExecAll_of_abs : ∀ (ss : List Stmt) (cols : List ColSpec) (L : List String),
    (cols.map (·.name)).Nodup →
    (∀ s ∈ ss, (∃ a, colStmt s = some a) ∨ (∃ t c, s = .modifyColumn t c ∧ c.name ∈ cols.map (·.name) ∧
        ∀ s' ∈ ss, colStmt s' ≠ some (.dropCol c.name))) →
    Abs.execAll (cols.map (·.name)) (ss.filterMap colStmt) = some L →
    ∃ cols', colExecAll cols ss = some cols' ∧ cols'.map (·.name) = L := by
  intro ss
  induction ss with
  | nil =>
    intro cols L _ _ he
    simp only [List.filterMap_nil, Abs.execAll] at he
    exact ⟨cols, rfl, Option.some.inj he⟩
  | cons s rest ih =>
    intro cols L hnd hss he
    rcases hss s (by simp) with ⟨a, ha⟩ | ⟨t, c, rfl, hpres, hnodrop⟩
    · -- an ADD or DROP: one step of the abstract machine
      rw [List.filterMap_cons, ha] at he
      simp only [Abs.execAll] at he
      cases h1 : Abs.exec (cols.map (·.name)) a with
      | none => rw [h1] at he; cases he
      | some L1 =>
        rw [h1] at he
        simp only [Option.bind_some] at he
        obtain ⟨cols1, hc1, hn1⟩ := colExec_of_abs cols hnd s a ha L1 h1
        have hnd1 : (cols1.map (·.name)).Nodup := by rw [hn1]; exact abs_exec_nodup _ _ a hnd h1
        obtain ⟨cols', hc', hn'⟩ := ih cols1 L hnd1 (by
          intro s' hs'
          rcases hss s' (List.mem_cons_of_mem _ hs') with h | ⟨t, c, e, hp, hd⟩
          · exact Or.inl h
          · refine Or.inr ⟨t, c, e, ?_, fun s'' hs'' => hd s'' (List.mem_cons_of_mem _ hs'')⟩
            rw [hn1]
            -- the step is not about `c.name` in a way that removes it
            have hnd' := hd s (by simp)
            rw [ha] at hnd'
            cases a with
            | dropCol x =>
              have hx : x ≠ c.name := fun e => hnd' (by rw [e])
              simp only [Abs.exec] at h1
              split at h1
              · have := Option.some.inj h1; subst this
                exact (List.mem_erase_of_ne (Ne.symm hx)).mpr hp
              · cases h1
            | addCol x after =>
              cases after with
              | none =>
                simp only [Abs.exec] at h1
                split at h1
                · cases h1
                · have := Option.some.inj h1; subst this; exact List.mem_cons_of_mem _ hp
              | some p =>
                simp only [Abs.exec] at h1
                split at h1
                · cases h1
                · exact (abs_insertAfter_perm p x _ L1 h1).mem_iff.mpr (List.mem_cons_of_mem _ hp)
            | appendCol x =>
              simp only [Abs.exec] at h1
              split at h1
              · cases h1
              · have := Option.some.inj h1; subst this; exact List.mem_append_left _ hp) (by rw [hn1]; exact he)
        exact ⟨cols', by simp only [colExecAll, hc1, Option.bind_some]; exact hc', hn'⟩
    · -- a MODIFY: the names stay
      have hcs : colStmt (Stmt.modifyColumn t c) = none := rfl
      rw [List.filterMap_cons, hcs] at he
      have hany : cols.any (·.name == c.name) = true := (any_name_iff cols c.name).mpr hpres
      let cols1 := cols.map (fun x => if x.name == c.name then (colOf c).1 else x)
      have hc1 : colExec cols (.modifyColumn t c) = some cols1 := by simp [colExec, hany, cols1]
      have hn1 : cols1.map (·.name) = cols.map (·.name) := by
        show (cols.map _).map _ = _
        rw [List.map_map]
        apply List.map_congr_left
        intro x _
        simp only [Function.comp_apply]
        split
        · rename_i hx; rw [colOf_name]; exact (by simpa using hx : x.name = c.name).symm
        · rfl
      obtain ⟨cols', hc', hn'⟩ := ih cols1 L (by rw [hn1]; exact hnd) (by
        intro s' hs'
        rcases hss s' (List.mem_cons_of_mem _ hs') with h | ⟨t', c', e, hp, hd⟩
        · exact Or.inl h
        · exact Or.inr ⟨t', c', e, by rw [hn1]; exact hp, fun s'' hs'' => hd s'' (List.mem_cons_of_mem _ hs'')⟩)
        (by rw [hn1]; exact he)
      exact ⟨cols', by simp only [colExecAll, hc1, Option.bind_some]; exact hc', hn'⟩

theorem colExec_about (cols cols' : List ColSpec) (s : Stmt) (hc : colExec cols s = some cols') : ∃ m, stmtCol s = some m := by
  cases s <;> simp [colExec] at hc <;> exact ⟨_, rfl⟩

theorem colExecAll_append (a b : List Stmt) : ∀ (cols : List ColSpec),
    colExecAll cols (a ++ b) = (colExecAll cols a).bind (colExecAll · b) := by
  induction a with
  | nil => intro cols; rfl
  | cons s r ih =>
    intro cols
    simp only [List.cons_append, colExecAll]
    cases colExec cols s with
    | none => rfl
    | some c1 => simp only [Option.bind_some]; exact ih c1

/-- a column no statement of the sequence is about keeps its record -/
theorem colExecAll_untouched : ∀ (ss : List Stmt) (cols cols' : List ColSpec) (n : String),
    colExecAll cols ss = some cols' → (∀ s ∈ ss, stmtCol s ≠ some n) →
    ∀ x : ColSpec, x.name = n → (x ∈ cols' ↔ x ∈ cols) := by
  intro ss
  induction ss with
  | nil => intro cols cols' n h _ x _; simp only [colExecAll] at h; rw [Option.some.inj h]
  | cons s r ih =>
    intro cols cols' n h hno x hx
    simp only [colExecAll] at h
    cases h1 : colExec cols s with
    | none => rw [h1] at h; cases h
    | some c1 =>
      rw [h1] at h
      simp only [Option.bind_some] at h
      obtain ⟨m, hm⟩ := colExec_about cols c1 s h1
      have hmn : m ≠ n := fun e => hno s (by simp) (by rw [hm, e])
      rw [ih c1 cols' n h (fun s' hs' => hno s' (List.mem_cons_of_mem _ hs')) x hx]
      exact colExec_other cols c1 s m n hm hmn h1 x hx

/-- the last statement about a column that adds or modifies it decides its record -/
theorem colExecAll_set (pre post : List Stmt) (s : Stmt) (c : ColDef) (cols cols' : List ColSpec)
    (hs : (∃ t pos, s = .addColumn t c pos) ∨ (∃ t, s = .modifyColumn t c))
    (hpost : ∀ s' ∈ post, stmtCol s' ≠ some c.name)
    (h : colExecAll cols (pre ++ s :: post) = some cols') :
    ∀ x : ColSpec, x.name = c.name → (x ∈ cols' ↔ x = (colOf c).1) := by
  intro x hx
  rw [colExecAll_append] at h
  cases h1 : colExecAll cols pre with
  | none => rw [h1] at h; cases h
  | some c1 =>
    rw [h1] at h
    simp only [Option.bind_some, colExecAll] at h
    cases h2 : colExec c1 s with
    | none => rw [h2] at h; cases h
    | some c2 =>
      rw [h2] at h
      simp only [Option.bind_some] at h
      rw [colExecAll_untouched post c2 cols' c.name h hpost x hx]
      exact colExec_self c1 c2 s c hs h2 x hx

/-- two column lists with the same names in the same order whose namesakes are equivalent are `colsEquiv` -/
theorem colsEquiv_of : ∀ (a b : List ColSpec), a.map (·.name) = b.map (·.name) → (b.map (·.name)).Nodup →
    (∀ x ∈ a, ∀ y ∈ b, x.name = y.name → x.equiv y = true) → colsEquiv a b = true := by
  intro a
  induction a with
  | nil => intro b hn _ _; cases b with
    | nil => rfl
    | cons y r => simp at hn
  | cons x r ih =>
    intro b hn hnd heq
    cases b with
    | nil => simp at hn
    | cons y r' =>
      simp only [List.map_cons, List.cons.injEq] at hn
      rw [List.map_cons, List.nodup_cons] at hnd
      unfold colsEquiv
      rw [Bool.and_eq_true]
      exact ⟨heq x (by simp) y (by simp) hn.1,
        ih r' hn.2 hnd.2 (fun x' hx' y' hy' e => heq x' (List.mem_cons_of_mem _ hx') y' (List.mem_cons_of_mem _ hy') e)⟩

namespace Table

/-- the statements of the column walk are about distinct columns, in the order of the records -/
theorem walkCols_stmtCols (g : Globals) (tb : String) (up : Bool) : ∀ (cols before : List Column),
    ((walkCols g tb up before cols).1.filterMap stmtCol).Sublist (cols.map (·.name)) := by
  intro cols
  induction cols with
  | nil => intro before; simp [walkCols]
  | cons c rest ih =>
    intro before
    unfold walkCols
    simp only
    by_cases hnone : (c.action == .none) = true
    · simp only [hnone, if_true]
      exact (ih (before ++ [c])).trans (List.sublist_cons_self _ _)
    · simp only [hnone, Bool.false_eq_true, if_false]
      rw [List.filterMap_append, List.map_cons]
      have h1 : ∀ after, ((if up then c.migrationUpAlter g tb after else c.migrationDownAlter g tb after).filterMap stmtCol).Sublist [c.name] := by
        intro after
        cases up
        · simp only [Bool.false_eq_true, if_false]
          unfold Column.migrationDownAlter Column.migrationUpAlter
          cases c.action <;> simp [stmtCol, Column.colDef] <;> (try split) <;> simp [stmtCol]
        · simp only [if_true]
          unfold Column.migrationUpAlter
          cases c.action <;> simp [stmtCol, Column.colDef] <;> (try split) <;> simp [stmtCol]
      exact List.Sublist.append (h1 _) (ih (before ++ [c]))

/-- the column walk prints the ADD COLUMN of every `add` record, carrying the record's current attributes -/
theorem walkCols_add (g : Globals) (tb : String) : ∀ (cols before : List Column) (c : Column),
    c ∈ cols → c.action = .add → ∃ pos, Stmt.addColumn tb (c.colDef false) pos ∈ (walkCols g tb true before cols).1 := by
  intro cols
  induction cols with
  | nil => intro _ c hc; cases hc
  | cons x rest ih =>
    intro before c hc ha
    unfold walkCols
    simp only
    rcases List.mem_cons.mp hc with rfl | hc'
    · have hne : (c.action == .none) = false := by rw [ha]; rfl
      simp only [hne, Bool.false_eq_true, if_false, if_true, Column.migrationUpAlter, ha]
      exact ⟨_, List.mem_append_left _ (List.mem_singleton.mpr rfl)⟩
    · obtain ⟨pos, hpos⟩ := ih (before ++ [x]) c hc' ha
      refine ⟨pos, ?_⟩
      by_cases hnone : (x.action == .none) = true
      · simp only [hnone, if_true]; exact hpos
      · simp only [hnone, Bool.false_eq_true, if_false]
        exact List.mem_append_right _ hpos

/-- first column loop: a live column without a namesake in the old table is left as it is -/
theorem diffCols1_added_mem (d : Dialect) (old : Table) : ∀ (cols cols' : List Column),
    diffCols1 d old cols = .ok cols' → ∀ c ∈ cols, old.colIdx.get? c.name = none → c ∈ cols' := by
  intro cols
  induction cols with
  | nil => intro cols' _ c hc; cases hc
  | cons x rest ih =>
    intro cols' hs c hc hg
    unfold diffCols1 at hs
    obtain ⟨x', hx', hs⟩ := bind_ok hs
    obtain ⟨rest', hr, hs⟩ := bind_ok hs
    have := pure_ok hs; subst this
    rcases List.mem_cons.mp hc with rfl | hc'
    · rw [hg] at hx'
      have : x' = c := by
        split at hx'
        · exact (pure_ok hx').symm
        · exact (pure_ok hx').symm
      rw [this]; exact List.mem_cons_self
    · exact List.mem_cons_of_mem _ (ih rest' hr c hc' hg)

end Table

/-- **C01: a column only the new side has is added with the new side's definition**, end to end (MySQL reader model,
    column definitions without an inline PRIMARY KEY) -/
theorem added_column_def (g : Globals) (hg : g.dialect = .mysql) (rc : Bool)
    (old new : List Stmt) (dbO dbN : DB) (ho : old.all Stmt.elemSafe = true) (hn : new.all Stmt.elemSafe = true)
    (hpo : old.all Stmt.plainOpts = true) (hpn : new.all Stmt.plainOpts = true)
    (heo : execAll rc [] old = some dbO) (hen : execAll rc [] new = some dbN)
    (d : Migration) (hd : loadAndDiff g old new = .ok d)
    (t : String) (tbO tbN : TableSpec) (hfo : dbO.find t = some tbO) (hfn : dbN.find t = some tbN)
    (cN : ColSpec) (hcN : cN ∈ tbN.cols) (hnew : cN.name ∉ tbO.colNames) :
    ∃ td ∈ d.tables, td.name = t ∧ td.action = .none ∧
      ∃ cd pos, Stmt.addColumn t cd pos ∈ (Table.walkCols g t true [] td.cols).1 ∧
        (colOf cd).2 = false ∧ (colOf cd).1.name = cN.name ∧ (colOf cd).1.typ = cN.typ ∧ (colOf cd).1.opts.Perm cN.opts := by
  have hoc : old.all Stmt.colSafe = true :=
    List.all_eq_true.mpr (fun s hs => Stmt.colSafe_of_elemSafe s (List.all_eq_true.mp ho s hs))
  have hnc : new.all Stmt.colSafe = true :=
    List.all_eq_true.mpr (fun s hs => Stmt.colSafe_of_elemSafe s (List.all_eq_true.mp hn s hs))
  unfold loadAndDiff at hd
  obtain ⟨o, hlo, hd⟩ := bind_ok hd
  obtain ⟨n, hln, hd⟩ := bind_ok hd
  obtain ⟨mo, hmo', hro⟩ := ReaderMysql.run_rel rc old {} [] dbO Rel.empty hoc heo
  obtain ⟨mn, hmn', hrn⟩ := ReaderMysql.run_rel rc new {} [] dbN Rel.empty hnc hen
  have hpln : mn.Plain False := ReaderMysql.run_plain new {} mn Migration.plain_empty hpn (fun k => k.elim) hmn'
  have : mo = o := by
    have : readScript g {} old = .ok mo := by unfold readScript; rw [hg]; exact hmo'
    rw [this] at hlo; exact Except.ok.inj hlo
  subst this
  have : mn = n := by
    have : readScript g {} new = .ok mn := by unfold readScript; rw [hg]; exact hmn'
    rw [this] at hln; exact Except.ok.inj hln
  subst this
  obtain ⟨io, to, hgo, hmo, hdo, hnmo, hcolo, _, htyO⟩ := hro.lookup hfo
  obtain ⟨i, tn, _, hmn, hdn, hnmn, hcoln, _, htyN⟩ := hrn.lookup hfn
  have hmemo := List.mem_of_getElem? hmo
  have hmemn := List.mem_of_getElem? hmn
  unfold Migration.diff at hd
  obtain ⟨ts, h1, hd⟩ := bind_ok hd
  obtain ⟨td, htd, hspec⟩ := Migration.diffTables1_getElem g.dialect mo mn.tables ts i tn h1 hmn
  rw [hnmn, hgo] at hspec
  obtain ⟨ot, hot, hspec⟩ := hspec
  have : ot = to := by rw [hmo] at hot; exact (Option.some.inj hot).symm
  subst this
  have hex : ot.exists_ = true := by
    unfold Table.exists_; rw [(hro.fresh ot hmemo).2]; rfl
  rw [if_pos hex] at hspec
  obtain ⟨t1, ht1, htdeq⟩ := hspec
  obtain ⟨extra, hext⟩ := Migration.diffTables2_prefix mo.tables _ d hd
  have htd_mem : td ∈ d.tables := by
    rw [hext]; exact List.mem_append_left _ (List.mem_of_getElem? htd)
  have hi_n := hrn.inv.each tn hmemn
  have hi_o := hro.inv.each ot hmemo
  have hdi := Table.diff_inv g.dialect tn ot t1 hi_n hi_o (hrn.np tn hmemn) ht1
  have hname' : td.name = t := by rw [htdeq]; show t1.name = t; rw [hdi.2]; exact hnmn
  have hmN : cN.name ∈ tn.colNames := by rw [hcoln]; exact List.mem_map_of_mem hcN
  obtain ⟨c, hc, hcn⟩ := List.mem_map.mp hmN
  obtain ⟨cs, hcs, hcsn, hcst, hcso⟩ := htyN c hc
  have hndN : tbN.colNames.Nodup := by rw [← hcoln]; exact hi_n.cols.nodup
  have e1 : cs = cN := eq_of_name_nodup (fun x : ColSpec => x.name) hndN hcs hcN (hcsn.trans hcn)
  rw [e1] at hcst hcso
  have hplc := (hpln tn hmemn).opts c hc
  have hgnone : ot.colIdx.get? c.name = none := by
    apply (hi_o.cols.get?_none_iff _).mpr
    rw [hcn, hcolo]; exact hnew
  obtain ⟨cols1, tc, hc1, hc2, hlike⟩ := Table.diff_like g.dialect tn ot t1 ht1
  have h0 := Table.diffCols1_added_mem g.dialect ot tn.cols cols1 hc1 c hc hgnone
  have h0' : c ∈ tc.cols := Table.diffCols2_keeps _ ot.cols { tn with cols := cols1 } tc [] hc2 _ h0
  obtain ⟨x, hx, hxn, hxa, hxt, hxo, _⟩ := hlike _ h0'
  have hxtd : x ∈ td.cols := by rw [htdeq]; exact hx
  have hxa : x.action = .add := hxa.trans ((hrn.fresh tn hmemn).1 c hc)
  have hnopk : x.cur.opts.any (·.kind == .primaryKey) = false := no_pk_of_like _ _ hplc hxo
  obtain ⟨pos, hpos⟩ := Table.walkCols_add g t td.cols [] x hxtd hxa
  refine ⟨td, htd_mem, hname', by rw [htdeq], _, pos, hpos, ?_, ?_, ?_, ?_⟩
  · show ((optsOf x.cur.opts).2 && !false) = false
    rw [optsOf_snd, hnopk]; rfl
  · exact hxn.trans hcn
  · show x.cur.typeText = cN.typ
    unfold Attr.typeText; rw [hxt, hcst]; rfl
  · show (optsOf x.cur.opts).1.Perm cN.opts
    rw [Table.optsOf_fst, ← optKinds_withoutFkMarks, hxo, optKinds_withoutFkMarks]
    exact hcso

theorem perm_permEq {α : Type} [DecidableEq α] : ∀ (a b : List α), a.Perm b → permEq a b = true := by
  intro a
  induction a with
  | nil => intro b h; rw [List.length_eq_zero_iff.mp h.length_eq.symm]; rfl
  | cons x xs ih =>
    intro b h
    have hx : x ∈ b := h.subset (by simp)
    have hb : b.Perm (x :: b.erase x) := List.perm_cons_erase hx
    unfold permEq
    rw [Bool.and_eq_true]
    exact ⟨by simpa using hx, ih (b.erase x) (h.trans hb).cons_inv⟩

theorem equiv_of (a b : ColSpec) (hn : a.name = b.name) (ht : a.typ = b.typ) (ho : a.opts.Perm b.opts) : a.equiv b = true := by
  unfold ColSpec.equiv
  simp [hn, ht, perm_permEq a.opts b.opts ho]

/-- in a list whose images under a partial function are distinct, two members with the same image are equal -/
theorem eq_of_filterMap_nodup {α : Type} (f : α → Option String) : ∀ {l : List α}, (l.filterMap f).Nodup →
    ∀ {a b : α} {n : String}, a ∈ l → b ∈ l → f a = some n → f b = some n → a = b := by
  intro l
  induction l with
  | nil => intro _ a b n ha; cases ha
  | cons x r ih =>
    intro h a b n ha hb hfa hfb
    rcases List.mem_cons.mp ha with rfl | ha'
    · rcases List.mem_cons.mp hb with rfl | hb'
      · rfl
      · rw [List.filterMap_cons, hfa, List.nodup_cons] at h
        exact absurd (List.mem_filterMap.mpr ⟨b, hb', hfb⟩) h.1
    · rcases List.mem_cons.mp hb with rfl | hb'
      · rw [List.filterMap_cons, hfb, List.nodup_cons] at h
        exact absurd (List.mem_filterMap.mpr ⟨a, ha', hfa⟩) h.1
      · have hr : (r.filterMap f).Nodup := by
          rw [List.filterMap_cons] at h
          cases hfx : f x with
          | none => rw [hfx] at h; exact h
          | some v => rw [hfx] at h; exact (List.nodup_cons.mp h).2
        exact ih hr ha' hb' hfa hfb

/-- a member of a list with distinct images splits it into a part before and a part after, neither with that image -/
theorem split_of_filterMap_nodup {α : Type} (f : α → Option String) (l : List α) (h : (l.filterMap f).Nodup)
    (a : α) (n : String) (ha : a ∈ l) (hfa : f a = some n) :
    ∃ pre post, l = pre ++ a :: post ∧ ∀ s ∈ post, f s ≠ some n := by
  obtain ⟨pre, post, rfl⟩ := List.append_of_mem ha
  refine ⟨pre, post, rfl, ?_⟩
  intro s hs hfs
  rw [List.filterMap_append, List.filterMap_cons, hfa] at h
  have := (List.nodup_append.mp h).2.1
  rw [List.nodup_cons] at this
  exact this.1 (List.mem_filterMap.mpr ⟨s, hs, hfs⟩)

namespace Table

/-- every statement of the column walk is printed for one of the records -/
theorem walkCols_shape (g : Globals) (tb : String) : ∀ (cols before : List Column),
    ∀ s ∈ (walkCols g tb true before cols).1, ∃ c ∈ cols, c.action ≠ .none ∧ ∃ after, s ∈ c.migrationUpAlter g tb after := by
  intro cols
  induction cols with
  | nil => intro before s hs; simp [walkCols] at hs
  | cons c rest ih =>
    intro before s hs
    unfold walkCols at hs
    simp only at hs
    by_cases hnone : c.action = .none
    · simp only [hnone, beq_self_eq_true, if_true] at hs
      obtain ⟨x, hx, h1, h2⟩ := ih (before ++ [c]) s hs
      exact ⟨x, List.mem_cons_of_mem _ hx, h1, h2⟩
    · have hne : (c.action == .none) = false := by simpa using hnone
      simp only [hne, Bool.false_eq_true, if_false, if_true] at hs
      rcases List.mem_append.mp hs with h1 | h1
      · exact ⟨c, by simp, hnone, _, h1⟩
      · obtain ⟨x, hx, h2, h3⟩ := ih (before ++ [c]) s h1
        exact ⟨x, List.mem_cons_of_mem _ hx, h2, h3⟩

end Table

/-- **C01, the column clause on the reference engine.**  For two scripts the reference engine accepts (MySQL reader model,
    default field order, column definitions without an inline PRIMARY KEY and without COMMENT options) and a table present
    on both sides whose common columns keep their relative order: executing the statements `MigrationColumnUp` prints
    for the diffed record — ADD COLUMN with its position, DROP COLUMN, MODIFY COLUMN — on the reference engine's *old*
    column list succeeds at every step and ends in a column list equal to the *new* one: the same columns in the same
    order, each with the same type and the same options up to order. -/
theorem columns_spec_up (g : Globals) (hg : g.dialect = .mysql) (hio : g.ignoreOrder = false) (rc : Bool)
    (old new : List Stmt) (dbO dbN : DB) (ho : old.all Stmt.elemSafe = true) (hn : new.all Stmt.elemSafe = true)
    (hpo : old.all Stmt.plainOpts = true) (hpn : new.all Stmt.plainOpts = true)
    (heo : execAll rc [] old = some dbO) (hen : execAll rc [] new = some dbN)
    (d : Migration) (hd : loadAndDiff g old new = .ok d)
    (t : String) (tbO tbN : TableSpec) (hfo : dbO.find t = some tbO) (hfn : dbN.find t = some tbN)
    (hc : Abs.OrderCompatible tbN.colNames tbO.colNames) (hne : ∀ n ∈ tbN.colNames ++ tbO.colNames, n ≠ "") :
    ∃ td ∈ d.tables, td.name = t ∧ td.action = .none ∧
      td.migrationColumnUp g = .ok (Table.walkCols g t true [] td.cols) ∧
      ∃ cols', colExecAll tbO.cols (Table.walkCols g t true [] td.cols).1 = some cols' ∧
        colsEquiv cols' tbN.cols = true := by
  have hoc : old.all Stmt.colSafe = true :=
    List.all_eq_true.mpr (fun s hs => Stmt.colSafe_of_elemSafe s (List.all_eq_true.mp ho s hs))
  have hnc : new.all Stmt.colSafe = true :=
    List.all_eq_true.mpr (fun s hs => Stmt.colSafe_of_elemSafe s (List.all_eq_true.mp hn s hs))
  -- the diffed migration keeps its maps consistent: its tables have distinct names
  have hdInv : d.Inv := by
    have hd' := hd
    unfold loadAndDiff at hd'
    obtain ⟨o, hlo, hd'⟩ := bind_ok hd'
    obtain ⟨n, hln, hd'⟩ := bind_ok hd'
    obtain ⟨mo, hmo', hro⟩ := ReaderMysql.run_rel rc old {} [] dbO Rel.empty hoc heo
    obtain ⟨mn, hmn', hrn⟩ := ReaderMysql.run_rel rc new {} [] dbN Rel.empty hnc hen
    have : mo = o := by
      have : readScript g {} old = .ok mo := by unfold readScript; rw [hg]; exact hmo'
      rw [this] at hlo; exact Except.ok.inj hlo
    subst this
    have : mn = n := by
      have : readScript g {} new = .ok mn := by unfold readScript; rw [hg]; exact hmn'
      rw [this] at hln; exact Except.ok.inj hln
    subst this
    exact Migration.diff_inv g.dialect mn mo d hrn.inv hro.inv hrn.np hd'
  obtain ⟨td, htd, hname, hact, _, habs, hsimple, hne_td, hndtd, hNnd, hOnd⟩ :=
    diffed_record g hg rc old new dbO dbN hoc hnc heo hen d hd t tbO tbN hfo hfn hne
  have huniq : ∀ td' ∈ d.tables, td'.name = t → td' = td := fun td' h1 h2 =>
    eq_of_name_nodup (fun x : Table => x.name) hdInv.tbls.nodup h1 htd (h2.trans hname.symm)
  have hd_sq : g.dialect ≠ .sqlite := by rw [hg]; decide
  have habsUp : Abs.execAll tbO.colNames ((Table.walkCols g t true [] td.cols).1.filterMap colStmt) = some tbN.colNames := by
    rw [(walkCols_up_refines g hio hd_sq t td.cols [] hsimple hne_td).1, habs]
    exact Abs.columns_up tbN.colNames tbO.colNames hNnd hOnd hc
  -- the statements: about distinct columns
  have hndS : ((Table.walkCols g t true [] td.cols).1.filterMap stmtCol).Nodup :=
    (Table.walkCols_stmtCols g t true td.cols []).nodup hndtd
  -- every statement is an ADD / DROP, or a MODIFY of a column the old table has and no statement drops
  have hss : ∀ s ∈ (Table.walkCols g t true [] td.cols).1, (∃ a, colStmt s = some a) ∨
      (∃ t' c, s = .modifyColumn t' c ∧ c.name ∈ tbO.cols.map (·.name) ∧
        ∀ s' ∈ (Table.walkCols g t true [] td.cols).1, colStmt s' ≠ some (.dropCol c.name)) := by
    intro s hs
    obtain ⟨c, hc, hca, after, hsc⟩ := Table.walkCols_shape g t td.cols [] s hs
    rcases hsimple c hc with h | h | h | h
    · exact absurd h hca
    · left
      simp only [Column.migrationUpAlter, h, List.mem_singleton] at hsc
      rw [hsc, hio]
      simp only [Bool.false_eq_true, if_false]
      split <;> exact ⟨_, rfl⟩
    · left
      simp only [Column.migrationUpAlter, h, hg] at hsc
      have : s = .dropColumn t c.name := by simpa using hsc
      rw [this]; exact ⟨_, rfl⟩
    · right
      simp only [Column.migrationUpAlter, h, List.mem_singleton] at hsc
      refine ⟨t, _, hsc, ?_, ?_⟩
      · -- a `modify` record is tagged `keep`: the old side has the column
        show c.name ∈ tbO.colNames
        have hm : (c.name, tagOfAction c.action) ∈ absCols td.cols := List.mem_map_of_mem hc
        rw [habs, h] at hm
        obtain ⟨x, _, hx⟩ := List.mem_map.mp hm
        have hx1 : x = c.name := (Prod.mk.inj hx).1
        have hx2 : Abs.tagOf tbN.colNames tbO.colNames x = .keep := (Prod.mk.inj hx).2
        rw [hx1] at hx2
        unfold Abs.tagOf at hx2
        by_cases h1 : c.name ∈ tbN.colNames
        · rw [if_pos h1] at hx2
          by_cases h2 : c.name ∈ tbO.colNames
          · exact h2
          · rw [if_neg h2] at hx2; cases hx2
        · rw [if_neg h1] at hx2; cases hx2
      · intro s' hs' hdrop
        have h1 : stmtCol s = some c.name := by rw [hsc]; rfl
        have h2 : stmtCol s' = some c.name := by
          cases s' with
          | dropColumn t2 c2 =>
            simpa [colStmt, stmtCol, Column.colDef] using hdrop
          | addColumn t2 c2 pos => cases pos <;> simp [colStmt] at hdrop
          | _ => simp [colStmt] at hdrop
        have := eq_of_filterMap_nodup stmtCol hndS hs hs' h1 h2
        rw [← this, hsc] at hdrop
        simp [colStmt] at hdrop
  obtain ⟨cols', hex, hnames⟩ := colExecAll_of_abs _ tbO.cols tbN.colNames hOnd hss habsUp
  refine ⟨td, htd, hname, hact, by unfold Table.migrationColumnUp; rw [hact, hname]; rfl, cols', hex, ?_⟩
  refine colsEquiv_of cols' tbN.cols hnames hNnd ?_
  intro x hx cN hcN hxn
  by_cases hinO : cN.name ∈ tbO.colNames
  · obtain ⟨cO, hcO, hcOn⟩ := List.mem_map.mp hinO
    by_cases hsame : cO.typ = cN.typ ∧ cO.opts.Perm cN.opts
    · -- equal on both sides: no statement about it, the old record stays
      obtain ⟨td', htd', hn', _, hno⟩ := equal_column_untouched g hg rc old new dbO dbN ho hn hpo hpn heo hen d hd t tbO tbN hfo hfn
        cN cO hcN hcO hcOn hsame.1 hsame.2
      rw [huniq td' htd' hn'] at hno
      have hxO : x ∈ tbO.cols :=
        (colExecAll_untouched _ tbO.cols cols' cN.name hex (fun s hs => hno true s hs) x hxn).mp hx
      have : x = cO := eq_of_name_nodup (fun y : ColSpec => y.name) hOnd hxO hcO (hxn.trans hcOn.symm)
      rw [this]
      exact equiv_of cO cN hcOn hsame.1 hsame.2
    · -- different: one MODIFY COLUMN with the new definition
      have hchg : cO.typ ≠ cN.typ ∨ ¬ cO.opts.Perm cN.opts := by
        by_cases ht : cO.typ = cN.typ
        · exact Or.inr (fun hp => hsame ⟨ht, hp⟩)
        · exact Or.inl ht
      obtain ⟨td', htd', hn', _, ⟨cd, hmem, hpk, hcdn, hcdt, hcdo⟩, _⟩ := changed_column_modified g hg rc old new dbO dbN ho hn hpo hpn
        heo hen d hd t tbO tbN hfo hfn cN cO hcN hcO hcOn hchg
      rw [huniq td' htd' hn'] at hmem
      have hcdname : cd.name = cN.name := by rw [← colOf_name]; exact hcdn
      obtain ⟨pre, post, hsplit, hpost⟩ := split_of_filterMap_nodup stmtCol _ hndS _ cd.name hmem rfl
      rw [hsplit] at hex
      have := (colExecAll_set pre post _ cd tbO.cols cols' (Or.inr ⟨t, rfl⟩) hpost hex x (hxn.trans hcdname.symm)).mp hx
      rw [this]
      exact equiv_of _ cN hcdn hcdt hcdo
  · -- only the new side has it: one ADD COLUMN with the new definition
    obtain ⟨td', htd', hn', _, cd, pos, hmem, hpk, hcdn, hcdt, hcdo⟩ := added_column_def g hg rc old new dbO dbN ho hn hpo hpn
      heo hen d hd t tbO tbN hfo hfn cN hcN hinO
    rw [huniq td' htd' hn'] at hmem
    have hcdname : cd.name = cN.name := by rw [← colOf_name]; exact hcdn
    obtain ⟨pre, post, hsplit, hpost⟩ := split_of_filterMap_nodup stmtCol _ hndS _ cd.name hmem rfl
    rw [hsplit] at hex
    have := (colExecAll_set pre post _ cd tbO.cols cols' (Or.inl ⟨t, pos, rfl⟩) hpost hex x (hxn.trans hcdname.symm)).mp hx
    rw [this]
    exact equiv_of _ cN hcdn hcdt hcdo

end Sqlize
