/-
  Proofs/ScopeB.lean — the executable scope predicate `Spec.Scope.Proved` implies the hypotheses of the whole-schema
  theorems: for every pair of scripts the predicate accepts, the property predicates `Spec.c01`, `Spec.c02`, `Spec.c03`
  hold of what the model prints.
-/
import SqlizeModel.Spec.ProvedScope
import SqlizeModel.Proofs.SpecUnchanged
import SqlizeModel.Proofs.SchemaIgnoring
import SqlizeModel.Proofs.RoundsDown
import SqlizeModel.Proofs.RoundsHash
import SqlizeModel.Proofs.AvroScripts
import SqlizeModel.Proofs.HashScripts

namespace Sqlize
open Spec Spec.Scope

theorem Proved.elemSafe_eq (s : Stmt) : Proved.stmtElemSafe s = s.elemSafe := by
  cases s <;> rfl

theorem Proved.plainOpts_eq (s : Stmt) : Proved.stmtPlainOpts s = s.plainOpts := by
  cases s <;> rfl

theorem Proved.all_eq {α : Type} (l : List α) (f g : α → Bool) (h : ∀ x, f x = g x) : l.all f = l.all g := by
  induction l with
  | nil => rfl
  | cons a r ih => simp [List.all_cons, h a, ih]

/-- what the executable predicate says about a pair of schemas -/
theorem Proved.pairOK_spec (up : Bool) (dbO dbN : DB) (h : Proved.pairOK up dbO dbN = true) :
    (∀ tb ∈ dbO ++ dbN, tb.name ≠ "" ∧ tb.name ≠ Migration.defaultMigrationTable) ∧
    (∀ tbO ∈ dbO, ∀ tbN ∈ dbN, tbO.name = tbN.name →
      Abs.OrderCompatible tbN.colNames tbO.colNames ∧ (∀ n ∈ tbN.colNames ++ tbO.colNames, n ≠ "") ∧ tbO.pk = tbN.pk ∧
      (∀ s ∈ tbN.idxs, ∀ o ∈ tbO.idxs, o.name = s.name → o ≠ s →
        if up then ∃ c ∈ o.cols, c ∈ tbN.colNames else ∃ c ∈ s.cols, c ∈ tbO.colNames) ∧
      (∀ s ∈ tbN.fks, ∀ o ∈ tbO.fks, s.name = o.name → s = o)) := by
  unfold Proved.pairOK at h
  simp only [Bool.and_eq_true] at h
  obtain ⟨h1, h2⟩ := h
  have ht : ∀ tb ∈ dbO ++ dbN, Proved.tableOK tb = true := List.all_eq_true.mp h1
  refine ⟨?_, ?_⟩
  · intro tb htb
    have := ht tb htb
    unfold Proved.tableOK at this
    simp only [Bool.and_eq_true, bne_iff_ne, ne_eq] at this
    exact ⟨this.1, this.2⟩
  · intro tbO htbO tbN htbN hn
    have := List.all_eq_true.mp (List.all_eq_true.mp h2 tbO htbO) tbN htbN
    have hne : (tbO.name != tbN.name) = false := by simp [hn]
    rw [hne, Bool.false_or] at this
    unfold Proved.bothOK at this
    simp only [Bool.and_eq_true, beq_iff_eq] at this
    obtain ⟨⟨⟨⟨hoc, hnm⟩, hpk⟩, hidx⟩, hfk⟩ := this
    refine ⟨hoc, ?_, hpk, ?_, ?_⟩
    rotate_left 2
    · intro s hs o ho hon
      have := List.all_eq_true.mp (List.all_eq_true.mp hfk s hs) o ho
      simp only [Bool.or_eq_true, bne_iff_ne, ne_eq, decide_eq_true_eq] at this
      rcases this with h' | h'
      · exact absurd hon h'
      · exact h'
    · intro n hn'
      have := List.all_eq_true.mp hnm n hn'
      simpa using this
    · intro s hs o ho hon hne'
      have := List.all_eq_true.mp (List.all_eq_true.mp hidx s hs) o ho
      simp only [Bool.or_eq_true, bne_iff_ne, ne_eq, beq_iff_eq] at this
      rcases this with (h' | h') | h'
      · exact absurd hon h'
      · exact absurd h' hne'
      · cases up with
        | true =>
          simp only [if_true] at h' ⊢
          obtain ⟨c, hc, hcc⟩ := List.any_eq_true.mp h'
          exact ⟨c, hc, by simpa using hcc⟩
        | false =>
          simp only [Bool.false_eq_true, if_false] at h' ⊢
          obtain ⟨c, hc, hcc⟩ := List.any_eq_true.mp h'
          exact ⟨c, hc, by simpa using hcc⟩

theorem Proved.scripts_spec (g : Globals) (old new : List Stmt) (h : Proved.scripts g old new = true) :
    g.dialect = .mysql ∧ old.all Stmt.elemSafe = true ∧ new.all Stmt.elemSafe = true ∧
      old.all Stmt.plainOpts = true ∧ new.all Stmt.plainOpts = true := by
  unfold Proved.scripts at h
  simp only [Bool.and_eq_true, beq_iff_eq] at h
  obtain ⟨⟨⟨⟨h1, h3⟩, h4⟩, h5⟩, h6⟩ := h
  rw [Proved.all_eq _ _ _ Proved.elemSafe_eq] at h3 h4
  rw [Proved.all_eq _ _ _ Proved.plainOpts_eq] at h5 h6
  exact ⟨h1, h3, h4, h5, h6⟩

/-- **inside the executable scope, `Spec.c01` holds of the printed up migration** -/
theorem proved_up (g : Globals) (rc : Bool) (old new : List Stmt) (dbO dbN : DB)
    (heo : execAll rc [] old = some dbO) (hen : execAll rc [] new = some dbN)
    (h : Proved.up g old new dbO dbN = true) :
    ∃ upm, modelUp g old new = .ok upm ∧ c01 g.ignoreOrder dbO dbN upm false = .ok () := by
  unfold Proved.up at h
  simp only [Bool.and_eq_true] at h
  obtain ⟨hg, ho, hn, hpo, hpn⟩ := Proved.scripts_spec g old new h.1
  obtain ⟨hnm, hboth⟩ := Proved.pairOK_spec true dbO dbN h.2
  exact schema_up_any g hg rc old new dbO dbN ho hn hpo hpn heo hen
    (fun tb htb => (hnm tb htb).2)
    (fun a ha b hb e => by
      obtain ⟨x1, x2, x3, x4, x5⟩ := hboth a ha b hb e
      refine ⟨x1, x2, x3, ?_, x5⟩
      intro dc hdc s hs o ho' hon hne
      obtain ⟨c, hc, hcN⟩ := x4 s hs o ho' hon hne
      exact ⟨c, hc, fun hcd => hdc c hcd hcN⟩)

/-- **inside the executable scope, `Spec.c02` holds of the printed down migration** -/
theorem proved_down (g : Globals) (rc : Bool) (old new : List Stmt) (dbO dbN : DB)
    (heo : execAll rc [] old = some dbO) (hen : execAll rc [] new = some dbN)
    (h : Proved.down g old new dbO dbN = true) :
    ∃ dn, modelDown g old new = .ok dn ∧ c02 g.ignoreOrder dbO dbN dn false = .ok () := by
  unfold Proved.down at h
  simp only [Bool.and_eq_true] at h
  obtain ⟨hg, ho, hn, hpo, hpn⟩ := Proved.scripts_spec g old new h.1
  obtain ⟨hnm, hboth⟩ := Proved.pairOK_spec false dbO dbN h.2
  exact schema_down_any g hg rc old new dbO dbN ho hn hpo hpn heo hen
    (fun tb htb => (hnm tb htb).2)
    (fun a ha b hb e => by
      obtain ⟨x1, x2, x3, x4, x5⟩ := hboth a ha b hb e
      refine ⟨x1, x2, x3, ?_, x5⟩
      intro dc hdc s hs o ho' hon hne
      obtain ⟨c, hc, hcO⟩ := x4 s hs o ho' hon hne
      exact ⟨c, hc, fun hcd => hdc c hcd hcO⟩)

/-- **inside both, `Spec.c03` holds of the two printed migrations** -/
theorem proved_both (g : Globals) (rc : Bool) (old new : List Stmt) (dbO dbN : DB)
    (heo : execAll rc [] old = some dbO) (hen : execAll rc [] new = some dbN)
    (h : Proved.both g old new dbO dbN = true) :
    ∃ upm dn, modelUp g old new = .ok upm ∧ modelDown g old new = .ok dn ∧ c03 dbO dbN upm dn = .ok () := by
  unfold Proved.both Proved.up Proved.down at h
  simp only [Bool.and_eq_true] at h
  obtain ⟨hg, ho, hn, hpo, hpn⟩ := Proved.scripts_spec g old new h.1.1
  obtain ⟨hnm, hbothU⟩ := Proved.pairOK_spec true dbO dbN h.1.2
  obtain ⟨_, hbothD⟩ := Proved.pairOK_spec false dbO dbN h.2.2
  exact schema_c03_any g hg rc old new dbO dbN ho hn hpo hpn heo hen (fun tb htb => (hnm tb htb).2)
    (fun a ha b hb e => by
      obtain ⟨x1, x2, x3, x4, x5⟩ := hbothU a ha b hb e
      obtain ⟨_, _, _, y4, _⟩ := hbothD a ha b hb e
      refine ⟨x1, x2, x3, ?_, ?_, x5⟩
      · intro dc hdc s hs o ho' hon hne
        obtain ⟨c, hc, hcN⟩ := x4 s hs o ho' hon hne
        exact ⟨c, hc, fun hcd => hdc c hcd hcN⟩
      · intro dc hdc s hs o ho' hon hne
        obtain ⟨c, hc, hcO⟩ := y4 s hs o ho' hon hne
        exact ⟨c, hc, fun hcd => hdc c hcd hcO⟩)


-- ---------------------------------------------------------------------------------------------------------------
-- C04: the executable chain predicates imply the hypotheses of the rounds theorems

theorem Proved.lastOf_eq (revs : List (List Stmt × DB)) : Proved.lastOf revs = lastDB revs := by
  cases revs <;> rfl

/-- `revsOf` pairs every script with the schema the reference engine builds from it -/
theorem Proved.revsOf_spec : ∀ (scripts : List (List Stmt)) (acc revs : List (List Stmt × DB)),
    (∀ p ∈ acc, execAll false [] p.1 = some p.2) →
    scripts.foldl (fun acc ss => match acc, execAll false [] ss with
      | some revs, some db => some ((ss, db) :: revs)
      | _, _ => none) (some acc) = some revs →
    (∀ p ∈ revs, execAll false [] p.1 = some p.2) ∧ revs.map (·.1) = scripts.reverse ++ acc.map (·.1) := by
  intro scripts
  induction scripts with
  | nil =>
    intro acc revs hacc h
    simp only [List.foldl_nil, Option.some.injEq] at h
    subst h
    exact ⟨hacc, by simp⟩
  | cons ss rest ih =>
    intro acc revs hacc h
    rw [List.foldl_cons] at h
    cases he : execAll false [] ss with
    | none =>
      rw [he] at h
      exfalso
      have : ∀ l : List (List Stmt), l.foldl (fun acc ss => match acc, execAll false [] ss with
          | some revs, some db => some ((ss, db) :: revs)
          | _, _ => none) (none : Option (List (List Stmt × DB))) = none := by
        intro l
        induction l with
        | nil => rfl
        | cons _ _ ih => rw [List.foldl_cons]; exact ih
      simp only at h
      rw [this] at h
      cases h
    | some db =>
      rw [he] at h
      simp only at h
      obtain ⟨h1, h2⟩ := ih ((ss, db) :: acc) revs (by
        intro p hp
        rcases List.mem_cons.mp hp with rfl | hp
        · exact he
        · exact hacc p hp) h
      refine ⟨h1, ?_⟩
      rw [h2]; simp

theorem Proved.upScope_of_pairOK (dbO dbN : DB) (h : Proved.pairOK true dbO dbN = true) : UpScope dbO dbN := by
  obtain ⟨hnm, hboth⟩ := Proved.pairOK_spec true dbO dbN h
  refine ⟨hnm, ?_⟩
  intro a ha b hb e
  obtain ⟨x1, x2, x3, x4, x5⟩ := hboth a ha b hb e
  refine ⟨x1, x2, x3, ?_, x5⟩
  intro dc hdc s hs o ho' hon hne
  obtain ⟨c, hc, hcN⟩ := x4 s hs o ho' hon hne
  exact ⟨c, hc, fun hcd => hdc c hcd hcN⟩

theorem Proved.downScope_of_pairOK (dbO dbN : DB) (h : Proved.pairOK false dbO dbN = true) : DownScope dbO dbN := by
  obtain ⟨_, hboth⟩ := Proved.pairOK_spec false dbO dbN h
  refine ⟨?_⟩
  intro a ha b hb e dc hdc s hs o ho' hon hne
  obtain ⟨_, _, _, x4, _⟩ := hboth a ha b hb e
  obtain ⟨c, hc, hcO⟩ := x4 s hs o ho' hon hne
  exact ⟨c, hc, fun hcd => hdc c hcd hcO⟩

theorem Proved.chainUp_spec : ∀ (revs : List (List Stmt × DB)), Proved.chainUp revs = true →
    (∀ p ∈ revs, p.1.all Stmt.elemSafe = true ∧ p.1.all Stmt.plainOpts = true) ∧ ChainOK revs := by
  intro revs
  induction revs with
  | nil => intro _; exact ⟨fun p hp => (by cases hp), trivial⟩
  | cons p older ih =>
    intro h
    unfold Proved.chainUp at h
    simp only [Bool.and_eq_true] at h
    obtain ⟨⟨⟨h1, h2⟩, h3⟩, h4⟩ := h
    obtain ⟨i1, i2⟩ := ih h4
    rw [Proved.all_eq _ _ _ Proved.elemSafe_eq] at h1
    rw [Proved.all_eq _ _ _ Proved.plainOpts_eq] at h2
    refine ⟨?_, ?_, i2⟩
    · intro q hq
      rcases List.mem_cons.mp hq with rfl | hq
      · exact ⟨h1, h2⟩
      · exact i1 q hq
    · rw [← Proved.lastOf_eq]; exact Proved.upScope_of_pairOK _ _ h3

theorem Proved.chainDown_spec : ∀ (revs : List (List Stmt × DB)), Proved.chainDown revs = true → ChainDownOK revs := by
  intro revs
  induction revs with
  | nil => intro _; trivial
  | cons p older ih =>
    intro h
    unfold Proved.chainDown at h
    simp only [Bool.and_eq_true] at h
    exact ⟨by rw [← Proved.lastOf_eq]; exact Proved.downScope_of_pairOK _ _ h.1, ih h.2⟩

theorem Proved.chainOrdered_spec : ∀ (revs : List (List Stmt × DB)), Proved.chainOrdered revs = true → ChainOrdered revs := by
  intro revs
  induction revs with
  | nil => intro _; trivial
  | cons p older ih =>
    intro h
    unfold Proved.chainOrdered at h
    simp only [Bool.and_eq_true, beq_iff_eq] at h
    exact ⟨by rw [← Proved.lastOf_eq]; exact h.1, ih h.2⟩

/-- **inside the executable chain scope, the workflow on the model converges and the next diff is empty** -/
theorem proved_chain (g : Globals) (hg : g.dialect = .mysql) (hio : g.ignoreOrder = false)
    (scripts : List (List Stmt)) (p : List Stmt × DB) (older : List (List Stmt × DB))
    (hr : Proved.revsOf scripts = some (p :: older)) (h : Proved.chainUp (p :: older) = true) :
    ∃ hist d, histM g scripts.reverse = .ok hist ∧ loadAndDiff g hist p.1 = .ok d ∧
      d.migrationUp g = .ok (d, []) ∧ d.migrationDown g = .ok (d, []) := by
  obtain ⟨hex, hmap⟩ := Proved.revsOf_spec scripts [] (p :: older) (fun q hq => (by cases hq)) hr
  obtain ⟨hvoc, hchain⟩ := Proved.chainUp_spec _ h
  have hmap' : (p :: older).map (·.1) = scripts.reverse := by simpa using hmap
  have := rounds_next_diff_empty g hg hio p older (fun q hq => ⟨(hvoc q hq).1, (hvoc q hq).2, hex q hq⟩) hchain
  rw [hmap'] at this
  exact this

/-- … the fingerprints agree when the chain is ordered as well … -/
theorem proved_chain_fingerprint (H : String → String) (F : String → Int) (g : Globals) (hg : g.dialect = .mysql)
    (hio : g.ignoreOrder = false) (scripts : List (List Stmt)) (p : List Stmt × DB) (older : List (List Stmt × DB))
    (hr : Proved.revsOf scripts = some (p :: older)) (h : Proved.chainUp (p :: older) = true)
    (ho : Proved.chainOrdered (p :: older) = true) :
    ∃ hist mH mP v, histM g scripts.reverse = .ok hist ∧ ReaderMysql.run {} hist = .ok mH ∧
      ReaderMysql.run {} p.1 = .ok mP ∧ mH.hashWith H F g = .ok v ∧ mP.hashWith H F g = .ok v := by
  obtain ⟨hex, hmap⟩ := Proved.revsOf_spec scripts [] (p :: older) (fun q hq => (by cases hq)) hr
  obtain ⟨hvoc, hchain⟩ := Proved.chainUp_spec _ h
  have hmap' : (p :: older).map (·.1) = scripts.reverse := by simpa using hmap
  have := rounds_fingerprint H F g hg hio p older (fun q hq => ⟨(hvoc q hq).1, (hvoc q hq).2, hex q hq⟩) hchain
    (Proved.chainOrdered_spec _ ho)
  rw [hmap'] at this
  exact this

/-- … and the recorded down migrations lead back to the empty schema when every step is inside the C02 scope too -/
theorem proved_chain_down (g : Globals) (hg : g.dialect = .mysql) (hio : g.ignoreOrder = false)
    (scripts : List (List Stmt)) (revs : List (List Stmt × DB))
    (hr : Proved.revsOf scripts = some revs) (h : Proved.chainUp revs = true) (hd : Proved.chainDown revs = true) :
    ∃ hist ds, histD g scripts.reverse = .ok (hist, ds) ∧ ds.length = revs.length ∧ replay (lastDB revs) ds = some [] := by
  obtain ⟨hex, hmap⟩ := Proved.revsOf_spec scripts [] revs (fun q hq => (by cases hq)) hr
  obtain ⟨hvoc, hchain⟩ := Proved.chainUp_spec _ h
  have hmap' : revs.map (·.1) = scripts.reverse := by simpa using hmap
  have := rounds_down_from_last g hg hio revs (fun q hq => ⟨(hvoc q hq).1, (hvoc q hq).2, hex q hq⟩) hchain
    (Proved.chainDown_spec _ hd)
  rw [hmap'] at this
  exact this

-- ---------------------------------------------------------------------------------------------------------------
-- C05 (the dump of a loaded script) and C15 (the Avro export)

theorem Proved.colSafe_eq (s : Stmt) : Proved.stmtColSafe s = s.colSafe := by
  cases s <;> rfl

/-- **inside the executable scope, the dump of a loaded script describes the script's schema**: what the model prints for
    the loaded script against the empty history, executed on the empty schema by the reference engine, is well-formed
    and ends in the schema the script describes (`Spec.c01` with an empty old side) -/
theorem proved_dump (g : Globals) (rc : Bool) (ss : List Stmt) (db : DB) (he : execAll rc [] ss = some db)
    (h : Proved.dump g ss db = true) :
    ∃ up, modelUp g [] ss = .ok up ∧ c01 g.ignoreOrder [] db up false = .ok () :=
  proved_up g rc [] ss [] db rfl he h

/-- **inside the executable scope, the Avro export is the export of the reference schema** -/
theorem proved_avro (g : Globals) (rc : Bool) (ss : List Stmt) (db : DB) (he : execAll rc [] ss = some db)
    (h : Proved.avro g ss = true) (need : List String) :
    ∃ m, ReaderMysql.run {} ss = .ok m ∧
      Avro.arvoSchema g.dialect m need =
        (Exports.selectDB db need).map (fun t => Avro.schemaOf t.name (Exports.avroFields t)) := by
  unfold Proved.avro at h
  simp only [Bool.and_eq_true, beq_iff_eq] at h
  rw [Proved.all_eq _ _ _ Proved.colSafe_eq] at h
  rw [h.1]
  exact avro_of_schema rc ss db h.2 he need

theorem Proved.tablePk_eq (s : Stmt) : Proved.stmtTablePk s = s.tablePk := by
  cases s <;> rfl

/-- **inside the executable scope, `HashValue` of the loaded script is the value of its reference schema** (real md5) -/
theorem proved_hash (g : Globals) (rc : Bool) (ss : List Stmt) (db : DB) (he : execAll rc [] ss = some db)
    (h : Proved.hash g ss = true) :
    ∃ m, ReaderMysql.run {} ss = .ok m ∧ m.hashValue g = .ok (db.hashOf MD5.hex MD5.int64BE g) := by
  unfold Proved.hash at h
  simp only [Bool.and_eq_true, beq_iff_eq] at h
  obtain ⟨⟨_, h2⟩, h3⟩ := h
  rw [Proved.all_eq _ _ _ Proved.elemSafe_eq] at h2
  rw [Proved.all_eq _ _ _ Proved.tablePk_eq] at h3
  exact hash_of_schema MD5.hex MD5.int64BE g rc ss db h2 h3 he

end Sqlize
