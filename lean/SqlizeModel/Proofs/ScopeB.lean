/-
  Proofs/ScopeB.lean — the executable scope predicate `Spec.Scope.Proved` implies the hypotheses of the whole-schema
  theorems: for every pair of scripts the predicate accepts, the property predicates `Spec.c01`, `Spec.c02`, `Spec.c03`
  hold of what the model prints.
-/
import SqlizeModel.Spec.ProvedScope
import SqlizeModel.Proofs.SpecUnchanged
import SqlizeModel.Proofs.SchemaIgnoring

namespace Sqlize
open Spec Spec.Scope

theorem Proved.elemSafe_eq (s : Stmt) : Proved.stmtElemSafe s = s.elemSafe := by
  cases s <;> rfl

theorem Proved.plainOpts_eq (s : Stmt) : Proved.stmtPlainOpts s = s.plainOpts := by
  cases s <;> rfl

theorem Proved.all_eq {α : Type} (l : List α) (f g : α → Bool) (h : ∀ x, f x = g x) : l.all f = l.all g := by
  induction l with
  | nil => rfl
  | cons a r ih => simp [List.all_cons, h a, ih]

/-- what the executable predicate says about a pair of schemas -/
theorem Proved.pairOK_spec (up : Bool) (dbO dbN : DB) (h : Proved.pairOK up dbO dbN = true) :
    (∀ tb ∈ dbO ++ dbN, tb.name ≠ "" ∧ tb.name ≠ Migration.defaultMigrationTable) ∧
    (∀ tbO ∈ dbO, ∀ tbN ∈ dbN, tbO.name = tbN.name →
      Abs.OrderCompatible tbN.colNames tbO.colNames ∧ (∀ n ∈ tbN.colNames ++ tbO.colNames, n ≠ "") ∧ tbO.pk = tbN.pk ∧
      (∀ s ∈ tbN.idxs, ∀ o ∈ tbO.idxs, o.name = s.name → o ≠ s →
        if up then ∃ c ∈ o.cols, c ∈ tbN.colNames else ∃ c ∈ s.cols, c ∈ tbO.colNames) ∧
      (∀ s ∈ tbN.fks, ∀ o ∈ tbO.fks, s.name = o.name → s = o)) := by
  unfold Proved.pairOK at h
  simp only [Bool.and_eq_true] at h
  obtain ⟨h1, h2⟩ := h
  have ht : ∀ tb ∈ dbO ++ dbN, Proved.tableOK tb = true := List.all_eq_true.mp h1
  refine ⟨?_, ?_⟩
  · intro tb htb
    have := ht tb htb
    unfold Proved.tableOK at this
    simp only [Bool.and_eq_true, bne_iff_ne, ne_eq] at this
    exact ⟨this.1, this.2⟩
  · intro tbO htbO tbN htbN hn
    have := List.all_eq_true.mp (List.all_eq_true.mp h2 tbO htbO) tbN htbN
    have hne : (tbO.name != tbN.name) = false := by simp [hn]
    rw [hne, Bool.false_or] at this
    unfold Proved.bothOK at this
    simp only [Bool.and_eq_true, beq_iff_eq] at this
    obtain ⟨⟨⟨⟨hoc, hnm⟩, hpk⟩, hidx⟩, hfk⟩ := this
    refine ⟨hoc, ?_, hpk, ?_, ?_⟩
    rotate_left 2
    · intro s hs o ho hon
      have := List.all_eq_true.mp (List.all_eq_true.mp hfk s hs) o ho
      simp only [Bool.or_eq_true, bne_iff_ne, ne_eq, decide_eq_true_eq] at this
      rcases this with h' | h'
      · exact absurd hon h'
      · exact h'
    · intro n hn'
      have := List.all_eq_true.mp hnm n hn'
      simpa using this
    · intro s hs o ho hon hne'
      have := List.all_eq_true.mp (List.all_eq_true.mp hidx s hs) o ho
      simp only [Bool.or_eq_true, bne_iff_ne, ne_eq, beq_iff_eq] at this
      rcases this with (h' | h') | h'
      · exact absurd hon h'
      · exact absurd h' hne'
      · cases up with
        | true =>
          simp only [if_true] at h' ⊢
          obtain ⟨c, hc, hcc⟩ := List.any_eq_true.mp h'
          exact ⟨c, hc, by simpa using hcc⟩
        | false =>
          simp only [Bool.false_eq_true, if_false] at h' ⊢
          obtain ⟨c, hc, hcc⟩ := List.any_eq_true.mp h'
          exact ⟨c, hc, by simpa using hcc⟩

theorem Proved.scripts_spec (g : Globals) (old new : List Stmt) (h : Proved.scripts g old new = true) :
    g.dialect = .mysql ∧ old.all Stmt.elemSafe = true ∧ new.all Stmt.elemSafe = true ∧
      old.all Stmt.plainOpts = true ∧ new.all Stmt.plainOpts = true := by
  unfold Proved.scripts at h
  simp only [Bool.and_eq_true, beq_iff_eq] at h
  obtain ⟨⟨⟨⟨h1, h3⟩, h4⟩, h5⟩, h6⟩ := h
  rw [Proved.all_eq _ _ _ Proved.elemSafe_eq] at h3 h4
  rw [Proved.all_eq _ _ _ Proved.plainOpts_eq] at h5 h6
  exact ⟨h1, h3, h4, h5, h6⟩

/-- **inside the executable scope, `Spec.c01` holds of the printed up migration** -/
theorem proved_up (g : Globals) (rc : Bool) (old new : List Stmt) (dbO dbN : DB)
    (heo : execAll rc [] old = some dbO) (hen : execAll rc [] new = some dbN)
    (h : Proved.up g old new dbO dbN = true) :
    ∃ upm, modelUp g old new = .ok upm ∧ c01 g.ignoreOrder dbO dbN upm false = .ok () := by
  unfold Proved.up at h
  simp only [Bool.and_eq_true] at h
  obtain ⟨hg, ho, hn, hpo, hpn⟩ := Proved.scripts_spec g old new h.1
  obtain ⟨hnm, hboth⟩ := Proved.pairOK_spec true dbO dbN h.2
  exact schema_up_any g hg rc old new dbO dbN ho hn hpo hpn heo hen
    (fun tb htb => (hnm tb htb).2)
    (fun a ha b hb e => by
      obtain ⟨x1, x2, x3, x4, x5⟩ := hboth a ha b hb e
      refine ⟨x1, x2, x3, ?_, x5⟩
      intro dc hdc s hs o ho' hon hne
      obtain ⟨c, hc, hcN⟩ := x4 s hs o ho' hon hne
      exact ⟨c, hc, fun hcd => hdc c hcd hcN⟩)

/-- **inside the executable scope, `Spec.c02` holds of the printed down migration** -/
theorem proved_down (g : Globals) (rc : Bool) (old new : List Stmt) (dbO dbN : DB)
    (heo : execAll rc [] old = some dbO) (hen : execAll rc [] new = some dbN)
    (h : Proved.down g old new dbO dbN = true) :
    ∃ dn, modelDown g old new = .ok dn ∧ c02 g.ignoreOrder dbO dbN dn false = .ok () := by
  unfold Proved.down at h
  simp only [Bool.and_eq_true] at h
  obtain ⟨hg, ho, hn, hpo, hpn⟩ := Proved.scripts_spec g old new h.1
  obtain ⟨hnm, hboth⟩ := Proved.pairOK_spec false dbO dbN h.2
  exact schema_down_any g hg rc old new dbO dbN ho hn hpo hpn heo hen
    (fun tb htb => (hnm tb htb).2)
    (fun a ha b hb e => by
      obtain ⟨x1, x2, x3, x4, x5⟩ := hboth a ha b hb e
      refine ⟨x1, x2, x3, ?_, x5⟩
      intro dc hdc s hs o ho' hon hne
      obtain ⟨c, hc, hcO⟩ := x4 s hs o ho' hon hne
      exact ⟨c, hc, fun hcd => hdc c hcd hcO⟩)

/-- **inside both, `Spec.c03` holds of the two printed migrations** -/
theorem proved_both (g : Globals) (rc : Bool) (old new : List Stmt) (dbO dbN : DB)
    (heo : execAll rc [] old = some dbO) (hen : execAll rc [] new = some dbN)
    (h : Proved.both g old new dbO dbN = true) :
    ∃ upm dn, modelUp g old new = .ok upm ∧ modelDown g old new = .ok dn ∧ c03 dbO dbN upm dn = .ok () := by
  unfold Proved.both Proved.up Proved.down at h
  simp only [Bool.and_eq_true] at h
  obtain ⟨hg, ho, hn, hpo, hpn⟩ := Proved.scripts_spec g old new h.1.1
  obtain ⟨hnm, hbothU⟩ := Proved.pairOK_spec true dbO dbN h.1.2
  obtain ⟨_, hbothD⟩ := Proved.pairOK_spec false dbO dbN h.2.2
  exact schema_c03_any g hg rc old new dbO dbN ho hn hpo hpn heo hen (fun tb htb => (hnm tb htb).2)
    (fun a ha b hb e => by
      obtain ⟨x1, x2, x3, x4, x5⟩ := hbothU a ha b hb e
      obtain ⟨_, _, _, y4, _⟩ := hbothD a ha b hb e
      refine ⟨x1, x2, x3, ?_, ?_, x5⟩
      · intro dc hdc s hs o ho' hon hne
        obtain ⟨c, hc, hcN⟩ := x4 s hs o ho' hon hne
        exact ⟨c, hc, fun hcd => hdc c hcd hcN⟩
      · intro dc hdc s hs o ho' hon hne
        obtain ⟨c, hc, hcO⟩ := y4 s hs o ho' hon hne
        exact ⟨c, hc, fun hcd => hdc c hcd hcO⟩)

end Sqlize
