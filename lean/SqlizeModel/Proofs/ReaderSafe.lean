/-
  Proofs/ReaderSafe.lean — loading never panics: from a consistent state, every reader model either returns or fails
  with one of the listed non-panic errors (a text the dialect's grammar rejects, or a construct the model declines to
  decide and reports as UNMODELLED).  No `index out of range` / nil-dereference error of the position bookkeeping is
  reachable.  Together with `readScript_inv` this holds along any sequence of loads from the empty model.
-/
import SqlizeModel.Proofs.NoPanic

namespace Sqlize

/-- the errors of the reader models that are not Go panics -/
def benignErrors : List String :=
  [ swapOrderUnmodelled,
    "PARSE: COMMENT ON COLUMN is not MySQL",
    "PARSE: ALTER COLUMN TYPE / SET DEFAULT / DROP NOT NULL is not in the MySQL vocabulary",
    "PARSE: statement rejected by the postgres grammar",
    "UNMODELLED sqlite DEFAULT (the reader stores a source position as the value)",
    "UNMODELLED sqlite column constraint",
    "UNMODELLED sqlite table constraint",
    "PARSE: USING is not SQLite",
    "UNMODELLED sqlite statement" ]

def NoPanic {α : Type} (x : M α) : Prop := ∀ e, x = .error e → e ∈ benignErrors

theorem Safe.noPanic {α : Type} {x : M α} (h : Safe x) : NoPanic x := by
  intro e he; rw [h e he]; simp [benignErrors]

theorem noPanic_ok {α : Type} (a : α) : NoPanic (.ok a : M α) := by intro e h; cases h

theorem noPanic_pure {α : Type} (a : α) : NoPanic (pure a : M α) := noPanic_ok a

theorem noPanic_err {α : Type} (e : String) (h : e ∈ benignErrors) : NoPanic (.error e : M α) := by
  intro e' he; rw [← Except.error.inj he]; exact h

theorem noPanic_bind {α β : Type} {x : M α} {f : α → M β} (hx : NoPanic x) (hf : ∀ a, x = .ok a → NoPanic (f a)) :
    NoPanic (x >>= f) := by
  intro e h
  rcases bind_err h with h1 | ⟨a, ha, h1⟩
  · exact hx e h1
  · exact hf a ha e h1

namespace ReaderMysql

theorem addCols_noPanic (cols : List ColDef) : ∀ (m : Migration), m.Inv → NoPanic (addCols m cols) := by
  induction cols with
  | nil => intro m _; exact noPanic_pure _
  | cons c rest ih =>
    intro m h
    unfold addCols
    exact noPanic_bind (Migration.addColumn_safe m _ _ _ h).noPanic
      (fun m1 h1 => ih m1 (Migration.addColumn_inv m m1 _ _ _ h h1))

theorem step_noPanic (m : Migration) (s : Stmt) (h : m.Inv) : NoPanic (step m s) := by
  cases s with
  | createTable t ident cols pk =>
    unfold step
    have htb : ∀ tb, (if pk.isEmpty then pure (Table.new t .add) else (Table.new t .add).addIndex (pkIndex pk) : M Table) = .ok tb → tb.Inv := by
      intro tb htb
      by_cases hp : pk.isEmpty = true
      · rw [if_pos hp] at htb; have := pure_ok htb; subst this; exact Table.inv_new _ _
      · rw [if_neg hp] at htb; exact (Table.addIndex_inv _ _ _ (Table.inv_new _ _) htb).1
    refine noPanic_bind ?_ ?_
    · by_cases hp : pk.isEmpty = true
      · rw [if_pos hp]; exact noPanic_pure _
      · rw [if_neg hp]; exact (safe_of_total (Table.addIndex_total _ _ (Table.inv_new _ _))).noPanic
    · intro tb h0
      have hu := Migration.using_inv m t h
      refine noPanic_bind (safe_of_total (Migration.addTable_total _ tb hu)).noPanic ?_
      intro m1 h1
      exact addCols_noPanic cols _ (Migration.using_inv m1 t (Migration.addTable_inv _ m1 tb hu (htb tb h0) h1))
  | dropTable t =>
    unfold step
    exact noPanic_bind (safe_of_total (Migration.removeTable_total m t h)).noPanic (fun _ _ => noPanic_pure _)
  | addColumn t c pos =>
    unfold step
    refine noPanic_bind ?_ ?_
    · cases pos.toPos? with
      | none => exact noPanic_pure _
      | some p => exact (Migration.setColumnPosition_safe m t p h).noPanic
    · intro m1 h1
      have hi1 : m1.Inv := by
        cases hp : pos.toPos? with
        | none => rw [hp] at h1; have := pure_ok h1; subst this; exact h
        | some p => rw [hp] at h1; exact Migration.setColumnPosition_inv m m1 t p h h1
      exact (Migration.addColumn_safe _ _ _ _ (Migration.using_inv m1 t hi1)).noPanic
  | dropColumn t c =>
    unfold step
    exact noPanic_bind (Migration.removeColumn_safe m t c h).noPanic (fun _ _ => noPanic_pure _)
  | modifyColumn t c =>
    unfold step
    refine noPanic_bind (Migration.addColumn_safe m _ _ _ h).noPanic ?_
    intro m1 h1
    exact (Migration.addColumn_safe _ _ _ _
      (Migration.using_inv m1 t (Migration.addColumn_inv m m1 _ _ _ h h1))).noPanic
  | renameColumn t o n =>
    unfold step
    exact noPanic_bind (Migration.renameColumn_safe m t o n h).noPanic (fun _ _ => noPanic_pure _)
  | addPrimaryKey t cols =>
    unfold step
    exact noPanic_bind (Migration.addIndex_safe m t _ h).noPanic (fun _ _ => noPanic_pure _)
  | dropPrimaryKey t =>
    unfold step
    exact noPanic_bind (Migration.removeIndex_safe m t _ h).noPanic (fun _ _ => noPanic_pure _)
  | addFk t name col rt rc =>
    unfold step
    exact noPanic_bind (Migration.addForeignKey_safe m t _ h).noPanic (fun _ _ => noPanic_pure _)
  | dropFk t name =>
    unfold step
    exact noPanic_bind (Migration.removeForeignKey_safe m t _ h).noPanic (fun _ _ => noPanic_pure _)
  | renameIndex t o n =>
    unfold step
    exact noPanic_bind (Migration.renameIndex_safe m t o n h).noPanic (fun _ _ => noPanic_pure _)
  | createIndex t name cols uniq usingT =>
    unfold step
    exact noPanic_bind (Migration.addIndex_safe m t _ h).noPanic (fun _ _ => noPanic_pure _)
  | dropIndex t name =>
    unfold step
    exact noPanic_bind (Migration.removeIndex_safe m t _ h).noPanic (fun _ _ => noPanic_pure _)
  | commentOn t c text => unfold step; exact noPanic_err _ (by simp [benignErrors])
  | alterType t c typ => unfold step; exact noPanic_err _ (by simp [benignErrors])
  | setDefault t c d => unfold step; exact noPanic_err _ (by simp [benignErrors])
  | dropNotNull t c => unfold step; exact noPanic_err _ (by simp [benignErrors])

/-- **loading a MySQL script never panics** (from any consistent state, renames onto fresh names) -/
theorem run_noPanic (ss : List Stmt) : ∀ (m : Migration), m.Inv → RenameFresh id step m ss → NoPanic (run m ss) := by
  induction ss with
  | nil => intro m _ _; exact noPanic_pure _
  | cons s rest ih =>
    intro m h hf
    unfold run
    exact noPanic_bind (step_noPanic m s h) (fun m1 h1 => ih m1 (step_inv m m1 s h hf.1 h1) (hf.2 m1 h1))

end ReaderMysql

theorem foldlM_noPanic {α : Type} (f : Migration → α → M Migration)
    (hf : ∀ m a, m.Inv → NoPanic (f m a)) (hi : ∀ m m' a, m.Inv → f m a = .ok m' → m'.Inv) (l : List α) :
    ∀ (m : Migration), m.Inv → NoPanic (l.foldlM f m) := by
  induction l with
  | nil => intro m _; rw [List.foldlM_nil]; exact noPanic_pure _
  | cons a r ih =>
    intro m h
    rw [List.foldlM_cons]
    exact noPanic_bind (hf m a h) (fun m1 h1 => ih m1 (hi m m1 a h h1))

namespace ReaderPg

theorem addIdxs_noPanic (tb : String) (is : List Index) : ∀ (m : Migration), m.Inv → NoPanic (addIdxs m tb is) := by
  induction is with
  | nil => intro m _; exact noPanic_pure _
  | cons i rest ih =>
    intro m h
    unfold addIdxs
    exact noPanic_bind (Migration.addIndex_safe m _ _ h).noPanic
      (fun m1 h1 => ih m1 (Migration.addIndex_inv m m1 _ _ h h1))

theorem addCols_noPanic (cols : List ColDef) : ∀ (m : Migration), m.Inv → NoPanic (addCols m cols) := by
  induction cols with
  | nil => intro m _; exact noPanic_pure _
  | cons c rest ih =>
    intro m h
    unfold addCols
    simp only
    refine noPanic_bind (Migration.addColumn_safe m _ _ _ h).noPanic ?_
    intro m1 h1
    have hi1 := Migration.addColumn_inv m m1 _ _ _ h h1
    refine noPanic_bind (addIdxs_noPanic _ _ m1 hi1) ?_
    intro m2 h2
    exact ih m2 (addIdxs_inv _ _ m1 m2 hi1 h2)

theorem step_noPanic (m : Migration) (s : Stmt) (h : m.Inv) : NoPanic (step m s) := by
  have hrej : NoPanic (.error "PARSE: statement rejected by the postgres grammar" : M Migration) :=
    noPanic_err _ (by simp [benignErrors])
  cases s with
  | createTable t ident cols pk =>
    unfold step
    refine noPanic_bind (safe_of_total (Migration.addTable_total m _ h)).noPanic ?_
    intro m1 h1
    exact addCols_noPanic cols _ (Migration.using_inv m1 t (Migration.addTable_inv m m1 _ h (Table.inv_new _ _) h1))
  | dropTable t => unfold step; exact noPanic_pure _
  | addColumn t c pos =>
    unfold step
    simp only
    refine noPanic_bind (Migration.addColumn_safe m _ _ _ h).noPanic ?_
    intro m1 h1
    exact addIdxs_noPanic _ _ m1 (Migration.addColumn_inv m m1 _ _ _ h h1)
  | dropColumn t c => unfold step; exact (Migration.removeColumn_safe m _ _ h).noPanic
  | modifyColumn t c => unfold step; exact hrej
  | renameColumn t o n => unfold step; exact (Migration.renameColumn_safe m _ _ _ h).noPanic
  | addPrimaryKey t cols => unfold step; exact (Migration.addIndex_safe m _ _ h).noPanic
  | dropPrimaryKey t => unfold step; exact hrej
  | addFk t name col rt rc => unfold step; exact (Migration.addForeignKey_safe m _ _ h).noPanic
  | dropFk t name =>
    unfold step
    simp only
    split
    · exact (Migration.removeForeignKey_safe m _ _ h).noPanic
    · exact (Migration.removeIndex_safe m _ _ h).noPanic
  | renameIndex t o n => unfold step; exact hrej
  | createIndex t name cols uniq usingT => unfold step; exact (Migration.addIndex_safe m _ _ h).noPanic
  | dropIndex t name => unfold step; exact (Migration.removeIndex_safe m _ _ h).noPanic
  | commentOn t c text => unfold step; exact (Migration.addComment_safe m _ _ _ h).noPanic
  | alterType t c typ => unfold step; exact (Migration.addColumn_safe m _ _ _ h).noPanic
  | setDefault t c d => unfold step; exact (Migration.addColumn_safe m _ _ _ h).noPanic
  | dropNotNull t c => unfold step; exact noPanic_pure _

theorem steps_noPanic (ss : List Stmt) : ∀ (m : Migration), m.Inv → RenameFresh pgName step m ss →
    NoPanic (ss.foldlM step m) := by
  induction ss with
  | nil => intro m _ _; rw [List.foldlM_nil]; exact noPanic_pure _
  | cons s rest ih =>
    intro m h hf
    rw [List.foldlM_cons]
    exact noPanic_bind (step_noPanic m s h) (fun m1 h1 => ih m1 (step_inv m m1 s h hf.1 h1) (hf.2 m1 h1))

theorem run_noPanic (ss : List Stmt) (m : Migration) (h : m.Inv) (hf : RenameFresh pgName step m ss) :
    NoPanic (run m ss) := by
  unfold run
  split
  · exact noPanic_err _ (by simp [benignErrors])
  · exact steps_noPanic ss m h hf

end ReaderPg

namespace ReaderSqlite

theorem column_noPanic (c : ColDef) : NoPanic (column c) := by
  unfold column
  refine noPanic_bind ?_ (fun _ _ => noPanic_pure _)
  -- `mapM` over the options: each option converts or reports UNMODELLED
  generalize c.opts = os
  induction os with
  | nil => rw [List.mapM_nil]; exact noPanic_pure _
  | cons o r ih =>
    rw [List.mapM_cons]
    refine noPanic_bind ?_ (fun _ _ => noPanic_bind ih (fun _ _ => noPanic_pure _))
    cases o.kind <;> first | exact noPanic_pure _ | exact noPanic_err _ (by simp [benignErrors])

theorem step_noPanic (m : Migration) (s : Stmt) (h : m.Inv) : NoPanic (step m s) := by
  have hun : NoPanic (.error "UNMODELLED sqlite statement" : M Migration) :=
    noPanic_err _ (by simp [benignErrors])
  cases s with
  | createTable t ident cols pk =>
    unfold step
    simp only
    split
    · exact noPanic_err _ (by simp [benignErrors])
    · refine noPanic_bind (safe_of_total (Migration.addTable_total m _ h)).noPanic ?_
      intro m1 h1
      have hi1 := Migration.addTable_inv m m1 _ h (Table.inv_new _ _) h1
      refine foldlM_noPanic _ ?_ ?_ cols _ (Migration.using_inv m1 _ hi1)
      · intro a c ha
        exact noPanic_bind (column_noPanic c) (fun col _ => (Migration.addColumn_safe a _ col _ ha).noPanic)
      · intro a a' c ha hc
        obtain ⟨col, _, hc⟩ := bind_ok hc
        exact Migration.addColumn_inv a a' _ _ _ ha hc
  | createIndex t name cols uniq u =>
    unfold step
    simp only
    split
    · exact noPanic_err _ (by simp [benignErrors])
    · exact (Migration.addIndex_safe m _ _ h).noPanic
  | dropTable t => unfold step; exact hun
  | addColumn t c pos => unfold step; exact hun
  | dropColumn t c => unfold step; exact hun
  | modifyColumn t c => unfold step; exact hun
  | renameColumn t o n => unfold step; exact hun
  | addPrimaryKey t cols => unfold step; exact hun
  | dropPrimaryKey t => unfold step; exact hun
  | addFk t name col rt rc => unfold step; exact hun
  | dropFk t name => unfold step; exact hun
  | renameIndex t o n => unfold step; exact hun
  | dropIndex t name => unfold step; exact hun
  | commentOn t c text => unfold step; exact hun
  | alterType t c typ => unfold step; exact hun
  | setDefault t c d => unfold step; exact hun
  | dropNotNull t c => unfold step; exact hun

theorem run_noPanic (ss : List Stmt) (m : Migration) (h : m.Inv) : NoPanic (run m ss) :=
  foldlM_noPanic step (fun a s ha => step_noPanic a s ha) (fun a a' s ha hs => step_inv a a' s ha hs) ss m h

end ReaderSqlite

/-- **no reader panics** on a consistent state -/
theorem readScript_noPanic (g : Globals) (m : Migration) (ss : List Stmt) (h : m.Inv) (hf : ScriptFresh g m ss) :
    NoPanic (readScript g m ss) := by
  unfold readScript
  unfold ScriptFresh at hf
  cases hd : g.dialect with
  | mysql => rw [hd] at hf; exact ReaderMysql.run_noPanic ss m h hf
  | postgres => rw [hd] at hf; exact ReaderPg.run_noPanic ss m h hf
  | sqlite => exact ReaderSqlite.run_noPanic ss m h

end Sqlize
