/-
  Proofs/FilesOrder.lean — C11, "a folder written by successive WriteFiles calls reloads in write order".
  `ReadPath` sorts the directory listing by file name and keeps the non-hidden entries ending with the up suffix.  If the
  up files were written under strictly increasing names (`<timestamp>_<name><suffix>` with strictly increasing 14-digit
  timestamps: `name_lt_of_ts_lt`), whatever else the folder holds that the filter rejects (down files, other files), the
  contents come back in write order — sorting a permutation of a strictly increasing list gives that list
  (`List.Perm.eq_of_pairwise`).  Two writes within one second have the same timestamp: the recorded finding.
-/
import SqlizeModel.Impl.Files
import SqlizeModel.Props.C11

namespace Sqlize.Files
open Sqlize.C11

theorem list_lt_append_of_lt_same_length : ∀ (a b x y : List Char), a.length = b.length → a < b → a ++ x < b ++ y := by
  intro a
  induction a with
  | nil =>
    intro b x y hl h
    cases b with
    | nil => exact absurd h (List.lt_irrefl _)
    | cons _ _ => simp at hl
  | cons c r ih =>
    intro b x y hl h
    cases b with
    | nil => simp at hl
    | cons d r' =>
      simp only [List.length_cons, Nat.add_right_cancel_iff] at hl
      rw [List.cons_append, List.cons_append]
      rw [List.cons_lt_cons_iff] at h ⊢
      rcases h with h | ⟨h1, h2⟩
      · exact Or.inl h
      · exact Or.inr ⟨h1, ih r' x y hl h2⟩

/-- file names that start with timestamps of the same width compare like their timestamps -/
theorem name_lt_of_ts_lt (ts1 ts2 rest1 rest2 : String) (hl : ts1.length = ts2.length) (h : ts1 < ts2) :
    ts1 ++ rest1 < ts2 ++ rest2 := by
  show (ts1 ++ rest1).toList < (ts2 ++ rest2).toList
  rw [String.toList_append, String.toList_append]
  exact list_lt_append_of_lt_same_length _ _ _ _ (by simpa [String.length_toList] using hl) h

theorem names_unique : ∀ (ups : List (String × String)), ups.Pairwise (fun a b => a.1 < b.1) →
    ∀ a ∈ ups, ∀ b ∈ ups, a.1 = b.1 → a = b := by
  intro ups
  induction ups with
  | nil => intro _ a ha; cases ha
  | cons u r ih =>
    intro hinc a ha b hb hab
    have hc := List.pairwise_cons.mp hinc
    rcases List.mem_cons.mp ha with rfl | ha'
    · rcases List.mem_cons.mp hb with rfl | hb'
      · rfl
      · have := hc.1 b hb'
        rw [hab] at this
        exact absurd this (String.lt_irrefl _)
    · rcases List.mem_cons.mp hb with rfl | hb'
      · have := hc.1 a ha'
        rw [← hab] at this
        exact absurd this (String.lt_irrefl _)
      · exact ih hc.2 a ha' b hb' hab

/-- **reading back in write order**: the folder holds the up files `ups` (listed here in write order, under strictly
    increasing names, each accepted by the filter) and other entries the filter rejects, in any directory order; then
    `ReadPath` returns the contents of the up files in write order -/
theorem read_back_in_write_order (entries ups others : List (String × String)) (suffix : String)
    (hperm : entries.Perm (ups ++ others))
    (hinc : ups.Pairwise (fun a b => a.1 < b.1))
    (hups : ∀ e ∈ ups, (e.1.endsWith suffix && !e.1.startsWith ".") = true)
    (hothers : ∀ e ∈ others, (e.1.endsWith suffix && !e.1.startsWith ".") = false) :
    readFolder entries suffix = ups.map (·.2) := by
  unfold readFolder
  congr 1
  have hS : (sortByName entries).Perm (ups ++ others) := (sort_perm entries).trans hperm
  have hfu : ups.filter (fun e => e.1.endsWith suffix && !e.1.startsWith ".") = ups := List.filter_eq_self.mpr hups
  have hfo : others.filter (fun e => e.1.endsWith suffix && !e.1.startsWith ".") = [] := by
    apply List.filter_eq_nil_iff.mpr
    intro e he
    rw [hothers e he]; simp
  have hF : ((sortByName entries).filter (fun e => e.1.endsWith suffix && !e.1.startsWith ".")).Perm ups := by
    have := hS.filter (fun e => e.1.endsWith suffix && !e.1.startsWith ".")
    rw [List.filter_append, hfu, hfo, List.append_nil] at this
    exact this
  have hsortedF : ((sortByName entries).filter (fun e => e.1.endsWith suffix && !e.1.startsWith ".")).Pairwise
      (fun a b => a.1 ≤ b.1) := (read_sorted entries).sublist List.filter_sublist
  have hsortedU : ups.Pairwise (fun a b => a.1 ≤ b.1) :=
    hinc.imp (fun h => String.not_lt.mp (String.lt_asymm h))
  have hinj := names_unique ups hinc
  exact List.Perm.eq_of_pairwise (le := fun a b : String × String => a.1 ≤ b.1)
    (fun a b ha hb h1 h2 => hinj a (hF.subset ha) b hb (String.le_antisymm h1 h2)) hsortedF hsortedU hF

/-- one `WriteFiles` call: clock reading, migration name, the two migration texts -/
structure Write where
  ts : String
  name : String
  up : String
  down : String

/-- the up file a call writes (file name inside the folder, content): `files_written` -/
def upEntry (cfg : FileCfg) (w : Write) : String × String :=
  (w.ts ++ ("_" ++ String.ofList (sanitize w.name.toList) ++ cfg.upSuffix),
   genDescription ++ (if w.up = "" then emptyMigration else w.up))

/-- **successive writes reload in write order**: calls made at strictly increasing clock readings of the same width (the
    14-digit timestamp), each writing an up file the filter accepts, into a folder whose other entries (down files,
    anything else) the filter rejects: `ReadPath` returns header + migration text of every call, in call order -/
theorem successive_writes_reload_in_order (cfg : FileCfg) (ws : List Write) (entries others : List (String × String))
    (hperm : entries.Perm (ws.map (upEntry cfg) ++ others))
    (hts : ws.Pairwise (fun a b => a.ts.length = b.ts.length ∧ a.ts < b.ts))
    (hups : ∀ w ∈ ws, ((upEntry cfg w).1.endsWith cfg.upSuffix && !(upEntry cfg w).1.startsWith ".") = true)
    (hothers : ∀ e ∈ others, (e.1.endsWith cfg.upSuffix && !e.1.startsWith ".") = false) :
    readFolder entries cfg.upSuffix = ws.map (fun w => genDescription ++ (if w.up = "" then emptyMigration else w.up)) := by
  have h := read_back_in_write_order entries (ws.map (upEntry cfg)) others cfg.upSuffix hperm
    (by
      rw [List.pairwise_map]
      exact hts.imp (fun {a b} hab => name_lt_of_ts_lt a.ts b.ts _ _ hab.1 hab.2))
    (by
      intro e he
      obtain ⟨w, hw, rfl⟩ := List.mem_map.mp he
      exact hups w hw)
    hothers
  rw [h, List.map_map]
  rfl

-- non-vacuity: two calls one second apart, a folder listing in another order that also holds the down files and a hidden
-- file; the hypotheses hold and the up files come back in call order
def exCfg : FileCfg := { folder := "migrations", upSuffix := ".up.sql", downSuffix := ".down.sql" }
def exW1 : Write := { ts := "20260101000001", name := "Add users", up := "CREATE TABLE users (id INT);", down := "DROP TABLE users;" }
def exW2 : Write := { ts := "20260101000002", name := "add-email", up := "ALTER TABLE users ADD COLUMN email TEXT;", down := "" }
def exOthers : List (String × String) :=
  [("20260101000002_add_email.down.sql", "x"), (".hidden.up.sql", "y"), ("20260101000001_add_users.down.sql", "z")]
#guard [exW1, exW2].map (fun w => (upEntry exCfg w).1) == ["20260101000001_add_users.up.sql", "20260101000002_add_email.up.sql"]
#guard decide (exW1.ts.length = exW2.ts.length ∧ exW1.ts < exW2.ts)
#guard [exW1, exW2].all (fun w => (upEntry exCfg w).1.endsWith exCfg.upSuffix && !(upEntry exCfg w).1.startsWith ".")
#guard exOthers.all (fun e => !(e.1.endsWith exCfg.upSuffix && !e.1.startsWith "."))
#guard readFolder (exOthers ++ [upEntry exCfg exW2, upEntry exCfg exW1]) exCfg.upSuffix ==
  [exW1, exW2].map (fun w => genDescription ++ w.up)
-- … and two calls within the same second (the recorded finding `same-second-writes`) come back in name order
#guard readFolder [upEntry exCfg { exW1 with name := "zz first" }, upEntry exCfg { exW2 with ts := exW1.ts }] exCfg.upSuffix ==
  [genDescription ++ exW2.up, genDescription ++ exW1.up]

end Sqlize.Files
