/-
  Proofs/AvroScripts.lean — C15 from scripts: for every script the reference engine accepts (MySQL reader model, the
  column-safe vocabulary), `ArvoSchema` of the loaded model is, document by document, what the *reference schema* says:
  one document per selected table in load order, named after the table, whose `before.Value.fields` array has exactly one
  field per column of the reference table in table order, typed by the class of the reference column's type text and
  made a nullable union exactly when the reference column has a DEFAULT option.  The simulation relation `Rel` (reader ↔
  reference engine: same tables, same column names in the same order, same types, same option kinds up to order) carries
  it; nothing else of the model state reaches the export.
-/
import SqlizeModel.Proofs.FidelityMain
import SqlizeModel.Spec.Exports

namespace Sqlize
open Spec

/-- the envelope of one table as a function of its name and the text of its fields -/
def Avro.schemaOf (name fields : String) : String :=
  "{\"type\":\"record\",\"name\":" ++ Avro.jsonStr name ++ ",\"namespace\":" ++ Avro.jsonStr name ++
  ",\"fields\":[{\"name\":\"before\",\"type\":[\"null\",{\"type\":\"record\",\"name\":\"Value\",\"namespace\":\"\",\"fields\":[" ++
  fields ++
  "],\"connect.name\":\"\"}]},{\"name\":\"after\",\"type\":[\"null\",\"Value\"]},{\"name\":\"op\",\"type\":\"string\"},{\"name\":\"ts_ms\",\"type\":[\"null\",\"long\"]},{\"name\":\"transaction\",\"type\":[\"null\",{\"type\":\"record\",\"name\":\"ConnectDefault\",\"namespace\":\"io.confluent.connect.avro\",\"fields\":[{\"name\":\"id\",\"type\":\"string\"},{\"name\":\"total_order\",\"type\":\"long\"},{\"name\":\"data_collection_order\",\"type\":\"long\"}],\"connect.name\":\"\"}]}],\"connect.name\":" ++
  Avro.jsonStr name ++ "}"

theorem Avro.schema_eq (t : Table) : Avro.schema t = Avro.schemaOf t.name (",".intercalate (t.cols.map Avro.field)) := rfl

theorem optKinds_hasDefault (n t : String) (os : List Opt) :
    Exports.hasDefault { name := n, typ := t, opts := Table.optKinds os } = os.any (·.kind == .default) := by
  unfold Exports.hasDefault
  simp only
  induction os with
  | nil => rfl
  | cons o r ih =>
    unfold Table.optKinds at ih ⊢
    rw [List.filterMap_cons, List.any_cons]
    cases hk : o.kind <;> simp [Table.optKind, hk, ih]

theorem any_perm {α : Type} (p : α → Bool) {l1 l2 : List α} (h : l1.Perm l2) : l1.any p = l2.any p := by
  induction h with
  | nil => rfl
  | cons x _ ih => simp [List.any_cons, ih]
  | swap x y l => simp only [List.any_cons]; cases p x <;> cases p y <;> rfl
  | trans _ _ ih1 ih2 => exact ih1.trans ih2

/-- one column: the model's field text is the reference column's -/
theorem field_of_spec (c : Column) (cs : ColSpec) (hn : cs.name = c.name) (ht : c.cur.typ = some cs.typ)
    (ho : (Table.optKinds c.cur.opts).Perm cs.opts) : Avro.field c = Exports.avroField cs := by
  unfold Avro.field Exports.avroField
  have htt : c.cur.typeText = cs.typ := by unfold Attr.typeText; rw [ht]; rfl
  have hd : Avro.hasDefault c = Exports.hasDefault cs := by
    unfold Avro.hasDefault
    rw [← optKinds_hasDefault cs.name cs.typ]
    unfold Exports.hasDefault
    exact any_perm _ ho
  rw [htt, hd, hn]

theorem cols_fields : ∀ (a : List Column) (b : List ColSpec), a.map (·.name) = b.map (·.name) →
    (b.map (·.name)).Nodup →
    (∀ c ∈ a, ∃ cs ∈ b, cs.name = c.name ∧ c.cur.typ = some cs.typ ∧ (Table.optKinds c.cur.opts).Perm cs.opts) →
    a.map Avro.field = b.map Exports.avroField := by
  intro a
  induction a with
  | nil => intro b h _ _; cases b with
    | nil => rfl
    | cons _ _ => simp at h
  | cons c r ih =>
    intro b h hnd ht
    cases b with
    | nil => simp at h
    | cons y r' =>
      simp only [List.map_cons, List.cons.injEq] at h
      rw [List.map_cons, List.nodup_cons] at hnd
      obtain ⟨cs, hcs, hcsn, hcst, hcso⟩ := ht c (by simp)
      have hy : cs = y := by
        rcases List.mem_cons.mp hcs with e | e
        · exact e
        · exfalso
          apply hnd.1
          rw [← h.1, ← hcsn]
          exact List.mem_map_of_mem e
      subst hy
      rw [List.map_cons, List.map_cons]
      congr 1
      · exact field_of_spec c cs hcsn hcst hcso
      · apply ih r' h.2 hnd.2
        intro c' hc'
        obtain ⟨cs', hcs', h1, h2, h3⟩ := ht c' (List.mem_cons_of_mem _ hc')
        rcases List.mem_cons.mp hcs' with e | e
        · exfalso
          apply hnd.1
          have : c'.name ∈ r.map (·.name) := List.mem_map_of_mem hc'
          rw [h.2] at this
          rw [← e, h1]; exact this
        · exact ⟨cs', e, h1, h2, h3⟩

/-- two lists related position by position, filtered by a predicate on a key both sides agree on, then mapped by
    functions that agree on related elements -/
theorem filter_map_pos {α β γ : Type} (ka : α → String) (kb : β → String) (p : String → Bool) (f : α → γ) (g : β → γ) :
    ∀ (A : List α) (B : List β), A.length = B.length →
      (∀ (i : Nat) (a : α) (b : β), A[i]? = some a → B[i]? = some b → ka a = kb b ∧ f a = g b) →
      (A.filter (fun a => p (ka a))).map f = (B.filter (fun b => p (kb b))).map g := by
  intro A
  induction A with
  | nil =>
    intro B hl _
    cases B with
    | nil => rfl
    | cons _ _ => simp at hl
  | cons a r ih =>
    intro B hl h
    cases B with
    | nil => simp at hl
    | cons b r' =>
      obtain ⟨hk, hf⟩ := h 0 a b rfl rfl
      have hr := ih r' (by simpa using hl) (fun i a' b' ha hb => h (i + 1) a' b' (by simpa using ha) (by simpa using hb))
      rw [List.filter_cons, List.filter_cons, hk]
      cases p (kb b) with
      | true => simp only [if_true, List.map_cons, hf, hr]
      | false => simpa using hr

/-- **C15 from scripts**: `ArvoSchema` of the loaded model is the export of the reference schema -/
theorem avro_of_schema (rc : Bool) (ss : List Stmt) (db : DB) (hs : ss.all Stmt.colSafe = true)
    (he : execAll rc [] ss = some db) (need : List String) :
    ∃ m, ReaderMysql.run {} ss = .ok m ∧
      Avro.arvoSchema .mysql m need =
        (Exports.selectDB db need).map (fun t => Avro.schemaOf t.name (Exports.avroFields t)) := by
  obtain ⟨m, hm, hr⟩ := ReaderMysql.run_rel rc ss {} [] db Rel.empty hs he
  refine ⟨m, hm, ?_⟩
  unfold Avro.arvoSchema Mermaid.selectTables Exports.selectDB
  simp only [bne_self_eq_false, Bool.false_eq_true, if_false]
  have hview := hr.view
  unfold colView specView at hview
  have hlen : m.tables.length = db.length := by simpa using congrArg List.length hview
  apply filter_map_pos (fun t : Table => t.name) (fun t : TableSpec => t.name) (fun n => need.isEmpty || need.contains n)
    Avro.schema (fun t => Avro.schemaOf t.name (Exports.avroFields t)) m.tables db hlen
  intro i tm tb htm htb
  have hpair : (tm.name, tm.colNames) = (tb.name, tb.colNames) := by
    have h1 : (m.tables.map (fun t => (t.name, t.colNames)))[i]? = some (tm.name, tm.colNames) := by
      rw [List.getElem?_map, htm]; rfl
    have h2 : (db.map (fun t => (t.name, t.colNames)))[i]? = some (tb.name, tb.colNames) := by
      rw [List.getElem?_map, htb]; rfl
    rw [hview, h2] at h1
    exact (Option.some.inj h1).symm
  have hn : tm.name = tb.name := (Prod.mk.inj hpair).1
  have hc : tm.colNames = tb.colNames := (Prod.mk.inj hpair).2
  refine ⟨hn, ?_⟩
  rw [Avro.schema_eq, hn]
  congr 1
  unfold Exports.avroFields
  congr 1
  have hnd : (tb.cols.map (·.name)).Nodup := by
    have := (hr.inv.each tm (List.mem_of_getElem? htm)).cols.nodup
    have hc' : tm.cols.map (·.name) = tb.cols.map (·.name) := hc
    rw [← hc']; exact this
  exact cols_fields tm.cols tb.cols hc hnd (hr.types i tm tb htm htb)

end Sqlize
