/-
  Proofs/EndToEndElemsDown.lean — the index clause of C02 with dropped columns, from scripts to printed statements
  (the mirror of `indexes_with_drops_end_to_end'`).
-/
import SqlizeModel.Proofs.EndToEndElems
import SqlizeModel.Proofs.IdxRefineDown

namespace Sqlize
open Spec

/-- **C02, index clause with dropped columns, end to end** (MySQL reader model, default field order).  For two scripts
    the reference engine accepts and a table present on both sides, `MigrationColumnDown` of the diffed record returns
    the column statements and the list `dc` of the columns the down migration drops — all of them columns the old table
    does not have —, and `MigrationIndexDown` called with that list prints index statements that are exactly
    `Abs.Idx.emitDownSup dc` of the reference engine's two index lists; executed on what the DROP COLUMN statements
    leave of the new index list (`prune dc`), they are well-formed at every step and give the old index list up to order
    — unless an index is redefined under its name while every column of its new definition is dropped. -/
theorem indexes_with_drops_end_to_end_down' (g : Globals) (hg : g.dialect = .mysql) (hio : g.ignoreOrder = false) (rc : Bool)
    (old new : List Stmt) (dbO dbN : DB) (ho : old.all Stmt.elemSafe = true) (hn : new.all Stmt.elemSafe = true)
    (heo : execAll rc [] old = some dbO) (hen : execAll rc [] new = some dbN)
    (d : Migration) (hd : loadAndDiff g old new = .ok d)
    (t : String) (tbO tbN : TableSpec) (hfo : dbO.find t = some tbO) (hfn : dbN.find t = some tbN)
    (hne : ∀ n ∈ tbN.colNames ++ tbO.colNames, n ≠ "") :
    ∃ td ∈ d.tables, td.name = t ∧ td.action = .none ∧
      ∃ cs dc ss, td.migrationColumnDown g = .ok (cs, dc) ∧ td.migrationIndexDown g dc = .ok ss ∧
        (∀ c ∈ dc, c ∉ tbO.colNames) ∧
        ss.filterMap idxStmt = Abs.Idx.emitDownSup dc tbN.idxs tbO.idxs ∧
        ((∀ s ∈ tbN.idxs, ∀ o ∈ tbO.idxs, o.name = s.name → o ≠ s → ∃ c ∈ s.cols, c ∉ dc) →
          ∃ R, Abs.Idx.execAll (Abs.Idx.prune dc tbN.idxs) (ss.filterMap idxStmt) = some R ∧ R.Perm tbO.idxs) ∧
        cs = (Table.walkCols g t false [] td.cols).1 ∧ dc = (Table.walkCols g t false [] td.cols).2 ∧
        (∀ s ∈ ss, s.table = t ∧ ((∃ cols, s = .addPrimaryKey t cols) ∨ s = .dropPrimaryKey t ∨ (idxStmt s).isSome = true)) ∧
        (Abs.Idx.names tbN.idxs).Nodup ∧ (Abs.Idx.names tbO.idxs).Nodup := by
  have hoc : old.all Stmt.colSafe = true :=
    List.all_eq_true.mpr (fun s hs => Stmt.colSafe_of_elemSafe s (List.all_eq_true.mp ho s hs))
  have hnc : new.all Stmt.colSafe = true :=
    List.all_eq_true.mpr (fun s hs => Stmt.colSafe_of_elemSafe s (List.all_eq_true.mp hn s hs))
  have hd0 := hd
  unfold loadAndDiff at hd
  obtain ⟨o, hlo, hd⟩ := bind_ok hd
  obtain ⟨n, hln, hd⟩ := bind_ok hd
  obtain ⟨mo, hmo', hro, heo'⟩ := ReaderMysql.run_elems rc old {} [] dbO Rel.empty ElemsOK.empty ho heo
  obtain ⟨mn, hmn', hrn, hen'⟩ := ReaderMysql.run_elems rc new {} [] dbN Rel.empty ElemsOK.empty hn hen
  have : mo = o := by
    have : readScript g {} old = .ok mo := by unfold readScript; rw [hg]; exact hmo'
    rw [this] at hlo; exact Except.ok.inj hlo
  subst this
  have : mn = n := by
    have : readScript g {} new = .ok mn := by unfold readScript; rw [hg]; exact hmn'
    rw [this] at hln; exact Except.ok.inj hln
  subst this
  obtain ⟨io, to, hgo, hmo, hdo, hnmo, hcolo, _, _⟩ := hro.lookup hfo
  obtain ⟨i, tn, _, hmn, hdn, hnmn, hcoln, _, _⟩ := hrn.lookup hfn
  have hmemo := List.mem_of_getElem? hmo
  have hmemn := List.mem_of_getElem? hmn
  unfold Migration.diff at hd
  obtain ⟨ts, h1, hd⟩ := bind_ok hd
  obtain ⟨td, htd, hspec⟩ := Migration.diffTables1_getElem g.dialect mo mn.tables ts i tn h1 hmn
  rw [hnmn, hgo] at hspec
  obtain ⟨ot, hot, hspec⟩ := hspec
  have : ot = to := by rw [hmo] at hot; exact (Option.some.inj hot).symm
  subst this
  have hex : ot.exists_ = true := by
    unfold Table.exists_; rw [(hro.fresh ot hmemo).2]; rfl
  rw [if_pos hex] at hspec
  obtain ⟨t1, ht1, htdeq⟩ := hspec
  obtain ⟨extra, hext⟩ := Migration.diffTables2_prefix mo.tables _ d hd
  have htd_mem : td ∈ d.tables := by
    rw [hext]; exact List.mem_append_left _ (List.mem_of_getElem? htd)
  have hi_n := hrn.inv.each tn hmemn
  have hi_o := hro.inv.each ot hmemo
  have hname : td.name = t := by
    have := Table.diff_inv g.dialect tn ot t1 hi_n hi_o (hrn.np tn hmemn) ht1
    rw [htdeq]; show t1.name = t; rw [this.2]; exact hnmn
  have hact : td.action = .none := by rw [htdeq]
  -- the columns of the record: the tagged merged list
  obtain ⟨cols1, tc, hc1, hc2, hsig⟩ := Table.diff_decompose g.dialect tn ot t1 ht1
  obtain ⟨htag, hsimple⟩ := Table.diff_cols_tagged g.dialect tn ot tc cols1 hi_n hi_o (hrn.np tn hmemn)
    (hrn.fresh tn hmemn).1 (hro.fresh ot hmemo).1 hc1 hc2
  have habs : absCols td.cols = Abs.tagged tbN.colNames tbO.colNames := by
    rw [htdeq]
    show absCols t1.cols = _
    rw [Table.absCols_of_sig hsig, htag, hcoln, hcolo]
  have hsimple_td : ∀ c ∈ td.cols, SimpleAction c.action := by
    intro c hc
    rw [htdeq] at hc
    have hc : c ∈ t1.cols := hc
    have hm : (c.name, c.action, c.cur.typ, Table.optKinds c.cur.opts) ∈ t1.sig :=
      List.mem_map_of_mem (f := fun c : Column => (c.name, c.action, c.cur.typ, Table.optKinds c.cur.opts)) hc
    rw [hsig] at hm
    obtain ⟨c0, hc0, he⟩ := List.mem_map.mp hm
    have : c0.action = c.action := (Prod.mk.inj (Prod.mk.inj he).2).1
    rw [← this]; exact hsimple c0 hc0
  have hne_td : ∀ c ∈ ([] : List Column) ++ td.cols, c.name ≠ "" := by
    intro c hc
    have hc : c ∈ td.cols := by simpa using hc
    have hm : c.name ∈ (absCols td.cols).map (·.1) := by
      simp only [absCols, List.map_map]
      exact List.mem_map_of_mem (f := (fun c : Column => (c.name, tagOfAction c.action).1)) hc
    rw [habs, Abs.tagged_names] at hm
    rcases Abs.mem_merge hm with hm | hm
    · exact hne _ (List.mem_append_left _ hm)
    · exact hne _ (List.mem_append_right _ hm)
  have hsq : g.dialect ≠ .sqlite := by rw [hg]; decide
  obtain ⟨_, hdc⟩ := walkCols_down_refines g hio hsq t td.cols [] hsimple_td hne_td
  -- every dropped column is a column the new table does not have
  have hdcN : ∀ c ∈ (Table.walkCols g t false [] td.cols).2, c ∉ tbO.colNames := by
    intro c hc
    rw [hdc, habs] at hc
    obtain ⟨p, hp, rfl⟩ := List.mem_map.mp hc
    obtain ⟨hp1, hp2⟩ := List.mem_filter.mp hp
    unfold Abs.tagged at hp1
    obtain ⟨x, _, rfl⟩ := List.mem_map.mp hp1
    have hp2 : Abs.tagOf tbN.colNames tbO.colNames x = .add := by simpa using hp2
    intro hx
    have hx : x ∈ tbO.colNames := hx
    by_cases hN : x ∈ tbN.colNames
    · simp [Abs.tagOf, hN, hx] at hp2
    · simp [Abs.tagOf, hN] at hp2
  -- the slices
  have hrawn := Migration.raws_getElem mn hmn
  have hrawo := Migration.raws_getElem mo hmo
  obtain ⟨hvin, _⟩ := hen'.at_ hrawn hdn
  obtain ⟨hvio, _⟩ := heo'.at_ hrawo hdo
  have hvin : idxSpecOf tn.idxs = tbN.idxs := hvin
  have hvio : idxSpecOf ot.idxs = tbO.idxs := hvio
  obtain ⟨hlin, _⟩ := hen'.fresh _ (List.mem_of_getElem? hrawn)
  obtain ⟨hlio, _⟩ := heo'.fresh _ (List.mem_of_getElem? hrawo)
  have hfn' := (ReaderMysql.fresh_of_rel hrn hen').tables tn hmemn
  have hfo' := (ReaderMysql.fresh_of_rel hro heo').tables ot hmemo
  obtain ⟨hidx, _⟩ := Table.diff_elems g.dialect tn ot t1 hi_n hi_o (hrn.np tn hmemn) hfn'.1 hfo'.1 ht1
  have htdi : td.idxs = t1.idxs := by rw [htdeq]
  have hNn : (Abs.Idx.names tbN.idxs).Nodup := by
    rw [← hvin]
    show ((idxSpecOf tn.idxs).map (fun s : IdxSpec => s.name)).Nodup
    rw [idxSpecOf_names]
    exact hi_n.idxs.nodup.sublist List.filter_sublist
  have hOn : (Abs.Idx.names tbO.idxs).Nodup := by
    rw [← hvio]
    show ((idxSpecOf ot.idxs).map (fun s : IdxSpec => s.name)).Nodup
    rw [idxSpecOf_names]
    exact hi_o.idxs.nodup.sublist List.filter_sublist
  -- the reference schemas are well-formed: indexes are non-empty and name columns of their table
  have hwfN : tbN.WF := execAll_wf rc new [] dbN hnc wf_empty hen tbN (mem_of_find hfn)
  have hwfO : tbO.WF := execAll_wf rc old [] dbO hoc wf_empty heo tbO (mem_of_find hfo)
  obtain ⟨ss, hw, hproj, hshape⟩ := Table.walkIdx_refines_down_sup g t (Table.walkCols g t false [] td.cols).2 tn ot hlin hlio
  rw [hvin, hvio] at hproj
  refine ⟨td, htd_mem, hname, hact, (Table.walkCols g t false [] td.cols).1, (Table.walkCols g t false [] td.cols).2, ss,
    ?_, ?_, hdcN, hproj, ?_, rfl, rfl, hshape, hNn, hOn⟩
  · unfold Table.migrationColumnDown
    rw [hact, hname]
    rfl
  · unfold Table.migrationIndexDown
    rw [hact, hname, htdi, hidx]
    exact hw
  · intro hredef
    rw [hproj]
    refine Abs.Idx.emitDownSup_correct _ tbN.idxs tbO.idxs hNn hOn ?_ (fun s hs => (hwfN s hs).1) hredef
    intro o ho' c hc hcd
    exact hdcN c hcd ((hwfO o ho').2 c hc)



end Sqlize
