/-
  Proofs/SchemaIgnoring.lean — the whole-schema theorems of C01 / C02 under the ignore-field-order option.  With the
  option the printed migration is the one printed without it, positional clauses removed (Proofs/IgnoreOrder); the
  reference engine accepts it whenever it accepts the original and ends in the same schema up to the order of the
  columns (Proofs/StripExec); so the executable predicates `Spec.c01` / `Spec.c02`, which compare with
  `DB.equivUnordered` under the option, hold — for either setting of the option.
-/
import SqlizeModel.Proofs.StripExec
import SqlizeModel.Proofs.IgnoreOrder
import SqlizeModel.Proofs.SpecSchemaDown
import SqlizeModel.Proofs.SpecUnchanged

namespace Sqlize
open Spec

theorem Globals.ign_self (g : Globals) : g.ign g.ignoreOrder = g := by
  cases g; rfl

/-- **C01 for a whole schema, either setting of the field-order option** -/
theorem schema_up_any (g : Globals) (hg : g.dialect = .mysql) (rc : Bool)
    (old new : List Stmt) (dbO dbN : DB) (ho : old.all Stmt.elemSafe = true) (hn : new.all Stmt.elemSafe = true)
    (hpo : old.all Stmt.plainOpts = true) (hpn : new.all Stmt.plainOpts = true)
    (heo : execAll rc [] old = some dbO) (hen : execAll rc [] new = some dbN)
    (hdef : ∀ tb ∈ dbO ++ dbN, tb.name ≠ Migration.defaultMigrationTable)
    (hboth : ∀ tbO ∈ dbO, ∀ tbN ∈ dbN, tbO.name = tbN.name →
      Abs.OrderCompatible tbN.colNames tbO.colNames ∧ (∀ n ∈ tbN.colNames ++ tbO.colNames, n ≠ "") ∧ tbO.pk = tbN.pk ∧
      (∀ dc : List String, (∀ c ∈ dc, c ∉ tbN.colNames) →
        ∀ s ∈ tbN.idxs, ∀ o ∈ tbO.idxs, o.name = s.name → o ≠ s → ∃ c ∈ o.cols, c ∉ dc) ∧
      (∀ s ∈ tbN.fks, ∀ o ∈ tbO.fks, s.name = o.name → s = o)) :
    ∃ up, modelUp g old new = .ok up ∧ c01 g.ignoreOrder dbO dbN up false = .ok () := by
  obtain ⟨d, out, hd, hU, ⟨db', he, heq, _⟩, hj⟩ := schema_spec_up (g.ign false) hg rfl rc old new dbO dbN ho hn hpo hpn heo hen
    hdef hboth
  have hup0 : modelUp (g.ign false) old new = .ok out.flatten := by
    unfold modelUp
    simp only [hd, hU, bind, Except.bind, pure, Except.pure]
  cases hio : g.ignoreOrder with
  | false =>
    have hgg : g.ign false = g := by rw [← hio]; exact g.ign_self
    rw [hgg] at hup0
    refine ⟨out.flatten, hup0, ?_⟩
    have hfind : out.flatten.find? (fun s => !justified dbO dbN s) = none := by
      apply List.find?_eq_none.mpr
      intro s hs
      rw [hj s hs]; simp
    unfold c01 migrates allJustified
    simp only [he, heq, if_true, hfind, bind, Except.bind, Bool.false_eq_true, if_false]
  | true =>
    have hgg : g.ign true = g := by rw [← hio]; exact g.ign_self
    have hup1 : modelUp g old new = .ok (out.flatten.map stripPosition) := by
      rw [← hgg, modelUp_ign, hup0]; rfl
    obtain ⟨b1, hb1, hr⟩ := execAll_strip false out.flatten (DBR.refl dbO) he
    have hequ := hr.equivUnordered dbN heq
    refine ⟨_, hup1, ?_⟩
    have hfind : (out.flatten.map stripPosition).find? (fun s => !justified dbO dbN s) = none := by
      apply List.find?_eq_none.mpr
      intro s hs
      obtain ⟨s0, hs0, rfl⟩ := List.mem_map.mp hs
      rw [justified_strip, hj s0 hs0]; simp
    unfold c01 migrates allJustified
    simp only [hb1, hequ, if_true, hfind, bind, Except.bind]

/-- **C02 for a whole schema, either setting of the field-order option** -/
theorem schema_down_any (g : Globals) (hg : g.dialect = .mysql) (rc : Bool)
    (old new : List Stmt) (dbO dbN : DB) (ho : old.all Stmt.elemSafe = true) (hn : new.all Stmt.elemSafe = true)
    (hpo : old.all Stmt.plainOpts = true) (hpn : new.all Stmt.plainOpts = true)
    (heo : execAll rc [] old = some dbO) (hen : execAll rc [] new = some dbN)
    (hdef : ∀ tb ∈ dbO ++ dbN, tb.name ≠ Migration.defaultMigrationTable)
    (hboth : ∀ tbO ∈ dbO, ∀ tbN ∈ dbN, tbO.name = tbN.name →
      Abs.OrderCompatible tbN.colNames tbO.colNames ∧ (∀ n ∈ tbN.colNames ++ tbO.colNames, n ≠ "") ∧ tbO.pk = tbN.pk ∧
      (∀ dc : List String, (∀ c ∈ dc, c ∉ tbO.colNames) →
        ∀ s ∈ tbN.idxs, ∀ o ∈ tbO.idxs, o.name = s.name → o ≠ s → ∃ c ∈ s.cols, c ∉ dc) ∧
      (∀ s ∈ tbN.fks, ∀ o ∈ tbO.fks, s.name = o.name → s = o)) :
    ∃ dn, modelDown g old new = .ok dn ∧ c02 g.ignoreOrder dbO dbN dn false = .ok () := by
  obtain ⟨d, out, hd, hU, ⟨db', he, heq⟩, hj⟩ := schema_spec_down (g.ign false) hg rfl rc old new dbO dbN ho hn hpo hpn heo hen
    hdef hboth
  have hdn0 : modelDown (g.ign false) old new = .ok out.flatten := by
    unfold modelDown
    simp only [hd, hU, bind, Except.bind, pure, Except.pure]
  cases hio : g.ignoreOrder with
  | false =>
    have hgg : g.ign false = g := by rw [← hio]; exact g.ign_self
    rw [hgg] at hdn0
    refine ⟨out.flatten, hdn0, ?_⟩
    have hfind : out.flatten.find? (fun s => !justified dbN dbO s) = none := by
      apply List.find?_eq_none.mpr
      intro s hs
      rw [hj s hs]; simp
    unfold c02 migrates allJustified
    simp only [he, heq, if_true, hfind, bind, Except.bind, Bool.false_eq_true, if_false]
  | true =>
    have hgg : g.ign true = g := by rw [← hio]; exact g.ign_self
    have hdn1 : modelDown g old new = .ok (out.flatten.map stripPosition) := by
      rw [← hgg, modelDown_ign, hdn0]; rfl
    obtain ⟨b1, hb1, hr⟩ := execAll_strip false out.flatten (DBR.refl dbN) he
    have hequ := hr.equivUnordered dbO heq
    refine ⟨_, hdn1, ?_⟩
    have hfind : (out.flatten.map stripPosition).find? (fun s => !justified dbN dbO s) = none := by
      apply List.find?_eq_none.mpr
      intro s hs
      obtain ⟨s0, hs0, rfl⟩ := List.mem_map.mp hs
      rw [justified_strip, hj s0 hs0]; simp
    unfold c02 migrates allJustified
    simp only [hb1, hequ, if_true, hfind, bind, Except.bind]

theorem table_strip (s : Stmt) : (stripPosition s).table = s.table := by
  cases s <;> rfl

/-- `Spec.c03` does not see positional clauses -/
theorem c03_strip (a b : DB) (u d : List Stmt) (h : c03 a b u d = .ok ()) :
    c03 a b (u.map stripPosition) (d.map stripPosition) = .ok () := by
  unfold c03 at h ⊢
  by_cases heq : a.equiv b = true
  · rw [if_pos heq] at h ⊢
    unfold check at h ⊢
    split at h
    · rename_i hc
      simp only [Bool.and_eq_true, List.isEmpty_iff] at hc
      rw [hc.1, hc.2]
      rfl
    · cases h
  · rw [if_neg heq] at h ⊢
    simp only at h ⊢
    split at h
    · rename_i hnone
      rw [← List.map_append]
      split
      · rfl
      · rename_i s hfind
        exfalso
        have hm := List.mem_of_find?_eq_some hfind
        have hp := List.find?_some hfind
        obtain ⟨s0, hs0, rfl⟩ := List.mem_map.mp hm
        rw [table_strip] at hp
        have := List.find?_eq_none.mp hnone s0 hs0
        exact this hp
    · cases h

/-- **C03 for a whole schema, either setting of the field-order option** -/
theorem schema_c03_any (g : Globals) (hg : g.dialect = .mysql) (rc : Bool)
    (old new : List Stmt) (dbO dbN : DB) (ho : old.all Stmt.elemSafe = true) (hn : new.all Stmt.elemSafe = true)
    (hpo : old.all Stmt.plainOpts = true) (hpn : new.all Stmt.plainOpts = true)
    (heo : execAll rc [] old = some dbO) (hen : execAll rc [] new = some dbN)
    (hdef : ∀ tb ∈ dbO ++ dbN, tb.name ≠ Migration.defaultMigrationTable)
    (hboth : ∀ tbO ∈ dbO, ∀ tbN ∈ dbN, tbO.name = tbN.name →
      Abs.OrderCompatible tbN.colNames tbO.colNames ∧ (∀ n ∈ tbN.colNames ++ tbO.colNames, n ≠ "") ∧ tbO.pk = tbN.pk ∧
      (∀ dc : List String, (∀ c ∈ dc, c ∉ tbN.colNames) →
        ∀ s ∈ tbN.idxs, ∀ o ∈ tbO.idxs, o.name = s.name → o ≠ s → ∃ c ∈ o.cols, c ∉ dc) ∧
      (∀ dc : List String, (∀ c ∈ dc, c ∉ tbO.colNames) →
        ∀ s ∈ tbN.idxs, ∀ o ∈ tbO.idxs, o.name = s.name → o ≠ s → ∃ c ∈ s.cols, c ∉ dc) ∧
      (∀ s ∈ tbN.fks, ∀ o ∈ tbO.fks, s.name = o.name → s = o)) :
    ∃ up down, modelUp g old new = .ok up ∧ modelDown g old new = .ok down ∧ c03 dbO dbN up down = .ok () := by
  obtain ⟨up, down, h1, h2, h3⟩ := schema_c03 (g.ign false) hg rfl rc old new dbO dbN ho hn hpo hpn heo hen hdef hboth
  cases hio : g.ignoreOrder with
  | false =>
    have hgg : g.ign false = g := by rw [← hio]; exact g.ign_self
    rw [hgg] at h1 h2
    exact ⟨up, down, h1, h2, h3⟩
  | true =>
    have hgg : g.ign true = g := by rw [← hio]; exact g.ign_self
    refine ⟨up.map stripPosition, down.map stripPosition, ?_, ?_, c03_strip dbO dbN up down h3⟩
    · rw [← hgg, modelUp_ign, h1]; rfl
    · rw [← hgg, modelDown_ign, h2]; rfl

end Sqlize
