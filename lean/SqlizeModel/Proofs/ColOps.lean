/-
  Proofs/ColOps.lean — what the `Table` primitives do to the list of column names, on a consistent table all of whose
  column records were created in this history (action `add`): the facts behind C05's "each column's name and position".
-/
import SqlizeModel.Proofs.MergeRefine
import SqlizeModel.Spec.Exec

namespace Sqlize
namespace Table

/-- all column records were created in this history -/
def AllAdd (t : Table) : Prop := ∀ c ∈ t.cols, c.action = .add

theorem allAdd_new (n : String) (a : Action) : (Table.new n a).AllAdd := by intro c hc; cases hc

/-- the state right after `append(Columns, col)` in `AddColumn` -/
def appended (t : Table) (col : Column) : Table :=
  { t with cols := t.cols ++ [col], colIdx := t.colIdx.set col.name t.cols.length }

theorem appended_names (t : Table) (col : Column) : (t.appended col).colNames = t.colNames ++ [col.name] := by
  show List.map (fun x : Column => x.name) (t.cols ++ [col]) = _
  simp [colNames]

theorem appended_inv (t : Table) (col : Column) (h : t.Inv) (hg : t.colIdx.get? col.name = none) : (t.appended col).Inv := by
  have hN := NInv.append h.cols col.name hg
  have hlen : t.colNames.length = t.cols.length := by simp [colNames]
  rw [hlen] at hN
  refine ⟨?_, h.idxs, h.fks⟩
  rw [appended_names]; exact hN

theorem appended_allAdd (t : Table) (col : Column) (h : t.AllAdd) (hc : col.action = .add) : (t.appended col).AllAdd := by
  intro c hm
  have hm : c ∈ t.cols ++ [col] := hm
  rcases List.mem_append.mp hm with h1 | h1
  · exact h c h1
  · rw [List.mem_singleton.mp h1]; exact hc

/-- `AddColumn` of a fresh name: the general shape -/
theorem addColumn_fresh_eq (t : Table) (col : Column) (mysql : Bool) {pg : Bool} (hg : t.colIdx.get? col.name = none) :
    t.addColumn col mysql pg = (t.appended col).positionStep col.name t.cols.length := by
  unfold addColumn
  rw [hg]
  rfl

/-- fresh name, no pending position: appended at the end -/
theorem addColumn_append (t : Table) (col : Column) (mysql : Bool) {pg : Bool} (hg : t.colIdx.get? col.name = none)
    (hp : t.pendingPos = none) : t.addColumn col mysql pg = .ok (t.appended col) := by
  rw [addColumn_fresh_eq t col mysql hg]
  unfold positionStep
  have : (t.appended col).pendingPos = none := hp
  rw [this]
  rfl

/-- the permuted table keeps `AllAdd` -/
theorem swapOrder_allAdd (t t' : Table) (cn : String) (a b : Nat) (h : t.AllAdd) (hs : t.swapOrder cn a b = .ok t') :
    t'.AllAdd := fun c hc => h c ((swapOrder_mem t t' cn a b hs c).mp hc)

/-- `swapOrder` of the last column to a position `≤` its own always succeeds on the modelled path -/
theorem swapOrder_total (t : Table) (cn : String) (newID : Nat) (hne : t.cols ≠ []) (hle : newID ≤ t.cols.length - 1) :
    ∃ t', t.swapOrder cn (t.cols.length - 1) newID = .ok t' := by
  unfold swapOrder
  have hpos : 0 < t.cols.length := List.length_pos_iff.mpr hne
  by_cases he : (t.cols.length - 1 == newID) = true
  · rw [if_pos he]; exact ⟨t, rfl⟩
  · rw [if_neg he]
    have hne2 : t.cols.length - 1 ≠ newID := by simpa using he
    rw [getIdx_of_lt _ _ _ (by omega : t.cols.length - 1 < t.cols.length)]
    have hcond : (t.cols.length - 1 + 1 == t.cols.length && decide (newID < t.cols.length - 1)) = true := by
      simp only [Bool.and_eq_true, beq_iff_eq, decide_eq_true_eq]; omega
    simp only [bind, Except.bind, hcond, if_true]
    exact ⟨_, rfl⟩


/-- fresh name, pending `FIRST`: the column goes to the front -/
theorem addColumn_first (t : Table) (col : Column) (mysql : Bool) (hg : t.colIdx.get? col.name = none)
    (hp : t.pendingPos = some .first) (ha : t.AllAdd) (hca : col.action = .add) :
    ∃ t', t.addColumn col mysql = .ok t' ∧ t'.colNames = col.name :: t.colNames ∧ t'.AllAdd ∧
      (∀ x ∈ t'.cols, x ∈ t.cols ∨ x = col) := by
  rw [addColumn_fresh_eq t col mysql hg]
  unfold positionStep
  have hpa : (t.appended col).pendingPos = some .first := hp
  rw [hpa]
  have hlen : (t.appended col).cols.length - 1 = t.cols.length := by
    show (t.cols ++ [col]).length - 1 = _; simp
  have hne : (t.appended col).cols ≠ [] := by
    show t.cols ++ [col] ≠ []; simp
  obtain ⟨t1, h1⟩ := swapOrder_total (t.appended col) col.name 0 hne (by omega)
  rw [hlen] at h1
  simp only [h1, bind, Except.bind, pure, Except.pure]
  refine ⟨_, rfl, ?_, ?_, ?_⟩
  · obtain ⟨c, hc, hn⟩ := swapOrder_names (t.appended col) t1 col.name t.cols.length 0
      (by show t.cols.length + 1 = (t.cols ++ [col]).length; simp) (by omega) h1
    rw [appended_names] at hc hn
    have hlenN : t.colNames.length = t.cols.length := by simp [colNames]
    have : c = col.name := by
      rw [List.getElem?_append_right (by omega), hlenN] at hc
      simpa using hc.symm
    show t1.colNames = _
    rw [hn, this]
    simp
  · exact swapOrder_allAdd _ t1 _ _ _ (appended_allAdd t col ha hca) h1
  · intro x hx
    have hx : x ∈ t1.cols := hx
    have := (swapOrder_mem _ t1 _ _ _ h1 x).mp hx
    have : x ∈ t.cols ++ [col] := this
    rcases List.mem_append.mp this with h' | h'
    · exact Or.inl h'
    · exact Or.inr (List.mem_singleton.mp h')

/-- fresh name, pending `AFTER r` with `r` the `i`-th column: the column goes right behind it -/
theorem addColumn_after (t : Table) (col : Column) (mysql : Bool) (h : t.Inv) (hg : t.colIdx.get? col.name = none)
    (r : String) (hp : t.pendingPos = some (.after r)) (i : Nat) (hr : t.colNames[i]? = some r) (ha : t.AllAdd)
    (hca : col.action = .add) :
    ∃ t', t.addColumn col mysql = .ok t' ∧
      t'.colNames = t.colNames.take (i + 1) ++ col.name :: t.colNames.drop (i + 1) ∧ t'.AllAdd ∧
      (∀ x ∈ t'.cols, x ∈ t.cols ∨ x = col) := by
  rw [addColumn_fresh_eq t col mysql hg]
  unfold positionStep
  have hpa : (t.appended col).pendingPos = some (.after r) := hp
  rw [hpa]
  simp only
  have hgr : t.colIdx.get? r = some i := (h.cols.get r i).mpr hr
  have hne_name : r ≠ col.name := by
    intro e; rw [e, hg] at hgr; cases hgr
  have hgra : (t.appended col).colIdx.get? r = some i := by
    show (t.colIdx.set col.name t.cols.length).get? r = _
    rw [AMap.get?_set, if_neg hne_name]; exact hgr
  rw [hgra]
  simp only
  have hil : i < t.cols.length := by
    have := (List.getElem?_eq_some_iff.mp hr).1
    simpa [colNames] using this
  have hlen : (t.appended col).cols.length - 1 = t.cols.length := by
    show (t.cols ++ [col]).length - 1 = _; simp
  have hne : (t.appended col).cols ≠ [] := by
    show t.cols ++ [col] ≠ []; simp
  obtain ⟨t1, h1⟩ := swapOrder_total (t.appended col) col.name (i + 1) hne (by omega)
  rw [hlen] at h1
  simp only [h1, bind, Except.bind, pure, Except.pure]
  refine ⟨_, rfl, ?_, ?_, ?_⟩
  · obtain ⟨c, hc, hn⟩ := swapOrder_names (t.appended col) t1 col.name t.cols.length (i + 1)
      (by show t.cols.length + 1 = (t.cols ++ [col]).length; simp) (by omega) h1
    rw [appended_names] at hc hn
    have hlenN : t.colNames.length = t.cols.length := by simp [colNames]
    have : c = col.name := by
      rw [List.getElem?_append_right (by omega), hlenN] at hc
      simpa using hc.symm
    show t1.colNames = _
    rw [hn, this]
    simp
  · exact swapOrder_allAdd _ t1 _ _ _ (appended_allAdd t col ha hca) h1
  · intro x hx
    have hx : x ∈ t1.cols := hx
    have := (swapOrder_mem _ t1 _ _ _ h1 x).mp hx
    have : x ∈ t.cols ++ [col] := this
    rcases List.mem_append.mp this with h' | h'
    · exact Or.inl h'
    · exact Or.inr (List.mem_singleton.mp h')

/-- fresh name, pending `AFTER r` with `r` unknown: appended (Go leaves the column at the end) -/
theorem addColumn_after_missing (t : Table) (col : Column) (mysql : Bool) (hg : t.colIdx.get? col.name = none)
    (r : String) (hp : t.pendingPos = some (.after r)) (hr : t.colIdx.get? r = none) (hne : r ≠ col.name) :
    t.addColumn col mysql = .ok { t.appended col with pendingPos := none } := by
  rw [addColumn_fresh_eq t col mysql hg]
  unfold positionStep
  have hpa : (t.appended col).pendingPos = some (.after r) := hp
  rw [hpa]
  simp only
  have hgra : (t.appended col).colIdx.get? r = none := by
    show (t.colIdx.set col.name t.cols.length).get? r = _
    rw [AMap.get?_set, if_neg hne]; exact hr
  rw [hgra]
  rfl

/-- `pkSwap` only reorders -/
theorem pkSwap_perm (l : List Opt) : (pkSwap l).Perm l := by
  unfold pkSwap
  cases hl : l.getLast? with
  | none => exact List.Perm.refl _
  | some last =>
    simp only
    cases hf : l.dropLast.findIdx? (·.kind == .primaryKey) with
    | none => exact List.Perm.refl _
    | some i =>
      simp only
      have hlt : i < l.dropLast.length := (List.findIdx?_eq_some_iff_getElem.mp hf).1
      have hne : l ≠ [] := by intro e; subst e; simp at hl
      have hsplit : l = l.dropLast ++ [last] := by
        have h1 := List.dropLast_concat_getLast hne
        have h2 : l.getLast hne = last := by
          have := List.getLast?_eq_some_getLast hne
          rw [this] at hl; exact Option.some.inj hl
        rw [h2] at h1; exact h1.symm
      have hget : l.dropLast[i]! = l.dropLast[i] := getElem!_pos l.dropLast i hlt
      rw [hget]
      -- init = A ++ x :: B;  (A ++ last :: B) ++ [x] ~ (A ++ x :: B) ++ [last]
      have hinit : l.dropLast = l.dropLast.take i ++ l.dropLast[i] :: l.dropLast.drop (i + 1) := by
        conv => lhs; rw [← List.take_append_drop i l.dropLast]
        rw [List.drop_eq_getElem_cons hlt]
      have hset : l.dropLast.set i last = l.dropLast.take i ++ last :: l.dropLast.drop (i + 1) := by
        rw [List.set_eq_take_append_cons_drop, if_pos hlt]
      rw [hset]
      conv => rhs; rw [hsplit, hinit]
      -- both sides: A ++ (two elements and B in some order)
      simp only [List.append_assoc, List.cons_append]
      apply List.Perm.append_left
      -- last :: (B ++ [x]) ~ x :: (B ++ [last])
      have h1 : (last :: (l.dropLast.drop (i + 1) ++ [l.dropLast[i]])).Perm
          (last :: l.dropLast[i] :: l.dropLast.drop (i + 1)) :=
        List.Perm.cons _ (List.perm_append_singleton _ _)
      have h2 : (l.dropLast[i] :: (l.dropLast.drop (i + 1) ++ [last])).Perm
          (l.dropLast[i] :: last :: l.dropLast.drop (i + 1)) :=
        List.Perm.cons _ (List.perm_append_singleton _ _)
      exact h1.trans ((List.Perm.swap _ _ _).trans h2.symm)

/-- the same for the Postgres glue (`mysql = false`, `pg = true`): the merged column takes the incoming type when there
    is one, keeps its own otherwise, and the incoming options are appended -/
theorem addColumn_merge_pg (t : Table) (col : Column) (h : t.Inv) (ha : t.AllAdd) (id : Nat)
    (hg : t.colIdx.get? col.name = some id) :
    ∃ t', t.addColumn col false true = .ok t' ∧ t'.colNames = t.colNames ∧ t'.AllAdd ∧ t'.pendingPos = t.pendingPos ∧
      (∀ x ∈ t'.cols, (x ∈ t.cols ∧ x.name ≠ col.name) ∨
        (x.name = col.name ∧ ∃ old ∈ t.cols, old.name = col.name ∧
          x.cur.typ = col.cur.typ.orElse (fun _ => old.cur.typ) ∧ x.cur.opts = pkSwap (old.cur.opts ++ col.cur.opts))) := by
  unfold addColumn
  rw [hg]
  simp only
  have hlt := col_lt h hg
  rw [getIdx_of_lt _ _ _ hlt]
  have hact : (t.cols[id]).action = .add := ha _ (List.getElem_mem hlt)
  have hne : ((t.cols[id]).action != .add) = false := by rw [hact]; rfl
  simp only [bind, Except.bind, hne, Bool.false_eq_true, if_false, pure, Except.pure]
  have hnm : (t.cols[id]).name = col.name := by
    have := (h.cols.get col.name id).mp hg
    simpa [colNames, List.getElem?_eq_getElem hlt] using this
  refine ⟨_, rfl, ?_, ?_, rfl, ?_⟩
  · show List.map (fun x : Column => x.name) (t.cols.set id _) = _
    exact map_set_same (fun x : Column => x.name) t.cols id (t.cols[id]) _ (List.getElem?_eq_getElem hlt) rfl
  · intro c hc
    have hc : c ∈ t.cols.set id _ := hc
    rcases List.mem_or_eq_of_mem_set hc with h1 | h1
    · exact ha c h1
    · rw [h1]; exact hact
  · intro x hx
    have hx : x ∈ t.cols.set id _ := hx
    obtain ⟨j, hj⟩ := List.mem_iff_getElem?.mp hx
    rw [List.getElem?_set] at hj
    by_cases hij : id = j
    · rw [if_pos hij, if_pos hlt] at hj
      right
      rw [← Option.some.inj hj]
      refine ⟨hnm, t.cols[id], List.getElem_mem hlt, hnm, ?_, ?_⟩
      · simp
      · simp
    · rw [if_neg hij] at hj
      left
      refine ⟨List.mem_of_getElem? hj, ?_⟩
      intro hxn
      have h1 : t.colNames[j]? = some col.name := by simp [colNames, hj, hxn]
      have h2 : t.colNames[id]? = some col.name := (h.cols.get col.name id).mp hg
      have hltN : id < t.colNames.length := by simpa [colNames] using hlt
      exact hij ((List.getElem?_inj hltN h.cols.nodup).mp (h2.trans h1.symm))

/-- an existing live column (`add`): `AddColumn` merges into it, the names do not change -/
theorem addColumn_merge (t : Table) (col : Column) (mysql : Bool) (h : t.Inv) (ha : t.AllAdd) (id : Nat)
    (hg : t.colIdx.get? col.name = some id) :
    ∃ t', t.addColumn col mysql = .ok t' ∧ t'.colNames = t.colNames ∧ t'.AllAdd ∧ t'.pendingPos = t.pendingPos ∧
      (∀ x ∈ t'.cols, (x ∈ t.cols ∧ x.name ≠ col.name) ∨
        (x.name = col.name ∧ (x.cur.typ = if mysql then col.cur.typ else x.cur.typ) ∧
          ∃ old ∈ t.cols, old.name = col.name ∧
            x.cur.opts = pkSwap ((if col.action == .modify && mysql && col.cur.typ.isSome then [] else old.cur.opts) ++ col.cur.opts))) := by
  unfold addColumn
  rw [hg]
  simp only
  have hlt := col_lt h hg
  rw [getIdx_of_lt _ _ _ hlt]
  have hact : (t.cols[id]).action = .add := ha _ (List.getElem_mem hlt)
  have hne : ((t.cols[id]).action != .add) = false := by rw [hact]; rfl
  simp only [bind, Except.bind, hne, Bool.false_eq_true, if_false, pure, Except.pure]
  have hnm : (t.cols[id]).name = col.name := by
    have := (h.cols.get col.name id).mp hg
    simpa [colNames, List.getElem?_eq_getElem hlt] using this
  refine ⟨_, rfl, ?_, ?_, rfl, ?_⟩
  · show List.map (fun x : Column => x.name) (t.cols.set id _) = _
    exact map_set_same (fun x : Column => x.name) t.cols id (t.cols[id]) _ (List.getElem?_eq_getElem hlt) rfl
  · intro c hc
    have hc : c ∈ t.cols.set id _ := hc
    rcases List.mem_or_eq_of_mem_set hc with h1 | h1
    · exact ha c h1
    · rw [h1]; exact hact
  · intro x hx
    have hx : x ∈ t.cols.set id _ := hx
    obtain ⟨j, hj⟩ := List.mem_iff_getElem?.mp hx
    rw [List.getElem?_set] at hj
    by_cases hij : id = j
    · rw [if_pos hij, if_pos hlt] at hj
      right
      rw [← Option.some.inj hj]
      refine ⟨hnm, ?_, t.cols[id], List.getElem_mem hlt, hnm, rfl⟩
      cases mysql <;> rfl
    · rw [if_neg hij] at hj
      left
      refine ⟨List.mem_of_getElem? hj, ?_⟩
      intro hxn
      have h1 : t.colNames[j]? = some col.name := by simp [colNames, hj, hxn]
      have h2 : t.colNames[id]? = some col.name := (h.cols.get col.name id).mp hg
      have hltN : id < t.colNames.length := by simpa [colNames] using hlt
      exact hij ((List.getElem?_inj hltN h.cols.nodup).mp (h2.trans h1.symm))


/-- the option kinds (with their values) of an option list as the reference engine reads them; PRIMARY KEY and the
    foreign-key marks are not among them -/
def optKind (o : Opt) : Option Spec.COpt :=
  match o.kind with
  | .primaryKey => none
  | .notNull => some .notNull
  | .null => some .null
  | .autoIncrement => some .autoInc
  | .uniqKey => some .uniq
  | .default => some (.default (defaultCanon o.dflt))
  | .comment => some (.comment o.text)
  | .reference => none

def optKinds (os : List Opt) : List Spec.COpt := os.filterMap optKind

theorem foldl_optKinds (f : List Spec.COpt × Bool → Opt → List Spec.COpt × Bool)
    (hf : ∀ acc o, (f acc o).1 = acc.1 ++ (optKind o).toList) (os : List Opt) :
    ∀ acc, (os.foldl f acc).1 = acc.1 ++ optKinds os := by
  induction os with
  | nil => intro acc; simp [optKinds]
  | cons o r ih =>
    intro acc
    rw [List.foldl_cons, ih, hf]
    unfold optKinds
    rw [List.filterMap_cons]
    cases optKind o <;> simp

theorem optsOf_fst (os : List Opt) : (Spec.optsOf os).1 = optKinds os := by
  unfold Spec.optsOf
  rw [foldl_optKinds _ _ os]
  · simp
  · intro acc o
    cases hk : o.kind <;> simp [optKind, hk]

theorem optKinds_pkSwap (l : List Opt) : (optKinds (pkSwap l)).Perm (optKinds l) :=
  (pkSwap_perm l).filterMap _

/-- name, action, type and option kinds of every column record, in order -/
def sig (t : Table) : List (String × Action × Option String × List Spec.COpt) :=
  t.cols.map (fun c => (c.name, c.action, c.cur.typ, optKinds c.cur.opts))

theorem names_of_sig {t t' : Table} (h : t'.sig = t.sig) : t'.colNames = t.colNames := by
  have := congrArg (List.map Prod.fst) h
  simpa [sig, colNames, List.map_map, Function.comp_def] using this

theorem allAdd_of_sig {t t' : Table} (h : t'.sig = t.sig) (ha : t.AllAdd) : t'.AllAdd := by
  intro c hc
  have hm : (c.name, c.action, c.cur.typ, optKinds c.cur.opts) ∈ t'.sig :=
    List.mem_map_of_mem (f := fun c : Column => (c.name, c.action, c.cur.typ, optKinds c.cur.opts)) hc
  rw [h] at hm
  obtain ⟨c0, hc0, he⟩ := List.mem_map.mp hm
  rw [← (Prod.mk.inj (Prod.mk.inj he).2).1]; exact ha c0 hc0

/-- every column of the result has a column of the original with the same name, type and option kinds -/
theorem mem_of_sig {t t' : Table} (h : t'.sig = t.sig) {c : Column} (hc : c ∈ t'.cols) :
    ∃ c0 ∈ t.cols, c0.name = c.name ∧ c0.cur.typ = c.cur.typ ∧ optKinds c0.cur.opts = optKinds c.cur.opts := by
  have hm : (c.name, c.action, c.cur.typ, optKinds c.cur.opts) ∈ t'.sig :=
    List.mem_map_of_mem (f := fun c : Column => (c.name, c.action, c.cur.typ, optKinds c.cur.opts)) hc
  rw [h] at hm
  obtain ⟨c0, hc0, he⟩ := List.mem_map.mp hm
  have h2 := (Prod.mk.inj (Prod.mk.inj he).2).2
  exact ⟨c0, hc0, (Prod.mk.inj he).1, (Prod.mk.inj h2).1, (Prod.mk.inj h2).2⟩

/-- the bare foreign-key marks do not count among the option kinds -/
theorem optKinds_dropLastFkMark (os : List Opt) : optKinds (dropLastFkMark os) = optKinds os := by
  unfold dropLastFkMark
  cases hf : os.reverse.findIdx? (fun o => o.kind == .reference && !o.hasExpr) with
  | none => rfl
  | some k =>
    simp only
    -- the erased option is a `reference` one
    have hk := List.findIdx?_eq_some_iff_getElem.mp hf
    obtain ⟨hlt, hp, _⟩ := hk
    have hlen : k < os.length := by simpa using hlt
    have hidx : os.length - 1 - k < os.length := by omega
    have hel : (os.reverse[k]) = os[os.length - 1 - k] := by
      rw [List.getElem_reverse]
    have hkind : (os[os.length - 1 - k]).kind = .reference := by
      rw [← hel]
      have := hp
      simp only [Bool.and_eq_true, beq_iff_eq] at this
      exact this.1
    unfold optKinds
    rw [List.eraseIdx_eq_take_drop_succ]
    conv => rhs; rw [← List.take_append_drop (os.length - 1 - k) os]
    rw [List.filterMap_append, List.filterMap_append]
    congr 1
    rw [List.drop_eq_getElem_cons hidx, List.filterMap_cons]
    simp [optKind, hkind]

theorem optKinds_append_mark (os : List Opt) :
    optKinds (os ++ [{ kind := .reference, hasExpr := false }]) = optKinds os := by
  simp [optKinds, List.filterMap_append, optKind]

theorem forgetIndex_sig (t t' : Table) (id : Nat) (hs : t.forgetIndex id = .ok t') : t'.sig = t.sig := by
  unfold forgetIndex at hs
  obtain ⟨i, _, hs⟩ := bind_ok hs
  have := pure_ok hs; subst this; rfl

theorem forgetForeignKey_sig (t t' : Table) (id : Nat) (hs : t.forgetForeignKey id = .ok t') : t'.sig = t.sig := by
  unfold forgetForeignKey at hs
  obtain ⟨f, _, hs⟩ := bind_ok hs
  have := pure_ok hs; subst this
  show List.map (fun c : Column => (c.name, c.action, c.cur.typ, optKinds c.cur.opts)) (t.cols.map _) = _
  rw [List.map_map]
  apply List.map_congr_left
  intro c _
  simp only [Function.comp_apply]
  split
  · simp only [optKinds_dropLastFkMark]
  · rfl

theorem stripColFromIndexes_sig (col : String) (k : Nat) : ∀ (t t' : Table),
    t.stripColFromIndexes col k = .ok t' → t'.sig = t.sig := by
  induction k with
  | zero => intro t t' hs; unfold stripColFromIndexes at hs; have := pure_ok hs; subst this; rfl
  | succ k ih =>
    intro t t' hs
    unfold stripColFromIndexes at hs
    obtain ⟨i, _, hs⟩ := bind_ok hs
    obtain ⟨t1, h1, hs⟩ := bind_ok hs
    have h1s : t1.sig = t.sig := by
      split at h1
      · exact forgetIndex_sig t t1 k h1
      · have := pure_ok h1; subst this; rfl
    rw [ih t1 t' hs, h1s]

theorem dropFksOnCol_sig (col : String) (k : Nat) : ∀ (t t' : Table),
    t.dropFksOnCol col k = .ok t' → t'.sig = t.sig := by
  induction k with
  | zero => intro t t' hs; unfold dropFksOnCol at hs; have := pure_ok hs; subst this; rfl
  | succ k ih =>
    intro t t' hs
    unfold dropFksOnCol at hs
    obtain ⟨f, _, hs⟩ := bind_ok hs
    obtain ⟨t1, h1, hs⟩ := bind_ok hs
    have h1s : t1.sig = t.sig := by
      split at h1
      · exact forgetForeignKey_sig t t1 k h1
      · have := pure_ok h1; subst this; rfl
    rw [ih t1 t' hs, h1s]

/-- dropping a column created in this history forgets it: the name list loses that position -/
theorem removeColumn_names (t : Table) (name : String) (h : t.Inv) (ha : t.AllAdd) (id : Nat)
    (hg : t.colIdx.get? name = some id) :
    ∃ t', t.removeColumn name = .ok t' ∧ t'.colNames = t.colNames.eraseIdx id ∧ t'.AllAdd ∧
      (∀ x ∈ t'.cols, ∃ x0 ∈ t.cols, x0.name = x.name ∧ x0.cur.typ = x.cur.typ ∧
        optKinds x0.cur.opts = optKinds x.cur.opts) := by
  obtain ⟨t', hs⟩ := removeColumn_total t name h
  refine ⟨t', hs, ?_⟩
  unfold removeColumn at hs
  rw [hg] at hs
  simp only at hs
  have hlt := col_lt h hg
  rw [getIdx_of_lt _ _ _ hlt] at hs
  have hact : (t.cols[id]).action = .add := ha _ (List.getElem_mem hlt)
  have hc : ((t.cols[id]).action == .add) = true := by rw [hact]; rfl
  simp only [bind, Except.bind, hc, if_true] at hs
  let t1 : Table := { t with cols := t.cols.eraseIdx id,
                             colIdx := (t.colIdx.erase name).mapVals (fun v => if v > id then v - 1 else v) }
  cases h2 : stripColFromIndexes t1 name t1.idxs.length with
  | error e => rw [show stripColFromIndexes _ name _ = stripColFromIndexes t1 name t1.idxs.length from rfl, h2] at hs; cases hs
  | ok t2 =>
    rw [show stripColFromIndexes _ name _ = stripColFromIndexes t1 name t1.idxs.length from rfl, h2] at hs
    simp only at hs
    have hs2 := stripColFromIndexes_sig name _ t1 t2 h2
    have hs3 := dropFksOnCol_sig name _ t2 t' hs
    have hsig : t'.sig = t1.sig := hs3.trans hs2
    have ha1 : t1.AllAdd := fun c hc => ha c ((List.eraseIdx_sublist _ _).subset hc)
    refine ⟨?_, allAdd_of_sig hsig ha1, ?_⟩
    · rw [names_of_sig hsig]
      show List.map (fun x : Column => x.name) (t.cols.eraseIdx id) = _
      rw [← map_eraseIdx']
    · intro x hx
      obtain ⟨x0, hx0, hn, ht, ho⟩ := mem_of_sig hsig hx
      exact ⟨x0, (List.eraseIdx_sublist _ _).subset hx0, hn, ht, ho⟩

/-- `RenameColumn`: the name at that position changes, and the record is marked `rename` -/
theorem renameColumn_names (t : Table) (o n : String) (h : t.Inv) (id : Nat) (hg : t.colIdx.get? o = some id) :
    ∃ t', t.renameColumn o n = .ok t' ∧ t'.colNames = t.colNames.set id n := by
  unfold renameColumn
  rw [hg]
  simp only
  rw [getIdx_of_lt _ _ _ (col_lt h hg)]
  refine ⟨_, rfl, ?_⟩
  show List.map (fun x : Column => x.name) (t.cols.set id _) = _
  rw [List.map_set]

end Table
end Sqlize
