/-
  Proofs/RoundsDown.lean — C04 on the implementation model, the way back.  The workflow records, beside every up
  migration it appends to the history, the down migration of the same diff.  `rounds_down`: in the scope of the two
  whole-schema theorems at every step, replaying the recorded down migrations newest first on the reference engine,
  starting from the newest revision's schema (or any schema equivalent to it), is well-formed at every statement and
  ends in the empty schema.  Each step is `schema_spec_down`; the steps compose because the engine respects schema
  equivalence (`execAll_equiv`, Proofs/ExecEquiv): the down migration of step i was computed against the *history's*
  schema of step i-1, which is only equivalent to revision i-1's.
-/
import SqlizeModel.Proofs.Rounds
import SqlizeModel.Proofs.ExecNames

namespace Sqlize
open Spec

/-- the extra hypothesis of `schema_spec_down` on a pair of reference schemas -/
structure DownScope (dbO dbN : DB) : Prop where
  both : ∀ tbO ∈ dbO, ∀ tbN ∈ dbN, tbO.name = tbN.name →
    ∀ dc : List String, (∀ c ∈ dc, c ∉ tbO.colNames) →
      ∀ s ∈ tbN.idxs, ∀ o ∈ tbO.idxs, o.name = s.name → o ≠ s → ∃ c ∈ s.cols, c ∉ dc

theorem DownScope.of_equiv {dbO dbO' dbN : DB} (hs : DownScope dbO dbN) (he : dbO'.equiv dbO = true) : DownScope dbO' dbN := by
  refine ⟨?_⟩
  intro tbO' htbO' tbN htbN hn dc hdc s hsm o ho hon hne
  obtain ⟨u, hu, heq⟩ := equiv_find dbO' dbO he tbO' htbO'
  obtain ⟨e1, e2, _, e4, _⟩ := equiv_parts heq
  have hcn : tbO'.colNames = u.colNames := colsEquiv_names _ _ e2
  exact hs.both u hu tbN htbN (e1.symm.trans hn) dc (by rw [← hcn]; exact hdc) s hsm o (e4.mem_iff.mp ho) hon hne

/-- the history and the recorded down migrations (newest first) -/
def histD (g : Globals) : List (List Stmt) → M (List Stmt × List (List Stmt))
  | [] => pure ([], [])
  | m :: older => do
    let r ← histD g older
    let up ← modelUp g r.1 m
    let dn ← modelDown g r.1 m
    pure (r.1 ++ up.map Stmt.textual, dn :: r.2)

/-- replay migrations one after the other on the reference engine -/
def replay : DB → List (List Stmt) → Option DB
  | db, [] => some db
  | db, m :: rest => (execAll false db m).bind (replay · rest)

def ChainDownOK : List (List Stmt × DB) → Prop
  | [] => True
  | p :: older => DownScope (lastDB older) p.2 ∧ ChainDownOK older

theorem lastDB_nodup (revs : List (List Stmt × DB)) (hrev : ∀ p ∈ revs, execAll false [] p.1 = some p.2) :
    ((lastDB revs).map (·.name)).Nodup := by
  cases revs with
  | nil => exact List.nodup_nil
  | cons p r => exact execAll_nodup false p.1 [] p.2 List.nodup_nil (hrev p (by simp))

/-- **C04 on the model, the way back, for revision lists of any length** -/
theorem rounds_down (g : Globals) (hg : g.dialect = .mysql) (hio : g.ignoreOrder = false) :
    ∀ (revs : List (List Stmt × DB)),
      (∀ p ∈ revs, p.1.all Stmt.elemSafe = true ∧ p.1.all Stmt.plainOpts = true ∧ execAll false [] p.1 = some p.2) →
      ChainOK revs → ChainDownOK revs →
      ∃ h ds dbH, histD g (revs.map (·.1)) = .ok (h, ds) ∧ histM g (revs.map (·.1)) = .ok h ∧
        h.all Stmt.elemSafe = true ∧ h.all Stmt.plainOpts = true ∧
        execAll false [] h = some dbH ∧ dbH.equiv (lastDB revs) = true ∧ ds.length = revs.length ∧
        ∀ d, DBE d (lastDB revs) → replay d ds = some [] := by
  intro revs
  induction revs with
  | nil =>
    intro _ _ _
    refine ⟨[], [], [], rfl, rfl, rfl, rfl, rfl, rfl, rfl, ?_⟩
    intro d hd
    rw [hd.nil_right]; rfl
  | cons p older ih =>
    intro hrev hchain hchainD
    obtain ⟨hsc, hco⟩ := hchain
    obtain ⟨hscD, hcoD⟩ := hchainD
    obtain ⟨h, ds, dbH, hhD, hh, hes, hpl, hex, heq, hlen, hP⟩ :=
      ih (fun q hq => hrev q (List.mem_cons_of_mem _ hq)) hco hcoD
    obtain ⟨hpe, hpp, hpx⟩ := hrev p (by simp)
    have hsc' : UpScope dbH p.2 := hsc.of_equiv heq
    have hscD' : DownScope dbH p.2 := hscD.of_equiv heq
    obtain ⟨d, out, hd, hU, ⟨db', he, hequ, hnmU⟩, _⟩ := schema_spec_up g hg hio false h p.1 dbH p.2 hes hpe hpl hpp hex hpx
      (fun tb htb => (hsc'.names tb htb).2) hsc'.both
    obtain ⟨d2, outD, hd2, hD, ⟨db'', heD, hequD⟩, _⟩ := schema_spec_down g hg hio false h p.1 dbH p.2 hes hpe hpl hpp hex hpx
      (fun tb htb => (hsc'.names tb htb).2)
      (fun a ha b hb e => by
        obtain ⟨x1, x2, x3, _, x5⟩ := hsc'.both a ha b hb e
        exact ⟨x1, x2, x3, hscD'.both a ha b hb e, x5⟩)
    have hvoc := schema_up_vocab g hg hio false h p.1 dbH p.2 hes hpe hpl hpp hex hpx
      (fun tb htb => (hsc'.names tb htb).1)
      (fun a ha b hb e => by obtain ⟨_, x2, x3, _⟩ := hsc'.both a ha b hb e; exact ⟨x2, x3⟩) d out hd hU
    have hup : modelUp g h p.1 = .ok out.flatten := by
      unfold modelUp
      simp only [hd, hU, bind, Except.bind, pure, Except.pure]
    have hdn : modelDown g h p.1 = .ok outD.flatten := by
      unfold modelDown
      simp only [hd2, hD, bind, Except.bind, pure, Except.pure]
    -- unique names everywhere
    have hndP : (p.2.map (·.name)).Nodup := execAll_nodup false p.1 [] p.2 List.nodup_nil hpx
    have hndH : (dbH.map (·.name)).Nodup := execAll_nodup false h [] dbH List.nodup_nil hex
    have hndL : ((lastDB older).map (·.name)).Nodup :=
      lastDB_nodup older (fun q hq => (hrev q (List.mem_cons_of_mem _ hq)).2.2)
    have hndD : (db''.map (·.name)).Nodup := execAll_nodup false outD.flatten p.2 db'' hndP heD
    refine ⟨h ++ out.flatten.map Stmt.textual, outD.flatten :: ds, db', ?_, ?_, ?_, ?_, ?_, hequ, by simp [hlen], ?_⟩
    · show histD g (p.1 :: older.map (·.1)) = _
      unfold histD
      simp only [hhD, hup, hdn, bind, Except.bind, pure, Except.pure]
    · show histM g (p.1 :: older.map (·.1)) = _
      unfold histM
      simp only [hh, hup, bind, Except.bind, pure, Except.pure]
    · rw [List.all_append, hes, Bool.true_and, List.all_eq_true]
      intro s hs
      obtain ⟨s0, hs0, rfl⟩ := List.mem_map.mp hs
      rw [elemSafe_textual]
      have := hvoc s0 hs0
      unfold Stmt.vocab at this
      simp only [Bool.and_eq_true] at this
      exact this.1
    · rw [List.all_append, hpl, Bool.true_and, List.all_eq_true]
      intro s hs
      obtain ⟨s0, hs0, rfl⟩ := List.mem_map.mp hs
      have := hvoc s0 hs0
      unfold Stmt.vocab at this
      simp only [Bool.and_eq_true] at this
      exact this.2
    · rw [execAll_append, hex, Option.bind_some, execAll_textual]
      exact he
    · -- the way back: this step's down migration, then the older ones
      intro dd hdd
      obtain ⟨d3, hd3, hr3⟩ := execAll_equiv outD.flatten hdd.symm heD
      have hchainE : DBE d3 (lastDB older) :=
        hr3.symm.trans ((DBE.of_equiv hndD hndH hequD).trans (DBE.of_equiv hndH hndL heq))
      show (execAll false dd outD.flatten).bind (replay · ds) = some []
      rw [hd3, Option.bind_some]
      exact hP d3 hchainE

/-- … in particular from the newest revision's own schema -/
theorem rounds_down_from_last (g : Globals) (hg : g.dialect = .mysql) (hio : g.ignoreOrder = false)
    (revs : List (List Stmt × DB))
    (hrev : ∀ p ∈ revs, p.1.all Stmt.elemSafe = true ∧ p.1.all Stmt.plainOpts = true ∧ execAll false [] p.1 = some p.2)
    (hc : ChainOK revs) (hcd : ChainDownOK revs) :
    ∃ h ds, histD g (revs.map (·.1)) = .ok (h, ds) ∧ ds.length = revs.length ∧ replay (lastDB revs) ds = some [] := by
  obtain ⟨h, ds, _, h1, _, _, _, _, _, h2, h3⟩ := rounds_down g hg hio revs hrev hc hcd
  exact ⟨h, ds, h1, h2, h3 _ (DBE.refl _)⟩

end Sqlize
