/-
  Proofs/ExecEquiv.lean — the reference engine respects schema equivalence.  `DBE a b`: the two schemas answer every
  lookup by table name alike up to `TableSpec.equiv` (same columns in the same order with the same types and the same
  options up to order, same primary key, same indexes and foreign keys up to order).  `exec_equiv`: a statement accepted
  on `a` (referential checks aside) is accepted on `b`, and the results are again `DBE` — all seventeen statement kinds.
-/
import SqlizeModel.Proofs.StripExec

namespace Sqlize
open Spec

def TEquiv : Option TableSpec → Option TableSpec → Prop
  | some a, some b => a.equiv b = true
  | none, none => True
  | _, _ => False

/-- the same schema up to `TableSpec.equiv`, table by table (by name) -/
def DBE (a b : DB) : Prop := ∀ t, TEquiv (a.find t) (b.find t)

theorem permEq_refl {α : Type} [DecidableEq α] (l : List α) : permEq l l = true := perm_permEq l l (List.Perm.refl _)

theorem ColSpec.equiv_refl (c : ColSpec) : c.equiv c = true := by
  unfold ColSpec.equiv; simp [permEq_refl]

theorem colsEquiv_refl : ∀ (l : List ColSpec), colsEquiv l l = true
  | [] => rfl
  | x :: r => by simp [colsEquiv, ColSpec.equiv_refl, colsEquiv_refl r]

theorem TableSpec.equiv_refl (t : TableSpec) : t.equiv t = true := by
  unfold TableSpec.equiv; simp [colsEquiv_refl, permEq_refl]

theorem DBE.refl (a : DB) : DBE a a := by
  intro t
  cases h : a.find t with
  | none => trivial
  | some x => exact TableSpec.equiv_refl x

theorem has_find (db : DB) (t : String) : db.has t = (db.find t).isSome := by
  unfold DB.has DB.find
  induction db with
  | nil => rfl
  | cons x r ih =>
    rw [List.any_cons, List.find?_cons]
    cases (x.name == t) with
    | true => rfl
    | false => simpa using ih

theorem DBE.has {a b : DB} (h : DBE a b) (t : String) : a.has t = b.has t := by
  rw [has_find, has_find]
  have := h t
  cases ha : a.find t <;> cases hb : b.find t <;> rw [ha, hb] at this <;> first | rfl | exact this.elim

theorem DBE.find_some {a b : DB} (h : DBE a b) {t : String} {ta : TableSpec} (ha : a.find t = some ta) :
    ∃ tb, b.find t = some tb ∧ ta.equiv tb = true := by
  have := h t
  rw [ha] at this
  cases hb : b.find t with
  | none => rw [hb] at this; exact this.elim
  | some tb => rw [hb] at this; exact ⟨tb, rfl, this⟩

theorem DBE.find_none {a b : DB} (h : DBE a b) {t : String} (ha : a.find t = none) : b.find t = none := by
  have := h t
  rw [ha] at this
  cases hb : b.find t with
  | none => rfl
  | some tb => rw [hb] at this; exact this.elim

theorem find_replace_self (db : DB) (t : String) (tb tb' : TableSpec) (hf : db.find t = some tb) (hn : tb'.name = t) :
    (db.replace tb').find t = some tb' := by
  unfold DB.find DB.replace at *
  induction db with
  | nil => simp at hf
  | cons x r ih =>
    rw [List.map_cons, List.find?_cons]
    rw [List.find?_cons] at hf
    by_cases hx : (x.name == t) = true
    · have : (x.name == tb'.name) = true := by rw [hn]; exact hx
      rw [this]
      simp only [if_true]
      have : (tb'.name == t) = true := by simp [hn]
      rw [this]
    · have hx' : (x.name == t) = false := by simpa using hx
      rw [hx'] at hf
      have : (x.name == tb'.name) = false := by rw [hn]; exact hx'
      rw [this]
      simp only [Bool.false_eq_true, if_false, hx']
      exact ih hf

/-- replacing related tables by related tables -/
theorem DBE.replace {a b : DB} (h : DBE a b) (t : String) {ta tb ta' tb' : TableSpec} (ha : a.find t = some ta)
    (hb : b.find t = some tb) (hna : ta'.name = t) (hnb : tb'.name = t) (he : ta'.equiv tb' = true) :
    DBE (a.replace ta') (b.replace tb') := by
  intro u
  by_cases hu : u = t
  · subst hu
    rw [find_replace_self a u ta ta' ha hna, find_replace_self b u tb tb' hb hnb]
    exact he
  · rw [find_replace_other a ta' u (by rw [hna]; exact hu), find_replace_other b tb' u (by rw [hnb]; exact hu)]
    exact h u

theorem find_append (db : DB) (x : TableSpec) (u : String) :
    DB.find (db ++ [x]) u = match db.find u with | some y => some y | none => if x.name == u then some x else none := by
  unfold DB.find
  rw [List.find?_append]
  cases List.find? (fun y => y.name == u) db with
  | some y => rfl
  | none =>
    simp only [Option.none_or, List.find?_cons, List.find?_nil]
    cases (x.name == u) <;> rfl

theorem DBE.append {a b : DB} (h : DBE a b) {x y : TableSpec} (hn : x.name = y.name) (he : x.equiv y = true) :
    DBE (a ++ [x]) (b ++ [y]) := by
  intro u
  rw [find_append, find_append, ← hn]
  have := h u
  cases ha : a.find u <;> cases hb : b.find u <;> rw [ha, hb] at this
  · simp only
    split
    · exact he
    · trivial
  · exact this.elim
  · exact this.elim
  · exact this

theorem DBE.filter {a b : DB} (h : DBE a b) (t : String) : DBE (a.filter (·.name != t)) (b.filter (·.name != t)) := by
  intro u
  by_cases hu : u = t
  · subst hu
    rw [find_filter_self, find_filter_self]
    trivial
  · rw [find_filter_ne a t u hu, find_filter_ne b t u hu]
    exact h u

theorem find_map (db : DB) (f : TableSpec → TableSpec) (hf : ∀ x, (f x).name = x.name) (u : String) :
    DB.find (db.map f) u = (db.find u).map f := by
  unfold DB.find
  induction db with
  | nil => rfl
  | cons x r ih =>
    rw [List.map_cons, List.find?_cons, List.find?_cons, hf x]
    cases (x.name == u) with
    | true => rfl
    | false => exact ih

theorem equiv_parts {a b : TableSpec} (h : a.equiv b = true) :
    a.name = b.name ∧ colsEquiv a.cols b.cols = true ∧ a.pk = b.pk ∧ a.idxs.Perm b.idxs ∧ a.fks.Perm b.fks := by
  unfold TableSpec.equiv at h
  simp only [Bool.and_eq_true, beq_iff_eq] at h
  obtain ⟨⟨⟨⟨h1, h2⟩, h3⟩, h4⟩, h5⟩ := h
  exact ⟨h1, h2, h3, permEq_perm _ _ h4, permEq_perm _ _ h5⟩

theorem equiv_of_parts {a b : TableSpec} (h1 : a.name = b.name) (h2 : colsEquiv a.cols b.cols = true) (h3 : a.pk = b.pk)
    (h4 : a.idxs.Perm b.idxs) (h5 : a.fks.Perm b.fks) : a.equiv b = true := by
  unfold TableSpec.equiv
  simp only [Bool.and_eq_true, beq_iff_eq]
  exact ⟨⟨⟨⟨h1, h2⟩, h3⟩, perm_permEq _ _ h4⟩, perm_permEq _ _ h5⟩

theorem hasCol_of_colsEquiv {a b : TableSpec} (h : colsEquiv a.cols b.cols = true) (c : String) : a.hasCol c = b.hasCol c := by
  have hn := colsEquiv_names _ _ h
  unfold TableSpec.hasCol
  have e : ∀ l : List ColSpec, l.any (·.name == c) = (l.map (·.name)).any (· == c) := by
    intro l; rw [List.any_map]; rfl
  rw [e, e, hn]

theorem allHasCol_of_colsEquiv {a b : TableSpec} (h : colsEquiv a.cols b.cols = true) (cols : List String) :
    cols.all a.hasCol = cols.all b.hasCol := by
  induction cols with
  | nil => rfl
  | cons c r ih => rw [List.all_cons, List.all_cons, hasCol_of_colsEquiv h c, ih]

theorem colsEquiv_append : ∀ (a b : List ColSpec) (x y : ColSpec), colsEquiv a b = true → x.equiv y = true →
    colsEquiv (a ++ [x]) (b ++ [y]) = true := by
  intro a
  induction a with
  | nil => intro b x y h hxy; cases b with
    | nil => simp [colsEquiv, hxy]
    | cons _ _ => simp [colsEquiv] at h
  | cons c r ih =>
    intro b x y h hxy
    cases b with
    | nil => simp [colsEquiv] at h
    | cons d r' =>
      simp only [colsEquiv, Bool.and_eq_true, List.cons_append] at h ⊢
      exact ⟨h.1, ih r' x y h.2 hxy⟩

theorem colsEquiv_map (f g : ColSpec → ColSpec) (hfg : ∀ x y, x.equiv y = true → (f x).equiv (g y) = true) :
    ∀ (a b : List ColSpec), colsEquiv a b = true → colsEquiv (a.map f) (b.map g) = true := by
  intro a
  induction a with
  | nil => intro b h; cases b with
    | nil => rfl
    | cons _ _ => simp [colsEquiv] at h
  | cons c r ih =>
    intro b h
    cases b with
    | nil => simp [colsEquiv] at h
    | cons d r' =>
      simp only [colsEquiv, Bool.and_eq_true, List.map_cons] at h ⊢
      exact ⟨hfg c d h.1, ih r' h.2⟩

theorem colsEquiv_filter (p q : ColSpec → Bool) (hpq : ∀ x y, x.equiv y = true → p x = q y) :
    ∀ (a b : List ColSpec), colsEquiv a b = true → colsEquiv (a.filter p) (b.filter q) = true := by
  intro a
  induction a with
  | nil => intro b h; cases b with
    | nil => rfl
    | cons _ _ => simp [colsEquiv] at h
  | cons c r ih =>
    intro b h
    cases b with
    | nil => simp [colsEquiv] at h
    | cons d r' =>
      simp only [colsEquiv, Bool.and_eq_true] at h
      rw [List.filter_cons, List.filter_cons, hpq c d h.1]
      split
      · simp only [colsEquiv, Bool.and_eq_true]; exact ⟨h.1, ih r' h.2⟩
      · exact ih r' h.2

theorem equiv_name {x y : ColSpec} (h : x.equiv y = true) : x.name = y.name := by
  unfold ColSpec.equiv at h
  simp only [Bool.and_eq_true, beq_iff_eq] at h
  exact h.1.1

theorem colsEquiv_insertAfter (p : String) (c : ColSpec) : ∀ (a b a' : List ColSpec), colsEquiv a b = true →
    insertAfter p c a = some a' → ∃ b', insertAfter p c b = some b' ∧ colsEquiv a' b' = true := by
  intro a
  induction a with
  | nil => intro b a' _ h; simp [insertAfter] at h
  | cons x r ih =>
    intro b a' hab h
    cases b with
    | nil => simp [colsEquiv] at hab
    | cons y r' =>
      simp only [colsEquiv, Bool.and_eq_true] at hab
      unfold insertAfter at h ⊢
      rw [← equiv_name hab.1]
      split at h
      · rename_i hx
        have := Option.some.inj h; subst this
        rw [if_pos hx]
        refine ⟨_, rfl, ?_⟩
        simp only [colsEquiv, Bool.and_eq_true]
        exact ⟨hab.1, ColSpec.equiv_refl c, hab.2⟩
      · rename_i hx
        rw [if_neg hx]
        cases hr : insertAfter p c r with
        | none => rw [hr] at h; cases h
        | some r1 =>
          rw [hr] at h
          have := Option.some.inj h; subst this
          obtain ⟨b1, hb1, he1⟩ := ih r' r1 hab.2 hr
          rw [hb1]
          refine ⟨_, rfl, ?_⟩
          simp only [colsEquiv, Bool.and_eq_true]
          exact ⟨hab.1, he1⟩

theorem DBE.map {a b : DB} (h : DBE a b) (f : TableSpec → TableSpec) (hf : ∀ x, (f x).name = x.name)
    (hfe : ∀ x y, x.equiv y = true → (f x).equiv (f y) = true) : DBE (a.map f) (b.map f) := by
  intro u
  rw [find_map a f hf, find_map b f hf]
  have := h u
  cases ha : a.find u <;> cases hb : b.find u <;> rw [ha, hb] at this
  · trivial
  · exact this.elim
  · exact this.elim
  · exact hfe _ _ this

theorem opts_equiv {x y : ColSpec} (h : x.equiv y = true) : x.name = y.name ∧ x.typ = y.typ ∧ x.opts.Perm y.opts := by
  unfold ColSpec.equiv at h
  simp only [Bool.and_eq_true, beq_iff_eq] at h
  exact ⟨h.1.1, h.1.2, permEq_perm _ _ h.2⟩

theorem equiv_mk {x y : ColSpec} (h1 : x.name = y.name) (h2 : x.typ = y.typ) (h3 : x.opts.Perm y.opts) : x.equiv y = true := by
  unfold ColSpec.equiv
  simp only [Bool.and_eq_true, beq_iff_eq]
  exact ⟨⟨h1, h2⟩, perm_permEq _ _ h3⟩

/-- **one statement** (referential checks aside): accepted on `a`, it is accepted on an equivalent `b`, and the results are
    equivalent again -/
theorem exec_equiv {a b : DB} (hab : DBE a b) (s : Stmt) {a1 : DB} (he : exec false a s = some a1) :
    ∃ b1, exec false b s = some b1 ∧ DBE a1 b1 := by
  cases s with
  | createTable t i cols pk =>
    rw [exec_createTable] at he ⊢
    rw [← hab.has t]
    split at he
    · cases he
    · rename_i h1
      rw [if_neg h1]
      cases hm : mkTable t cols pk with
      | none => rw [hm] at he; cases he
      | some tb =>
        rw [hm] at he
        have := Option.some.inj he; subst this
        exact ⟨_, rfl, hab.append rfl (TableSpec.equiv_refl tb)⟩
  | dropTable t =>
    simp only [exec, Bool.false_and, Bool.false_eq_true, if_false] at he ⊢
    rw [← hab.has t]
    split at he
    · cases he
    · rename_i h1
      have := Option.some.inj he; subst this
      rw [if_neg h1]
      exact ⟨_, rfl, hab.filter t⟩
  | addColumn t c pos =>
    cases ha : a.find t with
    | none => simp only [exec, ha] at he; cases he
    | some ta =>
      obtain ⟨tb, hb, heq⟩ := hab.find_some ha
      obtain ⟨hn, hc, hpk, hix, hfk⟩ := equiv_parts heq
      simp only [exec, ha] at he
      simp only [exec, hb]
      rw [← hasCol_of_colsEquiv hc c.name, ← hpk]
      split at he
      · cases he
      · split at he
        · cases he
        · rename_i hc1 hc2
          simp only [hc1, hc2, if_false, Bool.false_eq_true]
          have hfin : ∀ (ca cb : List ColSpec), colsEquiv ca cb = true →
              DBE (a.replace { ta with cols := ca, pk := if (colOf c).2 = true then [c.name] else ta.pk })
                (b.replace { tb with cols := cb, pk := if (colOf c).2 = true then [c.name] else ta.pk }) := by
            intro ca cb hcab
            exact hab.replace t ha hb (find_name a t ta ha) (find_name b t tb hb) (equiv_of_parts hn hcab rfl hix hfk)
          cases pos with
          | none =>
            simp only at he
            have := Option.some.inj he; subst this
            exact ⟨_, rfl, hfin _ _ (colsEquiv_append _ _ _ _ hc (ColSpec.equiv_refl _))⟩
          | first =>
            simp only at he
            have := Option.some.inj he; subst this
            refine ⟨_, rfl, hfin _ _ ?_⟩
            simp only [colsEquiv, Bool.and_eq_true]
            exact ⟨ColSpec.equiv_refl _, hc⟩
          | after p =>
            simp only at he ⊢
            cases hins : insertAfter p (colOf c).1 ta.cols with
            | none => rw [hins] at he; cases he
            | some ca =>
              rw [hins] at he
              have := Option.some.inj he; subst this
              obtain ⟨cb, hcb, hcab⟩ := colsEquiv_insertAfter p _ _ _ _ hc hins
              rw [hcb]
              exact ⟨_, rfl, hfin ca cb hcab⟩
  | dropColumn t c =>
    cases ha : a.find t with
    | none => simp only [exec, ha] at he; cases he
    | some ta =>
      obtain ⟨tb, hb, heq⟩ := hab.find_some ha
      obtain ⟨hn, hc, hpk, hix, hfk⟩ := equiv_parts heq
      simp only [exec, ha, Bool.false_and, Bool.false_eq_true, if_false] at he
      simp only [exec, hb, Bool.false_and, Bool.false_eq_true, if_false]
      rw [← hasCol_of_colsEquiv hc c]
      split at he
      · cases he
      · rename_i hc1
        have := Option.some.inj he; subst this
        rw [if_neg hc1]
        refine ⟨_, rfl, hab.replace t ha hb (find_name a t ta ha) (find_name b t tb hb) (equiv_of_parts hn ?_ ?_ ?_ ?_)⟩
        · exact colsEquiv_filter _ _ (fun x y hxy => by rw [equiv_name hxy]) _ _ hc
        · show ta.pk.filter _ = tb.pk.filter _; rw [hpk]
        · exact ((hix.map _).filter _)
        · exact hfk.filter _
  | modifyColumn t c =>
    cases ha : a.find t with
    | none => simp only [exec, ha] at he; cases he
    | some ta =>
      obtain ⟨tb, hb, heq⟩ := hab.find_some ha
      obtain ⟨hn, hc, hpk, hix, hfk⟩ := equiv_parts heq
      simp only [exec, ha] at he
      simp only [exec, hb]
      rw [← hasCol_of_colsEquiv hc c.name, ← hpk]
      split at he
      · cases he
      · split at he
        · cases he
        · rename_i hc1 hc2
          have := Option.some.inj he; subst this
          simp only [hc1, hc2, if_false, Bool.false_eq_true]
          refine ⟨_, rfl, hab.replace t ha hb (find_name a t ta ha) (find_name b t tb hb) (equiv_of_parts hn ?_ rfl hix hfk)⟩
          refine colsEquiv_map _ _ (fun x y hxy => ?_) _ _ hc
          rw [equiv_name hxy]
          split
          · exact ColSpec.equiv_refl _
          · exact hxy
  | renameColumn t o n =>
    cases ha : a.find t with
    | none => simp only [exec, ha] at he; cases he
    | some ta =>
      obtain ⟨tb, hb, heq⟩ := hab.find_some ha
      obtain ⟨hn, hc, hpk, hix, hfk⟩ := equiv_parts heq
      simp only [exec, ha] at he
      simp only [exec, hb]
      rw [← hasCol_of_colsEquiv hc o, ← hasCol_of_colsEquiv hc n]
      split at he
      · cases he
      · rename_i hc1
        have := Option.some.inj he; subst this
        rw [if_neg hc1]
        refine ⟨_, rfl, ?_⟩
        apply DBE.map
        · refine hab.replace t ha hb (find_name a t ta ha) (find_name b t tb hb) (equiv_of_parts hn ?_ ?_ ?_ ?_)
          · refine colsEquiv_map _ _ (fun x y hxy => ?_) _ _ hc
            obtain ⟨e1, e2, e3⟩ := opts_equiv hxy
            rw [e1]
            split
            · exact equiv_mk rfl e2 e3
            · exact hxy
          · show renameIn o n ta.pk = renameIn o n tb.pk; rw [hpk]
          · exact hix.map _
          · exact hfk.map _
        · intro _; rfl
        · intro x y hxy
          obtain ⟨e1, e2, e3, e4, e5⟩ := equiv_parts hxy
          exact equiv_of_parts e1 e2 e3 e4 (e5.map _)
  | addPrimaryKey t cols =>
    cases ha : a.find t with
    | none => simp only [exec, ha] at he; cases he
    | some ta =>
      obtain ⟨tb, hb, heq⟩ := hab.find_some ha
      obtain ⟨hn, hc, hpk, hix, hfk⟩ := equiv_parts heq
      simp only [exec, ha] at he
      simp only [exec, hb]
      rw [← allHasCol_of_colsEquiv hc cols, ← hpk]
      split at he
      · cases he
      · rename_i hc1
        have := Option.some.inj he; subst this
        rw [if_neg hc1]
        exact ⟨_, rfl, hab.replace t ha hb (find_name a t ta ha) (find_name b t tb hb) (equiv_of_parts hn hc rfl hix hfk)⟩
  | dropPrimaryKey t =>
    cases ha : a.find t with
    | none => simp only [exec, ha] at he; cases he
    | some ta =>
      obtain ⟨tb, hb, heq⟩ := hab.find_some ha
      obtain ⟨hn, hc, hpk, hix, hfk⟩ := equiv_parts heq
      simp only [exec, ha] at he
      simp only [exec, hb]
      rw [← hpk]
      split at he
      · cases he
      · rename_i hc1
        have := Option.some.inj he; subst this
        rw [if_neg hc1]
        exact ⟨_, rfl, hab.replace t ha hb (find_name a t ta ha) (find_name b t tb hb) (equiv_of_parts hn hc rfl hix hfk)⟩
  | addFk t name col rt rcol =>
    cases ha : a.find t with
    | none => simp only [exec, ha] at he; cases he
    | some ta =>
      obtain ⟨tb, hb, heq⟩ := hab.find_some ha
      obtain ⟨hn, hc, hpk, hix, hfk⟩ := equiv_parts heq
      simp only [exec, ha, Bool.false_and, Bool.false_eq_true, if_false] at he
      simp only [exec, hb, Bool.false_and, Bool.false_eq_true, if_false]
      rw [← hasCol_of_colsEquiv hc col, ← anyPerm hfk]
      split at he
      · cases he
      · rename_i hc1
        have := Option.some.inj he; subst this
        rw [if_neg hc1]
        exact ⟨_, rfl, hab.replace t ha hb (find_name a t ta ha) (find_name b t tb hb) (equiv_of_parts hn hc hpk hix (hfk.append_right _))⟩
  | dropFk t name =>
    cases ha : a.find t with
    | none => simp only [exec, ha] at he; cases he
    | some ta =>
      obtain ⟨tb, hb, heq⟩ := hab.find_some ha
      obtain ⟨hn, hc, hpk, hix, hfk⟩ := equiv_parts heq
      simp only [exec, ha] at he
      simp only [exec, hb]
      rw [← anyPerm hfk]
      split at he
      · cases he
      · rename_i hc1
        have := Option.some.inj he; subst this
        rw [if_neg hc1]
        exact ⟨_, rfl, hab.replace t ha hb (find_name a t ta ha) (find_name b t tb hb) (equiv_of_parts hn hc hpk hix (hfk.filter _))⟩
  | renameIndex t o n =>
    cases ha : a.find t with
    | none => simp only [exec, ha] at he; cases he
    | some ta =>
      obtain ⟨tb, hb, heq⟩ := hab.find_some ha
      obtain ⟨hn, hc, hpk, hix, hfk⟩ := equiv_parts heq
      simp only [exec, ha] at he
      simp only [exec, hb]
      rw [← anyPerm hix, ← anyPerm hix]
      split at he
      · cases he
      · rename_i hc1
        have := Option.some.inj he; subst this
        rw [if_neg hc1]
        exact ⟨_, rfl, hab.replace t ha hb (find_name a t ta ha) (find_name b t tb hb) (equiv_of_parts hn hc hpk (hix.map _) hfk)⟩
  | createIndex t name cols uniq u =>
    cases ha : a.find t with
    | none => simp only [exec, ha] at he; cases he
    | some ta =>
      obtain ⟨tb, hb, heq⟩ := hab.find_some ha
      obtain ⟨hn, hc, hpk, hix, hfk⟩ := equiv_parts heq
      simp only [exec, ha] at he
      simp only [exec, hb]
      rw [← allHasCol_of_colsEquiv hc cols, ← anyPerm hix]
      split at he
      · cases he
      · rename_i hc1
        have := Option.some.inj he; subst this
        rw [if_neg hc1]
        exact ⟨_, rfl, hab.replace t ha hb (find_name a t ta ha) (find_name b t tb hb) (equiv_of_parts hn hc hpk (hix.append_right _) hfk)⟩
  | dropIndex t name =>
    cases ha : a.find t with
    | none => simp only [exec, ha] at he; cases he
    | some ta =>
      obtain ⟨tb, hb, heq⟩ := hab.find_some ha
      obtain ⟨hn, hc, hpk, hix, hfk⟩ := equiv_parts heq
      simp only [exec, ha] at he
      simp only [exec, hb]
      rw [← anyPerm hix]
      split at he
      · cases he
      · rename_i hc1
        have := Option.some.inj he; subst this
        rw [if_neg hc1]
        exact ⟨_, rfl, hab.replace t ha hb (find_name a t ta ha) (find_name b t tb hb) (equiv_of_parts hn hc hpk (hix.filter _) hfk)⟩
  | commentOn t c x =>
    cases ha : a.find t with
    | none => simp only [exec, ha] at he; cases he
    | some ta =>
      obtain ⟨tb, hb, heq⟩ := hab.find_some ha
      obtain ⟨hn, hc, hpk, hix, hfk⟩ := equiv_parts heq
      simp only [exec, ha] at he
      simp only [exec, hb]
      rw [← hasCol_of_colsEquiv hc c]
      split at he
      · rename_i hc0
        have := Option.some.inj he; subst this
        rw [if_pos hc0]
        exact ⟨_, rfl, hab⟩
      · rename_i hc0
        rw [if_neg hc0]
        split at he
        · cases he
        · rename_i hc1
          have := Option.some.inj he; subst this
          rw [if_neg hc1]
          refine ⟨_, rfl, hab.replace t ha hb (find_name a t ta ha) (find_name b t tb hb) (equiv_of_parts hn ?_ hpk hix hfk)⟩
          refine colsEquiv_map _ _ (fun x y hxy => ?_) _ _ hc
          obtain ⟨e1, e2, e3⟩ := opts_equiv hxy
          rw [e1]
          split
          · exact equiv_mk rfl e2 ((e3.filter _).append_right _)
          · exact hxy
  | alterType t c x =>
    cases ha : a.find t with
    | none => simp only [exec, ha] at he; cases he
    | some ta =>
      obtain ⟨tb, hb, heq⟩ := hab.find_some ha
      obtain ⟨hn, hc, hpk, hix, hfk⟩ := equiv_parts heq
      simp only [exec, ha] at he
      simp only [exec, hb]
      rw [← hasCol_of_colsEquiv hc c]
      split at he
      · cases he
      · rename_i hc1
        have := Option.some.inj he; subst this
        rw [if_neg hc1]
        refine ⟨_, rfl, hab.replace t ha hb (find_name a t ta ha) (find_name b t tb hb) (equiv_of_parts hn ?_ hpk hix hfk)⟩
        refine colsEquiv_map _ _ (fun x y hxy => ?_) _ _ hc
        obtain ⟨e1, e2, e3⟩ := opts_equiv hxy
        rw [e1]
        split
        · exact equiv_mk rfl rfl e3
        · exact hxy
  | setDefault t c x =>
    cases ha : a.find t with
    | none => simp only [exec, ha] at he; cases he
    | some ta =>
      obtain ⟨tb, hb, heq⟩ := hab.find_some ha
      obtain ⟨hn, hc, hpk, hix, hfk⟩ := equiv_parts heq
      simp only [exec, ha] at he
      simp only [exec, hb]
      rw [← hasCol_of_colsEquiv hc c]
      split at he
      · cases he
      · rename_i hc1
        have := Option.some.inj he; subst this
        rw [if_neg hc1]
        refine ⟨_, rfl, hab.replace t ha hb (find_name a t ta ha) (find_name b t tb hb) (equiv_of_parts hn ?_ hpk hix hfk)⟩
        refine colsEquiv_map _ _ (fun x y hxy => ?_) _ _ hc
        obtain ⟨e1, e2, e3⟩ := opts_equiv hxy
        rw [e1]
        split
        · exact equiv_mk rfl e2 ((e3.filter _).append_right _)
        · exact hxy
  | dropNotNull t c =>
    cases ha : a.find t with
    | none => simp only [exec, ha] at he; cases he
    | some ta =>
      obtain ⟨tb, hb, heq⟩ := hab.find_some ha
      obtain ⟨hn, hc, hpk, hix, hfk⟩ := equiv_parts heq
      simp only [exec, ha] at he
      simp only [exec, hb]
      rw [← hasCol_of_colsEquiv hc c]
      split at he
      · cases he
      · rename_i hc1
        have := Option.some.inj he; subst this
        rw [if_neg hc1]
        refine ⟨_, rfl, hab.replace t ha hb (find_name a t ta ha) (find_name b t tb hb) (equiv_of_parts hn ?_ hpk hix hfk)⟩
        refine colsEquiv_map _ _ (fun x y hxy => ?_) _ _ hc
        obtain ⟨e1, e2, e3⟩ := opts_equiv hxy
        rw [e1]
        split
        · exact equiv_mk rfl e2 (e3.filter _)
        · exact hxy

/-- **a whole script** -/
theorem execAll_equiv : ∀ (ss : List Stmt) {a b a1 : DB}, DBE a b → execAll false a ss = some a1 →
    ∃ b1, execAll false b ss = some b1 ∧ DBE a1 b1 := by
  intro ss
  induction ss with
  | nil =>
    intro a b a1 hab he
    simp only [execAll] at he
    have := Option.some.inj he; subst this
    exact ⟨b, rfl, hab⟩
  | cons s r ih =>
    intro a b a1 hab he
    simp only [execAll] at he
    cases h1 : exec false a s with
    | none => rw [h1] at he; cases he
    | some a2 =>
      rw [h1] at he
      simp only [Option.bind_some] at he
      obtain ⟨b2, hb2, hab2⟩ := exec_equiv hab s h1
      obtain ⟨b1, hb1, hab1⟩ := ih hab2 he
      exact ⟨b1, by simp only [execAll, hb2, Option.bind_some]; exact hb1, hab1⟩

end Sqlize
