/-
  Proofs/Fidelity.lean — C05, names and positions: loading a well-formed MySQL script with the reader model gives, for
  every table, exactly the column names in exactly the order the reference engine (an independent reading of the
  script: `Spec.exec`) gives, and the same tables in the same order — for scripts of any length over the whole
  vocabulary except RENAME COLUMN (a renamed column record is no longer a plain `add` record: recorded region
  `rename-column`).  The relation `Rel` carried through the script: consistent maps, no pending position, every record
  created in this history, same (table, column names) view.
-/
import SqlizeModel.Proofs.ColOps
import SqlizeModel.Proofs.Frame
import SqlizeModel.Spec.Exec

namespace Sqlize
open Spec

/-- the (table name, column names) view of the model … -/
def colView (m : Migration) : List (String × List String) := m.tables.map (fun t => (t.name, t.colNames))
/-- … and of the reference schema -/
def specView (db : DB) : List (String × List String) := db.map (fun t => (t.name, t.colNames))

theorem colView_names (m : Migration) : (colView m).map (·.1) = m.tblNames := by
  simp [colView, Migration.tblNames, List.map_map, Function.comp_def]

theorem specView_names (db : DB) : (specView db).map (·.1) = db.map (·.name) := by
  simp [specView, List.map_map, Function.comp_def]

-- ---------------------------------------------------------------------------------------------------------------
-- the reference schema as a list with unique names

theorem find_of_getElem (db : DB) (hnd : (db.map (·.name)).Nodup) (i : Nat) (tb : TableSpec) (h : db[i]? = some tb) :
    db.find tb.name = some tb := by
  unfold DB.find
  induction db generalizing i with
  | nil => simp at h
  | cons x r ih =>
    have hx : x.name ∉ r.map (·.name) := (List.nodup_cons.mp hnd).1
    have hr : (r.map (·.name)).Nodup := (List.nodup_cons.mp hnd).2
    cases i with
    | zero =>
      have : x = tb := by simpa using h
      subst this; simp
    | succ j =>
      have hj : r[j]? = some tb := by simpa using h
      have hne : x.name ≠ tb.name := by
        intro e; apply hx; rw [e]; exact List.mem_map_of_mem (List.mem_of_getElem? hj)
      have : (x.name == tb.name) = false := by simpa using hne
      rw [List.find?_cons, this]
      exact ih hr j hj

theorem replace_eq_set (db : DB) (hnd : (db.map (·.name)).Nodup) (i : Nat) (tb tb' : TableSpec) (h : db[i]? = some tb)
    (hn : tb'.name = tb.name) : db.replace tb' = db.set i tb' := by
  unfold DB.replace
  induction db generalizing i with
  | nil => simp at h
  | cons x r ih =>
    have hx : x.name ∉ r.map (·.name) := (List.nodup_cons.mp hnd).1
    have hr : (r.map (·.name)).Nodup := (List.nodup_cons.mp hnd).2
    cases i with
    | zero =>
      have hxt : x = tb := by simpa using h
      subst hxt
      simp only [List.map_cons, List.set_cons_zero, hn, beq_self_eq_true, if_true, List.cons.injEq, true_and]
      rw [List.map_congr_left, List.map_id]
      intro y hy
      have : y.name ≠ x.name := by
        intro e; apply hx; rw [← e]; exact List.mem_map_of_mem hy
      have : (y.name == x.name) = false := by simpa using this
      simp [this]
    | succ j =>
      have hj : r[j]? = some tb := by simpa using h
      have hne : x.name ≠ tb.name := by
        intro e; apply hx; rw [e]; exact List.mem_map_of_mem (List.mem_of_getElem? hj)
      have : (x.name == tb'.name) = false := by rw [hn]; simpa using hne
      simp only [List.map_cons, List.set_cons_succ, this, Bool.false_eq_true, if_false, List.cons.injEq, true_and]
      exact ih hr j hj

theorem replace_self (db : DB) (hnd : (db.map (·.name)).Nodup) (i : Nat) (tb : TableSpec) (h : db[i]? = some tb) :
    db.replace tb = db := by
  rw [replace_eq_set db hnd i tb tb h rfl]
  obtain ⟨hi, he⟩ := List.getElem?_eq_some_iff.mp h
  rw [← he]; exact List.set_getElem_self hi

/-- in a duplicate-free list, erasing position `i` is filtering its element out -/
theorem eraseIdx_eq_filter (l : List String) (hl : l.Nodup) (i : Nat) (c : String) (h : l[i]? = some c) :
    l.eraseIdx i = l.filter (· != c) := by
  induction l generalizing i with
  | nil => simp at h
  | cons x r ih =>
    have hx : x ∉ r := (List.nodup_cons.mp hl).1
    have hr : r.Nodup := (List.nodup_cons.mp hl).2
    cases i with
    | zero =>
      have : x = c := by simpa using h
      subst this
      simp only [List.eraseIdx_cons_zero, List.filter_cons, bne_self_eq_false, Bool.false_eq_true, if_false]
      rw [List.filter_eq_self.mpr]
      intro y hy
      have : y ≠ x := fun e => hx (e ▸ hy)
      simpa using this
    | succ j =>
      have hj : r[j]? = some c := by simpa using h
      have hne : x ≠ c := fun e => hx (e ▸ List.mem_of_getElem? hj)
      have : (x != c) = true := by simpa using hne
      simp only [List.eraseIdx_cons_succ, List.filter_cons, this, if_true, List.cons.injEq, true_and]
      exact ih hr j hj

theorem has_iff (db : DB) (t : String) : db.has t = true ↔ t ∈ db.map (·.name) := by
  unfold DB.has
  rw [List.any_eq_true]
  constructor
  · intro ⟨x, hx, he⟩
    have : x.name = t := by simpa using he
    exact this ▸ List.mem_map_of_mem hx
  · intro hm
    obtain ⟨x, hx, he⟩ := List.mem_map.mp hm
    exact ⟨x, hx, by simpa using he⟩

-- ---------------------------------------------------------------------------------------------------------------
-- editing the table a statement names, on the model side

namespace Migration

/-- "ensure the table, then edit it" when the table is known: the table at its position is replaced by the edit's result -/
theorem edit_known (m : Migration) (nm site : String) (f : Table → M Table) (id : Nat) (t t' : Table)
    (hg : m.tblIdx.get? nm = some id) (ht : m.tables[id]? = some t) (hf : f t = .ok t') :
    (do let (m', i) ← m.ensureTable nm; m'.onTable site i f) = .ok { m with tables := m.tables.set id t' } := by
  unfold ensureTable
  rw [hg]
  simp only [pure, Except.pure, bind, Except.bind]
  unfold onTable
  have hlt : id < m.tables.length := (List.getElem?_eq_some_iff.mp ht).1
  rw [getIdx_of_lt _ _ _ hlt]
  have : m.tables[id] = t := (List.getElem?_eq_some_iff.mp ht).2
  simp only [bind, Except.bind, this, hf, pure, Except.pure]

/-- the "look the table up" shape -/
theorem lookup_known (m : Migration) (site : String) (f : Table → M Table) (id : Nat) (t t' : Table)
    (ht : m.tables[id]? = some t) (hf : f t = .ok t') :
    m.onTable site id f = .ok { m with tables := m.tables.set id t' } := by
  unfold onTable
  have hlt : id < m.tables.length := (List.getElem?_eq_some_iff.mp ht).1
  rw [getIdx_of_lt _ _ _ hlt]
  have : m.tables[id] = t := (List.getElem?_eq_some_iff.mp ht).2
  simp only [bind, Except.bind, this, hf, pure, Except.pure]

end Migration

/-- every column record of the model table carries the type and (as a multiset) the option kinds and values the
    reference table gives the column of that name -/
def TypesOK (tm : Table) (tb : TableSpec) : Prop :=
  ∀ c ∈ tm.cols, ∃ cs ∈ tb.cols, cs.name = c.name ∧ c.cur.typ = some cs.typ ∧ (Table.optKinds c.cur.opts).Perm cs.opts

/-- what is carried through the script -/
structure Rel (m : Migration) (db : DB) : Prop where
  inv : m.Inv
  np : m.NoPending
  fresh : ∀ t ∈ m.tables, t.AllAdd ∧ t.action = .add
  view : colView m = specView db
  types : ∀ (i : Nat) (tm : Table) (tb : TableSpec), m.tables[i]? = some tm → db[i]? = some tb → TypesOK tm tb

namespace Rel

theorem empty : Rel {} [] :=
  ⟨Migration.inv_empty, Migration.noPending_empty, (by intro t ht; cases ht), rfl, (by intro i tm tb h _; simp at h)⟩

variable {m : Migration} {db : DB}

theorem names (h : Rel m db) : db.map (·.name) = m.tblNames := by
  rw [← specView_names, ← h.view, colView_names]

theorem nodup (h : Rel m db) : (db.map (·.name)).Nodup := by rw [h.names]; exact h.inv.tbls.nodup

theorem length_eq (h : Rel m db) : db.length = m.tables.length := by
  have := congrArg List.length h.view
  simpa [colView, specView] using this.symm

/-- `Rel` sees the tables and the table map only -/
theorem of_tables {m' : Migration} (h : Rel m db) (ht : m'.tables = m.tables) (hi : m'.tblIdx = m.tblIdx) : Rel m' db := by
  refine ⟨⟨?_, ?_⟩, ?_, ?_, ?_, ?_⟩
  · show NInv (m'.tables.map (·.name)) m'.tblIdx
    rw [ht, hi]; exact h.inv.tbls
  · intro x hx; rw [ht] at hx; exact h.inv.each x hx
  · intro x hx; rw [ht] at hx; exact h.np x hx
  · intro x hx; rw [ht] at hx; exact h.fresh x hx
  · unfold colView; rw [ht]; exact h.view
  · intro i tm tb h1 h2; rw [ht] at h1; exact h.types i tm tb h1 h2

theorem using_ (h : Rel m db) (x : String) : Rel (m.using_ x) db :=
  ⟨Migration.using_inv m x h.inv, using_noPending m x h.np, by rw [using_tables]; exact h.fresh,
   by unfold colView; rw [using_tables]; exact h.view, by rw [using_tables]; exact h.types⟩

/-- the table a well-formed statement names, on both sides -/
theorem lookup (h : Rel m db) {t : String} {tb : TableSpec} (hf : db.find t = some tb) :
    ∃ id tm, m.tblIdx.get? t = some id ∧ m.tables[id]? = some tm ∧ db[id]? = some tb ∧ tm.name = t ∧
      tm.colNames = tb.colNames ∧ tb.name = t ∧ TypesOK tm tb := by
  unfold DB.find at hf
  have hmem := List.mem_of_find?_eq_some hf
  have hname : tb.name = t := by simpa using List.find?_some hf
  obtain ⟨id, hid⟩ := List.mem_iff_getElem?.mp hmem
  have hlt : id < db.length := (List.getElem?_eq_some_iff.mp hid).1
  have hlt' : id < m.tables.length := by rw [← h.length_eq]; exact hlt
  have hv : (colView m)[id]? = (specView db)[id]? := by rw [h.view]
  simp only [colView, specView, List.getElem?_map, hid, List.getElem?_eq_getElem hlt', Option.map_some] at hv
  have hv := Option.some.inj hv
  have hn : (m.tables[id]).name = tb.name := (Prod.mk.inj hv).1
  have hc : (m.tables[id]).colNames = tb.colNames := (Prod.mk.inj hv).2
  refine ⟨id, m.tables[id], ?_, List.getElem?_eq_getElem hlt', hid, hn.trans hname, hc, hname,
    h.types id _ tb (List.getElem?_eq_getElem hlt') hid⟩
  apply (h.inv.tbls.get t id).mpr
  simp [Migration.tblNames, List.getElem?_eq_getElem hlt', hn, hname]

/-- a table the reference schema does not hold is unknown to the model -/
theorem unknown (h : Rel m db) {t : String} (hn : db.has t = false) : m.tblIdx.get? t = none := by
  apply (h.inv.tbls.get?_none_iff t).mpr
  rw [← h.names]
  intro hm
  rw [(has_iff db t).mpr hm] at hn
  cases hn

/-- replacing the named table on both sides by edits that agree on the column names -/
theorem update (h : Rel m db) {id : Nat} {tm tm' : Table} {tb tb' : TableSpec} (hm : m.tables[id]? = some tm)
    (hd : db[id]? = some tb) (hinv : tm'.Inv) (hname : tm'.name = tm.name) (hadd : tm'.AllAdd)
    (hact : tm'.action = .add) (hp : tm'.pendingPos = none) (hn' : tb'.name = tb.name)
    (hcols : tm'.colNames = tb'.colNames) (hnm : tm.name = tb.name) (hty : TypesOK tm' tb') :
    Rel { m with tables := m.tables.set id tm' } (db.replace tb') := by
  have hrep := replace_eq_set db h.nodup id tb tb' hd hn'
  refine ⟨⟨?_, ?_⟩, ?_, ?_, ?_, ?_⟩
  · show NInv ((m.tables.set id tm').map (·.name)) _
    exact Table.ninv_set_same h.inv.tbls hm hname
  · intro x hx
    rcases Migration.mem_set hx with h1 | h1
    · exact h.inv.each x h1
    · rw [h1]; exact hinv
  · intro x hx
    rcases Migration.mem_set hx with h1 | h1
    · exact h.np x h1
    · rw [h1]; exact hp
  · intro x hx
    rcases Migration.mem_set hx with h1 | h1
    · exact h.fresh x h1
    · rw [h1]; exact ⟨hadd, hact⟩
  · rw [hrep]
    unfold colView specView
    show (m.tables.set id tm').map _ = (db.set id tb').map _
    rw [List.map_set, List.map_set]
    have := h.view
    unfold colView specView at this
    rw [this, hname, hnm, hn', hcols]
  · rw [hrep]
    intro i x y hx hy
    have hx : (m.tables.set id tm')[i]? = some x := hx
    rw [List.getElem?_set] at hx hy
    by_cases hii : id = i
    · rw [if_pos hii] at hx hy
      split at hx
      · split at hy
        · rw [← Option.some.inj hx, ← Option.some.inj hy]; exact hty
        · cases hy
      · cases hx
    · rw [if_neg hii] at hx hy
      exact h.types i x y hx hy

/-- CREATE TABLE, first half: a table unknown to both sides is appended to both -/
theorem append_table (h : Rel m db) (tm : Table) (tb : TableSpec) (hi : tm.Inv) (ha : tm.AllAdd) (hact : tm.action = .add)
    (hp : tm.pendingPos = none) (hn : tm.name = tb.name) (hc : tm.colNames = tb.colNames) (hnew : db.has tb.name = false)
    (hty : TypesOK tm tb) :
    ∃ m', m.addTable tm = .ok m' ∧ Rel m' (db ++ [tb]) ∧ m'.cursor = m.cursor := by
  have hg : m.tblIdx.get? tm.name = none := by rw [hn]; exact h.unknown hnew
  have hs : m.addTable tm = .ok { m with tables := m.tables ++ [tm], tblIdx := m.tblIdx.set tm.name m.tables.length } := by
    unfold Migration.addTable
    rw [hg]
    rfl
  refine ⟨_, hs, ⟨Migration.addTable_inv m _ tm h.inv hi hs, Migration.addTable_pending m _ tm h.np hp hs, ?_, ?_, ?_⟩, rfl⟩
  · intro x hx
    have hx : x ∈ m.tables ++ [tm] := hx
    rcases List.mem_append.mp hx with h1 | h1
    · exact h.fresh x h1
    · rw [List.mem_singleton.mp h1]; exact ⟨ha, hact⟩
  · unfold colView specView
    show (m.tables ++ [tm]).map _ = (db ++ [tb]).map _
    rw [List.map_append, List.map_append]
    have := h.view
    unfold colView specView at this
    rw [this, List.map_singleton, List.map_singleton, hn, hc]
  · intro i x y hx hy
    have hx : (m.tables ++ [tm])[i]? = some x := hx
    have hlen := h.length_eq
    by_cases hi' : i < m.tables.length
    · rw [List.getElem?_append_left hi'] at hx
      rw [List.getElem?_append_left (by omega)] at hy
      exact h.types i x y hx hy
    · have hge : m.tables.length ≤ i := Nat.le_of_not_lt hi'
      rw [List.getElem?_append_right hge] at hx
      rw [List.getElem?_append_right (by omega)] at hy
      cases hd : i - m.tables.length with
      | zero =>
        rw [hd] at hx
        have : i - db.length = 0 := by omega
        rw [this] at hy
        simp only [List.getElem?_cons_zero] at hx hy
        rw [← Option.some.inj hx, ← Option.some.inj hy]; exact hty
      | succ k => rw [hd] at hx; simp at hx

theorem resolve_ne (m : Migration) {t : String} (ht : t ≠ "") : m.resolve t = t := by
  unfold Migration.resolve
  have : (t == "") = false := by simpa using ht
  simp [this]

/-- a statement that edits the named, existing table; the edit's effect on the column names is the reference engine's -/
theorem edited (h : Rel m db) {t : String} {tb tb' : TableSpec} (hf : db.find t = some tb)
    (hn : tb'.name = tb.name) (site : String) (f : Table → M Table)
    (hedit : ∀ tm, tm.Inv → tm.AllAdd → tm.pendingPos = none → tm.colNames = tb.colNames → TypesOK tm tb →
      ∃ tm', f tm = .ok tm' ∧ tm'.Inv ∧ tm'.name = tm.name ∧ tm'.AllAdd ∧ tm'.action = tm.action ∧
        tm'.pendingPos = none ∧ tm'.colNames = tb'.colNames ∧ TypesOK tm' tb') :
    ∃ m', (do let (m1, i) ← m.ensureTable t; m1.onTable site i f) = .ok m' ∧ Rel m' (db.replace tb') ∧
      m'.cursor = m.cursor := by
  obtain ⟨id, tm, hg, hm, hd, hnm, hcols, htn, hty⟩ := h.lookup hf
  have hmem := List.mem_of_getElem? hm
  obtain ⟨tm', hft, hi', hn', ha', hact', hp', hc', hty'⟩ :=
    hedit tm (h.inv.each tm hmem) (h.fresh tm hmem).1 (h.np tm hmem) hcols hty
  refine ⟨{ m with tables := m.tables.set id tm' }, Migration.edit_known m t site f id tm tm' hg hm hft, ?_, rfl⟩
  exact h.update hm hd hi' hn' ha' (by rw [hact']; exact (h.fresh tm hmem).2) hp' hn hc' (hnm.trans htn.symm) hty'

/-- a statement that edits the named, existing table by a total primitive which keeps names and actions of the columns,
    while the reference engine leaves that table's columns alone -/
theorem framed (h : Rel m db) {t : String} {tb tb' : TableSpec} (hf : db.find t = some tb)
    (hn : tb'.name = tb.name) (hc : tb'.cols = tb.cols) (site : String) (f : Table → M Table)
    (htot : ∀ tm, tm.Inv → ∃ tm', f tm = .ok tm')
    (hfr : ∀ tm tm', tm.Inv → f tm = .ok tm' → tm'.Inv ∧ tm'.name = tm.name ∧ Table.Frame tm tm') :
    ∃ m', (do let (m1, i) ← m.ensureTable t; m1.onTable site i f) = .ok m' ∧ Rel m' (db.replace tb') := by
  obtain ⟨id, tm, hg, hm, hd, hnm, hcols, htn, hty⟩ := h.lookup hf
  have hmem := List.mem_of_getElem? hm
  have hi := h.inv.each tm hmem
  obtain ⟨tm', hft⟩ := htot tm hi
  obtain ⟨hi', hn', hframe⟩ := hfr tm tm' hi hft
  refine ⟨_, Migration.edit_known m t site f id tm tm' hg hm hft, ?_⟩
  refine h.update hm hd hi' hn' (Table.allAdd_of_sig hframe.sig (h.fresh tm hmem).1) ?_ ?_ hn ?_ (hnm.trans htn.symm) ?_
  · rw [hframe.action]; exact (h.fresh tm hmem).2
  · rw [hframe.pending]; exact h.np tm hmem
  · rw [Table.names_of_sig hframe.sig, hcols]
    show tb.cols.map (·.name) = tb'.cols.map (·.name)
    rw [hc]
  · intro c hcm
    obtain ⟨c0, hc0, hn0, ht0, ho0⟩ := Table.mem_of_sig hframe.sig hcm
    obtain ⟨cs, hcs, hcsn, hcst, hcso⟩ := hty c0 hc0
    exact ⟨cs, by rw [hc]; exact hcs, hcsn.trans hn0, by rw [← ht0]; exact hcst, by rw [← ho0]; exact hcso⟩

end Rel
end Sqlize
