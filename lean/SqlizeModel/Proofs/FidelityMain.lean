/-
  Proofs/FidelityMain.lean — the commuting squares assembled: `ReaderMysql.run` simulates the reference engine on the
  (table, column names) view, for scripts of any length.
-/
import SqlizeModel.Proofs.FidelitySteps

namespace Sqlize
open Spec

/-- statements covered: everything but RENAME COLUMN / RENAME INDEX / COMMENT ON / the Postgres ALTER COLUMN spellings, with a non-empty table name -/
def Stmt.colSafe : Stmt → Bool
  | .renameColumn .. => false
  | .renameIndex .. => false
  | .commentOn .. => false
  | .alterType .. | .setDefault .. | .dropNotNull .. => false      -- Postgres spellings: not MySQL statements
  | s => s.table != ""

namespace ReaderMysql

theorem step_rel (rc : Bool) {m : Migration} {db db' : DB} (h : Rel m db) (s : Stmt) (hs : s.colSafe = true)
    (he : exec rc db s = some db') : ∃ m', step m s = .ok m' ∧ Rel m' db' := by
  cases s with
  | createTable t ident cols pk =>
    have ht : t ≠ "" := by simpa [Stmt.colSafe, Stmt.table] using hs
    simp only [exec] at he
    split at he
    · cases he
    · rename_i hc1
      split at he
      · cases he
      · rename_i hc2
        split at he
        · cases he
        · split at he
          · cases he
          · have key : ∃ pk', db' = db ++ [{ name := t, cols := cols.map (fun c => (colOf c).1), pk := pk' }] := by
              split at he
              · split at he
                · cases he
                · exact ⟨_, by simpa [List.map_map, Function.comp_def] using (Option.some.inj he).symm⟩
              · split at he
                · cases he
                · exact ⟨_, by simpa [List.map_map, Function.comp_def] using (Option.some.inj he).symm⟩
            obtain ⟨pk', hdb⟩ := key
            subst hdb
            have hnew : db.has t = false := by simpa using hc1
            have hnd : (cols.map (·.name)).Nodup := by
              have : allNodup ((cols.map colOf).map (·.1.name)) = true := by simpa using hc2
              have hn : (cols.map colOf).map (·.1.name) = cols.map (·.name) := by
                simp [List.map_map, Function.comp_def, colOf]
              rw [hn] at this
              exact (allNodup_iff _).mp this
            exact step_createTable h t ht ident cols pk pk' hnew hnd
  | dropTable t =>
    simp only [exec] at he
    split at he
    · cases he
    · rename_i hc1
      split at he
      · cases he
      · have := Option.some.inj he; subst this
        exact step_dropTable h t (by simpa using hc1)
  | addColumn t c pos =>
    have ht : t ≠ "" := by simpa [Stmt.colSafe, Stmt.table] using hs
    simp only [exec] at he
    obtain ⟨tb, hf, he⟩ := exec_find he
    split at he
    · cases he
    · rename_i hc1
      split at he
      · cases he
      · have hfresh : tb.hasCol c.name = false := by simpa using hc1
        have hcn : (colOf c).1.name = c.name := rfl
        cases pos with
        | none =>
          simp only at he
          have := Option.some.inj he; subst this
          exact step_addColumn_none h t ht c hf hfresh rfl rfl
        | first =>
          simp only at he
          have := Option.some.inj he; subst this
          exact step_addColumn_first h t ht c hf hfresh rfl rfl
        | after p =>
          simp only at he
          cases hia : insertAfter p (colOf c).1 tb.cols with
          | none => rw [hia] at he; cases he
          | some cols' =>
            rw [hia] at he
            simp only at he
            have := Option.some.inj he; subst this
            exact step_addColumn_after h t ht c p hf hfresh rfl hia
  | dropColumn t c =>
    have ht : t ≠ "" := by simpa [Stmt.colSafe, Stmt.table] using hs
    simp only [exec] at he
    obtain ⟨tb, hf, he⟩ := exec_find he
    split at he
    · cases he
    · rename_i hc1
      split at he
      · cases he
      · let tbD : TableSpec :=
          { tb with
            cols := tb.cols.filter (·.name != c),
            idxs := (tb.idxs.map (fun i => { i with cols := i.cols.filter (· != c) })).filter (!·.cols.isEmpty),
            fks := tb.fks.filter (·.col != c),
            pk := tb.pk.filter (· != c) }
        have hdb : db' = db.replace tbD := (Option.some.inj he).symm
        subst hdb
        have hcol : tb.hasCol c = true := by simpa using hc1
        obtain ⟨m1, h1, hr⟩ := step_dropColumn h t c ht hf hcol (tb' := tbD) rfl rfl
        refine ⟨m1.using_ t, ?_, hr⟩
        unfold step
        simp only [h1, bind, Except.bind, pure, Except.pure]
  | modifyColumn t c =>
    have ht : t ≠ "" := by simpa [Stmt.colSafe, Stmt.table] using hs
    simp only [exec] at he
    obtain ⟨tb, hf, he⟩ := exec_find he
    split at he
    · cases he
    · rename_i hc1
      split at he
      · cases he
      · let tbM : TableSpec :=
          { tb with
            cols := tb.cols.map (fun x => if x.name == c.name then (colOf c).1 else x),
            pk := if (colOf c).2 then [c.name] else tb.pk }
        have hdb : db' = db.replace tbM := (Option.some.inj he).symm
        subst hdb
        have hcol : tb.hasCol c.name = true := by simpa using hc1
        exact step_modifyColumn h t ht c hf hcol (tb' := tbM) rfl rfl
  | renameColumn t o n => simp [Stmt.colSafe] at hs
  | addPrimaryKey t cols =>
    have ht : t ≠ "" := by simpa [Stmt.colSafe, Stmt.table] using hs
    simp only [exec] at he
    obtain ⟨tb, hf, he⟩ := exec_find he
    split at he
    · cases he
    · have := Option.some.inj he; subst this
      obtain ⟨m1, h1, hr⟩ := step_addIndex h t ht (pkIndex cols) hf (tb' := { tb with pk := cols }) rfl rfl
      exact ⟨m1.using_ t, by unfold step; simp only [h1, bind, Except.bind, pure, Except.pure], hr⟩
  | dropPrimaryKey t =>
    have ht : t ≠ "" := by simpa [Stmt.colSafe, Stmt.table] using hs
    simp only [exec] at he
    obtain ⟨tb, hf, he⟩ := exec_find he
    split at he
    · cases he
    · have := Option.some.inj he; subst this
      obtain ⟨m1, h1, hr⟩ := step_removeIndex h t ht "primary_key" hf (tb' := { tb with pk := [] }) rfl rfl
      exact ⟨m1.using_ t, by unfold step; simp only [h1, bind, Except.bind, pure, Except.pure], hr⟩
  | addFk t name col rt rc' =>
    have ht : t ≠ "" := by simpa [Stmt.colSafe, Stmt.table] using hs
    simp only [exec] at he
    obtain ⟨tb, hf, he⟩ := exec_find he
    split at he
    · cases he
    · split at he
      · cases he
      · have := Option.some.inj he; subst this
        obtain ⟨m1, h1, hr⟩ := step_addForeignKey h t ht
          { name := name, action := .add, table := t, column := col, refTable := rt, refColumn := rc' } hf
          (tb' := { tb with fks := tb.fks ++ [{ name := name, col := col, refT := rt, refC := rc' }] }) rfl rfl
        exact ⟨(m1.using_ t).using_ rt, by unfold step; simp only [h1, bind, Except.bind, pure, Except.pure],
          (hr.using_ t).using_ rt⟩
  | dropFk t name =>
    have ht : t ≠ "" := by simpa [Stmt.colSafe, Stmt.table] using hs
    simp only [exec] at he
    obtain ⟨tb, hf, he⟩ := exec_find he
    split at he
    · cases he
    · have := Option.some.inj he; subst this
      obtain ⟨m1, h1, hr⟩ := step_removeForeignKey h t ht name hf
        (tb' := { tb with fks := tb.fks.filter (·.name != name) }) rfl rfl
      exact ⟨m1.using_ t, by unfold step; simp only [h1, bind, Except.bind, pure, Except.pure], hr⟩
  | renameIndex t o n => simp [Stmt.colSafe] at hs
  | createIndex t name cols uniq u =>
    have ht : t ≠ "" := by simpa [Stmt.colSafe, Stmt.table] using hs
    simp only [exec] at he
    obtain ⟨tb, hf, he⟩ := exec_find he
    split at he
    · cases he
    · have := Option.some.inj he; subst this
      obtain ⟨m1, h1, hr⟩ := step_addIndex h t ht
        { name := name, action := .add, typ := if uniq then .unique else .none, indexType := u, cols := cols } hf
        (tb' := { tb with idxs := tb.idxs ++ [{ name := name, cols := cols, unique := uniq, itype := if u == "" then "BTREE" else u }] }) rfl rfl
      exact ⟨m1.using_ t, by unfold step; simp only [h1, bind, Except.bind, pure, Except.pure], hr⟩
  | dropIndex t name =>
    have ht : t ≠ "" := by simpa [Stmt.colSafe, Stmt.table] using hs
    simp only [exec] at he
    obtain ⟨tb, hf, he⟩ := exec_find he
    split at he
    · cases he
    · have := Option.some.inj he; subst this
      obtain ⟨m1, h1, hr⟩ := step_removeIndex h t ht name hf
        (tb' := { tb with idxs := tb.idxs.filter (·.name != name) }) rfl rfl
      exact ⟨m1.using_ t, by unfold step; simp only [h1, bind, Except.bind, pure, Except.pure], hr⟩
  | commentOn t c text => simp [Stmt.colSafe] at hs
  | alterType t c typ => simp [Stmt.colSafe] at hs
  | setDefault t c d => simp [Stmt.colSafe] at hs
  | dropNotNull t c => simp [Stmt.colSafe] at hs


theorem run_rel (rc : Bool) (ss : List Stmt) : ∀ (m : Migration) (db db' : DB), Rel m db →
    ss.all Stmt.colSafe = true → execAll rc db ss = some db' → ∃ m', run m ss = .ok m' ∧ Rel m' db' := by
  induction ss with
  | nil =>
    intro m db db' h _ he
    unfold execAll at he
    have := Option.some.inj he; subst this
    exact ⟨m, rfl, h⟩
  | cons s rest ih =>
    intro m db db' h hs he
    simp only [List.all_cons, Bool.and_eq_true] at hs
    unfold execAll at he
    cases h1 : exec rc db s with
    | none => rw [h1] at he; cases he
    | some db1 =>
      rw [h1] at he
      obtain ⟨m1, hm1, hr1⟩ := step_rel rc h s hs.1 h1
      obtain ⟨m', hm', hr'⟩ := ih m1 db1 db' hr1 hs.2 he
      refine ⟨m', ?_, hr'⟩
      unfold run
      simp only [hm1, bind, Except.bind]
      exact hm'

/-- names in the same order + types right by name ⇒ (name, type) pairs in the same order -/
theorem typed_cols (tm : Table) (tb : TableSpec) (hn : tm.colNames = tb.colNames) (hnd : tb.colNames.Nodup)
    (hty : TypesOK tm tb) :
    tm.cols.map (fun c => (c.name, c.cur.typ)) = tb.cols.map (fun c => (c.name, some c.typ)) := by
  apply List.ext_getElem?
  intro j
  simp only [List.getElem?_map]
  have hj : (tm.cols.map (·.name))[j]? = (tb.cols.map (·.name))[j]? := by
    have := congrArg (fun l => l[j]?) hn
    exact this
  simp only [List.getElem?_map] at hj
  cases hm : tm.cols[j]? with
  | none =>
    rw [hm] at hj
    cases hb : tb.cols[j]? with
    | none => rfl
    | some y => rw [hb] at hj; cases hj
  | some x =>
    rw [hm] at hj
    cases hb : tb.cols[j]? with
    | none => rw [hb] at hj; cases hj
    | some y =>
      rw [hb] at hj
      have hxy : x.name = y.name := Option.some.inj hj
      obtain ⟨cs, hcs, hcn, hct, _⟩ := hty x (List.mem_of_getElem? hm)
      -- `cs` is the reference column at position `j`: names are unique
      obtain ⟨k, hk⟩ := List.mem_iff_getElem?.mp hcs
      have h1 : tb.colNames[k]? = some x.name := by simp [TableSpec.colNames, hk, hcn]
      have h2 : tb.colNames[j]? = some x.name := by simp [TableSpec.colNames, hb, hxy]
      have hkl : k < tb.colNames.length := (List.getElem?_eq_some_iff.mp h1).1
      have hkj : k = j := (List.getElem?_inj hkl hnd).mp (h1.trans h2.symm)
      subst hkj
      rw [hk] at hb
      have : cs = y := Option.some.inj hb
      subst this
      simp only [Option.map_some]
      rw [hxy, hct]

/-- **C05, names and positions.**  For every script (any length) over the vocabulary without RENAME COLUMN / RENAME
    INDEX that the reference engine accepts from the empty schema, the MySQL reader model loads it without error, and
    the loaded model has exactly the reference schema's tables, in the same order, each with exactly the reference
    schema's column names in the same order.  It also satisfies the map invariant and has no pending position. -/
theorem fidelity (rc : Bool) (ss : List Stmt) (db : DB) (hs : ss.all Stmt.colSafe = true)
    (he : execAll rc [] ss = some db) :
    ∃ m, run {} ss = .ok m ∧ colView m = specView db ∧ m.Inv ∧ m.NoPending := by
  obtain ⟨m, hm, hr⟩ := run_rel rc ss {} [] db Rel.empty hs he
  exact ⟨m, hm, hr.view, hr.inv, hr.np⟩

/-- the typed view: table name and, in order, every column's name and type text -/
def typedView (m : Migration) : List (String × List (String × Option String)) :=
  m.tables.map (fun t => (t.name, t.cols.map (fun c => (c.name, c.cur.typ))))
def typedSpec (db : DB) : List (String × List (String × Option String)) :=
  db.map (fun t => (t.name, t.cols.map (fun c => (c.name, some c.typ))))

/-- **C05, names, positions and types.**  … and every column carries exactly the type the reference schema gives it. -/
theorem fidelity_typed (rc : Bool) (ss : List Stmt) (db : DB) (hs : ss.all Stmt.colSafe = true)
    (he : execAll rc [] ss = some db) :
    ∃ m, run {} ss = .ok m ∧ typedView m = typedSpec db := by
  obtain ⟨m, hm, hr⟩ := run_rel rc ss {} [] db Rel.empty hs he
  refine ⟨m, hm, ?_⟩
  unfold typedView typedSpec
  apply List.ext_getElem?
  intro i
  simp only [List.getElem?_map]
  have hv : (colView m)[i]? = (specView db)[i]? := by rw [hr.view]
  simp only [colView, specView, List.getElem?_map] at hv
  cases hmi : m.tables[i]? with
  | none =>
    rw [hmi] at hv
    cases hdi : db[i]? with
    | none => rfl
    | some y => rw [hdi] at hv; cases hv
  | some tm =>
    rw [hmi] at hv
    cases hdi : db[i]? with
    | none => rw [hdi] at hv; cases hv
    | some tb =>
      rw [hdi] at hv
      have hv := Option.some.inj hv
      have hn : tm.name = tb.name := (Prod.mk.inj hv).1
      have hc : tm.colNames = tb.colNames := (Prod.mk.inj hv).2
      have hnd : tb.colNames.Nodup := by
        rw [← hc]; exact (hr.inv.each tm (List.mem_of_getElem? hmi)).cols.nodup
      simp only [Option.map_some]
      rw [hn, typed_cols tm tb hc hnd (hr.types i tm tb hmi hdi)]


/-- **C05, names, positions, types and option kinds.**  Position by position, every loaded column has the reference
    column's name and type, and the same option kinds with the same values (NOT NULL, NULL, AUTO_INCREMENT, UNIQUE,
    DEFAULT v, COMMENT t) up to order; PRIMARY KEY is recorded separately on both sides and not compared here. -/
theorem fidelity_options (rc : Bool) (ss : List Stmt) (db : DB) (hs : ss.all Stmt.colSafe = true)
    (he : execAll rc [] ss = some db) :
    ∃ m, run {} ss = .ok m ∧ typedView m = typedSpec db ∧
      ∀ (i j : Nat) (tm : Table) (tb : TableSpec) (c : Column) (cs : ColSpec), m.tables[i]? = some tm → db[i]? = some tb →
        tm.cols[j]? = some c → tb.cols[j]? = some cs → (Table.optKinds c.cur.opts).Perm cs.opts := by
  obtain ⟨m, hm, hr⟩ := run_rel rc ss {} [] db Rel.empty hs he
  obtain ⟨m', hm', hty⟩ := fidelity_typed rc ss db hs he
  have : m' = m := by rw [hm] at hm'; exact (Except.ok.inj hm').symm
  subst this
  refine ⟨m', hm, hty, ?_⟩
  intro i j tm tb c cs hmi hdi hcj hsj
  obtain ⟨cs', hcs', hn', _, ho'⟩ := hr.types i tm tb hmi hdi c (List.mem_of_getElem? hcj)
  -- `cs'` is the reference column at position `j`: same name there, names unique
  have hv : (colView m')[i]? = (specView db)[i]? := by rw [hr.view]
  simp only [colView, specView, List.getElem?_map, hmi, hdi, Option.map_some] at hv
  have hc : tm.colNames = tb.colNames := (Prod.mk.inj (Option.some.inj hv)).2
  have hnd : tb.colNames.Nodup := by rw [← hc]; exact (hr.inv.each tm (List.mem_of_getElem? hmi)).cols.nodup
  have hcn : c.name = cs.name := by
    have h1 : tm.colNames[j]? = some c.name := by simp [Table.colNames, hcj]
    have h2 : tb.colNames[j]? = some cs.name := by simp [TableSpec.colNames, hsj]
    rw [hc, h2] at h1; exact (Option.some.inj h1).symm
  obtain ⟨k, hk⟩ := List.mem_iff_getElem?.mp hcs'
  have h1 : tb.colNames[k]? = some c.name := by simp [TableSpec.colNames, hk, hn']
  have h2 : tb.colNames[j]? = some c.name := by simp [TableSpec.colNames, hsj, hcn]
  have hkl : k < tb.colNames.length := (List.getElem?_eq_some_iff.mp h1).1
  have hkj : k = j := (List.getElem?_inj hkl hnd).mp (h1.trans h2.symm)
  subst hkj
  rw [hk] at hsj
  rw [← Option.some.inj hsj]; exact ho'

end ReaderMysql
end Sqlize
