/-
  Proofs/FidelityMain.lean — the commuting squares assembled: `ReaderMysql.run` simulates the reference engine on the
  (table, column names) view, for scripts of any length.
-/
import SqlizeModel.Proofs.FidelitySteps

namespace Sqlize
open Spec

/-- statements covered: everything but RENAME COLUMN / RENAME INDEX / COMMENT ON, with a non-empty table name -/
def Stmt.colSafe : Stmt → Bool
  | .renameColumn .. => false
  | .renameIndex .. => false
  | .commentOn .. => false
  | s => s.table != ""

namespace ReaderMysql

theorem step_rel (rc : Bool) {m : Migration} {db db' : DB} (h : Rel m db) (s : Stmt) (hs : s.colSafe = true)
    (he : exec rc db s = some db') : ∃ m', step m s = .ok m' ∧ Rel m' db' := by
  cases s with
  | createTable t ident cols pk =>
    have ht : t ≠ "" := by simpa [Stmt.colSafe, Stmt.table] using hs
    simp only [exec] at he
    split at he
    · cases he
    · rename_i hc1
      split at he
      · cases he
      · rename_i hc2
        split at he
        · cases he
        · split at he
          · cases he
          · have key : ∃ pk', db' = db ++ [{ name := t, cols := cols.map (fun c => (colOf c).1), pk := pk' }] := by
              split at he
              · split at he
                · cases he
                · exact ⟨_, by simpa [List.map_map, Function.comp_def] using (Option.some.inj he).symm⟩
              · split at he
                · cases he
                · exact ⟨_, by simpa [List.map_map, Function.comp_def] using (Option.some.inj he).symm⟩
            obtain ⟨pk', hdb⟩ := key
            subst hdb
            have hnew : db.has t = false := by
              simp only [Bool.or_eq_true, not_or] at hc1
              simpa using hc1.1
            have hnd : (cols.map (·.name)).Nodup := by
              have : allNodup ((cols.map colOf).map (·.1.name)) = true := by simpa using hc2
              have hn : (cols.map colOf).map (·.1.name) = cols.map (·.name) := by
                simp [List.map_map, Function.comp_def, colOf]
              rw [hn] at this
              exact (allNodup_iff _).mp this
            exact step_createTable h t ht ident cols pk pk' hnew hnd
  | dropTable t =>
    simp only [exec] at he
    split at he
    · cases he
    · rename_i hc1
      split at he
      · cases he
      · have := Option.some.inj he; subst this
        exact step_dropTable h t (by simpa using hc1)
  | addColumn t c pos =>
    have ht : t ≠ "" := by simpa [Stmt.colSafe, Stmt.table] using hs
    simp only [exec] at he
    obtain ⟨tb, hf, he⟩ := exec_find he
    split at he
    · cases he
    · rename_i hc1
      split at he
      · cases he
      · have hfresh : tb.hasCol c.name = false := by simpa using hc1
        have hcn : (colOf c).1.name = c.name := rfl
        cases pos with
        | none =>
          simp only at he
          have := Option.some.inj he; subst this
          exact step_addColumn_none h t ht c hf hfresh rfl (by
            show (tb.cols ++ [(colOf c).1]).map (·.name) = _
            rw [List.map_append, List.map_singleton, hcn]; rfl)
        | first =>
          simp only at he
          have := Option.some.inj he; subst this
          exact step_addColumn_first h t ht c hf hfresh rfl (by
            show ((colOf c).1 :: tb.cols).map (·.name) = _
            rw [List.map_cons, hcn]; rfl)
        | after p =>
          simp only at he
          cases hia : insertAfter p (colOf c).1 tb.cols with
          | none => rw [hia] at he; cases he
          | some cols' =>
            rw [hia] at he
            simp only at he
            have := Option.some.inj he; subst this
            obtain ⟨i, hi, hn⟩ := insertAfter_names p (colOf c).1 tb.cols cols' hia
            exact step_addColumn_after h t ht c p hf hfresh rfl i hi (by
              show cols'.map (·.name) = _
              rw [hn, hcn]; rfl)
  | dropColumn t c =>
    have ht : t ≠ "" := by simpa [Stmt.colSafe, Stmt.table] using hs
    simp only [exec] at he
    obtain ⟨tb, hf, he⟩ := exec_find he
    split at he
    · cases he
    · rename_i hc1
      split at he
      · cases he
      · let tbD : TableSpec :=
          { tb with
            cols := tb.cols.filter (·.name != c),
            idxs := (tb.idxs.map (fun i => { i with cols := i.cols.filter (· != c) })).filter (!·.cols.isEmpty),
            fks := tb.fks.filter (·.col != c),
            pk := tb.pk.filter (· != c) }
        have hdb : db' = db.replace tbD := (Option.some.inj he).symm
        subst hdb
        have hcol : tb.hasCol c = true := by simpa using hc1
        obtain ⟨m1, h1, hr⟩ := step_dropColumn h t c ht hf hcol (tb' := tbD) rfl (by
          show (tb.cols.filter (fun x => x.name != c)).map (·.name) = (tb.cols.map (·.name)).filter (· != c)
          rw [List.filter_map]; rfl)
        refine ⟨m1.using_ t, ?_, hr⟩
        unfold step
        simp only [h1, bind, Except.bind, pure, Except.pure]
  | modifyColumn t c =>
    have ht : t ≠ "" := by simpa [Stmt.colSafe, Stmt.table] using hs
    simp only [exec] at he
    obtain ⟨tb, hf, he⟩ := exec_find he
    split at he
    · cases he
    · rename_i hc1
      split at he
      · cases he
      · let tbM : TableSpec :=
          { tb with
            cols := tb.cols.map (fun x => if x.name == c.name then (colOf c).1 else x),
            pk := if (colOf c).2 then [c.name] else tb.pk }
        have hdb : db' = db.replace tbM := (Option.some.inj he).symm
        subst hdb
        have hcol : tb.hasCol c.name = true := by simpa using hc1
        obtain ⟨m', h1, hr⟩ := step_modifyColumn h t ht c hf hcol
        refine ⟨m', h1, ?_⟩
        -- the reference table keeps its column names: same view
        obtain ⟨id, _, _, _, hd, _, _, _⟩ := h.lookup hf
        refine ⟨hr.inv, hr.np, hr.fresh, ?_⟩
        rw [hr.view, replace_eq_set db h.nodup id tb tbM hd rfl]
        unfold specView
        rw [List.map_set]
        have hcolsame : tbM.colNames = tb.colNames := by
          show (tb.cols.map (fun x => if x.name == c.name then (colOf c).1 else x)).map (·.name) = tb.cols.map (·.name)
          rw [List.map_map]
          apply List.map_congr_left
          intro x _
          simp only [Function.comp_apply]
          split
          · rename_i hx
            have : x.name = c.name := by simpa using hx
            show (colOf c).1.name = x.name
            rw [this]; rfl
          · rfl
        have hget : ((db.map (fun t => (t.name, t.colNames)))[id]?) = some (tb.name, tb.colNames) := by simp [hd]
        obtain ⟨hi', he'⟩ := List.getElem?_eq_some_iff.mp hget
        rw [hcolsame]
        show _ = (db.map (fun t => (t.name, t.colNames))).set id (tb.name, tb.colNames)
        rw [← he']
        exact (List.set_getElem_self hi').symm
  | renameColumn t o n => simp [Stmt.colSafe] at hs
  | addPrimaryKey t cols =>
    have ht : t ≠ "" := by simpa [Stmt.colSafe, Stmt.table] using hs
    simp only [exec] at he
    obtain ⟨tb, hf, he⟩ := exec_find he
    split at he
    · cases he
    · have := Option.some.inj he; subst this
      obtain ⟨m1, h1, hr⟩ := step_addIndex h t ht (pkIndex cols) hf (tb' := { tb with pk := cols }) rfl rfl
      exact ⟨m1.using_ t, by unfold step; simp only [h1, bind, Except.bind, pure, Except.pure], hr⟩
  | dropPrimaryKey t =>
    have ht : t ≠ "" := by simpa [Stmt.colSafe, Stmt.table] using hs
    simp only [exec] at he
    obtain ⟨tb, hf, he⟩ := exec_find he
    split at he
    · cases he
    · have := Option.some.inj he; subst this
      obtain ⟨m1, h1, hr⟩ := step_removeIndex h t ht "primary_key" hf (tb' := { tb with pk := [] }) rfl rfl
      exact ⟨m1.using_ t, by unfold step; simp only [h1, bind, Except.bind, pure, Except.pure], hr⟩
  | addFk t name col rt rc' =>
    have ht : t ≠ "" := by simpa [Stmt.colSafe, Stmt.table] using hs
    simp only [exec] at he
    obtain ⟨tb, hf, he⟩ := exec_find he
    split at he
    · cases he
    · split at he
      · cases he
      · have := Option.some.inj he; subst this
        obtain ⟨m1, h1, hr⟩ := step_addForeignKey h t ht
          { name := name, action := .add, table := t, column := col, refTable := rt, refColumn := rc' } hf
          (tb' := { tb with fks := tb.fks ++ [{ name := name, col := col, refT := rt, refC := rc' }] }) rfl rfl
        exact ⟨(m1.using_ t).using_ rt, by unfold step; simp only [h1, bind, Except.bind, pure, Except.pure],
          (hr.using_ t).using_ rt⟩
  | dropFk t name =>
    have ht : t ≠ "" := by simpa [Stmt.colSafe, Stmt.table] using hs
    simp only [exec] at he
    obtain ⟨tb, hf, he⟩ := exec_find he
    split at he
    · cases he
    · have := Option.some.inj he; subst this
      obtain ⟨m1, h1, hr⟩ := step_removeForeignKey h t ht name hf
        (tb' := { tb with fks := tb.fks.filter (·.name != name) }) rfl rfl
      exact ⟨m1.using_ t, by unfold step; simp only [h1, bind, Except.bind, pure, Except.pure], hr⟩
  | renameIndex t o n => simp [Stmt.colSafe] at hs
  | createIndex t name cols uniq u =>
    have ht : t ≠ "" := by simpa [Stmt.colSafe, Stmt.table] using hs
    simp only [exec] at he
    obtain ⟨tb, hf, he⟩ := exec_find he
    split at he
    · cases he
    · have := Option.some.inj he; subst this
      obtain ⟨m1, h1, hr⟩ := step_addIndex h t ht
        { name := name, action := .add, typ := if uniq then .unique else .none, indexType := u, cols := cols } hf
        (tb' := { tb with idxs := tb.idxs ++ [{ name := name, cols := cols, unique := uniq, itype := if u == "" then "BTREE" else u }] }) rfl rfl
      exact ⟨m1.using_ t, by unfold step; simp only [h1, bind, Except.bind, pure, Except.pure], hr⟩
  | dropIndex t name =>
    have ht : t ≠ "" := by simpa [Stmt.colSafe, Stmt.table] using hs
    simp only [exec] at he
    obtain ⟨tb, hf, he⟩ := exec_find he
    split at he
    · cases he
    · have := Option.some.inj he; subst this
      obtain ⟨m1, h1, hr⟩ := step_removeIndex h t ht name hf
        (tb' := { tb with idxs := tb.idxs.filter (·.name != name) }) rfl rfl
      exact ⟨m1.using_ t, by unfold step; simp only [h1, bind, Except.bind, pure, Except.pure], hr⟩
  | commentOn t c text => simp [Stmt.colSafe] at hs


theorem run_rel (rc : Bool) (ss : List Stmt) : ∀ (m : Migration) (db db' : DB), Rel m db →
    ss.all Stmt.colSafe = true → execAll rc db ss = some db' → ∃ m', run m ss = .ok m' ∧ Rel m' db' := by
  induction ss with
  | nil =>
    intro m db db' h _ he
    unfold execAll at he
    have := Option.some.inj he; subst this
    exact ⟨m, rfl, h⟩
  | cons s rest ih =>
    intro m db db' h hs he
    simp only [List.all_cons, Bool.and_eq_true] at hs
    unfold execAll at he
    cases h1 : exec rc db s with
    | none => rw [h1] at he; cases he
    | some db1 =>
      rw [h1] at he
      obtain ⟨m1, hm1, hr1⟩ := step_rel rc h s hs.1 h1
      obtain ⟨m', hm', hr'⟩ := ih m1 db1 db' hr1 hs.2 he
      refine ⟨m', ?_, hr'⟩
      unfold run
      simp only [hm1, bind, Except.bind]
      exact hm'

/-- **C05, names and positions.**  For every script (any length) over the vocabulary without RENAME COLUMN / RENAME
    INDEX that the reference engine accepts from the empty schema, the MySQL reader model loads it without error, and
    the loaded model has exactly the reference schema's tables, in the same order, each with exactly the reference
    schema's column names in the same order.  It also satisfies the map invariant and has no pending position. -/
theorem fidelity (rc : Bool) (ss : List Stmt) (db : DB) (hs : ss.all Stmt.colSafe = true)
    (he : execAll rc [] ss = some db) :
    ∃ m, run {} ss = .ok m ∧ colView m = specView db ∧ m.Inv ∧ m.NoPending := by
  obtain ⟨m, hm, hr⟩ := run_rel rc ss {} [] db Rel.empty hs he
  exact ⟨m, hm, hr.view, hr.inv, hr.np⟩

end ReaderMysql
end Sqlize
