/-
  Proofs/SpecWF.lean — a reachability fact of the reference engine: in every schema it reaches (vocabulary without RENAME
  COLUMN / RENAME INDEX / COMMENT ON), every index of a table is non-empty and names columns of that table only.
-/
import SqlizeModel.Proofs.FidelityMain

namespace Sqlize.Spec

def TableSpec.WF (tb : TableSpec) : Prop := ∀ i ∈ tb.idxs, i.cols ≠ [] ∧ ∀ c ∈ i.cols, c ∈ tb.colNames

def DB.WF (db : DB) : Prop := ∀ tb ∈ db, tb.WF

theorem mem_replace {db : DB} {tb' x : TableSpec} (h : x ∈ db.replace tb') : x = tb' ∨ x ∈ db := by
  unfold DB.replace at h
  obtain ⟨y, hy, he⟩ := List.mem_map.mp h
  split at he
  · exact Or.inl he.symm
  · exact Or.inr (he ▸ hy)

theorem wf_replace {db : DB} {tb' : TableSpec} (h : db.WF) (h' : tb'.WF) : (db.replace tb').WF := by
  intro x hx
  rcases mem_replace hx with rfl | hx'
  · exact h'
  · exact h x hx'

theorem mem_of_find {db : DB} {t : String} {tb : TableSpec} (h : db.find t = some tb) : tb ∈ db :=
  List.mem_of_find?_eq_some h

/-- a table whose column names only grow (or stay) and whose indexes stay is still well-formed -/
theorem wf_of_cols_superset {tb tb' : TableSpec} (h : tb.WF) (hi : tb'.idxs = tb.idxs)
    (hc : ∀ c ∈ tb.colNames, c ∈ tb'.colNames) : tb'.WF := by
  intro i hi'
  rw [hi] at hi'
  exact ⟨(h i hi').1, fun c hcm => hc c ((h i hi').2 c hcm)⟩

theorem insertAfter_superset (p : String) (cs : ColSpec) : ∀ (l l' : List ColSpec), insertAfter p cs l = some l' →
    ∀ x ∈ l, x ∈ l' := by
  intro l
  induction l with
  | nil => intro l' h; simp [insertAfter] at h
  | cons a r ih =>
    intro l' h x hx
    unfold insertAfter at h
    split at h
    · have := Option.some.inj h; subst this
      rcases List.mem_cons.mp hx with rfl | hx'
      · simp
      · simp [hx']
    · cases hr : insertAfter p cs r with
      | none => rw [hr] at h; cases h
      | some r' =>
        rw [hr] at h
        have := Option.some.inj h; subst this
        rcases List.mem_cons.mp hx with rfl | hx'
        · simp
        · exact List.mem_cons_of_mem _ (ih r' hr x hx')

theorem exec_wf (rc : Bool) {db db' : DB} (s : Stmt) (hs : s.colSafe = true) (h : db.WF)
    (he : exec rc db s = some db') : db'.WF := by
  cases s with
  | createTable t ident cols pk =>
    simp only [exec] at he
    split at he
    · cases he
    · split at he
      · cases he
      · split at he
        · cases he
        · split at he
          · cases he
          · have key : ∃ pk', db' = db ++ [{ name := t, cols := cols.map (fun c => (colOf c).1), pk := pk' }] := by
              split at he
              · split at he
                · cases he
                · exact ⟨_, by simpa [List.map_map, Function.comp_def] using (Option.some.inj he).symm⟩
              · split at he
                · cases he
                · exact ⟨_, by simpa [List.map_map, Function.comp_def] using (Option.some.inj he).symm⟩
            obtain ⟨pk', hdb⟩ := key
            subst hdb
            intro x hx
            rcases List.mem_append.mp hx with hx' | hx'
            · exact h x hx'
            · have : x = _ := List.mem_singleton.mp hx'
              subst this
              intro i hi
              cases hi
  | dropTable t =>
    simp only [exec] at he
    split at he
    · cases he
    · split at he
      · cases he
      · have := Option.some.inj he; subst this
        exact fun x hx => h x (List.mem_filter.mp hx).1
  | addColumn t c pos =>
    simp only [exec] at he
    obtain ⟨tb, hf, he⟩ := exec_find he
    have htb := h tb (mem_of_find hf)
    split at he
    · cases he
    · split at he
      · cases he
      · cases pos with
        | none =>
          simp only at he
          have := Option.some.inj he; subst this
          refine wf_replace h (wf_of_cols_superset htb rfl ?_)
          intro x hx
          show x ∈ (tb.cols ++ [(colOf c).1]).map (·.name)
          rw [List.map_append]
          exact List.mem_append_left _ hx
        | first =>
          simp only at he
          have := Option.some.inj he; subst this
          refine wf_replace h (wf_of_cols_superset htb rfl ?_)
          intro x hx
          show x ∈ ((colOf c).1 :: tb.cols).map (·.name)
          rw [List.map_cons]
          exact List.mem_cons_of_mem _ hx
        | after p =>
          simp only at he
          cases hia : insertAfter p (colOf c).1 tb.cols with
          | none => rw [hia] at he; cases he
          | some cols' =>
            rw [hia] at he
            simp only at he
            have := Option.some.inj he; subst this
            refine wf_replace h (wf_of_cols_superset htb rfl ?_)
            intro x hx
            obtain ⟨y, hy, rfl⟩ := List.mem_map.mp hx
            exact List.mem_map_of_mem (insertAfter_superset p _ tb.cols cols' hia y hy)
  | dropColumn t c =>
    simp only [exec] at he
    obtain ⟨tb, hf, he⟩ := exec_find he
    have htb := h tb (mem_of_find hf)
    split at he
    · cases he
    · split at he
      · cases he
      · have := Option.some.inj he; subst this
        refine wf_replace h ?_
        intro i hi
        have hi : i ∈ (tb.idxs.map (fun i => { i with cols := i.cols.filter (· != c) })).filter (!·.cols.isEmpty) := hi
        obtain ⟨hi1, hi2⟩ := List.mem_filter.mp hi
        obtain ⟨i0, hi0, rfl⟩ := List.mem_map.mp hi1
        refine ⟨(by intro hc; simp only at hc; rw [hc] at hi2; exact Bool.noConfusion hi2), ?_⟩
        intro x hx
        have hx : x ∈ i0.cols.filter (· != c) := hx
        obtain ⟨hx1, hx2⟩ := List.mem_filter.mp hx
        have hxc := (htb i0 hi0).2 x hx1
        show x ∈ (tb.cols.filter (·.name != c)).map (·.name)
        obtain ⟨y, hy, rfl⟩ := List.mem_map.mp hxc
        exact List.mem_map_of_mem (List.mem_filter.mpr ⟨hy, hx2⟩)
  | modifyColumn t c =>
    simp only [exec] at he
    obtain ⟨tb, hf, he⟩ := exec_find he
    have htb := h tb (mem_of_find hf)
    split at he
    · cases he
    · split at he
      · cases he
      · have := Option.some.inj he; subst this
        refine wf_replace h (wf_of_cols_superset htb rfl ?_)
        intro x hx
        obtain ⟨y, hy, rfl⟩ := List.mem_map.mp hx
        show y.name ∈ (tb.cols.map (fun x => if x.name == c.name then (colOf c).1 else x)).map (·.name)
        rw [List.map_map]
        refine List.mem_map.mpr ⟨y, hy, ?_⟩
        simp only [Function.comp]
        split
        · rename_i hn
          have : y.name = c.name := by simpa using hn
          rw [this]; rfl
        · rfl
  | renameColumn t o n => simp [Stmt.colSafe] at hs
  | addPrimaryKey t cols =>
    simp only [exec] at he
    obtain ⟨tb, hf, he⟩ := exec_find he
    split at he
    · cases he
    · have := Option.some.inj he; subst this
      exact wf_replace h (wf_of_cols_superset (h tb (mem_of_find hf)) rfl (fun x hx => hx))
  | dropPrimaryKey t =>
    simp only [exec] at he
    obtain ⟨tb, hf, he⟩ := exec_find he
    split at he
    · cases he
    · have := Option.some.inj he; subst this
      exact wf_replace h (wf_of_cols_superset (h tb (mem_of_find hf)) rfl (fun x hx => hx))
  | addFk t name col rt rc' =>
    simp only [exec] at he
    obtain ⟨tb, hf, he⟩ := exec_find he
    split at he
    · cases he
    · split at he
      · cases he
      · have := Option.some.inj he; subst this
        exact wf_replace h (wf_of_cols_superset (h tb (mem_of_find hf)) rfl (fun x hx => hx))
  | dropFk t name =>
    simp only [exec] at he
    obtain ⟨tb, hf, he⟩ := exec_find he
    split at he
    · cases he
    · have := Option.some.inj he; subst this
      exact wf_replace h (wf_of_cols_superset (h tb (mem_of_find hf)) rfl (fun x hx => hx))
  | renameIndex t o n => simp [Stmt.colSafe] at hs
  | createIndex t name cols uniq u =>
    simp only [exec] at he
    obtain ⟨tb, hf, he⟩ := exec_find he
    have htb := h tb (mem_of_find hf)
    split at he
    · cases he
    · rename_i hc1
      have := Option.some.inj he; subst this
      simp only [Bool.or_eq_true, not_or] at hc1
      refine wf_replace h ?_
      intro i hi
      have hi : i ∈ tb.idxs ++ [_] := hi
      rcases List.mem_append.mp hi with hi' | hi'
      · exact htb i hi'
      · have : i = _ := List.mem_singleton.mp hi'
        subst this
        refine ⟨?_, ?_⟩
        · intro hc
          apply hc1.1.2
          simp only at hc
          simp [hc]
        · intro x hx
          have hall : cols.all tb.hasCol = true := by simpa using hc1.2
          have := List.all_eq_true.mp hall x hx
          exact (ReaderMysql.hasCol_iff tb x).mp this
  | dropIndex t name =>
    simp only [exec] at he
    obtain ⟨tb, hf, he⟩ := exec_find he
    have htb := h tb (mem_of_find hf)
    split at he
    · cases he
    · have := Option.some.inj he; subst this
      refine wf_replace h ?_
      intro i hi
      have hi : i ∈ tb.idxs.filter (·.name != name) := hi
      exact htb i (List.mem_filter.mp hi).1
  | commentOn t c text => simp [Stmt.colSafe] at hs
  | alterType t c typ => simp [Stmt.colSafe] at hs
  | setDefault t c d => simp [Stmt.colSafe] at hs
  | dropNotNull t c => simp [Stmt.colSafe] at hs

theorem execAll_wf (rc : Bool) (ss : List Stmt) : ∀ (db db' : DB), ss.all Stmt.colSafe = true → db.WF →
    execAll rc db ss = some db' → db'.WF := by
  induction ss with
  | nil => intro db db' _ h he; unfold execAll at he; exact (Option.some.inj he) ▸ h
  | cons s rest ih =>
    intro db db' hs h he
    simp only [List.all_cons, Bool.and_eq_true] at hs
    unfold execAll at he
    cases h1 : exec rc db s with
    | none => rw [h1] at he; cases he
    | some db1 =>
      rw [h1] at he
      exact ih db1 db' hs.2 (exec_wf rc s hs.1 h h1) he

theorem wf_empty : DB.WF [] := by intro tb h; cases h

end Sqlize.Spec
