/-
  Proofs/SpecUnchanged.lean — "unchanged tables are never targeted" (second clause of C03) from "every statement is
  justified by a difference" (second clause of C01 / C02): on the reference engine, a statement about a table that is
  `TableSpec.equiv` on the two sides is never justified.
-/
import SqlizeModel.Proofs.SpecSchemaDown
import SqlizeModel.Spec.Props

namespace Sqlize
open Spec

theorem permEq_symm {α : Type} [DecidableEq α] (a b : List α) (h : permEq a b = true) : permEq b a = true :=
  perm_permEq b a (permEq_perm a b h).symm

theorem ColSpec.equiv_symm (a b : ColSpec) (h : a.equiv b = true) : b.equiv a = true := by
  unfold ColSpec.equiv at h ⊢
  simp only [Bool.and_eq_true, beq_iff_eq] at h ⊢
  exact ⟨⟨h.1.1.symm, h.1.2.symm⟩, permEq_symm _ _ h.2⟩

theorem colsEquiv_symm : ∀ (a b : List ColSpec), colsEquiv a b = true → colsEquiv b a = true := by
  intro a
  induction a with
  | nil => intro b h; cases b with
    | nil => rfl
    | cons _ _ => simp [colsEquiv] at h
  | cons x r ih =>
    intro b h
    cases b with
    | nil => simp [colsEquiv] at h
    | cons y r' =>
      simp only [colsEquiv, Bool.and_eq_true] at h ⊢
      exact ⟨ColSpec.equiv_symm x y h.1, ih r' h.2⟩

theorem TableSpec.equiv_symm (a b : TableSpec) (h : a.equiv b = true) : b.equiv a = true := by
  unfold TableSpec.equiv at h ⊢
  simp only [Bool.and_eq_true, beq_iff_eq] at h ⊢
  obtain ⟨⟨⟨⟨h1, h2⟩, h3⟩, h4⟩, h5⟩ := h
  exact ⟨⟨⟨⟨h1.symm, colsEquiv_symm _ _ h2⟩, h3.symm⟩, permEq_symm _ _ h4⟩, permEq_symm _ _ h5⟩

/-- equivalent column lists answer a lookup by name alike -/
theorem colsEquiv_find : ∀ (a b : List ColSpec), colsEquiv a b = true → ∀ n,
    optColEquiv (a.find? (·.name == n)) (b.find? (·.name == n)) = true := by
  intro a
  induction a with
  | nil => intro b h n; cases b with
    | nil => rfl
    | cons _ _ => simp [colsEquiv] at h
  | cons x r ih =>
    intro b h n
    cases b with
    | nil => simp [colsEquiv] at h
    | cons y r' =>
      simp only [colsEquiv, Bool.and_eq_true] at h
      have hxy : x.name = y.name := by
        have := h.1; unfold ColSpec.equiv at this
        simp only [Bool.and_eq_true, beq_iff_eq] at this
        exact this.1.1
      rw [List.find?_cons, List.find?_cons, ← hxy]
      cases hx : (x.name == n) with
      | true => exact h.1
      | false => exact ih r' h.2 n

theorem optColEquiv_isSome (x y : Option ColSpec) (h : optColEquiv x y = true) : x.isSome = y.isSome := by
  cases x <;> cases y <;> simp_all [optColEquiv]

/-- lists equal up to order, with unique names, answer a lookup by name alike -/
theorem find_perm_nodup {α : Type} (f : α → String) {l l' : List α} (hp : l.Perm l') (hnd : (l.map f).Nodup) (n : String) :
    l.find? (fun y => f y == n) = l'.find? (fun y => f y == n) := by
  have hnd' : (l'.map f).Nodup := (hp.map f).nodup_iff.mp hnd
  cases h : l.find? (fun y => f y == n) with
  | some x =>
    have hx : x ∈ l := List.mem_of_find?_eq_some h
    have hxn : f x = n := by simpa using List.find?_some h
    have := find?_of_mem_nodup f l' x hnd' (hp.mem_iff.mp hx)
    rw [hxn] at this
    exact this.symm
  | none =>
    symm
    apply List.find?_eq_none.mpr
    intro x hx hxn
    exact List.find?_eq_none.mp h x (hp.mem_iff.mpr hx) hxn

/-- **a statement about a table that is equivalent on both sides is not justified by any difference** -/
theorem not_justified_of_equiv (a b : DB) (t : String) (ta tb : TableSpec) (ha : a.find t = some ta) (hb : b.find t = some tb)
    (he : ta.equiv tb = true) (hia : (ta.idxs.map (·.name)).Nodup) (hfa : (ta.fks.map (·.name)).Nodup)
    (s : Stmt) (hs : s.table = t) : justified a b s = false := by
  unfold TableSpec.equiv at he
  simp only [Bool.and_eq_true, beq_iff_eq] at he
  obtain ⟨⟨⟨⟨_, hcols⟩, hpk⟩, hidx⟩, hfk⟩ := he
  have hahas : a.has t = true := (has_iff a t).mpr (by rw [← find_name a t ta ha]; exact List.mem_map_of_mem (mem_of_find ha))
  have hbhas : b.has t = true := (has_iff b t).mpr (by rw [← find_name b t tb hb]; exact List.mem_map_of_mem (mem_of_find hb))
  have hcol : ∀ n, optColEquiv (a.col t n) (b.col t n) = true := by
    intro n
    unfold DB.col
    rw [ha, hb]
    exact colsEquiv_find _ _ hcols n
  have hsome : ∀ n, (a.col t n).isSome = (b.col t n).isSome := fun n => optColEquiv_isSome _ _ (hcol n)
  have hpk' : a.pk t = b.pk t := by simp [DB.pk, ha, hb, hpk]
  have hidx' : ∀ n, a.idx t n = b.idx t n := by
    intro n
    unfold DB.idx
    rw [ha, hb]
    exact find_perm_nodup (fun i : IdxSpec => i.name) (permEq_perm _ _ hidx) hia n
  have hfk' : ∀ n, a.fk t n = b.fk t n := by
    intro n
    unfold DB.fk
    rw [ha, hb]
    exact find_perm_nodup (fun i : FkSpec => i.name) (permEq_perm _ _ hfk) hfa n
  have hcolcases : ∀ n, (a.col t n = none ∧ b.col t n = none) ∨ (∃ x y, a.col t n = some x ∧ b.col t n = some y) := by
    intro n
    have := hsome n
    cases h1 : a.col t n <;> cases h2 : b.col t n <;> simp_all
  cases s <;> simp only [Stmt.table] at hs <;> subst hs <;> simp only [justified]
  · rw [hahas]; rfl
  · rw [hbhas]; simp
  · rename_i c _
    rcases hcolcases c.name with ⟨h1, h2⟩ | ⟨x, y, h1, h2⟩ <;> simp [h1, h2]
  · rename_i c
    rcases hcolcases c with ⟨h1, h2⟩ | ⟨x, y, h1, h2⟩ <;> simp [h1, h2]
  · rename_i c
    rw [hcol c.name, hpk']; simp
  · rename_i o n
    rcases hcolcases o with ⟨h1, h2⟩ | ⟨x, y, h1, h2⟩ <;> simp [h1, h2]
  · rw [hpk']; simp
  · rw [hpk']; simp
  · rename_i n _ _ _
    rw [hfk' n]; simp
  · rename_i n
    rw [hfk' n]; simp
  · rename_i o n
    rw [hidx' o]
    cases b.idx _ o <;> simp
  · rename_i n _ _ _
    rw [hidx' n]; simp
  · rename_i n
    rw [hidx' n]; simp
  · rename_i c _
    rw [hcol c]; rfl
  · rename_i c _
    rw [hcol c]; rfl
  · rename_i c _
    rw [hcol c]; rfl
  · rename_i c
    rw [hcol c]; rfl

/-- a duplicate-free list inside a duplicate-free list that is no longer: the two have the same members -/
theorem mem_of_subset_length : ∀ (l₁ l₂ : List String), l₁.Nodup → l₂.Nodup → (∀ x ∈ l₁, x ∈ l₂) → l₂.length ≤ l₁.length →
    ∀ x ∈ l₂, x ∈ l₁ := by
  intro l₁
  induction l₁ with
  | nil =>
    intro l₂ _ _ _ hlen x hx
    have : l₂ = [] := List.length_eq_zero_iff.mp (Nat.le_zero.mp hlen)
    rw [this] at hx; cases hx
  | cons a r ih =>
    intro l₂ h1 h2 hsub hlen x hx
    rw [List.nodup_cons] at h1
    have ha : a ∈ l₂ := hsub a (by simp)
    have hsub' : ∀ y ∈ r, y ∈ l₂.erase a := by
      intro y hy
      have hya : y ≠ a := fun e => h1.1 (e ▸ hy)
      exact (List.mem_erase_of_ne hya).mpr (hsub y (List.mem_cons_of_mem _ hy))
    have hlen' : (l₂.erase a).length ≤ r.length := by
      rw [List.length_erase_of_mem ha]
      simp only [List.length_cons] at hlen
      omega
    by_cases hxa : x = a
    · rw [hxa]; simp
    · have := ih (l₂.erase a) h1.2 (h2.sublist List.erase_sublist) hsub' hlen' x ((List.mem_erase_of_ne hxa).mpr hx)
      exact List.mem_cons_of_mem _ this

theorem colsEquiv_mem : ∀ (a b : List ColSpec), colsEquiv a b = true →
    ∀ c ∈ b, ∃ c' ∈ a, c'.name = c.name ∧ c'.typ = c.typ ∧ c'.opts.Perm c.opts := by
  intro a
  induction a with
  | nil => intro b h c hc; cases b with
    | nil => cases hc
    | cons _ _ => simp [colsEquiv] at h
  | cons x r ih =>
    intro b h c hc
    cases b with
    | nil => cases hc
    | cons y r' =>
      simp only [colsEquiv, Bool.and_eq_true] at h
      rcases List.mem_cons.mp hc with rfl | hc'
      · have := h.1
        unfold ColSpec.equiv at this
        simp only [Bool.and_eq_true, beq_iff_eq] at this
        exact ⟨x, by simp, this.1.1, this.1.2, permEq_perm _ _ this.2⟩
      · obtain ⟨c', hc'', hp⟩ := ih r' h.2 c hc'
        exact ⟨c', List.mem_cons_of_mem _ hc'', hp⟩

theorem tblEquiv_of_equiv (a b : TableSpec) (h : a.equiv b = true) : TblEquiv a b := by
  unfold TableSpec.equiv at h
  simp only [Bool.and_eq_true, beq_iff_eq] at h
  obtain ⟨⟨⟨⟨_, hcols⟩, hpk⟩, hidx⟩, hfk⟩ := h
  refine ⟨colsEquiv_mem _ _ hcols, ?_, permEq_perm _ _ hidx, hpk, ?_⟩
  · intro c' hc'
    show c'.name ∈ b.cols.map (·.name)
    rw [← colsEquiv_names _ _ hcols]
    exact List.mem_map_of_mem hc'
  · intro n
    exact ((permEq_perm _ _ hfk).map (·.name)).mem_iff

/-- the executable equivalence of two schemas with unique table names gives the relational one -/
theorem dbEquiv_of_equiv (A B : DB) (hA : (A.map (·.name)).Nodup) (hB : (B.map (·.name)).Nodup) (h : A.equiv B = true) :
    DBEquiv A B := by
  unfold DB.equiv DB.equivBy at h
  simp only [Bool.and_eq_true, beq_iff_eq] at h
  obtain ⟨hlen, hall⟩ := h
  have hfind : ∀ ta ∈ A, ∃ u, B.find ta.name = some u ∧ ta.equiv u = true := by
    intro ta hta
    have := List.all_eq_true.mp hall ta hta
    cases hf : B.find ta.name with
    | none => rw [hf] at this; cases this
    | some u => rw [hf] at this; exact ⟨u, rfl, this⟩
  have hback : ∀ ta ∈ A, ta.name ∈ B.map (·.name) := by
    intro ta hta
    obtain ⟨u, hu, _⟩ := hfind ta hta
    rw [← find_name B _ _ hu]; exact List.mem_map_of_mem (mem_of_find hu)
  refine ⟨?_, hback⟩
  intro tb htb
  have hin : tb.name ∈ A.map (·.name) :=
    mem_of_subset_length (A.map (·.name)) (B.map (·.name)) hA hB
      (by intro x hx; obtain ⟨ta, hta, rfl⟩ := List.mem_map.mp hx; exact hback ta hta)
      (by simp [hlen]) tb.name (List.mem_map_of_mem htb)
  obtain ⟨ta, hta, hn⟩ := List.mem_map.mp hin
  obtain ⟨u, hu, heq⟩ := hfind ta hta
  have : u = tb := eq_of_name_nodup (fun x : TableSpec => x.name) hB (mem_of_find hu) htb
    ((find_name B _ _ hu).trans hn)
  subst this
  exact ⟨ta, hta, hn, tblEquiv_of_equiv ta u heq⟩

/-- **C03 for a whole schema, on the reference engine**: under the hypotheses of the two whole-schema theorems
    (`schema_spec_up`, `schema_spec_down`) the executable predicate `Spec.c03` holds of the two printed migrations —
    equal schemas give two empty migrations, and otherwise no statement of either migration targets a table that is
    equal on both sides. -/
theorem schema_c03 (g : Globals) (hg : g.dialect = .mysql) (hio : g.ignoreOrder = false) (rc : Bool)
    (old new : List Stmt) (dbO dbN : DB) (ho : old.all Stmt.elemSafe = true) (hn : new.all Stmt.elemSafe = true)
    (hpo : old.all Stmt.plainOpts = true) (hpn : new.all Stmt.plainOpts = true)
    (heo : execAll rc [] old = some dbO) (hen : execAll rc [] new = some dbN)
    (hdef : ∀ tb ∈ dbO ++ dbN, tb.name ≠ Migration.defaultMigrationTable)
    (hboth : ∀ tbO ∈ dbO, ∀ tbN ∈ dbN, tbO.name = tbN.name →
      Abs.OrderCompatible tbN.colNames tbO.colNames ∧ (∀ n ∈ tbN.colNames ++ tbO.colNames, n ≠ "") ∧ tbO.pk = tbN.pk ∧
      (∀ dc : List String, (∀ c ∈ dc, c ∉ tbN.colNames) →
        ∀ s ∈ tbN.idxs, ∀ o ∈ tbO.idxs, o.name = s.name → o ≠ s → ∃ c ∈ o.cols, c ∉ dc) ∧
      (∀ dc : List String, (∀ c ∈ dc, c ∉ tbO.colNames) →
        ∀ s ∈ tbN.idxs, ∀ o ∈ tbO.idxs, o.name = s.name → o ≠ s → ∃ c ∈ s.cols, c ∉ dc) ∧
      (∀ s ∈ tbN.fks, ∀ o ∈ tbO.fks, s.name = o.name → s = o)) :
    ∃ up down, modelUp g old new = .ok up ∧ modelDown g old new = .ok down ∧ c03 dbO dbN up down = .ok () := by
  have hoc : old.all Stmt.colSafe = true :=
    List.all_eq_true.mpr (fun s hs => Stmt.colSafe_of_elemSafe s (List.all_eq_true.mp ho s hs))
  have hnc : new.all Stmt.colSafe = true :=
    List.all_eq_true.mpr (fun s hs => Stmt.colSafe_of_elemSafe s (List.all_eq_true.mp hn s hs))
  obtain ⟨d, outU, hd, hU, _, hjU⟩ := schema_spec_up g hg hio rc old new dbO dbN ho hn hpo hpn heo hen hdef
    (fun a ha b hb e => by obtain ⟨x1, x2, x3, x4, _, x6⟩ := hboth a ha b hb e; exact ⟨x1, x2, x3, x4, x6⟩)
  obtain ⟨d2, outD, hd2, hD, _, hjD⟩ := schema_spec_down g hg hio rc old new dbO dbN ho hn hpo hpn heo hen hdef
    (fun a ha b hb e => by obtain ⟨x1, x2, x3, _, x5, x6⟩ := hboth a ha b hb e; exact ⟨x1, x2, x3, x5, x6⟩)
  have : d2 = d := by rw [hd] at hd2; exact (Except.ok.inj hd2).symm
  subst this
  obtain ⟨mo, _, hro⟩ := ReaderMysql.run_rel rc old {} [] dbO Rel.empty hoc heo
  obtain ⟨mn, _, hrn⟩ := ReaderMysql.run_rel rc new {} [] dbN Rel.empty hnc hen
  have hndO : (dbO.map (·.name)).Nodup := hro.nodup
  have hndN : (dbN.map (·.name)).Nodup := hrn.nodup
  refine ⟨outU.flatten, outD.flatten, ?_, ?_, ?_⟩
  · unfold modelUp; simp only [hd, hU, bind, Except.bind, pure, Except.pure]
  · unfold modelDown; simp only [hd, hD, bind, Except.bind, pure, Except.pure]
  unfold c03
  by_cases heq : dbO.equiv dbN = true
  · -- equal schemas: both migrations are empty
    rw [if_pos heq]
    obtain ⟨d3, hd3, hU3, hD3⟩ := equal_schemas_empty g hg rc old new dbO dbN ho hn hpo hpn heo hen
      (dbEquiv_of_equiv dbO dbN hndO hndN heq)
    have : d3 = d2 := by rw [hd] at hd3; exact (Except.ok.inj hd3).symm
    subst this
    rw [hU] at hU3
    rw [hD] at hD3
    have e1 : outU = [] := (Prod.mk.inj (Except.ok.inj hU3)).2
    have e2 : outD = [] := (Prod.mk.inj (Except.ok.inj hD3)).2
    rw [e1, e2]
    rfl
  · rw [if_neg heq]
    simp only
    split
    · rfl
    · rename_i s hfind
      exfalso
      have hs := List.mem_of_find?_eq_some hfind
      have hany := List.find?_some hfind
      obtain ⟨t, ht, hts⟩ := List.any_eq_true.mp hany
      have hts : t.name = s.table := by simpa using hts
      obtain ⟨htO, hcond⟩ := List.mem_filter.mp ht
      cases hfN : dbN.find t.name with
      | none => rw [hfN] at hcond; cases hcond
      | some u =>
        rw [hfN] at hcond
        have hcond : t.equiv u = true := hcond
        have hfO : dbO.find t.name = some t := find_some_of_mem dbO hndO t htO
        obtain ⟨_, hne, _, _, _, _⟩ := hboth t htO u (mem_of_find hfN) (find_name dbN _ _ hfN).symm
        obtain ⟨_, _, _, _, _, _, _, _, _, _, _, _, _, _, _, hNi, hOi⟩ :=
          indexes_with_drops_end_to_end' g hg hio rc old new dbO dbN ho hn heo hen d2 hd t.name t u hfO hfN hne
        obtain ⟨_, _, _, _, _, hfkN0, hfkO0⟩ :=
          fks_with_drops_end_to_end g hg rc old new dbO dbN ho hn heo hen d2 hd t.name t u hfO hfN
        have hfkO : (t.fks.map (·.name)).Nodup := hfkO0
        have hfkN : (u.fks.map (·.name)).Nodup := hfkN0
        rcases List.mem_append.mp hs with h | h
        · have h1 := hjU s h
          rw [not_justified_of_equiv dbO dbN t.name t u hfO hfN hcond hOi hfkO s hts.symm] at h1
          cases h1
        · have h1 := hjD s h
          rw [not_justified_of_equiv dbN dbO t.name u t hfN hfO (TableSpec.equiv_symm _ _ hcond) hNi hfkN s hts.symm] at h1
          cases h1

end Sqlize
