/-
  Proofs/ExecNames.lean — the reference engine keeps table names unique; `DB.equiv` and `DBE` coincide on schemas with
  unique names; `DBE` is symmetric and transitive.
-/
import SqlizeModel.Proofs.ExecEquiv

namespace Sqlize
open Spec

theorem names_replace (db : DB) (t : TableSpec) : (db.replace t).map (·.name) = db.map (·.name) := by
  unfold DB.replace
  rw [List.map_map]
  apply List.map_congr_left
  intro x _
  show (if x.name == t.name then t else x).name = x.name
  split
  · rename_i h; exact (by simpa using h : x.name = t.name).symm
  · rfl

theorem mkTable_name (t : String) (cols : List ColDef) (pk : List String) (tb : TableSpec) (h : mkTable t cols pk = some tb) :
    tb.name = t := by
  unfold mkTable at h
  simp only at h
  repeat' split at h
  all_goals first
    | (have := Option.some.inj h; subst this; rfl)
    | cases h

/-- one statement keeps the table names duplicate-free -/
theorem exec_nodup (rc : Bool) (db : DB) (s : Stmt) (db1 : DB) (hnd : (db.map (·.name)).Nodup)
    (he : exec rc db s = some db1) : (db1.map (·.name)).Nodup := by
  have hrep : ∀ (t : TableSpec), ((db.replace t).map (·.name)).Nodup := fun t => by rw [names_replace]; exact hnd
  cases s with
  | createTable t i cols pk =>
    rw [exec_createTable] at he
    split at he
    · cases he
    · rename_i hhas
      cases hm : mkTable t cols pk with
      | none => rw [hm] at he; cases he
      | some tb =>
        rw [hm] at he
        have := Option.some.inj he; subst this
        have htn : tb.name = t := mkTable_name t cols pk tb hm
        rw [List.map_append, List.map_singleton]
        apply List.nodup_append.mpr
        refine ⟨hnd, List.nodup_cons.mpr ⟨by simp, List.nodup_nil⟩, ?_⟩
        intro x hx y hy hxy
        have hy : y = tb.name := by simpa using hy
        apply hhas
        rw [has_iff, ← htn, ← hy, ← hxy]; exact hx
  | dropTable t =>
    simp only [exec] at he
    split at he
    · cases he
    · split at he
      · cases he
      · have := Option.some.inj he; subst this
        exact hnd.sublist ((List.filter_sublist).map _)
  | renameColumn t o n =>
    simp only [exec] at he
    cases hf : db.find t with
    | none => rw [hf] at he; cases he
    | some tb =>
      rw [hf] at he
      simp only at he
      split at he
      · cases he
      · have := Option.some.inj he; subst this
        rw [List.map_map]
        exact hrep _
  | addColumn t c pos =>
    simp only [exec] at he
    cases hf : db.find t with
    | none => rw [hf] at he; cases he
    | some tb =>
      rw [hf] at he
      simp only at he
      split at he
      · cases he
      · split at he
        · cases he
        · split at he
          · cases he
          · have := Option.some.inj he; subst this; exact hrep _
  | dropColumn t c =>
    simp only [exec] at he
    cases hf : db.find t with
    | none => rw [hf] at he; cases he
    | some tb =>
      rw [hf] at he
      simp only at he
      split at he
      · cases he
      · split at he
        · cases he
        · have := Option.some.inj he; subst this; exact hrep _
  | modifyColumn t c =>
    simp only [exec] at he
    cases hf : db.find t with
    | none => rw [hf] at he; cases he
    | some tb =>
      rw [hf] at he
      simp only at he
      split at he
      · cases he
      · split at he
        · cases he
        · have := Option.some.inj he; subst this; exact hrep _
  | addFk t name col rt rcol =>
    simp only [exec] at he
    cases hf : db.find t with
    | none => rw [hf] at he; cases he
    | some tb =>
      rw [hf] at he
      simp only at he
      split at he
      · cases he
      · split at he
        · cases he
        · have := Option.some.inj he; subst this; exact hrep _
  | commentOn t c x =>
    simp only [exec] at he
    cases hf : db.find t with
    | none => rw [hf] at he; cases he
    | some tb =>
      rw [hf] at he
      simp only at he
      split at he
      · have := Option.some.inj he; subst this; exact hnd
      · split at he
        · cases he
        · have := Option.some.inj he; subst this; exact hrep _
  | addPrimaryKey t cols =>
    simp only [exec] at he
    cases hf : db.find t with
    | none => rw [hf] at he; cases he
    | some tb =>
      rw [hf] at he
      simp only at he
      split at he
      · cases he
      · have := Option.some.inj he; subst this; exact hrep _
  | dropPrimaryKey t =>
    simp only [exec] at he
    cases hf : db.find t with
    | none => rw [hf] at he; cases he
    | some tb =>
      rw [hf] at he
      simp only at he
      split at he
      · cases he
      · have := Option.some.inj he; subst this; exact hrep _
  | dropFk t name =>
    simp only [exec] at he
    cases hf : db.find t with
    | none => rw [hf] at he; cases he
    | some tb =>
      rw [hf] at he
      simp only at he
      split at he
      · cases he
      · have := Option.some.inj he; subst this; exact hrep _
  | renameIndex t o n =>
    simp only [exec] at he
    cases hf : db.find t with
    | none => rw [hf] at he; cases he
    | some tb =>
      rw [hf] at he
      simp only at he
      split at he
      · cases he
      · have := Option.some.inj he; subst this; exact hrep _
  | createIndex t name cols uniq u =>
    simp only [exec] at he
    cases hf : db.find t with
    | none => rw [hf] at he; cases he
    | some tb =>
      rw [hf] at he
      simp only at he
      split at he
      · cases he
      · have := Option.some.inj he; subst this; exact hrep _
  | dropIndex t name =>
    simp only [exec] at he
    cases hf : db.find t with
    | none => rw [hf] at he; cases he
    | some tb =>
      rw [hf] at he
      simp only at he
      split at he
      · cases he
      · have := Option.some.inj he; subst this; exact hrep _
  | alterType t c x =>
    simp only [exec] at he
    cases hf : db.find t with
    | none => rw [hf] at he; cases he
    | some tb =>
      rw [hf] at he
      simp only at he
      split at he
      · cases he
      · have := Option.some.inj he; subst this; exact hrep _
  | setDefault t c x =>
    simp only [exec] at he
    cases hf : db.find t with
    | none => rw [hf] at he; cases he
    | some tb =>
      rw [hf] at he
      simp only at he
      split at he
      · cases he
      · have := Option.some.inj he; subst this; exact hrep _
  | dropNotNull t c =>
    simp only [exec] at he
    cases hf : db.find t with
    | none => rw [hf] at he; cases he
    | some tb =>
      rw [hf] at he
      simp only at he
      split at he
      · cases he
      · have := Option.some.inj he; subst this; exact hrep _

theorem execAll_nodup (rc : Bool) : ∀ (ss : List Stmt) (db db1 : DB), (db.map (·.name)).Nodup →
    execAll rc db ss = some db1 → (db1.map (·.name)).Nodup := by
  intro ss
  induction ss with
  | nil => intro db db1 h he; simp only [execAll] at he; rw [← Option.some.inj he]; exact h
  | cons s r ih =>
    intro db db1 h he
    simp only [execAll] at he
    cases h1 : exec rc db s with
    | none => rw [h1] at he; cases he
    | some d2 =>
      rw [h1] at he
      exact ih d2 db1 (exec_nodup rc db s d2 h h1) he

theorem colsEquiv_trans : ∀ (a b c : List ColSpec), colsEquiv a b = true → colsEquiv b c = true → colsEquiv a c = true := by
  intro a
  induction a with
  | nil => intro b c h1 h2; cases b with
    | nil => exact h2
    | cons _ _ => simp [colsEquiv] at h1
  | cons x r ih =>
    intro b c h1 h2
    cases b with
    | nil => simp [colsEquiv] at h1
    | cons y r' =>
      cases c with
      | nil => simp [colsEquiv] at h2
      | cons z r'' =>
        simp only [colsEquiv, Bool.and_eq_true] at h1 h2 ⊢
        obtain ⟨a1, a2, a3⟩ := opts_equiv h1.1
        obtain ⟨b1, b2, b3⟩ := opts_equiv h2.1
        exact ⟨equiv_mk (a1.trans b1) (a2.trans b2) (a3.trans b3), ih r' r'' h1.2 h2.2⟩

theorem TableSpec.equiv_trans {a b c : TableSpec} (h1 : a.equiv b = true) (h2 : b.equiv c = true) : a.equiv c = true := by
  obtain ⟨a1, a2, a3, a4, a5⟩ := equiv_parts h1
  obtain ⟨b1, b2, b3, b4, b5⟩ := equiv_parts h2
  exact equiv_of_parts (a1.trans b1) (colsEquiv_trans _ _ _ a2 b2) (a3.trans b3) (a4.trans b4) (a5.trans b5)

theorem DBE.symm {a b : DB} (h : DBE a b) : DBE b a := by
  intro t
  have := h t
  cases ha : a.find t <;> cases hb : b.find t <;> rw [ha, hb] at this
  · trivial
  · exact this.elim
  · exact this.elim
  · exact TableSpec.equiv_symm _ _ this

theorem DBE.trans {a b c : DB} (h1 : DBE a b) (h2 : DBE b c) : DBE a c := by
  intro t
  have e1 := h1 t
  have e2 := h2 t
  cases ha : a.find t <;> cases hb : b.find t <;> cases hc : c.find t <;> rw [ha, hb] at e1 <;> rw [hb, hc] at e2
  all_goals first
    | trivial
    | exact e1.elim
    | exact e2.elim
    | exact TableSpec.equiv_trans e1 e2

/-- on schemas with unique table names the executable equivalence gives the lookup-wise one -/
theorem DBE.of_equiv {a b : DB} (ha : (a.map (·.name)).Nodup) (hb : (b.map (·.name)).Nodup) (h : a.equiv b = true) : DBE a b := by
  unfold DB.equiv DB.equivBy at h
  simp only [Bool.and_eq_true, beq_iff_eq] at h
  obtain ⟨hlen, hall⟩ := h
  have hfind : ∀ ta ∈ a, ∃ u, b.find ta.name = some u ∧ ta.equiv u = true := by
    intro ta hta
    have := List.all_eq_true.mp hall ta hta
    cases hf : b.find ta.name with
    | none => rw [hf] at this; cases this
    | some u => rw [hf] at this; exact ⟨u, rfl, this⟩
  intro t
  cases hfa : a.find t with
  | some ta =>
    obtain ⟨u, hu, he⟩ := hfind ta (mem_of_find hfa)
    rw [find_name a t ta hfa] at hu
    rw [hu]; exact he
  | none =>
    cases hfb : b.find t with
    | none => trivial
    | some tb =>
      exfalso
      have hin : t ∈ a.map (·.name) :=
        mem_of_subset_length (a.map (·.name)) (b.map (·.name)) ha hb
          (by
            intro x hx
            obtain ⟨ta, hta, rfl⟩ := List.mem_map.mp hx
            obtain ⟨u, hu, _⟩ := hfind ta hta
            rw [← find_name b _ _ hu]; exact List.mem_map_of_mem (mem_of_find hu))
          (by simp [hlen]) t (by rw [← find_name b t tb hfb]; exact List.mem_map_of_mem (mem_of_find hfb))
      exact (find_none_iff a t).mp hfa hin

/-- … and back -/
theorem DBE.to_equiv {a b : DB} (ha : (a.map (·.name)).Nodup) (hb : (b.map (·.name)).Nodup) (h : DBE a b) : a.equiv b = true := by
  unfold DB.equiv DB.equivBy
  simp only [Bool.and_eq_true, beq_iff_eq]
  have hmem : ∀ u, u ∈ a.map (·.name) ↔ u ∈ b.map (·.name) := by
    intro u
    rw [← has_iff, ← has_iff, h.has u]
  refine ⟨?_, ?_⟩
  · have hp : (a.map (·.name)).Perm (b.map (·.name)) := (List.perm_ext_iff_of_nodup ha hb).mpr hmem
    simpa using hp.length_eq
  · rw [List.all_eq_true]
    intro t ht
    have hf := find_some_of_mem a ha t ht
    obtain ⟨u, hu, he⟩ := h.find_some hf
    rw [hu]; exact he

theorem DBE.nil_right {a : DB} (h : DBE a []) : a = [] := by
  cases a with
  | nil => rfl
  | cons x r =>
    have := h x.name
    have hf : DB.find (x :: r) x.name = some x := by unfold DB.find; simp
    rw [hf] at this
    exact this.elim

end Sqlize
