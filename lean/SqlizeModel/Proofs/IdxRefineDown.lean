/-
  Proofs/IdxRefineDown.lean — the index walk of the *down* migration in the presence of dropped columns refines
  `Abs.Idx.emitDownSup` (the mirror of `Table.walkIdx_refines_sup`).
-/
import SqlizeModel.Proofs.IdxRefine
import SqlizeModel.Abs.IdxDropDown

namespace Sqlize
open Spec Abs.Idx

namespace Table

/-- what the down walk prints for one record when `dc` are the columns the down migration drops -/
def downSupStmts (dc : List String) (tb : String) (i : Index) : List Stmt :=
  if i.action == .add && idxSuppressed i dc then [] else i.downStmts tb

theorem downSupStmts_of_not_add (dc : List String) (tb : String) (i : Index) (h : i.action ≠ .add) :
    downSupStmts dc tb i = i.downStmts tb := by
  unfold downSupStmts
  have : (i.action == .add) = false := by simpa using h
  simp [this]

theorem walkIdx_pure_down_sup (g : Globals) (tb : String) (dc : List String) : ∀ idxs : List Index,
    (∀ i ∈ idxs, (i.typ = .none ∨ i.typ = .unique) ∧ (∀ p, i.prev = some p → p.typ = .none ∨ p.typ = .unique) ∧
      (i.action = .none ∨ i.action = .add ∨ i.action = .remove ∨ i.action = .modify)) →
    walkIdx g tb false dc idxs = .ok (idxs.flatMap (downSupStmts dc tb)) := by
  intro idxs
  induction idxs with
  | nil => intro _; rfl
  | cons i r ih =>
    intro h
    obtain ⟨ht, hp, ha⟩ := h i (by simp)
    have hr := ih (fun x hx => h x (by simp [hx]))
    unfold walkIdx
    rw [hr]
    by_cases hn : i.action = .none
    · have : i.downStmts tb = [] := by unfold Index.downStmts; rw [hn]
      simp [hn, this, downSupStmts, bind, Except.bind, pure, Except.pure]
    · have hne : (i.action != .none) = true := by simpa using hn
      have hdn := Index.migrationDown_pure g i tb ht hp ha
      by_cases had : i.action = .add
      · cases hs : idxSuppressed i dc
        · simp [had, hs, hdn, downSupStmts, bind, Except.bind, pure, Except.pure]
        · simp [had, hs, downSupStmts, bind, Except.bind, pure, Except.pure]
      · have h1 : (i.action != .add) = true := by simpa using had
        rw [show List.flatMap (downSupStmts dc tb) (i :: r) = i.downStmts tb ++ List.flatMap (downSupStmts dc tb) r by
          rw [List.flatMap_cons, downSupStmts_of_not_add dc tb i had]]
        simp only [hne, h1, hdn, bind, Except.bind, pure, Except.pure, Bool.true_or, Bool.and_self, if_true,
          Bool.false_eq_true, if_false]

/-- every statement the down index walk prints for a record is a PRIMARY KEY statement or an index statement of that
    table -/
theorem downStmts_shape (tb : String) (i : Index) : ∀ s ∈ i.downStmts tb,
    s.table = tb ∧ ((∃ cols, s = .addPrimaryKey tb cols) ∨ s = .dropPrimaryKey tb ∨ (idxStmt s).isSome = true) := by
  have hup : ∀ j : Index, ∀ s ∈ j.upStmts tb,
      s.table = tb ∧ ((∃ cols, s = .addPrimaryKey tb cols) ∨ s = .dropPrimaryKey tb ∨ (idxStmt s).isSome = true) := by
    intro j s hs
    have := supStmts_shape [] tb j s (by
      unfold supStmts
      have : idxSuppressed j [] = false := idxSuppressed_nil j
      rw [this]; simpa using hs)
    exact this
  intro s hs
  unfold Index.downStmts at hs
  split at hs
  · exact hup _ s hs
  · exact hup _ s hs
  · split at hs
    · exact hup _ s hs
    · exact hup _ s hs
  · cases hs

theorem downSupStmts_shape (dc : List String) (tb : String) (i : Index) : ∀ s ∈ downSupStmts dc tb i,
    s.table = tb ∧ ((∃ cols, s = .addPrimaryKey tb cols) ∨ s = .dropPrimaryKey tb ∨ (idxStmt s).isSome = true) := by
  intro s hs
  unfold downSupStmts at hs
  split at hs
  · cases hs
  · exact downStmts_shape tb i s hs

theorem tagged_ok (t o : Table) (ht : ∀ i ∈ t.idxs, i.Live) (ho : ∀ i ∈ o.idxs, i.Live) :
    ∀ x ∈ t.idxs.map (tagIdx o) ++
          (o.idxs.filter (fun oi => !t.idxNames.contains oi.name)).map (fun oi => { oi with action := .remove }),
      (x.typ = .none ∨ x.typ = .unique) ∧ (∀ p, x.prev = some p → p.typ = .none ∨ p.typ = .unique) ∧
      (x.action = .none ∨ x.action = .add ∨ x.action = .remove ∨ x.action = .modify) := by
  intro x hx
  rcases List.mem_append.mp hx with h | h
  · obtain ⟨i, hi, rfl⟩ := List.mem_map.mp h
    have hl := ht i hi
    unfold tagIdx
    cases hf : o.idxs.find? (fun y => y.name == i.name) with
    | none => exact ⟨hl.typ, (by intro p hp; rw [hl.prev] at hp; cases hp), Or.inr (Or.inl hl.add)⟩
    | some oi =>
      have hoi : oi ∈ o.idxs := List.mem_of_find?_eq_some hf
      simp only
      split
      · exact ⟨hl.typ, (by intro p hp; have hp : i.prev = some p := hp; rw [hl.prev] at hp; cases hp), Or.inl rfl⟩
      · refine ⟨hl.typ, ?_, Or.inr (Or.inr (Or.inr rfl))⟩
        intro p hp
        have hp : some oi.toDef = some p := hp
        rw [← Option.some.inj hp]
        exact (ho oi hoi).typ
  · obtain ⟨oi, hoi, rfl⟩ := List.mem_map.mp h
    have hl := ho oi (List.mem_filter.mp hoi).1
    exact ⟨hl.typ, (by intro p hp; have hp : oi.prev = some p := hp; rw [hl.prev] at hp; cases hp), Or.inr (Or.inr (Or.inl rfl))⟩

/-- one record of the new side, with dropped columns -/
theorem proj_new_down_sup (dc : List String) (tb : String) (o : Table) (ho : ∀ x ∈ o.idxs, x.Live) (i : Index) (hi : i.Live) :
    (downSupStmts dc tb (tagIdx o i)).filterMap idxStmt =
      if i.name == pkName then [] else emitDownSupOne dc (idxSpecOf o.idxs) i.toSpec := by
  have hbase := proj_new_down tb o ho i hi
  cases hf : o.idxs.find? (fun y => y.name == i.name) with
  | none =>
    have htag : tagIdx o i = i := by unfold tagIdx; rw [hf]
    rw [htag] at hbase ⊢
    unfold downSupStmts
    rw [hi.add]
    by_cases hp : i.name = pkName
    · have h1 : (i.name == pkName) = true := by simp [hp]
      rw [h1, if_pos rfl] at hbase
      rw [h1, if_pos rfl]
      split
      · rfl
      · exact hbase
    · have h1 : (i.name == pkName) = false := by simpa using hp
      rw [h1] at hbase ⊢
      simp only [Bool.false_eq_true, if_false] at hbase ⊢
      have hfs : (idxSpecOf o.idxs).find? (fun y => y.name == i.toSpec.name) = none := by
        have := idxSpecOf_find o.idxs i.name hp
        rw [hf] at this
        exact this
      have hsup : suppressed dc i.toSpec = idxSuppressed i dc := rfl
      unfold emitDownSupOne
      rw [hfs, hsup]
      cases hs : idxSuppressed i dc
      · simp only [beq_self_eq_true, Bool.and_false, Bool.false_eq_true, if_false]
        rw [hbase]
        unfold emitDownOne
        have hfs' : (idxSpecOf o.idxs).find? (fun y => Named.name y == Named.name i.toSpec) = none := hfs
        rw [hfs']
        rfl
      · simp
  | some oi =>
    have hna : (tagIdx o i).action ≠ .add := by
      unfold tagIdx; rw [hf]; simp only; split <;> simp
    rw [downSupStmts_of_not_add dc tb _ hna, hbase]
    by_cases hp : i.name = pkName
    · simp [hp]
    · have h1 : (i.name == pkName) = false := by simpa using hp
      rw [h1]
      simp only [Bool.false_eq_true, if_false]
      have hfs : (idxSpecOf o.idxs).find? (fun y => y.name == i.toSpec.name) = some oi.toSpec := by
        have := idxSpecOf_find o.idxs i.name hp
        rw [hf] at this
        exact this
      unfold emitDownSupOne emitDownOne
      have hfs' : (idxSpecOf o.idxs).find? (fun y => Named.name y == Named.name i.toSpec) = some oi.toSpec := hfs
      rw [hfs, hfs']
      rfl


/-- the records only the old side has: the down walk re-creates them -/
theorem down_old_half (tb : String) (t o : Table) (ho : ∀ i ∈ o.idxs, i.Live) :
    (o.idxs.filter (fun oi => !t.idxNames.contains oi.name)).flatMap
        (fun oi => (Index.downStmts { oi with action := .remove } tb).filterMap idxStmt) =
      ((idxSpecOf o.idxs).filter (fun s => !(names (idxSpecOf t.idxs)).contains (Named.name s))).map IStmt.create := by
  have hnames : ∀ oi : Index, oi.name ≠ pkName →
      (names (idxSpecOf t.idxs)).contains oi.name = t.idxNames.contains oi.name := by
    intro oi hne
    have : names (idxSpecOf t.idxs) = (t.idxs.map (·.name)).filter (· != pkName) := idxSpecOf_names t.idxs
    rw [this]
    cases hc : t.idxNames.contains oi.name with
    | true =>
      have hm : oi.name ∈ t.idxNames := by simpa using hc
      have : oi.name ∈ (t.idxs.map (·.name)).filter (· != pkName) := List.mem_filter.mpr ⟨hm, by simpa using hne⟩
      simpa using this
    | false =>
      have hm : oi.name ∉ t.idxNames := by simpa using hc
      have : oi.name ∉ (t.idxs.map (·.name)).filter (· != pkName) := fun h => hm (List.mem_filter.mp h).1
      simpa using this
  unfold idxSpecOf at hnames ⊢
  have : ∀ l : List Index, (∀ i ∈ l, i.Live) →
      (l.filter (fun oi => !t.idxNames.contains oi.name)).flatMap
          (fun oi => (Index.downStmts { oi with action := .remove } tb).filterMap idxStmt) =
        (((l.filter (fun i => i.name != pkName)).map Index.toSpec).filter
            (fun s => !(names ((t.idxs.filter (fun i => i.name != pkName)).map Index.toSpec)).contains (Named.name s))).map
          IStmt.create := by
    intro l
    induction l with
    | nil => intro _; rfl
    | cons oi r ih =>
      intro hl
      have ihr := ih (fun x hx => hl x (by simp [hx]))
      by_cases hp : oi.name = pkName
      · have h2 : (oi.name != pkName) = false := by simp [hp]
        rw [List.filter_cons (p := fun i : Index => i.name != pkName), h2]
        simp only [Bool.false_eq_true, if_false]
        rw [← ihr, List.filter_cons]
        split
        · rw [List.flatMap_cons, proj_old_down tb oi (hl oi (by simp))]
          simp [hp]
        · rfl
      · have h2 : (oi.name != pkName) = true := by simpa using hp
        have h1 : (oi.name == pkName) = false := by simpa using hp
        rw [List.filter_cons (p := fun i : Index => i.name != pkName), h2]
        simp only [if_true, List.map_cons]
        rw [List.filter_cons (p := fun s : IdxSpec => _)]
        have hnm : Named.name oi.toSpec = oi.name := rfl
        rw [hnm, hnames oi hp, List.filter_cons]
        cases hc : t.idxNames.contains oi.name
        · simp only [Bool.not_false, if_true, List.flatMap_cons, List.map_cons]
          rw [proj_old_down tb oi (hl oi (by simp)), h1, ihr]
          rfl
        · simp only [Bool.not_true, Bool.false_eq_true, if_false]
          exact ihr
  exact this o.idxs ho

/-- **the down index walk with a dropped-column list refines `Abs.Idx.emitDownSup`** -/
theorem walkIdx_refines_down_sup (g : Globals) (tb : String) (dc : List String) (t o : Table) (ht : ∀ i ∈ t.idxs, i.Live)
    (ho : ∀ i ∈ o.idxs, i.Live) :
    ∃ ss, walkIdx g tb false dc
        (t.idxs.map (tagIdx o) ++
          (o.idxs.filter (fun oi => !t.idxNames.contains oi.name)).map (fun oi => { oi with action := .remove })) = .ok ss ∧
      ss.filterMap idxStmt = emitDownSup dc (idxSpecOf t.idxs) (idxSpecOf o.idxs) ∧
      (∀ s ∈ ss, s.table = tb ∧ ((∃ cols, s = .addPrimaryKey tb cols) ∨ s = .dropPrimaryKey tb ∨ (idxStmt s).isSome = true)) := by
  refine ⟨_, walkIdx_pure_down_sup g tb dc _ (tagged_ok t o ht ho), ?_, ?_⟩
  · -- the old-only part is as without dropped columns: reuse the plain refinement
    rw [filterMap_flatMap', List.flatMap_append]
    unfold emitDownSup
    congr 1
    · rw [List.flatMap_map]
      unfold idxSpecOf
      have : ∀ l : List Index, (∀ i ∈ l, i.Live) →
          l.flatMap (fun i => (downSupStmts dc tb (tagIdx o i)).filterMap idxStmt) =
            ((l.filter (fun i => i.name != pkName)).map Index.toSpec).flatMap
              (emitDownSupOne dc ((o.idxs.filter (fun i => i.name != pkName)).map Index.toSpec)) := by
        intro l
        induction l with
        | nil => intro _; rfl
        | cons i r ih =>
          intro hl
          rw [List.flatMap_cons, ih (fun x hx => hl x (by simp [hx])), proj_new_down_sup dc tb o ho i (hl i (by simp)),
            List.filter_cons]
          by_cases hp : i.name = pkName
          · simp [hp]
          · have h1 : (i.name == pkName) = false := by simpa using hp
            have h2 : (i.name != pkName) = true := by simpa using hp
            rw [h1, h2]
            simp only [Bool.false_eq_true, if_false, if_true, List.map_cons, List.flatMap_cons]
            rfl
      exact this t.idxs ht
    · -- records only the old side has are tagged `remove`: never suppressed
      have hsame : ∀ x ∈ (o.idxs.filter (fun oi => !t.idxNames.contains oi.name)).map (fun oi => { oi with action := .remove }),
          (downSupStmts dc tb x).filterMap idxStmt = (x.downStmts tb).filterMap idxStmt := by
        intro x hx
        obtain ⟨oi, _, rfl⟩ := List.mem_map.mp hx
        rw [downSupStmts_of_not_add]
        simp
      rw [flatMap_congr' _ hsame, List.flatMap_map]
      exact down_old_half tb t o ho
  · intro s hs
    obtain ⟨i, _, hi⟩ := List.mem_flatMap.mp hs
    exact downSupStmts_shape dc tb i s hi

end Table
end Sqlize
