import SqlizeModel.Proofs.SpecCols

namespace Sqlize
open Spec

theorem find_replace_other (db : DB) (tb' : TableSpec) (u : String) (hu : u ≠ tb'.name) :
    (db.replace tb').find u = db.find u := by
  unfold DB.find DB.replace
  induction db with
  | nil => rfl
  | cons x r ih =>
    rw [List.map_cons, List.find?_cons, List.find?_cons]
    by_cases hx : (x.name == tb'.name) = true
    · rw [if_pos hx]
      have h1 : (tb'.name == u) = false := by simpa using (Ne.symm hu)
      have h2 : (x.name == u) = false := by
        have : x.name = tb'.name := by simpa using hx
        rw [this]; exact h1
      rw [h1, h2]; exact ih
    · rw [if_neg hx]
      cases hxu : (x.name == u) with
      | true => rfl
      | false => exact ih

theorem find_getElem (db : DB) (t : String) (tb : TableSpec) (hf : db.find t = some tb) :
    ∃ i : Nat, db[i]? = some tb ∧ tb.name = t := by
  unfold DB.find at hf
  have hmem := List.mem_of_find?_eq_some hf
  have hname : tb.name = t := by simpa using List.find?_some hf
  obtain ⟨i, hi⟩ := List.mem_iff_getElem?.mp hmem
  exact ⟨i, hi, hname⟩

/-- the lift from one table's column list to the database: the column statements of table `t` change that table's
    columns as `colExecAll` says and leave every other table as it is -/
theorem execAll_of_colExecAll : ∀ (ss : List Stmt) (db : DB) (t : String) (tb : TableSpec) (cols' : List ColSpec),
    (db.map (·.name)).Nodup → db.find t = some tb →
    (∀ s ∈ ss, s.table = t ∧ s.defNoPk = true) → colExecAll tb.cols ss = some cols' →
    ∃ db' tb', execAll false db ss = some db' ∧ db'.find t = some tb' ∧ tb'.cols = cols' ∧
      (∀ u, u ≠ t → db'.find u = db.find u) ∧ db'.map (·.name) = db.map (·.name) := by
  intro ss
  induction ss with
  | nil =>
    intro db t tb cols' _ hf _ hc
    simp only [colExecAll] at hc
    exact ⟨db, tb, rfl, hf, Option.some.inj hc, fun _ _ => rfl, rfl⟩
  | cons s rest ih =>
    intro db t tb cols' hnd hf hss hc
    simp only [colExecAll] at hc
    cases h1 : colExec tb.cols s with
    | none => rw [h1] at hc; cases hc
    | some c1 =>
      rw [h1] at hc
      simp only [Option.bind_some] at hc
      obtain ⟨hst, hpk⟩ := hss s (by simp)
      obtain ⟨tb1, he1, hn1, hc1⟩ := exec_of_colExec db t tb hf s hst hpk c1 h1
      obtain ⟨i, hi, hname⟩ := find_getElem db t tb hf
      obtain ⟨hf1, _, hnames1⟩ := ReaderMysql.find_replace db hnd i tb tb1 hi hn1
      rw [hname] at hf1
      have hnd1 : ((db.replace tb1).map (·.name)).Nodup := by rw [hnames1]; exact hnd
      obtain ⟨db', tb', he', hf', hc', hother, hnames'⟩ := ih (db.replace tb1) t tb1 cols' hnd1 hf1
        (fun s' hs' => hss s' (List.mem_cons_of_mem _ hs')) (by rw [hc1]; exact hc)
      refine ⟨db', tb', ?_, hf', hc', ?_, hnames'.trans hnames1⟩
      · simp only [execAll, he1, Option.bind_some]; exact he'
      · intro u hu
        rw [hother u hu]
        exact find_replace_other db tb1 u (by rw [hn1, hname]; exact hu)

theorem upAlter_table (g : Globals) (c : Column) (tb after : String) : ∀ s ∈ c.migrationUpAlter g tb after, s.table = tb := by
  intro s hs
  unfold Column.migrationUpAlter at hs
  cases ha : c.action <;> rw [ha] at hs <;> simp only at hs
  · cases hs
  · rw [List.mem_singleton.mp hs]; rfl
  · split at hs
    · cases hs
    · rw [List.mem_singleton.mp hs]; rfl
  · rw [List.mem_singleton.mp hs]; rfl
  · rw [List.mem_singleton.mp hs]; rfl
  · rw [List.mem_singleton.mp hs]; rfl

/-- what `columns_spec_up_db` needs, before the lift to the database: the run on the column list, and that every printed
    column statement is about table `t` and carries a definition without PRIMARY KEY flag -/
theorem columns_spec_up_pre (g : Globals) (hg : g.dialect = .mysql) (hio : g.ignoreOrder = false) (rc : Bool)
    (old new : List Stmt) (dbO dbN : DB) (ho : old.all Stmt.elemSafe = true) (hn : new.all Stmt.elemSafe = true)
    (hpo : old.all Stmt.plainOpts = true) (hpn : new.all Stmt.plainOpts = true)
    (heo : execAll rc [] old = some dbO) (hen : execAll rc [] new = some dbN)
    (d : Migration) (hd : loadAndDiff g old new = .ok d)
    (t : String) (tbO tbN : TableSpec) (hfo : dbO.find t = some tbO) (hfn : dbN.find t = some tbN)
    (hc : Abs.OrderCompatible tbN.colNames tbO.colNames) (hne : ∀ n ∈ tbN.colNames ++ tbO.colNames, n ≠ "") :
    ∃ td ∈ d.tables, td.name = t ∧ td.action = .none ∧
      td.migrationColumnUp g = .ok (Table.walkCols g t true [] td.cols) ∧
      ∃ cols', colExecAll tbO.cols (Table.walkCols g t true [] td.cols).1 = some cols' ∧ colsEquiv cols' tbN.cols = true ∧
        (∀ s ∈ (Table.walkCols g t true [] td.cols).1, s.table = t ∧ s.defNoPk = true) ∧
        (dbO.map (·.name)).Nodup := by
  have hoc : old.all Stmt.colSafe = true :=
    List.all_eq_true.mpr (fun s hs => Stmt.colSafe_of_elemSafe s (List.all_eq_true.mp ho s hs))
  have hnc : new.all Stmt.colSafe = true :=
    List.all_eq_true.mpr (fun s hs => Stmt.colSafe_of_elemSafe s (List.all_eq_true.mp hn s hs))
  obtain ⟨td, htd, hname, hact, hup, cols', hex, heq⟩ := columns_spec_up g hg hio rc old new dbO dbN ho hn hpo hpn heo hen d hd
    t tbO tbN hfo hfn hc hne
  -- the old reference schema has distinct table names
  obtain ⟨mo, _, hro⟩ := ReaderMysql.run_rel rc old {} [] dbO Rel.empty hoc heo
  -- uniqueness of the diffed record and of the statement about a column
  have hdInv : d.Inv := by
    have hd' := hd
    unfold loadAndDiff at hd'
    obtain ⟨o, hlo, hd'⟩ := bind_ok hd'
    obtain ⟨n, hln, hd'⟩ := bind_ok hd'
    obtain ⟨mo', hmo', hro'⟩ := ReaderMysql.run_rel rc old {} [] dbO Rel.empty hoc heo
    obtain ⟨mn, hmn', hrn⟩ := ReaderMysql.run_rel rc new {} [] dbN Rel.empty hnc hen
    have : mo' = o := by
      have : readScript g {} old = .ok mo' := by unfold readScript; rw [hg]; exact hmo'
      rw [this] at hlo; exact Except.ok.inj hlo
    subst this
    have : mn = n := by
      have : readScript g {} new = .ok mn := by unfold readScript; rw [hg]; exact hmn'
      rw [this] at hln; exact Except.ok.inj hln
    subst this
    exact Migration.diff_inv g.dialect mn mo' d hrn.inv hro'.inv hrn.np hd'
  have huniq : ∀ td' ∈ d.tables, td'.name = t → td' = td := fun td' h1 h2 =>
    eq_of_name_nodup (fun x : Table => x.name) hdInv.tbls.nodup h1 htd (h2.trans hname.symm)
  have hndtd : (td.cols.map (·.name)).Nodup := (hdInv.each td htd).cols.nodup
  have hndS : ((Table.walkCols g t true [] td.cols).1.filterMap stmtCol).Nodup :=
    (Table.walkCols_stmtCols g t true td.cols []).nodup hndtd
  have hOnd : tbO.colNames.Nodup := by
    obtain ⟨io, to, _, hmo, _, _, hcolo, _, _⟩ := hro.lookup hfo
    rw [← hcolo]; exact (hro.inv.each to (List.mem_of_getElem? hmo)).cols.nodup
  -- every statement is about table `t` and carries a definition without PRIMARY KEY flag
  have hss : ∀ s ∈ (Table.walkCols g t true [] td.cols).1, s.table = t ∧ s.defNoPk = true := by
    intro s hs
    obtain ⟨c, hc', hca, after, hsc⟩ := Table.walkCols_shape g t td.cols [] s hs
    refine ⟨upAlter_table g c t after s hsc, ?_⟩
    -- names of `cols'` are the new side's
    have hnamesEq : cols'.map (·.name) = tbN.cols.map (·.name) := by
      have : ∀ (a b : List ColSpec), colsEquiv a b = true → a.map (·.name) = b.map (·.name) := by
        intro a
        induction a with
        | nil => intro b h; cases b with
          | nil => rfl
          | cons _ _ => simp [colsEquiv] at h
        | cons x r ih =>
          intro b h
          cases b with
          | nil => simp [colsEquiv] at h
          | cons y r' =>
            simp only [colsEquiv, Bool.and_eq_true] at h
            have hxy : x.name = y.name := by
              have := h.1; unfold ColSpec.equiv at this
              simp only [Bool.and_eq_true, beq_iff_eq] at this
              exact this.1.1
            simp [hxy, ih r' h.2]
      exact this _ _ heq
    -- a statement that adds or modifies a column: its definition is the one the end-to-end facts describe
    have key : ∀ cd : ColDef, ((∃ t2 pos, s = .addColumn t2 cd pos) ∨ (∃ t2, s = .modifyColumn t2 cd)) → (colOf cd).2 = false := by
      intro cd hkind
      have h1 : stmtCol s = some cd.name := by
        rcases hkind with ⟨t2, pos, rfl⟩ | ⟨t2, rfl⟩ <;> rfl
      have hfin : ∀ cd0 : ColDef, (colOf cd0).2 = false →
          ((∃ t0 pos0, Stmt.addColumn t0 cd0 pos0 ∈ (Table.walkCols g t true [] td.cols).1) ∨
           (∃ t0, Stmt.modifyColumn t0 cd0 ∈ (Table.walkCols g t true [] td.cols).1)) →
          cd0.name = cd.name → (colOf cd).2 = false := by
        intro cd0 hpk0 hmem0 hn0
        rcases hmem0 with ⟨t0, pos0, hm0⟩ | ⟨t0, hm0⟩
        · have h2 : stmtCol (Stmt.addColumn t0 cd0 pos0) = some cd.name := by simp [stmtCol, hn0]
          have e := eq_of_filterMap_nodup stmtCol hndS hs hm0 h1 h2
          rcases hkind with ⟨t2, pos, rfl⟩ | ⟨t2, rfl⟩
          · have : cd = cd0 := by injection e
            rw [this]; exact hpk0
          · cases e
        · have h2 : stmtCol (Stmt.modifyColumn t0 cd0) = some cd.name := by simp [stmtCol, hn0]
          have e := eq_of_filterMap_nodup stmtCol hndS hs hm0 h1 h2
          rcases hkind with ⟨t2, pos, rfl⟩ | ⟨t2, rfl⟩
          · cases e
          · have : cd = cd0 := by injection e
            rw [this]; exact hpk0
      by_cases hinN : cd.name ∈ tbN.colNames
      · obtain ⟨cN, hcN, hcNn⟩ := List.mem_map.mp hinN
        by_cases hinO : cN.name ∈ tbO.colNames
        · obtain ⟨cO, hcO, hcOn⟩ := List.mem_map.mp hinO
          by_cases hsame : cO.typ = cN.typ ∧ cO.opts.Perm cN.opts
          · obtain ⟨td', htd', hn', _, hno⟩ := equal_column_untouched g hg rc old new dbO dbN ho hn hpo hpn heo hen d hd t tbO tbN hfo hfn
              cN cO hcN hcO hcOn hsame.1 hsame.2
            rw [huniq td' htd' hn'] at hno
            exact absurd (by rw [h1, hcNn]) (hno true s hs)
          · have hchg : cO.typ ≠ cN.typ ∨ ¬ cO.opts.Perm cN.opts := by
              by_cases ht : cO.typ = cN.typ
              · exact Or.inr (fun hp => hsame ⟨ht, hp⟩)
              · exact Or.inl ht
            obtain ⟨td', htd', hn', _, ⟨cd0, hmem, hpk, hcdn, _, _⟩, _⟩ := changed_column_modified g hg rc old new dbO dbN ho hn hpo hpn
              heo hen d hd t tbO tbN hfo hfn cN cO hcN hcO hcOn hchg
            rw [huniq td' htd' hn'] at hmem
            exact hfin cd0 hpk (Or.inr ⟨t, hmem⟩) (by rw [← colOf_name, hcdn, hcNn])
        · obtain ⟨td', htd', hn', _, cd0, pos0, hmem, hpk, hcdn, _, _⟩ := added_column_def g hg rc old new dbO dbN ho hn hpo hpn
            heo hen d hd t tbO tbN hfo hfn cN hcN hinO
          rw [huniq td' htd' hn'] at hmem
          exact hfin cd0 hpk (Or.inl ⟨t, pos0, hmem⟩) (by rw [← colOf_name, hcdn, hcNn])
      · -- a statement that adds or modifies a column the new side does not have: the run would end with that name
        exfalso
        obtain ⟨pre, post, hsplit, hpost⟩ := split_of_filterMap_nodup stmtCol _ hndS s cd.name hs h1
        rw [hsplit] at hex
        have hmem : (colOf cd).1 ∈ cols' :=
          (colExecAll_set pre post s cd tbO.cols cols' hkind hpost hex (colOf cd).1 (colOf_name cd)).mpr rfl
        apply hinN
        show cd.name ∈ tbN.cols.map (·.name)
        rw [← hnamesEq, ← colOf_name]
        exact List.mem_map_of_mem hmem
    cases s with
    | addColumn t2 cd pos =>
      show (!(colOf cd).2) = true
      rw [key cd (Or.inl ⟨t2, pos, rfl⟩)]; rfl
    | modifyColumn t2 cd =>
      show (!(colOf cd).2) = true
      rw [key cd (Or.inr ⟨t2, rfl⟩)]; rfl
    | _ => rfl
  exact ⟨td, htd, hname, hact, hup, cols', hex, heq, hss, hro.nodup⟩

/-- **C01, the column clause on the reference engine, at the level of the database.**  Under the hypotheses of
    `columns_spec_up`: executed on the reference engine's old *schema* (referential checks aside), the statements
    `MigrationColumnUp` prints for the table are well-formed at every step; afterwards the table's column list is
    equal to the new side's (same columns, same order, same types, same options up to order) and every other table is
    untouched. -/
theorem columns_spec_up_db (g : Globals) (hg : g.dialect = .mysql) (hio : g.ignoreOrder = false) (rc : Bool)
    (old new : List Stmt) (dbO dbN : DB) (ho : old.all Stmt.elemSafe = true) (hn : new.all Stmt.elemSafe = true)
    (hpo : old.all Stmt.plainOpts = true) (hpn : new.all Stmt.plainOpts = true)
    (heo : execAll rc [] old = some dbO) (hen : execAll rc [] new = some dbN)
    (d : Migration) (hd : loadAndDiff g old new = .ok d)
    (t : String) (tbO tbN : TableSpec) (hfo : dbO.find t = some tbO) (hfn : dbN.find t = some tbN)
    (hc : Abs.OrderCompatible tbN.colNames tbO.colNames) (hne : ∀ n ∈ tbN.colNames ++ tbO.colNames, n ≠ "") :
    ∃ td ∈ d.tables, td.name = t ∧ td.migrationColumnUp g = .ok (Table.walkCols g t true [] td.cols) ∧
      ∃ db' tb', execAll false dbO (Table.walkCols g t true [] td.cols).1 = some db' ∧
        db'.find t = some tb' ∧ colsEquiv tb'.cols tbN.cols = true ∧
        (∀ u, u ≠ t → db'.find u = dbO.find u) ∧ db'.map (·.name) = dbO.map (·.name) := by
  obtain ⟨td, htd, hname, _, hup, cols', hex, heq, hss, hnd⟩ := columns_spec_up_pre g hg hio rc old new dbO dbN ho hn hpo hpn heo hen d hd
    t tbO tbN hfo hfn hc hne
  obtain ⟨db', tb', he', hf', hc', hother, hnames'⟩ := execAll_of_colExecAll _ dbO t tbO cols' hnd hfo hss hex
  exact ⟨td, htd, hname, hup, db', tb', he', hf', by rw [hc']; exact heq, hother, hnames'⟩

end Sqlize
