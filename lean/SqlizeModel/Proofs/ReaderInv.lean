/-
  Proofs/ReaderInv.lean — the three reader models preserve the migration invariant: every state reached by loading
  scripts (one call or many) from the empty model satisfies `Migration.Inv`, provided each RENAME targets a name the
  table does not hold at that point (`RenameFresh`, a condition on the run that every engine-accepted script meets:
  SQL engines reject a rename onto an existing name).
-/
import SqlizeModel.Proofs.InvLink
import SqlizeModel.Impl.Api

namespace Sqlize

/-- the condition a statement must meet in state `m` for Go's map bookkeeping to stay consistent -/
def renameFresh (nm : String → String) (m : Migration) : Stmt → Prop
  | .renameColumn t _ n => ∀ tb ∈ m.tables, tb.name = m.resolve (nm t) → nm n ∉ tb.colNames
  | .renameIndex t _ n => ∀ tb ∈ m.tables, tb.name = m.resolve (nm t) → nm n ∉ tb.idxNames
  | _ => True

/-- `renameFresh` along a run of `step` -/
def RenameFresh (nm : String → String) (step : Migration → Stmt → M Migration) : Migration → List Stmt → Prop
  | _, [] => True
  | m, s :: rest => renameFresh nm m s ∧ ∀ m1, step m s = .ok m1 → RenameFresh nm step m1 rest

namespace ReaderMysql

theorem addCols_inv (cols : List ColDef) : ∀ (m m' : Migration), m.Inv → addCols m cols = .ok m' → m'.Inv := by
  induction cols with
  | nil => intro m m' h hs; unfold addCols at hs; have := pure_ok hs; subst this; exact h
  | cons c rest ih =>
    intro m m' h hs
    unfold addCols at hs
    obtain ⟨m1, h1, hs⟩ := bind_ok hs
    exact ih m1 m' (Migration.addColumn_inv m m1 _ _ _ h h1) hs

theorem step_inv (m m' : Migration) (s : Stmt) (h : m.Inv) (hf : renameFresh id m s) (hs : step m s = .ok m') :
    m'.Inv := by
  cases s with
  | createTable t ident cols pk =>
    unfold step at hs
    obtain ⟨tb, htb, hs⟩ := bind_ok hs
    have htbi : tb.Inv := by
      by_cases hp : pk.isEmpty = true
      · rw [if_pos hp] at htb; have := pure_ok htb; subst this; exact Table.inv_new _ _
      · rw [if_neg hp] at htb; exact (Table.addIndex_inv _ _ _ (Table.inv_new _ _) htb).1
    obtain ⟨m1, h1, hs⟩ := bind_ok hs
    have hi1 := Migration.addTable_inv _ m1 tb (Migration.using_inv m t h) htbi h1
    exact addCols_inv cols _ m' (Migration.using_inv m1 t hi1) hs
  | dropTable t =>
    unfold step at hs
    obtain ⟨m1, h1, hs⟩ := bind_ok hs
    have := pure_ok hs; subst this
    exact Migration.using_inv m1 t (Migration.removeTable_inv m m1 t h h1)
  | addColumn t c pos =>
    unfold step at hs
    obtain ⟨m1, h1, hs⟩ := bind_ok hs
    have hi1 : m1.Inv := by
      cases hp : pos.toPos? with
      | none => rw [hp] at h1; have := pure_ok h1; subst this; exact h
      | some p => rw [hp] at h1; exact Migration.setColumnPosition_inv m m1 t p h h1
    exact Migration.addColumn_inv _ m' _ _ _ (Migration.using_inv m1 t hi1) hs
  | dropColumn t c =>
    unfold step at hs
    obtain ⟨m1, h1, hs⟩ := bind_ok hs
    have := pure_ok hs; subst this
    exact Migration.using_inv m1 t (Migration.removeColumn_inv m m1 t c h h1)
  | modifyColumn t c =>
    unfold step at hs
    obtain ⟨m1, h1, hs⟩ := bind_ok hs
    have hi1 := Migration.addColumn_inv m m1 _ _ _ h h1
    exact Migration.addColumn_inv _ m' _ _ _ (Migration.using_inv m1 t hi1) hs
  | renameColumn t o n =>
    unfold step at hs
    obtain ⟨m1, h1, hs⟩ := bind_ok hs
    have := pure_ok hs; subst this
    exact Migration.using_inv m1 t (Migration.renameColumn_inv m m1 t o n h hf h1)
  | addPrimaryKey t cols =>
    unfold step at hs
    obtain ⟨m1, h1, hs⟩ := bind_ok hs
    have := pure_ok hs; subst this
    exact Migration.using_inv m1 t (Migration.addIndex_inv m m1 t _ h h1)
  | dropPrimaryKey t =>
    unfold step at hs
    obtain ⟨m1, h1, hs⟩ := bind_ok hs
    have := pure_ok hs; subst this
    exact Migration.using_inv m1 t (Migration.removeIndex_inv m m1 t _ h h1)
  | addFk t name col rt rc =>
    unfold step at hs
    obtain ⟨m1, h1, hs⟩ := bind_ok hs
    have := pure_ok hs; subst this
    exact Migration.using_inv _ rt (Migration.using_inv m1 t (Migration.addForeignKey_inv m m1 t _ h h1))
  | dropFk t name =>
    unfold step at hs
    obtain ⟨m1, h1, hs⟩ := bind_ok hs
    have := pure_ok hs; subst this
    exact Migration.using_inv m1 t (Migration.removeForeignKey_inv m m1 t _ h h1)
  | renameIndex t o n =>
    unfold step at hs
    obtain ⟨m1, h1, hs⟩ := bind_ok hs
    have := pure_ok hs; subst this
    exact Migration.using_inv m1 t (Migration.renameIndex_inv m m1 t o n h hf h1)
  | createIndex t name cols uniq usingT =>
    unfold step at hs
    obtain ⟨m1, h1, hs⟩ := bind_ok hs
    have := pure_ok hs; subst this
    exact Migration.using_inv m1 t (Migration.addIndex_inv m m1 t _ h h1)
  | dropIndex t name =>
    unfold step at hs
    obtain ⟨m1, h1, hs⟩ := bind_ok hs
    have := pure_ok hs; subst this
    exact Migration.using_inv m1 t (Migration.removeIndex_inv m m1 t _ h h1)
  | commentOn t c text => unfold step at hs; cases hs
  | alterType t c typ => unfold step at hs; cases hs
  | setDefault t c d => unfold step at hs; cases hs
  | dropNotNull t c => unfold step at hs; cases hs

theorem run_inv (ss : List Stmt) : ∀ (m m' : Migration), m.Inv → RenameFresh id step m ss → run m ss = .ok m' →
    m'.Inv := by
  induction ss with
  | nil => intro m m' h _ hs; unfold run at hs; have := pure_ok hs; subst this; exact h
  | cons s rest ih =>
    intro m m' h hf hs
    unfold run at hs
    obtain ⟨m1, h1, hs⟩ := bind_ok hs
    exact ih m1 m' (step_inv m m1 s h hf.1 h1) (hf.2 m1 h1) hs

end ReaderMysql

/-- a monadic left fold of invariant-preserving steps preserves the invariant -/
theorem foldlM_inv {α : Type} (P : Migration → Prop) (f : Migration → α → M Migration)
    (hf : ∀ m m' a, P m → f m a = .ok m' → P m') (l : List α) :
    ∀ (m m' : Migration), P m → l.foldlM f m = .ok m' → P m' := by
  induction l with
  | nil => intro m m' h hs; rw [List.foldlM_nil] at hs; have := pure_ok hs; subst this; exact h
  | cons a r ih =>
    intro m m' h hs
    rw [List.foldlM_cons] at hs
    obtain ⟨m1, h1, hs⟩ := bind_ok hs
    exact ih m1 m' (hf m m1 a h h1) hs

namespace ReaderPg

theorem addIdxs_inv (tb : String) (is : List Index) : ∀ (m m' : Migration), m.Inv → addIdxs m tb is = .ok m' →
    m'.Inv := by
  induction is with
  | nil => intro m m' h hs; unfold addIdxs at hs; have := pure_ok hs; subst this; exact h
  | cons i rest ih =>
    intro m m' h hs
    unfold addIdxs at hs
    obtain ⟨m1, h1, hs⟩ := bind_ok hs
    exact ih m1 m' (Migration.addIndex_inv m m1 _ _ h h1) hs

theorem addCols_inv (cols : List ColDef) : ∀ (m m' : Migration), m.Inv → addCols m cols = .ok m' → m'.Inv := by
  induction cols with
  | nil => intro m m' h hs; unfold addCols at hs; have := pure_ok hs; subst this; exact h
  | cons c rest ih =>
    intro m m' h hs
    unfold addCols at hs
    simp only at hs
    obtain ⟨m1, h1, hs⟩ := bind_ok hs
    obtain ⟨m2, h2, hs⟩ := bind_ok hs
    have hi1 := Migration.addColumn_inv m m1 _ _ _ h h1
    exact ih m2 m' (addIdxs_inv _ _ m1 m2 hi1 h2) hs

theorem step_inv (m m' : Migration) (s : Stmt) (h : m.Inv) (hf : renameFresh pgName m s) (hs : step m s = .ok m') :
    m'.Inv := by
  cases s with
  | createTable t ident cols pk =>
    unfold step at hs
    obtain ⟨m1, h1, hs⟩ := bind_ok hs
    have hi1 := Migration.addTable_inv m m1 _ h (Table.inv_new _ _) h1
    exact addCols_inv cols _ m' (Migration.using_inv m1 t hi1) hs
  | dropTable t => unfold step at hs; have := pure_ok hs; subst this; exact h
  | addColumn t c pos =>
    unfold step at hs
    simp only at hs
    obtain ⟨m1, h1, hs⟩ := bind_ok hs
    exact addIdxs_inv _ _ m1 m' (Migration.addColumn_inv m m1 _ _ _ h h1) hs
  | dropColumn t c => unfold step at hs; exact Migration.removeColumn_inv m m' _ _ h hs
  | modifyColumn t c => unfold step at hs; cases hs
  | renameColumn t o n => unfold step at hs; exact Migration.renameColumn_inv m m' _ _ _ h hf hs
  | addPrimaryKey t cols => unfold step at hs; exact Migration.addIndex_inv m m' _ _ h hs
  | dropPrimaryKey t => unfold step at hs; cases hs
  | addFk t name col rt rc => unfold step at hs; exact Migration.addForeignKey_inv m m' _ _ h hs
  | dropFk t name =>
    unfold step at hs
    simp only at hs
    split at hs
    · exact Migration.removeForeignKey_inv m m' _ _ h hs
    · exact Migration.removeIndex_inv m m' _ _ h hs
  | renameIndex t o n => unfold step at hs; cases hs
  | createIndex t name cols uniq usingT => unfold step at hs; exact Migration.addIndex_inv m m' _ _ h hs
  | dropIndex t name => unfold step at hs; exact Migration.removeIndex_inv m m' _ _ h hs
  | commentOn t c text => unfold step at hs; exact Migration.addComment_inv m m' _ _ _ h hs
  | alterType t c typ => unfold step at hs; exact Migration.addColumn_inv m m' _ _ _ h hs
  | setDefault t c d => unfold step at hs; exact Migration.addColumn_inv m m' _ _ _ h hs
  | dropNotNull t c => unfold step at hs; have := pure_ok hs; subst this; exact h

theorem steps_inv (ss : List Stmt) : ∀ (m m' : Migration), m.Inv → RenameFresh pgName step m ss →
    ss.foldlM step m = .ok m' → m'.Inv := by
  induction ss with
  | nil => intro m m' h _ hs; rw [List.foldlM_nil] at hs; have := pure_ok hs; subst this; exact h
  | cons s rest ih =>
    intro m m' h hf hs
    rw [List.foldlM_cons] at hs
    obtain ⟨m1, h1, hs⟩ := bind_ok hs
    exact ih m1 m' (step_inv m m1 s h hf.1 h1) (hf.2 m1 h1) hs

theorem run_inv (ss : List Stmt) (m m' : Migration) (h : m.Inv) (hf : RenameFresh pgName step m ss)
    (hs : run m ss = .ok m') : m'.Inv := by
  unfold run at hs
  split at hs
  · cases hs
  · exact steps_inv ss m m' h hf hs

end ReaderPg

namespace ReaderSqlite

/-- the SQLite reader model has no rename statement: no side condition -/
theorem step_inv (m m' : Migration) (s : Stmt) (h : m.Inv) (hs : step m s = .ok m') : m'.Inv := by
  cases s with
  | createTable t ident cols pk =>
    unfold step at hs
    simp only at hs
    split at hs
    · cases hs
    · obtain ⟨m1, h1, hs⟩ := bind_ok hs
      have hi1 := Migration.addTable_inv m m1 _ h (Table.inv_new _ _) h1
      refine foldlM_inv Migration.Inv _ ?_ cols _ m' (Migration.using_inv m1 _ hi1) hs
      intro a a' c ha hc
      obtain ⟨col, _, hc⟩ := bind_ok hc
      exact Migration.addColumn_inv a a' _ _ _ ha hc
  | createIndex t name cols uniq u =>
    unfold step at hs
    simp only at hs
    split at hs
    · cases hs
    · exact Migration.addIndex_inv m m' _ _ h hs
  | dropTable t => unfold step at hs; cases hs
  | addColumn t c pos => unfold step at hs; cases hs
  | dropColumn t c => unfold step at hs; cases hs
  | modifyColumn t c => unfold step at hs; cases hs
  | renameColumn t o n => unfold step at hs; cases hs
  | addPrimaryKey t cols => unfold step at hs; cases hs
  | dropPrimaryKey t => unfold step at hs; cases hs
  | addFk t name col rt rc => unfold step at hs; cases hs
  | dropFk t name => unfold step at hs; cases hs
  | renameIndex t o n => unfold step at hs; cases hs
  | dropIndex t name => unfold step at hs; cases hs
  | commentOn t c text => unfold step at hs; cases hs
  | alterType t c typ => unfold step at hs; cases hs
  | setDefault t c d => unfold step at hs; cases hs
  | dropNotNull t c => unfold step at hs; cases hs

theorem run_inv (ss : List Stmt) (m m' : Migration) (h : m.Inv) (hs : run m ss = .ok m') : m'.Inv :=
  foldlM_inv Migration.Inv step (fun a a' s ha hs => step_inv a a' s ha hs) ss m m' h hs

end ReaderSqlite

/-- the run-time side condition of `readScript`, per dialect -/
def ScriptFresh (g : Globals) (m : Migration) (ss : List Stmt) : Prop :=
  match g.dialect with
  | .mysql => RenameFresh id ReaderMysql.step m ss
  | .postgres => RenameFresh pgName ReaderPg.step m ss
  | .sqlite => True

/-- **every reader preserves the invariant** -/
theorem readScript_inv (g : Globals) (m m' : Migration) (ss : List Stmt) (h : m.Inv) (hf : ScriptFresh g m ss)
    (hs : readScript g m ss = .ok m') : m'.Inv := by
  unfold readScript at hs
  unfold ScriptFresh at hf
  cases hd : g.dialect with
  | mysql => rw [hd] at hs hf; exact ReaderMysql.run_inv ss m m' h hf hs
  | postgres => rw [hd] at hs hf; exact ReaderPg.run_inv ss m m' h hf hs
  | sqlite => rw [hd] at hs; exact ReaderSqlite.run_inv ss m m' h hs

/-- loading a script in any number of calls (`fromString`, whatever each call's parse outcome) keeps the invariant -/
theorem fromString_inv (g : Globals) (m : Migration) (parsed : Except String (List Stmt)) (h : m.Inv)
    (hf : ∀ ss, parsed = .ok ss → ScriptFresh g m ss) : (fromString g m parsed).1.Inv := by
  unfold fromString
  cases parsed with
  | error e => exact h
  | ok ss =>
    simp only
    cases hr : readScript g m ss with
    | error e => exact h
    | ok m' => exact readScript_inv g m m' ss h (hf ss rfl) hr

end Sqlize
