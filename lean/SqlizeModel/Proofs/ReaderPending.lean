/-
  Proofs/ReaderPending.lean — after every reader step no table carries a pending column position, provided a
  positional `ADD COLUMN … FIRST|AFTER` does not name a column the table already created in this history (`posFresh`;
  every engine rejects such a statement as a duplicate column).  With `readScript_inv` this discharges the
  `NoPending` hypothesis of `Migration.diff_inv` for the loaded new side.
-/
import SqlizeModel.Proofs.Pending

namespace Sqlize

def posFresh (m : Migration) : Stmt → Prop
  | .addColumn t c pos => pos ≠ .none → ∀ tb ∈ m.tables, tb.name = m.resolve t → ¬ tb.mergeHit c.name
  | _ => True

def PosFresh (step : Migration → Stmt → M Migration) : Migration → List Stmt → Prop
  | _, [] => True
  | m, s :: rest => posFresh m s ∧ ∀ m1, step m s = .ok m1 → PosFresh step m1 rest

theorem resolve_using (m : Migration) (t : String) : (m.using_ t).resolve "" = m.resolve t := by
  unfold Migration.using_ Migration.resolve
  by_cases h : t = ""
  · subst h; simp
  · have h1 : (t != "") = true := by simpa using h
    have h2 : (t == "") = false := by simpa using h
    simp [h1, h2]

theorem using_tables (m : Migration) (t : String) : (m.using_ t).tables = m.tables := by
  unfold Migration.using_; split <;> rfl

theorem using_noPending (m : Migration) (t : String) (h : m.NoPending) : (m.using_ t).NoPending := by
  intro x hx; rw [using_tables] at hx; exact h x hx

namespace ReaderMysql

theorem addCols_noPending (cols : List ColDef) : ∀ (m m' : Migration), m.Inv → m.NoPending →
    addCols m cols = .ok m' → m'.NoPending := by
  induction cols with
  | nil => intro m m' _ hp hs; unfold addCols at hs; have := pure_ok hs; subst this; exact hp
  | cons c rest ih =>
    intro m m' h hp hs
    unfold addCols at hs
    obtain ⟨m1, h1, hs⟩ := bind_ok hs
    exact ih m1 m' (Migration.addColumn_inv m m1 _ _ _ h h1)
      (Migration.addColumn_pending m m1 _ _ _ h (hp.only _) (fun t ht _ => Or.inl (hp t ht)) h1) hs

theorem step_noPending (m m' : Migration) (s : Stmt) (h : m.Inv) (hp : m.NoPending) (hf : posFresh m s)
    (hs : step m s = .ok m') : m'.NoPending := by
  cases s with
  | createTable t ident cols pk =>
    unfold step at hs
    obtain ⟨tb, htb, hs⟩ := bind_ok hs
    have htbi : tb.Inv ∧ tb.pendingPos = none := by
      by_cases hpk : pk.isEmpty = true
      · rw [if_pos hpk] at htb; have := pure_ok htb; subst this; exact ⟨Table.inv_new _ _, rfl⟩
      · rw [if_neg hpk] at htb
        exact ⟨(Table.addIndex_inv _ _ _ (Table.inv_new _ _) htb).1, Table.addIndex_pending _ _ _ htb⟩
    obtain ⟨m1, h1, hs⟩ := bind_ok hs
    have hu := Migration.using_inv m t h
    have hi1 := Migration.addTable_inv _ m1 tb hu htbi.1 h1
    have hp1 := Migration.addTable_pending _ m1 tb (using_noPending m t hp) htbi.2 h1
    exact addCols_noPending cols _ m' (Migration.using_inv m1 t hi1) (using_noPending m1 t hp1) hs
  | dropTable t =>
    unfold step at hs
    obtain ⟨m1, h1, hs⟩ := bind_ok hs
    have := pure_ok hs; subst this
    exact using_noPending m1 t (Migration.removeTable_pending m m1 t hp h1)
  | addColumn t c pos =>
    unfold step at hs
    obtain ⟨m1, h1, hs⟩ := bind_ok hs
    cases hpos : pos.toPos? with
    | none =>
      rw [hpos] at h1
      have := pure_ok h1; subst this
      exact Migration.addColumn_pending _ m' _ _ _ (Migration.using_inv m t h)
        ((using_noPending m t hp).only _) (fun x hx _ => Or.inl (using_noPending m t hp x hx)) hs
    | some p =>
      rw [hpos] at h1
      have hne : pos ≠ .none := by intro e; rw [e] at hpos; cases hpos
      obtain ⟨hpo, hcur, hrel⟩ := Migration.setColumnPosition_spec m m1 t p h hp h1
      have hi1 := Migration.setColumnPosition_inv m m1 t p h h1
      have hres : (m1.using_ t).resolve "" = m.resolve t := by
        rw [resolve_using]; unfold Migration.resolve; rw [hcur]
      refine Migration.addColumn_pending _ m' _ _ _ (Migration.using_inv m1 t hi1) ?_ ?_ hs
      · rw [hres]; intro x hx; rw [using_tables] at hx; exact hpo x hx
      · intro x hx hxn
        rw [using_tables] at hx
        rw [hres] at hxn
        right
        obtain ⟨x0, hx0, hn, hc, hci⟩ := hrel x hx
        intro ⟨id, col, hg, hcol, ha⟩
        exact hf hne x0 hx0 (hn ▸ hxn) ⟨id, col, hci ▸ hg, hc ▸ hcol, ha⟩
  | dropColumn t c =>
    unfold step at hs
    obtain ⟨m1, h1, hs⟩ := bind_ok hs
    have := pure_ok hs; subst this
    exact using_noPending m1 t (Migration.removeColumn_pending m m1 t c h hp h1)
  | modifyColumn t c =>
    unfold step at hs
    obtain ⟨m1, h1, hs⟩ := bind_ok hs
    have hi1 := Migration.addColumn_inv m m1 _ _ _ h h1
    have hp1 := Migration.addColumn_pending m m1 _ _ _ h (hp.only _) (fun x hx _ => Or.inl (hp x hx)) h1
    exact Migration.addColumn_pending _ m' _ _ _ (Migration.using_inv m1 t hi1)
      ((using_noPending m1 t hp1).only _) (fun x hx _ => Or.inl (using_noPending m1 t hp1 x hx)) hs
  | renameColumn t o n =>
    unfold step at hs
    obtain ⟨m1, h1, hs⟩ := bind_ok hs
    have := pure_ok hs; subst this
    exact using_noPending m1 t (Migration.renameColumn_pending m m1 t o n h hp h1)
  | addPrimaryKey t cols =>
    unfold step at hs
    obtain ⟨m1, h1, hs⟩ := bind_ok hs
    have := pure_ok hs; subst this
    exact using_noPending m1 t (Migration.addIndex_pending m m1 t _ h hp h1)
  | dropPrimaryKey t =>
    unfold step at hs
    obtain ⟨m1, h1, hs⟩ := bind_ok hs
    have := pure_ok hs; subst this
    exact using_noPending m1 t (Migration.removeIndex_pending m m1 t _ h hp h1)
  | addFk t name col rt rc =>
    unfold step at hs
    obtain ⟨m1, h1, hs⟩ := bind_ok hs
    have := pure_ok hs; subst this
    exact using_noPending _ rt (using_noPending m1 t (Migration.addForeignKey_pending m m1 t _ h hp h1))
  | dropFk t name =>
    unfold step at hs
    obtain ⟨m1, h1, hs⟩ := bind_ok hs
    have := pure_ok hs; subst this
    exact using_noPending m1 t (Migration.removeForeignKey_pending m m1 t _ h hp h1)
  | renameIndex t o n =>
    unfold step at hs
    obtain ⟨m1, h1, hs⟩ := bind_ok hs
    have := pure_ok hs; subst this
    exact using_noPending m1 t (Migration.renameIndex_pending m m1 t o n h hp h1)
  | createIndex t name cols uniq usingT =>
    unfold step at hs
    obtain ⟨m1, h1, hs⟩ := bind_ok hs
    have := pure_ok hs; subst this
    exact using_noPending m1 t (Migration.addIndex_pending m m1 t _ h hp h1)
  | dropIndex t name =>
    unfold step at hs
    obtain ⟨m1, h1, hs⟩ := bind_ok hs
    have := pure_ok hs; subst this
    exact using_noPending m1 t (Migration.removeIndex_pending m m1 t _ h hp h1)
  | commentOn t c text => unfold step at hs; cases hs
  | alterType t c typ => unfold step at hs; cases hs
  | setDefault t c d => unfold step at hs; cases hs
  | dropNotNull t c => unfold step at hs; cases hs

theorem run_noPending (ss : List Stmt) : ∀ (m m' : Migration), m.Inv → m.NoPending → RenameFresh id step m ss →
    PosFresh step m ss → run m ss = .ok m' → m'.NoPending := by
  induction ss with
  | nil => intro m m' _ hp _ _ hs; unfold run at hs; have := pure_ok hs; subst this; exact hp
  | cons s rest ih =>
    intro m m' h hp hf hq hs
    unfold run at hs
    obtain ⟨m1, h1, hs⟩ := bind_ok hs
    exact ih m1 m' (step_inv m m1 s h hf.1 h1) (step_noPending m m1 s h hp hq.1 h1) (hf.2 m1 h1) (hq.2 m1 h1) hs

end ReaderMysql

/-- fold of steps that keep (invariant ∧ no pending position) -/
theorem foldlM_inv2 {α : Type} (f : Migration → α → M Migration)
    (hf : ∀ m m' a, m.Inv → m.NoPending → f m a = .ok m' → m'.Inv ∧ m'.NoPending) (l : List α) :
    ∀ (m m' : Migration), m.Inv → m.NoPending → l.foldlM f m = .ok m' → m'.NoPending := by
  induction l with
  | nil => intro m m' _ hp hs; rw [List.foldlM_nil] at hs; have := pure_ok hs; subst this; exact hp
  | cons a r ih =>
    intro m m' h hp hs
    rw [List.foldlM_cons] at hs
    obtain ⟨m1, h1, hs⟩ := bind_ok hs
    obtain ⟨a1, a2⟩ := hf m m1 a h hp h1
    exact ih m1 m' a1 a2 hs

namespace ReaderPg

theorem addIdxs_noPending (tb : String) (is : List Index) : ∀ (m m' : Migration), m.Inv → m.NoPending →
    addIdxs m tb is = .ok m' → m'.NoPending := by
  induction is with
  | nil => intro m m' _ hp hs; unfold addIdxs at hs; have := pure_ok hs; subst this; exact hp
  | cons i rest ih =>
    intro m m' h hp hs
    unfold addIdxs at hs
    obtain ⟨m1, h1, hs⟩ := bind_ok hs
    exact ih m1 m' (Migration.addIndex_inv m m1 _ _ h h1) (Migration.addIndex_pending m m1 _ _ h hp h1) hs

theorem addCols_noPending (cols : List ColDef) : ∀ (m m' : Migration), m.Inv → m.NoPending →
    addCols m cols = .ok m' → m'.NoPending := by
  induction cols with
  | nil => intro m m' _ hp hs; unfold addCols at hs; have := pure_ok hs; subst this; exact hp
  | cons c rest ih =>
    intro m m' h hp hs
    unfold addCols at hs
    simp only at hs
    obtain ⟨m1, h1, hs⟩ := bind_ok hs
    obtain ⟨m2, h2, hs⟩ := bind_ok hs
    have hi1 := Migration.addColumn_inv m m1 _ _ _ h h1
    have hp1 := Migration.addColumn_pending m m1 _ _ _ h (hp.only _) (fun x hx _ => Or.inl (hp x hx)) h1
    exact ih m2 m' (addIdxs_inv _ _ m1 m2 hi1 h2) (addIdxs_noPending _ _ m1 m2 hi1 hp1 h2) hs

/-- the Postgres reader never sets a position -/
theorem step_noPending (m m' : Migration) (s : Stmt) (h : m.Inv) (hp : m.NoPending) (hs : step m s = .ok m') :
    m'.NoPending := by
  cases s with
  | createTable t ident cols pk =>
    unfold step at hs
    obtain ⟨m1, h1, hs⟩ := bind_ok hs
    have hi1 := Migration.addTable_inv m m1 _ h (Table.inv_new _ _) h1
    have hp1 := Migration.addTable_pending m m1 _ hp rfl h1
    exact addCols_noPending cols _ m' (Migration.using_inv m1 t hi1) (using_noPending m1 t hp1) hs
  | dropTable t => unfold step at hs; have := pure_ok hs; subst this; exact hp
  | addColumn t c pos =>
    unfold step at hs
    simp only at hs
    obtain ⟨m1, h1, hs⟩ := bind_ok hs
    have hi1 := Migration.addColumn_inv m m1 _ _ _ h h1
    have hp1 := Migration.addColumn_pending m m1 _ _ _ h (hp.only _) (fun x hx _ => Or.inl (hp x hx)) h1
    exact addIdxs_noPending _ _ m1 m' hi1 hp1 hs
  | dropColumn t c => unfold step at hs; exact Migration.removeColumn_pending m m' _ _ h hp hs
  | modifyColumn t c => unfold step at hs; cases hs
  | renameColumn t o n => unfold step at hs; exact Migration.renameColumn_pending m m' _ _ _ h hp hs
  | addPrimaryKey t cols => unfold step at hs; exact Migration.addIndex_pending m m' _ _ h hp hs
  | dropPrimaryKey t => unfold step at hs; cases hs
  | addFk t name col rt rc => unfold step at hs; exact Migration.addForeignKey_pending m m' _ _ h hp hs
  | dropFk t name =>
    unfold step at hs
    simp only at hs
    split at hs
    · exact Migration.removeForeignKey_pending m m' _ _ h hp hs
    · exact Migration.removeIndex_pending m m' _ _ h hp hs
  | renameIndex t o n => unfold step at hs; cases hs
  | createIndex t name cols uniq usingT => unfold step at hs; exact Migration.addIndex_pending m m' _ _ h hp hs
  | dropIndex t name => unfold step at hs; exact Migration.removeIndex_pending m m' _ _ h hp hs
  | commentOn t c text => unfold step at hs; exact Migration.addComment_pending m m' _ _ _ h hp hs
  | alterType t c typ =>
    unfold step at hs
    exact Migration.addColumn_pending m m' _ _ _ h (hp.only _) (fun x hx _ => Or.inl (hp x hx)) hs
  | setDefault t c d =>
    unfold step at hs
    exact Migration.addColumn_pending m m' _ _ _ h (hp.only _) (fun x hx _ => Or.inl (hp x hx)) hs
  | dropNotNull t c => unfold step at hs; have := pure_ok hs; subst this; exact hp

theorem run_noPending (ss : List Stmt) : ∀ (m m' : Migration), m.Inv → m.NoPending →
    RenameFresh pgName step m ss → run m ss = .ok m' → m'.NoPending := by
  intro m m' h hp hf hs
  unfold run at hs
  split at hs
  · cases hs
  · clear ‹¬ _›
    induction ss generalizing m with
    | nil => rw [List.foldlM_nil] at hs; have := pure_ok hs; subst this; exact hp
    | cons s rest ih =>
      rw [List.foldlM_cons] at hs
      obtain ⟨m1, h1, hs⟩ := bind_ok hs
      exact ih m1 (step_inv m m1 s h hf.1 h1) (step_noPending m m1 s h hp h1) (hf.2 m1 h1) hs

end ReaderPg

namespace ReaderSqlite

theorem step_noPending (m m' : Migration) (s : Stmt) (h : m.Inv) (hp : m.NoPending) (hs : step m s = .ok m') :
    m'.NoPending := by
  cases s with
  | createTable t ident cols pk =>
    unfold step at hs
    simp only at hs
    split at hs
    · cases hs
    · obtain ⟨m1, h1, hs⟩ := bind_ok hs
      have hi1 := Migration.addTable_inv m m1 _ h (Table.inv_new _ _) h1
      have hp1 := Migration.addTable_pending m m1 _ hp rfl h1
      refine foldlM_inv2 _ ?_ cols _ m' (Migration.using_inv m1 _ hi1) (using_noPending m1 _ hp1) hs
      intro a a' c ha hpa hc
      obtain ⟨col, _, hc⟩ := bind_ok hc
      exact ⟨Migration.addColumn_inv a a' _ _ _ ha hc,
        Migration.addColumn_pending a a' _ _ _ ha (hpa.only _) (fun x hx _ => Or.inl (hpa x hx)) hc⟩
  | createIndex t name cols uniq u =>
    unfold step at hs
    simp only at hs
    split at hs
    · cases hs
    · exact Migration.addIndex_pending m m' _ _ h hp hs
  | dropTable t => unfold step at hs; cases hs
  | addColumn t c pos => unfold step at hs; cases hs
  | dropColumn t c => unfold step at hs; cases hs
  | modifyColumn t c => unfold step at hs; cases hs
  | renameColumn t o n => unfold step at hs; cases hs
  | addPrimaryKey t cols => unfold step at hs; cases hs
  | dropPrimaryKey t => unfold step at hs; cases hs
  | addFk t name col rt rc => unfold step at hs; cases hs
  | dropFk t name => unfold step at hs; cases hs
  | renameIndex t o n => unfold step at hs; cases hs
  | dropIndex t name => unfold step at hs; cases hs
  | commentOn t c text => unfold step at hs; cases hs
  | alterType t c typ => unfold step at hs; cases hs
  | setDefault t c d => unfold step at hs; cases hs
  | dropNotNull t c => unfold step at hs; cases hs

theorem run_noPending (ss : List Stmt) (m m' : Migration) (h : m.Inv) (hp : m.NoPending) (hs : run m ss = .ok m') :
    m'.NoPending :=
  foldlM_inv2 step (fun a a' s ha hpa hs => ⟨step_inv a a' s ha hs, step_noPending a a' s ha hpa hs⟩) ss m m' h hp hs

end ReaderSqlite

/-- the positional side condition of `readScript` (only the MySQL reader understands FIRST / AFTER) -/
def ScriptPos (g : Globals) (m : Migration) (ss : List Stmt) : Prop :=
  match g.dialect with
  | .mysql => PosFresh ReaderMysql.step m ss
  | _ => True

theorem readScript_noPending (g : Globals) (m m' : Migration) (ss : List Stmt) (h : m.Inv) (hp : m.NoPending)
    (hf : ScriptFresh g m ss) (hq : ScriptPos g m ss) (hs : readScript g m ss = .ok m') : m'.NoPending := by
  unfold readScript at hs
  unfold ScriptFresh at hf
  unfold ScriptPos at hq
  cases hd : g.dialect with
  | mysql => rw [hd] at hs hf hq; exact ReaderMysql.run_noPending ss m m' h hp hf hq hs
  | postgres => rw [hd] at hs hf; exact ReaderPg.run_noPending ss m m' h hp hf hs
  | sqlite => rw [hd] at hs; exact ReaderSqlite.run_noPending ss m m' h hp hs

def Stmt.isPositional : Stmt → Bool
  | .addColumn _ _ .none => false
  | .addColumn .. => true
  | _ => false

theorem posFresh_of_not_positional (m : Migration) (s : Stmt) (h : s.isPositional = false) : posFresh m s := by
  cases s with
  | addColumn t c pos =>
    cases pos with
    | none => intro hne; exact absurd rfl hne
    | first => simp [Stmt.isPositional] at h
    | after r => simp [Stmt.isPositional] at h
  | _ => trivial

/-- a script without positional adds meets the positional side condition in every state -/
theorem scriptPos_of_no_positional (g : Globals) (m : Migration) (ss : List Stmt)
    (h : ss.all (fun s => !s.isPositional) = true) : ScriptPos g m ss := by
  unfold ScriptPos
  cases g.dialect with
  | mysql =>
    simp only
    induction ss generalizing m with
    | nil => trivial
    | cons s rest ih =>
      simp only [List.all_cons, Bool.and_eq_true, Bool.not_eq_true'] at h
      exact ⟨posFresh_of_not_positional m s h.1, fun m1 _ => ih m1 h.2⟩
  | postgres => trivial
  | sqlite => trivial

/-- **everything `Sqlize.Diff` can leave behind satisfies the invariant**: both sides loaded from the empty model by
    scripts meeting the run-time side conditions (renames onto fresh names, positional adds of new columns) -/
theorem loadAndDiff_inv' (g : Globals) (old new : List Stmt) (d : Migration) (hfo : ScriptFresh g {} old)
    (hfn : ScriptFresh g {} new) (hqn : ScriptPos g {} new) (hs : loadAndDiff g old new = .ok d) : d.Inv :=
  loadAndDiff_inv g old new d hfo hfn
    (fun n hn => readScript_noPending g {} n new Migration.inv_empty Migration.noPending_empty hfn hqn hn) hs

end Sqlize
