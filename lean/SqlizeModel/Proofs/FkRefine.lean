/-
  Proofs/FkRefine.lean — the foreign-key walk of the up migration in the presence of dropped columns refines
  `Abs.Idx.emitKeepSup`: ADD CONSTRAINT for the keys only the new side has, DROP for the keys only the old side has except
  those on a dropped column, nothing for a key found on both sides.
-/
import SqlizeModel.Proofs.IdxRefine
import SqlizeModel.Abs.FkDrop

namespace Sqlize
open Spec Abs.Idx

namespace Table

/-- what the key walk prints for one record when `dc` are the dropped columns -/
def fkSupStmts (dc : List String) (tb : String) (f : ForeignKey) : List Stmt :=
  if f.action == .remove && dc.contains f.column then [] else f.migrationUp tb

theorem walkFk_sup (tb : String) (dc : List String) (fks : List ForeignKey) :
    walkFk tb true dc fks = fks.flatMap (fkSupStmts dc tb) := by
  unfold walkFk
  congr 1
  funext f
  unfold fkSupStmts
  by_cases hn : f.action = .none
  · simp [hn, ForeignKey.migrationUp]
  · have h1 : (f.action != .none) = true := by simpa using hn
    by_cases hr : f.action = .remove
    · cases hc : dc.contains f.column <;> simp [hr, hc]
    · have h2 : (f.action != .remove) = true := by simpa using hr
      have h3 : (f.action == .remove) = false := by simpa using hr
      simp [h1, h2, h3]

/-- the records of the new side: a key the old side does not have is created, a key it has gets nothing -/
theorem walkFk_new_half (tb : String) (t o : Table) (ht : ∀ f ∈ t.fks, f.action = .add) :
    (t.fks.map (tagFk o)).flatMap (fun f => (f.migrationUp tb).filterMap fkStmt) =
      ((fkSpecOf t.fks).filter (fun s => !(names (fkSpecOf o.fks)).contains (Named.name s))).map IStmt.create := by
  unfold fkSpecOf
  rw [List.flatMap_map]
  have : ∀ l : List ForeignKey, (∀ f ∈ l, f.action = .add) →
      l.flatMap (fun f => ((tagFk o f).migrationUp tb).filterMap fkStmt) =
        ((l.map ForeignKey.toSpec).filter (fun s => !(names (o.fks.map ForeignKey.toSpec)).contains (Named.name s))).map
          IStmt.create := by
    intro l
    induction l with
    | nil => intro _; rfl
    | cons f r ih =>
      intro hl
      rw [List.flatMap_cons, ih (fun x hx => hl x (by simp [hx])), List.map_cons, List.filter_cons]
      have hnm : Named.name f.toSpec = f.name := rfl
      have hnames : names (o.fks.map ForeignKey.toSpec) = o.fks.map (·.name) := by
        show (o.fks.map ForeignKey.toSpec).map (fun s : FkSpec => Named.name s) = _
        rw [List.map_map]; rfl
      rw [hnm, hnames]
      unfold tagFk
      cases hf : o.fks.find? (fun y => y.name == f.name) with
      | none =>
        have hnot : f.name ∉ o.fks.map (·.name) := by
          intro hm
          obtain ⟨x, hx, he⟩ := List.mem_map.mp hm
          have := List.find?_eq_none.mp hf x hx
          simp [he] at this
        have hc : (!(o.fks.map (·.name)).contains f.name) = true := by simpa using hnot
        rw [hc]
        simp [ForeignKey.migrationUp, hl f (by simp), fkStmt, ForeignKey.toSpec]
      | some of_ =>
        have hin : f.name ∈ o.fks.map (·.name) := by
          have h1 := List.mem_of_find?_eq_some hf
          have h2 : of_.name = f.name := by simpa using List.find?_some hf
          exact h2 ▸ List.mem_map_of_mem h1
        have hc : (!(o.fks.map (·.name)).contains f.name) = false := by simpa using hin
        rw [hc]
        simp [ForeignKey.migrationUp]
  exact this t.fks ht

/-- **the key walk with a dropped-column list refines `Abs.Idx.emitKeepSup`** -/
theorem walkFk_refines_sup (tb : String) (dc : List String) (t o : Table) (ht : ∀ f ∈ t.fks, f.action = .add) :
    (walkFk tb true dc
        (t.fks.map (tagFk o) ++
          (o.fks.filter (fun f => !t.fkNames.contains f.name)).map (fun f => { f with action := .remove }))).filterMap fkStmt =
      emitKeepSup dc (fkSpecOf t.fks) (fkSpecOf o.fks) := by
  rw [walkFk_sup, filterMap_flatMap', List.flatMap_append]
  unfold emitKeepSup
  have hnew : (t.fks.map (tagFk o)).flatMap (fun f => (fkSupStmts dc tb f).filterMap fkStmt) =
      (t.fks.map (tagFk o)).flatMap (fun f => (f.migrationUp tb).filterMap fkStmt) := by
    apply flatMap_congr'
    intro f hf
    obtain ⟨f0, hf0, rfl⟩ := List.mem_map.mp hf
    have hna : (tagFk o f0).action ≠ .remove := by
      unfold tagFk
      cases o.fks.find? (fun y => y.name == f0.name) with
      | none => rw [ht f0 hf0]; decide
      | some x => simp
    unfold fkSupStmts
    have : ((tagFk o f0).action == .remove) = false := by simpa using hna
    simp [this]
  -- split the plain equation into its two halves by their shapes: prove each half directly instead
  congr 1
  · rw [hnew]
    exact walkFk_new_half tb t o ht
  · rw [List.flatMap_map]
    have hnames : names (fkSpecOf t.fks) = t.fkNames := by
      show ((t.fks.map ForeignKey.toSpec)).map (fun s : FkSpec => Named.name s) = _
      rw [List.map_map]; rfl
    rw [hnames]
    unfold fkSpecOf
    have : ∀ l : List ForeignKey,
        (l.filter (fun f => !t.fkNames.contains f.name)).flatMap
            (fun f => (fkSupStmts dc tb { f with action := .remove }).filterMap fkStmt) =
          ((l.map ForeignKey.toSpec).filter (fun o => !t.fkNames.contains o.name && !dc.contains o.col)).map
            (fun o => IStmt.drop o.name) := by
      intro l
      induction l with
      | nil => rfl
      | cons f r ih =>
        rw [List.filter_cons, List.map_cons, List.filter_cons]
        have e1 : (ForeignKey.toSpec f).name = f.name := rfl
        have e2 : (ForeignKey.toSpec f).col = f.column := rfl
        rw [e1, e2]
        cases h1 : t.fkNames.contains f.name <;> cases h2 : dc.contains f.column
        · simp only [Bool.not_false, Bool.and_self, if_true, List.flatMap_cons, List.map_cons, ih]
          have hm : f.column ∉ dc := by simpa using h2
          simp [fkSupStmts, hm, ForeignKey.migrationUp, fkStmt, ForeignKey.toSpec]
        · simp only [Bool.not_false, Bool.not_true, Bool.and_false, Bool.false_eq_true, if_false, if_true, List.flatMap_cons, ih]
          have hm : f.column ∈ dc := by simpa using h2
          simp [fkSupStmts, hm]
        · simp only [Bool.not_true, Bool.false_and, Bool.false_eq_true, if_false, ih]
        · simp only [Bool.not_true, Bool.false_and, Bool.false_eq_true, if_false, ih]
    exact this o.fks

end Table
end Sqlize
