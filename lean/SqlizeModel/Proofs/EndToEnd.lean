/-
  Proofs/EndToEnd.lean — C01 / C02, column clause, from scripts to printed statements, on the implementation model:
  two scripts accepted by the reference engine are loaded by the MySQL reader model (Proofs/FidelityMain), diffed by
  `Migration.Diff` (Proofs/MergeRefine for the column loops), and for every table present on both sides with
  order-compatible columns the ADD / DROP COLUMN statements that `MigrationColumnUp` / `Down` print for the diffed
  table (after `Arrange`, which is the identity there) turn the old side's column order into the new side's and back.
-/
import SqlizeModel.Proofs.FidelityMain

namespace Sqlize
open Spec

namespace Table

/-- name and action of every column record: what the column walk's ADD / DROP structure depends on -/
theorem absCols_of_sig {t t' : Table} (h : t'.sig = t.sig) : absCols t'.cols = absCols t.cols := by
  have := congrArg (List.map (fun (p : String × Action × Option String × List Spec.COpt) => (p.1, tagOfAction p.2.1))) h
  simpa [sig, absCols, List.map_map, Function.comp_def] using this

theorem diffIdx2_sig (ois : List Index) : ∀ (t t' : Table), diffIdx2 t ois = .ok t' → t'.sig = t.sig := by
  induction ois with
  | nil => intro t t' hs; unfold diffIdx2 at hs; have := pure_ok hs; subst this; rfl
  | cons oi rest ih =>
    intro t t' hs
    unfold diffIdx2 at hs
    obtain ⟨t1, h1, hs⟩ := bind_ok hs
    have h1s : t1.sig = t.sig := by
      split at h1
      · exact (addIndex_frame t t1 _ h1).sig
      · have := pure_ok h1; subst this; rfl
    rw [ih t1 t' hs, h1s]

theorem diffFk2_sig (ofs : List ForeignKey) : ∀ (t t' : Table), diffFk2 t ofs = .ok t' → t'.sig = t.sig := by
  induction ofs with
  | nil => intro t t' hs; unfold diffFk2 at hs; have := pure_ok hs; subst this; rfl
  | cons o rest ih =>
    intro t t' hs
    unfold diffFk2 at hs
    obtain ⟨t1, h1, hs⟩ := bind_ok hs
    have h1s : t1.sig = t.sig := by
      split at h1
      · exact (addForeignKey_frame t t1 _ h1).sig
      · have := pure_ok h1; subst this; rfl
    rw [ih t1 t' hs, h1s]

/-- `Table.Diff` = the two column loops, then loops that leave names and actions of the columns alone -/
theorem diff_decompose (d : Dialect) (t old t' : Table) (hs : t.diff d old = .ok t') :
    ∃ cols1 t1, diffCols1 d old t.cols = .ok cols1 ∧
      diffCols2 (d == .mysql) { t with cols := cols1 } [] old.cols = .ok t1 ∧ t'.sig = t1.sig := by
  unfold diff at hs
  obtain ⟨cols, hc, hs⟩ := bind_ok hs
  obtain ⟨t1, h1, hs⟩ := bind_ok hs
  obtain ⟨idxs, hi, hs⟩ := bind_ok hs
  obtain ⟨t2, h2, hs⟩ := bind_ok hs
  obtain ⟨fks, hf, hs⟩ := bind_ok hs
  refine ⟨cols, t1, hc, h1, ?_⟩
  have e3 := diffFk2_sig old.fks _ t' hs
  have e2 := diffIdx2_sig old.idxs _ t2 h2
  rw [e3]
  show t2.sig = t1.sig
  rw [e2]
  rfl

end Table

namespace Migration

/-- the table at position `i` after the first loop of `Migration.Diff` -/
theorem diffTables1_getElem (d : Dialect) (old : Migration) (ts : List Table) : ∀ (ts' : List Table) (i : Nat) (t : Table),
    diffTables1 d old ts = .ok ts' → ts[i]? = some t →
    ∃ t', ts'[i]? = some t' ∧
      (match old.tblIdx.get? t.name with
       | some j => ∃ ot, old.tables[j]? = some ot ∧
          (if ot.exists_ then ∃ t1, t.diff d ot = .ok t1 ∧ t' = { t1 with action := .none } else t' = t)
       | none => t' = t) := by
  induction ts with
  | nil => intro ts' i t _ h; simp at h
  | cons x rest ih =>
    intro ts' i t hs hi
    unfold diffTables1 at hs
    obtain ⟨x', hx, hs⟩ := bind_ok hs
    obtain ⟨rest', hr, hs⟩ := bind_ok hs
    have := pure_ok hs; subst this
    cases i with
    | zero =>
      have : x = t := by simpa using hi
      subst this
      refine ⟨x', by simp, ?_⟩
      cases hg : old.tblIdx.get? x.name with
      | none => rw [hg] at hx; have := pure_ok hx; subst this; rfl
      | some j =>
        rw [hg] at hx
        simp only at hx
        obtain ⟨ot, hot, hx⟩ := bind_ok hx
        refine ⟨ot, getIdx_ok hot, ?_⟩
        split at hx
        · rename_i he
          rw [if_pos he]
          obtain ⟨t1, h1, hx⟩ := bind_ok hx
          exact ⟨t1, h1, (pure_ok hx).symm⟩
        · rename_i he
          rw [if_neg he]
          exact (pure_ok hx).symm
    | succ k =>
      have hk : rest[k]? = some t := by simpa using hi
      obtain ⟨t', ht', hspec⟩ := ih rest' k t hr hk
      exact ⟨t', by simpa using ht', hspec⟩

/-- the second loop only appends -/
theorem diffTables2_prefix (ots : List Table) : ∀ (m m' : Migration), diffTables2 m ots = .ok m' →
    ∃ extra, m'.tables = m.tables ++ extra := by
  induction ots with
  | nil => intro m m' hs; unfold diffTables2 at hs; have := pure_ok hs; subst this; exact ⟨[], by simp⟩
  | cons ot rest ih =>
    intro m m' hs
    unfold diffTables2 at hs
    obtain ⟨m1, h1, hs⟩ := bind_ok hs
    have hm1 : ∃ e1, m1.tables = m.tables ++ e1 := by
      split at h1
      · rename_i hc
        simp only [Bool.and_eq_true, Option.isNone_iff_eq_none] at hc
        unfold addTable at h1
        have hg : m.tblIdx.get? ({ ot with action := Action.remove } : Table).name = none := hc.1
        rw [hg] at h1
        have := pure_ok h1; subst this
        exact ⟨[_], rfl⟩
      · have := pure_ok h1; subst this; exact ⟨[], by simp⟩
    obtain ⟨e1, he1⟩ := hm1
    obtain ⟨e2, he2⟩ := ih m1 m' hs
    exact ⟨e1 ++ e2, by rw [he2, he1, List.append_assoc]⟩

end Migration

/-- the record `Migration.Diff` leaves for a table present on both sides: named as the table, no action of its own,
    fixed by `Arrange`, columns = the tagged merged list of the two reference column lists -/
theorem diffed_record (g : Globals) (hg : g.dialect = .mysql) (rc : Bool)
    (old new : List Stmt) (dbO dbN : DB) (ho : old.all Stmt.colSafe = true) (hn : new.all Stmt.colSafe = true)
    (heo : execAll rc [] old = some dbO) (hen : execAll rc [] new = some dbN)
    (d : Migration) (hd : loadAndDiff g old new = .ok d)
    (t : String) (tbO tbN : TableSpec) (hfo : dbO.find t = some tbO) (hfn : dbN.find t = some tbN)
    (hne : ∀ n ∈ tbN.colNames ++ tbO.colNames, n ≠ "") :
    ∃ td ∈ d.tables, td.name = t ∧ td.action = .none ∧ td.arrange = .ok td ∧
      absCols td.cols = Abs.tagged tbN.colNames tbO.colNames ∧ (∀ c ∈ td.cols, SimpleAction c.action) ∧
      (∀ c ∈ ([] : List Column) ++ td.cols, c.name ≠ "") ∧ (td.cols.map (·.name)).Nodup ∧
      tbN.colNames.Nodup ∧ tbO.colNames.Nodup := by
  -- both sides loaded: related to their reference schemas
  unfold loadAndDiff at hd
  obtain ⟨o, hlo, hd⟩ := bind_ok hd
  obtain ⟨n, hln, hd⟩ := bind_ok hd
  have hro : Rel o dbO := by
    obtain ⟨m, hm, hr⟩ := ReaderMysql.run_rel rc old {} [] dbO Rel.empty ho heo
    have : readScript g {} old = .ok m := by unfold readScript; rw [hg]; exact hm
    rw [this] at hlo; rw [← Except.ok.inj hlo]; exact hr
  have hrn : Rel n dbN := by
    obtain ⟨m, hm, hr⟩ := ReaderMysql.run_rel rc new {} [] dbN Rel.empty hn hen
    have : readScript g {} new = .ok m := by unfold readScript; rw [hg]; exact hm
    rw [this] at hln; rw [← Except.ok.inj hln]; exact hr
  obtain ⟨io, to, hgo, hmo, _, hnmo, hcolo, _, _⟩ := hro.lookup hfo
  obtain ⟨i, tn, _, hmn, _, hnmn, hcoln, _, _⟩ := hrn.lookup hfn
  have hmemo := List.mem_of_getElem? hmo
  have hmemn := List.mem_of_getElem? hmn
  -- `Migration.Diff`
  unfold Migration.diff at hd
  obtain ⟨ts, h1, hd⟩ := bind_ok hd
  obtain ⟨td, htd, hspec⟩ := Migration.diffTables1_getElem g.dialect o n.tables ts i tn h1 hmn
  rw [hnmn, hgo] at hspec
  obtain ⟨ot, hot, hspec⟩ := hspec
  have : ot = to := by rw [hmo] at hot; exact (Option.some.inj hot).symm
  subst this
  have hex : ot.exists_ = true := by
    unfold Table.exists_; rw [(hro.fresh ot hmemo).2]; rfl
  rw [if_pos hex] at hspec
  obtain ⟨t1, ht1, htdeq⟩ := hspec
  obtain ⟨extra, hext⟩ := Migration.diffTables2_prefix o.tables _ d hd
  have htd_mem : td ∈ d.tables := by
    rw [hext]; exact List.mem_append_left _ (List.mem_of_getElem? htd)
  -- `Table.Diff`: the column loops build the tagged merged list; the other loops keep names and actions
  obtain ⟨cols1, tc, hc1, hc2, hsig⟩ := Table.diff_decompose g.dialect tn ot t1 ht1
  have hi_n := hrn.inv.each tn hmemn
  have hi_o := hro.inv.each ot hmemo
  obtain ⟨htag, hsimple⟩ := Table.diff_cols_tagged g.dialect tn ot tc cols1 hi_n hi_o (hrn.np tn hmemn)
    (hrn.fresh tn hmemn).1 (hro.fresh ot hmemo).1 hc1 hc2
  have habs : absCols td.cols = Abs.tagged tbN.colNames tbO.colNames := by
    rw [htdeq]
    show absCols t1.cols = _
    rw [Table.absCols_of_sig hsig, htag, hcoln, hcolo]
  have hsimple_td : ∀ c ∈ td.cols, SimpleAction c.action := by
    intro c hc
    rw [htdeq] at hc
    have hc : c ∈ t1.cols := hc
    -- same names and actions as the columns after the column loops
    have hm : (c.name, c.action, c.cur.typ, Table.optKinds c.cur.opts) ∈ t1.sig :=
      List.mem_map_of_mem (f := fun c : Column => (c.name, c.action, c.cur.typ, Table.optKinds c.cur.opts)) hc
    rw [hsig] at hm
    obtain ⟨c0, hc0, he⟩ := List.mem_map.mp hm
    have : c0.action = c.action := (Prod.mk.inj (Prod.mk.inj he).2).1
    rw [← this]; exact hsimple c0 hc0
  have hdi : td.Inv := by
    have := Table.diff_inv g.dialect tn ot t1 hi_n hi_o (hrn.np tn hmemn) ht1
    rw [htdeq]; exact ⟨this.1.cols, this.1.idxs, this.1.fks⟩
  have hname : td.name = t := by
    have := Table.diff_inv g.dialect tn ot t1 hi_n hi_o (hrn.np tn hmemn) ht1
    rw [htdeq]; show t1.name = t; rw [this.2]; exact hnmn
  have hnd : (td.cols.map (·.name)).Nodup := hdi.cols.nodup
  have hne_td : ∀ c ∈ ([] : List Column) ++ td.cols, c.name ≠ "" := by
    intro c hc
    have hc : c ∈ td.cols := by simpa using hc
    have hm : c.name ∈ (absCols td.cols).map (·.1) := by
      simp only [absCols, List.map_map]
      exact List.mem_map_of_mem (f := (fun c : Column => (c.name, tagOfAction c.action).1)) hc
    rw [habs, Abs.tagged_names] at hm
    rcases Abs.mem_merge hm with hm | hm
    · exact hne _ (List.mem_append_left _ hm)
    · exact hne _ (List.mem_append_right _ hm)
  have hNnd : tbN.colNames.Nodup := by rw [← hcoln]; exact hi_n.cols.nodup
  have hOnd : tbO.colNames.Nodup := by rw [← hcolo]; exact hi_o.cols.nodup
  have hact : td.action = .none := by rw [htdeq]
  exact ⟨td, htd_mem, hname, hact, arrange_id td hdi.colInv, habs, hsimple_td, hne_td, hnd, hNnd, hOnd⟩

/-- **C01 / C02, column clause, end to end on the implementation model** (MySQL reader, default field order) -/
theorem columns_end_to_end (g : Globals) (hg : g.dialect = .mysql) (hio : g.ignoreOrder = false) (rc : Bool)
    (old new : List Stmt) (dbO dbN : DB) (ho : old.all Stmt.colSafe = true) (hn : new.all Stmt.colSafe = true)
    (heo : execAll rc [] old = some dbO) (hen : execAll rc [] new = some dbN)
    (d : Migration) (hd : loadAndDiff g old new = .ok d)
    (t : String) (tbO tbN : TableSpec) (hfo : dbO.find t = some tbO) (hfn : dbN.find t = some tbN)
    (hc : Abs.OrderCompatible tbN.colNames tbO.colNames) (hne : ∀ n ∈ tbN.colNames ++ tbO.colNames, n ≠ "") :
    ∃ td ∈ d.tables, td.name = t ∧ td.action = .none ∧ td.arrange = .ok td ∧
      td.migrationColumnUp g = .ok (Table.walkCols g t true [] td.cols) ∧
      td.migrationColumnDown g = .ok (Table.walkCols g t false [] td.cols) ∧
      Abs.execAll tbO.colNames ((Table.walkCols g t true [] td.cols).1.filterMap colStmt) = some tbN.colNames ∧
      Abs.execAll tbN.colNames ((Table.walkCols g t false [] td.cols).1.filterMap colStmt) = some tbO.colNames := by
  obtain ⟨td, htd_mem, hname, hact, harr, habs, hsimple_td, hne_td, _, hNnd, hOnd⟩ :=
    diffed_record g hg rc old new dbO dbN ho hn heo hen d hd t tbO tbN hfo hfn hne
  have hd_sq : g.dialect ≠ .sqlite := by rw [hg]; decide
  refine ⟨td, htd_mem, hname, hact, harr, ?_, ?_, ?_, ?_⟩
  · unfold Table.migrationColumnUp; rw [hact, hname]; rfl
  · unfold Table.migrationColumnDown; rw [hact, hname]; rfl
  · rw [(walkCols_up_refines g hio hd_sq t td.cols [] hsimple_td hne_td).1, habs]
    exact Abs.columns_up tbN.colNames tbO.colNames hNnd hOnd hc
  · rw [(walkCols_down_refines g hio hd_sq t td.cols [] hsimple_td hne_td).1, habs]
    exact Abs.columns_down tbN.colNames tbO.colNames hNnd hOnd hc

/-- **C13, end to end**: under the ignore-field-order option the printed statements carry no position; the kept
    columns stay where they are and the added ones are appended -/
theorem columns_end_to_end_ignore (g : Globals) (hg : g.dialect = .mysql) (hio : g.ignoreOrder = true) (rc : Bool)
    (old new : List Stmt) (dbO dbN : DB) (ho : old.all Stmt.colSafe = true) (hn : new.all Stmt.colSafe = true)
    (heo : execAll rc [] old = some dbO) (hen : execAll rc [] new = some dbN)
    (d : Migration) (hd : loadAndDiff g old new = .ok d)
    (t : String) (tbO tbN : TableSpec) (hfo : dbO.find t = some tbO) (hfn : dbN.find t = some tbN)
    (hc : Abs.OrderCompatible tbN.colNames tbO.colNames) (hne : ∀ n ∈ tbN.colNames ++ tbO.colNames, n ≠ "") :
    ∃ td ∈ d.tables, td.name = t ∧ td.arrange = .ok td ∧
      td.migrationColumnUp g = .ok (Table.walkCols g t true [] td.cols) ∧
      (∀ s ∈ (Table.walkCols g t true [] td.cols).1.filterMap colStmt, ∀ c p, s ≠ Abs.Stmt.addCol c p) ∧
      Abs.execAll tbO.colNames ((Table.walkCols g t true [] td.cols).1.filterMap colStmt) =
        some (Abs.keptSide (Abs.tagged tbN.colNames tbO.colNames) ++ Abs.addedSide (Abs.tagged tbN.colNames tbO.colNames)) := by
  obtain ⟨td, htd_mem, hname, hact, harr, habs, hsimple_td, _, hnd, hNnd, hOnd⟩ :=
    diffed_record g hg rc old new dbO dbN ho hn heo hen d hd t tbO tbN hfo hfn hne
  have hd_sq : g.dialect ≠ .sqlite := by rw [hg]; decide
  have hold : Abs.oldSide (absCols td.cols) = tbO.colNames := by
    rw [habs, (Abs.sides tbN.colNames tbO.colNames).1]
    exact (Abs.Merge.merge_correct tbN.colNames tbO.colNames hNnd hOnd hc).1
  have href := walkCols_up_ignore_refines g hio hd_sq t td.cols [] hsimple_td
  have hn' : (absCols td.cols).map (·.1) = td.cols.map (·.name) := by
    simp [absCols, List.map_map, Function.comp_def]
  refine ⟨td, htd_mem, hname, harr, ?_, ?_, ?_⟩
  · unfold Table.migrationColumnUp; rw [hact, hname]; rfl
  · rw [href]
    intro s hs c p
    -- the abstract walk under the option never prints a positional ADD
    have : ∀ (m : Abs.M), ∀ s ∈ Abs.emitUpIgnore m, ∀ c p, s ≠ Abs.Stmt.addCol c p := by
      intro m
      induction m with
      | nil => intro s hs; cases hs
      | cons hd r ih =>
        obtain ⟨n, tg⟩ := hd
        intro s hs c p
        cases tg with
        | keep => exact ih s (by simpa [Abs.emitUpIgnore] using hs) c p
        | add =>
          simp only [Abs.emitUpIgnore, List.mem_cons] at hs
          rcases hs with h1 | h1
          · rw [h1]; intro e; cases e
          · exact ih s h1 c p
        | rem =>
          simp only [Abs.emitUpIgnore, List.mem_cons] at hs
          rcases hs with h1 | h1
          · rw [h1]; intro e; cases e
          · exact ih s h1 c p
    exact this _ s hs c p
  · rw [href, ← habs, ← hold]
    exact Abs.emitUpIgnore_correct (absCols td.cols) (by rw [hn']; exact hnd)

end Sqlize
