/-
  Proofs/DiffElems.lean — what `Table.Diff` leaves in the index and foreign-key slices of the new side, for two
  consistent, freshly loaded tables: every record of the new side tagged by comparison with its namesake on the old
  side (`tagIdx`, `tagFk`), followed by the old side's records without a namesake, tagged `remove`.
-/
import SqlizeModel.Proofs.Elems
import SqlizeModel.Proofs.DiffSame

namespace Sqlize

/-- in a slice with unique names, looking a member's name up finds that member -/
theorem find?_of_mem_nodup {α : Type} (f : α → String) : ∀ (l : List α) (x : α), (l.map f).Nodup → x ∈ l →
    l.find? (fun y => f y == f x) = some x := by
  intro l
  induction l with
  | nil => intro x _ h; cases h
  | cons a r ih =>
    intro x hnd hx
    rw [List.map_cons, List.nodup_cons] at hnd
    rw [List.find?_cons]
    rcases List.mem_cons.mp hx with rfl | hx'
    · simp
    · have : f a ≠ f x := fun he => hnd.1 (he ▸ List.mem_map_of_mem hx')
      have : (f a == f x) = false := by simpa using this
      rw [this]
      exact ih x hnd.2 hx'

theorem find?_none_of_not_mem {α : Type} (f : α → String) (l : List α) (n : String) (h : n ∉ l.map f) :
    l.find? (fun y => f y == n) = none := by
  rw [List.find?_eq_none]
  intro x hx
  have : f x ≠ n := fun he => h (he ▸ List.mem_map_of_mem hx)
  simpa using this

/-- the map lookup + bounds-checked read of the Go code, as a search by name -/
theorem NInv.lookup {α : Type} {f : α → String} {l : List α} {m : AMap} (h : NInv (l.map f) m) (n : String) (site : String) :
    (m.get? n = none ∧ l.find? (fun y => f y == n) = none) ∨
    (∃ j x, m.get? n = some j ∧ getIdx site l j = .ok x ∧ l.find? (fun y => f y == n) = some x ∧ f x = n ∧ x ∈ l) := by
  cases hg : m.get? n with
  | none =>
    exact Or.inl ⟨rfl, find?_none_of_not_mem f l n ((h.get?_none_iff n).mp hg)⟩
  | some j =>
    right
    have hj := (h.get n j).mp hg
    rw [List.getElem?_map] at hj
    cases hx : l[j]? with
    | none => rw [hx] at hj; cases hj
    | some x =>
      rw [hx] at hj
      have hfx : f x = n := by simpa using hj
      have hmem : x ∈ l := List.mem_of_getElem? hx
      refine ⟨j, x, rfl, ?_, ?_, hfx, hmem⟩
      · unfold getIdx; rw [hx]; rfl
      · rw [← hfx]; exact find?_of_mem_nodup f l x h.nodup hmem

namespace Table

/-- the tag `Table.Diff`'s index loop puts on a live index of the new side -/
def tagIdx (o : Table) (i : Index) : Index :=
  match o.idxs.find? (fun y => y.name == i.name) with
  | none => i
  | some oi =>
    if i.typ == oi.typ && i.cols == oi.cols && normIdxType i.indexType == normIdxType oi.indexType then
      { i with action := .none }
    else { i with action := .modify, prev := some oi.toDef }

/-- … and on a live foreign key of the new side: a key found on both sides is replaced by the old record, tagged `modify` -/
def tagFk (o : Table) (f : ForeignKey) : ForeignKey :=
  match o.fks.find? (fun y => y.name == f.name) with
  | none => f
  | some of_ => { of_ with action := .modify }

theorem diffIdx1_tags (old : Table) (hold : old.Inv) (hof : ∀ i ∈ old.idxs, i.action = .add) :
    ∀ is : List Index, (∀ i ∈ is, i.action = .add) → diffIdx1 old is = .ok (is.map (tagIdx old)) := by
  intro is
  induction is with
  | nil => intro _; rfl
  | cons i rest ih =>
    intro h
    have ha := h i (by simp)
    have hr := ih (fun x hx => h x (by simp [hx]))
    unfold diffIdx1
    rw [hr]
    rcases NInv.lookup (f := fun x : Index => x.name) hold.idxs i.name "Table.Diff" with ⟨hg, hf⟩ | ⟨j, oi, hg, hgi, hf, _, hmem⟩
    · simp only [ha, hg, bind, Except.bind, pure, Except.pure, List.map_cons, tagIdx, hf]
      rfl
    · by_cases hc : (i.typ == oi.typ && i.cols == oi.cols && normIdxType i.indexType == normIdxType oi.indexType) = true
      · simp only [ha, hg, hgi, hof oi hmem, bind, Except.bind, pure, Except.pure, List.map_cons, tagIdx, hf, hc, if_true]
        rfl
      · have hc' : (i.typ == oi.typ && i.cols == oi.cols && normIdxType i.indexType == normIdxType oi.indexType) = false := by
          simpa using hc
        simp only [ha, hg, hgi, hof oi hmem, bind, Except.bind, pure, Except.pure, List.map_cons, tagIdx, hf, hc',
          Bool.false_eq_true, if_false]
        rfl

theorem diffFk1_tags (old : Table) (hold : old.Inv) (hof : ∀ f ∈ old.fks, f.action = .add) :
    ∀ fs : List ForeignKey, (∀ f ∈ fs, f.action = .add) → diffFk1 old fs = .ok (fs.map (tagFk old)) := by
  intro fs
  induction fs with
  | nil => intro _; rfl
  | cons f rest ih =>
    intro h
    have ha := h f (by simp)
    have hr := ih (fun x hx => h x (by simp [hx]))
    unfold diffFk1
    rw [hr]
    rcases NInv.lookup (f := fun x : ForeignKey => x.name) hold.fks f.name "Table.Diff" with ⟨hg, hf⟩ | ⟨j, of_, hg, hgi, hf, _, hmem⟩
    · simp only [ha, hg, bind, Except.bind, pure, Except.pure, List.map_cons, tagFk, hf]
      rfl
    · simp only [ha, hg, hgi, hof of_ hmem, bind, Except.bind, pure, Except.pure, List.map_cons, tagFk, hf]
      rfl

/-- second index loop: the old side's indexes without a namesake are appended, tagged `remove`; nothing else moves -/
theorem diffIdx2_appends : ∀ (ois : List Index) (tc t' : Table), tc.Inv → (ois.map (·.name)).Nodup →
    (∀ oi ∈ ois, oi.action = .add) → diffIdx2 tc ois = .ok t' →
    t'.idxs = tc.idxs ++ (ois.filter (fun oi => !tc.idxNames.contains oi.name)).map (fun oi => { oi with action := .remove }) ∧
      t'.fks = tc.fks := by
  intro ois
  induction ois with
  | nil =>
    intro tc t' _ _ _ hs
    unfold diffIdx2 at hs
    have := pure_ok hs; subst this
    simp
  | cons oi rest ih =>
    intro tc t' hi hnd ha hs
    rw [List.map_cons, List.nodup_cons] at hnd
    unfold diffIdx2 at hs
    obtain ⟨t1, h1, hs⟩ := bind_ok hs
    have hoa := ha oi (by simp)
    by_cases hmem : oi.name ∈ tc.idxNames
    · -- a namesake exists: skipped
      have hg : (tc.idxIdx.get? oi.name).isNone = false := by
        cases hc : tc.idxIdx.get? oi.name with
        | none => exact absurd hmem ((hi.idxs.get?_none_iff _).mp hc)
        | some _ => rfl
      rw [hg] at h1
      simp only [Bool.and_false, Bool.false_eq_true, if_false] at h1
      have := pure_ok h1; subst this
      obtain ⟨a, b⟩ := ih tc t' hi hnd.2 (fun x hx => ha x (by simp [hx])) hs
      refine ⟨?_, b⟩
      rw [a, List.filter_cons]
      have : (!tc.idxNames.contains oi.name) = false := by simpa using hmem
      rw [this]
      rfl
    · have hgn : tc.idxIdx.get? oi.name = none := (hi.idxs.get?_none_iff _).mpr hmem
      rw [hgn, hoa] at h1
      simp only [Option.isNone_none, beq_self_eq_true, Bool.and_self, if_true] at h1
      have hraw := addIndex_raw_fresh tc t1 { oi with action := .remove } hgn h1
      have hi1 := (addIndex_inv tc t1 _ hi h1).1
      have h1i : t1.idxs = tc.idxs ++ [{ oi with action := .remove }] := congrArg Prod.fst hraw
      have h1f : t1.fks = tc.fks := congrArg Prod.snd hraw
      obtain ⟨a, b⟩ := ih t1 t' hi1 hnd.2 (fun x hx => ha x (by simp [hx])) hs
      refine ⟨?_, b.trans h1f⟩
      rw [a, h1i, List.filter_cons]
      have : (!tc.idxNames.contains oi.name) = true := by simpa using hmem
      rw [this]
      simp only [if_true, List.map_cons, List.append_assoc, List.singleton_append]
      congr 3
      apply List.filter_congr
      intro x hx
      have hne : x.name ≠ oi.name := fun he => hnd.1 (he ▸ List.mem_map_of_mem hx)
      show (!(List.map (fun y : Index => y.name) t1.idxs).contains x.name) = _
      rw [h1i, List.map_append]
      simp [List.contains_eq_mem, hne]

theorem diffFk2_appends : ∀ (ofs : List ForeignKey) (tc t' : Table), tc.Inv → (ofs.map (·.name)).Nodup →
    (∀ f ∈ ofs, f.action = .add) → diffFk2 tc ofs = .ok t' →
    t'.fks = tc.fks ++ (ofs.filter (fun f => !tc.fkNames.contains f.name)).map (fun f => { f with action := .remove }) ∧
      t'.idxs = tc.idxs := by
  intro ofs
  induction ofs with
  | nil =>
    intro tc t' _ _ _ hs
    unfold diffFk2 at hs
    have := pure_ok hs; subst this
    simp
  | cons f rest ih =>
    intro tc t' hi hnd ha hs
    rw [List.map_cons, List.nodup_cons] at hnd
    unfold diffFk2 at hs
    obtain ⟨t1, h1, hs⟩ := bind_ok hs
    have hfa := ha f (by simp)
    by_cases hmem : f.name ∈ tc.fkNames
    · have hg : (tc.fkIdx.get? f.name).isNone = false := by
        cases hc : tc.fkIdx.get? f.name with
        | none => exact absurd hmem ((hi.fks.get?_none_iff _).mp hc)
        | some _ => rfl
      rw [hg] at h1
      simp only [Bool.and_false, Bool.false_eq_true, if_false] at h1
      have := pure_ok h1; subst this
      obtain ⟨a, b⟩ := ih tc t' hi hnd.2 (fun x hx => ha x (by simp [hx])) hs
      refine ⟨?_, b⟩
      rw [a, List.filter_cons]
      have : (!tc.fkNames.contains f.name) = false := by simpa using hmem
      rw [this]
      rfl
    · have hgn : tc.fkIdx.get? f.name = none := (hi.fks.get?_none_iff _).mpr hmem
      rw [hgn, hfa] at h1
      simp only [Option.isNone_none, beq_self_eq_true, Bool.and_self, if_true] at h1
      have hraw := addForeignKey_raw_fresh tc t1 { f with action := .remove } hgn h1
      have hi1 := (addForeignKey_inv tc t1 _ hi h1).1
      have h1i : t1.idxs = tc.idxs := congrArg Prod.fst hraw
      have h1f : t1.fks = tc.fks ++ [{ f with action := .remove }] := congrArg Prod.snd hraw
      obtain ⟨a, b⟩ := ih t1 t' hi1 hnd.2 (fun x hx => ha x (by simp [hx])) hs
      refine ⟨?_, b.trans h1i⟩
      rw [a, h1f, List.filter_cons]
      have : (!tc.fkNames.contains f.name) = true := by simpa using hmem
      rw [this]
      simp only [if_true, List.map_cons, List.append_assoc, List.singleton_append]
      congr 3
      apply List.filter_congr
      intro x hx
      have hne : x.name ≠ f.name := fun he => hnd.1 (he ▸ List.mem_map_of_mem hx)
      show (!(List.map (fun y : ForeignKey => y.name) t1.fks).contains x.name) = _
      rw [h1f, List.map_append]
      simp [List.contains_eq_mem, hne]

/-- the column loops leave both slices alone -/
theorem diffCols2_raw (mysql : Bool) : ∀ (ocs : List Column) (t t' : Table) (before : List Column),
    diffCols2 mysql t before ocs = .ok t' → t'.raw = t.raw := by
  intro ocs
  induction ocs with
  | nil => intro t t' before hs; unfold diffCols2 at hs; have := pure_ok hs; subst this; rfl
  | cons oc rest ih =>
    intro t t' before hs
    unfold diffCols2 at hs
    obtain ⟨t1, h1, hs⟩ := bind_ok hs
    have h1r : t1.raw = t.raw := by
      split at h1
      · obtain ⟨ta, hta, h1⟩ := bind_ok h1
        rw [swapOrder_raw ta t1 _ _ _ h1, addColumn_raw t ta _ mysql hta]
      · have := pure_ok h1; subst this; rfl
    rw [ih t1 t' _ hs, h1r]

/-- **the index and foreign-key slices `Table.Diff` leaves**, for consistent, freshly loaded tables -/
theorem diff_elems (d : Dialect) (t o t' : Table) (h : t.Inv) (ho : o.Inv) (hp : t.pendingPos = none) (hf : t.Fresh)
    (hof : o.Fresh) (hs : t.diff d o = .ok t') :
    t'.idxs = t.idxs.map (tagIdx o) ++
        (o.idxs.filter (fun oi => !t.idxNames.contains oi.name)).map (fun oi => { oi with action := .remove }) ∧
    t'.fks = t.fks.map (tagFk o) ++
        (o.fks.filter (fun f => !t.fkNames.contains f.name)).map (fun f => { f with action := .remove }) := by
  unfold diff at hs
  obtain ⟨cols, hc, hs⟩ := bind_ok hs
  obtain ⟨t1, h1, hs⟩ := bind_ok hs
  obtain ⟨idxs, hi, hs⟩ := bind_ok hs
  obtain ⟨t2, h2, hs⟩ := bind_ok hs
  obtain ⟨fks, hfk, hs⟩ := bind_ok hs
  have hcn := diffCols1_names d o t.cols cols hc
  have hi0 : Table.Inv { t with cols := cols } := ⟨by show NInv (cols.map (·.name)) _; rw [hcn]; exact h.cols, h.idxs, h.fks⟩
  obtain ⟨hi1, _⟩ := diffCols2_inv _ o.cols _ t1 [] hi0 hp h1
  have hr1 : t1.raw = t.raw := diffCols2_raw _ o.cols { t with cols := cols } t1 [] h1
  have h1i : t1.idxs = t.idxs := congrArg Prod.fst hr1
  have h1f : t1.fks = t.fks := congrArg Prod.snd hr1
  -- indexes
  rw [h1i, diffIdx1_tags o ho hof.idxs t.idxs hf.idxs] at hi
  have := Except.ok.inj hi; subst this
  have hin : (t.idxs.map (tagIdx o)).map (·.name) = t1.idxs.map (·.name) := by
    rw [h1i, List.map_map]
    apply List.map_congr_left
    intro i _
    simp only [Function.comp, tagIdx]
    split
    · rfl
    · split <;> rfl
  have hi1' : Table.Inv { t1 with idxs := t.idxs.map (tagIdx o) } :=
    ⟨hi1.cols, by show NInv ((t.idxs.map (tagIdx o)).map (·.name)) _; rw [hin]; exact hi1.idxs, hi1.fks⟩
  obtain ⟨a2, b2⟩ := diffIdx2_appends o.idxs _ t2 hi1' ho.idxs.nodup hof.idxs h2
  have hi2 := (diffIdx2_inv o.idxs _ t2 hi1' h2).1
  have h2f : t2.fks = t.fks := b2.trans h1f
  -- foreign keys
  rw [h2f, diffFk1_tags o ho hof.fks t.fks hf.fks] at hfk
  have := Except.ok.inj hfk; subst this
  have hfn : (t.fks.map (tagFk o)).map (·.name) = t2.fks.map (·.name) := by
    rw [h2f, List.map_map]
    apply List.map_congr_left
    intro f _
    simp only [Function.comp, tagFk]
    split
    · rfl
    · rename_i of_ hfind
      simpa using List.find?_some hfind
  have hi2' : Table.Inv { t2 with fks := t.fks.map (tagFk o) } :=
    ⟨hi2.cols, hi2.idxs, by show NInv ((t.fks.map (tagFk o)).map (·.name)) _; rw [hfn]; exact hi2.fks⟩
  obtain ⟨a3, b3⟩ := diffFk2_appends o.fks _ t' hi2' ho.fks.nodup hof.fks hs
  refine ⟨?_, ?_⟩
  · rw [b3]
    show t2.idxs = _
    rw [a2]
    show t.idxs.map (tagIdx o) ++ _ = _
    congr 2
    apply List.filter_congr
    intro x _
    show (!((t.idxs.map (tagIdx o)).map (fun y : Index => y.name)).contains x.name) = _
    rw [hin, h1i]
  · rw [a3]
    show t.fks.map (tagFk o) ++ _ = _
    congr 2
    apply List.filter_congr
    intro x _
    show (!((t.fks.map (tagFk o)).map (fun y : ForeignKey => y.name)).contains x.name) = _
    rw [hfn, h2f]

end Table
end Sqlize
