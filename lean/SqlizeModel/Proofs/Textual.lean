/-
  Proofs/Textual.lean — what reaches the text.  The model's statements carry the loaded option records, among them the
  bare foreign-key marks `AddForeignKey` appends to a column; the renderer prints nothing for a mark
  (`Render`: `kind == .reference && !hasExpr` ↦ no text), so the statement that is read back from a migration file is
  the printed one without its marks: `Stmt.textual`.  The reference engine does not see the difference, and a
  definition whose options are all plain-or-mark is `ColDef.plain` once the marks are gone.
-/
import SqlizeModel.Proofs.OptsGood
import SqlizeModel.Proofs.FidelityElems

namespace Sqlize
open Spec

def ColDef.textual (c : ColDef) : ColDef := { c with opts := withoutFkMarks c.opts }

def Stmt.textual : Stmt → Stmt
  | .createTable t i cols pk => .createTable t i (cols.map ColDef.textual) pk
  | .addColumn t c pos => .addColumn t c.textual pos
  | .modifyColumn t c => .modifyColumn t c.textual
  | s => s

theorem optsOf_withoutFkMarks (l : List Opt) : optsOf (withoutFkMarks l) = optsOf l := by
  unfold optsOf withoutFkMarks
  generalize (([], false) : List COpt × Bool) = acc
  induction l generalizing acc with
  | nil => rfl
  | cons o r ih =>
    rw [List.filter_cons]
    by_cases hm : (o.kind == .reference && !o.hasExpr) = true
    · have hk : o.kind = .reference := by
        simp only [Bool.and_eq_true, beq_iff_eq] at hm; exact hm.1
      simp only [hm, Bool.not_true, Bool.false_eq_true, if_false, List.foldl_cons]
      rw [ih]
      congr 1
      rw [hk]
    · have : (!(o.kind == .reference && !o.hasExpr)) = true := by
        cases hb : (o.kind == .reference && !o.hasExpr) with
        | true => exact absurd hb hm
        | false => rfl
      rw [if_pos this, List.foldl_cons, List.foldl_cons, ih]

theorem colOf_textual (c : ColDef) : colOf c.textual = colOf c := by
  unfold colOf ColDef.textual
  simp only [optsOf_withoutFkMarks]

theorem textual_name (c : ColDef) : c.textual.name = c.name := rfl

/-- the reference engine does not see the marks -/
theorem exec_textual (rc : Bool) (db : DB) (s : Stmt) : exec rc db s.textual = exec rc db s := by
  cases s with
  | createTable t i cols pk =>
    have : (cols.map ColDef.textual).map colOf = cols.map colOf := by
      rw [List.map_map]
      apply List.map_congr_left
      intro c _
      exact colOf_textual c
    simp only [Stmt.textual, exec, this]
  | addColumn t c pos => simp only [Stmt.textual, exec, colOf_textual, textual_name]
  | modifyColumn t c => simp only [Stmt.textual, exec, colOf_textual, textual_name]
  | _ => rfl

theorem execAll_textual (rc : Bool) : ∀ (ss : List Stmt) (db : DB), execAll rc db (ss.map Stmt.textual) = execAll rc db ss := by
  intro ss
  induction ss with
  | nil => intro db; rfl
  | cons s r ih =>
    intro db
    simp only [List.map_cons, execAll, exec_textual]
    cases exec rc db s with
    | none => rfl
    | some d1 => simp only [Option.bind_some]; exact ih d1

theorem table_textual (s : Stmt) : s.textual.table = s.table := by
  cases s <;> rfl

theorem elemSafe_textual (s : Stmt) : s.textual.elemSafe = s.elemSafe := by
  cases s <;> rfl

/-- a definition whose options are plain or marks is plain once the marks are gone -/
theorem plain_textual (c : ColDef) (h : ∀ o ∈ c.opts, o.Plain) : c.textual.plain = true := by
  unfold ColDef.plain ColDef.textual
  rw [List.all_eq_true]
  intro o ho
  have ho : o ∈ withoutFkMarks c.opts := ho
  unfold withoutFkMarks at ho
  obtain ⟨hoc, hnm⟩ := List.mem_filter.mp ho
  rcases h o hoc with hm | ⟨h1, h2, h3⟩
  · unfold Opt.isMark at hm
    rw [hm] at hnm
    cases hnm
  · simp [h1, h2, h3]

/-- inside the vocabulary: accepted by the element-level fidelity theorems, plain once rendered -/
def Stmt.vocab (s : Stmt) : Bool := s.elemSafe && s.textual.plainOpts

end Sqlize
