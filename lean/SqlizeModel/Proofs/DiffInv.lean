/-
  Proofs/DiffInv.lean — `Table.Diff` / `Migration.Diff` preserve the invariant: the state `Sqlize.Diff` leaves in the
  new side satisfies `Migration.Inv` whenever both sides did and no table of the new side has a pending column
  position (a pending position is left behind only by `ADD COLUMN … FIRST|AFTER` naming a column the table already
  created — a script every engine rejects; with one pending, `Diff`'s own `AddColumn` would be positioned and its
  `swapOrder` would then move the wrong record).
-/
import SqlizeModel.Proofs.ReaderInv

namespace Sqlize
namespace Table

theorem diffCols1_names (d : Dialect) (old : Table) (cols : List Column) : ∀ cols', diffCols1 d old cols = .ok cols' →
    cols'.map (·.name) = cols.map (·.name) := by
  induction cols with
  | nil => intro cols' hs; unfold diffCols1 at hs; have := pure_ok hs; subst this; rfl
  | cons c rest ih =>
    intro cols' hs
    unfold diffCols1 at hs
    obtain ⟨c', hc, hs⟩ := bind_ok hs
    obtain ⟨rest', hr, hs⟩ := bind_ok hs
    have := pure_ok hs; subst this
    have hn : c'.name = c.name := by
      by_cases ha : (c.action == .add) = true
      · rw [if_pos ha] at hc
        cases hg : old.colIdx.get? c.name with
        | none => rw [hg] at hc; have := pure_ok hc; subst this; rfl
        | some j =>
          rw [hg] at hc
          simp only at hc
          obtain ⟨oc, _, hc⟩ := bind_ok hc
          by_cases h1 : (oc.action != .none) = true
          · rw [if_pos h1] at hc
            by_cases h2 : hasChangedOptions c.cur.opts oc.cur.opts = true
            · rw [if_pos h2] at hc; have := pure_ok hc; subst this; rfl
            · rw [if_neg h2] at hc
              obtain ⟨tc, _, hc⟩ := bind_ok hc
              cases tc with
              | true => have := pure_ok hc; subst this; rfl
              | false => have := pure_ok hc; subst this; rfl
          · rw [if_neg h1] at hc; have := pure_ok hc; subst this; rfl
      · rw [if_neg ha] at hc; have := pure_ok hc; subst this; rfl
    simp only [List.map_cons, hn, ih rest' hr]

theorem diffIdx1_names (old : Table) (is : List Index) : ∀ is', diffIdx1 old is = .ok is' →
    is'.map (·.name) = is.map (·.name) := by
  induction is with
  | nil => intro is' hs; unfold diffIdx1 at hs; have := pure_ok hs; subst this; rfl
  | cons i rest ih =>
    intro is' hs
    unfold diffIdx1 at hs
    obtain ⟨i', hc, hs⟩ := bind_ok hs
    obtain ⟨rest', hr, hs⟩ := bind_ok hs
    have := pure_ok hs; subst this
    have hn : i'.name = i.name := by
      by_cases ha : (i.action == .add) = true
      · rw [if_pos ha] at hc
        cases hg : old.idxIdx.get? i.name with
        | none => rw [hg] at hc; have := pure_ok hc; subst this; rfl
        | some j =>
          rw [hg] at hc
          simp only at hc
          obtain ⟨oi, _, hc⟩ := bind_ok hc
          by_cases h1 : (oi.action != .none) = true
          · rw [if_pos h1] at hc
            split at hc
            · have := pure_ok hc; subst this; rfl
            · have := pure_ok hc; subst this; rfl
          · rw [if_neg h1] at hc; have := pure_ok hc; subst this; rfl
      · rw [if_neg ha] at hc; have := pure_ok hc; subst this; rfl
    simp only [List.map_cons, hn, ih rest' hr]

/-- the foreign-key loop copies the *old* record: its name is the looked-up name because the old table's map is sound -/
theorem diffFk1_names (old : Table) (hold : old.Inv) (fs : List ForeignKey) : ∀ fs', diffFk1 old fs = .ok fs' →
    fs'.map (·.name) = fs.map (·.name) := by
  induction fs with
  | nil => intro fs' hs; unfold diffFk1 at hs; have := pure_ok hs; subst this; rfl
  | cons f rest ih =>
    intro fs' hs
    unfold diffFk1 at hs
    obtain ⟨f', hc, hs⟩ := bind_ok hs
    obtain ⟨rest', hr, hs⟩ := bind_ok hs
    have := pure_ok hs; subst this
    have hn : f'.name = f.name := by
      by_cases ha : (f.action == .add) = true
      · rw [if_pos ha] at hc
        cases hg : old.fkIdx.get? f.name with
        | none => rw [hg] at hc; have := pure_ok hc; subst this; rfl
        | some j =>
          rw [hg] at hc
          simp only at hc
          obtain ⟨of_, hof, hc⟩ := bind_ok hc
          have hof := getIdx_ok hof
          have hnm := (hold.fks.get f.name j).mp hg
          have hofn : of_.name = f.name := by
            simp only [fkNames, List.getElem?_map, hof, Option.map_some] at hnm
            exact Option.some.inj hnm
          by_cases h1 : (of_.action != .none) = true
          · rw [if_pos h1] at hc; have := pure_ok hc; subst this; exact hofn
          · rw [if_neg h1] at hc; have := pure_ok hc; subst this; rfl
      · rw [if_neg ha] at hc; have := pure_ok hc; subst this; rfl
    simp only [List.map_cons, hn, ih rest' hr]

/-- `AddColumn` of a name the table does not hold, with no pending position: a plain append -/
theorem addColumn_fresh (t : Table) (col : Column) (mysql : Bool) (hg : t.colIdx.get? col.name = none)
    (hp : t.pendingPos = none) :
    t.addColumn col mysql = .ok { t with cols := t.cols ++ [col], colIdx := t.colIdx.set col.name t.cols.length } := by
  unfold addColumn
  rw [hg]
  simp only
  unfold positionStep
  simp only [hp]
  rfl

theorem swapOrder_pending (t t' : Table) (c : String) (a b : Nat) (hs : t.swapOrder c a b = .ok t') :
    t'.pendingPos = t.pendingPos := by
  unfold swapOrder at hs
  split at hs
  · have := pure_ok hs; subst this; rfl
  · obtain ⟨col, _, hs⟩ := bind_ok hs
    split at hs
    · have := pure_ok hs; subst this; rfl
    · cases hs

theorem diffCols2_inv (mysql : Bool) (ocs : List Column) : ∀ (t t' : Table) (before : List Column), t.Inv →
    t.pendingPos = none → diffCols2 mysql t before ocs = .ok t' → t'.Inv ∧ t'.name = t.name := by
  induction ocs with
  | nil => intro t t' before h _ hs; unfold diffCols2 at hs; have := pure_ok hs; subst this; exact ⟨h, rfl⟩
  | cons oc rest ih =>
    intro t t' before h hp hs
    unfold diffCols2 at hs
    obtain ⟨t1, h1, hs⟩ := bind_ok hs
    have hstep : t1.Inv ∧ t1.name = t.name ∧ t1.pendingPos = none := by
      by_cases hc : (oc.action == .add && (t.colIdx.get? oc.name).isNone) = true
      · rw [if_pos hc] at h1
        simp only [Bool.and_eq_true, Option.isNone_iff_eq_none] at hc
        have hfresh := addColumn_fresh t { oc with action := .remove } mysql hc.2 hp
        rw [hfresh] at h1
        obtain ⟨ta, hta, h1⟩ := bind_ok h1
        have := Except.ok.inj hta; subst this
        have hia := addColumn_inv t _ _ mysql h hfresh
        have hlast : (Table.colNames { t with cols := t.cols ++ [{ oc with action := .remove }],
                                              colIdx := t.colIdx.set oc.name t.cols.length })[
            (t.cols ++ [{ oc with action := Action.remove }]).length - 1]? = some oc.name := by
          show (List.map (fun x : Column => x.name) (t.cols ++ [{ oc with action := Action.remove }]))[_]? = _
          simp
        obtain ⟨hi, hn⟩ := swapOrder_inv _ t1 oc.name _ _ hia.1 hlast h1
        refine ⟨hi, hn, ?_⟩
        rw [swapOrder_pending _ t1 _ _ _ h1]; exact hp
      · rw [if_neg hc] at h1; have := pure_ok h1; subst this; exact ⟨h, rfl, hp⟩
    obtain ⟨hi, hn⟩ := ih t1 t' _ hstep.1 hstep.2.2 hs
    exact ⟨hi, hn.trans hstep.2.1⟩

theorem diffIdx2_inv (ois : List Index) : ∀ (t t' : Table), t.Inv → diffIdx2 t ois = .ok t' →
    t'.Inv ∧ t'.name = t.name := by
  induction ois with
  | nil => intro t t' h hs; unfold diffIdx2 at hs; have := pure_ok hs; subst this; exact ⟨h, rfl⟩
  | cons oi rest ih =>
    intro t t' h hs
    unfold diffIdx2 at hs
    obtain ⟨t1, h1, hs⟩ := bind_ok hs
    have hstep : t1.Inv ∧ t1.name = t.name := by
      split at h1
      · exact addIndex_inv t t1 _ h h1
      · have := pure_ok h1; subst this; exact ⟨h, rfl⟩
    obtain ⟨hi, hn⟩ := ih t1 t' hstep.1 hs
    exact ⟨hi, hn.trans hstep.2⟩

theorem diffFk2_inv (ofs : List ForeignKey) : ∀ (t t' : Table), t.Inv → diffFk2 t ofs = .ok t' →
    t'.Inv ∧ t'.name = t.name := by
  induction ofs with
  | nil => intro t t' h hs; unfold diffFk2 at hs; have := pure_ok hs; subst this; exact ⟨h, rfl⟩
  | cons o rest ih =>
    intro t t' h hs
    unfold diffFk2 at hs
    obtain ⟨t1, h1, hs⟩ := bind_ok hs
    have hstep : t1.Inv ∧ t1.name = t.name := by
      split at h1
      · exact addForeignKey_inv t t1 _ h h1
      · have := pure_ok h1; subst this; exact ⟨h, rfl⟩
    obtain ⟨hi, hn⟩ := ih t1 t' hstep.1 hs
    exact ⟨hi, hn.trans hstep.2⟩

/-- **`Table.Diff` preserves the invariant** -/
theorem diff_inv (d : Dialect) (t old t' : Table) (h : t.Inv) (hold : old.Inv) (hp : t.pendingPos = none)
    (hs : t.diff d old = .ok t') : t'.Inv ∧ t'.name = t.name := by
  unfold diff at hs
  obtain ⟨cols, hc, hs⟩ := bind_ok hs
  obtain ⟨t1, h1, hs⟩ := bind_ok hs
  obtain ⟨idxs, hi, hs⟩ := bind_ok hs
  obtain ⟨t2, h2, hs⟩ := bind_ok hs
  obtain ⟨fks, hf, hs⟩ := bind_ok hs
  have hcn := diffCols1_names d old t.cols cols hc
  have hi0 : Table.Inv { t with cols := cols } := ⟨by show NInv (cols.map (·.name)) _; rw [hcn]; exact h.cols, h.idxs, h.fks⟩
  obtain ⟨hi1, hn1⟩ := diffCols2_inv _ old.cols _ t1 [] hi0 hp h1
  have hin := diffIdx1_names old t1.idxs idxs hi
  have hi1' : Table.Inv { t1 with idxs := idxs } :=
    ⟨hi1.cols, by show NInv (idxs.map (·.name)) _; rw [hin]; exact hi1.idxs, hi1.fks⟩
  obtain ⟨hi2, hn2⟩ := diffIdx2_inv old.idxs _ t2 hi1' h2
  have hfn := diffFk1_names old hold t2.fks fks hf
  have hi2' : Table.Inv { t2 with fks := fks } :=
    ⟨hi2.cols, hi2.idxs, by show NInv (fks.map (·.name)) _; rw [hfn]; exact hi2.fks⟩
  obtain ⟨hi3, hn3⟩ := diffFk2_inv old.fks _ t' hi2' hs
  exact ⟨hi3, hn3.trans (hn2.trans hn1)⟩

end Table

namespace Migration

/-- no table carries a pending column position -/
def NoPending (m : Migration) : Prop := ∀ t ∈ m.tables, t.pendingPos = none

theorem diffTables1_inv (d : Dialect) (old : Migration) (hold : old.Inv) (ts : List Table) :
    ∀ ts', (∀ t ∈ ts, t.Inv ∧ t.pendingPos = none) → diffTables1 d old ts = .ok ts' →
      ts'.map (·.name) = ts.map (·.name) ∧ ∀ t ∈ ts', t.Inv := by
  induction ts with
  | nil =>
    intro ts' _ hs; unfold diffTables1 at hs; have := pure_ok hs; subst this
    exact ⟨rfl, by intro t ht; cases ht⟩
  | cons t rest ih =>
    intro ts' hall hs
    unfold diffTables1 at hs
    obtain ⟨t', hc, hs⟩ := bind_ok hs
    obtain ⟨rest', hr, hs⟩ := bind_ok hs
    have := pure_ok hs; subst this
    obtain ⟨hti, htp⟩ := hall t List.mem_cons_self
    have hstep : t'.Inv ∧ t'.name = t.name := by
      cases hg : old.tblIdx.get? t.name with
      | none => rw [hg] at hc; have := pure_ok hc; subst this; exact ⟨hti, rfl⟩
      | some j =>
        rw [hg] at hc
        simp only at hc
        obtain ⟨ot, hot, hc⟩ := bind_ok hc
        have hot := getIdx_ok hot
        split at hc
        · obtain ⟨t1, h1, hc⟩ := bind_ok hc
          have := pure_ok hc; subst this
          obtain ⟨a, b⟩ := Table.diff_inv d t ot t1 hti (hold.each ot (List.mem_of_getElem? hot)) htp h1
          exact ⟨⟨a.cols, a.idxs, a.fks⟩, b⟩
        · have := pure_ok hc; subst this; exact ⟨hti, rfl⟩
    obtain ⟨hn, hi⟩ := ih rest' (fun x hx => hall x (List.mem_cons_of_mem _ hx)) hr
    refine ⟨by simp only [List.map_cons, hstep.2, hn], ?_⟩
    intro x hx
    rcases List.mem_cons.mp hx with h1 | h1
    · rw [h1]; exact hstep.1
    · exact hi x h1

theorem diffTables2_inv (ots : List Table) : ∀ (m m' : Migration), m.Inv →
    (∀ t ∈ ots, t.Inv) → diffTables2 m ots = .ok m' → m'.Inv := by
  induction ots with
  | nil => intro m m' h _ hs; unfold diffTables2 at hs; have := pure_ok hs; subst this; exact h
  | cons ot rest ih =>
    intro m m' h hall hs
    unfold diffTables2 at hs
    obtain ⟨m1, h1, hs⟩ := bind_ok hs
    have hi1 : m1.Inv := by
      split at h1
      · have ho := hall ot List.mem_cons_self
        exact addTable_inv m m1 { ot with action := .remove } h ⟨ho.cols, ho.idxs, ho.fks⟩ h1
      · have := pure_ok h1; subst this; exact h
    exact ih m1 m' hi1 (fun x hx => hall x (List.mem_cons_of_mem _ hx)) hs

/-- **`Migration.Diff` preserves the invariant** -/
theorem diff_inv (d : Dialect) (m old m' : Migration) (h : m.Inv) (hold : old.Inv) (hp : m.NoPending)
    (hs : m.diff d old = .ok m') : m'.Inv := by
  unfold diff at hs
  obtain ⟨ts, h1, hs⟩ := bind_ok hs
  obtain ⟨hn, hi⟩ := diffTables1_inv d old hold m.tables ts (fun t ht => ⟨h.each t ht, hp t ht⟩) h1
  have hm : Migration.Inv { m with tables := ts } :=
    ⟨by show NInv (ts.map (·.name)) _; rw [hn]; exact h.tbls, hi⟩
  exact diffTables2_inv old.tables _ m' hm hold.each hs

end Migration
end Sqlize
