/-
  Proofs/PrintTotal.lean — **`Diff`, `MigrationUp` and `MigrationDown` never panic** on two models loaded from scripts
  the reference engine accepts (MySQL reader model): `Migration.Diff` returns (Proofs/DiffTotal.lean), every table of the
  state it leaves is fixed by `Arrange`, and every index record it leaves is of a printable kind, so both printers return.
-/
import SqlizeModel.Proofs.DiffTotal
import SqlizeModel.Proofs.IdxRefine
import SqlizeModel.Proofs.FidelityElems

namespace Sqlize
open Spec

/-- an index record both printers can print: plain or unique, and so is the definition kept as `previous` -/
def Index.Printable (i : Index) : Prop :=
  (i.typ = .none ∨ i.typ = .unique) ∧ ∀ p, i.prev = some p → (p.typ = .none ∨ p.typ = .unique)

theorem Index.Live.printable {i : Index} (h : i.Live) : i.Printable :=
  ⟨h.typ, by intro p hp; rw [h.prev] at hp; cases hp⟩

namespace Index

theorem migrationUp_total (g : Globals) (i : Index) (tb : String) (ht : i.typ = .none ∨ i.typ = .unique) :
    ∃ r, i.migrationUp g tb = .ok r := by
  unfold migrationUp
  cases ha : i.action <;> simp only [pure, Except.pure] <;> try exact ⟨_, rfl⟩
  · split
    · exact ⟨_, rfl⟩
    · rcases ht with ht | ht <;> rw [ht] <;> exact ⟨_, rfl⟩
  · split <;> exact ⟨_, rfl⟩
  · by_cases hpk : i.isPk = true
    · simp [hpk, bind, Except.bind, pure, Except.pure]
    · rcases ht with ht | ht <;> simp [hpk, ht, bind, Except.bind, pure, Except.pure]

theorem migrationDown_total (g : Globals) (i : Index) (tb : String) (h : i.Printable) :
    ∃ r, i.migrationDown g tb = .ok r := by
  unfold migrationDown
  cases ha : i.action <;> simp only
  · exact ⟨_, rfl⟩
  · exact migrationUp_total g _ tb h.1
  · exact migrationUp_total g _ tb h.1
  · cases hp : i.prev with
    | none => exact migrationUp_total g i tb h.1
    | some p => exact migrationUp_total g _ tb (h.2 p hp)
  · exact ⟨_, rfl⟩
  · exact migrationUp_total g _ tb h.1

end Index

namespace Table

theorem walkIdx_total (g : Globals) (tb : String) (up : Bool) (dc : List String) : ∀ idxs : List Index,
    (∀ i ∈ idxs, i.Printable) → ∃ ss, walkIdx g tb up dc idxs = .ok ss := by
  intro idxs
  induction idxs with
  | nil => intro _; exact ⟨[], rfl⟩
  | cons i r ih =>
    intro h
    obtain ⟨rs, hr⟩ := ih (fun x hx => h x (by simp [hx]))
    have hi := h i (by simp)
    have hstep : ∃ ss, (if i.action != .none && (i.action != (if up then Action.remove else Action.add) || !idxSuppressed i dc) then
        (if up then i.migrationUp g tb else i.migrationDown g tb) else pure [] : M (List Stmt)) = .ok ss := by
      cases up
      · simp only [Bool.false_eq_true, if_false]
        split
        · exact Index.migrationDown_total g i tb hi
        · exact ⟨[], rfl⟩
      · simp only [if_true]
        split
        · exact Index.migrationUp_total g i tb hi.1
        · exact ⟨[], rfl⟩
    obtain ⟨ss, hss⟩ := hstep
    unfold walkIdx
    refine bind_total hss ?_
    refine bind_total hr ?_
    exact ⟨_, rfl⟩

theorem addedIdx_total (g : Globals) (tb : String) : ∀ idxs : List Index,
    (∀ i ∈ idxs, i.typ = .none ∨ i.typ = .unique) → ∃ ss, addedIdx g tb idxs = .ok ss := by
  intro idxs
  induction idxs with
  | nil => intro _; exact ⟨[], rfl⟩
  | cons i r ih =>
    intro h
    obtain ⟨rs, hr⟩ := ih (fun x hx => h x (by simp [hx]))
    have hi := h i (by simp)
    have hstep : ∃ ss, (if i.action == .add then i.migrationUp g tb
        else if i.action == .rename then Index.migrationUp g { i with action := .add } tb
        else pure [] : M (List Stmt)) = .ok ss := by
      split
      · exact Index.migrationUp_total g i tb hi
      · split
        · exact Index.migrationUp_total g _ tb hi
        · exact ⟨[], rfl⟩
    obtain ⟨ss, hss⟩ := hstep
    unfold addedIdx
    refine bind_total hss ?_
    refine bind_total hr ?_
    exact ⟨_, rfl⟩

/-- every index record of the table is printable -/
def IdxPrintable (t : Table) : Prop := ∀ i ∈ t.idxs, i.Printable

theorem migrationIndexUp_total (g : Globals) (t : Table) (h : t.IdxPrintable) (dc : List String) :
    ∃ ss, t.migrationIndexUp g dc = .ok ss := by
  unfold migrationIndexUp
  cases t.action
  · exact walkIdx_total g t.name true dc t.idxs h
  · exact addedIdx_total g t.name t.idxs (fun i hi => (h i hi).1)
  all_goals exact ⟨[], rfl⟩

theorem migrationIndexDown_total (g : Globals) (t : Table) (h : t.IdxPrintable) (dc : List String) :
    ∃ ss, t.migrationIndexDown g dc = .ok ss := by
  unfold migrationIndexDown
  cases ha : t.action
  · exact walkIdx_total g t.name false dc t.idxs h
  · exact migrationIndexUp_total g { t with action := .remove } h dc
  · exact migrationIndexUp_total g { t with action := .add } h dc
  all_goals exact ⟨[], rfl⟩

theorem columnUp_total (g : Globals) (t : Table) : ∃ r, t.migrationColumnUp g = .ok r := by
  unfold Table.migrationColumnUp
  cases t.action <;> exact ⟨_, rfl⟩

theorem columnDown_total (g : Globals) (t : Table) : ∃ r, t.migrationColumnDown g = .ok r := by
  unfold Table.migrationColumnDown
  cases t.action with
  | none => exact ⟨_, rfl⟩
  | add => exact columnUp_total g { t with action := .remove }
  | remove => exact columnUp_total g { t with action := .add }
  | modify => exact ⟨_, rfl⟩
  | revert => exact ⟨_, rfl⟩
  | rename => exact ⟨_, rfl⟩

end Table

namespace Migration

/-- the printers return on a list of arrange-stable tables with printable indexes -/
theorem migrate_total (g : Globals) (up : Bool) : ∀ ts : List Table,
    (∀ t ∈ ts, t.arrange = .ok t ∧ t.IdxPrintable) → ∃ out, migrate g up ts = .ok (ts, out) := by
  intro ts
  induction ts with
  | nil => intro _; exact ⟨[], rfl⟩
  | cons t r ih =>
    intro h
    obtain ⟨hst, hpr⟩ := h t (by simp)
    obtain ⟨out, hr⟩ := ih (fun x hx => h x (by simp [hx]))
    unfold migrate
    split
    · exact ⟨out, by simp only [hr, bind, Except.bind, pure, Except.pure]⟩
    · cases up
      · obtain ⟨⟨cs, dc⟩, hc⟩ := Table.columnDown_total g t
        obtain ⟨is, hi⟩ := Table.migrationIndexDown_total g t hpr dc
        refine ⟨if (cs ++ is ++ t.migrationForeignKeyDown dc).isEmpty then out
                else (cs ++ is ++ t.migrationForeignKeyDown dc) :: out, ?_⟩
        simp only [hst, hc, hi, hr, bind, Except.bind, pure, Except.pure, Bool.false_eq_true, if_false]
      · obtain ⟨⟨cs, dc⟩, hc⟩ := Table.columnUp_total g t
        obtain ⟨is, hi⟩ := Table.migrationIndexUp_total g t hpr dc
        refine ⟨if (cs ++ is ++ t.migrationForeignKeyUp dc).isEmpty then out
                else (cs ++ is ++ t.migrationForeignKeyUp dc) :: out, ?_⟩
        simp only [hst, hc, hi, hr, bind, Except.bind, pure, Except.pure, if_true]

/-- what the first table loop leaves: a table of the new side as it is, or its `Table.Diff` against an old table -/
theorem diffTables1_mem (d : Dialect) (old : Migration) : ∀ (ts ts' : List Table), diffTables1 d old ts = .ok ts' →
    ∀ td ∈ ts', td ∈ ts ∨ ∃ t ∈ ts, ∃ ot ∈ old.tables, ∃ t1, t.diff d ot = .ok t1 ∧ td = { t1 with action := .none } := by
  intro ts
  induction ts with
  | nil => intro ts' hs td htd; unfold diffTables1 at hs; have := pure_ok hs; subst this; cases htd
  | cons t rest ih =>
    intro ts' hs td htd
    unfold diffTables1 at hs
    obtain ⟨t', hc, hs⟩ := bind_ok hs
    obtain ⟨rest', hr, hs⟩ := bind_ok hs
    have := pure_ok hs; subst this
    rcases List.mem_cons.mp htd with rfl | htd'
    · cases hg : old.tblIdx.get? t.name with
      | none => rw [hg] at hc; have := pure_ok hc; subst this; exact Or.inl (by simp)
      | some j =>
        rw [hg] at hc
        simp only at hc
        obtain ⟨ot, hot, hc⟩ := bind_ok hc
        have hotm : ot ∈ old.tables := List.mem_of_getElem? (getIdx_ok hot)
        split at hc
        · obtain ⟨t1, h1, hc⟩ := bind_ok hc
          have := pure_ok hc; subst this
          exact Or.inr ⟨t, by simp, ot, hotm, t1, h1, rfl⟩
        · have := pure_ok hc; subst this; exact Or.inl (by simp)
    · rcases ih rest' hr td htd' with h1 | ⟨x, hx, rest⟩
      · exact Or.inl (by simp [h1])
      · exact Or.inr ⟨x, by simp [hx], rest⟩

/-- what the second table loop adds: tables of the old side, tagged `remove` -/
theorem diffTables2_mem : ∀ (ots : List Table) (m m' : Migration), diffTables2 m ots = .ok m' →
    ∀ td ∈ m'.tables, td ∈ m.tables ∨ ∃ ot ∈ ots, td = { ot with action := .remove } := by
  intro ots
  induction ots with
  | nil => intro m m' hs td htd; unfold diffTables2 at hs; have := pure_ok hs; subst this; exact Or.inl htd
  | cons ot rest ih =>
    intro m m' hs td htd
    unfold diffTables2 at hs
    obtain ⟨m1, h1, hs⟩ := bind_ok hs
    rcases ih m1 m' hs td htd with h2 | ⟨o2, ho2, he⟩
    · split at h1
      · rename_i hc
        simp only [Bool.and_eq_true, Option.isNone_iff_eq_none] at hc
        unfold addTable at h1
        have hg : m.tblIdx.get? ({ ot with action := Action.remove } : Table).name = none := hc.1
        rw [hg] at h1
        have := pure_ok h1; subst this
        have h2 : td ∈ m.tables ++ [_] := h2
        rcases List.mem_append.mp h2 with h3 | h3
        · exact Or.inl h3
        · exact Or.inr ⟨ot, by simp, List.mem_singleton.mp h3⟩
      · have := pure_ok h1; subst this; exact Or.inl h2
    · exact Or.inr ⟨o2, by simp [ho2], he⟩

theorem diffTables1_total (d : Dialect) (old : Migration) (hold : old.Inv)
    (hoq : ∀ ot ∈ old.tables, ot.Fresh ∧ ∀ c ∈ ot.cols, c.cur.typ.isSome = true) :
    ∀ ts : List Table, (∀ t ∈ ts, t.Inv ∧ t.pendingPos = none ∧ t.Fresh ∧ ∀ c ∈ t.cols, c.cur.typ.isSome = true) →
      ∃ ts', diffTables1 d old ts = .ok ts' := by
  intro ts
  induction ts with
  | nil => intro _; exact ⟨[], rfl⟩
  | cons t rest ih =>
    intro h
    obtain ⟨rest', hr⟩ := ih (fun x hx => h x (by simp [hx]))
    obtain ⟨hi, hp, hf, hty⟩ := h t (by simp)
    have hstep : ∃ t', (match old.tblIdx.get? t.name with
      | some j => do
        let ot ← getIdx "Migration.Diff" old.tables j
        if ot.exists_ then do
          let t1 ← t.diff d ot
          pure { t1 with action := .none }
        else pure t
      | none => pure t : M Table) = .ok t' := by
      rcases NInv.lookup (f := fun x : Table => x.name) hold.tbls t.name "Migration.Diff" with ⟨hg, _⟩ | ⟨j, ot, hg, hgi, _, _, hmem⟩
      · rw [hg]; exact ⟨t, rfl⟩
      · rw [hg]
        simp only [hgi, bind, Except.bind]
        split
        · obtain ⟨t1, h1⟩ := Table.diff_total d t ot hi (hold.each ot hmem) hp hf (hoq ot hmem).1 hty (hoq ot hmem).2
          rw [h1]; exact ⟨_, rfl⟩
        · exact ⟨t, rfl⟩
    obtain ⟨t', ht'⟩ := hstep
    unfold diffTables1
    refine bind_total ht' ?_
    refine bind_total hr ?_
    exact ⟨_, rfl⟩

theorem diffTables2_total : ∀ (ots : List Table) (m : Migration), m.Inv → (∀ ot ∈ ots, ot.Inv) →
    ∃ m', diffTables2 m ots = .ok m' := by
  intro ots
  induction ots with
  | nil => intro m _ _; exact ⟨m, rfl⟩
  | cons ot rest ih =>
    intro m h hall
    unfold diffTables2
    have hoi := hall ot (by simp)
    by_cases hc : ((m.tblIdx.get? ot.name).isNone && ot.exists_) = true
    · rw [if_pos hc]
      obtain ⟨m1, h1⟩ := addTable_total m { ot with action := .remove } h
      have hi1 := addTable_inv m m1 { ot with action := .remove } h ⟨hoi.cols, hoi.idxs, hoi.fks⟩ h1
      obtain ⟨m', hm'⟩ := ih m1 hi1 (fun x hx => hall x (by simp [hx]))
      exact ⟨m', by simp only [h1, bind, Except.bind]; exact hm'⟩
    · rw [if_neg hc]
      obtain ⟨m', hm'⟩ := ih m h (fun x hx => hall x (by simp [hx]))
      exact ⟨m', by simp only [bind, Except.bind, pure, Except.pure]; exact hm'⟩

end Migration

theorem Rel.typed {m : Migration} {db : DB} (h : Rel m db) : ∀ t ∈ m.tables, ∀ c ∈ t.cols, c.cur.typ.isSome = true := by
  intro t ht c hc
  obtain ⟨i, hi⟩ := List.mem_iff_getElem?.mp ht
  have hlt : i < db.length := by rw [h.length_eq]; exact (List.getElem?_eq_some_iff.mp hi).1
  obtain ⟨cs, _, _, hty, _⟩ := h.types i t db[i] hi (List.getElem?_eq_getElem hlt) c hc
  rw [hty]; rfl

theorem tagged_printable (t o : Table) (ht : ∀ i ∈ t.idxs, i.Live) (ho : ∀ i ∈ o.idxs, i.Live) :
    ∀ x ∈ t.idxs.map (Table.tagIdx o) ++
        (o.idxs.filter (fun oi => !t.idxNames.contains oi.name)).map (fun oi => { oi with action := .remove }),
      x.Printable := by
  intro x hx
  rcases List.mem_append.mp hx with h | h
  · obtain ⟨i, hi, rfl⟩ := List.mem_map.mp h
    have hl := ht i hi
    unfold Table.tagIdx
    cases hf : o.idxs.find? (fun y => y.name == i.name) with
    | none => exact hl.printable
    | some oi =>
      have hoi : oi ∈ o.idxs := List.mem_of_find?_eq_some hf
      simp only
      split
      · exact ⟨hl.typ, by intro p hp; have hp : i.prev = some p := hp; rw [hl.prev] at hp; cases hp⟩
      · refine ⟨hl.typ, ?_⟩
        intro p hp
        have hp : some oi.toDef = some p := hp
        rw [← Option.some.inj hp]
        exact (ho oi hoi).typ
  · obtain ⟨oi, hoi, rfl⟩ := List.mem_map.mp h
    have hl := ho oi (List.mem_filter.mp hoi).1
    exact ⟨hl.typ, by intro p hp; have hp : oi.prev = some p := hp; rw [hl.prev] at hp; cases hp⟩

/-- **C09, after loading: `Diff`, `StringUp` and `StringDown` never panic** (MySQL reader model).  For two scripts of any
    length (vocabulary of `Stmt.elemSafe`) the reference engine accepts: loading both and diffing returns a state, and
    on that state `MigrationUp` and `MigrationDown` both return, leaving the state as it is. -/
theorem diff_print_total (g : Globals) (hg : g.dialect = .mysql) (rc : Bool) (old new : List Stmt) (dbO dbN : DB)
    (ho : old.all Stmt.elemSafe = true) (hn : new.all Stmt.elemSafe = true)
    (heo : execAll rc [] old = some dbO) (hen : execAll rc [] new = some dbN) :
    ∃ d outU outD, loadAndDiff g old new = .ok d ∧ d.migrationUp g = .ok (d, outU) ∧ d.migrationDown g = .ok (d, outD) := by
  obtain ⟨mo, hmo', hro, heo'⟩ := ReaderMysql.run_elems rc old {} [] dbO Rel.empty ElemsOK.empty ho heo
  obtain ⟨mn, hmn', hrn, hen'⟩ := ReaderMysql.run_elems rc new {} [] dbN Rel.empty ElemsOK.empty hn hen
  have hfo := ReaderMysql.fresh_of_rel hro heo'
  have hfn := ReaderMysql.fresh_of_rel hrn hen'
  have hliveO : ∀ t ∈ mo.tables, ∀ i ∈ t.idxs, i.Live :=
    fun t ht => (heo'.fresh _ (List.mem_map_of_mem (f := Table.raw) ht)).1
  have hliveN : ∀ t ∈ mn.tables, ∀ i ∈ t.idxs, i.Live :=
    fun t ht => (hen'.fresh _ (List.mem_map_of_mem (f := Table.raw) ht)).1
  -- `Migration.Diff` returns
  obtain ⟨ts, h1⟩ := Migration.diffTables1_total g.dialect mo hro.inv
    (fun ot hot => ⟨(hfo.tables ot hot).1, hro.typed ot hot⟩) mn.tables
    (fun t ht => ⟨hrn.inv.each t ht, hrn.np t ht, (hfn.tables t ht).1, hrn.typed t ht⟩)
  obtain ⟨hnames, hinvs⟩ := Migration.diffTables1_inv g.dialect mo hro.inv mn.tables ts
    (fun t ht => ⟨hrn.inv.each t ht, hrn.np t ht⟩) h1
  have hm1 : Migration.Inv { mn with tables := ts } :=
    ⟨by show NInv (ts.map (·.name)) _; rw [hnames]; exact hrn.inv.tbls, hinvs⟩
  obtain ⟨d, h2⟩ := Migration.diffTables2_total mo.tables { mn with tables := ts } hm1 hro.inv.each
  have hd : mn.diff g.dialect mo = .ok d := by
    unfold Migration.diff
    simp only [h1, bind, Except.bind]
    exact h2
  have hdinv := Migration.diff_inv g.dialect mn mo d hrn.inv hro.inv hrn.np hd
  -- every table of the diffed state is arrange-stable and has printable indexes
  have hall : ∀ t ∈ d.tables, t.arrange = .ok t ∧ t.IdxPrintable := by
    intro td htd
    refine ⟨arrange_id td (hdinv.each td htd).colInv, ?_⟩
    rcases Migration.diffTables2_mem mo.tables _ d h2 td htd with hA | ⟨ot, hot, rfl⟩
    · rcases Migration.diffTables1_mem g.dialect mo mn.tables ts h1 td hA with hB | ⟨tn, htn, ot, hot, t1, ht1, rfl⟩
      · exact fun i hi => (hliveN td hB i hi).printable
      · obtain ⟨hidx, _⟩ := Table.diff_elems g.dialect tn ot t1 (hrn.inv.each tn htn) (hro.inv.each ot hot)
          (hrn.np tn htn) (hfn.tables tn htn).1 (hfo.tables ot hot).1 ht1
        intro i hi
        have hi : i ∈ t1.idxs := hi
        rw [hidx] at hi
        exact tagged_printable tn ot (hliveN tn htn) (hliveO ot hot) i hi
    · exact fun i hi => (hliveO ot hot i hi).printable
  obtain ⟨outU, hU⟩ := Migration.migrate_total g true d.tables hall
  obtain ⟨outD, hD⟩ := Migration.migrate_total g false d.tables hall
  refine ⟨d, outU, outD, ?_, ?_, ?_⟩
  · have e1 : readScript g {} old = .ok mo := by unfold readScript; rw [hg]; exact hmo'
    have e2 : readScript g {} new = .ok mn := by unfold readScript; rw [hg]; exact hmn'
    unfold loadAndDiff
    simp only [e1, e2, bind, Except.bind]
    exact hd
  · unfold Migration.migrationUp
    simp only [hU, bind, Except.bind, pure, Except.pure]
  · unfold Migration.migrationDown
    simp only [hD, bind, Except.bind, pure, Except.pure]

/-- … in particular for one loaded script: printing what was loaded never panics -/
theorem load_print_total (g : Globals) (hg : g.dialect = .mysql) (rc : Bool) (ss : List Stmt) (db : DB)
    (hs : ss.all Stmt.elemSafe = true) (he : execAll rc [] ss = some db) :
    ∃ m outU outD, readScript g {} ss = .ok m ∧ m.migrationUp g = .ok (m, outU) ∧ m.migrationDown g = .ok (m, outD) := by
  obtain ⟨m, hm, hr, hel⟩ := ReaderMysql.run_elems rc ss {} [] db Rel.empty ElemsOK.empty hs he
  have hall : ∀ t ∈ m.tables, t.arrange = .ok t ∧ t.IdxPrintable := by
    intro t ht
    refine ⟨arrange_id t (hr.inv.each t ht).colInv, ?_⟩
    exact fun i hi => ((hel.fresh _ (List.mem_map_of_mem (f := Table.raw) ht)).1 i hi).printable
  obtain ⟨outU, hU⟩ := Migration.migrate_total g true m.tables hall
  obtain ⟨outD, hD⟩ := Migration.migrate_total g false m.tables hall
  refine ⟨m, outU, outD, by unfold readScript; rw [hg]; exact hm, ?_, ?_⟩
  · unfold Migration.migrationUp
    simp only [hU, bind, Except.bind, pure, Except.pure]
  · unfold Migration.migrationDown
    simp only [hD, bind, Except.bind, pure, Except.pure]

end Sqlize
