/-
  Proofs/NoPanic.lean — under the invariant no edit primitive can hit an index-out-of-range panic: a position read from
  a map is always a valid index of the slice.  The only error left is `swapOrderUnmodelled` (a positional re-add that
  takes `swapOrder`'s capacity-dependent path, defect F1 — reported as UNMODELLED by the correspondence, never silently
  agreed with), and only `AddColumn` can return it.
-/
import SqlizeModel.Proofs.DiffInv

namespace Sqlize

theorem bind_err {α β : Type} {x : M α} {f : α → M β} {e : String} (h : (x >>= f) = .error e) :
    x = .error e ∨ ∃ a, x = .ok a ∧ f a = .error e := by
  cases x with
  | error e' => left; exact congrArg Except.error (Except.error.inj h)
  | ok a => right; exact ⟨a, rfl, h⟩

theorem bind_total {α β : Type} {x : M α} {f : α → M β} {a : α} (hx : x = .ok a) (hf : ∃ b, f a = .ok b) :
    ∃ b, (x >>= f) = .ok b := by
  subst hx; exact hf

theorem getIdx_of_lt {α : Type} (site : String) (l : List α) (i : Nat) (h : i < l.length) :
    getIdx site l i = .ok l[i] := by
  unfold getIdx
  rw [List.getElem?_eq_getElem h]
  rfl

/-- `x` does not panic: it returns, or fails with the one non-panic error -/
def Safe {α : Type} (x : M α) : Prop := ∀ e, x = .error e → e = swapOrderUnmodelled

theorem safe_ok {α : Type} (a : α) : Safe (.ok a : M α) := by intro e h; cases h

theorem safe_pure {α : Type} (a : α) : Safe (pure a : M α) := safe_ok a

theorem safe_bind {α β : Type} {x : M α} {f : α → M β} (hx : Safe x) (hf : ∀ a, x = .ok a → Safe (f a)) :
    Safe (x >>= f) := by
  intro e h
  rcases bind_err h with h1 | ⟨a, ha, h1⟩
  · exact hx e h1
  · exact hf a ha e h1

namespace Table

theorem col_lt {t : Table} (h : t.Inv) {n : String} {i : Nat} (hg : t.colIdx.get? n = some i) : i < t.cols.length := by
  have := h.cols.lt_length hg; simpa [colNames] using this

theorem idx_lt {t : Table} (h : t.Inv) {n : String} {i : Nat} (hg : t.idxIdx.get? n = some i) : i < t.idxs.length := by
  have := h.idxs.lt_length hg; simpa [idxNames] using this

theorem fk_lt {t : Table} (h : t.Inv) {n : String} {i : Nat} (hg : t.fkIdx.get? n = some i) : i < t.fks.length := by
  have := h.fks.lt_length hg; simpa [fkNames] using this

theorem swapOrder_safe (t : Table) (c : String) (oldID newID : Nat) (hlt : oldID < t.cols.length) :
    Safe (t.swapOrder c oldID newID) := by
  unfold swapOrder
  split
  · exact safe_pure _
  · rw [getIdx_of_lt _ _ _ hlt]
    intro e he
    simp only [bind, Except.bind] at he
    split at he
    · cases he
    · exact (Except.error.inj he).symm

theorem positionStep_safe (t : Table) (c : String) (id : Nat) (hlt : id < t.cols.length) :
    Safe (t.positionStep c id) := by
  unfold positionStep
  cases t.pendingPos with
  | none => exact safe_pure _
  | some p =>
    cases p with
    | first => exact safe_bind (swapOrder_safe t c id 0 hlt) (fun _ _ => safe_pure _)
    | after r =>
      simp only
      cases t.colIdx.get? r with
      | none => exact safe_pure _
      | some a => exact safe_bind (swapOrder_safe t c id (a + 1) hlt) (fun _ _ => safe_pure _)

/-- `AddColumn` never panics on a consistent table -/
theorem addColumn_safe (t : Table) (col : Column) (mysql : Bool) {pg : Bool} (h : t.Inv) : Safe (t.addColumn col mysql pg) := by
  unfold addColumn
  cases hg : t.colIdx.get? col.name with
  | none =>
    simp only
    apply positionStep_safe
    show t.cols.length < (t.cols ++ [col]).length
    simp
  | some id =>
    simp only
    have hlt := col_lt h hg
    rw [getIdx_of_lt _ _ _ hlt]
    show Safe (if _ then _ else _)
    split
    · apply positionStep_safe
      show id < (t.cols.set id col).length
      simpa using hlt
    · exact safe_pure _

theorem forgetIndex_total (t : Table) (id : Nat) (hlt : id < t.idxs.length) : ∃ t', t.forgetIndex id = .ok t' := by
  unfold forgetIndex
  rw [getIdx_of_lt _ _ _ hlt]
  exact ⟨_, rfl⟩

theorem forgetForeignKey_total (t : Table) (id : Nat) (hlt : id < t.fks.length) :
    ∃ t', t.forgetForeignKey id = .ok t' := by
  unfold forgetForeignKey
  rw [getIdx_of_lt _ _ _ hlt]
  exact ⟨_, rfl⟩

theorem stripColFromIndexes_total (col : String) (k : Nat) : ∀ (t : Table), t.Inv → k ≤ t.idxs.length →
    ∃ t', t.stripColFromIndexes col k = .ok t' := by
  induction k with
  | zero => intro t _ _; exact ⟨t, rfl⟩
  | succ k ih =>
    intro t h hk
    unfold stripColFromIndexes
    have hlt : k < t.idxs.length := by omega
    refine bind_total (getIdx_of_lt _ _ _ hlt) ?_
    by_cases hc : (((t.idxs[k]).cols.filter (· != col)).isEmpty && !(t.idxs[k]).cols.isEmpty) = true
    · obtain ⟨t1, h1⟩ := forgetIndex_total t k hlt
      obtain ⟨hi, _, _, _, _, _, hl⟩ := forgetIndex_inv t t1 k h h1
      refine bind_total (a := t1) (by rw [if_pos hc]; exact h1) ?_
      exact ih t1 hi (by omega)
    · refine bind_total (by rw [if_neg hc]; rfl) ?_
      refine ih _ ?_ ?_
      · refine ⟨h.cols, ?_, h.fks⟩
        show NInv ((t.idxs.set k _).map (·.name)) _
        exact ninv_set_same h.idxs (List.getElem?_eq_getElem hlt) rfl
      · show k ≤ (t.idxs.set k _).length
        simp only [List.length_set]; omega

theorem dropFksOnCol_total (col : String) (k : Nat) : ∀ (t : Table), t.Inv → k ≤ t.fks.length →
    ∃ t', t.dropFksOnCol col k = .ok t' := by
  induction k with
  | zero => intro t _ _; exact ⟨t, rfl⟩
  | succ k ih =>
    intro t h hk
    unfold dropFksOnCol
    have hlt : k < t.fks.length := by omega
    refine bind_total (getIdx_of_lt _ _ _ hlt) ?_
    by_cases hc : ((t.fks[k]).column == col) = true
    · obtain ⟨t1, h1⟩ := forgetForeignKey_total t k hlt
      obtain ⟨hi, _, hl⟩ := forgetForeignKey_inv t t1 k h h1
      refine bind_total (a := t1) (by rw [if_pos hc]; exact h1) ?_
      exact ih t1 hi (by omega)
    · refine bind_total (a := t) (by rw [if_neg hc]; rfl) ?_
      exact ih t h (by omega)

theorem removeColumn_total (t : Table) (name : String) (h : t.Inv) : ∃ t', t.removeColumn name = .ok t' := by
  unfold removeColumn
  cases hg : t.colIdx.get? name with
  | none => exact ⟨_, rfl⟩
  | some id =>
    simp only
    have hlt := col_lt h hg
    refine bind_total (getIdx_of_lt _ _ _ hlt) ?_
    by_cases hc : ((t.cols[id]).action == .add || (t.cols[id]).action == .rename) = true
    · rw [if_pos hc]
      let t1 : Table := { t with cols := t.cols.eraseIdx id,
                                 colIdx := (t.colIdx.erase name).mapVals (fun v => if v > id then v - 1 else v) }
      have hi1 : t1.Inv := by
        refine ⟨?_, h.idxs, h.fks⟩
        show NInv ((t.cols.eraseIdx id).map (·.name)) _
        have := NInv.eraseShift h.cols hg
        rw [map_eraseIdx'] at this
        exact this
      obtain ⟨t2, h2⟩ := stripColFromIndexes_total name t1.idxs.length t1 hi1 (Nat.le_refl _)
      refine bind_total (a := t2) h2 ?_
      exact dropFksOnCol_total name _ t2 (stripColFromIndexes_inv name _ t1 t2 hi1 h2).1 (Nat.le_refl _)
    · rw [if_neg hc]; exact ⟨_, rfl⟩

theorem renameColumn_total (t : Table) (o n : String) (h : t.Inv) : ∃ t', t.renameColumn o n = .ok t' := by
  unfold renameColumn
  cases hg : t.colIdx.get? o with
  | none => exact ⟨_, rfl⟩
  | some id =>
    simp only
    rw [getIdx_of_lt _ _ _ (col_lt h hg)]
    exact ⟨_, rfl⟩

theorem addIndex_total (t : Table) (idx : Index) (h : t.Inv) : ∃ t', t.addIndex idx = .ok t' := by
  unfold addIndex
  cases hg : t.idxIdx.get? idx.name with
  | none => exact ⟨_, rfl⟩
  | some id =>
    simp only [setIdx, if_pos (idx_lt h hg)]
    exact ⟨_, rfl⟩

theorem removeIndex_total (t : Table) (name : String) (h : t.Inv) : ∃ t', t.removeIndex name = .ok t' := by
  unfold removeIndex
  cases hg : t.idxIdx.get? name with
  | none => exact ⟨_, rfl⟩
  | some id =>
    simp only
    have hlt := idx_lt h hg
    refine bind_total (getIdx_of_lt _ _ _ hlt) ?_
    by_cases hc : ((t.idxs[id]).action == .add) = true
    · rw [if_pos hc]; exact forgetIndex_total t id hlt
    · rw [if_neg hc]; exact ⟨_, rfl⟩

theorem renameIndex_total (t : Table) (o n : String) (h : t.Inv) : ∃ t', t.renameIndex o n = .ok t' := by
  unfold renameIndex
  cases hg : t.idxIdx.get? o with
  | none => exact ⟨_, rfl⟩
  | some id =>
    have hlt := idx_lt h hg
    simp only [modifyIdx, List.getElem?_eq_getElem hlt]
    exact ⟨_, rfl⟩

theorem addForeignKey_total (t : Table) (fk : ForeignKey) (h : t.Inv) : ∃ t', t.addForeignKey fk = .ok t' := by
  unfold addForeignKey
  cases hg : t.fkIdx.get? fk.name with
  | none => exact ⟨_, rfl⟩
  | some id =>
    simp only [setIdx, if_pos (fk_lt h hg)]
    exact ⟨_, rfl⟩

theorem removeForeignKey_total (t : Table) (name : String) (h : t.Inv) : ∃ t', t.removeForeignKey name = .ok t' := by
  unfold removeForeignKey
  cases hg : t.fkIdx.get? name with
  | none => exact ⟨_, rfl⟩
  | some id =>
    simp only
    have hlt := fk_lt h hg
    refine bind_total (getIdx_of_lt _ _ _ hlt) ?_
    by_cases hc : ((t.fks[id]).action == .add) = true
    · rw [if_pos hc]; exact forgetForeignKey_total t id hlt
    · rw [if_neg hc]; exact ⟨_, rfl⟩

end Table

theorem safe_of_total {α : Type} {x : M α} (h : ∃ a, x = .ok a) : Safe x := by
  obtain ⟨a, ha⟩ := h; rw [ha]; exact safe_ok a

namespace Migration

theorem tbl_lt {m : Migration} (h : m.Inv) {n : String} {i : Nat} (hg : m.tblIdx.get? n = some i) :
    i < m.tables.length := by
  have := h.tbls.lt_length hg; simpa [tblNames] using this

theorem addTable_total (m : Migration) (tb : Table) (h : m.Inv) : ∃ m', m.addTable tb = .ok m' := by
  unfold addTable
  cases hg : m.tblIdx.get? tb.name with
  | none => exact ⟨_, rfl⟩
  | some id =>
    simp only [setIdx, if_pos (tbl_lt h hg)]
    exact ⟨_, rfl⟩

theorem removeTable_total (m : Migration) (name : String) (h : m.Inv) : ∃ m', m.removeTable name = .ok m' := by
  unfold removeTable
  cases hg : m.tblIdx.get? name with
  | none => exact ⟨_, rfl⟩
  | some id =>
    simp only
    refine bind_total (getIdx_of_lt _ _ _ (tbl_lt h hg)) ?_
    split <;> exact ⟨_, rfl⟩

theorem renameTable_total (m : Migration) (o n : String) (h : m.Inv) : ∃ m', m.renameTable o n = .ok m' := by
  unfold renameTable
  cases hg : m.tblIdx.get? o with
  | none => exact ⟨_, rfl⟩
  | some id =>
    have hlt := tbl_lt h hg
    simp only [modifyIdx, List.getElem?_eq_getElem hlt]
    exact ⟨_, rfl⟩

/-- `ensureTable` returns a valid position -/
theorem ensureTable_total (m : Migration) (tb : String) (h : m.Inv) :
    ∃ m' id, m.ensureTable tb = .ok (m', id) ∧ id < m'.tables.length := by
  unfold ensureTable
  cases hg : m.tblIdx.get? tb with
  | some id => exact ⟨m, id, rfl, tbl_lt h hg⟩
  | none =>
    simp only
    refine ⟨{ m with tables := m.tables ++ [Table.new tb .modify], tblIdx := m.tblIdx.set tb m.tables.length },
      m.tables.length, ?_, ?_⟩
    · unfold addTable
      have : m.tblIdx.get? (Table.new tb .modify).name = none := hg
      rw [this]
      simp [bind, Except.bind, pure, Except.pure, Table.new]
    · show m.tables.length < (m.tables ++ [_]).length
      simp

theorem onTable_safe (m : Migration) (site : String) (id : Nat) (f : Table → M Table) (hlt : id < m.tables.length)
    (hf : ∀ t ∈ m.tables, Safe (f t)) : Safe (m.onTable site id f) := by
  unfold onTable
  rw [getIdx_of_lt _ _ _ hlt]
  show Safe (f m.tables[id] >>= fun t' => pure { m with tables := m.tables.set id t' })
  exact safe_bind (hf _ (List.getElem_mem hlt)) (fun _ _ => safe_pure _)

/-- the shared shape "ensure the table, then edit it" -/
theorem ensure_then_safe (m : Migration) (tb site : String) (f : Table → M Table) (h : m.Inv)
    (hf : ∀ t, t.Inv → Safe (f t)) :
    Safe (do let (m', id) ← m.ensureTable tb; m'.onTable site id f) := by
  obtain ⟨m1, id, he, hlt⟩ := ensureTable_total m tb h
  rw [he]
  have hi1 := ensureTable_inv m m1 tb id h he
  exact onTable_safe m1 site id f hlt (fun t ht => hf t (hi1.each t ht))

theorem addColumn_safe (m : Migration) (tb : String) (col : Column) (mysql : Bool) {pg : Bool} (h : m.Inv) :
    Safe (m.addColumn tb col mysql pg) :=
  ensure_then_safe m _ _ _ h (fun t hi => Table.addColumn_safe t col mysql hi)

theorem removeColumn_safe (m : Migration) (tb col : String) (h : m.Inv) : Safe (m.removeColumn tb col) :=
  ensure_then_safe m _ _ _ h (fun t hi => safe_of_total (Table.removeColumn_total t col hi))

theorem addIndex_safe (m : Migration) (tb : String) (idx : Index) (h : m.Inv) : Safe (m.addIndex tb idx) :=
  ensure_then_safe m _ _ _ h (fun t hi => safe_of_total (Table.addIndex_total t idx hi))

theorem removeIndex_safe (m : Migration) (tb name : String) (h : m.Inv) : Safe (m.removeIndex tb name) :=
  ensure_then_safe m _ _ _ h (fun t hi => safe_of_total (Table.removeIndex_total t name hi))

theorem addForeignKey_safe (m : Migration) (tb : String) (fk : ForeignKey) (h : m.Inv) :
    Safe (m.addForeignKey tb fk) := by
  unfold addForeignKey
  exact ensure_then_safe m _ _ _ h (fun t hi => safe_of_total (Table.addForeignKey_total t _ hi))

theorem removeForeignKey_safe (m : Migration) (tb name : String) (h : m.Inv) : Safe (m.removeForeignKey tb name) :=
  ensure_then_safe m _ _ _ h (fun t hi => safe_of_total (Table.removeForeignKey_total t name hi))

/-- the shape "look the table up, edit it if known" -/
theorem lookup_then_safe (m : Migration) (tb site : String) (f : Table → M Table) (h : m.Inv)
    (hf : ∀ t, t.Inv → Safe (f t)) :
    Safe (match m.tblIdx.get? tb with
      | some id => m.onTable site id f
      | none => pure m) := by
  cases hg : m.tblIdx.get? tb with
  | none => exact safe_pure _
  | some id => exact onTable_safe m site id f (tbl_lt h hg) (fun t ht => hf t (h.each t ht))

theorem setColumnPosition_safe (m : Migration) (tb : String) (pos : Pos) (h : m.Inv) :
    Safe (m.setColumnPosition tb pos) :=
  lookup_then_safe m _ _ _ h (fun _ _ => safe_pure _)

theorem renameColumn_safe (m : Migration) (tb o n : String) (h : m.Inv) : Safe (m.renameColumn tb o n) :=
  lookup_then_safe m _ _ _ h (fun t hi => safe_of_total (Table.renameColumn_total t o n hi))

theorem renameIndex_safe (m : Migration) (tb o n : String) (h : m.Inv) : Safe (m.renameIndex tb o n) :=
  lookup_then_safe m _ _ _ h (fun t hi => safe_of_total (Table.renameIndex_total t o n hi))

theorem addComment_safe (m : Migration) (tb col comment : String) (h : m.Inv) : Safe (m.addComment tb col comment) := by
  unfold addComment
  cases hg : m.tblIdx.get? (m.resolve tb) with
  | none => exact safe_pure _
  | some id =>
    refine onTable_safe m _ id _ (tbl_lt h hg) ?_
    intro t ht
    cases hc : t.colIdx.get? col with
    | none => exact safe_pure _
    | some ci =>
      have hlt := Table.col_lt (h.each t ht) hc
      simp only [modifyIdx, List.getElem?_eq_getElem hlt]
      exact safe_ok _

end Migration
end Sqlize
