/-
  Proofs/DiffTotal.lean — `Table.Diff` and `Migration.Diff` never panic on consistent, freshly loaded models whose
  columns all carry a type (what every load of a well-formed MySQL script produces): every map lookup is followed by a
  read inside the slice, the `swapOrder` of the second column loop always moves the appended column forward, and the
  type comparison never meets a nil type.
-/
import SqlizeModel.Proofs.DiffElems
import SqlizeModel.Proofs.NoPanic

namespace Sqlize
namespace Table

theorem diffCols1_total (d : Dialect) (old : Table) (hold : old.Inv) (hot : ∀ c ∈ old.cols, c.cur.typ.isSome = true) :
    ∀ cols : List Column, (∀ c ∈ cols, c.cur.typ.isSome = true) → ∃ cols', diffCols1 d old cols = .ok cols' := by
  intro cols
  induction cols with
  | nil => intro _; exact ⟨[], rfl⟩
  | cons c rest ih =>
    intro h
    obtain ⟨rest', hr⟩ := ih (fun x hx => h x (by simp [hx]))
    have hstep : ∃ c', (if c.action == .add then
        match old.colIdx.get? c.name with
        | some j => do
          let oc ← getIdx "Table.Diff" old.cols j
          if oc.action != .none then
            if hasChangedOptions c.cur.opts oc.cur.opts then pure { c with action := .modify, prev := oc.cur }
            else do
              let tc ← hasChangedType d c.cur.typ oc.cur.typ
              if tc then pure { c with action := .modify, prev := oc.cur } else pure { c with action := .none }
          else pure c
        | none => pure c
      else pure c : M Column) = .ok c' := by
      by_cases ha : (c.action == .add) = true
      · rw [if_pos ha]
        rcases NInv.lookup (f := fun x : Column => x.name) hold.cols c.name "Table.Diff" with ⟨hg, _⟩ | ⟨j, oc, hg, hgi, _, _, hmem⟩
        · rw [hg]; exact ⟨c, rfl⟩
        · rw [hg]
          simp only [hgi, bind, Except.bind]
          by_cases h1 : (oc.action != .none) = true
          · rw [if_pos h1]
            by_cases h2 : hasChangedOptions c.cur.opts oc.cur.opts = true
            · rw [if_pos h2]; exact ⟨_, rfl⟩
            · rw [if_neg h2]
              -- both types are present: the comparison returns
              obtain ⟨a, hca⟩ := Option.isSome_iff_exists.mp (h c (by simp))
              obtain ⟨b, hob⟩ := Option.isSome_iff_exists.mp (hot oc hmem)
              have : ∃ tc, hasChangedType d c.cur.typ oc.cur.typ = .ok tc := by
                unfold hasChangedType
                rw [hca, hob]
                cases d <;> exact ⟨_, rfl⟩
              obtain ⟨tc, htc⟩ := this
              rw [htc]
              cases tc <;> exact ⟨_, rfl⟩
          · rw [if_neg h1]; exact ⟨c, rfl⟩
      · rw [if_neg ha]; exact ⟨c, rfl⟩
    obtain ⟨c', hc'⟩ := hstep
    unfold diffCols1
    refine bind_total hc' ?_
    refine bind_total hr ?_
    exact ⟨_, rfl⟩

/-- the position the second loop moves an appended column to is never behind it -/
theorem mergePos_le (t : Table) (h : t.Inv) (before : List Column) (lastName : String)
    (hlast : t.colNames[t.cols.length - 1]? = some lastName) (hne : ∀ p ∈ before, p.name ≠ lastName) :
    mergePos t before ≤ t.cols.length - 1 := by
  unfold mergePos
  cases hf : before.reverse.find? (fun x => x.action != .none) with
  | none => exact Nat.zero_le _
  | some p =>
    simp only
    have hpm : p ∈ before := by
      have := List.mem_of_find?_eq_some hf
      simpa using this
    cases hg : t.colIdx.get? p.name with
    | none => exact Nat.zero_le _
    | some id =>
      simp only
      have hlt := col_lt h hg
      have hid : t.colNames[id]? = some p.name := (h.cols.get p.name id).mp hg
      have : id ≠ t.cols.length - 1 := by
        intro he
        rw [he, hlast] at hid
        exact hne p hpm (Option.some.inj hid).symm
      omega

theorem diffCols2_total (mysql : Bool) : ∀ (ocs : List Column) (t : Table) (before : List Column), t.Inv →
    t.pendingPos = none → ((before ++ ocs).map (·.name)).Nodup → ∃ t', diffCols2 mysql t before ocs = .ok t' := by
  intro ocs
  induction ocs with
  | nil => intro t before _ _ _; exact ⟨t, rfl⟩
  | cons oc rest ih =>
    intro t before h hp hnd
    have hnd' : (((before ++ [oc]) ++ rest).map (·.name)).Nodup := by simpa [List.append_assoc] using hnd
    unfold diffCols2
    by_cases hcond : (oc.action == .add && (t.colIdx.get? oc.name).isNone) = true
    · rw [if_pos hcond]
      simp only [Bool.and_eq_true, Option.isNone_iff_eq_none] at hcond
      have hfresh := addColumn_fresh t { oc with action := .remove } mysql hcond.2 hp
      have hia := (addColumn_inv t _ _ mysql h hfresh).1
      have hlastN : (Table.colNames { t with cols := t.cols ++ [{ oc with action := .remove }],
                                             colIdx := t.colIdx.set oc.name t.cols.length })[
          (t.cols ++ [{ oc with action := Action.remove }]).length - 1]? = some oc.name := by
        show (List.map (fun x : Column => x.name) (t.cols ++ [{ oc with action := Action.remove }]))[_]? = _
        simp
      obtain ⟨ta, hta⟩ : ∃ ta : Table, ta = { t with cols := t.cols ++ [{ oc with action := .remove }],
                                                     colIdx := t.colIdx.set oc.name t.cols.length } := ⟨_, rfl⟩
      have hlen : ta.cols.length = (t.cols ++ [{ oc with action := Action.remove }]).length := by rw [hta]
      rw [← hta] at hia hlastN
      rw [← hlen] at hlastN
      have hfresh' : t.addColumn { oc with action := .remove } mysql = .ok ta := by rw [hta]; exact hfresh
      have hneP : ∀ p ∈ before, p.name ≠ oc.name := by
        intro p hp' he
        rw [List.map_append, List.nodup_append] at hnd
        exact hnd.2.2 p.name (List.mem_map_of_mem hp') oc.name (by simp) he
      have hle := mergePos_le ta hia before oc.name hlastN hneP
      have hne : ta.cols ≠ [] := by
        rw [hta]
        show t.cols ++ [_] ≠ []
        simp
      obtain ⟨t1, h1⟩ := swapOrder_total ta oc.name (mergePos ta before) hne hle
      have hi1 := swapOrder_inv ta t1 oc.name _ _ hia hlastN h1
      have hp1 : t1.pendingPos = none := by rw [swapOrder_pending ta t1 _ _ _ h1, hta]; exact hp
      obtain ⟨t', ht'⟩ := ih t1 (before ++ [oc]) hi1.1 hp1 hnd'
      refine ⟨t', ?_⟩
      rw [hfresh']
      simp only [bind, Except.bind]
      have : Table.swapOrder ta oc.name (ta.cols.length - 1) (mergePos ta before) = .ok t1 := h1
      rw [this]
      exact ht'
    · rw [if_neg hcond]
      obtain ⟨t', ht'⟩ := ih t (before ++ [oc]) h hp hnd'
      exact ⟨t', by simp only [bind, Except.bind, pure, Except.pure]; exact ht'⟩

theorem diffIdx2_total : ∀ (ois : List Index) (t : Table), t.Inv → ∃ t', diffIdx2 t ois = .ok t' := by
  intro ois
  induction ois with
  | nil => intro t _; exact ⟨t, rfl⟩
  | cons oi rest ih =>
    intro t h
    unfold diffIdx2
    by_cases hc : (oi.action == .add && (t.idxIdx.get? oi.name).isNone) = true
    · rw [if_pos hc]
      obtain ⟨t1, h1⟩ := addIndex_total t { oi with action := .remove } h
      obtain ⟨t', ht'⟩ := ih t1 (addIndex_inv t t1 _ h h1).1
      exact ⟨t', by simp only [h1, bind, Except.bind]; exact ht'⟩
    · rw [if_neg hc]
      obtain ⟨t', ht'⟩ := ih t h
      exact ⟨t', by simp only [bind, Except.bind, pure, Except.pure]; exact ht'⟩

theorem diffFk2_total : ∀ (ofs : List ForeignKey) (t : Table), t.Inv → ∃ t', diffFk2 t ofs = .ok t' := by
  intro ofs
  induction ofs with
  | nil => intro t _; exact ⟨t, rfl⟩
  | cons f rest ih =>
    intro t h
    unfold diffFk2
    by_cases hc : (f.action == .add && (t.fkIdx.get? f.name).isNone) = true
    · rw [if_pos hc]
      obtain ⟨t1, h1⟩ := addForeignKey_total t { f with action := .remove } h
      obtain ⟨t', ht'⟩ := ih t1 (addForeignKey_inv t t1 _ h h1).1
      exact ⟨t', by simp only [h1, bind, Except.bind]; exact ht'⟩
    · rw [if_neg hc]
      obtain ⟨t', ht'⟩ := ih t h
      exact ⟨t', by simp only [bind, Except.bind, pure, Except.pure]; exact ht'⟩

/-- **`Table.Diff` never panics** on consistent, freshly loaded, fully typed tables -/
theorem diff_total (d : Dialect) (t o : Table) (h : t.Inv) (ho : o.Inv) (hp : t.pendingPos = none) (hf : t.Fresh)
    (hof : o.Fresh) (htt : ∀ c ∈ t.cols, c.cur.typ.isSome = true) (hot : ∀ c ∈ o.cols, c.cur.typ.isSome = true) :
    ∃ t', t.diff d o = .ok t' := by
  obtain ⟨cols1, hc1⟩ := diffCols1_total d o ho hot t.cols htt
  have hcn := diffCols1_names d o t.cols cols1 hc1
  have hi0 : Table.Inv { t with cols := cols1 } := ⟨by show NInv (cols1.map (·.name)) _; rw [hcn]; exact h.cols, h.idxs, h.fks⟩
  obtain ⟨t1, h1⟩ := diffCols2_total (d == .mysql) o.cols { t with cols := cols1 } [] hi0 hp (by simpa using ho.cols.nodup)
  obtain ⟨hi1, _⟩ := diffCols2_inv _ o.cols _ t1 [] hi0 hp h1
  have hr1 : t1.raw = t.raw := diffCols2_raw _ o.cols { t with cols := cols1 } t1 [] h1
  have h1i : t1.idxs = t.idxs := congrArg Prod.fst hr1
  have h1f : t1.fks = t.fks := congrArg Prod.snd hr1
  have hidx := diffIdx1_tags o ho hof.idxs t1.idxs (by rw [h1i]; exact hf.idxs)
  have hin : (t1.idxs.map (tagIdx o)).map (·.name) = t1.idxs.map (·.name) := by
    rw [List.map_map]
    apply List.map_congr_left
    intro i _
    simp only [Function.comp, tagIdx]
    split
    · rfl
    · split <;> rfl
  have hi1' : Table.Inv { t1 with idxs := t1.idxs.map (tagIdx o) } :=
    ⟨hi1.cols, by show NInv ((t1.idxs.map (tagIdx o)).map (·.name)) _; rw [hin]; exact hi1.idxs, hi1.fks⟩
  obtain ⟨t2, h2⟩ := diffIdx2_total o.idxs _ hi1'
  have hi2 := (diffIdx2_inv o.idxs _ t2 hi1' h2).1
  have h2f : t2.fks = t.fks := by
    have := (diffIdx2_appends o.idxs _ t2 hi1' ho.idxs.nodup hof.idxs h2).2
    exact this.trans h1f
  have hfk := diffFk1_tags o ho hof.fks t2.fks (by rw [h2f]; exact hf.fks)
  have hfn : (t2.fks.map (tagFk o)).map (·.name) = t2.fks.map (·.name) := by
    rw [List.map_map]
    apply List.map_congr_left
    intro f _
    simp only [Function.comp, tagFk]
    split
    · rfl
    · rename_i of_ hfind
      simpa using List.find?_some hfind
  have hi2' : Table.Inv { t2 with fks := t2.fks.map (tagFk o) } :=
    ⟨hi2.cols, hi2.idxs, by show NInv ((t2.fks.map (tagFk o)).map (·.name)) _; rw [hfn]; exact hi2.fks⟩
  obtain ⟨t3, h3⟩ := diffFk2_total o.fks _ hi2'
  refine ⟨t3, ?_⟩
  unfold diff
  simp only [hc1, h1, hidx, h2, hfk, h3, bind, Except.bind]

end Table
end Sqlize
