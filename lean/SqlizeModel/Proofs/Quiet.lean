/-
  Proofs/Quiet.lean — "unchanged elements print nothing": a table whose elements all carry no action (what `Diff`
  leaves on an unchanged table) contributes no statement to `MigrationUp` / `MigrationDown`, whatever the dialect,
  keyword case or field-order option, and whatever `Arrange` does to the column order.
-/
import SqlizeModel.Impl.Emit
import SqlizeModel.Impl.Diff

namespace Sqlize

def Table.Quiet (t : Table) : Prop :=
  t.action = .none ∧ (∀ c ∈ t.cols, c.action = .none) ∧ (∀ i ∈ t.idxs, i.action = .none) ∧
  (∀ f ∈ t.fks, f.action = .none ∨ f.action = .modify)    -- a foreign key found on both sides is tagged `modify`, which prints nothing

theorem walkCols_quiet (g : Globals) (tb : String) (up : Bool) (cols : List Column)
    (h : ∀ c ∈ cols, c.action = .none) : ∀ before, Table.walkCols g tb up before cols = ([], []) := by
  induction cols with
  | nil => intro _; rfl
  | cons c r ih =>
    intro before
    have hc : c.action = .none := h c (by simp)
    have hr : ∀ x ∈ r, x.action = .none := fun x hx => h x (by simp [hx])
    simp [Table.walkCols, ih hr, hc]

theorem walkIdx_quiet (g : Globals) (tb : String) (up : Bool) (dc : List String) (idxs : List Index)
    (h : ∀ i ∈ idxs, i.action = .none) : Table.walkIdx g tb up dc idxs = .ok [] := by
  induction idxs with
  | nil => rfl
  | cons i r ih =>
    have hi : i.action = .none := h i (by simp)
    have hr : ∀ x ∈ r, x.action = .none := fun x hx => h x (by simp [hx])
    simp [Table.walkIdx, ih hr, hi, bind, Except.bind, pure, Except.pure]

theorem walkFk_quiet (tb : String) (up : Bool) (dc : List String) (fks : List ForeignKey)
    (h : ∀ f ∈ fks, f.action = .none ∨ f.action = .modify) : Table.walkFk tb up dc fks = [] := by
  induction fks with
  | nil => rfl
  | cons f r ih =>
    have hf := h f (by simp)
    have hr : ∀ x ∈ r, x.action = .none ∨ x.action = .modify := fun x hx => h x (by simp [hx])
    have := ih hr
    rcases hf with hf | hf
    · simp [Table.walkFk, hf] at this ⊢
      exact this
    · cases up <;> simp [Table.walkFk, hf, ForeignKey.migrationUp, ForeignKey.migrationDown] at this ⊢ <;> exact this

/-- `Arrange` only permutes columns: it preserves "every column has no action" -/
theorem arrangeGo_actions (p : Column → Prop) : ∀ (orders : List (String × Nat)) (cols : List Column) (i : Nat) (cols' : List Column),
    (∀ c ∈ cols, p c) → Table.arrangeGo cols i orders = .ok cols' → ∀ c ∈ cols', p c := by
  intro orders
  induction orders with
  | nil =>
    intro cols i cols' h he
    simp [Table.arrangeGo, pure, Except.pure] at he
    subst he; exact h
  | cons o r ih =>
    intro cols i cols' h he
    obtain ⟨k, v⟩ := o
    unfold Table.arrangeGo at he
    split at he
    · exact ih cols (i + 1) cols' h he
    · rename_i j hj
      simp only [bind, Except.bind] at he
      cases hgi : getIdx "Arrange" cols i with
      | error e => rw [hgi] at he; simp at he
      | ok ci =>
        rw [hgi] at he
        cases hgj : getIdx "Arrange" cols j with
        | error e => rw [hgj] at he; simp at he
        | ok cj =>
          rw [hgj] at he
          simp only at he
          apply ih _ (i + 1) cols' _ he
          have hci : ci ∈ cols := by
            unfold getIdx at hgi
            split at hgi
            · rename_i x hx
              simp [pure, Except.pure] at hgi; subst hgi
              exact List.mem_of_getElem? hx
            · simp [panicIdx] at hgi
          have hcj : cj ∈ cols := by
            unfold getIdx at hgj
            split at hgj
            · rename_i x hx
              simp [pure, Except.pure] at hgj; subst hgj
              exact List.mem_of_getElem? hx
            · simp [panicIdx] at hgj
          intro c hc
          rcases List.mem_or_eq_of_mem_set hc with h1 | h1
          · rcases List.mem_or_eq_of_mem_set h1 with h2 | h2
            · exact h c h2
            · subst h2; exact h _ hcj
          · subst h1; exact h _ hci

theorem arrange_quiet (t t' : Table) (h : t.Quiet) (he : t.arrange = .ok t') : t'.Quiet := by
  unfold Table.arrange at he
  simp only [bind, Except.bind] at he
  cases hg : Table.arrangeGo t.cols 0 (Table.sortByVal t.colIdx) with
  | error e => rw [hg] at he; simp at he
  | ok cols =>
    rw [hg] at he
    simp [pure, Except.pure] at he
    subst he
    exact ⟨h.1, arrangeGo_actions (fun c => c.action = .none) _ _ _ _ h.2.1 hg, h.2.2.1, h.2.2.2⟩

/-- a quiet table prints nothing, in either direction -/
theorem quiet_prints_nothing (g : Globals) (up : Bool) (t : Table) (h : t.Quiet) :
    (if up then t.migrationColumnUp g else t.migrationColumnDown g) = .ok ([], []) ∧
    (∀ dc, (if up then t.migrationIndexUp g dc else t.migrationIndexDown g dc) = .ok []) ∧
    (∀ dc, (if up then t.migrationForeignKeyUp dc else t.migrationForeignKeyDown dc) = []) := by
  obtain ⟨ha, hc, hi, hf⟩ := h
  cases up
  · refine ⟨?_, ?_, ?_⟩
    · simp [Table.migrationColumnDown, ha, walkCols_quiet g t.name false t.cols hc, pure, Except.pure]
    · intro dc; simp [Table.migrationIndexDown, ha, walkIdx_quiet g t.name false dc t.idxs hi]
    · intro dc; simp [Table.migrationForeignKeyDown, ha, walkFk_quiet t.name false dc t.fks hf]
  · refine ⟨?_, ?_, ?_⟩
    · simp [Table.migrationColumnUp, ha, walkCols_quiet g t.name true t.cols hc, pure, Except.pure]
    · intro dc; simp [Table.migrationIndexUp, ha, walkIdx_quiet g t.name true dc t.idxs hi]
    · intro dc; simp [Table.migrationForeignKeyUp, ha, walkFk_quiet t.name true dc t.fks hf]

/-- if every table is quiet, `MigrationUp` / `MigrationDown` print nothing (when they return at all) -/
theorem migrate_quiet (g : Globals) (up : Bool) : ∀ (ts ts' : List Table) (out : List (List Stmt)),
    (∀ t ∈ ts, t.Quiet) → Migration.migrate g up ts = .ok (ts', out) → out = [] ∧ (∀ t ∈ ts', t.Quiet) := by
  intro ts
  induction ts with
  | nil =>
    intro ts' out _ he
    simp [Migration.migrate, pure, Except.pure] at he
    obtain ⟨rfl, rfl⟩ := he
    exact ⟨rfl, by simp⟩
  | cons t r ih =>
    intro ts' out h he
    have ht : t.Quiet := h t (by simp)
    have hr : ∀ x ∈ r, x.Quiet := fun x hx => h x (by simp [hx])
    unfold Migration.migrate at he
    split at he
    · simp only [bind, Except.bind] at he
      cases hm : Migration.migrate g up r with
      | error e => rw [hm] at he; simp at he
      | ok res =>
        obtain ⟨ts1, out1⟩ := res
        rw [hm] at he
        simp [pure, Except.pure] at he
        obtain ⟨rfl, rfl⟩ := he
        obtain ⟨h1, h2⟩ := ih ts1 out1 hr hm
        refine ⟨h1, ?_⟩
        intro x hx
        simp at hx
        rcases hx with rfl | hx
        · exact ht
        · exact h2 x hx
    · simp only [bind, Except.bind] at he
      cases ha : t.arrange with
      | error e => rw [ha] at he; simp at he
      | ok t1 =>
        rw [ha] at he
        have hq := arrange_quiet t t1 ht ha
        obtain ⟨q1, q2, q3⟩ := quiet_prints_nothing g up t1 hq
        cases up
        · simp only [Bool.false_eq_true, if_false] at q1 q2 q3 he
          rw [q1] at he
          simp only [q2, q3] at he
          cases hm : Migration.migrate g false r with
          | error e => rw [hm] at he; simp at he
          | ok res =>
            obtain ⟨ts1, out1⟩ := res
            rw [hm] at he
            simp [pure, Except.pure] at he
            obtain ⟨rfl, rfl⟩ := he
            obtain ⟨h1, h2⟩ := ih ts1 out1 hr hm
            refine ⟨h1, ?_⟩
            intro x hx
            simp at hx
            rcases hx with rfl | hx
            · exact hq
            · exact h2 x hx
        · simp only [if_true] at q1 q2 q3 he
          rw [q1] at he
          simp only [q2, q3] at he
          cases hm : Migration.migrate g true r with
          | error e => rw [hm] at he; simp at he
          | ok res =>
            obtain ⟨ts1, out1⟩ := res
            rw [hm] at he
            simp [pure, Except.pure] at he
            obtain ⟨rfl, rfl⟩ := he
            obtain ⟨h1, h2⟩ := ih ts1 out1 hr hm
            refine ⟨h1, ?_⟩
            intro x hx
            simp at hx
            rcases hx with rfl | hx
            · exact hq
            · exact h2 x hx

/-- option comparison is reflexive: a column compared with itself is never "changed" -/
theorem hasChangedOptions_refl (o : List Opt) : hasChangedOptions o o = false := by
  simp [hasChangedOptions]

end Sqlize
