/-
  Proofs/MigInv.lean — every edit primitive of `element.Migration` that returns preserves the migration invariant:
  the table slice agrees with `tableIndexes`, and every table satisfies `Table.Inv`.
-/
import SqlizeModel.Proofs.TableInv

namespace Sqlize
namespace Migration

abbrev tblNames (m : Migration) : List String := m.tables.map (·.name)

structure Inv (m : Migration) : Prop where
  tbls : NInv m.tblNames m.tblIdx
  each : ∀ t ∈ m.tables, t.Inv

theorem inv_empty : ({} : Migration).Inv := ⟨NInv.nil, by intro t ht; cases ht⟩

theorem using_inv (m : Migration) (tb : String) (h : m.Inv) : (m.using_ tb).Inv := by
  unfold using_
  split
  · exact ⟨h.tbls, h.each⟩
  · exact h

theorem mem_set {α : Type} {l : List α} {i : Nat} {x y : α} (h : y ∈ l.set i x) : y ∈ l ∨ y = x :=
  List.mem_or_eq_of_mem_set h

theorem addTable_inv (m m' : Migration) (tb : Table) (h : m.Inv) (htb : tb.Inv) (hs : m.addTable tb = .ok m') :
    m'.Inv := by
  unfold addTable at hs
  cases hg : m.tblIdx.get? tb.name with
  | none =>
    rw [hg] at hs
    have := pure_ok hs; subst this
    have hN := NInv.append h.tbls tb.name hg
    have hlen : m.tblNames.length = m.tables.length := by simp [tblNames]
    rw [hlen] at hN
    refine ⟨?_, ?_⟩
    · show NInv ((m.tables ++ [tb]).map (·.name)) _
      rw [List.map_append, List.map_singleton]
      exact hN
    · intro t ht
      have ht : t ∈ m.tables ++ [tb] := ht
      rcases List.mem_append.mp ht with h1 | h1
      · exact h.each t h1
      · rw [List.mem_singleton.mp h1]; exact htb
  | some id =>
    rw [hg] at hs
    simp only at hs
    obtain ⟨l, hl, hs⟩ := bind_ok hs
    obtain ⟨hlt, hl⟩ := setIdx_ok hl
    have := pure_ok hs; subst this
    subst hl
    have hnm : m.tblNames[id]? = some tb.name := (h.tbls.get tb.name id).mp hg
    obtain ⟨hlt', he⟩ := List.getElem?_eq_some_iff.mp hnm
    have hcur : m.tables[id]? = some (m.tables[id]'hlt) := List.getElem?_eq_getElem hlt
    have hsame : tb.name = (m.tables[id]'hlt).name := by
      simp only [tblNames, List.getElem_map] at he
      exact he.symm
    refine ⟨?_, ?_⟩
    · show NInv ((m.tables.set id tb).map (·.name)) _
      exact Table.ninv_set_same h.tbls hcur hsame
    · intro t ht
      rcases mem_set ht with h1 | h1
      · exact h.each t h1
      · rw [h1]; exact htb

theorem removeTable_inv (m m' : Migration) (name : String) (h : m.Inv) (hs : m.removeTable name = .ok m') :
    m'.Inv := by
  unfold removeTable at hs
  cases hg : m.tblIdx.get? name with
  | none =>
    rw [hg] at hs
    have := pure_ok hs; subst this
    have hN := NInv.append h.tbls name hg
    have hlen : m.tblNames.length = m.tables.length := by simp [tblNames]
    rw [hlen] at hN
    refine ⟨?_, ?_⟩
    · show NInv (List.map (fun x : Table => x.name) (m.tables ++ [_])) _
      rw [List.map_append, List.map_singleton]
      exact hN
    · intro t ht
      have ht : t ∈ m.tables ++ [Table.new name .remove] := ht
      rcases List.mem_append.mp ht with h1 | h1
      · exact h.each t h1
      · rw [List.mem_singleton.mp h1]; exact Table.inv_new _ _
  | some id =>
    rw [hg] at hs
    simp only at hs
    obtain ⟨t0, ht0, hs⟩ := bind_ok hs
    have ht0 := getIdx_ok ht0
    by_cases ha : (t0.action == .add) = true
    · rw [if_pos ha] at hs
      have := pure_ok hs; subst this
      refine ⟨?_, ?_⟩
      · show NInv ((m.tables.eraseIdx id).map (·.name)) _
        have := NInv.eraseShift h.tbls hg
        rw [Table.map_eraseIdx'] at this
        exact this
      · intro t ht
        exact h.each t ((List.eraseIdx_sublist _ _).subset ht)
    · rw [if_neg ha] at hs
      have := pure_ok hs; subst this
      refine ⟨?_, ?_⟩
      · show NInv ((m.tables.set id _).map (·.name)) _
        exact Table.ninv_set_same h.tbls ht0 rfl
      · intro t ht
        rcases mem_set ht with h1 | h1
        · exact h.each t h1
        · rw [h1]
          have hi := h.each t0 (List.mem_of_getElem? ht0)
          exact ⟨hi.cols, hi.idxs, hi.fks⟩

theorem renameTable_inv (m m' : Migration) (o n : String) (h : m.Inv) (hfresh : n ∉ m.tblNames)
    (hs : m.renameTable o n = .ok m') : m'.Inv := by
  unfold renameTable at hs
  cases hg : m.tblIdx.get? o with
  | none => rw [hg] at hs; have := pure_ok hs; subst this; exact h
  | some id =>
    rw [hg] at hs
    simp only at hs
    obtain ⟨l, hl, hs⟩ := bind_ok hs
    obtain ⟨x, hx, hl⟩ := modifyIdx_ok hl
    have := pure_ok hs; subst this
    subst hl
    refine ⟨?_, ?_⟩
    · show NInv ((m.tables.set id _).map (·.name)) _
      rw [List.map_set]
      exact NInv.rename h.tbls hg hfresh
    · intro t ht
      rcases mem_set ht with h1 | h1
      · exact h.each t h1
      · rw [h1]
        have hi := h.each x (List.mem_of_getElem? hx)
        exact ⟨hi.cols, hi.idxs, hi.fks⟩

theorem ensureTable_inv (m m' : Migration) (tb : String) (id : Nat) (h : m.Inv)
    (hs : m.ensureTable tb = .ok (m', id)) : m'.Inv := by
  unfold ensureTable at hs
  cases hg : m.tblIdx.get? tb with
  | some i =>
    rw [hg] at hs
    have := pure_ok hs
    rw [← (Prod.mk.inj this).1]; exact h
  | none =>
    rw [hg] at hs
    simp only at hs
    obtain ⟨m1, h1, hs⟩ := bind_ok hs
    have := pure_ok hs
    rw [← (Prod.mk.inj this).1]
    exact addTable_inv m m1 _ h (Table.inv_new _ _) h1

/-- applying a name- and invariant-preserving table edit at one position -/
theorem onTable_inv (m m' : Migration) (site : String) (id : Nat) (f : Table → M Table) (h : m.Inv)
    (hf : ∀ t t', t ∈ m.tables → t.Inv → f t = .ok t' → t'.Inv ∧ t'.name = t.name)
    (hs : m.onTable site id f = .ok m') : m'.Inv := by
  unfold onTable at hs
  obtain ⟨t, ht, hs⟩ := bind_ok hs
  have ht := getIdx_ok ht
  obtain ⟨t', ht', hs⟩ := bind_ok hs
  have := pure_ok hs; subst this
  have hmem := List.mem_of_getElem? ht
  obtain ⟨hi, hn⟩ := hf t t' hmem (h.each t hmem) ht'
  refine ⟨?_, ?_⟩
  · show NInv ((m.tables.set id t').map (·.name)) _
    exact Table.ninv_set_same h.tbls ht hn
  · intro x hx
    rcases mem_set hx with h1 | h1
    · exact h.each x h1
    · rw [h1]; exact hi

theorem addColumn_inv (m m' : Migration) (tb : String) (col : Column) (mysql : Bool) {pg : Bool} (h : m.Inv)
    (hs : m.addColumn tb col mysql pg = .ok m') : m'.Inv := by
  unfold addColumn at hs
  obtain ⟨⟨m1, id⟩, h1, hs⟩ := bind_ok hs
  exact onTable_inv m1 m' _ id _ (ensureTable_inv m m1 _ id h h1)
    (fun t t' _ hi hf => Table.addColumn_inv t t' col mysql hi hf) hs

theorem setColumnPosition_inv (m m' : Migration) (tb : String) (pos : Pos) (h : m.Inv)
    (hs : m.setColumnPosition tb pos = .ok m') : m'.Inv := by
  unfold setColumnPosition at hs
  cases hg : m.tblIdx.get? (m.resolve tb) with
  | none => rw [hg] at hs; have := pure_ok hs; subst this; exact h
  | some id =>
    rw [hg] at hs
    refine onTable_inv m m' _ id _ h ?_ hs
    intro t t' _ hi hf
    have := pure_ok hf; subst this
    exact ⟨⟨hi.cols, hi.idxs, hi.fks⟩, rfl⟩

theorem removeColumn_inv (m m' : Migration) (tb col : String) (h : m.Inv)
    (hs : m.removeColumn tb col = .ok m') : m'.Inv := by
  unfold removeColumn at hs
  obtain ⟨⟨m1, id⟩, h1, hs⟩ := bind_ok hs
  exact onTable_inv m1 m' _ id _ (ensureTable_inv m m1 _ id h h1)
    (fun t t' _ hi hf => Table.removeColumn_inv t t' col hi hf) hs

/-- the rename must target a name no column of any table it may act on holds (see `Table.renameColumn_inv`) -/
theorem renameColumn_inv (m m' : Migration) (tb o n : String) (h : m.Inv)
    (hfresh : ∀ t ∈ m.tables, t.name = m.resolve tb → n ∉ t.colNames)
    (hs : m.renameColumn tb o n = .ok m') : m'.Inv := by
  unfold renameColumn at hs
  cases hg : m.tblIdx.get? (m.resolve tb) with
  | none => rw [hg] at hs; have := pure_ok hs; subst this; exact h
  | some id =>
    rw [hg] at hs
    simp only at hs
    -- the table at `id` is the one named `resolve tb`
    have hnm := (h.tbls.get _ id).mp hg
    unfold onTable at hs
    obtain ⟨t, ht, hs⟩ := bind_ok hs
    have ht := getIdx_ok ht
    obtain ⟨t', ht', hs⟩ := bind_ok hs
    have := pure_ok hs; subst this
    have hmem := List.mem_of_getElem? ht
    have htn : t.name = m.resolve tb := by
      simp only [tblNames, List.getElem?_map, ht, Option.map_some] at hnm
      exact Option.some.inj hnm
    obtain ⟨hi, hn⟩ := Table.renameColumn_inv t t' o n (h.each t hmem) (hfresh t hmem htn) ht'
    refine ⟨?_, ?_⟩
    · show NInv ((m.tables.set id t').map (·.name)) _
      exact Table.ninv_set_same h.tbls ht hn
    · intro x hx
      rcases mem_set hx with h1 | h1
      · exact h.each x h1
      · rw [h1]; exact hi

theorem addComment_inv (m m' : Migration) (tb col comment : String) (h : m.Inv)
    (hs : m.addComment tb col comment = .ok m') : m'.Inv := by
  unfold addComment at hs
  cases hg : m.tblIdx.get? (m.resolve tb) with
  | none => rw [hg] at hs; have := pure_ok hs; subst this; exact h
  | some id =>
    rw [hg] at hs
    refine onTable_inv m m' _ id _ h ?_ hs
    intro t t' _ hi hf
    cases hc : t.colIdx.get? col with
    | none => rw [hc] at hf; have := pure_ok hf; subst this; exact ⟨hi, rfl⟩
    | some ci =>
      rw [hc] at hf
      simp only at hf
      obtain ⟨l, hl, hf⟩ := bind_ok hf
      obtain ⟨x, hx, hl⟩ := modifyIdx_ok hl
      have := pure_ok hf; subst this
      subst hl
      refine ⟨⟨?_, hi.idxs, hi.fks⟩, rfl⟩
      show NInv ((t.cols.set ci _).map (·.name)) _
      exact Table.ninv_set_same hi.cols hx rfl

theorem addIndex_inv (m m' : Migration) (tb : String) (idx : Index) (h : m.Inv)
    (hs : m.addIndex tb idx = .ok m') : m'.Inv := by
  unfold addIndex at hs
  obtain ⟨⟨m1, id⟩, h1, hs⟩ := bind_ok hs
  exact onTable_inv m1 m' _ id _ (ensureTable_inv m m1 _ id h h1)
    (fun t t' _ hi hf => Table.addIndex_inv t t' idx hi hf) hs

theorem removeIndex_inv (m m' : Migration) (tb name : String) (h : m.Inv)
    (hs : m.removeIndex tb name = .ok m') : m'.Inv := by
  unfold removeIndex at hs
  obtain ⟨⟨m1, id⟩, h1, hs⟩ := bind_ok hs
  exact onTable_inv m1 m' _ id _ (ensureTable_inv m m1 _ id h h1)
    (fun t t' _ hi hf => Table.removeIndex_inv t t' name hi hf) hs

theorem renameIndex_inv (m m' : Migration) (tb o n : String) (h : m.Inv)
    (hfresh : ∀ t ∈ m.tables, t.name = m.resolve tb → n ∉ t.idxNames)
    (hs : m.renameIndex tb o n = .ok m') : m'.Inv := by
  unfold renameIndex at hs
  cases hg : m.tblIdx.get? (m.resolve tb) with
  | none => rw [hg] at hs; have := pure_ok hs; subst this; exact h
  | some id =>
    rw [hg] at hs
    simp only at hs
    have hnm := (h.tbls.get _ id).mp hg
    unfold onTable at hs
    obtain ⟨t, ht, hs⟩ := bind_ok hs
    have ht := getIdx_ok ht
    obtain ⟨t', ht', hs⟩ := bind_ok hs
    have := pure_ok hs; subst this
    have hmem := List.mem_of_getElem? ht
    have htn : t.name = m.resolve tb := by
      simp only [tblNames, List.getElem?_map, ht, Option.map_some] at hnm
      exact Option.some.inj hnm
    obtain ⟨hi, hn⟩ := Table.renameIndex_inv t t' o n (h.each t hmem) (hfresh t hmem htn) ht'
    refine ⟨?_, ?_⟩
    · show NInv ((m.tables.set id t').map (·.name)) _
      exact Table.ninv_set_same h.tbls ht hn
    · intro x hx
      rcases mem_set hx with h1 | h1
      · exact h.each x h1
      · rw [h1]; exact hi

theorem addForeignKey_inv (m m' : Migration) (tb : String) (fk : ForeignKey) (h : m.Inv)
    (hs : m.addForeignKey tb fk = .ok m') : m'.Inv := by
  unfold addForeignKey at hs
  simp only at hs
  obtain ⟨⟨m1, id⟩, h1, hs⟩ := bind_ok hs
  exact onTable_inv m1 m' _ id _ (ensureTable_inv m m1 _ id h h1)
    (fun t t' _ hi hf => Table.addForeignKey_inv t t' _ hi hf) hs

theorem removeForeignKey_inv (m m' : Migration) (tb name : String) (h : m.Inv)
    (hs : m.removeForeignKey tb name = .ok m') : m'.Inv := by
  unfold removeForeignKey at hs
  obtain ⟨⟨m1, id⟩, h1, hs⟩ := bind_ok hs
  exact onTable_inv m1 m' _ id _ (ensureTable_inv m m1 _ id h h1)
    (fun t t' _ hi hf => Table.removeForeignKey_inv t t' name hi hf) hs

end Migration
end Sqlize
