/-
  Proofs/SpecSchemaDown.lean — C02 for a whole schema on the reference engine (the mirror of Proofs/SpecSchema.lean).
-/
import SqlizeModel.Proofs.SpecSchema
import SqlizeModel.Proofs.SpecJustifiedDown
import SqlizeModel.Proofs.SpecTableFkDown

namespace Sqlize
open Spec

namespace Migration

/-- what `MigrationDown` prints for one table -/
def TableOutDown (g : Globals) (t : Table) (ss : List Stmt) : Prop :=
  ∃ cs dc is, t.migrationColumnDown g = .ok (cs, dc) ∧ t.migrationIndexDown g dc = .ok is ∧
    ss = cs ++ is ++ t.migrationForeignKeyDown dc

theorem migrate_groups_down (g : Globals) : ∀ (steps : List (Table × List Stmt)),
    (∀ p ∈ steps, p.1.name ≠ defaultMigrationTable ∧ p.1.arrange = .ok p.1 ∧ TableOutDown g p.1 p.2) →
    ∃ out, migrate g false (steps.map (·.1)) = .ok (steps.map (·.1), out) ∧ out.flatten = steps.flatMap (·.2) := by
  intro steps
  induction steps with
  | nil => intro _; exact ⟨[], rfl, rfl⟩
  | cons p rest ih =>
    intro hall
    obtain ⟨hne, harr, cs, dc, is, hcs, his, hss⟩ := hall p (by simp)
    obtain ⟨out, ho, hfl⟩ := ih (fun x hx => hall x (List.mem_cons_of_mem _ hx))
    have hn : (p.1.name == defaultMigrationTable) = false := by simpa using hne
    rw [List.map_cons]
    unfold migrate
    simp only [hn, Bool.false_eq_true, if_false, harr, hcs, his, ho, bind, Except.bind, pure, Except.pure]
    by_cases hem : (cs ++ is ++ p.1.migrationForeignKeyDown dc).isEmpty = true
    · refine ⟨out, by rw [if_pos hem], ?_⟩
      rw [hfl, List.flatMap_cons, hss, List.isEmpty_iff.mp hem, List.nil_append]
    · refine ⟨(cs ++ is ++ p.1.migrationForeignKeyDown dc) :: out, by rw [if_neg hem], ?_⟩
      rw [List.flatten_cons, hfl, List.flatMap_cons, hss]

end Migration

/-- with no key on either side the down key walk prints nothing, whatever the dropped columns -/
theorem walkFk_empty_down (tb : String) (dc : List String) (fks : List ForeignKey)
    (h : (Table.walkFk tb false [] fks).filterMap fkStmt = []) : Table.walkFk tb false dc fks = [] := by
  unfold Table.walkFk at h ⊢
  apply List.flatMap_eq_nil_iff.mpr
  intro f hf
  by_cases hcond : (f.action != .none && (f.action != (if false = true then Action.remove else Action.add) || !dc.contains f.column)) = true
  · have hcond0 : (f.action != .none && (f.action != (if false = true then Action.remove else Action.add) || !([] : List String).contains f.column)) = true := by
      simp only [Bool.and_eq_true] at hcond ⊢
      exact ⟨hcond.1, by simp⟩
    have hall : ∀ s ∈ f.migrationDown tb, (fkStmt s).isSome = true := by
      intro s hs
      unfold ForeignKey.migrationDown ForeignKey.migrationUp at hs
      cases ha : f.action <;> rw [ha] at hs <;> simp at hs
      all_goals (rw [hs]; rfl)
    have hsub : (f.migrationDown tb).filterMap fkStmt = [] := by
      have := List.filterMap_eq_nil_iff.mp h
      apply List.filterMap_eq_nil_iff.mpr
      intro s hs
      apply this
      apply List.mem_flatMap.mpr
      refine ⟨f, hf, ?_⟩
      rw [if_pos hcond0]
      simpa using hs
    rw [if_pos hcond]
    simp only [Bool.false_eq_true, if_false]
    cases hm : f.migrationDown tb with
    | nil => rfl
    | cons s r =>
      have h1 := hall s (by rw [hm]; simp)
      rw [hm] at hsub
      have := List.filterMap_eq_nil_iff.mp hsub s (by simp)
      rw [this] at h1; cases h1
  · rw [if_neg hcond]

/-- **C02 for a whole schema, on the reference engine** (MySQL reader model, default field order; scripts without inline PRIMARY KEY; no foreign key found on both sides differs (the recorded region
    `foreign-key-redefined`); tables on both sides keep the relative order of their
    common columns and their primary key, and none of them is in the recorded region
    `index-redefined-old-columns-dropped` read in the down direction; no table is called like the bookkeeping table).
    `Diff` and `MigrationDown` return, and the printed down migration — DROP TABLE for the tables only the new side
    has, the column and index statements of the tables both sides have, CREATE TABLE with its indexes for the tables
    only the old side has —, executed statement by statement by `Spec.execAll` on the *new* schema (referential checks
    aside), is well-formed at every step and ends in a schema `DB.equiv` to the *old* one; every statement acts on an
    element that differs between the two schemas. -/
theorem schema_spec_down (g : Globals) (hg : g.dialect = .mysql) (hio : g.ignoreOrder = false) (rc : Bool)
    (old new : List Stmt) (dbO dbN : DB) (ho : old.all Stmt.elemSafe = true) (hn : new.all Stmt.elemSafe = true)
    (hpo : old.all Stmt.plainOpts = true) (hpn : new.all Stmt.plainOpts = true)
    (heo : execAll rc [] old = some dbO) (hen : execAll rc [] new = some dbN)
    (hdef : ∀ tb ∈ dbO ++ dbN, tb.name ≠ Migration.defaultMigrationTable)
    (hboth : ∀ tbO ∈ dbO, ∀ tbN ∈ dbN, tbO.name = tbN.name →
      Abs.OrderCompatible tbN.colNames tbO.colNames ∧ (∀ n ∈ tbN.colNames ++ tbO.colNames, n ≠ "") ∧ tbO.pk = tbN.pk ∧
      (∀ dc : List String, (∀ c ∈ dc, c ∉ tbO.colNames) →
        ∀ s ∈ tbN.idxs, ∀ o ∈ tbO.idxs, o.name = s.name → o ≠ s → ∃ c ∈ s.cols, c ∉ dc) ∧
      (∀ s ∈ tbN.fks, ∀ o ∈ tbO.fks, s.name = o.name → s = o)) :
    ∃ d out, loadAndDiff g old new = .ok d ∧ d.migrationDown g = .ok (d, out) ∧
      (∃ db', execAll false dbN out.flatten = some db' ∧ db'.equiv dbO = true) ∧
      ∀ s ∈ out.flatten, justified dbN dbO s = true := by
  have hoc : old.all Stmt.colSafe = true :=
    List.all_eq_true.mpr (fun s hs => Stmt.colSafe_of_elemSafe s (List.all_eq_true.mp ho s hs))
  have hnc : new.all Stmt.colSafe = true :=
    List.all_eq_true.mpr (fun s hs => Stmt.colSafe_of_elemSafe s (List.all_eq_true.mp hn s hs))
  obtain ⟨d, _, outU, hd, _, hU⟩ := diff_print_total g hg rc old new dbO dbN ho hn heo hen
  obtain ⟨mo, hmo', hro, heo'⟩ := ReaderMysql.run_elems rc old {} [] dbO Rel.empty ElemsOK.empty ho heo
  obtain ⟨mn, hmn', hrn, hen'⟩ := ReaderMysql.run_elems rc new {} [] dbN Rel.empty ElemsOK.empty hn hen
  have e1 : readScript g {} old = .ok mo := by unfold readScript; rw [hg]; exact hmo'
  have e2 : readScript g {} new = .ok mn := by unfold readScript; rw [hg]; exact hmn'
  have hd' : mn.diff g.dialect mo = .ok d := by
    have hd0 := hd
    unfold loadAndDiff at hd0
    simp only [e1, e2, bind, Except.bind] at hd0
    exact hd0
  have hd'' := hd'
  unfold Migration.diff at hd''
  obtain ⟨ts, h1, h2⟩ := bind_ok hd''
  obtain ⟨hnames, hinvs⟩ := Migration.diffTables1_inv g.dialect mo hro.inv mn.tables ts
    (fun t ht => ⟨hrn.inv.each t ht, hrn.np t ht⟩) h1
  have hm1 : Migration.Inv { mn with tables := ts } :=
    ⟨by show NInv (ts.map (·.name)) _; rw [hnames]; exact hrn.inv.tbls, hinvs⟩
  have happ := Migration.diffTables2_appends mo.tables { mn with tables := ts } d hm1 hro.inv.each hro.inv.tbls.nodup
    (fun ot hot => (hro.fresh ot hot).2) h2
  have hts : Migration.tblNames { mn with tables := ts } = mn.tblNames := hnames
  rw [hts] at happ
  have hNn : dbN.map (·.name) = mn.tblNames := hrn.names
  have hOn : dbO.map (·.name) = mo.tblNames := hro.names
  have hdinv := Migration.diff_inv g.dialect mn mo d hrn.inv hro.inv hrn.np hd'
  have huniq : ∀ a ∈ d.tables, ∀ b ∈ d.tables, a.name = b.name → a = b := fun a ha b hb e =>
    eq_of_name_nodup (fun x : Table => x.name) hdinv.tbls.nodup ha hb e
  -- every record of the diffed migration has a group with the right effect on the reference engine
  have hgroup : ∀ td ∈ d.tables, ∃ ss, Migration.TableOutDown g td ss ∧ (∀ s ∈ ss, justified dbN dbO s = true) ∧
      ∀ db0 : DB, (db0.map (·.name)).Nodup → db0.find td.name = dbN.find td.name →
        ∃ db1, execAll false db0 ss = some db1 ∧ GroupGoal dbO td.name (db1.find td.name) ∧
          (∀ u, u ≠ td.name → db1.find u = db0.find u) ∧ (db1.map (·.name)).Nodup := by
    intro td htd
    cases hfO : dbO.find td.name with
    | some tbO =>
      have hnO : tbO.name = td.name := find_name dbO _ _ hfO
      cases hfN : dbN.find td.name with
      | some tbN =>
        -- a table both sides have
        have hnN : tbN.name = td.name := find_name dbN _ _ hfN
        obtain ⟨hcmp, hne, hpk, hred, hnr⟩ := hboth tbO (mem_of_find hfO) tbN (mem_of_find hfN) (hnO.trans hnN.symm)
        obtain ⟨td', htd', hn', cs, dc, is, hcs, his, hrun⟩ := table_spec_down_fk_any g hg hio rc old new dbO dbN ho hn hpo hpn heo hen d hd
          td.name tbO tbN hfO hfN hcmp hne hpk hred hnr
        have := huniq td' htd' td htd hn'
        subst this
        have hjust : ∀ s ∈ cs ++ is ++ td'.migrationForeignKeyDown dc, justified dbN dbO s = true := by
          obtain ⟨td4, h41, h42, cs4, dc4, is4, hcs4, his4, hj4⟩ := table_stmts_justified_down g hg hio rc old new dbO dbN ho hn hpo hpn heo hen d hd
            td'.name tbO tbN hfO hfN hne hpk
          have := huniq td4 h41 td' htd h42
          subst this
          rw [hcs] at hcs4
          have e1 := (Prod.mk.inj (Except.ok.inj hcs4)).1
          have e2 := (Prod.mk.inj (Except.ok.inj hcs4)).2
          subst e1 e2
          rw [his] at his4
          have e3 := Except.ok.inj his4
          subst e3
          obtain ⟨td5, h51, h52, hj5⟩ := fk_stmts_justified_down g hg rc old new dbO dbN ho hn heo hen d hd td4.name tbO tbN hfO hfN
          have := huniq td5 h51 td4 htd h52
          subst this
          intro s hs
          rcases List.mem_append.mp hs with h | h
          · exact hj4 s h
          · exact hj5 dc s h
        refine ⟨cs ++ is ++ td'.migrationForeignKeyDown dc, ⟨cs, dc, is, hcs, his, rfl⟩, hjust, ?_⟩
        intro db0 hnd0 hf0
        obtain ⟨db1, tb1, he1, hf1, hc1, hi1, hp1, hn1, hk1, hfr1, hnm1⟩ := hrun db0 hnd0 hf0
        refine ⟨db1, he1, ?_, hfr1, by rw [hnm1]; exact hnd0⟩
        unfold GroupGoal
        rw [hfO]
        refine ⟨tb1, hf1, ?_⟩
        unfold TableSpec.equiv
        rw [hn1, hnO, hc1, hp1, perm_permEq _ _ hi1, perm_permEq _ _ hk1]
        simp
      | none =>
        -- a table only the old side has: the down migration creates it again
        have hnotN : td.name ∉ mn.tblNames := by rw [← hNn]; exact (find_none_iff dbN td.name).mp hfN
        obtain ⟨ot, hot, hrem⟩ : ∃ ot ∈ mo.tables, td = { ot with action := .remove } := by
          rw [happ] at htd
          rcases List.mem_append.mp htd with h | h
          · have hm : td.name ∈ ts.map (·.name) := List.mem_map_of_mem h
            rw [hnames] at hm
            exact absurd hm hnotN
          · obtain ⟨ot, hot, rfl⟩ := List.mem_map.mp h
            exact ⟨ot, (List.mem_filter.mp hot).1, rfl⟩
        have hnotN' : dbN.has td.name = false := by
          cases h : dbN.has td.name with
          | false => rfl
          | true => exact absurd ((has_iff dbN td.name).mp h) ((find_none_iff dbN td.name).mp hfN)
        obtain ⟨i, td0, hi0, hn0, hact0, cs, is, fs, hcs, his, hfs, hjc, _, hrun⟩ :=
          loaded_table_spec g hg rc old dbO ho hpo heo mo hmo' td.name tbO hfO
        have htd0 : td0 = ot := by
          refine eq_of_name_nodup (fun x : Table => x.name) hro.inv.tbls.nodup (List.mem_of_getElem? hi0) hot ?_
          rw [hn0, hrem]
        subst htd0
        have hback : ({ td with action := .add } : Table) = td0 := by
          rw [hrem]
          cases td0
          simp only at hact0
          subst hact0
          rfl
        refine ⟨cs ++ is ++ td.migrationForeignKeyDown [], ⟨cs, [], is, ?_, ?_, rfl⟩, ?_, ?_⟩
        · unfold Table.migrationColumnDown
          have : td.action = .remove := by rw [hrem]
          rw [this]
          simp only
          rw [hback]; exact hcs
        · unfold Table.migrationIndexDown
          have : td.action = .remove := by rw [hrem]
          rw [this]
          simp only
          rw [hback]; exact his []
        · have hfd : td.migrationForeignKeyDown [] = fs := by
            unfold Table.migrationForeignKeyDown
            have : td.action = .remove := by rw [hrem]
            rw [this]
            simp only
            rw [hback]; exact hfs []
          rw [hfd]; exact hjc dbN hnotN'
        · have hfd : td.migrationForeignKeyDown [] = fs := by
            unfold Table.migrationForeignKeyDown
            have : td.action = .remove := by rw [hrem]
            rw [this]
            simp only
            rw [hback]; exact hfs []
          intro db0 hnd0 hf0
          have hnot : db0.has td.name = false := by
            cases h : db0.has td.name with
            | false => rfl
            | true =>
              have := (has_iff db0 td.name).mp h
              exact absurd this ((find_none_iff db0 td.name).mp hf0)
          obtain ⟨db1, tb1, he1, hf1, heq1, hfr1, hnm1⟩ := hrun db0 hnd0 hnot
          refine ⟨db1, by rw [hfd]; exact he1, ?_, hfr1, ?_⟩
          · unfold GroupGoal
            rw [hfO]
            exact ⟨tb1, hf1, heq1⟩
          · rw [hnm1]
            apply List.nodup_append.mpr
            refine ⟨hnd0, List.nodup_cons.mpr ⟨by simp, List.nodup_nil⟩, ?_⟩
            intro a ha b hb hab
            have hb : b = td.name := by simpa using hb
            exact (find_none_iff db0 td.name).mp hf0 (by rw [← hb, ← hab]; exact ha)
    | none =>
      -- a table only the new side has: DROP TABLE on the way down
      have hnotO : td.name ∉ mo.tblNames := by rw [← hOn]; exact (find_none_iff dbO td.name).mp hfO
      have hinTs : td ∈ ts := by
        rw [happ] at htd
        rcases List.mem_append.mp htd with h | h
        · exact h
        · obtain ⟨ot, hot, rfl⟩ := List.mem_map.mp h
          exact absurd (List.mem_map_of_mem (f := fun x : Table => x.name) (List.mem_filter.mp hot).1) hnotO
      have hinN : td.name ∈ dbN.map (·.name) := by
        have hm : td.name ∈ ts.map (·.name) := List.mem_map_of_mem hinTs
        rw [hnames] at hm
        rw [hNn]; exact hm
      have hadd : td.action = .add := by
        cases hfN : dbN.find td.name with
        | none => exact absurd hinN ((find_none_iff dbN td.name).mp hfN)
        | some tbN =>
          have hnew : dbO.has td.name = false := by
            cases h : dbO.has td.name with
            | false => rfl
            | true => exact absurd ((has_iff dbO td.name).mp h) ((find_none_iff dbO td.name).mp hfO)
          obtain ⟨td', htd', hn', ha', _⟩ := created_table_spec g hg rc old new dbO dbN ho hn hpo hpn heo hen d hd
            td.name tbN hfN hnew
          rw [← huniq td' htd' td htd hn']; exact ha'
      refine ⟨[.dropTable td.name], ⟨[.dropTable td.name], [], [], ?_, ?_, ?_⟩, ?_, ?_⟩
      · unfold Table.migrationColumnDown Table.migrationColumnUp; rw [hadd]; rfl
      · unfold Table.migrationIndexDown Table.migrationIndexUp; rw [hadd]; rfl
      · unfold Table.migrationForeignKeyDown Table.migrationForeignKeyUp; rw [hadd]; rfl
      · intro s hs
        rw [List.mem_singleton.mp hs]
        show (dbN.has td.name && !dbO.has td.name) = true
        have h1 : dbN.has td.name = true := (has_iff dbN td.name).mpr hinN
        have h2 : dbO.has td.name = false := by
          cases h : dbO.has td.name with
          | false => rfl
          | true => exact absurd ((has_iff dbO td.name).mp h) ((find_none_iff dbO td.name).mp hfO)
        rw [h1, h2]; rfl
      · intro db0 hnd0 hf0
        have hhas : db0.has td.name = true := by
          cases hfn : dbN.find td.name with
          | none => exact absurd hinN ((find_none_iff dbN td.name).mp hfn)
          | some tbN =>
            rw [hfn] at hf0
            exact (has_iff db0 td.name).mpr (by rw [← find_name db0 _ _ hf0]; exact List.mem_map_of_mem (mem_of_find hf0))
        refine ⟨db0.filter (·.name != td.name), ?_, ?_, fun u hu => find_filter_ne db0 td.name u hu, ?_⟩
        · simp [execAll, exec, hhas]
        · unfold GroupGoal; rw [hfO]; exact find_filter_self db0 td.name
        · exact hnd0.sublist ((List.filter_sublist).map _)
  -- names covered by the records
  have hcovN : ∀ u ∈ dbN.map (·.name), ∃ td ∈ d.tables, td.name = u := by
    intro u hu
    rw [hNn] at hu
    have hu : u ∈ ts.map (·.name) := by rw [hnames]; exact hu
    obtain ⟨td, htd, he⟩ := List.mem_map.mp hu
    exact ⟨td, by rw [happ]; exact List.mem_append_left _ htd, he⟩
  have hcovO : ∀ u ∈ dbO.map (·.name), ∃ td ∈ d.tables, td.name = u := by
    intro u hu
    by_cases hin : u ∈ dbN.map (·.name)
    · exact hcovN u hin
    · rw [hOn] at hu
      obtain ⟨ot, hot, he⟩ := List.mem_map.mp hu
      refine ⟨{ ot with action := .remove }, ?_, he⟩
      rw [happ]
      apply List.mem_append_right
      refine List.mem_map.mpr ⟨ot, List.mem_filter.mpr ⟨hot, ?_⟩, rfl⟩
      have : ot.name ∉ mn.tblNames := by rw [← hNn, he]; exact hin
      simpa using this
  have hnamesD : ∀ td ∈ d.tables, td.name ∈ dbN.map (·.name) ∨ td.name ∈ dbO.map (·.name) := by
    intro td htd
    rw [happ] at htd
    rcases List.mem_append.mp htd with h | h
    · left
      have hm : td.name ∈ ts.map (·.name) := List.mem_map_of_mem h
      rw [hnames] at hm
      rw [hNn]; exact hm
    · right
      obtain ⟨ot, hot, rfl⟩ := List.mem_map.mp h
      rw [hOn]
      show ot.name ∈ mo.tblNames
      exact List.mem_map_of_mem (f := fun x : Table => x.name) (List.mem_filter.mp hot).1
  -- the groups, in the order of the records
  obtain ⟨steps, hsteps, hP⟩ := list_choice (fun (td : Table) (ss : List Stmt) => Migration.TableOutDown g td ss ∧
      (∀ s ∈ ss, justified dbN dbO s = true) ∧
      ∀ db0 : DB, (db0.map (·.name)).Nodup → db0.find td.name = dbN.find td.name →
        ∃ db1, execAll false db0 ss = some db1 ∧ GroupGoal dbO td.name (db1.find td.name) ∧
          (∀ u, u ≠ td.name → db1.find u = db0.find u) ∧ (db1.map (·.name)).Nodup) d.tables hgroup
  have hmemS : ∀ p ∈ steps, p.1 ∈ d.tables := by
    intro p hp
    rw [← hsteps]; exact List.mem_map_of_mem hp
  obtain ⟨out2, hmig, hflat⟩ := Migration.migrate_groups_down g steps (by
    intro p hp
    have hpd := hmemS p hp
    refine ⟨?_, arrange_id p.1 (hdinv.each p.1 hpd).colInv, (hP p hp).1⟩
    rcases hnamesD p.1 hpd with h | h
    · obtain ⟨tb, htb, he⟩ := List.mem_map.mp h
      rw [← he]; exact hdef tb (List.mem_append_right _ htb)
    · obtain ⟨tb, htb, he⟩ := List.mem_map.mp h
      rw [← he]; exact hdef tb (List.mem_append_left _ htb))
  rw [hsteps] at hmig
  have hout : outU = out2 := by
    have hU' := hU
    unfold Migration.migrationDown at hU'
    simp only [hmig, bind, Except.bind, pure, Except.pure] at hU'
    exact ((Prod.mk.inj (Except.ok.inj hU')).2).symm
  -- run them on the old schema
  obtain ⟨db', hrun, hfin, hframe, hndD⟩ := execAll_groups (steps.map (fun p => (p.1.name, p.2))) dbN (GroupGoal dbO)
    (by
      rw [List.map_map]
      have : steps.map ((fun p : String × List Stmt => p.1) ∘ (fun p : Table × List Stmt => (p.1.name, p.2))) = (steps.map (·.1)).map (·.name) := by
        rw [List.map_map]; rfl
      rw [this, hsteps]; exact hdinv.tbls.nodup)
    hrn.nodup
    (by
      intro q hq db0 hnd0 hf0
      obtain ⟨p, hp, rfl⟩ := List.mem_map.mp hq
      exact (hP p hp).2.2 db0 hnd0 hf0)
  have hflat2 : (steps.map (fun p => (p.1.name, p.2))).flatMap (·.2) = steps.flatMap (·.2) := by
    rw [List.flatMap_map]
  rw [hflat2, ← hflat, ← hout] at hrun
  refine ⟨d, outU, hd, hU, ⟨db', hrun, ?_⟩, ?_⟩
  rotate_left
  · -- every printed statement is justified by a difference
    intro s hs
    rw [hout, hflat] at hs
    obtain ⟨p, hp, hsp⟩ := List.mem_flatMap.mp hs
    exact (hP p hp).2.1 s hsp
  -- the result is equivalent to the old schema
  have hfinD : ∀ td ∈ d.tables, GroupGoal dbO td.name (db'.find td.name) := by
    intro td htd
    rw [← hsteps] at htd
    obtain ⟨p, hp, rfl⟩ := List.mem_map.mp htd
    exact hfin (p.1.name, p.2) (List.mem_map_of_mem (f := fun p : Table × List Stmt => (p.1.name, p.2)) hp)
  have hframeD : ∀ u, (∀ td ∈ d.tables, td.name ≠ u) → db'.find u = dbN.find u := by
    intro u hu
    apply hframe
    intro hm
    obtain ⟨q, hq, hqu⟩ := List.mem_map.mp hm
    obtain ⟨p, hp, rfl⟩ := List.mem_map.mp hq
    exact hu p.1 (hmemS p hp) hqu
  have hndO : (dbO.map (·.name)).Nodup := hro.nodup
  -- every table of the result is a table of the old schema, up to equivalence
  have hall : ∀ tb' ∈ db', ∃ u, dbO.find tb'.name = some u ∧ tb'.equiv u = true := by
    intro tb' htb'
    have hf' := find_some_of_mem db' hndD tb' htb'
    by_cases hcov : ∃ td ∈ d.tables, td.name = tb'.name
    · obtain ⟨td, htd, hn'⟩ := hcov
      have hg' := hfinD td htd
      rw [hn'] at hg'
      unfold GroupGoal at hg'
      cases hfO : dbO.find tb'.name with
      | some tbO =>
        rw [hfO] at hg'
        obtain ⟨tb'', h1, h2⟩ := hg'
        rw [hf'] at h1
        have := Option.some.inj h1
        exact ⟨tbO, rfl, by rw [this]; exact h2⟩
      | none =>
        rw [hfO] at hg'
        rw [hf'] at hg'; cases hg'
    · have hno : ∀ td ∈ d.tables, td.name ≠ tb'.name := fun td htd e => hcov ⟨td, htd, e⟩
      have := hframeD tb'.name hno
      rw [hf'] at this
      have hinN : tb'.name ∈ dbN.map (·.name) := by
        cases hfn : dbN.find tb'.name with
        | none => rw [hfn] at this; cases this
        | some x => rw [← find_name dbN _ _ hfn]; exact List.mem_map_of_mem (mem_of_find hfn)
      obtain ⟨td, htd, he⟩ := hcovN _ hinN
      exact absurd he (hno td htd)
  -- same names on both sides
  have hmemNames : ∀ u, u ∈ db'.map (·.name) ↔ u ∈ dbO.map (·.name) := by
    intro u
    constructor
    · intro hu
      obtain ⟨tb', htb', rfl⟩ := List.mem_map.mp hu
      obtain ⟨x, hx, _⟩ := hall tb' htb'
      rw [← find_name dbO _ _ hx]; exact List.mem_map_of_mem (mem_of_find hx)
    · intro hu
      obtain ⟨td, htd, he⟩ := hcovO u hu
      have hg' := hfinD td htd
      rw [he] at hg'
      unfold GroupGoal at hg'
      cases hfO : dbO.find u with
      | none => exact absurd hu ((find_none_iff dbO u).mp hfO)
      | some tbO =>
        rw [hfO] at hg'
        obtain ⟨tb'', h1, _⟩ := hg'
        rw [← find_name db' _ _ h1]; exact List.mem_map_of_mem (mem_of_find h1)
  have hlen : db'.length = dbO.length := by
    have hp : (db'.map (·.name)).Perm (dbO.map (·.name)) := (List.perm_ext_iff_of_nodup hndD hndO).mpr hmemNames
    simpa using hp.length_eq
  unfold DB.equiv DB.equivBy
  rw [Bool.and_eq_true]
  refine ⟨by simp [hlen], ?_⟩
  rw [List.all_eq_true]
  intro tb' htb'
  obtain ⟨u, hu, he⟩ := hall tb' htb'
  rw [hu]; exact he

end Sqlize
