import SqlizeModel.Proofs.SpecColsDb

namespace Sqlize
open Spec

namespace Table

/-- second column loop, with the record: every column of the result is a column the first loop left, or the record of
    an old-only column marked `remove` -/
theorem diffCols2_mem_full (mysql : Bool) (ocs : List Column) : ∀ (t t' : Table) (before : List Column), t.Inv →
    t.pendingPos = none → diffCols2 mysql t before ocs = .ok t' →
    ∀ c ∈ t'.cols, c ∈ t.cols ∨ (∃ oc ∈ ocs, c = { oc with action := .remove } ∧ oc.name ∉ t.colNames) := by
  induction ocs with
  | nil =>
    intro t t' before _ _ hs; unfold diffCols2 at hs; have := pure_ok hs; subst this
    intro c hc; exact Or.inl hc
  | cons oc rest ih =>
    intro t t' before h hp hs
    unfold diffCols2 at hs
    obtain ⟨t1, h1, hs⟩ := bind_ok hs
    by_cases hcond : (oc.action == .add && (t.colIdx.get? oc.name).isNone) = true
    · rw [if_pos hcond] at h1
      simp only [Bool.and_eq_true, Option.isNone_iff_eq_none] at hcond
      have hfresh := addColumn_fresh t { oc with action := .remove } mysql hcond.2 hp
      rw [hfresh] at h1
      obtain ⟨ta, hta, h1⟩ := bind_ok h1
      have := Except.ok.inj hta; subst this
      have hia := (addColumn_inv t _ _ mysql h hfresh).1
      have hlast : (Table.colNames { t with cols := t.cols ++ [{ oc with action := .remove }],
                                            colIdx := t.colIdx.set oc.name t.cols.length })[
          (t.cols ++ [{ oc with action := Action.remove }]).length - 1]? = some oc.name := by
        show (List.map (fun x : Column => x.name) (t.cols ++ [{ oc with action := Action.remove }]))[_]? = _
        simp
      obtain ⟨hi1, _⟩ := swapOrder_inv _ t1 oc.name _ _ hia hlast h1
      have hp1 : t1.pendingPos = none := by rw [swapOrder_pending _ t1 _ _ _ h1]; exact hp
      have hnot : oc.name ∉ t.colNames := (h.cols.get?_none_iff oc.name).mp hcond.2
      intro c hc
      rcases ih t1 t' _ hi1 hp1 hs c hc with h2 | ⟨o2, ho2, he, hnin⟩
      · have h3 := (swapOrder_mem _ t1 _ _ _ h1 c).mp h2
        have h3 : c ∈ t.cols ++ [{ oc with action := Action.remove }] := h3
        rcases List.mem_append.mp h3 with h4 | h4
        · exact Or.inl h4
        · right
          exact ⟨oc, List.mem_cons_self, List.mem_singleton.mp h4, hnot⟩
      · right
        refine ⟨o2, List.mem_cons_of_mem _ ho2, he, ?_⟩
        intro hm
        apply hnin
        obtain ⟨cc, hcc, hcn⟩ := List.mem_map.mp hm
        have hcc1 : cc ∈ t1.cols := (swapOrder_mem _ t1 _ _ _ h1 cc).mpr (by
          show cc ∈ t.cols ++ [{ oc with action := Action.remove }]
          exact List.mem_append_left _ hcc)
        exact hcn ▸ List.mem_map_of_mem hcc1
    · rw [if_neg hcond] at h1
      have := pure_ok h1; subst this
      intro c hc
      rcases ih t t' _ h hp hs c hc with h2 | ⟨o2, ho2, he, hnin⟩
      · exact Or.inl h2
      · exact Or.inr ⟨o2, List.mem_cons_of_mem _ ho2, he, hnin⟩

/-- the down walk prints the ADD COLUMN of every `remove` record, carrying the record's attributes -/
theorem walkCols_readd (g : Globals) (tb : String) : ∀ (cols before : List Column) (c : Column),
    c ∈ cols → c.action = .remove → ∃ pos, Stmt.addColumn tb (c.colDef false) pos ∈ (walkCols g tb false before cols).1 := by
  intro cols
  induction cols with
  | nil => intro _ c hc; cases hc
  | cons x rest ih =>
    intro before c hc ha
    unfold walkCols
    simp only
    rcases List.mem_cons.mp hc with rfl | hc'
    · have hne : (c.action == .none) = false := by rw [ha]; rfl
      simp only [hne, Bool.false_eq_true, if_false, Column.migrationDownAlter, Column.migrationUpAlter, ha]
      exact ⟨_, List.mem_append_left _ (List.mem_singleton.mpr rfl)⟩
    · obtain ⟨pos, hpos⟩ := ih (before ++ [x]) c hc' ha
      refine ⟨pos, ?_⟩
      by_cases hnone : (x.action == .none) = true
      · simp only [hnone, if_true]; exact hpos
      · simp only [hnone, Bool.false_eq_true, if_false]
        exact List.mem_append_right _ hpos

/-- every statement of the down walk is printed for one of the records -/
theorem walkCols_shape_down (g : Globals) (tb : String) : ∀ (cols before : List Column),
    ∀ s ∈ (walkCols g tb false before cols).1, ∃ c ∈ cols, c.action ≠ .none ∧ ∃ after, s ∈ c.migrationDownAlter g tb after := by
  intro cols
  induction cols with
  | nil => intro before s hs; simp [walkCols] at hs
  | cons c rest ih =>
    intro before s hs
    unfold walkCols at hs
    simp only at hs
    by_cases hnone : c.action = .none
    · simp only [hnone, beq_self_eq_true, if_true] at hs
      obtain ⟨x, hx, h1, h2⟩ := ih (before ++ [c]) s hs
      exact ⟨x, List.mem_cons_of_mem _ hx, h1, h2⟩
    · have hne : (c.action == .none) = false := by simpa using hnone
      simp only [hne, Bool.false_eq_true, if_false] at hs
      rcases List.mem_append.mp hs with h1 | h1
      · exact ⟨c, by simp, hnone, _, h1⟩
      · obtain ⟨x, hx, h2, h3⟩ := ih (before ++ [c]) s h1
        exact ⟨x, List.mem_cons_of_mem _ hx, h2, h3⟩

end Table

/-- **C02: a column only the old side has is re-added by the down migration with the old side's definition**, end to
    end (MySQL reader model, column definitions without an inline PRIMARY KEY) -/
theorem removed_column_def (g : Globals) (hg : g.dialect = .mysql) (rc : Bool)
    (old new : List Stmt) (dbO dbN : DB) (ho : old.all Stmt.elemSafe = true) (hn : new.all Stmt.elemSafe = true)
    (hpo : old.all Stmt.plainOpts = true) (hpn : new.all Stmt.plainOpts = true)
    (heo : execAll rc [] old = some dbO) (hen : execAll rc [] new = some dbN)
    (d : Migration) (hd : loadAndDiff g old new = .ok d)
    (t : String) (tbO tbN : TableSpec) (hfo : dbO.find t = some tbO) (hfn : dbN.find t = some tbN)
    (hc : Abs.OrderCompatible tbN.colNames tbO.colNames)
    (cO : ColSpec) (hcO : cO ∈ tbO.cols) (hgone : cO.name ∉ tbN.colNames) :
    ∃ td ∈ d.tables, td.name = t ∧ td.action = .none ∧
      ∃ cd pos, Stmt.addColumn t cd pos ∈ (Table.walkCols g t false [] td.cols).1 ∧
        (colOf cd).2 = false ∧ (colOf cd).1.name = cO.name ∧ (colOf cd).1.typ = cO.typ ∧ (colOf cd).1.opts.Perm cO.opts := by
  have hoc : old.all Stmt.colSafe = true :=
    List.all_eq_true.mpr (fun s hs => Stmt.colSafe_of_elemSafe s (List.all_eq_true.mp ho s hs))
  have hnc : new.all Stmt.colSafe = true :=
    List.all_eq_true.mpr (fun s hs => Stmt.colSafe_of_elemSafe s (List.all_eq_true.mp hn s hs))
  unfold loadAndDiff at hd
  obtain ⟨o, hlo, hd⟩ := bind_ok hd
  obtain ⟨n, hln, hd⟩ := bind_ok hd
  obtain ⟨mo, hmo', hro⟩ := ReaderMysql.run_rel rc old {} [] dbO Rel.empty hoc heo
  obtain ⟨mn, hmn', hrn⟩ := ReaderMysql.run_rel rc new {} [] dbN Rel.empty hnc hen
  have hplo : mo.Plain False := ReaderMysql.run_plain old {} mo Migration.plain_empty hpo (fun k => k.elim) hmo'
  have : mo = o := by
    have : readScript g {} old = .ok mo := by unfold readScript; rw [hg]; exact hmo'
    rw [this] at hlo; exact Except.ok.inj hlo
  subst this
  have : mn = n := by
    have : readScript g {} new = .ok mn := by unfold readScript; rw [hg]; exact hmn'
    rw [this] at hln; exact Except.ok.inj hln
  subst this
  obtain ⟨io, to, hgo, hmo, hdo, hnmo, hcolo, _, htyO⟩ := hro.lookup hfo
  obtain ⟨i, tn, _, hmn, hdn, hnmn, hcoln, _, htyN⟩ := hrn.lookup hfn
  have hmemo := List.mem_of_getElem? hmo
  have hmemn := List.mem_of_getElem? hmn
  unfold Migration.diff at hd
  obtain ⟨ts, h1, hd⟩ := bind_ok hd
  obtain ⟨td, htd, hspec⟩ := Migration.diffTables1_getElem g.dialect mo mn.tables ts i tn h1 hmn
  rw [hnmn, hgo] at hspec
  obtain ⟨ot, hot, hspec⟩ := hspec
  have : ot = to := by rw [hmo] at hot; exact (Option.some.inj hot).symm
  subst this
  have hex : ot.exists_ = true := by
    unfold Table.exists_; rw [(hro.fresh ot hmemo).2]; rfl
  rw [if_pos hex] at hspec
  obtain ⟨t1, ht1, htdeq⟩ := hspec
  obtain ⟨extra, hext⟩ := Migration.diffTables2_prefix mo.tables _ d hd
  have htd_mem : td ∈ d.tables := by
    rw [hext]; exact List.mem_append_left _ (List.mem_of_getElem? htd)
  have hi_n := hrn.inv.each tn hmemn
  have hi_o := hro.inv.each ot hmemo
  have hdi := Table.diff_inv g.dialect tn ot t1 hi_n hi_o (hrn.np tn hmemn) ht1
  have hname' : td.name = t := by rw [htdeq]; show t1.name = t; rw [hdi.2]; exact hnmn
  -- the old model column of that name
  have hmO : cO.name ∈ ot.colNames := by rw [hcolo]; exact List.mem_map_of_mem hcO
  obtain ⟨oc, hoc', hocn⟩ := List.mem_map.mp hmO
  obtain ⟨cs', hcs', hcsn', hcst', hcso'⟩ := htyO oc hoc'
  have hndO : tbO.colNames.Nodup := by rw [← hcolo]; exact hi_o.cols.nodup
  have hndN : tbN.colNames.Nodup := by rw [← hcoln]; exact hi_n.cols.nodup
  have e2 : cs' = cO := eq_of_name_nodup (fun x : ColSpec => x.name) hndO hcs' hcO (hcsn'.trans hocn)
  rw [e2] at hcst' hcso'
  have hploc := (hplo ot hmemo).opts oc hoc'
  -- through `Table.Diff`: the two column loops leave the record `{oc with remove}`
  obtain ⟨cols1, tc, hc1, hc2, hlike⟩ := Table.diff_like g.dialect tn ot t1 ht1
  have htag := Table.diff_cols_tagged g.dialect tn ot tc cols1 hi_n hi_o (hrn.np tn hmemn) (hrn.fresh tn hmemn).1
    (hro.fresh ot hmemo).1 hc1 hc2
  have hnames : tc.colNames = Abs.Merge.merge tn.colNames ot.colNames := by
    have := congrArg (List.map Prod.fst) htag.1
    rw [Abs.tagged_names] at this
    rw [← this]
    simp [absCols, Table.colNames, List.map_map, Function.comp_def]
  have hinM : oc.name ∈ Abs.Merge.merge tn.colNames ot.colNames := by
    have hcc : Abs.OrderCompatible tn.colNames ot.colNames := by rw [hcoln, hcolo]; exact hc
    have := (Abs.Merge.merge_correct tn.colNames ot.colNames hi_n.cols.nodup hi_o.cols.nodup hcc).1
    have hm : oc.name ∈ ot.colNames := List.mem_map_of_mem hoc'
    rw [← this] at hm
    exact (List.mem_filter.mp hm).1
  rw [← hnames] at hinM
  obtain ⟨c, hcT, hcn⟩ := List.mem_map.mp hinM
  have hn1 : cols1.map (·.name) = tn.colNames := Table.diffCols1_names g.dialect ot tn.cols cols1 hc1
  have hi0 : Table.Inv { tn with cols := cols1 } :=
    ⟨by show NInv (cols1.map (·.name)) _; rw [hn1]; exact hi_n.cols, hi_n.idxs, hi_n.fks⟩
  have hrec : ({ oc with action := .remove } : Column) ∈ tc.cols := by
    rcases Table.diffCols2_mem_full _ ot.cols { tn with cols := cols1 } tc [] hi0 (hrn.np tn hmemn) hc2 c hcT with h | ⟨oc', hoc'', he, _⟩
    · exfalso
      have : c.name ∈ tn.colNames := by rw [← hn1]; exact List.mem_map_of_mem h
      rw [hcn, hocn, hcoln] at this
      exact hgone this
    · have : oc' = oc := by
        apply eq_of_name_nodup (fun x : Column => x.name) hi_o.cols.nodup hoc'' hoc'
        have : c.name = oc'.name := by rw [he]
        exact this.symm.trans hcn
      rw [this] at he
      rw [← he]; exact hcT
  obtain ⟨x, hx, hxn, hxa, hxt, hxo, _⟩ := hlike _ hrec
  have hxtd : x ∈ td.cols := by rw [htdeq]; exact hx
  have hxa : x.action = .remove := hxa
  have hxo : withoutFkMarks x.cur.opts = withoutFkMarks oc.cur.opts := hxo
  have hnopk : x.cur.opts.any (·.kind == .primaryKey) = false := no_pk_of_like _ _ hploc hxo
  obtain ⟨pos, hpos⟩ := Table.walkCols_readd g t td.cols [] x hxtd hxa
  refine ⟨td, htd_mem, hname', by rw [htdeq], _, pos, hpos, ?_, ?_, ?_, ?_⟩
  · show ((optsOf x.cur.opts).2 && !false) = false
    rw [optsOf_snd, hnopk]; rfl
  · exact (hxn : x.name = oc.name).trans hocn
  · show x.cur.typeText = cO.typ
    unfold Attr.typeText
    have : x.cur.typ = oc.cur.typ := hxt
    rw [this, hcst']; rfl
  · show (optsOf x.cur.opts).1.Perm cO.opts
    rw [Table.optsOf_fst, ← optKinds_withoutFkMarks, hxo, optKinds_withoutFkMarks]
    exact hcso'

theorem downAlter_table (g : Globals) (c : Column) (tb after : String) : ∀ s ∈ c.migrationDownAlter g tb after, s.table = tb := by
  intro s hs
  unfold Column.migrationDownAlter at hs
  cases ha : c.action <;> rw [ha] at hs <;> simp only at hs
  · cases hs
  · exact upAlter_table g _ tb after s hs
  · exact upAlter_table g _ tb after s hs
  · exact upAlter_table g _ tb after s hs
  · cases hs
  · exact upAlter_table g _ tb after s hs

/-- **C02, the column clause on the reference engine.**  Under the hypotheses of `columns_spec_up`: executing the
    statements `MigrationColumnDown` prints for the diffed record on the reference engine's *new* column list succeeds
    at every step and ends in a column list equal to the *old* one (same columns, same order, same types, same options
    up to order). -/
theorem columns_spec_down (g : Globals) (hg : g.dialect = .mysql) (hio : g.ignoreOrder = false) (rc : Bool)
    (old new : List Stmt) (dbO dbN : DB) (ho : old.all Stmt.elemSafe = true) (hn : new.all Stmt.elemSafe = true)
    (hpo : old.all Stmt.plainOpts = true) (hpn : new.all Stmt.plainOpts = true)
    (heo : execAll rc [] old = some dbO) (hen : execAll rc [] new = some dbN)
    (d : Migration) (hd : loadAndDiff g old new = .ok d)
    (t : String) (tbO tbN : TableSpec) (hfo : dbO.find t = some tbO) (hfn : dbN.find t = some tbN)
    (hc : Abs.OrderCompatible tbN.colNames tbO.colNames) (hne : ∀ n ∈ tbN.colNames ++ tbO.colNames, n ≠ "") :
    ∃ td ∈ d.tables, td.name = t ∧ td.action = .none ∧
      td.migrationColumnDown g = .ok (Table.walkCols g t false [] td.cols) ∧
      ∃ cols', colExecAll tbN.cols (Table.walkCols g t false [] td.cols).1 = some cols' ∧
        colsEquiv cols' tbO.cols = true := by
  have hoc : old.all Stmt.colSafe = true :=
    List.all_eq_true.mpr (fun s hs => Stmt.colSafe_of_elemSafe s (List.all_eq_true.mp ho s hs))
  have hnc : new.all Stmt.colSafe = true :=
    List.all_eq_true.mpr (fun s hs => Stmt.colSafe_of_elemSafe s (List.all_eq_true.mp hn s hs))
  have hdInv : d.Inv := by
    have hd' := hd
    unfold loadAndDiff at hd'
    obtain ⟨o, hlo, hd'⟩ := bind_ok hd'
    obtain ⟨n, hln, hd'⟩ := bind_ok hd'
    obtain ⟨mo, hmo', hro⟩ := ReaderMysql.run_rel rc old {} [] dbO Rel.empty hoc heo
    obtain ⟨mn, hmn', hrn⟩ := ReaderMysql.run_rel rc new {} [] dbN Rel.empty hnc hen
    have : mo = o := by
      have : readScript g {} old = .ok mo := by unfold readScript; rw [hg]; exact hmo'
      rw [this] at hlo; exact Except.ok.inj hlo
    subst this
    have : mn = n := by
      have : readScript g {} new = .ok mn := by unfold readScript; rw [hg]; exact hmn'
      rw [this] at hln; exact Except.ok.inj hln
    subst this
    exact Migration.diff_inv g.dialect mn mo d hrn.inv hro.inv hrn.np hd'
  obtain ⟨td, htd, hname, hact, _, habs, hsimple, hne_td, hndtd, hNnd, hOnd⟩ :=
    diffed_record g hg rc old new dbO dbN hoc hnc heo hen d hd t tbO tbN hfo hfn hne
  have huniq : ∀ td' ∈ d.tables, td'.name = t → td' = td := fun td' h1 h2 =>
    eq_of_name_nodup (fun x : Table => x.name) hdInv.tbls.nodup h1 htd (h2.trans hname.symm)
  have hd_sq : g.dialect ≠ .sqlite := by rw [hg]; decide
  have habsDown : Abs.execAll tbN.colNames ((Table.walkCols g t false [] td.cols).1.filterMap colStmt) = some tbO.colNames := by
    rw [(walkCols_down_refines g hio hd_sq t td.cols [] hsimple hne_td).1, habs]
    exact Abs.columns_down tbN.colNames tbO.colNames hNnd hOnd hc
  have hndS : ((Table.walkCols g t false [] td.cols).1.filterMap stmtCol).Nodup :=
    (Table.walkCols_stmtCols g t false td.cols []).nodup hndtd
  have hss : ∀ s ∈ (Table.walkCols g t false [] td.cols).1, (∃ a, colStmt s = some a) ∨
      (∃ t' c, s = .modifyColumn t' c ∧ c.name ∈ tbN.cols.map (·.name) ∧
        ∀ s' ∈ (Table.walkCols g t false [] td.cols).1, colStmt s' ≠ some (.dropCol c.name)) := by
    intro s hs
    obtain ⟨c, hc, hca, after, hsc⟩ := Table.walkCols_shape_down g t td.cols [] s hs
    rcases hsimple c hc with h | h | h | h
    · exact absurd h hca
    · left
      simp only [Column.migrationDownAlter, Column.migrationUpAlter, h, hg] at hsc
      have : s = .dropColumn t c.name := by simpa using hsc
      rw [this]; exact ⟨_, rfl⟩
    · left
      simp only [Column.migrationDownAlter, Column.migrationUpAlter, h, List.mem_singleton] at hsc
      rw [hsc, hio]
      simp only [Bool.false_eq_true, if_false]
      split <;> exact ⟨_, rfl⟩
    · right
      simp only [Column.migrationDownAlter, Column.migrationUpAlter, h, List.mem_singleton] at hsc
      refine ⟨t, _, hsc, ?_, ?_⟩
      · show c.name ∈ tbN.colNames
        have hm : (c.name, tagOfAction c.action) ∈ absCols td.cols := List.mem_map_of_mem hc
        rw [habs, h] at hm
        obtain ⟨x, _, hx⟩ := List.mem_map.mp hm
        have hx1 : x = c.name := (Prod.mk.inj hx).1
        have hx2 : Abs.tagOf tbN.colNames tbO.colNames x = .keep := (Prod.mk.inj hx).2
        rw [hx1] at hx2
        unfold Abs.tagOf at hx2
        by_cases h1 : c.name ∈ tbN.colNames
        · exact h1
        · rw [if_neg h1] at hx2; cases hx2
      · intro s' hs' hdrop
        have h1 : stmtCol s = some c.name := by rw [hsc]; rfl
        have h2 : stmtCol s' = some c.name := by
          cases s' with
          | dropColumn t2 c2 => simpa [colStmt, stmtCol, Column.colDef] using hdrop
          | addColumn t2 c2 pos => cases pos <;> simp [colStmt] at hdrop
          | _ => simp [colStmt] at hdrop
        have := eq_of_filterMap_nodup stmtCol hndS hs hs' h1 h2
        rw [← this, hsc] at hdrop
        simp [colStmt] at hdrop
  obtain ⟨cols', hex, hnames⟩ := colExecAll_of_abs _ tbN.cols tbO.colNames hNnd hss habsDown
  refine ⟨td, htd, hname, hact, by unfold Table.migrationColumnDown; rw [hact, hname]; rfl, cols', hex, ?_⟩
  refine colsEquiv_of cols' tbO.cols hnames hOnd ?_
  intro x hx cO hcO hxn
  by_cases hinN : cO.name ∈ tbN.colNames
  · obtain ⟨cN, hcN, hcNn⟩ := List.mem_map.mp hinN
    by_cases hsame : cO.typ = cN.typ ∧ cO.opts.Perm cN.opts
    · obtain ⟨td', htd', hn', _, hno⟩ := equal_column_untouched g hg rc old new dbO dbN ho hn hpo hpn heo hen d hd t tbO tbN hfo hfn
        cN cO hcN hcO hcNn.symm hsame.1 hsame.2
      rw [huniq td' htd' hn'] at hno
      have hxN : x ∈ tbN.cols :=
        (colExecAll_untouched _ tbN.cols cols' cN.name hex (fun s hs => hno false s hs) x (hxn.trans hcNn.symm)).mp hx
      have : x = cN := eq_of_name_nodup (fun y : ColSpec => y.name) hNnd hxN hcN (hxn.trans hcNn.symm)
      rw [this]
      exact equiv_of cN cO hcNn hsame.1.symm hsame.2.symm
    · have hchg : cO.typ ≠ cN.typ ∨ ¬ cO.opts.Perm cN.opts := by
        by_cases ht : cO.typ = cN.typ
        · exact Or.inr (fun hp => hsame ⟨ht, hp⟩)
        · exact Or.inl ht
      obtain ⟨td', htd', hn', _, _, ⟨cd, hmem, hpk, hcdn, hcdt, hcdo⟩⟩ := changed_column_modified g hg rc old new dbO dbN ho hn hpo hpn
        heo hen d hd t tbO tbN hfo hfn cN cO hcN hcO hcNn.symm hchg
      rw [huniq td' htd' hn'] at hmem
      have hcdname : cd.name = cO.name := by rw [← colOf_name]; exact hcdn
      obtain ⟨pre, post, hsplit, hpost⟩ := split_of_filterMap_nodup stmtCol _ hndS _ cd.name hmem rfl
      rw [hsplit] at hex
      have := (colExecAll_set pre post _ cd tbN.cols cols' (Or.inr ⟨t, rfl⟩) hpost hex x (hxn.trans hcdname.symm)).mp hx
      rw [this]
      exact equiv_of _ cO hcdn hcdt hcdo
  · obtain ⟨td', htd', hn', _, cd, pos, hmem, hpk, hcdn, hcdt, hcdo⟩ := removed_column_def g hg rc old new dbO dbN ho hn hpo hpn
      heo hen d hd t tbO tbN hfo hfn hc cO hcO hinN
    rw [huniq td' htd' hn'] at hmem
    have hcdname : cd.name = cO.name := by rw [← colOf_name]; exact hcdn
    obtain ⟨pre, post, hsplit, hpost⟩ := split_of_filterMap_nodup stmtCol _ hndS _ cd.name hmem rfl
    rw [hsplit] at hex
    have := (colExecAll_set pre post _ cd tbN.cols cols' (Or.inl ⟨t, pos, rfl⟩) hpost hex x (hxn.trans hcdname.symm)).mp hx
    rw [this]
    exact equiv_of _ cO hcdn hcdt hcdo

/-- `columns_spec_down` together with the shape of the printed statements: each is about table `t` and carries no
    PRIMARY KEY option -/
theorem columns_spec_down_pre (g : Globals) (hg : g.dialect = .mysql) (hio : g.ignoreOrder = false) (rc : Bool)
    (old new : List Stmt) (dbO dbN : DB) (ho : old.all Stmt.elemSafe = true) (hn : new.all Stmt.elemSafe = true)
    (hpo : old.all Stmt.plainOpts = true) (hpn : new.all Stmt.plainOpts = true)
    (heo : execAll rc [] old = some dbO) (hen : execAll rc [] new = some dbN)
    (d : Migration) (hd : loadAndDiff g old new = .ok d)
    (t : String) (tbO tbN : TableSpec) (hfo : dbO.find t = some tbO) (hfn : dbN.find t = some tbN)
    (hc : Abs.OrderCompatible tbN.colNames tbO.colNames) (hne : ∀ n ∈ tbN.colNames ++ tbO.colNames, n ≠ "") :
    ∃ td ∈ d.tables, td.name = t ∧ td.action = .none ∧
      td.migrationColumnDown g = .ok (Table.walkCols g t false [] td.cols) ∧
      ∃ cols', colExecAll tbN.cols (Table.walkCols g t false [] td.cols).1 = some cols' ∧
        colsEquiv cols' tbO.cols = true ∧
        (∀ s ∈ (Table.walkCols g t false [] td.cols).1, s.table = t ∧ s.defNoPk = true) := by
  have hoc : old.all Stmt.colSafe = true :=
    List.all_eq_true.mpr (fun s hs => Stmt.colSafe_of_elemSafe s (List.all_eq_true.mp ho s hs))
  have hnc : new.all Stmt.colSafe = true :=
    List.all_eq_true.mpr (fun s hs => Stmt.colSafe_of_elemSafe s (List.all_eq_true.mp hn s hs))
  obtain ⟨td, htd, hname, hact, hdown, cols', hex, heq⟩ := columns_spec_down g hg hio rc old new dbO dbN ho hn hpo hpn heo hen d hd
    t tbO tbN hfo hfn hc hne
  obtain ⟨mn0, _, hrn0⟩ := ReaderMysql.run_rel rc new {} [] dbN Rel.empty hnc hen
  have hdInv : d.Inv := by
    have hd' := hd
    unfold loadAndDiff at hd'
    obtain ⟨o, hlo, hd'⟩ := bind_ok hd'
    obtain ⟨n, hln, hd'⟩ := bind_ok hd'
    obtain ⟨mo', hmo', hro'⟩ := ReaderMysql.run_rel rc old {} [] dbO Rel.empty hoc heo
    obtain ⟨mn, hmn', hrn⟩ := ReaderMysql.run_rel rc new {} [] dbN Rel.empty hnc hen
    have : mo' = o := by
      have : readScript g {} old = .ok mo' := by unfold readScript; rw [hg]; exact hmo'
      rw [this] at hlo; exact Except.ok.inj hlo
    subst this
    have : mn = n := by
      have : readScript g {} new = .ok mn := by unfold readScript; rw [hg]; exact hmn'
      rw [this] at hln; exact Except.ok.inj hln
    subst this
    exact Migration.diff_inv g.dialect mn mo' d hrn.inv hro'.inv hrn.np hd'
  have huniq : ∀ td' ∈ d.tables, td'.name = t → td' = td := fun td' h1 h2 =>
    eq_of_name_nodup (fun x : Table => x.name) hdInv.tbls.nodup h1 htd (h2.trans hname.symm)
  have hndtd : (td.cols.map (·.name)).Nodup := (hdInv.each td htd).cols.nodup
  have hndS : ((Table.walkCols g t false [] td.cols).1.filterMap stmtCol).Nodup :=
    (Table.walkCols_stmtCols g t false td.cols []).nodup hndtd
  have hss : ∀ s ∈ (Table.walkCols g t false [] td.cols).1, s.table = t ∧ s.defNoPk = true := by
    intro s hs
    obtain ⟨c, hc', hca, after, hsc⟩ := Table.walkCols_shape_down g t td.cols [] s hs
    refine ⟨downAlter_table g c t after s hsc, ?_⟩
    have hnamesEq : cols'.map (·.name) = tbO.cols.map (·.name) := by
      have : ∀ (a b : List ColSpec), colsEquiv a b = true → a.map (·.name) = b.map (·.name) := by
        intro a
        induction a with
        | nil => intro b h; cases b with
          | nil => rfl
          | cons _ _ => simp [colsEquiv] at h
        | cons x r ih =>
          intro b h
          cases b with
          | nil => simp [colsEquiv] at h
          | cons y r' =>
            simp only [colsEquiv, Bool.and_eq_true] at h
            have hxy : x.name = y.name := by
              have := h.1; unfold ColSpec.equiv at this
              simp only [Bool.and_eq_true, beq_iff_eq] at this
              exact this.1.1
            simp [hxy, ih r' h.2]
      exact this _ _ heq
    have key : ∀ cd : ColDef, ((∃ t2 pos, s = .addColumn t2 cd pos) ∨ (∃ t2, s = .modifyColumn t2 cd)) → (colOf cd).2 = false := by
      intro cd hkind
      have h1 : stmtCol s = some cd.name := by
        rcases hkind with ⟨t2, pos, rfl⟩ | ⟨t2, rfl⟩ <;> rfl
      have hfin : ∀ cd0 : ColDef, (colOf cd0).2 = false →
          ((∃ t0 pos0, Stmt.addColumn t0 cd0 pos0 ∈ (Table.walkCols g t false [] td.cols).1) ∨
           (∃ t0, Stmt.modifyColumn t0 cd0 ∈ (Table.walkCols g t false [] td.cols).1)) →
          cd0.name = cd.name → (colOf cd).2 = false := by
        intro cd0 hpk0 hmem0 hn0
        rcases hmem0 with ⟨t0, pos0, hm0⟩ | ⟨t0, hm0⟩
        · have h2 : stmtCol (Stmt.addColumn t0 cd0 pos0) = some cd.name := by simp [stmtCol, hn0]
          have e := eq_of_filterMap_nodup stmtCol hndS hs hm0 h1 h2
          rcases hkind with ⟨t2, pos, rfl⟩ | ⟨t2, rfl⟩
          · have : cd = cd0 := by injection e
            rw [this]; exact hpk0
          · cases e
        · have h2 : stmtCol (Stmt.modifyColumn t0 cd0) = some cd.name := by simp [stmtCol, hn0]
          have e := eq_of_filterMap_nodup stmtCol hndS hs hm0 h1 h2
          rcases hkind with ⟨t2, pos, rfl⟩ | ⟨t2, rfl⟩
          · cases e
          · have : cd = cd0 := by injection e
            rw [this]; exact hpk0
      by_cases hinO : cd.name ∈ tbO.colNames
      · obtain ⟨cO, hcO, hcOn⟩ := List.mem_map.mp hinO
        by_cases hinN : cO.name ∈ tbN.colNames
        · obtain ⟨cN, hcN, hcNn⟩ := List.mem_map.mp hinN
          by_cases hsame : cO.typ = cN.typ ∧ cO.opts.Perm cN.opts
          · obtain ⟨td', htd', hn', _, hno⟩ := equal_column_untouched g hg rc old new dbO dbN ho hn hpo hpn heo hen d hd t tbO tbN hfo hfn
              cN cO hcN hcO hcNn.symm hsame.1 hsame.2
            rw [huniq td' htd' hn'] at hno
            exact absurd (by rw [h1, hcNn, hcOn]) (hno false s hs)
          · have hchg : cO.typ ≠ cN.typ ∨ ¬ cO.opts.Perm cN.opts := by
              by_cases ht : cO.typ = cN.typ
              · exact Or.inr (fun hp => hsame ⟨ht, hp⟩)
              · exact Or.inl ht
            obtain ⟨td', htd', hn', _, _, ⟨cd0, hmem, hpk, hcdn, _, _⟩⟩ := changed_column_modified g hg rc old new dbO dbN ho hn hpo hpn
              heo hen d hd t tbO tbN hfo hfn cN cO hcN hcO hcNn.symm hchg
            rw [huniq td' htd' hn'] at hmem
            exact hfin cd0 hpk (Or.inr ⟨t, hmem⟩) (by rw [← colOf_name, hcdn, hcOn])
        · obtain ⟨td', htd', hn', _, cd0, pos0, hmem, hpk, hcdn, _, _⟩ := removed_column_def g hg rc old new dbO dbN ho hn hpo hpn
            heo hen d hd t tbO tbN hfo hfn hc cO hcO hinN
          rw [huniq td' htd' hn'] at hmem
          exact hfin cd0 hpk (Or.inl ⟨t, pos0, hmem⟩) (by rw [← colOf_name, hcdn, hcOn])
      · exfalso
        obtain ⟨pre, post, hsplit, hpost⟩ := split_of_filterMap_nodup stmtCol _ hndS s cd.name hs h1
        rw [hsplit] at hex
        have hmem : (colOf cd).1 ∈ cols' :=
          (colExecAll_set pre post s cd tbN.cols cols' hkind hpost hex (colOf cd).1 (colOf_name cd)).mpr rfl
        apply hinO
        show cd.name ∈ tbO.cols.map (·.name)
        rw [← hnamesEq, ← colOf_name]
        exact List.mem_map_of_mem hmem
    cases s with
    | addColumn t2 cd pos =>
      show (!(colOf cd).2) = true
      rw [key cd (Or.inl ⟨t2, pos, rfl⟩)]; rfl
    | modifyColumn t2 cd =>
      show (!(colOf cd).2) = true
      rw [key cd (Or.inr ⟨t2, rfl⟩)]; rfl
    | _ => rfl
  exact ⟨td, htd, hname, hact, hdown, cols', hex, heq, hss⟩


/-- **C02, the column clause on the reference engine, at the level of the database.**  Executed on the reference
    engine's *new* schema (referential checks aside), the statements `MigrationColumnDown` prints for the table are
    well-formed at every step; afterwards the table's column list is equal to the old side's and every other table is
    untouched. -/
theorem columns_spec_down_db (g : Globals) (hg : g.dialect = .mysql) (hio : g.ignoreOrder = false) (rc : Bool)
    (old new : List Stmt) (dbO dbN : DB) (ho : old.all Stmt.elemSafe = true) (hn : new.all Stmt.elemSafe = true)
    (hpo : old.all Stmt.plainOpts = true) (hpn : new.all Stmt.plainOpts = true)
    (heo : execAll rc [] old = some dbO) (hen : execAll rc [] new = some dbN)
    (d : Migration) (hd : loadAndDiff g old new = .ok d)
    (t : String) (tbO tbN : TableSpec) (hfo : dbO.find t = some tbO) (hfn : dbN.find t = some tbN)
    (hc : Abs.OrderCompatible tbN.colNames tbO.colNames) (hne : ∀ n ∈ tbN.colNames ++ tbO.colNames, n ≠ "") :
    ∃ td ∈ d.tables, td.name = t ∧ td.migrationColumnDown g = .ok (Table.walkCols g t false [] td.cols) ∧
      ∃ db' tb', execAll false dbN (Table.walkCols g t false [] td.cols).1 = some db' ∧
        db'.find t = some tb' ∧ colsEquiv tb'.cols tbO.cols = true ∧
        (∀ u, u ≠ t → db'.find u = dbN.find u) ∧ db'.map (·.name) = dbN.map (·.name) := by
  have hnc : new.all Stmt.colSafe = true :=
    List.all_eq_true.mpr (fun s hs => Stmt.colSafe_of_elemSafe s (List.all_eq_true.mp hn s hs))
  obtain ⟨td, htd, hname, _, hdown, cols', hex, heq, hss⟩ := columns_spec_down_pre g hg hio rc old new dbO dbN ho hn hpo hpn
    heo hen d hd t tbO tbN hfo hfn hc hne
  obtain ⟨mn0, _, hrn0⟩ := ReaderMysql.run_rel rc new {} [] dbN Rel.empty hnc hen
  obtain ⟨db', tb', he', hf', hc', hother, hnames'⟩ := execAll_of_colExecAll _ dbN t tbN cols' hrn0.nodup hfn hss hex
  exact ⟨td, htd, hname, hdown, db', tb', he', hf', by rw [hc']; exact heq, hother, hnames'⟩

end Sqlize
