/-
  Proofs/Rounds.lean — C04 on the implementation model and the reference engine: the generate–append–reload loop, for
  revision lists of any length.

  `histM g revs` is the history the workflow writes: for each revision (oldest first) the up migration `modelUp` prints
  between the history so far and the revision's script is appended — as it reaches the text (`Stmt.textual`).
  `rounds`: in the scope of `schema_spec_up` at every step, the history is accepted by the reference engine statement by
  statement and describes a schema `DB.equiv` to the newest revision's.  The induction needs three things beyond the
  one-step theorem: the printed migration stays inside the vocabulary the one-step theorem assumes of its *old* side
  (Proofs/UpVocab), the engine does not see the difference between printed and textual statements (Proofs/Textual), and
  the scope conditions only depend on the old schema up to `DB.equiv` (`UpScope.of_equiv`).
-/
import SqlizeModel.Proofs.UpVocab
import SqlizeModel.Proofs.SpecUnchanged

namespace Sqlize
open Spec

/-- the hypotheses of `schema_spec_up` / `schema_up_vocab` on a pair of reference schemas -/
structure UpScope (dbO dbN : DB) : Prop where
  names : ∀ tb ∈ dbO ++ dbN, tb.name ≠ "" ∧ tb.name ≠ Migration.defaultMigrationTable
  both : ∀ tbO ∈ dbO, ∀ tbN ∈ dbN, tbO.name = tbN.name →
    Abs.OrderCompatible tbN.colNames tbO.colNames ∧ (∀ n ∈ tbN.colNames ++ tbO.colNames, n ≠ "") ∧ tbO.pk = tbN.pk ∧
    (∀ dc : List String, (∀ c ∈ dc, c ∉ tbN.colNames) →
      ∀ s ∈ tbN.idxs, ∀ o ∈ tbO.idxs, o.name = s.name → o ≠ s → ∃ c ∈ o.cols, c ∉ dc) ∧
    (∀ s ∈ tbN.fks, ∀ o ∈ tbO.fks, s.name = o.name → s = o)

theorem equiv_find (a b : DB) (h : a.equiv b = true) : ∀ t ∈ a, ∃ u ∈ b, t.equiv u = true := by
  unfold DB.equiv DB.equivBy at h
  simp only [Bool.and_eq_true] at h
  intro t ht
  have := List.all_eq_true.mp h.2 t ht
  cases hf : b.find t.name with
  | none => rw [hf] at this; cases this
  | some u => rw [hf] at this; exact ⟨u, mem_of_find hf, this⟩

/-- the scope conditions see the old schema only up to `DB.equiv` -/
theorem UpScope.of_equiv {dbO dbO' dbN : DB} (hs : UpScope dbO dbN) (he : dbO'.equiv dbO = true) : UpScope dbO' dbN := by
  have key : ∀ t' ∈ dbO', ∃ u ∈ dbO, t'.name = u.name ∧ t'.colNames = u.colNames ∧ t'.pk = u.pk ∧
      (∀ i, i ∈ t'.idxs ↔ i ∈ u.idxs) ∧ (∀ f, f ∈ t'.fks ↔ f ∈ u.fks) ∧
      (∀ c' ∈ t'.cols, ∃ c ∈ u.cols, c'.opts.Perm c.opts) := by
    intro t' ht'
    obtain ⟨u, hu, heq⟩ := equiv_find dbO' dbO he t' ht'
    have heq' := heq
    unfold TableSpec.equiv at heq
    simp only [Bool.and_eq_true, beq_iff_eq] at heq
    obtain ⟨⟨⟨⟨h1, h2⟩, h3⟩, h4⟩, h5⟩ := heq
    refine ⟨u, hu, h1, colsEquiv_names _ _ h2, h3, fun i => (permEq_perm _ _ h4).mem_iff,
      fun f => (permEq_perm _ _ h5).mem_iff, ?_⟩
    · intro c' hc'
      obtain ⟨c, hc, _, _, hp⟩ := colsEquiv_mem _ _ (colsEquiv_symm _ _ h2) c' hc'
      exact ⟨c, hc, hp.symm⟩
  refine ⟨?_, ?_⟩
  · intro tb htb
    rcases List.mem_append.mp htb with h | h
    · obtain ⟨u, hu, hn, _⟩ := key tb h
      rw [hn]; exact hs.names u (List.mem_append_left _ hu)
    · exact hs.names tb (List.mem_append_right _ h)
  · intro tbO' htbO' tbN htbN hn
    obtain ⟨u, hu, hnu, hcn, hpk, hidx, hfk, _⟩ := key tbO' htbO'
    obtain ⟨h1, h2, h3, h4, h5⟩ := hs.both u hu tbN htbN (hnu.symm.trans hn)
    rw [hcn, hpk]
    refine ⟨h1, h2, h3, ?_, ?_⟩
    · intro dc hdc s hsm o ho hon hne
      exact h4 dc hdc s hsm o ((hidx o).mp ho) hon hne
    · intro s hsm o ho hon
      exact h5 s hsm o ((hfk o).mp ho) hon

/-- the history the workflow writes for the revisions (newest first): the printed up migrations, as text, appended -/
def histM (g : Globals) : List (List Stmt) → M (List Stmt)
  | [] => pure []
  | m :: older => do
    let h ← histM g older
    let up ← modelUp g h m
    pure (h ++ up.map Stmt.textual)

/-- the schema the revisions leave (newest first) -/
def lastDB : List (List Stmt × DB) → DB
  | [] => []
  | p :: _ => p.2

/-- every step of the revision list is inside the scope of the one-step theorem -/
def ChainOK : List (List Stmt × DB) → Prop
  | [] => True
  | p :: older => UpScope (lastDB older) p.2 ∧ ChainOK older

/-- **C04 on the model: the history converges to the models, for revision lists of any length.**  For revisions given as
    scripts with the reference schemas they describe (newest first; MySQL reader model, default field order), each step
    inside the scope of the whole-schema theorem of C01: the workflow's history is computed without error, stays inside
    the vocabulary, is accepted by the reference engine statement by statement, and describes a schema `DB.equiv` to
    the newest revision's. -/
theorem rounds (g : Globals) (hg : g.dialect = .mysql) (hio : g.ignoreOrder = false) :
    ∀ (revs : List (List Stmt × DB)),
      (∀ p ∈ revs, p.1.all Stmt.elemSafe = true ∧ p.1.all Stmt.plainOpts = true ∧ execAll false [] p.1 = some p.2) →
      ChainOK revs →
      ∃ h dbH, histM g (revs.map (·.1)) = .ok h ∧ h.all Stmt.elemSafe = true ∧ h.all Stmt.plainOpts = true ∧
        execAll false [] h = some dbH ∧ dbH.equiv (lastDB revs) = true := by
  intro revs
  induction revs with
  | nil => intro _ _; exact ⟨[], [], rfl, rfl, rfl, rfl, rfl⟩
  | cons p older ih =>
    intro hrev hchain
    obtain ⟨hsc, hco⟩ := hchain
    obtain ⟨h, dbH, hh, hes, hpl, hex, heq⟩ := ih (fun q hq => hrev q (List.mem_cons_of_mem _ hq)) hco
    obtain ⟨hpe, hpp, hpx⟩ := hrev p (by simp)
    have hsc' : UpScope dbH p.2 := hsc.of_equiv heq
    obtain ⟨d, out, hd, hU, ⟨db', he, hequ, hnmU⟩, _⟩ := schema_spec_up g hg hio false h p.1 dbH p.2 hes hpe hpl hpp hex hpx
      (fun tb htb => (hsc'.names tb htb).2) hsc'.both
    have hvoc := schema_up_vocab g hg hio false h p.1 dbH p.2 hes hpe hpl hpp hex hpx
      (fun tb htb => (hsc'.names tb htb).1)
      (fun a ha b hb e => by obtain ⟨_, x2, x3, _⟩ := hsc'.both a ha b hb e; exact ⟨x2, x3⟩) d out hd hU
    have hup : modelUp g h p.1 = .ok out.flatten := by
      unfold modelUp
      simp only [hd, hU, bind, Except.bind, pure, Except.pure]
    refine ⟨h ++ out.flatten.map Stmt.textual, db', ?_, ?_, ?_, ?_, hequ⟩
    · show histM g (p.1 :: older.map (·.1)) = _
      unfold histM
      simp only [hh, hup, bind, Except.bind, pure, Except.pure]
    · rw [List.all_append, hes, Bool.true_and, List.all_eq_true]
      intro s hs
      obtain ⟨s0, hs0, rfl⟩ := List.mem_map.mp hs
      rw [elemSafe_textual]
      have := hvoc s0 hs0
      unfold Stmt.vocab at this
      simp only [Bool.and_eq_true] at this
      exact this.1
    · rw [List.all_append, hpl, Bool.true_and, List.all_eq_true]
      intro s hs
      obtain ⟨s0, hs0, rfl⟩ := List.mem_map.mp hs
      have := hvoc s0 hs0
      unfold Stmt.vocab at this
      simp only [Bool.and_eq_true] at this
      exact this.2
    · rw [execAll_append, hex, Option.bind_some, execAll_textual]
      exact he

/-- … and the next diff of the newest revision against the history is empty in both directions -/
theorem rounds_next_diff_empty (g : Globals) (hg : g.dialect = .mysql) (hio : g.ignoreOrder = false)
    (p : List Stmt × DB) (older : List (List Stmt × DB))
    (hrev : ∀ q ∈ p :: older, q.1.all Stmt.elemSafe = true ∧ q.1.all Stmt.plainOpts = true ∧ execAll false [] q.1 = some q.2)
    (hchain : ChainOK (p :: older)) :
    ∃ h d, histM g ((p :: older).map (·.1)) = .ok h ∧ loadAndDiff g h p.1 = .ok d ∧
      d.migrationUp g = .ok (d, []) ∧ d.migrationDown g = .ok (d, []) := by
  obtain ⟨h, dbH, hh, hes, hpl, hex, heq⟩ := rounds g hg hio (p :: older) hrev hchain
  obtain ⟨hpe, hpp, hpx⟩ := hrev p (by simp)
  have hoc : h.all Stmt.colSafe = true :=
    List.all_eq_true.mpr (fun s hs => Stmt.colSafe_of_elemSafe s (List.all_eq_true.mp hes s hs))
  have hnc : p.1.all Stmt.colSafe = true :=
    List.all_eq_true.mpr (fun s hs => Stmt.colSafe_of_elemSafe s (List.all_eq_true.mp hpe s hs))
  obtain ⟨mo, _, hro⟩ := ReaderMysql.run_rel false h {} [] dbH Rel.empty hoc hex
  obtain ⟨mn, _, hrn⟩ := ReaderMysql.run_rel false p.1 {} [] p.2 Rel.empty hnc hpx
  obtain ⟨d, hd, hu, hdn⟩ := equal_schemas_empty g hg false h p.1 dbH p.2 hes hpe hpl hpp hex hpx
    (dbEquiv_of_equiv dbH p.2 hro.nodup hrn.nodup heq)
  exact ⟨h, d, hh, hd, hu, hdn⟩

end Sqlize
