/-
  Proofs/RoundsHash.lean — C04 on the implementation model, the fingerprint clause.  `HashValue` lists the table digests
  in the order of the tables (C07: "the same tables in the same order"), so the clause needs the order in which the
  history lists its tables: after each step it is `namesAfter` of the two name lists (Proofs/TableOrder, carried through
  `schema_spec_up`).  `ChainOrdered`: at every step the tables the two revisions share come first, in the same relative
  order, and the new ones after them — then the history lists the tables as the newest revision does, and with
  `hash_of_schema` (the value is a function of the reference schema, Proofs/HashScripts) and `DB.equiv` the two
  fingerprints are equal.
-/
import SqlizeModel.Proofs.Rounds
import SqlizeModel.Proofs.HashScripts
import SqlizeModel.Proofs.ExecEquiv

namespace Sqlize
open Spec

/-- every step lists the tables both revisions have first, in the same relative order, and the new ones after them -/
def ChainOrdered : List (List Stmt × DB) → Prop
  | [] => True
  | p :: older => namesAfter ((lastDB older).map (·.name)) (p.2.map (·.name)) = p.2.map (·.name) ∧ ChainOrdered older

/-- `rounds`, with the order of the tables: the history lists them as the newest revision does -/
theorem rounds_ordered (g : Globals) (hg : g.dialect = .mysql) (hio : g.ignoreOrder = false) :
    ∀ (revs : List (List Stmt × DB)),
      (∀ p ∈ revs, p.1.all Stmt.elemSafe = true ∧ p.1.all Stmt.plainOpts = true ∧ execAll false [] p.1 = some p.2) →
      ChainOK revs → ChainOrdered revs →
      ∃ h dbH, histM g (revs.map (·.1)) = .ok h ∧ h.all Stmt.elemSafe = true ∧ h.all Stmt.plainOpts = true ∧
        execAll false [] h = some dbH ∧ dbH.equiv (lastDB revs) = true ∧
        dbH.map (·.name) = (lastDB revs).map (·.name) := by
  intro revs
  induction revs with
  | nil => intro _ _ _; exact ⟨[], [], rfl, rfl, rfl, rfl, rfl, rfl⟩
  | cons p older ih =>
    intro hrev hchain hord
    obtain ⟨hsc, hco⟩ := hchain
    obtain ⟨hor, hoo⟩ := hord
    obtain ⟨h, dbH, hh, hes, hpl, hex, heq, hnmH⟩ := ih (fun q hq => hrev q (List.mem_cons_of_mem _ hq)) hco hoo
    obtain ⟨hpe, hpp, hpx⟩ := hrev p (by simp)
    have hsc' : UpScope dbH p.2 := hsc.of_equiv heq
    obtain ⟨d, out, hd, hU, ⟨db', he, hequ, hnmU⟩, _⟩ := schema_spec_up g hg hio false h p.1 dbH p.2 hes hpe hpl hpp hex hpx
      (fun tb htb => (hsc'.names tb htb).2) hsc'.both
    have hvoc := schema_up_vocab g hg hio false h p.1 dbH p.2 hes hpe hpl hpp hex hpx
      (fun tb htb => (hsc'.names tb htb).1)
      (fun a ha b hb e => by obtain ⟨_, x2, x3, _⟩ := hsc'.both a ha b hb e; exact ⟨x2, x3⟩) d out hd hU
    have hup : modelUp g h p.1 = .ok out.flatten := by
      unfold modelUp
      simp only [hd, hU, bind, Except.bind, pure, Except.pure]
    refine ⟨h ++ out.flatten.map Stmt.textual, db', ?_, ?_, ?_, ?_, hequ, ?_⟩
    · show histM g (p.1 :: older.map (·.1)) = _
      unfold histM
      simp only [hh, hup, bind, Except.bind, pure, Except.pure]
    · rw [List.all_append, hes, Bool.true_and, List.all_eq_true]
      intro s hs
      obtain ⟨s0, hs0, rfl⟩ := List.mem_map.mp hs
      rw [elemSafe_textual]
      have := hvoc s0 hs0
      unfold Stmt.vocab at this
      simp only [Bool.and_eq_true] at this
      exact this.1
    · rw [List.all_append, hpl, Bool.true_and, List.all_eq_true]
      intro s hs
      obtain ⟨s0, hs0, rfl⟩ := List.mem_map.mp hs
      have := hvoc s0 hs0
      unfold Stmt.vocab at this
      simp only [Bool.and_eq_true] at this
      exact this.2
    · rw [execAll_append, hex, Option.bind_some, execAll_textual]
      exact he
    · show db'.map (·.name) = p.2.map (·.name)
      rw [hnmU, hnmH]; exact hor

theorem colsEquiv_pairs : ∀ (a b : List ColSpec), colsEquiv a b = true →
    a.map (fun c => (c.name, c.typ)) = b.map (fun c => (c.name, c.typ)) := by
  intro a
  induction a with
  | nil => intro b h; cases b with
    | nil => rfl
    | cons _ _ => simp [colsEquiv] at h
  | cons x xs ih =>
    intro b h
    cases b with
    | nil => simp [colsEquiv] at h
    | cons y ys =>
      simp only [colsEquiv, Bool.and_eq_true] at h
      have hxy := h.1
      unfold ColSpec.equiv at hxy
      simp only [Bool.and_eq_true, beq_iff_eq] at hxy
      rw [List.map_cons, List.map_cons, ih ys h.2, hxy.1.1, hxy.1.2]

/-- two equivalent reference schemas that list their tables in the same order have the same value -/
theorem hashOf_of_equiv (H : String → String) (F : String → Int) (g : Globals) (A B : DB)
    (he : A.equiv B = true) (hn : A.map (·.name) = B.map (·.name)) (hnd : (B.map (·.name)).Nodup) :
    A.hashOf H F g = B.hashOf H F g := by
  have hlen : A.length = B.length := by simpa using congrArg List.length hn
  have hmap : A.map (TableSpec.hashOf H g) = B.map (TableSpec.hashOf H g) := by
    apply List.ext_getElem?
    intro i
    rw [List.getElem?_map, List.getElem?_map]
    cases ha : A[i]? with
    | none =>
      have : B[i]? = none := by
        rw [List.getElem?_eq_none_iff] at ha ⊢; omega
      rw [this]
    | some a =>
      have hi : i < A.length := (List.getElem?_eq_some_iff.mp ha).1
      cases hb : B[i]? with
      | none => rw [List.getElem?_eq_none_iff] at hb; omega
      | some b =>
        have hnab : a.name = b.name := by
          have h1 : (A.map (·.name))[i]? = some a.name := by rw [List.getElem?_map, ha]; rfl
          have h2 : (B.map (·.name))[i]? = some b.name := by rw [List.getElem?_map, hb]; rfl
          rw [hn, h2] at h1
          exact (Option.some.inj h1).symm
        obtain ⟨u, hu, heq⟩ := equiv_find A B he a (List.mem_of_getElem? ha)
        obtain ⟨e1, e2, e3, e4, _⟩ := equiv_parts heq
        have : u = b := eq_of_name_nodup (fun x : TableSpec => x.name) hnd hu (List.mem_of_getElem? hb) (e1.symm.trans hnab)
        subst this
        simp only [Option.map_some]
        congr 1
        apply TableSpec.hashOf_congr H g a u _ e4 e3
        rw [colsEquiv_pairs _ _ e2]
  unfold DB.hashOf
  have hemp : A.isEmpty = B.isEmpty := by
    cases A <;> cases B <;> simp_all
  rw [hemp, hmap]

/-- **C04 on the model, the fingerprint clause, for revision lists of any length**: in the scope of the convergence
    theorem, and when at every step the tables two consecutive revisions share come first in the same relative order
    (`ChainOrdered`; `HashValue` depends on the order of the tables), the fingerprint of the history the workflow writes
    equals the fingerprint of the newest revision — for any digest functions `H`, `F` (md5 and the integer fold are
    parameters) and any dialect templates / keyword case in `g`. -/
theorem rounds_fingerprint (H : String → String) (F : String → Int) (g : Globals) (hg : g.dialect = .mysql)
    (hio : g.ignoreOrder = false) (p : List Stmt × DB) (older : List (List Stmt × DB))
    (hrev : ∀ q ∈ p :: older, q.1.all Stmt.elemSafe = true ∧ q.1.all Stmt.plainOpts = true ∧ execAll false [] q.1 = some q.2)
    (hchain : ChainOK (p :: older)) (hord : ChainOrdered (p :: older)) :
    ∃ h mH mP v, histM g ((p :: older).map (·.1)) = .ok h ∧ ReaderMysql.run {} h = .ok mH ∧
      ReaderMysql.run {} p.1 = .ok mP ∧ mH.hashWith H F g = .ok v ∧ mP.hashWith H F g = .ok v := by
  obtain ⟨h, dbH, hh, hes, hpl, hex, heq, hnm⟩ := rounds_ordered g hg hio (p :: older) hrev hchain hord
  obtain ⟨hpe, hpp, hpx⟩ := hrev p (by simp)
  have hth : h.all Stmt.tablePk = true :=
    List.all_eq_true.mpr (fun s hs => ReaderMysql.tablePk_of_plainOpts s (List.all_eq_true.mp hpl s hs))
  have htp : p.1.all Stmt.tablePk = true :=
    List.all_eq_true.mpr (fun s hs => ReaderMysql.tablePk_of_plainOpts s (List.all_eq_true.mp hpp s hs))
  obtain ⟨mH, hmH, hvH⟩ := hash_of_schema H F g false h dbH hes hth hex
  obtain ⟨mP, hmP, hvP⟩ := hash_of_schema H F g false p.1 p.2 hpe htp hpx
  have hndP : (p.2.map (·.name)).Nodup := by
    have hnc : p.1.all Stmt.colSafe = true :=
      List.all_eq_true.mpr (fun s hs => Stmt.colSafe_of_elemSafe s (List.all_eq_true.mp hpe s hs))
    obtain ⟨_, _, hr⟩ := ReaderMysql.run_rel false p.1 {} [] p.2 Rel.empty hnc hpx
    exact hr.nodup
  refine ⟨h, mH, mP, _, hh, hmH, hmP, hvH, ?_⟩
  rw [hvP]
  congr 1
  exact (hashOf_of_equiv H F g dbH p.2 heq hnm hndP).symm

end Sqlize
